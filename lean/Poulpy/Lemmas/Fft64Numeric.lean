import Poulpy.Lemmas.Fft64Domain
import Mathlib.Tactic.IntervalCases
open Complex
namespace Fft64
open F64

/-- twiddle accuracy verified numerically by the gate for every dumped table: `2^-51` (measured: `≤ 2.78·2^-53`) -/
noncomputable def τ51 : ℝ := (2:ℝ) ^ (-51:Int)

/-- relative a-priori error of the whole pipeline in units of `2^-53` for `τ = 2^-51`: at most `20·K + 6` -/
theorem growth_le (K : Nat) (hK : K ≤ 15) : (G K τ51 - 1) * (1 + u) + u ≤ (20 * K + 6) * u := by
  interval_cases K <;> (unfold G γi γf κ u τ51; norm_num)

/-- `log2` of the proved bound on `Ma·Mb` for `n = 2·2^K` -/
def domBits : Nat → Nat
  | 0 => 48 | 1 => 44 | 2 => 41 | 3 => 38 | 4 => 36 | 5 => 34 | 6 => 31 | 7 => 29
  | 8 => 27 | 9 => 25 | 10 => 23 | 11 => 21 | 12 => 18 | 13 => 16 | 14 => 14 | 15 => 12
  | _ => 0

theorem η_small : η ≤ 1 / 2048 := by
  unfold η
  calc (2:ℝ) ^ (-1075:Int) ≤ (2:ℝ) ^ (-11:Int) := two_pow_le _ _ (by norm_num)
    _ = 1 / 2048 := by norm_num

theorem dom_numeric (K : Nat) (hK : K ≤ 15) :
    (4:ℝ) ^ K * (9 / 4) * ((20 * K + 6) * u) * (2:ℝ) ^ (domBits K) + η < 1 / 2 := by
  have h : (4:ℝ) ^ K * (9 / 4) * ((20 * K + 6) * u) * (2:ℝ) ^ (domBits K) ≤ 1 / 2 - 1 / 1024 := by
    interval_cases K <;> (unfold domBits u; norm_num)
  have := η_small
  linarith

/-- **numeric magnitude domain** of the FFT64 svp pipeline for `n = 2·2^K ≤ 2^16` and tables accurate to `2^-51`:
`Ma·Mb ≤ 2^(domBits K)`, i.e. `n·Ma·Mb ≤ 2^49, 2^46, 2^44, 2^42, 2^41, 2^40, 2^38, 2^37, 2^36, 2^35 (n = 1024), …, 2^28 (n = 65536)` -/
theorem svpDomain_numeric (K : Nat) (hK : K ≤ 15) (Ma Mb : ℝ) (hMa : 1 ≤ Ma) (hMb : 1 ≤ Mb)
    (h : Ma * Mb ≤ (2:ℝ) ^ (domBits K)) : SvpDomain K τ51 Ma Mb := by
  have hτ0 : 0 ≤ τ51 := by unfold τ51; positivity
  have hτ1 : τ51 ≤ 1 := by unfold τ51; exact zpow_le_one_of_nonpos₀ (by norm_num) (by norm_num)
  apply svpDomain_of_main K τ51 Ma Mb hτ0 hτ1 (by omega) hMa hMb
  have h1 := growth_le K hK
  have h2 := dom_numeric K hK
  have hu := u_pos
  have hP0 : 0 ≤ Ma * Mb := by positivity
  have h4 : (0:ℝ) < 4 ^ K * (9 / 4) := by positivity
  have s1 : 4 ^ K * (9 / 4) * ((G K τ51 - 1) * (1 + u) + u) ≤ 4 ^ K * (9 / 4) * ((20 * K + 6) * u) :=
    mul_le_mul_of_nonneg_left h1 h4.le
  have s2 : 4 ^ K * (9 / 4) * ((G K τ51 - 1) * (1 + u) + u) * (Ma * Mb) ≤ 4 ^ K * (9 / 4) * ((20 * K + 6) * u) * (Ma * Mb) :=
    mul_le_mul_of_nonneg_right s1 hP0
  have s3 : 4 ^ K * (9 / 4) * ((20 * K + 6) * u) * (Ma * Mb) ≤ 4 ^ K * (9 / 4) * ((20 * K + 6) * u) * (2:ℝ) ^ (domBits K) :=
    mul_le_mul_of_nonneg_left h (by positivity)
  linarith



/-- the intended angle parameter `j(lvl, blk)` of `Fft64.jpar` as a real number -/
noncomputable def jval (lvl blk : Nat) : ℝ := ((jpar lvl blk).1 : ℝ) / (2:ℝ) ^ (jpar lvl blk).2

theorem jval_zero : jval 0 0 = 1 / 4 := by unfold jval jpar; norm_num

theorem jval_even (lvl blk : Nat) : jval (lvl + 1) (2 * blk) = jval lvl blk / 2 := by
  unfold jval
  have : jpar (lvl + 1) (2 * blk) = ((jpar lvl blk).1, (jpar lvl blk).2 + 1) := by
    simp [jpar]
  rw [this]; simp only; rw [pow_succ]; field_simp

theorem jval_odd (lvl blk : Nat) : jval (lvl + 1) (2 * blk + 1) = jval lvl blk / 2 + 1 / 2 := by
  unfold jval
  have h1 : (2 * blk + 1) / 2 = blk := by omega
  have h2 : (2 * blk + 1) % 2 = 1 := by omega
  have : jpar (lvl + 1) (2 * blk + 1) = ((jpar lvl blk).1 + 2 ^ (jpar lvl blk).2, (jpar lvl blk).2 + 1) := by
    simp [jpar, h1, h2]
  rw [this]; simp only; rw [pow_succ]; push_cast; field_simp

/-- **what the gate checks numerically on every dumped table** (`vlib/fft64gen.py: table_accuracy`, positions and
angles printed by `pdriver fft64 idx`): every twiddle the network reads is a finite double pair within `τ` (complex
modulus) of the root of unity `e^{±2πi·j/2}` -/
def TableAccurate (τ : ℝ) (K : Nat) (omg iomg : Array Nat) : Prop :=
  (∀ lvl < K, ∀ blk < 2 ^ lvl, TwFin (twOf (fwdIdx K) omg lvl blk) ∧
      ‖twC (twOf (fwdIdx K) omg lvl blk) - cis (jval lvl blk / 2)‖ ≤ τ) ∧
  (∀ lvl < K, ∀ blk < 2 ^ lvl, TwFin (twOf (invIdx K) iomg lvl blk) ∧
      ‖twCi (twOf (invIdx K) iomg lvl blk) - cis (-(jval lvl blk / 2))‖ ≤ τ)

theorem accF_of_flat (τ : ℝ) (tw : Nat → Nat → Tw) (N : Nat)
    (h : ∀ lvl < N, ∀ blk < 2 ^ lvl, TwFin (tw lvl blk) ∧ ‖twC (tw lvl blk) - cis (jval lvl blk / 2)‖ ≤ τ) :
    ∀ (k lvl blk : Nat), lvl + k = N → blk < 2 ^ lvl → AccF τ tw k lvl blk (jval lvl blk) := by
  intro k
  induction k with
  | zero => intro _ _ _ _; trivial
  | succ k ih =>
    intro lvl blk hN hb
    obtain ⟨h1, h2⟩ := h lvl (by omega) blk hb
    refine ⟨h1, h2, ?_, ?_⟩
    · rw [← jval_even]; exact ih (lvl + 1) (2 * blk) (by omega) (by rw [pow_succ]; omega)
    · rw [← jval_odd]; exact ih (lvl + 1) (2 * blk + 1) (by omega) (by rw [pow_succ]; omega)

theorem accI_of_flat (τ : ℝ) (tw : Nat → Nat → Tw) (N : Nat)
    (h : ∀ lvl < N, ∀ blk < 2 ^ lvl, TwFin (tw lvl blk) ∧ ‖twCi (tw lvl blk) - cis (-(jval lvl blk / 2))‖ ≤ τ) :
    ∀ (k lvl blk : Nat), lvl + k = N → blk < 2 ^ lvl → AccI τ tw k lvl blk (jval lvl blk) := by
  intro k
  induction k with
  | zero => intro _ _ _ _; trivial
  | succ k ih =>
    intro lvl blk hN hb
    obtain ⟨h1, h2⟩ := h lvl (by omega) blk hb
    refine ⟨h1, h2, ?_, ?_⟩
    · rw [← jval_even]; exact ih (lvl + 1) (2 * blk) (by omega) (by rw [pow_succ]; omega)
    · rw [← jval_odd]; exact ih (lvl + 1) (2 * blk + 1) (by omega) (by rw [pow_succ]; omega)

/-- the pipeline theorem with the hypothesis in the form the gate checks -/
theorem svp_pipeline_exact' (K : Nat) (omg iomg : Array Nat) (τ Ma Mb : ℝ) (p x : List Int)
    (hacc : TableAccurate τ K omg iomg)
    (hp : p.length = 2 ^ (K + 1)) (hx : x.length = 2 ^ (K + 1))
    (hpM : ∀ c ∈ p, c.natAbs < 2 ^ 53 ∧ |(c:ℝ)| ≤ Ma) (hxM : ∀ c ∈ x, c.natAbs < 2 ^ 53 ∧ |(c:ℝ)| ≤ Mb)
    (hdom : SvpDomain K τ Ma Mb) : svpPipeline K omg iomg p x = Hal.negMul p x := by
  have a1 := accF_of_flat τ _ K hacc.1 K 0 0 (by omega) (by norm_num)
  have a2 := accI_of_flat τ _ K hacc.2 K 0 0 (by omega) (by norm_num)
  rw [jval_zero] at a1 a2
  exact svp_pipeline_exact K omg iomg τ Ma Mb p x a1 a2 hp hx hpM hxM hdom

end Fft64
