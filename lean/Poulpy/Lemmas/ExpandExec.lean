import Poulpy.Lemmas.GadgetCore
import Poulpy.Lemmas.ExpandIdx
import Poulpy.Lemmas.KsCompose
import Poulpy.Lemmas.AccAdd

/-!
# The executed row expansion (`Core.expandRowCols` / `Core.expandRow` / `Ks.expandRows`) without an abstract contract

`Lemmas/KsCompose.lean` states the GGSW key-switch / automorphism theorems modulo a row-expansion hypothesis `hexp`.  This file
discharges it on the executed model:

* `Core.expand_product_phase'`, `Core.expand_executed_identity'` — C04's `expand_product_phase` / `expand_executed_identity`
  (restated here because C03 cannot import `Props/C04`);
* `Core.expandAcc` — the big accumulator of cell `(row, c+1)`; `Core.expandRowCols_accumulator` — every cell `Core.expandRowCols`
  returns is the column-wise `vec_znx_big_normalize` of that accumulator (all shapes); `Core.expandRow_pre*` — what `Core.expandRow`
  feeds to it;
* `Core.ι_phaseRow_set_add` — the phase is linear in one column; `Core.expand_cell_value` — the value of the phase of the
  accumulator **including the body added on column `c+1`** is `s_c·Me + Σ_i (Σ_r digit·E − dropped − β^S·head)`;
* `Ks.ggsw_cells_value`, `Ks.ggsw_keyswitch_cells_value`, `Ks.ggsw_automorphism_cells_value` — the same for every cell of
  `Ks.expandRows`, `Ks.ggswKeyswitch`, `Ks.ggswAutomorphism`, with no row-expansion hypothesis.
-/

namespace Core
open Hal Ks C02L Core.Ops

/-! ### 1. C04's executed-product identities, restated -/

/-- `C04.expand_product_phase` -/
theorem expand_product_phase' (N : Nat) (sk : List Poly) (aDft : List Col) (t : ToGGSWKey) (c : Nat) (res0 : List Col) (l : Nat)
    (hd : 1 ≤ t.dsize) (hN : 0 < N) (hn : t.n = N)
    (h0 : shapeOk t.n (t.rank + 1) t.size res0 = true) (hM : ∀ j q, ((t.at c).toPMat.entry j q).length = N) :
    Ks.ι N (Ks.phaseRow sk ((Core.gglweProductDft aDft (t.at c) t.size res0).map (fun col => limbOr0 N col l)))
      = ∑ i ∈ Finset.range t.rank,
          Gadget.acc t.size t.dsize t.dnum (aDft.getD 0 []).length
            (Ks.inLimb N (mkBuf t.n t.rank (aDft.getD 0 []).length aDft) i) (Ks.keyPhase N sk (t.at c).toPMat i) l :=
  gglweProductDft_phase N sk aDft (t.at c) res0 l hd hN hn (Nat.succ_pos _) h0 hM

/-- the explicit gadget terms of output column `c+1`: `Σ_i (Σ_r digit_r(a_i)·E_{i,r} − dropped_i − β^S·head_i)` -/
noncomputable def expandErr (N : Nat) (sk : List Poly) (aDft : List Col) (t : ToGGSWKey) (c : Nat) (β : Ks.R N)
    (E : ℕ → ℕ → Ks.R N) : Ks.R N :=
  ∑ i ∈ Finset.range t.rank,
    (∑ r ∈ Finset.range t.dnum,
        Gadget.digit β t.dsize t.dnum (aDft.getD 0 []).length (Ks.inLimb N (mkBuf t.n t.rank (aDft.getD 0 []).length aDft) i) r * E i r
      - Gadget.dropped β t.size t.dsize t.dnum (aDft.getD 0 []).length
          (Ks.inLimb N (mkBuf t.n t.rank (aDft.getD 0 []).length aDft) i) (Ks.keyPhase N sk (t.at c).toPMat i)
      - β ^ t.size * Gadget.head β t.dsize t.dnum (aDft.getD 0 []).length
          (Ks.inLimb N (mkBuf t.n t.rank (aDft.getD 0 []).length aDft) i) (Ks.keyPhase N sk (t.at c).toPMat i))

/-- the part of the value of the mask columns that the gadget product uses, weighted by `σ`: `Σ_i σ_i·usedVal(a_i)` -/
noncomputable def expandUsed (N : Nat) (aDft : List Col) (t : ToGGSWKey) (β : Ks.R N) (σ : ℕ → Ks.R N) : Ks.R N :=
  ∑ i ∈ Finset.range t.rank,
    σ i * Gadget.usedVal β t.size t.dsize t.dnum (aDft.getD 0 []).length (Ks.inLimb N (mkBuf t.n t.rank (aDft.getD 0 []).length aDft) i)

/-- `C04.expand_executed_identity` -/
theorem expand_executed_identity' (N : Nat) (sk : List Poly) (aDft : List Col) (t : ToGGSWKey) (c : Nat) (res0 : List Col)
    (β sc body Me : Ks.R N) (σ : ℕ → Ks.R N) (E : ℕ → ℕ → Ks.R N)
    (hd : 1 ≤ t.dsize) (hN : 0 < N) (hn : t.n = N)
    (h0 : shapeOk t.n (t.rank + 1) t.size res0 = true) (hM : ∀ j q, ((t.at c).toPMat.entry j q).length = N)
    (hS : t.dnum * t.dsize ≤ t.size)
    (hkey : ∀ i, i < t.rank → ∀ r, r < t.dnum →
      Gadget.val β t.size (Ks.keyPhase N sk (t.at c).toPMat i r) = sc * σ i * β ^ (t.size - (r + 1) * t.dsize) + E i r)
    (hrow : body + ∑ i ∈ Finset.range t.rank,
        σ i * Gadget.usedVal β t.size t.dsize t.dnum (aDft.getD 0 []).length (Ks.inLimb N (mkBuf t.n t.rank (aDft.getD 0 []).length aDft) i) = Me) :
    ∑ l ∈ Finset.range t.size,
        Ks.ι N (Ks.phaseRow sk ((Core.gglweProductDft aDft (t.at c) t.size res0).map (fun col => limbOr0 N col l))) * β ^ (t.size - 1 - l)
      + sc * body
      = sc * Me + ∑ i ∈ Finset.range t.rank,
            (∑ r ∈ Finset.range t.dnum,
                Gadget.digit β t.dsize t.dnum (aDft.getD 0 []).length (Ks.inLimb N (mkBuf t.n t.rank (aDft.getD 0 []).length aDft) i) r * E i r
              - Gadget.dropped β t.size t.dsize t.dnum (aDft.getD 0 []).length
                  (Ks.inLimb N (mkBuf t.n t.rank (aDft.getD 0 []).length aDft) i) (Ks.keyPhase N sk (t.at c).toPMat i)
              - β ^ t.size * Gadget.head β t.dsize t.dnum (aDft.getD 0 []).length
                  (Ks.inLimb N (mkBuf t.n t.rank (aDft.getD 0 []).length aDft) i) (Ks.keyPhase N sk (t.at c).toPMat i)) := by
  have h := gglweProductDft_value N sk aDft (t.at c) res0 β sc σ E hd hN hn (Nat.succ_pos _) h0 hM hS hkey
  rw [show (∑ l ∈ Finset.range t.size,
        Ks.ι N (Ks.phaseRow sk ((Core.gglweProductDft aDft (t.at c) t.size res0).map (fun col => limbOr0 N col l))) * β ^ (t.size - 1 - l)) = _ from h,
    ← hrow]
  exact Core.expand_regroup _ _ _ _

/-! ### 2. The accumulator of every cell (structural, all shapes) -/

/-- the product `gglwe_product_dft(res_dft = 0, a_dft, tsk.at(c))` of output column `c+1` -/
def expandProd (n : Nat) (aDft : List Col) (t : ToGGSWKey) (c : Nat) : List Col :=
  Core.gglweProductDft aDft (t.at c) t.size (zeroCols n (t.rank + 1) t.size)

/-- **the big accumulator of cell `(row, c+1)`**: the product, with the body `a0` added on column `c+1`
(`vec_znx_big_add_small_assign(res_big, c+1, a_0, 0)`) -/
def expandAcc (big128 : Bool) (n : Nat) (a0 : Col) (aDft : List Col) (t : ToGGSWKey) (c : Nat) : List Col :=
  (expandProd n aDft t c).set (c + 1) (Core.bigAddSmallAssign big128 ((expandProd n aDft t c).getD (c + 1) []) a0)

theorem expandProd_length (n : Nat) (aDft : List Col) (t : ToGGSWKey) (c : Nat) : (expandProd n aDft t c).length = t.rank + 1 := by
  simp [expandProd, Core.gglweProductDft, ToGGSWKey.at]

theorem expandAcc_length (big128 : Bool) (n : Nat) (a0 : Col) (aDft : List Col) (t : ToGGSWKey) (c : Nat) :
    (expandAcc big128 n a0 aDft t c).length = t.rank + 1 := by
  simp [expandAcc, expandProd_length]

/-- **`expandRowCols_accumulator`**: `Core.expandRowCols` returns `t.rank` cells and cell `c` (output column `c+1`) is the column-wise
`vec_znx_big_normalize` of the accumulator `Core.expandAcc … c` — every shape, both accumulator widths. -/
theorem expandRowCols_accumulator (big128 : Bool) (n rb rs : Nat) (a0 : Col) (aDft : List Col) (t : ToGGSWKey) (cells : List (List Col))
    (h : expandRowCols big128 n rb rs a0 aDft t = some cells) :
    cells.length = t.rank ∧ ∀ (c : Nat) (cell : List Col), cells[c]? = some cell →
      c < t.rank ∧ (expandAcc big128 n a0 aDft t c).mapM (fun x => bigNormalizeOff big128 n rb rs 0 x t.base2k) = some cell := by
  unfold expandRowCols at h
  have hl := mapM_some_length _ _ _ h
  rw [List.length_range] at hl
  refine ⟨hl, ?_⟩
  intro c cell hcell
  have hc : c < t.rank := by rw [← hl]; exact (List.getElem?_eq_some_iff.mp hcell).1
  refine ⟨hc, ?_⟩
  have := mapM_some_getD _ 0 [] _ _ h c (by simpa using hc)
  have e1 : (List.range t.rank).getD c 0 = c := by simp [List.getD_eq_getElem?_getD, List.getElem?_range hc]
  have e2 : cells.getD c [] = cell := by simp [List.getD_eq_getElem?_getD, hcell]
  rw [e1, e2] at this
  exact this

/-- the `(a0, aDft)` that `Core.expandRow` hands to `Core.expandRowCols`: the body and the `rank` mask columns of the column-0 cell,
copied (`vec_znx_copy` / `vec_znx_dft_apply`) when the radices agree, converted to the key radix (`vec_znx_normalize`) otherwise -/
def expandPre (n rb rs : Nat) (glwe : List Col) (t : ToGGSWKey) : Option (Col × List Col) :=
  if rb = t.base2k then
    some (vecCopy n ((rs * rb + t.base2k - 1) / t.base2k) (glwe.getD 0 []),
          (List.range t.rank).map (fun i => Hal.dftApplyCol n 1 0 ((rs * rb + t.base2k - 1) / t.base2k) (glwe.getD (i + 1) [])))
  else
    ((List.range t.rank).mapM (fun i =>
        (normalizeCol? t.base2k ((rs * rb + t.base2k - 1) / t.base2k) 0 (glwe.getD (i + 1) []) rb n).map
          (fun c => Hal.dftApplyCol n 1 0 ((rs * rb + t.base2k - 1) / t.base2k) c))).bind (fun ad =>
      (normalizeCol? t.base2k ((rs * rb + t.base2k - 1) / t.base2k) 0 (glwe.getD 0 []) rb n).map (fun a0 => (a0, ad)))

/-- **`expandRow_pre`**: `Core.expandRow = Core.expandPre >>= Core.expandRowCols` -/
theorem expandRow_pre (big128 : Bool) (n rb rs : Nat) (glwe : List Col) (t : ToGGSWKey) :
    expandRow big128 n rb rs glwe t = (expandPre n rb rs glwe t).bind (fun p => expandRowCols big128 n rb rs p.1 p.2 t) := rfl

theorem expandRow_some (big128 : Bool) (n rb rs : Nat) (glwe : List Col) (t : ToGGSWKey) (rest : List (List Col))
    (h : expandRow big128 n rb rs glwe t = some rest) :
    ∃ a0 aDft, expandPre n rb rs glwe t = some (a0, aDft) ∧ expandRowCols big128 n rb rs a0 aDft t = some rest := by
  rw [expandRow_pre] at h
  cases hp : expandPre n rb rs glwe t with
  | none => simp [hp] at h
  | some p => simp [hp] at h; exact ⟨p.1, p.2, rfl, h⟩

/-- equal radices: the body is `vec_znx_copy` of column 0, mask column `i` is `vec_znx_dft_apply` of column `i+1` -/
theorem expandPre_same (n rb rs : Nat) (glwe : List Col) (t : ToGGSWKey) (hb : rb = t.base2k) :
    expandPre n rb rs glwe t =
      some (vecCopy n ((rs * rb + t.base2k - 1) / t.base2k) (glwe.getD 0 []),
            (List.range t.rank).map (fun i => Hal.dftApplyCol n 1 0 ((rs * rb + t.base2k - 1) / t.base2k) (glwe.getD (i + 1) []))) := by
  simp [expandPre, hb]

/-- different radices: the body is `normalizeCol?` of column 0, mask column `i` is `vec_znx_dft_apply` of `normalizeCol?` of column `i+1` -/
theorem expandPre_cross (n rb rs : Nat) (glwe : List Col) (t : ToGGSWKey) (a0 : Col) (aDft : List Col) (hb : rb ≠ t.base2k)
    (h : expandPre n rb rs glwe t = some (a0, aDft)) :
    normalizeCol? t.base2k ((rs * rb + t.base2k - 1) / t.base2k) 0 (glwe.getD 0 []) rb n = some a0 ∧ aDft.length = t.rank ∧
      ∀ i, i < t.rank → ∃ ci, normalizeCol? t.base2k ((rs * rb + t.base2k - 1) / t.base2k) 0 (glwe.getD (i + 1) []) rb n = some ci ∧
        aDft.getD i [] = Hal.dftApplyCol n 1 0 ((rs * rb + t.base2k - 1) / t.base2k) ci := by
  unfold expandPre at h
  rw [if_neg hb] at h
  cases hm : (List.range t.rank).mapM (fun i =>
        (normalizeCol? t.base2k ((rs * rb + t.base2k - 1) / t.base2k) 0 (glwe.getD (i + 1) []) rb n).map
          (fun c => Hal.dftApplyCol n 1 0 ((rs * rb + t.base2k - 1) / t.base2k) c)) with
  | none => rw [hm] at h; exact absurd h (by simp)
  | some ad =>
    rw [hm, Option.bind_some] at h
    cases h0 : normalizeCol? t.base2k ((rs * rb + t.base2k - 1) / t.base2k) 0 (glwe.getD 0 []) rb n with
    | none => rw [h0] at h; exact absurd h (by simp)
    | some b =>
      rw [h0, Option.map_some] at h
      injection h with h
      injection h with h1 h2
      subst h1; subst h2
      have hl := mapM_some_length _ _ _ hm
      rw [List.length_range] at hl
      refine ⟨rfl, hl, ?_⟩
      intro i hi
      have := mapM_some_getD _ 0 [] _ _ hm i (by simpa using hi)
      have e1 : (List.range t.rank).getD i 0 = i := by simp [List.getD_eq_getElem?_getD, List.getElem?_range hi]
      rw [e1] at this
      cases hc : normalizeCol? t.base2k ((rs * rb + t.base2k - 1) / t.base2k) 0 (glwe.getD (i + 1) []) rb n with
      | none => rw [hc] at this; exact absurd this (by simp)
      | some ci =>
        rw [hc, Option.map_some] at this
        injection this with this
        exact ⟨ci, rfl, this.symm⟩

/-! ### 3. The value of the phase of the accumulator, body included -/

/-- **the phase of one limb is linear in one column**: increasing column `c+1` by `x` adds `s_c ⋆ x` -/
theorem ι_phaseRow_set_add (N : Nat) (hN : 0 < N) (sk cs : List Poly) (c : Nat) (x : Poly) (hcs : AllLen N cs) (hx : x.length = N)
    (hc : c < sk.length) (hc' : c + 1 < cs.length) :
    ι N (phaseRow sk (cs.set (c + 1) (polyAdd (cs.getD (c + 1) []) x)))
      = ι N (phaseRow sk cs) + ι N (sk.getD c []) * ι N x := by
  cases cs with
  | nil => simp at hc'
  | cons b ms =>
    have hcm : c < ms.length := by simpa using hc'
    have hmc : (ms.getD c []).length = N := by
      rw [List.getD_eq_getElem?_getD, List.getElem?_eq_getElem hcm]
      exact hcs _ (List.mem_cons_of_mem _ (List.getElem_mem hcm))
    have hms : ∀ m ∈ ms, m.length = N := fun m hm => hcs m (List.mem_cons_of_mem _ hm)
    have hset : ∀ m ∈ ms.set c (polyAdd (ms.getD c []) x), m.length = N := by
      intro m hm
      rcases List.mem_or_eq_of_mem_set hm with h | h
      · exact hms m h
      · rw [h, polyAdd_length, hmc, hx]; simp
    simp only [List.set_cons_succ, List.getD_cons_succ]
    rw [ι_phaseRow N hN sk b _ (hcs b List.mem_cons_self) hset, ι_phaseRow N hN sk b ms (hcs b List.mem_cons_self) hms, List.length_set]
    have e : ∀ i ∈ Finset.range (min sk.length ms.length),
        ι N (sk.getD i []) * ι N ((ms.set c (polyAdd (ms.getD c []) x)).getD i [])
          = ι N (sk.getD i []) * ι N (ms.getD i []) + (if i = c then ι N (sk.getD c []) * ι N x else 0) := by
      intro i _
      by_cases hic : i = c
      · subst hic
        simp only [if_true]
        have : (ms.set i (polyAdd (ms.getD i []) x)).getD i [] = polyAdd (ms.getD i []) x := by
          simp [List.getD_eq_getElem?_getD, hcm]
        rw [this, ι_add N _ _ (by rw [hmc, hx])]
        ring
      · simp only [hic, if_false, add_zero]
        have : (ms.set c (polyAdd (ms.getD c []) x)).getD i [] = ms.getD i [] := by
          simp [List.getD_eq_getElem?_getD, Ne.symm hic]
        rw [this]
    rw [Finset.sum_congr rfl e, Finset.sum_add_distrib, Finset.sum_ite_eq', if_pos (Finset.mem_range.mpr (by omega))]
    ring

/-- value (radix `β`, `S` limbs, most significant first) of a column in `R N` -/
noncomputable def colValS (N : Nat) (β : Ks.R N) (S : Nat) (x : Col) : Ks.R N :=
  ∑ l ∈ Finset.range S, ι N (limbOr0 N x l) * β ^ (S - 1 - l)

theorem shapeOk_zeroCols (n cols size : Nat) : shapeOk n cols size (zeroCols n cols size) = true := by
  simp [shapeOk, zeroCols, Hal.zeroP]

theorem limbOr0_colAdd_fit (N S : Nat) (p a0 : Col) (hp : p.length = S) (l : Nat) (hl : l < S) :
    limbOr0 N (colAdd p (fit N S a0)) l = polyAdd (limbOr0 N p l) (limbOr0 N a0 l) := by
  have h1 : l < p.length := by omega
  have h2 : l < (fit N S a0).length := by rw [fit_length]; exact hl
  have h3 : l < (List.zipWith polyAdd p (fit N S a0)).length := by rw [List.length_zipWith]; omega
  have e1 : (List.zipWith polyAdd p (fit N S a0)).getD l (zeroP N) = polyAdd p[l] (fit N S a0)[l] := by
    rw [List.getD_eq_getElem?_getD, List.getElem?_eq_getElem h3, Option.getD_some, List.getElem_zipWith]
  have e2 : p.getD l (zeroP N) = p[l] := by rw [List.getD_eq_getElem?_getD, List.getElem?_eq_getElem h1, Option.getD_some]
  have e3 : (fit N S a0)[l] = a0.getD l (zeroP N) := by
    have := fit_getD N S a0 l hl
    rw [List.getD_eq_getElem?_getD, List.getElem?_eq_getElem h2, Option.getD_some] at this
    exact this
  show (List.zipWith polyAdd p (fit N S a0)).getD l (zeroP N) = polyAdd (p.getD l (zeroP N)) (a0.getD l (zeroP N))
  rw [e1, e2, e3]

/-- **`expand_cell_value`, exact-sum form** — the row-expansion contract on the executed accumulator.  `hadd` says that the addition of the
body on column `c+1` does not wrap (`Core.bigAddSmallAssign_exact` under head-room: `expand_cell_value` below); `hP` is the shape of the
product (`rank+1` columns of `t.size` limbs of `N` coefficients). -/
theorem expand_cell_value_of_exact (N : Nat) (big128 : Bool) (sk : List Poly) (a0 : Col) (aDft : List Col) (t : ToGGSWKey) (c : Nat)
    (β sc Me : Ks.R N) (σ : ℕ → Ks.R N) (E : ℕ → ℕ → Ks.R N)
    (hd : 1 ≤ t.dsize) (hN : 0 < N) (hn : t.n = N) (hM : ∀ j q, ((t.at c).toPMat.entry j q).length = N)
    (hS : t.dnum * t.dsize ≤ t.size) (hc : c < t.rank) (hsk : c < sk.length) (hsc : sc = ι N (sk.getD c []))
    (hP : ∀ col ∈ expandProd N aDft t c, ColWF N t.size col) (ha0 : LimbsN N a0)
    (hadd : Core.bigAddSmallAssign big128 ((expandProd N aDft t c).getD (c + 1) []) a0
      = colAdd ((expandProd N aDft t c).getD (c + 1) []) (fit N t.size a0))
    (hkey : ∀ i, i < t.rank → ∀ r, r < t.dnum →
      Gadget.val β t.size (Ks.keyPhase N sk (t.at c).toPMat i r) = sc * σ i * β ^ (t.size - (r + 1) * t.dsize) + E i r)
    (hrow : colValS N β t.size a0 + expandUsed N aDft t β σ = Me) :
    ∑ l ∈ Finset.range t.size,
        ι N (phaseRow sk ((expandAcc big128 N a0 aDft t c).map (fun col => limbOr0 N col l))) * β ^ (t.size - 1 - l)
      = sc * Me + expandErr N sk aDft t c β E := by
  have hlen := expandProd_length N aDft t c
  have hc1 : c + 1 < (expandProd N aDft t c).length := by rw [hlen]; omega
  have hPc : ColWF N t.size ((expandProd N aDft t c).getD (c + 1) []) := by
    rw [List.getD_eq_getElem?_getD, List.getElem?_eq_getElem hc1]
    exact hP _ (List.getElem_mem hc1)
  have hlimb : ∀ l, l < t.size →
      ι N (phaseRow sk ((expandAcc big128 N a0 aDft t c).map (fun col => limbOr0 N col l)))
        = ι N (phaseRow sk ((expandProd N aDft t c).map (fun col => limbOr0 N col l))) + sc * ι N (limbOr0 N a0 l) := by
    intro l hl
    have hall : AllLen N ((expandProd N aDft t c).map (fun col => limbOr0 N col l)) := by
      intro p hp
      obtain ⟨col, hcol, rfl⟩ := List.mem_map.mp hp
      have hw := hP col hcol
      unfold limbOr0
      rw [List.getD_eq_getElem?_getD, List.getElem?_eq_getElem (by rw [hw.1]; exact hl)]
      exact hw.2 _ (List.getElem_mem _)
    have hx : (limbOr0 N a0 l).length = N := by
      unfold limbOr0
      by_cases h : l < a0.length
      · rw [List.getD_eq_getElem?_getD, List.getElem?_eq_getElem h]; exact ha0 _ (List.getElem_mem _)
      · rw [List.getD_eq_getElem?_getD, List.getElem?_eq_none (by omega)]; simp [Hal.zeroP]
    have hget : ((expandProd N aDft t c).map (fun col => limbOr0 N col l)).getD (c + 1) []
        = limbOr0 N ((expandProd N aDft t c).getD (c + 1) []) l := by
      simp [List.getD_eq_getElem?_getD, List.getElem?_eq_getElem hc1]
    have hnew : limbOr0 N (colAdd ((expandProd N aDft t c).getD (c + 1) []) (fit N t.size a0)) l
        = polyAdd (limbOr0 N ((expandProd N aDft t c).getD (c + 1) []) l) (limbOr0 N a0 l) :=
      limbOr0_colAdd_fit N t.size _ a0 hPc.1 l hl
    unfold expandAcc
    rw [List.map_set, hadd, hnew, ← hget, hsc]
    exact ι_phaseRow_set_add N hN sk _ c _ hall hx hsk (by simpa using hc1)
  have hsum : ∑ l ∈ Finset.range t.size,
        ι N (phaseRow sk ((expandAcc big128 N a0 aDft t c).map (fun col => limbOr0 N col l))) * β ^ (t.size - 1 - l)
      = ∑ l ∈ Finset.range t.size,
          ι N (phaseRow sk ((expandProd N aDft t c).map (fun col => limbOr0 N col l))) * β ^ (t.size - 1 - l)
        + sc * colValS N β t.size a0 := by
    unfold colValS
    rw [Finset.mul_sum, ← Finset.sum_add_distrib]
    apply Finset.sum_congr rfl
    intro l hl
    rw [hlimb l (Finset.mem_range.mp hl)]
    ring
  rw [hsum]
  have h0 : shapeOk t.n (t.rank + 1) t.size (zeroCols N (t.rank + 1) t.size) = true := by rw [hn]; exact shapeOk_zeroCols _ _ _
  exact expand_executed_identity' N sk aDft t c (zeroCols N (t.rank + 1) t.size) β sc (colValS N β t.size a0) Me σ E hd hN hn h0 hM hS hkey hrow

/-- **`expand_cell_value`** (`i64` accumulator, head-room): the product column `c+1` and the body have coefficients below `2^62` in
absolute value, so `vec_znx_big_add_small_assign` is the exact sum. -/
theorem expand_cell_value (N : Nat) (sk : List Poly) (a0 : Col) (aDft : List Col) (t : ToGGSWKey) (c : Nat)
    (β sc Me : Ks.R N) (σ : ℕ → Ks.R N) (E : ℕ → ℕ → Ks.R N)
    (hd : 1 ≤ t.dsize) (hN : 0 < N) (hn : t.n = N) (hM : ∀ j q, ((t.at c).toPMat.entry j q).length = N)
    (hS : t.dnum * t.dsize ≤ t.size) (hc : c < t.rank) (hsk : c < sk.length) (hsc : sc = ι N (sk.getD c []))
    (hP : ∀ col ∈ expandProd N aDft t c, ColWF N t.size col) (ha0 : LimbsN N a0)
    (hPs : ColSmall ((expandProd N aDft t c).getD (c + 1) [])) (ha0s : ColSmall a0)
    (hkey : ∀ i, i < t.rank → ∀ r, r < t.dnum →
      Gadget.val β t.size (Ks.keyPhase N sk (t.at c).toPMat i r) = sc * σ i * β ^ (t.size - (r + 1) * t.dsize) + E i r)
    (hrow : colValS N β t.size a0 + expandUsed N aDft t β σ = Me) :
    ∑ l ∈ Finset.range t.size,
        ι N (phaseRow sk ((expandAcc false N a0 aDft t c).map (fun col => limbOr0 N col l))) * β ^ (t.size - 1 - l)
      = sc * Me + expandErr N sk aDft t c β E := by
  have hlen := expandProd_length N aDft t c
  have hc1 : c + 1 < (expandProd N aDft t c).length := by rw [hlen]; omega
  have hPc : ColWF N t.size ((expandProd N aDft t c).getD (c + 1) []) := by
    rw [List.getD_eq_getElem?_getD, List.getElem?_eq_getElem hc1]
    exact hP _ (List.getElem_mem hc1)
  refine expand_cell_value_of_exact N false sk a0 aDft t c β sc Me σ E hd hN hn hM hS hc hsk hsc hP ha0 ?_ hkey hrow
  rw [bigAddSmallAssign_exact (N := N) _ _ hPc.2 hPs ha0s, hPc.1]

/-- the hypotheses of `expand_cell_value_of_exact` on the data of one cell: shape of the product, shape of the body, exact addition -/
def ExpandOk (N : Nat) (big128 : Bool) (a0 : Col) (aDft : List Col) (t : ToGGSWKey) (c : Nat) : Prop :=
  (∀ col ∈ expandProd N aDft t c, ColWF N t.size col) ∧ LimbsN N a0 ∧
    Core.bigAddSmallAssign big128 ((expandProd N aDft t c).getD (c + 1) []) a0
      = colAdd ((expandProd N aDft t c).getD (c + 1) []) (fit N t.size a0)

/-- `i64` accumulator: head-room `2^62` on the product column and on the body gives the exact addition -/
theorem ExpandOk_of_small (N : Nat) (a0 : Col) (aDft : List Col) (t : ToGGSWKey) (c : Nat) (hc : c < t.rank)
    (hP : ∀ col ∈ expandProd N aDft t c, ColWF N t.size col) (ha0 : LimbsN N a0)
    (hPs : ColSmall ((expandProd N aDft t c).getD (c + 1) [])) (ha0s : ColSmall a0) : ExpandOk N false a0 aDft t c := by
  have hlen := expandProd_length N aDft t c
  have hc1 : c + 1 < (expandProd N aDft t c).length := by rw [hlen]; omega
  have hPc : ColWF N t.size ((expandProd N aDft t c).getD (c + 1) []) := by
    rw [List.getD_eq_getElem?_getD, List.getElem?_eq_getElem hc1]
    exact hP _ (List.getElem_mem hc1)
  refine ⟨hP, ha0, ?_⟩
  rw [bigAddSmallAssign_exact (N := N) _ _ hPc.2 hPs ha0s, hPc.1]

/-- **the phase value of the column-0 cell as the expansion sees it** (key radix `β`, `t.size` limbs of the body, the limbs of the mask
columns that the gadget product uses): `body + Σ_i σ_i·usedVal(a_i)` -/
noncomputable def rowVal (N : Nat) (β : Ks.R N) (a0 : Col) (aDft : List Col) (t : ToGGSWKey) (σ : ℕ → Ks.R N) : Ks.R N :=
  colValS N β t.size a0 + expandUsed N aDft t β σ

end Core

namespace Ks
open Hal Core C02L Core.Ops

/-! ### 4. Every cell of `Ks.expandRows`, `Ks.ggswKeyswitch`, `Ks.ggswAutomorphism` -/

theorem flatten_getElem?_uniform {α : Type} (k : Nat) : ∀ (rows : List (List α)), (∀ row ∈ rows, row.length = k) →
    ∀ (r j : Nat) (row : List α), rows[r]? = some row → j < k → rows.flatten[r * k + j]? = row[j]?
  | [], _, r, j, row, h, _ => by simp at h
  | x :: xs, hk, 0, j, row, h, hj => by
    simp only [List.getElem?_cons_zero, Option.some.injEq] at h
    subst h
    have hx : x.length = k := hk x List.mem_cons_self
    rw [List.flatten_cons, Nat.zero_mul, Nat.zero_add, List.getElem?_append_left (by omega)]
  | x :: xs, hk, r + 1, j, row, h, hj => by
    simp only [List.getElem?_cons_succ] at h
    have hx : x.length = k := hk x List.mem_cons_self
    have e : (r + 1) * k + j - x.length = r * k + j := by rw [hx, Nat.succ_mul]; omega
    rw [List.flatten_cons, List.getElem?_append_right (by rw [hx, Nat.succ_mul]; omega), e]
    exact flatten_getElem?_uniform k xs (fun row hr => hk row (List.mem_cons_of_mem _ hr)) r j row h hj

theorem flatten_length_uniform {α : Type} (k : Nat) : ∀ (rows : List (List α)), (∀ row ∈ rows, row.length = k) →
    rows.flatten.length = rows.length * k
  | [], _ => by simp
  | x :: xs, hk => by
    rw [List.flatten_cons, List.length_append, hk x List.mem_cons_self,
      flatten_length_uniform k xs (fun row hr => hk row (List.mem_cons_of_mem _ hr)), List.length_cons, Nat.succ_mul, Nat.add_comm]

/-- **what the executed expansion makes of row `r`, whose column-0 cell is `y`**: cell `(r, 0)` is `y`; cell `(r, c+1)` is the column-wise
`vec_znx_big_normalize` of the accumulator `Core.expandAcc` built from the `(a0, aDft)` of `Core.expandPre y` (copy / radix conversion of the
columns of `y`), and — when the accumulation is exact (`Core.ExpandOk`) — the value of the phase of that accumulator is
`s_c · (phase value of y) + explicit gadget terms`. -/
def RowCellsValue (N : Nat) (big128 : Bool) (rb rs : Nat) (t : ToGGSWKey) (cells : List (List Col)) (sk : List Poly) (β : R N)
    (σ : ℕ → R N) (E : ℕ → ℕ → ℕ → R N) (r : Nat) (y : Ct) : Prop :=
  cells[r * (t.rank + 1)]? = some y.cols ∧
  ∃ a0 aDft, expandPre N rb rs y.cols t = some (a0, aDft) ∧
    ∀ c, c < t.rank → ∃ cell, cells[r * (t.rank + 1) + (c + 1)]? = some cell ∧
      (expandAcc big128 N a0 aDft t c).mapM (fun x => bigNormalizeOff big128 N rb rs 0 x t.base2k) = some cell ∧
      (ExpandOk N big128 a0 aDft t c →
        ∑ l ∈ Finset.range t.size,
            ι N (phaseRow sk ((expandAcc big128 N a0 aDft t c).map (fun col => limbOr0 N col l))) * β ^ (t.size - 1 - l)
          = ι N (sk.getD c []) * rowVal N β a0 aDft t σ + expandErr N sk aDft t c β (E c))

/-- **`ggsw_cells_value`** — `Ks.expandRows` cell by cell, with the row-expansion contract discharged on the executed model
(the `hexp` of `Ks.ggsw_cells_phase`).  Hypotheses: shapes of the key and the tensor-key relation `hkey` only. -/
theorem ggsw_cells_value (N : Nat) (big128 : Bool) (rb rs : Nat) (col0 : List Ct) (t : ToGGSWKey) (cells : List (List Col))
    (sk : List Poly) (β : R N) (σ : ℕ → R N) (E : ℕ → ℕ → ℕ → R N)
    (hd : 1 ≤ t.dsize) (hN : 0 < N) (hn : t.n = N) (hS : t.dnum * t.dsize ≤ t.size) (hrank : t.rank ≤ sk.length)
    (hM : ∀ c, c < t.rank → ∀ j q, ((t.at c).toPMat.entry j q).length = N)
    (hkey : ∀ c, c < t.rank → ∀ i, i < t.rank → ∀ r, r < t.dnum →
      Gadget.val β t.size (keyPhase N sk (t.at c).toPMat i r)
        = ι N (sk.getD c []) * σ i * β ^ (t.size - (r + 1) * t.dsize) + E c i r)
    (h : expandRows big128 N rb rs col0 t = .ok cells) :
    cells.length = col0.length * (t.rank + 1) ∧
      ∀ (r : Nat) (y : Ct), col0[r]? = some y → RowCellsValue N big128 rb rs t cells sk β σ E r y := by
  obtain ⟨rows, hflat, hlen, hrows⟩ := expandRows_cells big128 N rb rs col0 t cells h
  have hk : ∀ row ∈ rows, row.length = t.rank + 1 := by
    intro row hrow
    obtain ⟨r, hr, rfl⟩ := List.getElem_of_mem hrow
    obtain ⟨c, rest, _, he, hrw⟩ := hrows r rows[r] (List.getElem?_eq_getElem hr)
    obtain ⟨a0, aDft, _, hcols⟩ := expandRow_some big128 N rb rs c.cols t rest he
    rw [hrw, List.length_cons, (expandRowCols_accumulator big128 N rb rs a0 aDft t rest hcols).1]
  refine ⟨by rw [hflat, flatten_length_uniform _ rows hk, hlen], ?_⟩
  intro r y hy
  have hr : r < rows.length := by rw [hlen]; exact (List.getElem?_eq_some_iff.mp hy).1
  obtain ⟨c0, rest, hc0, he, hrw⟩ := hrows r rows[r] (List.getElem?_eq_getElem hr)
  rw [hy] at hc0
  injection hc0 with hc0
  subst hc0
  obtain ⟨a0, aDft, hpre, hcols⟩ := expandRow_some big128 N rb rs y.cols t rest he
  obtain ⟨hrl, hcell⟩ := expandRowCols_accumulator big128 N rb rs a0 aDft t rest hcols
  have hidx : ∀ j, j < t.rank + 1 → cells[r * (t.rank + 1) + j]? = (y.cols :: rest)[j]? := by
    intro j hj
    rw [hflat, ← hrw]
    exact flatten_getElem?_uniform (t.rank + 1) rows hk r j rows[r] (List.getElem?_eq_getElem hr) hj
  refine ⟨by simpa using hidx 0 (by omega), a0, aDft, hpre, ?_⟩
  intro c hc
  have hcr : c < rest.length := by rw [hrl]; exact hc
  refine ⟨rest[c], ?_, (hcell c rest[c] (List.getElem?_eq_getElem hcr)).2, ?_⟩
  · rw [hidx (c + 1) (by omega), List.getElem?_cons_succ, List.getElem?_eq_getElem hcr]
  · intro hok
    exact expand_cell_value_of_exact N big128 sk a0 aDft t c β (ι N (sk.getD c [])) _ σ (E c) hd hN hn (hM c hc) hS hc (by omega) rfl
      hok.1 hok.2.1 hok.2.2 (hkey c hc) rfl

/-- **`ggsw_keyswitch` cell by cell, no row-expansion hypothesis**: the result has `res.dnum·(rank+1)` cells; cell `(r, 0)` is
`glwe_keyswitch` of the operand's cell `(r, 0)`, and cell `(r, c+1)` is the normalisation of an accumulator whose phase value is
`s_c·(phase value of that key-switched cell) + Σ_i (Σ_k digit·E − dropped − β^S·head)`. -/
theorem ggsw_keyswitch_cells_value (N : Nat) (big128 : Bool) (rb rs rd rds ab ads : Nat) (aCol0 : List Ct) (key : Key) (t : ToGGSWKey)
    (cells : List (List Col)) (sk : List Poly) (β : R N) (σ : ℕ → R N) (E : ℕ → ℕ → ℕ → R N)
    (hd : 1 ≤ t.dsize) (hN : 0 < N) (hn : t.n = N) (hS : t.dnum * t.dsize ≤ t.size) (hrank : t.rank ≤ sk.length)
    (hM : ∀ c, c < t.rank → ∀ j q, ((t.at c).toPMat.entry j q).length = N)
    (hkey : ∀ c, c < t.rank → ∀ i, i < t.rank → ∀ r, r < t.dnum →
      Gadget.val β t.size (keyPhase N sk (t.at c).toPMat i r)
        = ι N (sk.getD c []) * σ i * β ^ (t.size - (r + 1) * t.dsize) + E c i r)
    (h : ggswKeyswitch big128 N rb rs rd rds ab ads aCol0 key t = .ok cells) :
    cells.length = rd * (t.rank + 1) ∧
      ∀ r, r < rd → ∃ x y, aCol0[r]? = some x ∧ keyswitch big128 rb rs key.rankOut x key = .ok y ∧
        RowCellsValue N big128 rb rs t cells sk β σ E r y := by
  obtain ⟨col0, hl, hstep, hexp⟩ := ggswKeyswitch_steps big128 N rb rs rd rds ab ads aCol0 key t cells h
  obtain ⟨hlen, hrows⟩ := ggsw_cells_value N big128 rb rs col0 t cells sk β σ E hd hN hn hS hrank hM hkey hexp
  refine ⟨by rw [hlen, hl], ?_⟩
  intro r hr
  have hr' : r < col0.length := by rw [hl]; exact hr
  obtain ⟨x, hx, hks⟩ := hstep r col0[r] (List.getElem?_eq_getElem hr')
  exact ⟨x, col0[r], hx, hks, hrows r col0[r] (List.getElem?_eq_getElem hr')⟩

/-- **`ggsw_automorphism` cell by cell, no row-expansion hypothesis** (same statement with `glwe_automorphism` on column 0) -/
theorem ggsw_automorphism_cells_value (N : Nat) (big128 : Bool) (rb rs rd rds ab ads : Nat) (aCol0 : List Ct) (key : Key) (t : ToGGSWKey)
    (cells : List (List Col)) (sk : List Poly) (β : R N) (σ : ℕ → R N) (E : ℕ → ℕ → ℕ → R N)
    (hd : 1 ≤ t.dsize) (hN : 0 < N) (hn : t.n = N) (hS : t.dnum * t.dsize ≤ t.size) (hrank : t.rank ≤ sk.length)
    (hM : ∀ c, c < t.rank → ∀ j q, ((t.at c).toPMat.entry j q).length = N)
    (hkey : ∀ c, c < t.rank → ∀ i, i < t.rank → ∀ r, r < t.dnum →
      Gadget.val β t.size (keyPhase N sk (t.at c).toPMat i r)
        = ι N (sk.getD c []) * σ i * β ^ (t.size - (r + 1) * t.dsize) + E c i r)
    (h : ggswAutomorphism big128 N rb rs rd rds ab ads aCol0 key t = .ok cells) :
    cells.length = rd * (t.rank + 1) ∧
      ∀ r, r < rd → ∃ x y, aCol0[r]? = some x ∧ automorphism big128 rb rs key.rankOut x key = .ok y ∧
        RowCellsValue N big128 rb rs t cells sk β σ E r y := by
  obtain ⟨col0, hl, hstep, hexp⟩ := ggswAutomorphism_steps big128 N rb rs rd rds ab ads aCol0 key t cells h
  obtain ⟨hlen, hrows⟩ := ggsw_cells_value N big128 rb rs col0 t cells sk β σ E hd hN hn hS hrank hM hkey hexp
  refine ⟨by rw [hlen, hl], ?_⟩
  intro r hr
  have hr' : r < col0.length := by rw [hl]; exact hr
  obtain ⟨x, hx, hks⟩ := hstep r col0[r] (List.getElem?_eq_getElem hr')
  exact ⟨x, col0[r], hx, hks, hrows r col0[r] (List.getElem?_eq_getElem hr')⟩

/-- the `_assign` forms: `step` on every column-0 cell, then the expansion -/
theorem ggsw_assign_cells_value (N : Nat) (big128 : Bool) (rb rs : Nat) (step : Ct → Outcome Ct) (resCol0 : List Ct) (t : ToGGSWKey)
    (cells : List (List Col)) (sk : List Poly) (β : R N) (σ : ℕ → R N) (E : ℕ → ℕ → ℕ → R N)
    (hd : 1 ≤ t.dsize) (hN : 0 < N) (hn : t.n = N) (hS : t.dnum * t.dsize ≤ t.size) (hrank : t.rank ≤ sk.length)
    (hM : ∀ c, c < t.rank → ∀ j q, ((t.at c).toPMat.entry j q).length = N)
    (hkey : ∀ c, c < t.rank → ∀ i, i < t.rank → ∀ r, r < t.dnum →
      Gadget.val β t.size (keyPhase N sk (t.at c).toPMat i r)
        = ι N (sk.getD c []) * σ i * β ^ (t.size - (r + 1) * t.dsize) + E c i r)
    (h : obind (oall (resCol0.map step)) (fun col0 => expandRows big128 N rb rs col0 t) = .ok cells) :
    cells.length = resCol0.length * (t.rank + 1) ∧
      ∀ (r : Nat) (x : Ct), resCol0[r]? = some x → ∃ y, step x = .ok y ∧ RowCellsValue N big128 rb rs t cells sk β σ E r y := by
  obtain ⟨col0, hc, hexp⟩ := obind_ok h
  obtain ⟨hl, hi⟩ := oall_ok _ _ hc
  rw [List.length_map] at hl
  obtain ⟨hlen, hrows⟩ := ggsw_cells_value N big128 rb rs col0 t cells sk β σ E hd hN hn hS hrank hM hkey hexp
  refine ⟨by rw [hlen, hl], ?_⟩
  intro r x hx
  have hr' : r < col0.length := by rw [hl]; exact (List.getElem?_eq_some_iff.mp hx).1
  have := hi r col0[r] (List.getElem?_eq_getElem hr')
  rw [List.getElem?_map, hx, Option.map_some] at this
  injection this with this
  exact ⟨col0[r], this, hrows r col0[r] (List.getElem?_eq_getElem hr')⟩

/-- **`ggsw_keyswitch_assign` cell by cell** (non-empty `res`; the expansion runs at the layout of row 0) -/
theorem ggsw_keyswitch_assign_cells_value (N : Nat) (big128 : Bool) (x0 : Ct) (xs : List Ct) (key : Key) (t : ToGGSWKey)
    (cells : List (List Col)) (sk : List Poly) (β : R N) (σ : ℕ → R N) (E : ℕ → ℕ → ℕ → R N)
    (hd : 1 ≤ t.dsize) (hN : 0 < N) (hn : t.n = N) (hS : t.dnum * t.dsize ≤ t.size) (hrank : t.rank ≤ sk.length)
    (hM : ∀ c, c < t.rank → ∀ j q, ((t.at c).toPMat.entry j q).length = N)
    (hkey : ∀ c, c < t.rank → ∀ i, i < t.rank → ∀ r, r < t.dnum →
      Gadget.val β t.size (keyPhase N sk (t.at c).toPMat i r)
        = ι N (sk.getD c []) * σ i * β ^ (t.size - (r + 1) * t.dsize) + E c i r)
    (h : ggswKeyswitchAssign big128 N (x0 :: xs) key t = .ok cells) :
    cells.length = (x0 :: xs).length * (t.rank + 1) ∧
      ∀ (r : Nat) (x : Ct), (x0 :: xs)[r]? = some x → ∃ y, keyswitch big128 x.base2k x.size x.rank x key = .ok y ∧
        RowCellsValue N big128 x0.base2k x0.size t cells sk β σ E r y :=
  ggsw_assign_cells_value N big128 x0.base2k x0.size (fun x => keyswitch big128 x.base2k x.size x.rank x key) (x0 :: xs) t cells sk β σ E
    hd hN hn hS hrank hM hkey h

/-- **`ggsw_automorphism_assign` cell by cell** -/
theorem ggsw_automorphism_assign_cells_value (N : Nat) (big128 : Bool) (x0 : Ct) (xs : List Ct) (key : Key) (t : ToGGSWKey)
    (cells : List (List Col)) (sk : List Poly) (β : R N) (σ : ℕ → R N) (E : ℕ → ℕ → ℕ → R N)
    (hd : 1 ≤ t.dsize) (hN : 0 < N) (hn : t.n = N) (hS : t.dnum * t.dsize ≤ t.size) (hrank : t.rank ≤ sk.length)
    (hM : ∀ c, c < t.rank → ∀ j q, ((t.at c).toPMat.entry j q).length = N)
    (hkey : ∀ c, c < t.rank → ∀ i, i < t.rank → ∀ r, r < t.dnum →
      Gadget.val β t.size (keyPhase N sk (t.at c).toPMat i r)
        = ι N (sk.getD c []) * σ i * β ^ (t.size - (r + 1) * t.dsize) + E c i r)
    (h : ggswAutomorphismAssign big128 N (x0 :: xs) key t = .ok cells) :
    cells.length = (x0 :: xs).length * (t.rank + 1) ∧
      ∀ (r : Nat) (x : Ct), (x0 :: xs)[r]? = some x → ∃ y, automorphism big128 x.base2k x.size x.rank x key = .ok y ∧
        RowCellsValue N big128 x0.base2k x0.size t cells sk β σ E r y :=
  ggsw_assign_cells_value N big128 x0.base2k x0.size (fun x => automorphism big128 x.base2k x.size x.rank x key) (x0 :: xs) t cells sk β σ E
    hd hN hn hS hrank hM hkey h

/-- `RowCellsValue` with the phase value of the column-0 cell named: if `ph` is the value `Core.rowVal` of the `(a0, aDft)` that
`Core.expandPre` extracts from `y` (for a key-switched cell: `phOut y = phIn x + err x`, `C03.keyswitch_value`), every accumulator of the
row has the phase value `s_c·ph + explicit gadget terms` — the conclusion of `Ks.ggsw_cells_phase` with `hexp` discharged. -/
theorem RowCellsValue.phase {N : Nat} {big128 : Bool} {rb rs : Nat} {t : ToGGSWKey} {cells : List (List Col)} {sk : List Poly} {β : R N}
    {σ : ℕ → R N} {E : ℕ → ℕ → ℕ → R N} {r : Nat} {y : Ct} (hv : RowCellsValue N big128 rb rs t cells sk β σ E r y) (ph : R N)
    (hrow : ∀ a0 aDft, expandPre N rb rs y.cols t = some (a0, aDft) → rowVal N β a0 aDft t σ = ph) :
    ∃ a0 aDft, expandPre N rb rs y.cols t = some (a0, aDft) ∧
      ∀ c, c < t.rank → ∃ cell, cells[r * (t.rank + 1) + (c + 1)]? = some cell ∧
        (expandAcc big128 N a0 aDft t c).mapM (fun x => bigNormalizeOff big128 N rb rs 0 x t.base2k) = some cell ∧
        (ExpandOk N big128 a0 aDft t c →
          ∑ l ∈ Finset.range t.size,
              ι N (phaseRow sk ((expandAcc big128 N a0 aDft t c).map (fun col => limbOr0 N col l))) * β ^ (t.size - 1 - l)
            = ι N (sk.getD c []) * ph + expandErr N sk aDft t c β (E c)) := by
  obtain ⟨_, a0, aDft, hpre, hc⟩ := hv
  refine ⟨a0, aDft, hpre, ?_⟩
  intro c hcr
  obtain ⟨cell, h1, h2, h3⟩ := hc c hcr
  refine ⟨cell, h1, h2, ?_⟩
  intro hok
  rw [h3 hok, hrow a0 aDft hpre]

/-! ### 5. Closed instances on the `dsize = 2` key of `Props/C04.lean` -/

/-- `C04.exT`: a rank-1 key with `dsize = 2` (one row, three limbs) -/
def exT' : ToGGSWKey :=
  { base2k := 4, n := 1, rank := 1, dsize := 2, dnum := 1, size := 3, keys := [[[[[1], [0], [0]], [[0], [1], [0]]]]] }

/-- non-vacuity of `Core.expand_cell_value`: body `[[3],[1],[0]]`, mask `[[2],[1]]`, `E` := the difference, `Me` := the row phase -/
example (β : R 1) (σ : ℕ → R 1) :
    ∑ l ∈ Finset.range 3,
        ι 1 (phaseRow [[1]] ((expandAcc false 1 [[3], [1], [0]] [[[2], [1]]] exT' 0).map (fun col => limbOr0 1 col l))) * β ^ (3 - 1 - l)
      = ι 1 ([[1]].getD 0 []) * rowVal 1 β [[3], [1], [0]] [[[2], [1]]] exT' σ
        + expandErr 1 [[1]] [[[2], [1]]] exT' 0 β
            (fun i r => Gadget.val β 3 (keyPhase 1 [[1]] (exT'.at 0).toPMat i r) - ι 1 ([[1]].getD 0 []) * σ i * β ^ (3 - (r + 1) * 2)) :=
  expand_cell_value 1 [[1]] [[3], [1], [0]] [[[2], [1]]] exT' 0 β _ _ σ _ (by decide) (by decide) rfl
    (Ks.entry_length (exT'.at 0).toPMat 1 rfl (by decide)) (by decide) (by decide) (by decide) rfl
    (by unfold ColWF LimbsN; decide) (by unfold LimbsN; decide) (by unfold ColSmall PolySmall; decide) (by unfold ColSmall PolySmall; decide)
    (by intro i _ r _; exact (add_sub_cancel _ _).symm) rfl

/-- non-vacuity of `Ks.ggsw_cells_value`: a one-row GGSW over `exT'` is expanded by the executed `Ks.expandRows` (closed evaluation); its
cell `(0, 1)` is the normalisation of the accumulator, whose phase value is `s_0·rowVal + expandErr` … -/
example (β : R 1) (σ : ℕ → R 1) :
    RowCellsValue 1 false 4 3 exT' [[[[3], [1], [0]], [[2], [1], [0]]], [[[1], [0], [0]], [[5], [2], [0]]]] [[1]] β σ
      (fun c i r => Gadget.val β 3 (keyPhase 1 [[1]] (exT'.at c).toPMat i r) - ι 1 ([[1]].getD c []) * σ i * β ^ (3 - (r + 1) * 2))
      0 (mkCt 4 1 [[[3], [1], [0]], [[2], [1], [0]]]) :=
  (ggsw_cells_value 1 false 4 3 [mkCt 4 1 [[[3], [1], [0]], [[2], [1], [0]]]] exT' _ [[1]] β σ _ (by decide) (by decide) rfl (by decide) (by decide)
    (fun c _ => Ks.entry_length (exT'.at c).toPMat 1 rfl (by
      intro row hrow
      have hc : (exT'.at c).toPMat.data = exT'.keys.getD c [] := rfl
      rw [hc] at hrow
      match c with
      | 0 => exact (by decide : ∀ row ∈ exT'.keys.getD 0 [], ∀ col ∈ row, ∀ p ∈ col, p.length = 1) row hrow
      | c + 1 => simp [exT'] at hrow))
    (by intro c _ i _ r _; exact (add_sub_cancel _ _).symm) (by rfl)).2 0 _ rfl

/-- … for the `(a0, aDft)` that `Core.expandPre` extracts from that cell, on which the accumulation is exact -/
example : expandPre 1 4 3 (mkCt 4 1 [[[3], [1], [0]], [[2], [1], [0]]]).cols exT' = some ([[3], [1], [0]], [[[2], [1], [0]]])
    ∧ ExpandOk 1 false [[3], [1], [0]] [[[2], [1], [0]]] exT' 0 :=
  ⟨by decide, by unfold ExpandOk ColWF LimbsN; decide⟩

end Ks
