/-
Key generation as encryption, part 7: from the executed routines (`Core.gglweEncryptSkT`, `ggswEncryptSkT`, their compressed forms followed
by decompression) to the cell lists of `KeyWF`.
-/
import Poulpy.Lemmas.KeyWF

namespace CoreEnc
open NormL Ks

/-- parameters and sampler contract shared by all key theorems: back end (`bits`), radix `1 ≤ b ≤ 61`, noise precision with an existing
target limb, ring degree, the head-room of the normalisations, the bound `E` of the error integers (`|e| ≤ bound·2^scale`) -/
structure KeyCtx (bits b n size kxe rank : Nat) (H E : Int) : Prop where
  hbits : bits = 64 ∨ bits = 128
  hr : HeadRoom bits b 0 H
  hb1 : 1 ≤ b
  hb : b ≤ 61
  hk : 1 ≤ kxe
  hlimb : errLimb kxe b < size
  hn : 0 < n
  hE0 : 0 ≤ E
  hsum : (rank : Int) * 2 ^ (b - 1) + E + 2 ^ (b - 1) ≤ 2 ^ 62

/-- the errors the routine consumes: `cnt` polynomials of `n` coefficients within the sampler's bound -/
def ErrOk (n : Nat) (E : Int) (es : List Poly) (cnt : Nat) : Prop :=
  ∀ k, k < cnt → (es.getD k []).length = n ∧ ∀ x ∈ es.getD k [], |x| ≤ E

/-- a secret / scalar column: `n` coefficients of magnitude ≤ 2^62 -/
def ScalarOk (n : Nat) (s : Poly) : Prop := s.length = n ∧ ∀ x ∈ s, |x| ≤ 2 ^ 62

/-- the statement shared by all key theorems: shape facts the consumers ask for, and `KeyOk` with the explicit error -/
def KeyWellFormed (n b dsize size kxe dnum colsIn : Nat) (mat : Hal.PMat) (sOut : List Poly) (msg : Nat → R n) (err : Nat → Nat → Poly) : Prop :=
  mat.n = n ∧ mat.rows = dnum ∧ mat.colsIn = colsIn ∧ mat.colsOut = sOut.length + 1 ∧ mat.size = size ∧
  (∀ i, i < colsIn → ∀ r, r < dnum → (r + 1) * dsize ≤ size ∧ ∀ q, (mat.entry (r * colsIn + i) q).length = n) ∧
  ∃ KL : Nat → Nat → Poly, (∀ i r, (KL i r).length = n) ∧
    KeyOk n b dsize mat sOut msg (fun i r => Hal.polyScale (2 ^ (b * (size - 1 - errLimb kxe b))) (err i r)) KL

section
variable {bits b n size kxe rankOut rankIn rank dnum dsize : Nat} {H E : Int}

/-- **`gglwe_encrypt_sk` produces a well-formed key** -/
theorem gglweEncryptSk_wellformed (c : KeyCtx bits b n size kxe rankOut H E) (hd : 1 ≤ dsize)
    (tmp0 : Col) (htl : tmp0.length = size) (htw : WF n tmp0)
    (sk : List Poly) (hsk : ∀ s ∈ sk, norm1 s * 2 ^ (b - 1) ≤ H)
    (pts : List Poly) (hpts : ∀ i, i < rankIn → ScalarOk n (pts.getD i []))
    (xa : List Nat) (es : List Poly) (hes : ErrOk n E es (rankIn * dnum))
    (cells : List (Nat × List Col)) (xa' : List Nat) (es' : List Poly)
    (h : Core.gglweEncryptSkT tmp0 bits b n size kxe rankOut rankIn dnum dsize pts sk xa es = some (cells, xa', es')) :
    es' = es.drop (rankIn * dnum) ∧
    KeyWellFormed n b dsize size kxe dnum rankIn (Core.keyMat n dnum rankIn (rankOut + 1) size cells) sk
      (fun i => ι n (pts.getD i [])) (fun i r => es.getD (i * dnum + r) []) := by
  unfold Core.gglweEncryptSkT at h
  split at h
  · simp at h
  · rename_i hne
    have hskl : sk.length = rankOut := by omega
    rw [gadgetSeq_eq b dsize _ tmp0 htl htw (by
      intro q hq
      simp only [Core.gglweCellSpec, List.mem_flatMap, List.mem_map, List.mem_range] at hq
      obtain ⟨col, hc, row, _, rfl⟩ := hq
      exact (hpts col hc).1), gglweSpec_descs] at h
    cases hds : Core.descsOk (Core.gglweDescs b n size dsize rankIn dnum pts) with
    | none => simp [hds] at h
    | some ds =>
      simp only [hds] at h
      have hcells := cellsOf_standard h
      obtain ⟨_, hdrop, _, _⟩ := standardCells_get bits b n size kxe rankOut sk ds xa es cells xa' es' h
      have hdl : ds.length = rankIn * dnum := by
        have := (mapM_some_get _ _ ds hds).1
        rw [this]; simp [Core.gglweDescs, flatMap_range_length]
      obtain ⟨h1, KL, h2, h3⟩ := gglwe_descs_wellformed (n := n) c.hbits c.hr c.hb1 c.hb c.hk c.hlimb c.hn hd sk hskl hsk pts hpts ds hds es cells
        hcells hes c.hE0 c.hsum
      exact ⟨by rw [hdrop, hdl], rfl, rfl, rfl, by simp [Core.keyMat, hskl], rfl, h1, KL, h2, h3⟩

/-- **`ggsw_encrypt_sk` produces a well-formed GGSW** (cell `(r, 0)`: `pt·gadget + e`; cell `(r, c+1)`: `pt·s_c·gadget + e`) -/
theorem ggswEncryptSk_wellformed (c : KeyCtx bits b n size kxe rank H E) (hd : 1 ≤ dsize)
    (tmp0 : Col) (htl : tmp0.length = size) (htw : WF n tmp0)
    (sk : List Poly) (hsk : ∀ s ∈ sk, norm1 s * 2 ^ (b - 1) ≤ H)
    (pt : Poly) (hpt : ScalarOk n pt)
    (xa : List Nat) (es : List Poly) (hes : ErrOk n E es (dnum * (rank + 1)))
    (cells : List (Nat × List Col)) (xa' : List Nat) (es' : List Poly)
    (h : Core.ggswEncryptSkT tmp0 bits b n size kxe rank dnum dsize pt sk xa es = some (cells, xa', es')) :
    es' = es.drop (dnum * (rank + 1)) ∧
    KeyWellFormed n b dsize size kxe dnum (rank + 1) (Core.keyMat n dnum (rank + 1) (rank + 1) size cells) sk
      (fun i => (if i = 0 then 1 else ι n (sk.getD (i - 1) [])) * ι n pt) (fun i r => es.getD (r * (rank + 1) + i) []) := by
  unfold Core.ggswEncryptSkT at h
  split at h
  · simp at h
  · rename_i hne
    have hskl : sk.length = rank := by omega
    rw [ggswRowSeq_eq b dsize rank pt hpt.1 _ tmp0 htl htw] at h
    cases hds : Core.descsOk (Core.ggswDescs b n size dsize rank dnum pt) with
    | none =>
      have : Core.descsOk ((List.range dnum).flatMap (fun row => (List.range (rank + 1)).map (fun col =>
        (row * (rank + 1) + col, (Core.gadgetPt b n size dsize row pt).map (fun p => some (p, col)))))) = none := hds
      simp [this] at h
    | some ds =>
      have hds' : Core.descsOk ((List.range dnum).flatMap (fun row => (List.range (rank + 1)).map (fun col =>
        (row * (rank + 1) + col, (Core.gadgetPt b n size dsize row pt).map (fun p => some (p, col)))))) = some ds := hds
      simp only [hds'] at h
      have hcells := cellsOf_standard h
      obtain ⟨_, hdrop, _, _⟩ := standardCells_get bits b n size kxe rank sk ds xa es cells xa' es' h
      have hdl : ds.length = dnum * (rank + 1) := by
        have := (mapM_some_get _ _ ds hds).1
        rw [this]; simp [Core.ggswDescs, flatMap_range_length]
      obtain ⟨h1, KL, h2, h3⟩ := ggsw_descs_wellformed (n := n) c.hbits c.hr c.hb1 c.hb c.hk c.hlimb c.hn hd sk hskl hsk pt hpt.1 hpt.2 ds hds es cells
        hcells hes c.hE0 c.hsum
      exact ⟨by rw [hdrop, hdl], rfl, rfl, rfl, by simp [Core.keyMat, hskl], rfl, h1, KL, h2, h3⟩

end

/-! ### compressed forms: decompression gives the same kind of cell list -/

theorem compressedCells_get (bits b n size kxe rank : Nat) (sk : List Poly) (expand : List Nat → List Nat) :
    ∀ (ds : List (Nat × Option (Col × Nat))) (top : List Nat) (es : List Poly) (out : List (Nat × Core.CellC)),
      Core.compressedCells bits b n size kxe rank sk expand ds top es = some out →
      out.length = ds.length ∧
      ∀ (k : Nat) (d : Nat × Option (Col × Nat)), ds[k]? = some d →
        ∃ c body ms xa', out[k]? = some (d.1, c) ∧ c.body = body ∧
          Core.encryptSkStream bits b n size kxe rank d.2 sk (expand c.seed) (es.getD k []) = some (body, ms, xa') := by
  intro ds
  induction ds with
  | nil => intro top es out h; simp [Core.compressedCells] at h; subst h; simp
  | cons d0 rest ih =>
    intro top es out h
    obtain ⟨idx, pt⟩ := d0
    cases es with
    | nil => simp [Core.compressedCells] at h
    | cons e es' =>
      unfold Core.compressedCells at h
      cases hn : Sampling.newSeed top with
      | none => simp [hn] at h
      | some p =>
        obtain ⟨seed, top'⟩ := p
        simp only [hn] at h
        cases hs : Core.encryptSkStream bits b n size kxe rank pt sk (expand seed) e with
        | none => simp [hs] at h
        | some q =>
          obtain ⟨body, ms, xa'⟩ := q
          simp only [hs] at h
          cases hr : Core.compressedCells bits b n size kxe rank sk expand rest top' es' with
          | none => simp [hr] at h
          | some out' =>
            simp only [hr, Option.some.injEq] at h
            subst h
            obtain ⟨i1, i2⟩ := ih top' es' out' hr
            refine ⟨by simp [i1], ?_⟩
            intro k d hd
            cases k with
            | zero =>
              simp only [List.getElem?_cons_zero, Option.some.injEq] at hd
              subst hd
              exact ⟨⟨body, seed⟩, body, ms, xa', by simp, rfl, by simpa using hs⟩
            | succ j =>
              simp only [List.getElem?_cons_succ] at hd
              obtain ⟨c, bd, m2, x2, h1, h2, h3⟩ := i2 j d hd
              exact ⟨c, bd, m2, x2, by simpa using h1, h2, by simpa using h3⟩

/-- decompressing the cells of a compressed routine gives a cell list of the same descriptors -/
theorem cellsOf_compressed {bits b n size kxe rank : Nat} {sk : List Poly} {expand : List Nat → List Nat}
    {ds : List (Nat × Option (Col × Nat))} {top : List Nat} {es : List Poly} {out : List (Nat × Core.CellC)} {cells : List (Nat × List Col)}
    (h : Core.compressedCells bits b n size kxe rank sk expand ds top es = some out)
    (hdec : Core.decompressCells b n rank expand out = some cells) : CellsOf bits b n size kxe rank sk ds es cells := by
  obtain ⟨h1, h2⟩ := compressedCells_get bits b n size kxe rank sk expand ds top es out h
  obtain ⟨g1, g2⟩ := mapM_some_get _ out cells hdec
  refine ⟨by rw [g1, h1], ?_⟩
  intro k d hd
  obtain ⟨c, body, ms, xa', hc1, hc2, hc3⟩ := h2 k d hd
  obtain ⟨y, hy1, hy2⟩ := g2 k _ hc1
  refine ⟨expand c.seed, body, ms, xa', hc3, ?_⟩
  rw [hy2]
  obtain ⟨hdm, _⟩ := stream_cell hc3
  have hbl := stream_body_length hc3
  simp only [Core.decompressCell, hc2, hbl, hdm, Option.map_some, Option.some.injEq] at hy1
  rw [← hy1]

section
variable {bits b n size kxe rankOut rankIn rank dnum dsize : Nat} {H E : Int}

/-- **decompressed `gglwe_compressed_encrypt_sk` is a well-formed key** (same statement as the standard form; the masks are those of
`Source::new(stored seed)` — C19 `compressed_cells_eq`) -/
theorem gglweCompressed_wellformed (c : KeyCtx bits b n size kxe rankOut H E) (hd : 1 ≤ dsize)
    (tmp0 : Col) (htl : tmp0.length = size) (htw : WF n tmp0)
    (sk : List Poly) (hskl : sk.length = rankOut) (hsk : ∀ s ∈ sk, norm1 s * 2 ^ (b - 1) ≤ H)
    (pts : List Poly) (hpts : ∀ i, i < rankIn → ScalarOk n (pts.getD i []))
    (expand : List Nat → List Nat) (seedXa : List Nat) (es : List Poly) (hes : ErrOk n E es (rankIn * dnum))
    (cc : List (Nat × Core.CellC)) (cells : List (Nat × List Col))
    (h : Core.gglweEncryptCompressedT tmp0 bits b n size kxe rankOut rankIn dnum dsize pts sk expand seedXa es = some cc)
    (hdec : Core.decompressCells b n rankOut expand cc = some cells) :
    KeyWellFormed n b dsize size kxe dnum rankIn (Core.keyMat n dnum rankIn (rankOut + 1) size cells) sk
      (fun i => ι n (pts.getD i [])) (fun i r => es.getD (i * dnum + r) []) := by
  rw [gglweEncryptCompressedT_eq tmp0 htl htw bits b kxe rankOut rankIn dnum dsize pts (fun col hc => (hpts col hc).1) sk expand seedXa es] at h
  unfold Core.gglweEncryptCompressed at h
  cases hds : Core.descsOk (Core.gglweDescs b n size dsize rankIn dnum pts) with
  | none => simp [hds] at h
  | some ds =>
    simp only [hds] at h
    obtain ⟨h1, KL, h2, h3⟩ := gglwe_descs_wellformed (n := n) c.hbits c.hr c.hb1 c.hb c.hk c.hlimb c.hn hd sk hskl hsk pts hpts ds hds es cells
      (cellsOf_compressed h hdec) hes c.hE0 c.hsum
    exact ⟨rfl, rfl, rfl, by simp [Core.keyMat, hskl], rfl, h1, KL, h2, h3⟩

/-- **decompressed `ggsw_compressed_encrypt_sk` is a well-formed GGSW** -/
theorem ggswCompressed_wellformed (c : KeyCtx bits b n size kxe rank H E) (hd : 1 ≤ dsize)
    (tmp0 : Col) (htl : tmp0.length = size) (htw : WF n tmp0)
    (sk : List Poly) (hskl : sk.length = rank) (hsk : ∀ s ∈ sk, norm1 s * 2 ^ (b - 1) ≤ H)
    (pt : Poly) (hpt : ScalarOk n pt)
    (expand : List Nat → List Nat) (seedXa : List Nat) (es : List Poly) (hes : ErrOk n E es (dnum * (rank + 1)))
    (cc : List (Nat × Core.CellC)) (cells : List (Nat × List Col))
    (h : Core.ggswEncryptCompressedT tmp0 bits b n size kxe rank dnum dsize pt sk expand seedXa es = some cc)
    (hdec : Core.decompressCells b n rank expand cc = some cells) :
    KeyWellFormed n b dsize size kxe dnum (rank + 1) (Core.keyMat n dnum (rank + 1) (rank + 1) size cells) sk
      (fun i => (if i = 0 then 1 else ι n (sk.getD (i - 1) [])) * ι n pt) (fun i r => es.getD (r * (rank + 1) + i) []) := by
  rw [ggswEncryptCompressedT_eq tmp0 htl htw bits b kxe rank dnum dsize pt hpt.1 sk expand seedXa es] at h
  unfold Core.ggswEncryptCompressed at h
  cases hds : Core.descsOk (Core.ggswDescs b n size dsize rank dnum pt) with
  | none => simp [hds] at h
  | some ds =>
    simp only [hds] at h
    obtain ⟨h1, KL, h2, h3⟩ := ggsw_descs_wellformed (n := n) c.hbits c.hr c.hb1 c.hb c.hk c.hlimb c.hn hd sk hskl hsk pt hpt.1 hpt.2 ds hds es cells
      (cellsOf_compressed h hdec) hes c.hE0 c.hsum
    exact ⟨rfl, rfl, rfl, by simp [Core.keyMat, hskl], rfl, h1, KL, h2, h3⟩

end

end CoreEnc
