import Poulpy.Lemmas.PackExec
import Poulpy.Lemmas.TraceNoise

/-!
# `glwe_pack_decrypts`: `dsize = 1` keys and a closed instance with one EXECUTED merge (C03)

* `mergeKeyOk_of_d1` — the two noise fields of `MergeKeyOk` (`TraceKeyOk.hnoise` for the fused forms, `hnoiseP` for the plain
  `glwe_automorphism` of the `both` code path) discharged for `dsize = 1` keys from the numeric gadget bound, as `traceKeyOk_of_d1`.
* closed instance: `N = 2`, two slots, one merge level (level `0`, `g = −1`) with the genuine key `KsDec.trKey` of `Lemmas/TraceNoise.lean`,
  both accumulator widths: the executed `glwe_pack` is evaluated and `glwe_pack_decrypts_noise` holds with every hypothesis discharged.
-/

namespace KsDec
open Hal Core Core.Ops C02L AutoMul TraceJump PackJump

theorem TraceKeyOk.mono {big128 : Bool} {N b S rk : Nat} {sk : List Poly} {key : Ks.Key} {gInv : Int} {EL KL : ℕ → ℕ → Poly}
    {Dm BA BA' : Int} (h : TraceKeyOk big128 N b S rk sk key gInv EL KL Dm BA) (hle : BA ≤ BA') :
    TraceKeyOk big128 N b S rk sk key gInv EL KL Dm BA' :=
  ⟨h.hinv, h.hrank, h.hrout, h.hc0, h.hD, h.hM, h.hS, h.hbk, h.hDm0, h.hm, h.hAcc, h.hs, h.hEL, h.hKL, h.hkey, h.hcov1, h.hcov2,
    fun a h1 h2 h3 h4 h5 => (h.hnoise a h1 h2 h3 h4 h5).trans hle⟩

theorem traceBA_mono (N b S Sk cin rows : ℕ) (sn sn' Emax : ℤ) (h : sn ≤ sn') :
    traceBA N b S Sk cin rows sn Emax ≤ traceBA N b S Sk cin rows sn' Emax := by
  unfold traceBA
  have h1 : (0 : ℤ) ≤ 2 ^ (b * S) := by positivity
  have h2 : (0 : ℤ) ≤ C02.normTol (b * S) (b * Sk) := by unfold C02.normTol; split <;> positivity
  have := mul_le_mul_of_nonneg_right h h2
  nlinarith [mul_le_mul_of_nonneg_left this h1]

/-- **`mergeKeyOk_of_d1`** — `MergeKeyOk` for a `dsize = 1` key, with the closed numeric bound `traceBA … sn Emax` for any
`sn ≥ 1 + ‖sk‖₁, 1 + ‖σ_{g⁻¹}(sk)‖₁` (the two secrets under which the final roundings are measured) -/
theorem mergeKeyOk_of_d1 {big128 : Bool} {N b S rk : Nat} {sk : List Poly} {key : Ks.Key} {gInv : Int} {EL KL : ℕ → ℕ → Poly}
    {Dm Emax : Int} (h : TraceKeyD1 big128 N b S rk sk key gInv EL KL Dm Emax) (sn : ℤ)
    (h1 : 1 + snorm (min rk sk.length) sk ≤ sn)
    (h2 : 1 + snorm (min rk (sk.map (σ gInv)).length) (sk.map (σ gInv)) ≤ sn) :
    MergeKeyOk big128 N b S rk sk key gInv EL KL Dm (traceBA N b S key.mat.size key.mat.colsIn key.mat.rows sn Emax) := by
  refine ⟨(traceKeyOk_of_d1 h).mono (traceBA_mono _ _ _ _ _ _ _ _ _ h1), ?_⟩
  intro a ha _ _ _ hbd
  have hd := h.hd
  obtain ⟨_, _, _, _, _, dA⟩ := aDft_spec a ha
  have hG := gadgetBound_d1_range N b (aDftOf a) key hd EL (2 ^ (b - 1)) Emax (by positivity) dA (aDft_act_bound ha hbd) h.hEmax
  rw [Ckks.KsNum.dropBound_d1 N b _ _ key hd, mul_zero, add_zero]
  unfold traceBA
  have hp : (0 : ℤ) ≤ 2 ^ (b * S + b * S) := by positivity
  have hq : (0 : ℤ) ≤ 2 ^ (b * S) := by positivity
  have hn : (0 : ℤ) ≤ C02.normTol (b * S) (b * key.mat.size) := by unfold C02.normTol; split <;> positivity
  have e1 := mul_le_mul_of_nonneg_left hG hp
  have e2 := mul_le_mul_of_nonneg_left (mul_le_mul_of_nonneg_right h2 hn) hq
  linarith

/-! ### closed instance: `N = 2`, two slots, one executed merge (level `0`, `g = −1`, the key `trKey`) -/

/-- the ciphertext of slot 1: phase `31 + 18·X` under `1 + X` (scale `2^8`) -/
def pkB : Ks.Ct := Ks.mkCt 4 2 [[[1, -2], [0, 3]], [[2, 1], [-1, 0]]]

/-- the executed `glwe_pack` of `{0 ↦ trCt, 1 ↦ pkB}` (`log_gap_out = 0`: one merge level, both operands present, no trace level) -/
def pkOut : Ks.Ct := { (Ks.mkCt 4 2 [[[8, 1], [3, 4]], [[-2, 3], [-4, -1]]]) with k := 0 }

theorem pkRun (big128 : Bool) : Ks.pack big128 (2 ^ 1) 4 [trKey] 4 2 [(0, trCt), (1, pkB)] 0 = .ok pkOut := by
  cases big128 <;> decide +kernel

/-- the constant coefficients of the two input phases, and the phase of the packed result: `u_0 = 44` lands on coefficient 0 (`48`), `u_1 = 31`
on coefficient 1 (`31`) -/
example : slotU 4 (2 ^ 1) trSk [(0, trCt), (1, pkB)] 0 = 44 ∧ slotU 4 (2 ^ 1) trSk [(0, trCt), (1, pkB)] 1 = 31 ∧
    valP 4 (2 ^ 1) (phase trSk pkOut) = [48, 31] := by decide +kernel

theorem trSk_sigma_snorm : snorm (min 1 (trSk.map (σ (-1))).length) (trSk.map (σ (-1))) = 2 := by decide +kernel

theorem trKey_merge (big128 : Bool) :
    MergeKeyOk big128 (2 ^ 1) 4 2 1 trSk trKey (-1) trEL (fun _ _ => [0, 0]) 2 (2 ^ 16 * 32) := by
  have h := mergeKeyOk_of_d1 (trKey_d1 big128) 3 (by decide +kernel) (by rw [trSk_sigma_snorm]; norm_num)
  have e : traceBA (2 ^ 1) 4 2 trKey.mat.size trKey.mat.colsIn trKey.mat.rows 3 1 = 2 ^ 16 * 32 := by
    show traceBA (2 ^ 1) 4 2 2 1 2 3 1 = 2 ^ 16 * 32
    unfold traceBA C02.normTol; norm_num
  rw [e] at h
  exact h

/-- **closed instance of `glwe_pack_decrypts_noise`** — `N = 2`, both slots present, ONE EXECUTED merge with a genuine automorphism key for
`g = −1`, both accumulator widths, every hypothesis discharged: coefficient `J` of the phase of the executed result is the constant
coefficient of slot `J`'s phase plus `e`, modulo `2^8`, with `2c·|e| ≤ mergeBeta = c·(4·3 + 2·32)`, i.e. `|e| ≤ 38` units of the last limb (two
rounding units `2(1+‖sk‖₁) = 6` of `glwe_rsh` and twice the gadget noise `32` of the key, halved).  The executed errors are `4` and `0`. -/
theorem pack_closed_instance (big128 : Bool) (J : ℕ) (hJ : J < 2 ^ 1) :
    Ks.pack big128 (2 ^ 1) 4 [trKey] 4 2 [(0, trCt), (1, pkB)] 0 = .ok pkOut ∧
    ∃ e q : ℤ, (valP 4 (2 ^ 1) (phase trSk pkOut)).getD J 0 = slotU 4 (2 ^ 1) trSk [(0, trCt), (1, pkB)] J + e + 2 ^ (4 * 2) * q ∧
      |e| ≤ 38 := by
  refine ⟨pkRun big128, ?_⟩
  have hinvA : TraceInv (2 ^ 1) 4 2 1 (2 ^ 60) trCt :=
    ⟨by decide, rfl, rfl, rfl, by intro c hc l hl x hx; revert x l c; decide⟩
  have hinvB : TraceInv (2 ^ 1) 4 2 1 (2 ^ 60) pkB :=
    ⟨by decide, rfl, rfl, rfl, by intro c hc l hl x hx; revert x l c; decide⟩
  obtain ⟨e, q, he, hb⟩ := glwe_pack_decrypts_noise big128 1 (by norm_num) [trKey] trSk 4 2 2 1 (by norm_num) (2 ^ 60) (by norm_num)
    ⟨by norm_num, by norm_num, by norm_num, by norm_num, by norm_num⟩ (fun _ => 2 ^ 16 * 32) (fun _ => by norm_num)
    (by intro p hp; simp [trSk] at hp; subst hp; rfl)
    (by
      intro i p key _ hm _
      obtain rfl : key = trKey := by simpa using hm
      exact ⟨rfl, -1, trEL, fun _ _ => [0, 0], 2, trKey_merge big128⟩)
    [(0, trCt), (1, pkB)] 0 pkOut
    (by
      intro j x hx
      unfold Ks.SlotMap.get at hx
      by_cases h0 : j = 0
      · subst h0; simp at hx; rw [← hx]; exact hinvA
      · by_cases h1 : j = 1
        · subst h1; simp at hx; rw [← hx]; exact hinvB
        · simp [Ne.symm h0, Ne.symm h1] at hx)
    (pkRun big128) J hJ
  refine ⟨e, q, ?_, ?_⟩
  · have : J % 2 ^ (1 - (1 - 0)) = 0 := by simp [Nat.mod_one]
    rw [if_pos this] at he
    exact he
  · have e3 : snorm (min 1 trSk.length) trSk = 2 := by decide +kernel
    have hcc : cc 4 2 2 = 2 ^ 16 := by unfold cc; norm_num
    simp only [Nat.sub_zero, Nat.sub_self, Finset.sum_range_one, Finset.sum_range_zero, pow_zero, one_mul, mul_zero, add_zero] at hb
    unfold mergeBeta at hb
    rw [e3, hcc] at hb
    have : (2 : ℤ) ^ 16 * (2 * |e|) ≤ 2 ^ 16 * 76 := by linarith
    have := le_of_mul_le_mul_left this (by positivity)
    linarith

/-! ### the slot-reading contract (`PackCoeffContract` / `WordMachine.pack_spec` of `Lemmas/NoiseAlg.lean`, slice bin-fhe) -/

/-- the centred representative modulo `Q` -/
def cmod (x Q : ℤ) : ℤ := (x + Q / 2) % Q - Q / 2

theorem cmod_add_mul (v Q q : ℤ) (hQ : 0 < Q) (h1 : -(Q / 2) ≤ v) (h2 : v < Q - Q / 2) : cmod (v + Q * q) Q = v := by
  unfold cmod
  have e : v + Q * q + Q / 2 = (v + Q / 2) + Q * q := by ring
  rw [e, Int.add_mul_emod_self_left, Int.emod_eq_of_lt (by linarith) (by linarith)]
  ring

/-- slot `J` of a packed ciphertext, as a decryptor reads it: coefficient `J` of the phase value, centred modulo `2^M` -/
def slotRead (b S N : ℕ) (sk : List Poly) (res : Ks.Ct) (J : ℕ) : ℤ := cmod ((valP b N (phase sk res)).getD J 0) (2 ^ (b * S))

/-- **`glwe_pack_slot_contract`** — the statement `|slot (pack cs) J − c0 (ph (cs J))| ≤ Bp` of bin-fhe's `PackCoeffContract`
(`WordMachine.pack_spec`), for the EXECUTED `glwe_pack`: with `slot = slotRead` (coefficient `J` of the phase, centred mod `2^M`),
`c0 ∘ ph = slotU` (constant coefficient of the phase of slot `J`'s ciphertext) and `Bp` any integer with `2c·Bp ≥` the noise sum of
`glwe_pack_decrypts_noise`, provided message + noise do not wrap (`|u_J| + Bp < 2^(M−1)`).  Every slot `J ∈ G·ℕ`, every subset of present
slots; the other coefficients read `|slot| ≤ Bp`. -/
theorem glwe_pack_slot_contract (big128 : Bool) (K : ℕ) (hK : K + 1 ≤ 64) (keys : List Ks.Key) (sk : List Poly) (b S Sk rk : ℕ)
    (hb62 : b ≤ 62) (H : ℤ) (hH : 2 ^ b - 1 ≤ H) (hh2 : NormL.HeadRoom 64 b 0 (H + H)) (BA : ℕ → ℤ) (hBA : ∀ i, 0 ≤ BA i)
    (hsk : Ks.AllLen (2 ^ K) sk) (hkeys : PackKeys big128 K b S Sk rk sk keys BA)
    (a : Ks.SlotMap) (logGapOut : ℕ) (res : Ks.Ct) (ha : ∀ j, OptInv (2 ^ K) b S rk H (a.get j))
    (h : Ks.pack big128 (2 ^ K) b keys b S a logGapOut = .ok res) (Bp : ℤ) (hM : 1 ≤ b * S)
    (hBp : ∑ i ∈ Finset.range (K - logGapOut), 2 ^ (K - logGapOut - 1 - i) * mergeBeta b S Sk rk sk (BA i)
          + 2 * ∑ t ∈ Finset.range (K - (K - logGapOut)),
              (cc b S Sk * (2 * (1 + snorm (min rk sk.length) sk)) + BA (K - logGapOut + t)) ≤ (2 * cc b S Sk) * Bp)
    (J : ℕ) (hJ : J < 2 ^ K)
    (hfit : |(if J % 2 ^ (K - (K - logGapOut)) = 0 then slotU b (2 ^ K) sk a J else 0)| + Bp < 2 ^ (b * S - 1)) :
    |slotRead b S (2 ^ K) sk res J - (if J % 2 ^ (K - (K - logGapOut)) = 0 then slotU b (2 ^ K) sk a J else 0)| ≤ Bp := by
  obtain ⟨e, q, he, hb⟩ := glwe_pack_decrypts_noise big128 K hK keys sk b S Sk rk hb62 H hH hh2 BA hBA hsk hkeys a logGapOut res ha h J hJ
  generalize (if J % 2 ^ (K - (K - logGapOut)) = 0 then slotU b (2 ^ K) sk a J else 0) = u at *
  have hc := cc_pos b S Sk
  have heB : |e| ≤ Bp := by
    have : (2 * cc b S Sk) * |e| ≤ (2 * cc b S Sk) * Bp := hb.trans hBp
    exact le_of_mul_le_mul_left this (by linarith)
  have hQ : (2 : ℤ) ^ (b * S) = 2 * 2 ^ (b * S - 1) := by
    rw [← pow_succ']; congr 1; omega
  have hhalf : (2 : ℤ) ^ (b * S) / 2 = 2 ^ (b * S - 1) := by rw [hQ]; simp
  have hue : |u + e| < 2 ^ (b * S - 1) := lt_of_le_of_lt (abs_add_le u e) (by linarith)
  have hlt := abs_lt.mp hue
  unfold slotRead
  rw [he, cmod_add_mul (u + e) (2 ^ (b * S)) q (by positivity) (by rw [hhalf]; linarith) (by rw [hhalf, hQ]; linarith)]
  simpa using heB

/-- on the closed instance: both slots are read within `38` units -/
example (J : ℕ) (hJ : J < 2 ^ 1) :
    |slotRead 4 2 (2 ^ 1) trSk pkOut J - slotU 4 (2 ^ 1) trSk [(0, trCt), (1, pkB)] J| ≤ 38 := by
  have hJ' : J = 0 ∨ J = 1 := by omega
  rcases hJ' with rfl | rfl <;> decide +kernel

end KsDec
