/-
Helper lemmas for C01: one column of `glwe_encrypt_pk_internal` (big accumulator of width `bits`).
-/
import Poulpy.Lemmas.CoreEncPoly

namespace CoreEnc
open NormL

theorem svpApply_eq (n : Nat) (u : Poly) (pki : Col) : Hal.svpApplyCol n pki.length u pki = Core.colMulPoly u pki := by
  unfold Hal.svpApplyCol Core.colMulPoly
  apply List.ext_getElem
  · simp
  · intro j h1 h2
    simp only [List.length_map, List.length_range] at h1
    simp [h1, Hal.limbOr0, List.getD_eq_getElem?_getD]

theorem mapIdx_wrap_eq' (w : Int → Int) {B E : Int} (hw : ∀ x : Int, |x| ≤ B + E → w x = x) (l : List Int) (limb : Nat) (d : Int)
    (hl : ∀ x ∈ l, |x| ≤ B) (hd : |d| ≤ E) :
    l.mapIdx (fun j x => if j = limb then w (x + d) else x) = l.mapIdx (fun j x => if j = limb then x + d else x) := by
  apply List.ext_getElem
  · simp
  · intro j h1 h2
    simp only [List.length_mapIdx] at h1
    simp only [List.getElem_mapIdx]
    split
    · apply hw
      have := abs_add_le (l[j]) d
      have := hl _ (List.getElem_mem h1)
      linarith
    · rfl

theorem vecAddAssignW_spec {n : Nat} (w : Int → Int) (c1 p : Col) (h1 : WF n c1) (hp : WF n p) :
    (vecAddAssignW w c1 p).length = c1.length ∧ WF n (vecAddAssignW w c1 p) ∧
    ∀ t, t < n → coefAt (vecAddAssignW w c1 p) t =
      List.zipWith (fun x y => w (x + y)) ((coefAt c1 t).take (min p.length c1.length)) ((coefAt p t).take (min p.length c1.length))
        ++ (coefAt c1 t).drop (min p.length c1.length) := by
  unfold vecAddAssignW znxAddW
  set s := min p.length c1.length with hs
  have hl1 : (c1.take s).length = (p.take s).length := by simp [hs]
  obtain ⟨z1, z2, z3⟩ := colZip_spec (n := n) (fun x y => w (x + y)) (c1.take s) (p.take s) (take_WF h1 s) (take_WF hp s) hl1
  refine ⟨?_, ?_, ?_⟩
  · simp only [List.length_append, z1, List.length_take, List.length_drop]; omega
  · intro l hl
    rcases List.mem_append.mp hl with h | h
    · exact z2 l h
    · exact h1 l (List.mem_of_mem_drop h)
  · intro t ht
    rw [coefAt_append, z3 t ht, coefAt_take, coefAt_take, coefAt_drop]

/-- message value of coefficient `t` for an optional plaintext column -/
def msgValO (b size t : Nat) : Option Col → Int
  | none => 0
  | some p => valI b (fitLimbs size (coefAt p t))

section col
variable {bits b n size kxe : Nat} {H Hp E M : Int}

/-- **one column of public-key encryption**: `ct[i] = normalize(u ⋆ pk[i] + e_i (+ m))`, exact modulo
`2^(b·size)` when the public key has the ciphertext's number of limbs -/
theorem encPkCol_spec (hbits : bits = 64 ∨ bits = 128) (hr : HeadRoom bits b 0 H) (hb1 : 1 ≤ b) (hb : b ≤ 63) (hk : 1 ≤ kxe)
    (hlimb : errLimb kxe b < size) (u : Poly) (pki : Col) (hpl : pki.length = size) (hpwf : WF n pki)
    (hprod : Bounded Hp (Core.colMulPoly u pki)) (hHp0 : 0 ≤ Hp)
    (ei : Poly) (he : ei.length = n) (hE0 : 0 ≤ E) (heB : ∀ x ∈ ei, |x| ≤ E)
    (pt : Option Col) (hptwf : ∀ p, pt = some p → WF n p) (hM0 : 0 ≤ M) (hptB : ∀ p, pt = some p → CoefBounded n M p)
    (hsum : Hp + E + M ≤ H) (h63 : Hp + E + M < 2 ^ 63) :
    ∃ ci, Core.encPkCol bits b n size kxe u pki ei pt = some ci ∧ ci.length = size ∧ WF n ci ∧ Bounded (2 ^ (b - 1)) ci ∧
      ∀ t, t < n → ∃ K : Int, valI b (coefAt ci t) =
        valI b (coefAt (Core.colMulPoly u pki) t) + ei.getD t 0 * 2 ^ (b * (size - 1 - errLimb kxe b)) + msgValO b size t pt + K * 2 ^ (b * size) := by
  have hw : ∀ x : Int, |x| ≤ Hp + E + M → wrapN bits x = x := fun x hx => wrapN_id hbits (lt_of_le_of_lt hx h63)
  have het : ∀ t, |ei.getD t 0| ≤ E := by
    intro t
    rw [List.getD_eq_getElem?_getD]
    by_cases h : t < ei.length
    · simp only [List.getElem?_eq_getElem h, Option.getD_some]; exact heB _ (List.getElem_mem h)
    · simp [List.getElem?_eq_none (Nat.le_of_not_lt h), hE0]
  set c0 := Core.colMulPoly u pki with hc0def
  have hc0 : c0.length = size := by rw [hc0def, colMulPoly_length, hpl]
  have hc0wf : WF n c0 := colMulPoly_WF u hpwf
  have hB0 : CoefBounded n Hp c0 := CoefBounded.of_bounded hHp0 hprod
  have htl : Sampling.targetLimbAndScale kxe b = some (errLimb kxe b, (errLimb kxe b + 1) * b - kxe) := by
    unfold Sampling.targetLimbAndScale errLimb; rw [if_neg (by omega)]
  set c1 := c0.mapIdx (fun j l => if j = errLimb kxe b then List.zipWith (fun x y => wrapN bits (x + y)) l ei else l) with hc1
  have hadd : Sampling.addNormalCol (wrapN bits) kxe b c0 ei = some c1 := by
    unfold Sampling.addNormalCol
    simp only [htl]
    rw [if_pos (by rw [hc0]; exact hlimb)]
  have hc1len : c1.length = size := by simp [hc1, hc0]
  have hc1wf : WF n c1 := mapIdx_length_WF _ _ c0 ei hc0wf he
  have hc1coef : ∀ t, t < n → coefAt c1 t = (coefAt c0 t).mapIdx (fun j x => if j = errLimb kxe b then x + ei.getD t 0 else x) := by
    intro t ht
    rw [hc1, coefAt_addNormal _ _ c0 ei hc0wf he t ht]
    exact mapIdx_wrap_eq' (wrapN bits) (B := Hp) (E := E) (fun x hx => hw x (by linarith)) _ _ _ (hB0 t ht) (het t)
  have hc1B : CoefBounded n (Hp + E) c1 := by
    intro t ht
    rw [hc1coef t ht]
    exact mapIdx_bound hE0 _ _ _ (hB0 t ht) (het t)
  have hc1val : ∀ t, t < n → valI b (coefAt c1 t) = valI b (coefAt c0 t) + ei.getD t 0 * 2 ^ (b * (size - 1 - errLimb kxe b)) := by
    intro t ht
    rw [hc1coef t ht, valI_mapIdx_add b _ _ _ (by rw [coefAt_length, hc0]; exact hlimb), coefAt_length, hc0]
  -- message
  obtain ⟨c2, hc2def, hc2len, hc2wf, hc2B, hc2val⟩ : ∃ c2 : Col,
      Core.addPtBig bits pt c1 = c2 ∧ c2.length = size ∧ WF n c2 ∧ CoefBounded n (Hp + E + M) c2 ∧
      ∀ t, t < n → valI b (coefAt c2 t) = valI b (coefAt c1 t) + msgValO b size t pt := by
    cases pt with
    | none =>
      refine ⟨c1, rfl, hc1len, hc1wf, ?_, fun t _ => by simp [msgValO]⟩
      intro t ht v hv
      have := hc1B t ht v hv
      linarith
    | some p =>
      have hpwf' := hptwf p rfl
      have hpB := hptB p rfl
      obtain ⟨a1, a2, a3⟩ := vecAddAssignW_spec (wrapN bits) c1 p hc1wf hpwf'
      have hnw : ∀ t, t < n →
          List.zipWith (fun x y => wrapN bits (x + y)) ((coefAt c1 t).take (min p.length c1.length)) ((coefAt p t).take (min p.length c1.length))
          = List.zipWith (· + ·) ((coefAt c1 t).take (min p.length c1.length)) ((coefAt p t).take (min p.length c1.length)) := by
        intro t ht
        apply zipWith_wrap_eq (wrapN bits) (· + ·) (B1 := Hp + E) (B2 := M) _ _ _
          (fun x hx => hc1B t ht x (List.mem_of_mem_take hx)) (fun y hy => hpB t ht y (List.mem_of_mem_take hy))
        intro x y hx hy
        apply hw
        have := abs_add_le x y
        linarith
      refine ⟨vecAddAssignW (wrapN bits) c1 p, rfl, by rw [a1, hc1len], a2, ?_, ?_⟩
      · intro t ht v hv
        rw [a3 t ht, hnw t ht] at hv
        rcases List.mem_append.mp hv with h | h
        · refine zipWith_bound (· + ·) (B1 := Hp + E) (B2 := M) ?_ _ _
            (fun x hx => hc1B t ht x (List.mem_of_mem_take hx)) (fun y hy => hpB t ht y (List.mem_of_mem_take hy)) v h
          intro x y hx hy
          have := abs_add_le x y
          show |x + y| ≤ Hp + E + M
          linarith
        · have := hc1B t ht v (List.mem_of_mem_drop h)
          linarith
      · intro t ht
        rw [a3 t ht, hnw t ht]
        have := valI_fitLimbs_add b (coefAt c1 t) (coefAt p t)
        rw [coefAt_length, coefAt_length] at this
        rw [this, hc1len]
        simp [msgValO]
  unfold Core.encPkCol
  simp only [svpApply_eq, ← hc0def, hadd, hc2def]
  rw [bigNormalize_eq bits b size n hbits]
  have hc2bd : Bounded H c2 := bounded_of_coef hc2wf (fun t ht v hv => le_trans (hc2B t ht v hv) hsum)
  obtain ⟨o1, o2, o3, o4⟩ := normCol_spec hbits hr hb size n c2 hc2bd
  refine ⟨_, rfl, o1, o2, o3, ?_⟩
  intro t ht
  have hte := (o4 t ht).2 (by rw [hc2len])
  rw [hc2len] at hte
  obtain ⟨k, hk'⟩ := torusEq_same hte
  refine ⟨k, ?_⟩
  rw [hk', hc2val t ht, hc1val t ht]

end col

end CoreEnc
