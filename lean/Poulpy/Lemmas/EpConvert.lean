import Poulpy.Lemmas.EpTotal

/-!
The input radix conversion of the external product / relinearisation / row expansion (`glwe_normalize` into `⌈sa·ab/bg⌉` limbs of the key
radix), every kernel hypothesis discharged by C08: it returns, never loses precision (tolerance `0`), and the phase is re-expressed exactly.
Then the covered regime: the part of the converted input the gadget uses is its whole phase.
-/

namespace Core
open Hal Ks Finset C02L Core.Ops KsDec

/-- limbs of the converted input -/
def epConvSize (sa ab bg : Nat) : Nat := if ab ≠ bg then (sa * ab + bg - 1) / bg else sa

theorem epConv_covers (sa ab bg : Nat) (hbg : 1 ≤ bg) : ab * sa ≤ bg * epConvSize sa ab bg := by
  unfold epConvSize
  split
  · have h1 := Nat.div_add_mod (sa * ab + bg - 1) bg
    have h2 := Nat.mod_lt (sa * ab + bg - 1) (by omega : 0 < bg)
    rw [Nat.mul_comm ab sa]
    generalize bg * ((sa * ab + bg - 1) / bg) = z at h1 ⊢
    generalize sa * ab = w at h1 h2 ⊢
    omega
  · rename_i h
    have : ab = bg := by simpa using h
    rw [this]

theorem ι_of_normInf_le_zero (N : Nat) (E : Poly) (h : normInf E ≤ 0) : ι N E = 0 := by
  have hz : E = zeroP E.length := by
    unfold zeroP
    rw [List.eq_replicate_iff]
    refine ⟨rfl, fun x hx => ?_⟩
    have := (normInf_le_iff (le_refl (0 : Int))).mp h x hx
    exact abs_nonpos_iff.mp this
  rw [hz, ι_zero]

/-- **`epConvert`, total**: the conversion returns a well-formed `aConv` of `epConvSize` limbs in the key radix, with bounded digits, whose
phase under every secret is EXACTLY the phase of `a` on the torus:
`2^(ab·sa)·phase(aConv) = 2^(bg·cs)·phase(a) + 2^(bg·cs+ab·sa)·Q`. -/
theorem epConvert_total (N : Nat) (hN : 0 < N) (a : List Col) (ab : Nat) (g : EpGGSW) (sa : Nat) (Hin : Int)
    (hne : a ≠ []) (hwf : ∀ c ∈ a, ColWF N sa c)
    (hab1 : 1 ≤ ab) (hab : ab ≤ 62) (hgb1 : 1 ≤ g.base2k) (hgb : g.base2k ≤ 62)
    (hH0 : 0 ≤ Hin) (hH : Hin + 8 ≤ 2 ^ 62) (hb : ∀ c ∈ a, ∀ l ∈ c, ∀ x ∈ l, |x| ≤ Hin) :
    ∃ aConv, epConvert N a ab g = some aConv ∧ aConv.length = a.length ∧
      (∀ c ∈ aConv, ColWF N (epConvSize sa ab g.base2k) c) ∧
      (∀ c ∈ aConv, ∀ l ∈ c, ∀ x ∈ l, |x| ≤ if ab = g.base2k then Hin else 2 ^ g.base2k - 1) ∧
      ∀ (s : List Poly), ∃ Q : Poly, Q.length = N ∧
        (2 : R N) ^ (ab * sa) * ι N (valP g.base2k N (phase s (Ks.mkCt g.base2k N aConv)))
          = (2 : R N) ^ (g.base2k * epConvSize sa ab g.base2k) * ι N (valP ab N (phase s (Ks.mkCt ab N a)))
            + (2 : R N) ^ (g.base2k * epConvSize sa ab g.base2k + ab * sa) * ι N Q := by
  have h0 : 0 < a.length := List.length_pos_of_ne_nil hne
  have hsa : (a.getD 0 []).length = sa := by
    rw [List.getD_eq_getElem?_getD, List.getElem?_eq_getElem h0]; exact (hwf _ (List.getElem_mem h0)).1
  by_cases hr : ab = g.base2k
  · -- same radix: nothing happens
    refine ⟨a, by unfold epConvert; simp [hr], rfl, ?_, ?_, ?_⟩
    · have : epConvSize sa ab g.base2k = sa := by unfold epConvSize; simp [hr]
      rw [this]; exact hwf
    · simp only [hr, if_true]; exact hb
    · intro s
      refine ⟨zeroP N, by simp [zeroP], ?_⟩
      have : epConvSize sa ab g.base2k = sa := by unfold epConvSize; simp [hr]
      rw [this, ι_zero, hr]; ring
  · have hcs : epConvSize sa ab g.base2k = (sa * ab + g.base2k - 1) / g.base2k := by unfold epConvSize; simp [hr]
    obtain ⟨cs, h1, h2, h3, h4, h5⟩ := norm_stage_ring false N g.base2k (epConvSize sa ab g.base2k) ab sa 0 Hin a hN hgb1 hgb hab1 hab hH0
      (by simpa [bitsOf] using hH) hne hwf hb
    refine ⟨cs, ?_, h2, h3, ?_, ?_⟩
    · unfold epConvert epGlweNormalize
      rw [if_pos hr, hsa]
      show a.mapM (fun c => normalizeCol? g.base2k ((sa * ab + g.base2k - 1) / g.base2k) 0 c ab N) = some cs
      rw [← hcs]
      exact h1
    · simp only [hr, if_false]; exact h4
    · intro s
      obtain ⟨E, Q, hE, hQ, hn, he⟩ := h5 s
      have htol : normTolOff (g.base2k * epConvSize sa ab g.base2k) (ab * sa) 0 = 0 := by
        rw [normTolOff_zero]; unfold C02.normTol; rw [if_pos (epConv_covers sa ab g.base2k hgb1)]
      rw [htol, mul_zero] at hn
      have hE0 := ι_of_normInf_le_zero N E hn
      refine ⟨Q, hQ, ?_⟩
      rw [hE0] at he
      push_cast at he
      simpa using he

/-- **covered regime of the external product**: with `σ_0 = 1`, `σ_{i+1} = ι(sk_i)` and every limb of the converted input covered by the gadget
(`cs ≤ min(size, dnum·dsize)`), `Σ_i σ_i·usedVal(aConv_i) = β^{S−cs}·phase(aConv)` -/
theorem ep_covered_value (N : Nat) (hN : 0 < N) (aConv : List Col) (g : EpGGSW) (sk : List Poly) (σ : ℕ → R N) (cs : Nat)
    (hlen : aConv.length = g.rank + 1) (hwf : ∀ c ∈ aConv, ColWF N cs c) (hd : 1 ≤ g.dsize)
    (h1 : cs ≤ g.size) (h2 : cs ≤ g.dnum * g.dsize) (hsk : g.rank ≤ sk.length)
    (hσ0 : σ 0 = 1) (hσ : ∀ i, i < g.rank → σ (i + 1) = ι N (sk.getD i [])) :
    ∑ i ∈ range (g.rank + 1), σ i * Gadget.usedVal ((2 : R N) ^ g.base2k) g.size g.dsize g.dnum (aConv.getD 0 []).length
        (Ks.inLimb N (mkBuf g.n (g.rank + 1) (aConv.getD 0 []).length aConv) i)
      = ((2 : R N) ^ g.base2k) ^ (g.size - cs) * ι N (valP g.base2k N (phase sk (Ks.mkCt g.base2k N aConv))) := by
  have hne : aConv ≠ [] := by intro h; rw [h] at hlen; simp at hlen
  have hcol : ∀ k, k < g.rank + 1 → ColWF N cs (aConv.getD k []) := by
    intro k hk
    have hk' : k < aConv.length := by rw [hlen]; exact hk
    rw [List.getD_eq_getElem?_getD, List.getElem?_eq_getElem hk']; exact hwf _ (List.getElem_mem hk')
  have hl0 : (aConv.getD 0 []).length = cs := (hcol 0 (by omega)).1
  have hΦ := ι_valP_phase_cols N hN g.base2k cs sk aConv hne hwf
  rw [hlen, Nat.add_sub_cancel, Nat.min_eq_left hsk] at hΦ
  rw [hΦ, hl0, Finset.sum_range_succ', hσ0, one_mul, mul_add, Finset.mul_sum, add_comm]
  have hu : ∀ i, i < g.rank + 1 → Gadget.usedVal ((2 : R N) ^ g.base2k) g.size g.dsize g.dnum cs
      (Ks.inLimb N (mkBuf g.n (g.rank + 1) cs aConv) i)
      = ((2 : R N) ^ g.base2k) ^ (g.size - cs) * ι N (valP g.base2k N (aConv.getD i [])) := by
    intro i hi
    have hc := hcol i hi
    rw [C03.used_value_is_input_value _ _ _ _ _ _ (by omega) h2]
    have hin : ∀ m, Ks.inLimb N (mkBuf g.n (g.rank + 1) cs aConv) i m = ι N (limbOr0 N (aConv.getD i []) m) := by
      intro m
      unfold Ks.inLimb Buf.act mkBuf
      simp only []
      rw [List.take_of_length_le (by rw [hc.1])]
    simp only [hin]
    have hat := ι_valP_at N g.base2k g.size (aConv.getD i []) hc.2 (by rw [hc.1]; exact h1)
    rw [hc.1, Ks.radix_eq] at hat
    exact hat
  congr 1
  · exact hu 0 (by omega)
  · apply Finset.sum_congr rfl
    intro i hi
    have hi' : i < g.rank := mem_range.mp hi
    rw [hσ i hi', hu (i + 1) (by omega)]
    ring

end Core
