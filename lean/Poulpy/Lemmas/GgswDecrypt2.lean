import Poulpy.Lemmas.GgswDecrypt
import Poulpy.Lemmas.KsHeadRoom

/-!
# The GGSW loop, continued: `ggsw_automorphism_assign`, and the head-room of every GGSW theorem derived from digit bounds

`Lemmas/GgswDecrypt.lean` proves that every cell of the executed `ggsw_keyswitch` / `ggsw_automorphism` / `ggsw_keyswitch_assign` decrypts, under
hypotheses that bound *executed product buffers*: `Hp` (the product of the column-0 key switch, inside `KsRowOk`) and `HpT` / `hprodT` (the
`rank` gadget products `expandProd` of the row expansion).  This file

1. adds the missing in-place form **`ggsw_automorphism_assign_decrypts`** (`Ks.ggswAutomorphismAssign`);
2. derives both product bounds from operand digit bounds — `expandProd_bound` (`product_bound` on the product that `ggsw_expand_row`
   executes: mask digits `≤ Da`, tensor-key digits `≤ Dt` ⇒ every coefficient `≤ dsize·(rank·dnum)·N·Da·Dt`), `expandOk_of_digit_bounds`
   (`Core.ExpandOk` from digit bounds and ONE decidable inequality), `keyswitch_expandProd_bound` / `automorphism_expandProd_bound` (the
   mask of the expansion is the key-switched cell, digits `≤ 2^b − 1`), `KsRowOk_of_adm` (`prodOf_conv_bound`);
3. restates the GGSW theorems with decidable head-room only: **`ggsw_keyswitch_decrypts_adm`**, **`ggsw_automorphism_decrypts_adm`**,
   `ggsw_keyswitch_assign_decrypts_adm`, `ggsw_automorphism_assign_decrypts_adm`, **`ggsw_keyswitch_wellformed_adm`**,
   `ggsw_automorphism_wellformed_adm`: the head-room hypotheses are `ksAdmissible big128 key N Hin Dm` (column-0 key switch) and
   `expandAdmissible big128 t N (2^b) Dt (2^b)` (expansion), with `Dm` / `Dt` bounds on the stored digits of the two keys;
4. `decide` instances of `expandAdmissible` on the crate's shapes.

`hm` / `hmT` (bounds on the key entries) follow from bounds on the stored digits: `entry_normInf`, `tensorKey_entry_normInf`.

Not covered: the mask digits of the expansion are bounded by `2^b` (what `norm_stage` / `keyswitch_digits` deliver: `≤ 2^b − 1`), not by the
balanced bound `2^(b−1)` — a factor 2 in `expandAdmissible`, immaterial on the crate's shapes; the cross-radix branch of `ggsw_expand_row` and
the uncovered regime stay excluded as in `Lemmas/GgswDecrypt.lean`.
-/

namespace KsDec
open Hal Core Core.Ops C02L

/-! ### 1. the in-place form `ggsw_automorphism_assign` -/

open AutoMul in
/-- **`ggsw_automorphism_assign_decrypts`** — the executed `Ks.ggswAutomorphismAssign` (`ggsw_automorphism_assign`, non-empty `res`): every row
`x` of `res` goes through `glwe_automorphism` in place (`rank_in = rank_out`, result layout = layout of `x`), the expansion runs at the layout
of row 0; all rows in the radix of the tensor key and of the limb count of row 0.  Same conclusion as `ggsw_automorphism_decrypts` with
`rs = x0.size` (exactly as `ggsw_keyswitch_assign_decrypts` is the in-place form of `ggsw_keyswitch_decrypts`). -/
theorem ggsw_automorphism_assign_decrypts (N : Nat) (big128 : Bool) (x0 : Ks.Ct) (xs : List Ks.Ct) (key : Ks.Key) (t : ToGGSWKey)
    (cells : List (List Col)) (sk : List Poly) (gInv : Int) (EL KL : ℕ → ℕ → Poly) (ET : ℕ → ℕ → ℕ → Ks.R N) (Hin Hp HpT : Int)
    (hN : 0 < N) (hg : GalOk key.p N) (hskl : Ks.AllLen N sk) (hinv : ∀ s ∈ sk, σ key.p (σ gInv s) = s)
    (hrout : t.rank = key.rankOut) (hc0 : 0 < key.mat.colsOut)
    (hD : 1 ≤ key.dsize) (hMk : ∀ j q, (key.mat.entry j q).length = N) (hSk : key.mat.rows * key.dsize ≤ key.mat.size)
    (hbk1 : 1 ≤ key.base2k) (hbk : key.base2k ≤ 62) (hs : key.mat.colsIn ≤ sk.length)
    (hEL : ∀ i r, (EL i r).length = N) (hKL : ∀ i r, (KL i r).length = N)
    (hkey : ∀ i, i < key.mat.colsIn → ∀ r, r < key.mat.rows →
      Gadget.val (Ks.radix N key.base2k) key.mat.size (Ks.keyPhase N (sk.map (σ gInv)) key.mat i r) =
        Ks.ι N (sk.getD i []) * Ks.radix N key.base2k ^ (key.mat.size - (r + 1) * key.dsize) + Ks.ι N (EL i r)
          + Ks.radix N key.base2k ^ key.mat.size * Ks.ι N (KL i r))
    (hd : 1 ≤ t.dsize) (hn : t.n = N) (hS : t.dnum * t.dsize ≤ t.size) (hrank : t.rank ≤ sk.length)
    (hMt : ∀ c, c < t.rank → ∀ j q, ((t.at c).toPMat.entry j q).length = N) (hb1 : 1 ≤ t.base2k) (hb : t.base2k ≤ 62)
    (hkeyT : ∀ c, c < t.rank → ∀ i, i < t.rank → ∀ r, r < t.dnum →
      Gadget.val ((2 : Ks.R N) ^ t.base2k) t.size (Ks.keyPhase N sk (t.at c).toPMat i r)
        = Ks.ι N (sk.getD c []) * Ks.ι N (sk.getD i []) * ((2 : Ks.R N) ^ t.base2k) ^ (t.size - (r + 1) * t.dsize) + ET c i r)
    (hcov1 : x0.size ≤ t.size) (hcov2 : x0.size ≤ t.dnum * t.dsize)
    (hIn0 : 0 ≤ Hin) (hIn : Hin + 8 ≤ 2 ^ 62) (hHp0 : 0 ≤ Hp) (hAcc : Hp + (Hin + 2 ^ key.base2k) + 8 ≤ 2 ^ (bitsOf big128 - 2))
    (hHpT0 : 0 ≤ HpT) (hAccT : HpT + 2 ^ t.base2k + 8 ≤ 2 ^ (bitsOf big128 - 2))
    (hrows : ∀ (r : Nat) (x : Ks.Ct), (x0 :: xs)[r]? = some x →
      KsRowOk N x.rank key Hin Hp x ∧ x.rank = key.rankOut ∧ x.base2k = t.base2k ∧ x.size = x0.size)
    (hprodT : ∀ (r : Nat) (x y : Ks.Ct), (x0 :: xs)[r]? = some x → Ks.automorphism big128 x.base2k x.size x.rank x key = .ok y →
      ∀ c, c < t.rank → ∀ col ∈ expandProd N (maskOf t y) t c, ∀ l ∈ col, ∀ v ∈ l, |v| ≤ HpT)
    (h : Ks.ggswAutomorphismAssign big128 N (x0 :: xs) key t = .ok cells) :
    cells.length = (x0 :: xs).length * (t.rank + 1) ∧
      ∀ (r : Nat) (x : Ks.Ct), (x0 :: xs)[r]? = some x → ∃ y aConv, Ks.automorphism big128 x.base2k x.size x.rank x key = .ok y ∧
        Ks.convIn x key = .ok aConv ∧ cells[r * (t.rank + 1)]? = some y.cols ∧
        GWF N y ∧ y.base2k = t.base2k ∧ y.size = x0.size ∧ y.rank = t.rank ∧
        ∃ (E1 E3 : Poly) (Q : Ks.R N), E1.length = N ∧ E3.length = N ∧
          normInf (σ key.p (ksErrOf N x.base2k x.size x aConv key (sk.map (σ gInv)) EL E1 E3))
            ≤ ksErrBound N x.base2k x.size x.rank x aConv key sk (sk.map (σ gInv)) EL ∧
          (2 : Ks.R N) ^ (t.base2k * x0.size + key.base2k * key.mat.size) * Ks.ι N (valP t.base2k N (phase sk y))
            = (2 : Ks.R N) ^ (t.base2k * x0.size + key.base2k * key.mat.size) * Ks.ι N (σ key.p (valP t.base2k N (phase sk x)))
              + Ks.ι N (σ key.p (ksErrOf N x.base2k x.size x aConv key (sk.map (σ gInv)) EL E1 E3))
              + (2 : Ks.R N) ^ (t.base2k * x0.size + key.base2k * key.mat.size + t.base2k * x0.size) * Q ∧
          ∀ c, c < t.rank → ∃ cell, cells[r * (t.rank + 1) + (c + 1)]? = some cell ∧ cell.length = t.rank + 1 ∧
            (∀ col ∈ cell, ColWF N x0.size col) ∧ (∀ col ∈ cell, ∀ l ∈ col, ∀ v ∈ l, |v| ≤ 2 ^ t.base2k - 1) ∧
            ∃ E3c Q3c : Poly, E3c.length = N ∧ Q3c.length = N ∧
              normInf E3c ≤ (1 + snorm (min t.rank sk.length) sk) * C02.normTol (t.base2k * x0.size) (t.base2k * t.size) ∧
              (2 : Ks.R N) ^ (t.base2k * x0.size + key.base2k * key.mat.size + t.base2k * t.size) *
                  Ks.ι N (valP t.base2k N (phase sk (Ks.mkCt t.base2k N cell)))
                = (2 : Ks.R N) ^ (t.base2k * x0.size + key.base2k * key.mat.size + t.base2k * t.size) *
                    (Ks.ι N (sk.getD c []) * Ks.ι N (σ key.p (valP t.base2k N (phase sk x))))
                  + ((2 : Ks.R N) ^ (t.base2k * t.size) *
                        (Ks.ι N (sk.getD c []) * Ks.ι N (σ key.p (ksErrOf N x.base2k x.size x aConv key (sk.map (σ gInv)) EL E1 E3)))
                    + (2 : Ks.R N) ^ (t.base2k * x0.size + key.base2k * key.mat.size + t.base2k * x0.size) *
                        expandErr N sk (maskOf t y) t c ((2 : Ks.R N) ^ t.base2k) (ET c)
                    + (2 : Ks.R N) ^ (t.base2k * x0.size + key.base2k * key.mat.size) * Ks.ι N E3c)
                  + (2 : Ks.R N) ^ (t.base2k * x0.size + key.base2k * key.mat.size + t.base2k * x0.size + t.base2k * t.size) *
                      (Ks.ι N (sk.getD c []) * Q + Ks.ι N Q3c) := by
  obtain ⟨hlen, hrow⟩ := Ks.ggsw_automorphism_assign_cells_value N big128 x0 xs key t cells sk ((2 : Ks.R N) ^ t.base2k)
    (fun i => Ks.ι N (sk.getD i [])) ET hd hN hn hS hrank hMt hkeyT h
  refine ⟨hlen, ?_⟩
  intro r x hx
  obtain ⟨y, hau, hv⟩ := hrow r x hx
  obtain ⟨_, hx0b, _⟩ := (hrows 0 x0 rfl).2
  rw [hx0b] at hv
  obtain ⟨⟨gx, hxr, hx1, hx62, hxB, hxP, hxc1, hxc2⟩, hxro, hxb, hxs⟩ := hrows r x hx
  obtain ⟨res, aConv, hok, hconv, gwR, hbR, hsR, hrR, E1, E3, Q, hE1, hE3, hn1, hn3, hmain, hbound⟩ :=
    glwe_automorphism_decrypts big128 N x.base2k x.size x.rank x key sk gInv EL KL Hin Hp hN hg hskl hinv gx hxr hxro hc0 hD hMk hSk
      hx1 hx62 hbk1 hbk hx1 hx62 hIn0 hIn hxB hHp0 hAcc hxP hs hEL hKL hkey hxc1 hxc2
  -- digits of the automorphed cell
  obtain ⟨r0, hr0, hyr0⟩ := Ks.automorphism_is_ks_then_sigma big128 x.base2k x.size x.rank x key y hau
  obtain ⟨r0', _, hok0, _, gw0, _⟩ :=
    glwe_keyswitch_decrypts big128 N x.base2k x.size x.rank x key sk (sk.map (σ gInv)) EL KL Hin Hp hN gx hxr hxro hc0 hD hMk hSk hx1 hx62
      hbk1 hbk hx1 hx62 hIn0 hIn hxB hHp0 hAcc hxP hs hEL hKL hkey hxc1 hxc2
  rw [hr0] at hok0
  injection hok0 with hok0
  subst hok0
  have hdig0 := keyswitch_digits big128 N x.base2k x.size x.rank x key sk (sk.map (σ gInv)) EL KL Hin Hp hN gx hxr hxro hc0 hD hMk hSk
    hx1 hx62 hbk1 hbk hx1 hx62 hIn0 hIn hxB hHp0 hAcc hxP hEL hKL hkey r0 hr0
  have hdig : ∀ c ∈ y.cols, ∀ l ∈ c, ∀ v ∈ l, |v| ≤ 2 ^ x.base2k - 1 := by
    rw [hyr0]
    exact ctMap_auto_digits N x.base2k key.p r0 hN hg gw0 hx62 hdig0
  rw [hau] at hok
  injection hok with hok
  subst hok
  have hyrank : y.rank = t.rank := by rw [hrR, hxro, hrout]
  have hbodymem : y.cols.getD 0 [] ∈ y.cols := col_mem 0 (by rw [gwR.len]; omega)
  have hp2 : (0 : Int) ≤ 2 ^ t.base2k := by positivity
  have hmain' : (2 : Ks.R N) ^ (t.base2k * x0.size + key.base2k * key.mat.size) * Ks.ι N (valP t.base2k N (phase sk y))
      = (2 : Ks.R N) ^ (t.base2k * x0.size + key.base2k * key.mat.size) * Ks.ι N (σ key.p (valP t.base2k N (phase sk x)))
        + Ks.ι N (σ key.p (ksErrOf N x.base2k x.size x aConv key (sk.map (σ gInv)) EL E1 E3))
        + (2 : Ks.R N) ^ (t.base2k * x0.size + key.base2k * key.mat.size + t.base2k * x0.size) * Q := by
    have e : t.base2k * x0.size + key.base2k * key.mat.size + t.base2k * x0.size
        = x.base2k * x.size + x.base2k * x.size + key.base2k * key.mat.size := by
      rw [hxb, hxs]; omega
    rw [e, ← hxb, ← hxs]
    exact hmain
  have hdig' : ∀ l ∈ y.cols.getD 0 [], ∀ v ∈ l, |v| ≤ 2 ^ t.base2k := by
    intro l hl v hv'
    have := hdig _ hbodymem l hl v hv'
    rw [hxb] at this
    linarith
  refine ⟨y, aConv, hau, hconv, hv.1, gwR, hbR.trans hxb, hsR.trans hxs, hyrank, E1, E3, Q, hE1, hE3, hbound, hmain', ?_⟩
  exact row_cells_decrypt_of_col0 N big128 x0.size t cells sk ET r y HpT (2 ^ t.base2k) hv hN gwR (hsR.trans hxs) hyrank hd hn hMt hrank
    hb1 hb hcov1 hcov2 hHpT0 hp2 hAccT (hprodT r x y hx hau) hdig'
    (t.base2k * x0.size + key.base2k * key.mat.size) (t.base2k * x0.size + key.base2k * key.mat.size) _ _ Q hmain'

/-! ### 2. the products of the row expansion, bounded from digit bounds -/

/-- **`expandProd_bound`** — the digit bound of the executed product of the row expansion (`gglwe_product_dft(res_dft = 0, a_dft, tsk.at(c))`,
every column, every limb), from `product_bound`: mask digits `≤ Da`, digits of the tensor key `t.at c` `≤ Dt` ⇒ every coefficient is
`≤ prodBound = dsize·(rank·dnum)·N·Da·Dt`.  Every `dsize ≥ 1`, every rank. -/
theorem expandProd_bound (N : Nat) (aDft : List Col) (t : ToGGSWKey) (c : Nat) (Da Dt : Int) (hDa : 0 ≤ Da) (hDt : 0 ≤ Dt)
    (hd : 1 ≤ t.dsize) (hn : t.n = N) (ha : ∀ col ∈ aDft, ∀ p ∈ col, PB N Da p)
    (hm : ∀ j q, normInf ((t.at c).toPMat.entry j q) ≤ Dt) :
    ∀ col ∈ expandProd N aDft t c, ∀ l ∈ col, ∀ x ∈ l, |x| ≤ prodBound t.dsize t.rank t.dnum N Da Dt := by
  subst hn
  intro col hcol l hl x hx
  unfold expandProd Core.gglweProductDft at hcol
  obtain ⟨i, hi, rfl⟩ := List.mem_map.mp hcol
  have s0 := (Core.mkBuf_shape (t.at c).n (t.at c).colsOut t.size (zeroCols t.n (t.rank + 1) t.size)
    (Core.shapeOk_zeroCols _ _ _)).1
  have hb := product_bound t.n _ (Core.mkBuf (t.at c).n (t.at c).colsIn (aDft.getD 0 []).length aDft) (t.at c).toKey Da Dt hDa hDt hd
    s0.1 rfl rfl rfl rfl rfl ha hm i (List.mem_range.mp hi) l hl
  exact (abs_le_normInf hx).trans hb

/-- **admissible shape of the row expansion**: mask digits `≤ Da`, tensor-key digits `≤ Dt`, body digits `≤ Ha`: the derived bound of the
product plus the body leaves the head-room of `vec_znx_big_normalize`: `dsize·(rank·dnum)·N·Da·Dt + Ha + 8 ≤ 2^62` (FFT64) resp. `2^126`
(NTT120). -/
def expandAdmissible (big128 : Bool) (t : ToGGSWKey) (N : Nat) (Da Dt Ha : Int) : Prop :=
  prodAdmissible (bitsOf big128) t.dsize t.rank t.dnum N Da Dt Ha

instance (big128 : Bool) (t : ToGGSWKey) (N : Nat) (Da Dt Ha : Int) : Decidable (expandAdmissible big128 t N Da Dt Ha) := by
  unfold expandAdmissible; infer_instance

theorem expandAdmissible_iff (big128 : Bool) (t : ToGGSWKey) (N : Nat) (Da Dt Ha : Int) :
    expandAdmissible big128 t N Da Dt Ha ↔ prodBound t.dsize t.rank t.dnum N Da Dt + Ha + 8 ≤ 2 ^ (bitsOf big128 - 2) := Iff.rfl

/-- **`expandOk_of_digit_bounds`** — `Core.ExpandOk` (shape of the product, shape of the body, no wrap of the body addition) from digit
bounds of the OPERANDS (mask `≤ Da`, tensor key `≤ Dt`, body `≤ Ha`) and the decidable inequality `expandAdmissible`; both accumulator
widths. -/
theorem expandOk_of_digit_bounds (N : Nat) (big128 : Bool) (a0 : Col) (aDft : List Col) (t : ToGGSWKey) (c : Nat) (Da Dt Ha : Int)
    (hDa : 0 ≤ Da) (hDt : 0 ≤ Dt) (hd : 1 ≤ t.dsize) (hn : t.n = N) (hM : ∀ j q, ((t.at c).toPMat.entry j q).length = N) (hc : c < t.rank)
    (ha0 : LimbsN N a0) (hadm : expandAdmissible big128 t N Da Dt Ha)
    (ha : ∀ col ∈ aDft, ∀ p ∈ col, PB N Da p) (hm : ∀ j q, normInf ((t.at c).toPMat.entry j q) ≤ Dt)
    (hbody : ∀ l ∈ a0, ∀ x ∈ l, |x| ≤ Ha) : ExpandOk N big128 a0 aDft t c := by
  have hP := expandProd_bound N aDft t c Da Dt hDa hDt hd hn ha hm
  have hlen := expandProd_length N aDft t c
  have hc1 : c + 1 < (expandProd N aDft t c).length := by rw [hlen]; omega
  have hmem : (expandProd N aDft t c).getD (c + 1) [] ∈ expandProd N aDft t c := by
    rw [List.getD_eq_getElem?_getD, List.getElem?_eq_getElem hc1]
    exact List.getElem_mem hc1
  have hH : prodBound t.dsize t.rank t.dnum N Da Dt + Ha < 2 ^ (bitsOf big128 - 1) := by
    have h1 := (expandAdmissible_iff big128 t N Da Dt Ha).mp hadm
    have h2 : (2 : Int) ^ (bitsOf big128 - 2) ≤ 2 ^ (bitsOf big128 - 1) := pow_le_pow_right₀ (by norm_num) (by omega)
    linarith
  exact expandOk_of_bounds N big128 a0 aDft t c _ Ha hd hn hM hc ha0 hH (hP _ hmem) hbody

/-- the mask columns that the expansion multiplies are columns of the column-0 cell: same length, same digit bound -/
theorem maskOf_PB (N : Nat) (t : ToGGSWKey) (y : Ks.Ct) (Da : Int) (hy : GWF N y)
    (hdig : ∀ c ∈ y.cols, ∀ l ∈ c, ∀ x ∈ l, |x| ≤ Da) : ∀ col ∈ maskOf t y, ∀ p ∈ col, PB N Da p := by
  intro col hcol p hp
  unfold maskOf at hcol
  obtain ⟨i, _, rfl⟩ := List.mem_map.mp hcol
  rw [List.getD_eq_getElem?_getD] at hp
  cases h : y.cols[i + 1]? with
  | none => simp [h] at hp
  | some c0 =>
    simp only [h, Option.getD_some] at hp
    have hc0 := List.mem_of_getElem? h
    exact ⟨le_of_eq ((hy.2.2 c0 hc0).2 p hp), hdig c0 hc0 p hp⟩

/-- the products of the expansion of a cell with digits `≤ 2^b − 1`, every output column -/
theorem expandProd_mask_bound (N : Nat) (t : ToGGSWKey) (y : Ks.Ct) (Dt : Int) (hDt : 0 ≤ Dt) (hd : 1 ≤ t.dsize) (hn : t.n = N)
    (hy : GWF N y) (hdig : ∀ c ∈ y.cols, ∀ l ∈ c, ∀ x ∈ l, |x| ≤ 2 ^ t.base2k - 1)
    (hmT : ∀ c, c < t.rank → ∀ j q, normInf ((t.at c).toPMat.entry j q) ≤ Dt) :
    ∀ c, c < t.rank → ∀ col ∈ expandProd N (maskOf t y) t c, ∀ l ∈ col, ∀ v ∈ l,
      |v| ≤ prodBound t.dsize t.rank t.dnum N (2 ^ t.base2k) Dt := by
  intro c hc
  have hp2 : (0 : Int) ≤ 2 ^ t.base2k := by positivity
  exact expandProd_bound N (maskOf t y) t c (2 ^ t.base2k) Dt hp2 hDt hd hn
    (maskOf_PB N t y _ hy (fun c hc l hl x hx => by have := hdig c hc l hl x hx; linarith)) (hmT c hc)

/-- a bound on the stored digits of the tensor key gives the hypothesis `hmT` of the `_adm` theorems (`entry_normInf`) -/
theorem tensorKey_entry_normInf (t : ToGGSWKey) (Dt : Int) (hDt : 0 ≤ Dt)
    (h : ∀ k ∈ t.keys, ∀ row ∈ k, ∀ c ∈ row, ∀ l ∈ c, ∀ x ∈ l, |x| ≤ Dt) :
    ∀ c, c < t.rank → ∀ j q, normInf ((t.at c).toPMat.entry j q) ≤ Dt := by
  intro c _ j q
  apply entry_normInf _ Dt hDt
  intro row hrow
  have hd : (t.at c).toPMat.data = t.keys.getD c [] := rfl
  rw [hd, List.getD_eq_getElem?_getD] at hrow
  cases hk : t.keys[c]? with
  | none => simp [hk] at hrow
  | some k =>
    simp only [hk, Option.getD_some] at hrow
    exact h k (List.mem_of_getElem? hk) row hrow

/-- the per-row hypotheses of the GGSW key switch without any bound on an executed buffer (`KsRowOk` minus its `Hp` clause) -/
def KsRowAdm (N : Nat) (key : Ks.Key) (Hin : Int) (x : Ks.Ct) : Prop :=
  GWF N x ∧ x.rank = key.rankIn ∧ 1 ≤ x.base2k ∧ x.base2k ≤ 62 ∧ (∀ c ∈ x.cols, ∀ l ∈ c, ∀ v ∈ l, |v| ≤ Hin) ∧
    convSize x key ≤ key.mat.size ∧ convSize x key ≤ key.mat.rows * key.dsize

/-- **`KsRowOk_of_adm`** — `KsRowOk` with `Hp := prodBound …` from key digits `≤ Dm` (`prodOf_conv_bound`) -/
theorem KsRowOk_of_adm (N rout : Nat) (key : Ks.Key) (Hin Dm : Int) (x : Ks.Ct) (hrout : rout + 1 = key.mat.colsOut)
    (hD : 1 ≤ key.dsize) (hbk1 : 1 ≤ key.base2k) (hbk : key.base2k ≤ 62) (hIn0 : 0 ≤ Hin) (hIn : Hin + 8 ≤ 2 ^ 62)
    (hDm0 : 0 ≤ Dm) (hm : ∀ j q, normInf (key.mat.entry j q) ≤ Dm) (h : KsRowAdm N key Hin x) :
    KsRowOk N rout key Hin (prodBound key.dsize key.mat.colsIn key.mat.rows N (Hin + 2 ^ key.base2k) Dm) x := by
  obtain ⟨gx, hxr, hx1, hx62, hxB, hxc1, hxc2⟩ := h
  exact ⟨gx, hxr, hx1, hx62, hxB, prodOf_conv_bound N rout x key Hin Dm gx hrout hD hx1 hx62 hbk1 hbk hIn0 hIn hxB hDm0 hm, hxc1, hxc2⟩

/-- **the products of the expansion after a key switch**: the mask is the key-switched cell (digits `≤ 2^b − 1`, `keyswitch_digits`) -/
theorem keyswitch_expandProd_bound (big128 : Bool) (N bout sout rout : Nat) (x : Ks.Ct) (key : Ks.Key) (t : ToGGSWKey) (sIn skOut : List Poly)
    (EL KL : ℕ → ℕ → Poly) (Hin Hp Dt : Int) (y : Ks.Ct)
    (hN : 0 < N) (hrout : rout = key.rankOut) (hc0 : 0 < key.mat.colsOut)
    (hD : 1 ≤ key.dsize) (hMk : ∀ j q, (key.mat.entry j q).length = N) (hSk : key.mat.rows * key.dsize ≤ key.mat.size)
    (hbk1 : 1 ≤ key.base2k) (hbk : key.base2k ≤ 62) (hs : key.mat.colsIn ≤ sIn.length)
    (hEL : ∀ i r, (EL i r).length = N) (hKL : ∀ i r, (KL i r).length = N)
    (hkey : ∀ i, i < key.mat.colsIn → ∀ r, r < key.mat.rows →
      Gadget.val (Ks.radix N key.base2k) key.mat.size (Ks.keyPhase N skOut key.mat i r) =
        Ks.ι N (sIn.getD i []) * Ks.radix N key.base2k ^ (key.mat.size - (r + 1) * key.dsize) + Ks.ι N (EL i r)
          + Ks.radix N key.base2k ^ key.mat.size * Ks.ι N (KL i r))
    (hd : 1 ≤ t.dsize) (hn : t.n = N) (hbo : bout = t.base2k) (hb1 : 1 ≤ t.base2k) (hb : t.base2k ≤ 62)
    (hIn0 : 0 ≤ Hin) (hIn : Hin + 8 ≤ 2 ^ 62) (hHp0 : 0 ≤ Hp) (hAcc : Hp + (Hin + 2 ^ key.base2k) + 8 ≤ 2 ^ (bitsOf big128 - 2))
    (hDt0 : 0 ≤ Dt) (hmT : ∀ c, c < t.rank → ∀ j q, normInf ((t.at c).toPMat.entry j q) ≤ Dt)
    (hrow : KsRowOk N rout key Hin Hp x) (hy : Ks.keyswitch big128 bout sout rout x key = .ok y) :
    ∀ c, c < t.rank → ∀ col ∈ expandProd N (maskOf t y) t c, ∀ l ∈ col, ∀ v ∈ l,
      |v| ≤ prodBound t.dsize t.rank t.dnum N (2 ^ t.base2k) Dt := by
  subst hbo
  obtain ⟨gx, hxr, hx1, hx62, hxB, hxP, hxc1, hxc2⟩ := hrow
  obtain ⟨res, _, hok, _, gwR, _⟩ :=
    glwe_keyswitch_decrypts big128 N t.base2k sout rout x key sIn skOut EL KL Hin Hp hN gx hxr hrout hc0 hD hMk hSk hx1 hx62 hbk1 hbk
      hb1 hb hIn0 hIn hxB hHp0 hAcc hxP hs hEL hKL hkey hxc1 hxc2
  have hdig := keyswitch_digits big128 N t.base2k sout rout x key sIn skOut EL KL Hin Hp hN gx hxr hrout hc0 hD hMk hSk hx1 hx62
    hbk1 hbk hb1 hb hIn0 hIn hxB hHp0 hAcc hxP hEL hKL hkey res hok
  rw [hy] at hok
  injection hok with hok
  subst hok
  exact expandProd_mask_bound N t y Dt hDt0 hd hn gwR hdig hmT

open AutoMul in
/-- **the products of the expansion after an automorphism**: the mask is the automorphed key-switched cell (`ctMap_auto_digits`) -/
theorem automorphism_expandProd_bound (big128 : Bool) (N bout sout rout : Nat) (x : Ks.Ct) (key : Ks.Key) (t : ToGGSWKey) (sk : List Poly)
    (gInv : Int) (EL KL : ℕ → ℕ → Poly) (Hin Hp Dt : Int) (y : Ks.Ct)
    (hN : 0 < N) (hg : GalOk key.p N) (hskl : Ks.AllLen N sk) (hinv : ∀ s ∈ sk, σ key.p (σ gInv s) = s)
    (hrout : rout = key.rankOut) (hc0 : 0 < key.mat.colsOut)
    (hD : 1 ≤ key.dsize) (hMk : ∀ j q, (key.mat.entry j q).length = N) (hSk : key.mat.rows * key.dsize ≤ key.mat.size)
    (hbk1 : 1 ≤ key.base2k) (hbk : key.base2k ≤ 62) (hs : key.mat.colsIn ≤ sk.length)
    (hEL : ∀ i r, (EL i r).length = N) (hKL : ∀ i r, (KL i r).length = N)
    (hkey : ∀ i, i < key.mat.colsIn → ∀ r, r < key.mat.rows →
      Gadget.val (Ks.radix N key.base2k) key.mat.size (Ks.keyPhase N (sk.map (σ gInv)) key.mat i r) =
        Ks.ι N (sk.getD i []) * Ks.radix N key.base2k ^ (key.mat.size - (r + 1) * key.dsize) + Ks.ι N (EL i r)
          + Ks.radix N key.base2k ^ key.mat.size * Ks.ι N (KL i r))
    (hd : 1 ≤ t.dsize) (hn : t.n = N) (hbo : bout = t.base2k) (hb1 : 1 ≤ t.base2k) (hb : t.base2k ≤ 62)
    (hIn0 : 0 ≤ Hin) (hIn : Hin + 8 ≤ 2 ^ 62) (hHp0 : 0 ≤ Hp) (hAcc : Hp + (Hin + 2 ^ key.base2k) + 8 ≤ 2 ^ (bitsOf big128 - 2))
    (hDt0 : 0 ≤ Dt) (hmT : ∀ c, c < t.rank → ∀ j q, normInf ((t.at c).toPMat.entry j q) ≤ Dt)
    (hrow : KsRowOk N rout key Hin Hp x) (hy : Ks.automorphism big128 bout sout rout x key = .ok y) :
    ∀ c, c < t.rank → ∀ col ∈ expandProd N (maskOf t y) t c, ∀ l ∈ col, ∀ v ∈ l,
      |v| ≤ prodBound t.dsize t.rank t.dnum N (2 ^ t.base2k) Dt := by
  subst hbo
  obtain ⟨gx, hxr, hx1, hx62, hxB, hxP, hxc1, hxc2⟩ := hrow
  obtain ⟨res, _, hok, _, gwR, _⟩ :=
    glwe_automorphism_decrypts big128 N t.base2k sout rout x key sk gInv EL KL Hin Hp hN hg hskl hinv gx hxr hrout hc0 hD hMk hSk
      hx1 hx62 hbk1 hbk hb1 hb hIn0 hIn hxB hHp0 hAcc hxP hs hEL hKL hkey hxc1 hxc2
  obtain ⟨r0, hr0, hyr0⟩ := Ks.automorphism_is_ks_then_sigma big128 t.base2k sout rout x key y hy
  obtain ⟨r0', _, hok0, _, gw0, _⟩ :=
    glwe_keyswitch_decrypts big128 N t.base2k sout rout x key sk (sk.map (σ gInv)) EL KL Hin Hp hN gx hxr hrout hc0 hD hMk hSk hx1 hx62
      hbk1 hbk hb1 hb hIn0 hIn hxB hHp0 hAcc hxP hs hEL hKL hkey hxc1 hxc2
  rw [hr0] at hok0
  injection hok0 with hok0
  subst hok0
  have hdig0 := keyswitch_digits big128 N t.base2k sout rout x key sk (sk.map (σ gInv)) EL KL Hin Hp hN gx hxr hrout hc0 hD hMk hSk
    hx1 hx62 hbk1 hbk hb1 hb hIn0 hIn hxB hHp0 hAcc hxP hEL hKL hkey r0 hr0
  have hdig : ∀ c ∈ y.cols, ∀ l ∈ c, ∀ v ∈ l, |v| ≤ 2 ^ t.base2k - 1 := by
    rw [hyr0]
    exact ctMap_auto_digits N t.base2k key.p r0 hN hg gw0 hb hdig0
  rw [hy] at hok
  injection hok with hok
  subst hok
  exact expandProd_mask_bound N t y Dt hDt0 hd hn gwR hdig hmT

/-! ### 3. the GGSW theorems with the head-room derived -/

/-- **`ggsw_keyswitch_decrypts_adm`** — `ggsw_keyswitch_decrypts` with NO hypothesis on an executed buffer: the operand digits are `≤ Hin`
(`KsRowAdm`), the stored digits of the key-switch key are `≤ Dm`, those of the tensor key `≤ Dt`, and the head-room is the two decidable
inequalities `ksAdmissible big128 key N Hin Dm` (`dsize·(rank_in·dnum)·N·(Hin + 2^b_key)·Dm + (Hin + 2^b_key) + 8 ≤ 2^62` resp. `2^126`) and
`expandAdmissible big128 t N (2^b) Dt (2^b)` (`dsize_t·(rank·dnum_t)·N·2^b·Dt + 2^b + 8 ≤ 2^62` resp. `2^126`).  Same conclusion. -/
theorem ggsw_keyswitch_decrypts_adm (N : Nat) (big128 : Bool) (rs rd rds ab ads : Nat) (aCol0 : List Ks.Ct) (key : Ks.Key) (t : ToGGSWKey)
    (cells : List (List Col)) (sIn skOut : List Poly) (EL KL : ℕ → ℕ → Poly) (ET : ℕ → ℕ → ℕ → Ks.R N) (Hin Dm Dt : Int)
    (hN : 0 < N) (hrout : t.rank = key.rankOut) (hc0 : 0 < key.mat.colsOut)
    (hD : 1 ≤ key.dsize) (hMk : ∀ j q, (key.mat.entry j q).length = N) (hSk : key.mat.rows * key.dsize ≤ key.mat.size)
    (hbk1 : 1 ≤ key.base2k) (hbk : key.base2k ≤ 62) (hs : key.mat.colsIn ≤ sIn.length)
    (hEL : ∀ i r, (EL i r).length = N) (hKL : ∀ i r, (KL i r).length = N)
    (hkey : ∀ i, i < key.mat.colsIn → ∀ r, r < key.mat.rows →
      Gadget.val (Ks.radix N key.base2k) key.mat.size (Ks.keyPhase N skOut key.mat i r) =
        Ks.ι N (sIn.getD i []) * Ks.radix N key.base2k ^ (key.mat.size - (r + 1) * key.dsize) + Ks.ι N (EL i r)
          + Ks.radix N key.base2k ^ key.mat.size * Ks.ι N (KL i r))
    (hd : 1 ≤ t.dsize) (hn : t.n = N) (hS : t.dnum * t.dsize ≤ t.size) (hrank : t.rank ≤ skOut.length)
    (hMt : ∀ c, c < t.rank → ∀ j q, ((t.at c).toPMat.entry j q).length = N) (hb1 : 1 ≤ t.base2k) (hb : t.base2k ≤ 62)
    (hkeyT : ∀ c, c < t.rank → ∀ i, i < t.rank → ∀ r, r < t.dnum →
      Gadget.val ((2 : Ks.R N) ^ t.base2k) t.size (Ks.keyPhase N skOut (t.at c).toPMat i r)
        = Ks.ι N (skOut.getD c []) * Ks.ι N (skOut.getD i []) * ((2 : Ks.R N) ^ t.base2k) ^ (t.size - (r + 1) * t.dsize) + ET c i r)
    (hcov1 : rs ≤ t.size) (hcov2 : rs ≤ t.dnum * t.dsize)
    (hIn0 : 0 ≤ Hin) (hIn : Hin + 8 ≤ 2 ^ 62)
    (hDm0 : 0 ≤ Dm) (hm : ∀ j q, normInf (key.mat.entry j q) ≤ Dm) (hadm : ksAdmissible big128 key N Hin Dm)
    (hDt0 : 0 ≤ Dt) (hmT : ∀ c, c < t.rank → ∀ j q, normInf ((t.at c).toPMat.entry j q) ≤ Dt)
    (hadmT : expandAdmissible big128 t N (2 ^ t.base2k) Dt (2 ^ t.base2k))
    (hrows : ∀ r x, r < rd → aCol0[r]? = some x → KsRowAdm N key Hin x)
    (h : Ks.ggswKeyswitch big128 N t.base2k rs rd rds ab ads aCol0 key t = .ok cells) :
    cells.length = rd * (t.rank + 1) ∧
      ∀ r, r < rd → ∃ x y aConv, aCol0[r]? = some x ∧ Ks.keyswitch big128 t.base2k rs key.rankOut x key = .ok y ∧
        Ks.convIn x key = .ok aConv ∧ cells[r * (t.rank + 1)]? = some y.cols ∧
        GWF N y ∧ y.base2k = t.base2k ∧ y.size = rs ∧ y.rank = t.rank ∧
        ∃ (E1 E3 : Poly) (Q : Ks.R N), E1.length = N ∧ E3.length = N ∧
          normInf E1 ≤ (1 + snorm (min x.rank sIn.length) sIn) * C02.normTol (key.base2k * convSize x key) (x.base2k * x.size) ∧
          normInf E3 ≤ (1 + snorm (min key.rankOut skOut.length) skOut) * C02.normTol (t.base2k * rs) (key.base2k * key.mat.size) ∧
          normInf (ksErrOf N t.base2k rs x aConv key skOut EL E1 E3) ≤ ksErrBound N t.base2k rs key.rankOut x aConv key sIn skOut EL ∧
          (2 : Ks.R N) ^ (x.base2k * x.size + key.base2k * key.mat.size) * Ks.ι N (valP t.base2k N (phase skOut y))
            = (2 : Ks.R N) ^ (t.base2k * rs + key.base2k * key.mat.size) * Ks.ι N (valP x.base2k N (phase sIn x))
              + Ks.ι N (ksErrOf N t.base2k rs x aConv key skOut EL E1 E3)
              + (2 : Ks.R N) ^ (x.base2k * x.size + key.base2k * key.mat.size + t.base2k * rs) * Q ∧
          ∀ c, c < t.rank → ∃ cell, cells[r * (t.rank + 1) + (c + 1)]? = some cell ∧ cell.length = t.rank + 1 ∧
            (∀ col ∈ cell, ColWF N rs col) ∧ (∀ col ∈ cell, ∀ l ∈ col, ∀ v ∈ l, |v| ≤ 2 ^ t.base2k - 1) ∧
            ∃ E3c Q3c : Poly, E3c.length = N ∧ Q3c.length = N ∧
              normInf E3c ≤ (1 + snorm (min t.rank skOut.length) skOut) * C02.normTol (t.base2k * rs) (t.base2k * t.size) ∧
              (2 : Ks.R N) ^ (x.base2k * x.size + key.base2k * key.mat.size + t.base2k * t.size) *
                  Ks.ι N (valP t.base2k N (phase skOut (Ks.mkCt t.base2k N cell)))
                = (2 : Ks.R N) ^ (t.base2k * rs + key.base2k * key.mat.size + t.base2k * t.size) *
                    (Ks.ι N (skOut.getD c []) * Ks.ι N (valP x.base2k N (phase sIn x)))
                  + ((2 : Ks.R N) ^ (t.base2k * t.size) * (Ks.ι N (skOut.getD c []) * Ks.ι N (ksErrOf N t.base2k rs x aConv key skOut EL E1 E3))
                    + (2 : Ks.R N) ^ (x.base2k * x.size + key.base2k * key.mat.size + t.base2k * rs) *
                        expandErr N skOut (maskOf t y) t c ((2 : Ks.R N) ^ t.base2k) (ET c)
                    + (2 : Ks.R N) ^ (x.base2k * x.size + key.base2k * key.mat.size) * Ks.ι N E3c)
                  + (2 : Ks.R N) ^ (x.base2k * x.size + key.base2k * key.mat.size + t.base2k * rs + t.base2k * t.size) *
                      (Ks.ι N (skOut.getD c []) * Q + Ks.ι N Q3c) := by
  have hrout' : key.rankOut + 1 = key.mat.colsOut := by unfold Ks.Key.rankOut; omega
  have hpk : (0 : Int) < 2 ^ key.base2k := by positivity
  have hHp0 := prodBound_nonneg key.dsize key.mat.colsIn key.mat.rows N (Hin + 2 ^ key.base2k) Dm (by linarith) hDm0
  have hHpT0 := prodBound_nonneg t.dsize t.rank t.dnum N (2 ^ t.base2k) Dt (by positivity) hDt0
  have hrows' : ∀ r x, r < rd → aCol0[r]? = some x → KsRowOk N key.rankOut key Hin
      (prodBound key.dsize key.mat.colsIn key.mat.rows N (Hin + 2 ^ key.base2k) Dm) x := fun r x hr hx =>
    KsRowOk_of_adm N key.rankOut key Hin Dm x hrout' hD hbk1 hbk hIn0 hIn hDm0 hm (hrows r x hr hx)
  exact ggsw_keyswitch_decrypts N big128 rs rd rds ab ads aCol0 key t cells sIn skOut EL KL ET Hin _ _ hN hrout hc0 hD hMk hSk hbk1 hbk hs
    hEL hKL hkey hd hn hS hrank hMt hb1 hb hkeyT hcov1 hcov2 hIn0 hIn hHp0 hadm hHpT0 hadmT hrows'
    (fun r x y hr hx hy => keyswitch_expandProd_bound big128 N t.base2k rs key.rankOut x key t sIn skOut EL KL Hin _ Dt y hN rfl hc0 hD hMk
      hSk hbk1 hbk hs hEL hKL hkey hd hn rfl hb1 hb hIn0 hIn hHp0 hadm hDt0 hmT (hrows' r x hr hx) hy) h

open AutoMul in
/-- **`ggsw_automorphism_decrypts_adm`** — `ggsw_automorphism_decrypts` with the head-room derived (same replacement of hypotheses as
`ggsw_keyswitch_decrypts_adm`; the `i64` automorphism kernel keeps the digit bound `2^b − 1` of the mask). -/
theorem ggsw_automorphism_decrypts_adm (N : Nat) (big128 : Bool) (rs rd rds ab ads : Nat) (aCol0 : List Ks.Ct) (key : Ks.Key) (t : ToGGSWKey)
    (cells : List (List Col)) (sk : List Poly) (gInv : Int) (EL KL : ℕ → ℕ → Poly) (ET : ℕ → ℕ → ℕ → Ks.R N) (Hin Dm Dt : Int)
    (hN : 0 < N) (hg : GalOk key.p N) (hskl : Ks.AllLen N sk) (hinv : ∀ s ∈ sk, σ key.p (σ gInv s) = s)
    (hrout : t.rank = key.rankOut) (hc0 : 0 < key.mat.colsOut)
    (hD : 1 ≤ key.dsize) (hMk : ∀ j q, (key.mat.entry j q).length = N) (hSk : key.mat.rows * key.dsize ≤ key.mat.size)
    (hbk1 : 1 ≤ key.base2k) (hbk : key.base2k ≤ 62) (hs : key.mat.colsIn ≤ sk.length)
    (hEL : ∀ i r, (EL i r).length = N) (hKL : ∀ i r, (KL i r).length = N)
    (hkey : ∀ i, i < key.mat.colsIn → ∀ r, r < key.mat.rows →
      Gadget.val (Ks.radix N key.base2k) key.mat.size (Ks.keyPhase N (sk.map (σ gInv)) key.mat i r) =
        Ks.ι N (sk.getD i []) * Ks.radix N key.base2k ^ (key.mat.size - (r + 1) * key.dsize) + Ks.ι N (EL i r)
          + Ks.radix N key.base2k ^ key.mat.size * Ks.ι N (KL i r))
    (hd : 1 ≤ t.dsize) (hn : t.n = N) (hS : t.dnum * t.dsize ≤ t.size) (hrank : t.rank ≤ sk.length)
    (hMt : ∀ c, c < t.rank → ∀ j q, ((t.at c).toPMat.entry j q).length = N) (hb1 : 1 ≤ t.base2k) (hb : t.base2k ≤ 62)
    (hkeyT : ∀ c, c < t.rank → ∀ i, i < t.rank → ∀ r, r < t.dnum →
      Gadget.val ((2 : Ks.R N) ^ t.base2k) t.size (Ks.keyPhase N sk (t.at c).toPMat i r)
        = Ks.ι N (sk.getD c []) * Ks.ι N (sk.getD i []) * ((2 : Ks.R N) ^ t.base2k) ^ (t.size - (r + 1) * t.dsize) + ET c i r)
    (hcov1 : rs ≤ t.size) (hcov2 : rs ≤ t.dnum * t.dsize)
    (hIn0 : 0 ≤ Hin) (hIn : Hin + 8 ≤ 2 ^ 62)
    (hDm0 : 0 ≤ Dm) (hm : ∀ j q, normInf (key.mat.entry j q) ≤ Dm) (hadm : ksAdmissible big128 key N Hin Dm)
    (hDt0 : 0 ≤ Dt) (hmT : ∀ c, c < t.rank → ∀ j q, normInf ((t.at c).toPMat.entry j q) ≤ Dt)
    (hadmT : expandAdmissible big128 t N (2 ^ t.base2k) Dt (2 ^ t.base2k))
    (hrows : ∀ r x, r < rd → aCol0[r]? = some x → KsRowAdm N key Hin x)
    (h : Ks.ggswAutomorphism big128 N t.base2k rs rd rds ab ads aCol0 key t = .ok cells) :
    cells.length = rd * (t.rank + 1) ∧
      ∀ r, r < rd → ∃ x y aConv, aCol0[r]? = some x ∧ Ks.automorphism big128 t.base2k rs key.rankOut x key = .ok y ∧
        Ks.convIn x key = .ok aConv ∧ cells[r * (t.rank + 1)]? = some y.cols ∧
        GWF N y ∧ y.base2k = t.base2k ∧ y.size = rs ∧ y.rank = t.rank ∧
        ∃ (E1 E3 : Poly) (Q : Ks.R N), E1.length = N ∧ E3.length = N ∧
          normInf E1 ≤ (1 + snorm (min x.rank sk.length) sk) * C02.normTol (key.base2k * convSize x key) (x.base2k * x.size) ∧
          normInf E3 ≤ (1 + snorm (min key.rankOut (sk.map (σ gInv)).length) (sk.map (σ gInv))) *
            C02.normTol (t.base2k * rs) (key.base2k * key.mat.size) ∧
          normInf (σ key.p (ksErrOf N t.base2k rs x aConv key (sk.map (σ gInv)) EL E1 E3))
            ≤ ksErrBound N t.base2k rs key.rankOut x aConv key sk (sk.map (σ gInv)) EL ∧
          (2 : Ks.R N) ^ (x.base2k * x.size + key.base2k * key.mat.size) * Ks.ι N (valP t.base2k N (phase sk y))
            = (2 : Ks.R N) ^ (t.base2k * rs + key.base2k * key.mat.size) * Ks.ι N (σ key.p (valP x.base2k N (phase sk x)))
              + Ks.ι N (σ key.p (ksErrOf N t.base2k rs x aConv key (sk.map (σ gInv)) EL E1 E3))
              + (2 : Ks.R N) ^ (x.base2k * x.size + key.base2k * key.mat.size + t.base2k * rs) * Q ∧
          ∀ c, c < t.rank → ∃ cell, cells[r * (t.rank + 1) + (c + 1)]? = some cell ∧ cell.length = t.rank + 1 ∧
            (∀ col ∈ cell, ColWF N rs col) ∧ (∀ col ∈ cell, ∀ l ∈ col, ∀ v ∈ l, |v| ≤ 2 ^ t.base2k - 1) ∧
            ∃ E3c Q3c : Poly, E3c.length = N ∧ Q3c.length = N ∧
              normInf E3c ≤ (1 + snorm (min t.rank sk.length) sk) * C02.normTol (t.base2k * rs) (t.base2k * t.size) ∧
              (2 : Ks.R N) ^ (x.base2k * x.size + key.base2k * key.mat.size + t.base2k * t.size) *
                  Ks.ι N (valP t.base2k N (phase sk (Ks.mkCt t.base2k N cell)))
                = (2 : Ks.R N) ^ (t.base2k * rs + key.base2k * key.mat.size + t.base2k * t.size) *
                    (Ks.ι N (sk.getD c []) * Ks.ι N (σ key.p (valP x.base2k N (phase sk x))))
                  + ((2 : Ks.R N) ^ (t.base2k * t.size) *
                        (Ks.ι N (sk.getD c []) * Ks.ι N (σ key.p (ksErrOf N t.base2k rs x aConv key (sk.map (σ gInv)) EL E1 E3)))
                    + (2 : Ks.R N) ^ (x.base2k * x.size + key.base2k * key.mat.size + t.base2k * rs) *
                        expandErr N sk (maskOf t y) t c ((2 : Ks.R N) ^ t.base2k) (ET c)
                    + (2 : Ks.R N) ^ (x.base2k * x.size + key.base2k * key.mat.size) * Ks.ι N E3c)
                  + (2 : Ks.R N) ^ (x.base2k * x.size + key.base2k * key.mat.size + t.base2k * rs + t.base2k * t.size) *
                      (Ks.ι N (sk.getD c []) * Q + Ks.ι N Q3c) := by
  have hrout' : key.rankOut + 1 = key.mat.colsOut := by unfold Ks.Key.rankOut; omega
  have hpk : (0 : Int) < 2 ^ key.base2k := by positivity
  have hHp0 := prodBound_nonneg key.dsize key.mat.colsIn key.mat.rows N (Hin + 2 ^ key.base2k) Dm (by linarith) hDm0
  have hHpT0 := prodBound_nonneg t.dsize t.rank t.dnum N (2 ^ t.base2k) Dt (by positivity) hDt0
  have hrows' : ∀ r x, r < rd → aCol0[r]? = some x → KsRowOk N key.rankOut key Hin
      (prodBound key.dsize key.mat.colsIn key.mat.rows N (Hin + 2 ^ key.base2k) Dm) x := fun r x hr hx =>
    KsRowOk_of_adm N key.rankOut key Hin Dm x hrout' hD hbk1 hbk hIn0 hIn hDm0 hm (hrows r x hr hx)
  exact ggsw_automorphism_decrypts N big128 rs rd rds ab ads aCol0 key t cells sk gInv EL KL ET Hin _ _ hN hg hskl hinv hrout hc0 hD hMk hSk
    hbk1 hbk hs hEL hKL hkey hd hn hS hrank hMt hb1 hb hkeyT hcov1 hcov2 hIn0 hIn hHp0 hadm hHpT0 hadmT hrows'
    (fun r x y hr hx hy => automorphism_expandProd_bound big128 N t.base2k rs key.rankOut x key t sk gInv EL KL Hin _ Dt y hN hg hskl hinv
      rfl hc0 hD hMk hSk hbk1 hbk hs hEL hKL hkey hd hn rfl hb1 hb hIn0 hIn hHp0 hadm hDt0 hmT (hrows' r x hr hx) hy) h

/-- **`ggsw_keyswitch_assign_decrypts_adm`** — the in-place form, head-room derived. -/
theorem ggsw_keyswitch_assign_decrypts_adm (N : Nat) (big128 : Bool) (x0 : Ks.Ct) (xs : List Ks.Ct) (key : Ks.Key) (t : ToGGSWKey)
    (cells : List (List Col)) (sIn skOut : List Poly) (EL KL : ℕ → ℕ → Poly) (ET : ℕ → ℕ → ℕ → Ks.R N) (Hin Dm Dt : Int)
    (hN : 0 < N) (hrout : t.rank = key.rankOut) (hc0 : 0 < key.mat.colsOut)
    (hD : 1 ≤ key.dsize) (hMk : ∀ j q, (key.mat.entry j q).length = N) (hSk : key.mat.rows * key.dsize ≤ key.mat.size)
    (hbk1 : 1 ≤ key.base2k) (hbk : key.base2k ≤ 62) (hs : key.mat.colsIn ≤ sIn.length)
    (hEL : ∀ i r, (EL i r).length = N) (hKL : ∀ i r, (KL i r).length = N)
    (hkey : ∀ i, i < key.mat.colsIn → ∀ r, r < key.mat.rows →
      Gadget.val (Ks.radix N key.base2k) key.mat.size (Ks.keyPhase N skOut key.mat i r) =
        Ks.ι N (sIn.getD i []) * Ks.radix N key.base2k ^ (key.mat.size - (r + 1) * key.dsize) + Ks.ι N (EL i r)
          + Ks.radix N key.base2k ^ key.mat.size * Ks.ι N (KL i r))
    (hd : 1 ≤ t.dsize) (hn : t.n = N) (hS : t.dnum * t.dsize ≤ t.size) (hrank : t.rank ≤ skOut.length)
    (hMt : ∀ c, c < t.rank → ∀ j q, ((t.at c).toPMat.entry j q).length = N) (hb1 : 1 ≤ t.base2k) (hb : t.base2k ≤ 62)
    (hkeyT : ∀ c, c < t.rank → ∀ i, i < t.rank → ∀ r, r < t.dnum →
      Gadget.val ((2 : Ks.R N) ^ t.base2k) t.size (Ks.keyPhase N skOut (t.at c).toPMat i r)
        = Ks.ι N (skOut.getD c []) * Ks.ι N (skOut.getD i []) * ((2 : Ks.R N) ^ t.base2k) ^ (t.size - (r + 1) * t.dsize) + ET c i r)
    (hcov1 : x0.size ≤ t.size) (hcov2 : x0.size ≤ t.dnum * t.dsize)
    (hIn0 : 0 ≤ Hin) (hIn : Hin + 8 ≤ 2 ^ 62)
    (hDm0 : 0 ≤ Dm) (hm : ∀ j q, normInf (key.mat.entry j q) ≤ Dm) (hadm : ksAdmissible big128 key N Hin Dm)
    (hDt0 : 0 ≤ Dt) (hmT : ∀ c, c < t.rank → ∀ j q, normInf ((t.at c).toPMat.entry j q) ≤ Dt)
    (hadmT : expandAdmissible big128 t N (2 ^ t.base2k) Dt (2 ^ t.base2k))
    (hrows : ∀ (r : Nat) (x : Ks.Ct), (x0 :: xs)[r]? = some x →
      KsRowAdm N key Hin x ∧ x.rank = key.rankOut ∧ x.base2k = t.base2k ∧ x.size = x0.size)
    (h : Ks.ggswKeyswitchAssign big128 N (x0 :: xs) key t = .ok cells) :
    cells.length = (x0 :: xs).length * (t.rank + 1) ∧
      ∀ (r : Nat) (x : Ks.Ct), (x0 :: xs)[r]? = some x → ∃ y aConv, Ks.keyswitch big128 x.base2k x.size x.rank x key = .ok y ∧
        Ks.convIn x key = .ok aConv ∧ cells[r * (t.rank + 1)]? = some y.cols ∧
        GWF N y ∧ y.base2k = t.base2k ∧ y.size = x0.size ∧ y.rank = t.rank ∧
        ∃ (E1 E3 : Poly) (Q : Ks.R N), E1.length = N ∧ E3.length = N ∧
          normInf (ksErrOf N x.base2k x.size x aConv key skOut EL E1 E3) ≤ ksErrBound N x.base2k x.size x.rank x aConv key sIn skOut EL ∧
          (2 : Ks.R N) ^ (t.base2k * x0.size + key.base2k * key.mat.size) * Ks.ι N (valP t.base2k N (phase skOut y))
            = (2 : Ks.R N) ^ (t.base2k * x0.size + key.base2k * key.mat.size) * Ks.ι N (valP t.base2k N (phase sIn x))
              + Ks.ι N (ksErrOf N x.base2k x.size x aConv key skOut EL E1 E3)
              + (2 : Ks.R N) ^ (t.base2k * x0.size + key.base2k * key.mat.size + t.base2k * x0.size) * Q ∧
          ∀ c, c < t.rank → ∃ cell, cells[r * (t.rank + 1) + (c + 1)]? = some cell ∧ cell.length = t.rank + 1 ∧
            (∀ col ∈ cell, ColWF N x0.size col) ∧ (∀ col ∈ cell, ∀ l ∈ col, ∀ v ∈ l, |v| ≤ 2 ^ t.base2k - 1) ∧
            ∃ E3c Q3c : Poly, E3c.length = N ∧ Q3c.length = N ∧
              normInf E3c ≤ (1 + snorm (min t.rank skOut.length) skOut) * C02.normTol (t.base2k * x0.size) (t.base2k * t.size) ∧
              (2 : Ks.R N) ^ (t.base2k * x0.size + key.base2k * key.mat.size + t.base2k * t.size) *
                  Ks.ι N (valP t.base2k N (phase skOut (Ks.mkCt t.base2k N cell)))
                = (2 : Ks.R N) ^ (t.base2k * x0.size + key.base2k * key.mat.size + t.base2k * t.size) *
                    (Ks.ι N (skOut.getD c []) * Ks.ι N (valP t.base2k N (phase sIn x)))
                  + ((2 : Ks.R N) ^ (t.base2k * t.size) *
                        (Ks.ι N (skOut.getD c []) * Ks.ι N (ksErrOf N x.base2k x.size x aConv key skOut EL E1 E3))
                    + (2 : Ks.R N) ^ (t.base2k * x0.size + key.base2k * key.mat.size + t.base2k * x0.size) *
                        expandErr N skOut (maskOf t y) t c ((2 : Ks.R N) ^ t.base2k) (ET c)
                    + (2 : Ks.R N) ^ (t.base2k * x0.size + key.base2k * key.mat.size) * Ks.ι N E3c)
                  + (2 : Ks.R N) ^ (t.base2k * x0.size + key.base2k * key.mat.size + t.base2k * x0.size + t.base2k * t.size) *
                      (Ks.ι N (skOut.getD c []) * Q + Ks.ι N Q3c) := by
  have hpk : (0 : Int) < 2 ^ key.base2k := by positivity
  have hHp0 := prodBound_nonneg key.dsize key.mat.colsIn key.mat.rows N (Hin + 2 ^ key.base2k) Dm (by linarith) hDm0
  have hHpT0 := prodBound_nonneg t.dsize t.rank t.dnum N (2 ^ t.base2k) Dt (by positivity) hDt0
  have hrows' : ∀ (r : Nat) (x : Ks.Ct), (x0 :: xs)[r]? = some x →
      KsRowOk N x.rank key Hin (prodBound key.dsize key.mat.colsIn key.mat.rows N (Hin + 2 ^ key.base2k) Dm) x ∧
        x.rank = key.rankOut ∧ x.base2k = t.base2k ∧ x.size = x0.size := fun r x hx => by
    obtain ⟨h1, h2, h3, h4⟩ := hrows r x hx
    have hrout' : x.rank + 1 = key.mat.colsOut := by rw [h2]; unfold Ks.Key.rankOut; omega
    exact ⟨KsRowOk_of_adm N x.rank key Hin Dm x hrout' hD hbk1 hbk hIn0 hIn hDm0 hm h1, h2, h3, h4⟩
  exact ggsw_keyswitch_assign_decrypts N big128 x0 xs key t cells sIn skOut EL KL ET Hin _ _ hN hrout hc0 hD hMk hSk hbk1 hbk hs
    hEL hKL hkey hd hn hS hrank hMt hb1 hb hkeyT hcov1 hcov2 hIn0 hIn hHp0 hadm hHpT0 hadmT hrows'
    (fun r x y hx hy => keyswitch_expandProd_bound big128 N x.base2k x.size x.rank x key t sIn skOut EL KL Hin _ Dt y hN (hrows' r x hx).2.1
      hc0 hD hMk hSk hbk1 hbk hs hEL hKL hkey hd hn (hrows' r x hx).2.2.1 hb1 hb hIn0 hIn hHp0 hadm hDt0 hmT (hrows' r x hx).1 hy) h

open AutoMul in
/-- **`ggsw_automorphism_assign_decrypts_adm`** — the in-place automorphism, head-room derived. -/
theorem ggsw_automorphism_assign_decrypts_adm (N : Nat) (big128 : Bool) (x0 : Ks.Ct) (xs : List Ks.Ct) (key : Ks.Key) (t : ToGGSWKey)
    (cells : List (List Col)) (sk : List Poly) (gInv : Int) (EL KL : ℕ → ℕ → Poly) (ET : ℕ → ℕ → ℕ → Ks.R N) (Hin Dm Dt : Int)
    (hN : 0 < N) (hg : GalOk key.p N) (hskl : Ks.AllLen N sk) (hinv : ∀ s ∈ sk, σ key.p (σ gInv s) = s)
    (hrout : t.rank = key.rankOut) (hc0 : 0 < key.mat.colsOut)
    (hD : 1 ≤ key.dsize) (hMk : ∀ j q, (key.mat.entry j q).length = N) (hSk : key.mat.rows * key.dsize ≤ key.mat.size)
    (hbk1 : 1 ≤ key.base2k) (hbk : key.base2k ≤ 62) (hs : key.mat.colsIn ≤ sk.length)
    (hEL : ∀ i r, (EL i r).length = N) (hKL : ∀ i r, (KL i r).length = N)
    (hkey : ∀ i, i < key.mat.colsIn → ∀ r, r < key.mat.rows →
      Gadget.val (Ks.radix N key.base2k) key.mat.size (Ks.keyPhase N (sk.map (σ gInv)) key.mat i r) =
        Ks.ι N (sk.getD i []) * Ks.radix N key.base2k ^ (key.mat.size - (r + 1) * key.dsize) + Ks.ι N (EL i r)
          + Ks.radix N key.base2k ^ key.mat.size * Ks.ι N (KL i r))
    (hd : 1 ≤ t.dsize) (hn : t.n = N) (hS : t.dnum * t.dsize ≤ t.size) (hrank : t.rank ≤ sk.length)
    (hMt : ∀ c, c < t.rank → ∀ j q, ((t.at c).toPMat.entry j q).length = N) (hb1 : 1 ≤ t.base2k) (hb : t.base2k ≤ 62)
    (hkeyT : ∀ c, c < t.rank → ∀ i, i < t.rank → ∀ r, r < t.dnum →
      Gadget.val ((2 : Ks.R N) ^ t.base2k) t.size (Ks.keyPhase N sk (t.at c).toPMat i r)
        = Ks.ι N (sk.getD c []) * Ks.ι N (sk.getD i []) * ((2 : Ks.R N) ^ t.base2k) ^ (t.size - (r + 1) * t.dsize) + ET c i r)
    (hcov1 : x0.size ≤ t.size) (hcov2 : x0.size ≤ t.dnum * t.dsize)
    (hIn0 : 0 ≤ Hin) (hIn : Hin + 8 ≤ 2 ^ 62)
    (hDm0 : 0 ≤ Dm) (hm : ∀ j q, normInf (key.mat.entry j q) ≤ Dm) (hadm : ksAdmissible big128 key N Hin Dm)
    (hDt0 : 0 ≤ Dt) (hmT : ∀ c, c < t.rank → ∀ j q, normInf ((t.at c).toPMat.entry j q) ≤ Dt)
    (hadmT : expandAdmissible big128 t N (2 ^ t.base2k) Dt (2 ^ t.base2k))
    (hrows : ∀ (r : Nat) (x : Ks.Ct), (x0 :: xs)[r]? = some x →
      KsRowAdm N key Hin x ∧ x.rank = key.rankOut ∧ x.base2k = t.base2k ∧ x.size = x0.size)
    (h : Ks.ggswAutomorphismAssign big128 N (x0 :: xs) key t = .ok cells) :
    cells.length = (x0 :: xs).length * (t.rank + 1) ∧
      ∀ (r : Nat) (x : Ks.Ct), (x0 :: xs)[r]? = some x → ∃ y aConv, Ks.automorphism big128 x.base2k x.size x.rank x key = .ok y ∧
        Ks.convIn x key = .ok aConv ∧ cells[r * (t.rank + 1)]? = some y.cols ∧
        GWF N y ∧ y.base2k = t.base2k ∧ y.size = x0.size ∧ y.rank = t.rank ∧
        ∃ (E1 E3 : Poly) (Q : Ks.R N), E1.length = N ∧ E3.length = N ∧
          normInf (σ key.p (ksErrOf N x.base2k x.size x aConv key (sk.map (σ gInv)) EL E1 E3))
            ≤ ksErrBound N x.base2k x.size x.rank x aConv key sk (sk.map (σ gInv)) EL ∧
          (2 : Ks.R N) ^ (t.base2k * x0.size + key.base2k * key.mat.size) * Ks.ι N (valP t.base2k N (phase sk y))
            = (2 : Ks.R N) ^ (t.base2k * x0.size + key.base2k * key.mat.size) * Ks.ι N (σ key.p (valP t.base2k N (phase sk x)))
              + Ks.ι N (σ key.p (ksErrOf N x.base2k x.size x aConv key (sk.map (σ gInv)) EL E1 E3))
              + (2 : Ks.R N) ^ (t.base2k * x0.size + key.base2k * key.mat.size + t.base2k * x0.size) * Q ∧
          ∀ c, c < t.rank → ∃ cell, cells[r * (t.rank + 1) + (c + 1)]? = some cell ∧ cell.length = t.rank + 1 ∧
            (∀ col ∈ cell, ColWF N x0.size col) ∧ (∀ col ∈ cell, ∀ l ∈ col, ∀ v ∈ l, |v| ≤ 2 ^ t.base2k - 1) ∧
            ∃ E3c Q3c : Poly, E3c.length = N ∧ Q3c.length = N ∧
              normInf E3c ≤ (1 + snorm (min t.rank sk.length) sk) * C02.normTol (t.base2k * x0.size) (t.base2k * t.size) ∧
              (2 : Ks.R N) ^ (t.base2k * x0.size + key.base2k * key.mat.size + t.base2k * t.size) *
                  Ks.ι N (valP t.base2k N (phase sk (Ks.mkCt t.base2k N cell)))
                = (2 : Ks.R N) ^ (t.base2k * x0.size + key.base2k * key.mat.size + t.base2k * t.size) *
                    (Ks.ι N (sk.getD c []) * Ks.ι N (σ key.p (valP t.base2k N (phase sk x))))
                  + ((2 : Ks.R N) ^ (t.base2k * t.size) *
                        (Ks.ι N (sk.getD c []) * Ks.ι N (σ key.p (ksErrOf N x.base2k x.size x aConv key (sk.map (σ gInv)) EL E1 E3)))
                    + (2 : Ks.R N) ^ (t.base2k * x0.size + key.base2k * key.mat.size + t.base2k * x0.size) *
                        expandErr N sk (maskOf t y) t c ((2 : Ks.R N) ^ t.base2k) (ET c)
                    + (2 : Ks.R N) ^ (t.base2k * x0.size + key.base2k * key.mat.size) * Ks.ι N E3c)
                  + (2 : Ks.R N) ^ (t.base2k * x0.size + key.base2k * key.mat.size + t.base2k * x0.size + t.base2k * t.size) *
                      (Ks.ι N (sk.getD c []) * Q + Ks.ι N Q3c) := by
  have hpk : (0 : Int) < 2 ^ key.base2k := by positivity
  have hHp0 := prodBound_nonneg key.dsize key.mat.colsIn key.mat.rows N (Hin + 2 ^ key.base2k) Dm (by linarith) hDm0
  have hHpT0 := prodBound_nonneg t.dsize t.rank t.dnum N (2 ^ t.base2k) Dt (by positivity) hDt0
  have hrows' : ∀ (r : Nat) (x : Ks.Ct), (x0 :: xs)[r]? = some x →
      KsRowOk N x.rank key Hin (prodBound key.dsize key.mat.colsIn key.mat.rows N (Hin + 2 ^ key.base2k) Dm) x ∧
        x.rank = key.rankOut ∧ x.base2k = t.base2k ∧ x.size = x0.size := fun r x hx => by
    obtain ⟨h1, h2, h3, h4⟩ := hrows r x hx
    have hrout' : x.rank + 1 = key.mat.colsOut := by rw [h2]; unfold Ks.Key.rankOut; omega
    exact ⟨KsRowOk_of_adm N x.rank key Hin Dm x hrout' hD hbk1 hbk hIn0 hIn hDm0 hm h1, h2, h3, h4⟩
  exact ggsw_automorphism_assign_decrypts N big128 x0 xs key t cells sk gInv EL KL ET Hin _ _ hN hg hskl hinv hrout hc0 hD hMk hSk hbk1 hbk hs
    hEL hKL hkey hd hn hS hrank hMt hb1 hb hkeyT hcov1 hcov2 hIn0 hIn hHp0 hadm hHpT0 hadmT hrows'
    (fun r x y hx hy => automorphism_expandProd_bound big128 N x.base2k x.size x.rank x key t sk gInv EL KL Hin _ Dt y hN hg hskl hinv
      (hrows' r x hx).2.1 hc0 hD hMk hSk hbk1 hbk hs hEL hKL hkey hd hn (hrows' r x hx).2.2.1 hb1 hb hIn0 hIn hHp0 hadm hDt0 hmT
      (hrows' r x hx).1 hy) h

/-- **`ggsw_keyswitch_wellformed_adm`** — GGSW in, GGSW out (`ggsw_keyswitch_wellformed`), head-room derived. -/
theorem ggsw_keyswitch_wellformed_adm (N : Nat) (big128 : Bool) (rs rd rds ab ads : Nat) (aCol0 : List Ks.Ct) (key : Ks.Key) (t : ToGGSWKey)
    (cells : List (List Col)) (sIn skOut : List Poly) (EL KL : ℕ → ℕ → Poly) (ET : ℕ → ℕ → ℕ → Ks.R N) (Hin Dm Dt : Int)
    (m : Ks.R N) (eIn : ℕ → Ks.R N)
    (hN : 0 < N) (hrout : t.rank = key.rankOut) (hc0 : 0 < key.mat.colsOut)
    (hD : 1 ≤ key.dsize) (hMk : ∀ j q, (key.mat.entry j q).length = N) (hSk : key.mat.rows * key.dsize ≤ key.mat.size)
    (hbk1 : 1 ≤ key.base2k) (hbk : key.base2k ≤ 62) (hs : key.mat.colsIn ≤ sIn.length)
    (hEL : ∀ i r, (EL i r).length = N) (hKL : ∀ i r, (KL i r).length = N)
    (hkey : ∀ i, i < key.mat.colsIn → ∀ r, r < key.mat.rows →
      Gadget.val (Ks.radix N key.base2k) key.mat.size (Ks.keyPhase N skOut key.mat i r) =
        Ks.ι N (sIn.getD i []) * Ks.radix N key.base2k ^ (key.mat.size - (r + 1) * key.dsize) + Ks.ι N (EL i r)
          + Ks.radix N key.base2k ^ key.mat.size * Ks.ι N (KL i r))
    (hd : 1 ≤ t.dsize) (hn : t.n = N) (hS : t.dnum * t.dsize ≤ t.size) (hrank : t.rank ≤ skOut.length)
    (hMt : ∀ c, c < t.rank → ∀ j q, ((t.at c).toPMat.entry j q).length = N) (hb1 : 1 ≤ t.base2k) (hb : t.base2k ≤ 62)
    (hkeyT : ∀ c, c < t.rank → ∀ i, i < t.rank → ∀ r, r < t.dnum →
      Gadget.val ((2 : Ks.R N) ^ t.base2k) t.size (Ks.keyPhase N skOut (t.at c).toPMat i r)
        = Ks.ι N (skOut.getD c []) * Ks.ι N (skOut.getD i []) * ((2 : Ks.R N) ^ t.base2k) ^ (t.size - (r + 1) * t.dsize) + ET c i r)
    (hcov1 : rs ≤ t.size) (hcov2 : rs ≤ t.dnum * t.dsize)
    (hIn0 : 0 ≤ Hin) (hIn : Hin + 8 ≤ 2 ^ 62)
    (hDm0 : 0 ≤ Dm) (hm : ∀ j q, normInf (key.mat.entry j q) ≤ Dm) (hadm : ksAdmissible big128 key N Hin Dm)
    (hDt0 : 0 ≤ Dt) (hmT : ∀ c, c < t.rank → ∀ j q, normInf ((t.at c).toPMat.entry j q) ≤ Dt)
    (hadmT : expandAdmissible big128 t N (2 ^ t.base2k) Dt (2 ^ t.base2k))
    (hrows : ∀ r x, r < rd → aCol0[r]? = some x → KsRowAdm N key Hin x)
    (hop : ∀ r x, r < rd → aCol0[r]? = some x → x.base2k = t.base2k ∧ (r + 1) * ads ≤ x.size ∧
      Ks.ι N (valP t.base2k N (phase sIn x)) = m * ((2 : Ks.R N) ^ t.base2k) ^ (x.size - (r + 1) * ads) + eIn r)
    (hdsr : rd * ads ≤ rs)
    (h : Ks.ggswKeyswitch big128 N t.base2k rs rd rds ab ads aCol0 key t = .ok cells) :
    cells.length = rd * (t.rank + 1) ∧
      ∀ r, r < rd → ∃ x y aConv, aCol0[r]? = some x ∧ Ks.keyswitch big128 t.base2k rs key.rankOut x key = .ok y ∧
        Ks.convIn x key = .ok aConv ∧ cells[r * (t.rank + 1)]? = some y.cols ∧ GWF N y ∧ y.size = rs ∧ y.rank = t.rank ∧
        ∃ (E1 E3 : Poly) (Q : Ks.R N),
          normInf (ksErrOf N t.base2k rs x aConv key skOut EL E1 E3) ≤ ksErrBound N t.base2k rs key.rankOut x aConv key sIn skOut EL ∧
          (2 : Ks.R N) ^ (t.base2k * x.size + key.base2k * key.mat.size) * Ks.ι N (valP t.base2k N (phase skOut y))
            = (2 : Ks.R N) ^ (t.base2k * x.size + key.base2k * key.mat.size) *
                (m * 1 * ((2 : Ks.R N) ^ t.base2k) ^ (rs - (r + 1) * ads))
              + ((2 : Ks.R N) ^ (t.base2k * rs + key.base2k * key.mat.size) * eIn r
                  + Ks.ι N (ksErrOf N t.base2k rs x aConv key skOut EL E1 E3))
              + (2 : Ks.R N) ^ (t.base2k * x.size + key.base2k * key.mat.size) * (((2 : Ks.R N) ^ t.base2k) ^ rs * Q) ∧
          ∀ c, c < t.rank → ∃ cell, cells[r * (t.rank + 1) + (c + 1)]? = some cell ∧ cell.length = t.rank + 1 ∧
            (∀ col ∈ cell, ColWF N rs col) ∧ (∀ col ∈ cell, ∀ l ∈ col, ∀ v ∈ l, |v| ≤ 2 ^ t.base2k - 1) ∧
            ∃ E3c Q3c : Poly, E3c.length = N ∧ Q3c.length = N ∧
              normInf E3c ≤ (1 + snorm (min t.rank skOut.length) skOut) * C02.normTol (t.base2k * rs) (t.base2k * t.size) ∧
              (2 : Ks.R N) ^ (t.base2k * x.size + key.base2k * key.mat.size + t.base2k * t.size) *
                  Ks.ι N (valP t.base2k N (phase skOut (Ks.mkCt t.base2k N cell)))
                = (2 : Ks.R N) ^ (t.base2k * x.size + key.base2k * key.mat.size + t.base2k * t.size) *
                    (m * Ks.ι N (skOut.getD c []) * ((2 : Ks.R N) ^ t.base2k) ^ (rs - (r + 1) * ads))
                  + ((2 : Ks.R N) ^ (t.base2k * rs + key.base2k * key.mat.size + t.base2k * t.size) * (Ks.ι N (skOut.getD c []) * eIn r)
                    + ((2 : Ks.R N) ^ (t.base2k * t.size) * (Ks.ι N (skOut.getD c []) * Ks.ι N (ksErrOf N t.base2k rs x aConv key skOut EL E1 E3))
                      + (2 : Ks.R N) ^ (t.base2k * x.size + key.base2k * key.mat.size + t.base2k * rs) *
                          expandErr N skOut (maskOf t y) t c ((2 : Ks.R N) ^ t.base2k) (ET c)
                      + (2 : Ks.R N) ^ (t.base2k * x.size + key.base2k * key.mat.size) * Ks.ι N E3c))
                  + (2 : Ks.R N) ^ (t.base2k * x.size + key.base2k * key.mat.size + t.base2k * t.size) *
                      (((2 : Ks.R N) ^ t.base2k) ^ rs * (Ks.ι N (skOut.getD c []) * Q + Ks.ι N Q3c)) := by
  have hrout' : key.rankOut + 1 = key.mat.colsOut := by unfold Ks.Key.rankOut; omega
  have hpk : (0 : Int) < 2 ^ key.base2k := by positivity
  have hHp0 := prodBound_nonneg key.dsize key.mat.colsIn key.mat.rows N (Hin + 2 ^ key.base2k) Dm (by linarith) hDm0
  have hHpT0 := prodBound_nonneg t.dsize t.rank t.dnum N (2 ^ t.base2k) Dt (by positivity) hDt0
  have hrows' : ∀ r x, r < rd → aCol0[r]? = some x → KsRowOk N key.rankOut key Hin
      (prodBound key.dsize key.mat.colsIn key.mat.rows N (Hin + 2 ^ key.base2k) Dm) x := fun r x hr hx =>
    KsRowOk_of_adm N key.rankOut key Hin Dm x hrout' hD hbk1 hbk hIn0 hIn hDm0 hm (hrows r x hr hx)
  exact ggsw_keyswitch_wellformed N big128 rs rd rds ab ads aCol0 key t cells sIn skOut EL KL ET Hin _ _ m eIn hN hrout hc0 hD hMk hSk hbk1
    hbk hs hEL hKL hkey hd hn hS hrank hMt hb1 hb hkeyT hcov1 hcov2 hIn0 hIn hHp0 hadm hHpT0 hadmT hrows'
    (fun r x y hr hx hy => keyswitch_expandProd_bound big128 N t.base2k rs key.rankOut x key t sIn skOut EL KL Hin _ Dt y hN rfl hc0 hD hMk
      hSk hbk1 hbk hs hEL hKL hkey hd hn rfl hb1 hb hIn0 hIn hHp0 hadm hDt0 hmT (hrows' r x hr hx) hy) hop hdsr h

open AutoMul in
/-- **`ggsw_automorphism_wellformed_adm`** — GGSW in, GGSW out for `ggsw_automorphism`, head-room derived. -/
theorem ggsw_automorphism_wellformed_adm (N : Nat) (big128 : Bool) (rs rd rds ab ads : Nat) (aCol0 : List Ks.Ct) (key : Ks.Key) (t : ToGGSWKey)
    (cells : List (List Col)) (sk : List Poly) (gInv : Int) (EL KL : ℕ → ℕ → Poly) (ET : ℕ → ℕ → ℕ → Ks.R N) (Hin Dm Dt : Int)
    (m : Ks.R N) (eIn : ℕ → Ks.R N)
    (hN : 0 < N) (hg : GalOk key.p N) (hskl : Ks.AllLen N sk) (hinv : ∀ s ∈ sk, σ key.p (σ gInv s) = s)
    (hrout : t.rank = key.rankOut) (hc0 : 0 < key.mat.colsOut)
    (hD : 1 ≤ key.dsize) (hMk : ∀ j q, (key.mat.entry j q).length = N) (hSk : key.mat.rows * key.dsize ≤ key.mat.size)
    (hbk1 : 1 ≤ key.base2k) (hbk : key.base2k ≤ 62) (hs : key.mat.colsIn ≤ sk.length)
    (hEL : ∀ i r, (EL i r).length = N) (hKL : ∀ i r, (KL i r).length = N)
    (hkey : ∀ i, i < key.mat.colsIn → ∀ r, r < key.mat.rows →
      Gadget.val (Ks.radix N key.base2k) key.mat.size (Ks.keyPhase N (sk.map (σ gInv)) key.mat i r) =
        Ks.ι N (sk.getD i []) * Ks.radix N key.base2k ^ (key.mat.size - (r + 1) * key.dsize) + Ks.ι N (EL i r)
          + Ks.radix N key.base2k ^ key.mat.size * Ks.ι N (KL i r))
    (hd : 1 ≤ t.dsize) (hn : t.n = N) (hS : t.dnum * t.dsize ≤ t.size) (hrank : t.rank ≤ sk.length)
    (hMt : ∀ c, c < t.rank → ∀ j q, ((t.at c).toPMat.entry j q).length = N) (hb1 : 1 ≤ t.base2k) (hb : t.base2k ≤ 62)
    (hkeyT : ∀ c, c < t.rank → ∀ i, i < t.rank → ∀ r, r < t.dnum →
      Gadget.val ((2 : Ks.R N) ^ t.base2k) t.size (Ks.keyPhase N sk (t.at c).toPMat i r)
        = Ks.ι N (sk.getD c []) * Ks.ι N (sk.getD i []) * ((2 : Ks.R N) ^ t.base2k) ^ (t.size - (r + 1) * t.dsize) + ET c i r)
    (hcov1 : rs ≤ t.size) (hcov2 : rs ≤ t.dnum * t.dsize)
    (hIn0 : 0 ≤ Hin) (hIn : Hin + 8 ≤ 2 ^ 62)
    (hDm0 : 0 ≤ Dm) (hm : ∀ j q, normInf (key.mat.entry j q) ≤ Dm) (hadm : ksAdmissible big128 key N Hin Dm)
    (hDt0 : 0 ≤ Dt) (hmT : ∀ c, c < t.rank → ∀ j q, normInf ((t.at c).toPMat.entry j q) ≤ Dt)
    (hadmT : expandAdmissible big128 t N (2 ^ t.base2k) Dt (2 ^ t.base2k))
    (hrows : ∀ r x, r < rd → aCol0[r]? = some x → KsRowAdm N key Hin x)
    (hop : ∀ r x, r < rd → aCol0[r]? = some x → x.base2k = t.base2k ∧ (r + 1) * ads ≤ x.size ∧
      Ks.ι N (valP t.base2k N (phase sk x)) = m * ((2 : Ks.R N) ^ t.base2k) ^ (x.size - (r + 1) * ads) + eIn r)
    (hdsr : rd * ads ≤ rs)
    (h : Ks.ggswAutomorphism big128 N t.base2k rs rd rds ab ads aCol0 key t = .ok cells) :
    cells.length = rd * (t.rank + 1) ∧
      ∀ r, r < rd → ∃ x y aConv, aCol0[r]? = some x ∧ Ks.automorphism big128 t.base2k rs key.rankOut x key = .ok y ∧
        Ks.convIn x key = .ok aConv ∧ cells[r * (t.rank + 1)]? = some y.cols ∧ GWF N y ∧ y.size = rs ∧ y.rank = t.rank ∧
        ∃ (E1 E3 : Poly) (Q : Ks.R N),
          normInf (σ key.p (ksErrOf N t.base2k rs x aConv key (sk.map (σ gInv)) EL E1 E3))
            ≤ ksErrBound N t.base2k rs key.rankOut x aConv key sk (sk.map (σ gInv)) EL ∧
          (2 : Ks.R N) ^ (t.base2k * x.size + key.base2k * key.mat.size) * Ks.ι N (valP t.base2k N (phase sk y))
            = (2 : Ks.R N) ^ (t.base2k * x.size + key.base2k * key.mat.size) *
                (gal N key.p hN hg m * 1 * ((2 : Ks.R N) ^ t.base2k) ^ (rs - (r + 1) * ads))
              + ((2 : Ks.R N) ^ (t.base2k * rs + key.base2k * key.mat.size) * gal N key.p hN hg (eIn r)
                  + Ks.ι N (σ key.p (ksErrOf N t.base2k rs x aConv key (sk.map (σ gInv)) EL E1 E3)))
              + (2 : Ks.R N) ^ (t.base2k * x.size + key.base2k * key.mat.size) * (((2 : Ks.R N) ^ t.base2k) ^ rs * Q) ∧
          ∀ c, c < t.rank → ∃ cell, cells[r * (t.rank + 1) + (c + 1)]? = some cell ∧ cell.length = t.rank + 1 ∧
            (∀ col ∈ cell, ColWF N rs col) ∧ (∀ col ∈ cell, ∀ l ∈ col, ∀ v ∈ l, |v| ≤ 2 ^ t.base2k - 1) ∧
            ∃ E3c Q3c : Poly, E3c.length = N ∧ Q3c.length = N ∧
              normInf E3c ≤ (1 + snorm (min t.rank sk.length) sk) * C02.normTol (t.base2k * rs) (t.base2k * t.size) ∧
              (2 : Ks.R N) ^ (t.base2k * x.size + key.base2k * key.mat.size + t.base2k * t.size) *
                  Ks.ι N (valP t.base2k N (phase sk (Ks.mkCt t.base2k N cell)))
                = (2 : Ks.R N) ^ (t.base2k * x.size + key.base2k * key.mat.size + t.base2k * t.size) *
                    (gal N key.p hN hg m * Ks.ι N (sk.getD c []) * ((2 : Ks.R N) ^ t.base2k) ^ (rs - (r + 1) * ads))
                  + ((2 : Ks.R N) ^ (t.base2k * rs + key.base2k * key.mat.size + t.base2k * t.size) *
                        (Ks.ι N (sk.getD c []) * gal N key.p hN hg (eIn r))
                    + ((2 : Ks.R N) ^ (t.base2k * t.size) *
                          (Ks.ι N (sk.getD c []) * Ks.ι N (σ key.p (ksErrOf N t.base2k rs x aConv key (sk.map (σ gInv)) EL E1 E3)))
                      + (2 : Ks.R N) ^ (t.base2k * x.size + key.base2k * key.mat.size + t.base2k * rs) *
                          expandErr N sk (maskOf t y) t c ((2 : Ks.R N) ^ t.base2k) (ET c)
                      + (2 : Ks.R N) ^ (t.base2k * x.size + key.base2k * key.mat.size) * Ks.ι N E3c))
                  + (2 : Ks.R N) ^ (t.base2k * x.size + key.base2k * key.mat.size + t.base2k * t.size) *
                      (((2 : Ks.R N) ^ t.base2k) ^ rs * (Ks.ι N (sk.getD c []) * Q + Ks.ι N Q3c)) := by
  have hrout' : key.rankOut + 1 = key.mat.colsOut := by unfold Ks.Key.rankOut; omega
  have hpk : (0 : Int) < 2 ^ key.base2k := by positivity
  have hHp0 := prodBound_nonneg key.dsize key.mat.colsIn key.mat.rows N (Hin + 2 ^ key.base2k) Dm (by linarith) hDm0
  have hHpT0 := prodBound_nonneg t.dsize t.rank t.dnum N (2 ^ t.base2k) Dt (by positivity) hDt0
  have hrows' : ∀ r x, r < rd → aCol0[r]? = some x → KsRowOk N key.rankOut key Hin
      (prodBound key.dsize key.mat.colsIn key.mat.rows N (Hin + 2 ^ key.base2k) Dm) x := fun r x hr hx =>
    KsRowOk_of_adm N key.rankOut key Hin Dm x hrout' hD hbk1 hbk hIn0 hIn hDm0 hm (hrows r x hr hx)
  exact ggsw_automorphism_wellformed N big128 rs rd rds ab ads aCol0 key t cells sk gInv EL KL ET Hin _ _ m eIn hN hg hskl hinv hrout hc0 hD
    hMk hSk hbk1 hbk hs hEL hKL hkey hd hn hS hrank hMt hb1 hb hkeyT hcov1 hcov2 hIn0 hIn hHp0 hadm hHpT0 hadmT hrows'
    (fun r x y hr hx hy => automorphism_expandProd_bound big128 N t.base2k rs key.rankOut x key t sk gInv EL KL Hin _ Dt y hN hg hskl hinv
      rfl hc0 hD hMk hSk hbk1 hbk hs hEL hKL hkey hd hn rfl hb1 hb hIn0 hIn hHp0 hadm hDt0 hmT (hrows' r x hr hx) hy) hop hdsr h

/-! ### 4. admissible shapes of the expansion on the crate's parameter sets -/

/-- a tensor key of a given shape, no content (`expandAdmissible` reads the shape only) -/
def shapeT (b N rank dsize dnum size : Nat) : ToGGSWKey := ⟨b, N, rank, dsize, dnum, size, []⟩

/-- the expansion is admissible on the crate's shapes (mask and body digits `≤ 2^b`, as delivered by the column-0 normalisation; balanced
tensor-key digits `≤ 2^(b−1)`): FFT64 `N = 4096`, rank 1, `dsize = 1`, `dnum = 3`, `b = 17` on the `i64` accumulator; rank 2, `dsize = 2`,
`dnum = 2`, `b = 12`, `N = 1024` on `i64`; NTT120 `N = 4096`, rank 1, `dnum = 8`, `b = 52` on the `i128` accumulator — and `b = 52` is NOT
admissible on `i64`. -/
example : expandAdmissible false (shapeT 17 4096 1 1 3 3) 4096 (2 ^ 17) (2 ^ 16) (2 ^ 17) ∧
    expandAdmissible false (shapeT 12 1024 2 2 2 4) 1024 (2 ^ 12) (2 ^ 11) (2 ^ 12) ∧
    expandAdmissible true (shapeT 52 4096 1 1 8 8) 4096 (2 ^ 52) (2 ^ 51) (2 ^ 52) ∧
    ¬ expandAdmissible false (shapeT 52 4096 1 1 8 8) 4096 (2 ^ 52) (2 ^ 51) (2 ^ 52) := by decide

/-- … and the key-switch inequality of the same shapes (`Lemmas/KsHeadRoom.lean`), for a key of shape `rank → rank`, `dnum` rows -/
def shapeK (b rank dsize dnum size N : Nat) : Ks.Key := ⟨b, dsize, 0, ⟨N, dnum, rank, rank + 1, size, []⟩⟩

example : ksAdmissible false (shapeK 17 1 1 3 3 4096) 4096 (2 ^ 16) (2 ^ 16) ∧
    ksAdmissible true (shapeK 52 1 1 3 3 4096) 4096 (2 ^ 51) (2 ^ 51) ∧
    expandAdmissible true (shapeT 52 4096 1 1 3 3) 4096 (2 ^ 52) (2 ^ 51) (2 ^ 52) := by decide

end KsDec
