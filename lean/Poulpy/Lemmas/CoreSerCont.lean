/-
C19: round trip of the two compressed CONTAINER types (`GGLWEToGGSWKeyCompressed`, `BlindRotationKeyCompressed`)
in C18's byte model: a list of `GGLWECompressed` / `GGSWCompressed` elements read one after the other at moving
cursors.  Element step at an arbitrary cursor, then induction over the list.
-/
import Poulpy.Lemmas.CoreSerAll

namespace CoreSerCont
open Ser

/-! ### the element reader / writer at a cursor inside larger lists -/

theorem set_mid {α : Type} (A : List α) (a v : α) (B : List α) : (A ++ a :: B).set A.length v = A ++ v :: B := by
  induction A with
  | nil => rfl
  | cons x r ih => simp [ih]

theorem get_mid {α : Type} (A : List α) (a : α) (B : List α) : (A ++ a :: B)[A.length]? = some a := by
  simp

theorem readSeedsLoop_at (A B : List SeedGroup) (total k : Nat) (done blk bs : Bytes) (F : List Nat) (L : List Leaf) (m : Nat)
    (hblk : blk.length = 32 * k) :
    readSeedsLoop A.length total k done ⟨F, A ++ ⟨total, done⟩ :: B, L, m⟩ (blk ++ bs)
      = .ok () ⟨F, A ++ ⟨total, done ++ blk⟩ :: B, L, m⟩ bs := by
  induction k generalizing done blk with
  | zero =>
    have : blk = [] := List.eq_nil_of_length_eq_zero (by simpa using hblk)
    subst this
    simp [readSeedsLoop, Rd.pure]
  | succ k ih =>
    unfold readSeedsLoop
    have h1 : ¬ (blk ++ bs).length < 32 := by simp; omega
    rw [if_neg h1]
    have ht : (blk ++ bs).take 32 = blk.take 32 := by
      rw [List.take_append_of_le_length (by omega)]
    have hd : (blk ++ bs).drop 32 = blk.drop 32 ++ bs := by
      rw [List.drop_append_of_le_length (by omega)]
    simp only [ht, hd, set_mid]
    have hl : (blk.drop 32).length = 32 * k := by simp; omega
    rw [ih (done ++ blk.take 32) (blk.drop 32) hl]
    simp [List.append_assoc, List.take_append_drop]

theorem readSeedVecAt_at {α : Type} (rest : Unit → Rd St α) (A B : List SeedGroup) (F : List Nat) (g0 : SeedGroup) (L : List Leaf) (m : Nat)
    (c : Nat) (blk : Bytes) (hc : c < 2 ^ 32) (hblk : blk.length = 32 * c) (hm : c * 32 ≤ m) (bs : Bytes) :
    (readSeedVecAt A.length >>= rest) ⟨F, A ++ g0 :: B, L, m⟩ (leBytes 4 c ++ (blk ++ bs)) = rest () ⟨F, A ++ ⟨c, blk⟩ :: B, L, m⟩ bs := by
  rw [bind_apply]
  unfold readSeedVecAt
  rw [readU32_le _ hc]
  simp only [getS_bind]
  have h0 : ¬ (A.length ≥ (A ++ g0 :: B).length) := by simp
  have h2 : ¬ (c * 32 > m) := by omega
  simp only [h0, h2, ↓reduceIte]
  rw [bind_apply, modifyS_apply]
  simp only [set_mid]
  rw [readSeedsLoop_at A B c c [] blk bs F L m hblk]
  simp

theorem readMatAt_at (x r : MatZnx) (h : MatRT x r) (p : Profile) (F : List Nat) (S : List SeedGroup) (A B : List Leaf) (m : Nat) (tail : Bytes) :
    ∃ bs, x.writeTo p = .ok bs ∧
      readMatAt A.length ⟨F, S, A ++ .mat r :: B, m⟩ (bs ++ tail) = .ok () ⟨F, S, A ++ .mat (matMerge x r) :: B, m⟩ tail := by
  obtain ⟨bs, hw, hr⟩ := mat_rt x r p tail h.1 h.2.1 h.2.2
  refine ⟨bs, hw, ?_⟩
  simp [readMatAt, onLeaf, liftMat, hr, matMerge, set_mid]

theorem set_app {α : Type} (A B : List α) (i : Nat) (v : α) : (A ++ B).set (A.length + i) v = A ++ B.set i v := by
  induction A with
  | nil => simp
  | cons x r ih => simp [Nat.succ_add, ih]

theorem get_app {α : Type} (A B : List α) (i : Nat) : (A ++ B)[A.length + i]? = B[i]? := by
  rw [List.getElem?_append_right (by omega)]; simp

/-- one element of a compressed container: a `GGLWECompressed` / `GGSWCompressed` (four header fields, a seed vector, a matrix) -/
structure CElem where
  f0 : Nat
  f1 : Nat
  f2 : Nat
  f3 : Nat
  cnt : Nat
  blk : Bytes
  m : MatZnx

def CElem.fields (e : CElem) : List Nat := [e.f0, e.f1, e.f2, e.f3]
def CElem.seed (e : CElem) : SeedGroup := ⟨e.cnt, e.blk⟩

/-- source element `x` admissible (fields within their wire widths, `cnt` seeds of 32 bytes, allocation granted, matrix well formed)
and receiver element `r` with the capacity -/
def ElemOK (mem : Nat) (x r : CElem) : Prop :=
  x.f0 < 2 ^ 32 ∧ x.f1 < 2 ^ 32 ∧ x.f2 < 2 ^ 32 ∧ x.f3 < 2 ^ 32 ∧ x.cnt < 2 ^ 32 ∧ x.blk.length = 32 * x.cnt ∧ x.cnt * 32 ≤ mem ∧
    MatRT x.m r.m

/-- what the receiver element holds after the read -/
def mergeE (x r : CElem) : CElem := { x with m := matMerge x.m r.m }

theorem elem_rt (mem : Nat) (x r : CElem) (h : ElemOK mem x r) (p : Profile)
    (Fx Fx' Fr Fr' : List Nat) (Sx Sx' Sr Sr' : List SeedGroup) (Lx Lx' Lr Lr' : List Leaf) (mx : Nat)
    (hF : Fx.length = Fr.length) (hS : Sx.length = Sr.length) (hL : Lx.length = Lr.length) (tail : Bytes) :
    ∃ bs, wGGLWECompressed p ⟨Fx ++ (x.fields ++ Fx'), Sx ++ x.seed :: Sx', Lx ++ .mat x.m :: Lx', mx⟩ ⟨Fr.length, Sr.length, Lr.length⟩ = .ok bs ∧
      rGGLWECompressed ⟨Fr.length, Sr.length, Lr.length⟩ ⟨Fr ++ (r.fields ++ Fr'), Sr ++ r.seed :: Sr', Lr ++ .mat r.m :: Lr', mem⟩ (bs ++ tail)
        = .ok () ⟨Fr ++ (x.fields ++ Fr'), Sr ++ x.seed :: Sr', Lr ++ .mat (matMerge x.m r.m) :: Lr', mem⟩ tail := by
  obtain ⟨h0, h1, h2, h3, hc, hblk, hm, hmat⟩ := h
  obtain ⟨vb, hw, hr⟩ := readMatAt_at x.m r.m hmat p (Fr ++ (x.fields ++ Fr')) (Sr ++ x.seed :: Sr') Lr Lr' mem tail
  refine ⟨leBytes 4 x.f0 ++ (leBytes 4 x.f1 ++ (leBytes 4 x.f2 ++ (leBytes 4 x.f3 ++ (leBytes 4 x.cnt ++ (x.blk ++ vb))))), ?_, ?_⟩
  · have g0 : (Fx ++ (x.fields ++ Fx'))[Fr.length]? = some x.f0 := by rw [← hF]; simpa [CElem.fields] using get_app Fx (x.fields ++ Fx') 0
    have g1 : (Fx ++ (x.fields ++ Fx'))[Fr.length + 1]? = some x.f1 := by rw [← hF, get_app]; simp [CElem.fields]
    have g2 : (Fx ++ (x.fields ++ Fx'))[Fr.length + 2]? = some x.f2 := by rw [← hF, get_app]; simp [CElem.fields]
    have g3 : (Fx ++ (x.fields ++ Fx'))[Fr.length + 3]? = some x.f3 := by rw [← hF, get_app]; simp [CElem.fields]
    have gs : (Sx ++ x.seed :: Sx')[Sr.length]? = some x.seed := by rw [← hS]; simp
    have gl : (Lx ++ Leaf.mat x.m :: Lx')[Lr.length]? = some (.mat x.m) := by rw [← hL]; simp
    simp only [wGGLWECompressed, wF, wLeaf, wSeedVec, g0, g1, g2, g3, gs, gl, hw, bind, Outcome.bind]
    simp [SeedGroup.bytes, CElem.seed, hblk]
    rfl
  · unfold rGGLWECompressed
    simp only [List.append_assoc]
    rw [setF_u32_step Fr.length x.f0 h0 _ _ (by simp [CElem.fields]), setF_u32_step (Fr.length + 1) x.f1 h1 _ _ (by simp [CElem.fields]),
      setF_u32_step (Fr.length + 2) x.f2 h2 _ _ (by simp [CElem.fields]), setF_u32_step (Fr.length + 3) x.f3 h3 _ _ (by simp [CElem.fields])]
    have e0 : ((((Fr ++ (r.fields ++ Fr')).set Fr.length x.f0).set (Fr.length + 1) x.f1).set (Fr.length + 2) x.f2).set (Fr.length + 3) x.f3
        = Fr ++ (x.fields ++ Fr') := by
      have := set_app Fr (r.fields ++ Fr') 0 x.f0
      simp only [Nat.add_zero] at this
      rw [this, set_app, set_app, set_app]
      simp [CElem.fields]
    simp only [e0]
    rw [readSeedVecAt_at _ Sr Sr' _ r.seed _ _ x.cnt x.blk hc hblk hm]
    simpa [CElem.seed] using hr

/-! ### the loop over the elements -/

def flatF (es : List CElem) : List Nat := es.flatMap CElem.fields
def flatS (es : List CElem) : List SeedGroup := es.map CElem.seed
def flatL (es : List CElem) : List Leaf := es.map (fun e => Leaf.mat e.m)

theorem rep_rt (mem : Nat) (p : Profile) : ∀ (xs rs : List CElem), List.Forall₂ (ElemOK mem) xs rs →
    ∀ (Fx Fx' Fr Fr' : List Nat) (Sx Sx' Sr Sr' : List SeedGroup) (Lx Lx' Lr Lr' : List Leaf) (mx : Nat)
      (_ : Fx.length = Fr.length) (_ : Sx.length = Sr.length) (_ : Lx.length = Lr.length) (tail : Bytes),
    ∃ bs, wRep (wGGLWECompressed p) aGGLWECompressed ⟨Fx ++ (flatF xs ++ Fx'), Sx ++ (flatS xs ++ Sx'), Lx ++ (flatL xs ++ Lx'), mx⟩
        xs.length ⟨Fr.length, Sr.length, Lr.length⟩ = .ok bs ∧
      rRep rGGLWECompressed aGGLWECompressed xs.length ⟨Fr.length, Sr.length, Lr.length⟩
        ⟨Fr ++ (flatF rs ++ Fr'), Sr ++ (flatS rs ++ Sr'), Lr ++ (flatL rs ++ Lr'), mem⟩ (bs ++ tail)
        = .ok () ⟨Fr ++ (flatF xs ++ Fr'), Sr ++ (flatS xs ++ Sr'), Lr ++ (flatL (List.zipWith mergeE xs rs) ++ Lr'), mem⟩ tail := by
  intro xs rs hall
  induction hall with
  | nil =>
    intro Fx Fx' Fr Fr' Sx Sx' Sr Sr' Lx Lx' Lr Lr' mx _ _ _ tail
    exact ⟨[], rfl, by simp [rRep, Rd.pure, flatF, flatS, flatL]⟩
  | @cons x r xs rs hx _ ih =>
    intro Fx Fx' Fr Fr' Sx Sx' Sr Sr' Lx Lx' Lr Lr' mx hF hS hL tail
    obtain ⟨b2, hw2, hr2⟩ := ih (Fx ++ x.fields) Fx' (Fr ++ x.fields) Fr' (Sx ++ [x.seed]) Sx' (Sr ++ [x.seed]) Sr'
      (Lx ++ [.mat x.m]) Lx' (Lr ++ [.mat (matMerge x.m r.m)]) Lr' mx (by simp [hF]) (by simp [hS]) (by simp [hL]) tail
    obtain ⟨b1, hw1, hr1⟩ := elem_rt mem x r hx p Fx (flatF xs ++ Fx') Fr (flatF rs ++ Fr') Sx (flatS xs ++ Sx') Sr (flatS rs ++ Sr')
      Lx (flatL xs ++ Lx') Lr (flatL rs ++ Lr') mx hF hS hL (b2 ++ tail)
    have ec : aGGLWECompressed ⟨Fr.length, Sr.length, Lr.length⟩ = ⟨(Fr ++ x.fields).length, (Sr ++ [x.seed]).length, (Lr ++ [Leaf.mat (matMerge x.m r.m)]).length⟩ := by
      simp [aGGLWECompressed, CElem.fields]
    refine ⟨b1 ++ b2, ?_, ?_⟩
    · simp only [List.length_cons, wRep, flatF, flatS, flatL, List.flatMap_cons, List.map_cons, List.append_assoc, List.cons_append] at hw1 hw2 ⊢
      rw [hw1, ec]
      simp only [List.length_append, List.length_cons, List.length_nil, List.append_assoc, List.cons_append, List.nil_append,
        List.singleton_append] at hw2 ⊢
      simp only [bind, Outcome.bind]
      rw [hw2]
      rfl
    · simp only [List.length_cons, rRep, flatF, flatS, flatL, List.flatMap_cons, List.map_cons, List.append_assoc, List.cons_append,
        List.zipWith_cons_cons] at hr1 hr2 ⊢
      rw [bind_apply, hr1, ec]
      simp only [List.length_append, List.length_cons, List.length_nil, List.append_assoc, List.cons_append, List.nil_append,
        List.singleton_append, mergeE] at hr2 ⊢
      exact hr2

/-! ### the two containers -/

theorem keys_rt (mem : Nat) (p : Profile) (xs rs : List CElem) (hall : List.Forall₂ (ElemOK mem) xs rs) (hlen : xs.length < 2 ^ 64)
    (P : List Nat) (mx : Nat) (tail : Bytes) :
    ∃ bs, wKeys (wGGLWECompressed p) aGGLWECompressed ⟨P ++ xs.length :: flatF xs, flatS xs, flatL xs, mx⟩ ⟨P.length, 0, 0⟩ = .ok bs ∧
      rKeys rGGLWECompressed aGGLWECompressed ⟨P.length, 0, 0⟩ ⟨P ++ rs.length :: flatF rs, flatS rs, flatL rs, mem⟩ (bs ++ tail)
        = .ok () ⟨P ++ xs.length :: flatF xs, flatS xs, flatL (List.zipWith mergeE xs rs), mem⟩ tail := by
  have hl := hall.length_eq
  obtain ⟨b, hw, hr⟩ := rep_rt mem p xs rs hall (P ++ [xs.length]) [] (P ++ [rs.length]) [] [] [] [] [] [] [] [] [] mx (by simp) rfl rfl tail
  simp only [List.append_nil, List.nil_append, List.length_append, List.length_cons, List.length_nil, List.append_assoc, List.cons_append,
    Nat.zero_add] at hw hr
  refine ⟨leBytes 8 xs.length ++ b, ?_, ?_⟩
  · have g : (P ++ xs.length :: flatF xs)[P.length]? = some xs.length := by simp
    simp only [wKeys, wF, g, bind, Outcome.bind]
    rw [hw]; rfl
  · unfold rKeys
    simp only [List.append_assoc]
    rw [readU64_le _ hlen]
    have g : (P ++ rs.length :: flatF rs)[P.length]? = some rs.length := by simp
    rw [bind_apply]
    simp only [getF, g]
    rw [if_neg (by omega)]
    rw [← hl] at hr ⊢
    exact hr

/-- the flat state of a container of compressed matrices with header fields `H` -/
def contState (H : List Nat) (es : List CElem) (mem : Nat) : St := ⟨H ++ es.length :: flatF es, flatS es, flatL es, mem⟩

/-- the stored cells of every element of a container state (element `i` = seed group `i`, leaf `i`) -/
def contCellsOf (s : St) : List (Option (List (Nat × Core.CellC))) :=
  List.zipWith (fun g l => CoreSerAll.cellsOf ⟨[], [g], [l], 0⟩) s.seeds s.leaves

/-- `decompress_glwe` of every stored cell of every element -/
def contDecompress (expand : List Nat → List Nat) (b n rank : Nat) (s : St) : List (Option (List (Nat × Option (List Col)))) :=
  (contCellsOf s).map (fun o => o.map (fun cs => cs.map (fun c => (c.1, Core.decompressCell b n rank expand c.2))))

theorem contCells_merge (mem : Nat) (xs rs : List CElem) (hall : List.Forall₂ (ElemOK mem) xs rs) :
    List.zipWith (fun g l => CoreSerAll.cellsOf ⟨[], [g], [l], 0⟩) (flatS xs) (flatL (List.zipWith mergeE xs rs))
      = List.zipWith (fun g l => CoreSerAll.cellsOf ⟨[], [g], [l], 0⟩) (flatS xs) (flatL xs) := by
  induction hall with
  | nil => rfl
  | @cons x r xs rs hx _ ih =>
    simp only [flatS, flatL, List.zipWith_cons_cons, List.map_cons, List.cons.injEq] at ih ⊢
    refine ⟨?_, ih⟩
    have hinv := hx.2.2.2.2.2.2.2.2.1
    have := fun idx => CoreSer.decodeBlock_overwrite x.m r.m.data idx 0 hinv
    simp only [CoreSerAll.cellsOf, mergeE, matMerge, this]

/-- **`GGLWEToGGSWKeyCompressed`** (fields `[keys.len()]`, then the `GGLWECompressed` elements) -/
theorem g2g_rt (mem : Nat) (p : Profile) (xs rs : List CElem) (hall : List.Forall₂ (ElemOK mem) xs rs) (hlen : xs.length < 2 ^ 64)
    (mx : Nat) (tail : Bytes) :
    ∃ bs rs', wKeys (wGGLWECompressed p) aGGLWECompressed (contState [] xs mx) origin = .ok bs ∧
      rGGLWEToGGSWKeyCompressed origin (contState [] rs mem) (bs ++ tail) = .ok () rs' tail ∧
      rs'.fields = (contState [] xs mx).fields ∧ rs'.seeds = (contState [] xs mx).seeds ∧ contCellsOf rs' = contCellsOf (contState [] xs mx) := by
  obtain ⟨bs, hw, hr⟩ := keys_rt mem p xs rs hall hlen [] mx tail
  exact ⟨bs, _, hw, hr, rfl, rfl, contCells_merge mem xs rs hall⟩

/-- **`BlindRotationKeyCompressed`** (fields `[dist.tag, dist.payload, keys.len()]`, then the `GGSWCompressed` elements) -/
theorem brk_rt (mem : Nat) (p : Profile) (xs rs : List CElem) (hall : List.Forall₂ (ElemOK mem) xs rs) (hlen : xs.length < 2 ^ 64)
    (tag pl t0 p0 : Nat) (hd : DistCanon tag pl) (mx : Nat) (tail : Bytes) :
    ∃ bs rs', wBlindRotationKeyCompressed p (contState [tag, pl] xs mx) origin = .ok bs ∧
      rBlindRotationKeyCompressed origin (contState [t0, p0] rs mem) (bs ++ tail) = .ok () rs' tail ∧
      rs'.fields = (contState [tag, pl] xs mx).fields ∧ rs'.seeds = (contState [tag, pl] xs mx).seeds ∧
      contCellsOf rs' = contCellsOf (contState [tag, pl] xs mx) := by
  obtain ⟨b, hw, hr⟩ := keys_rt mem p xs rs hall hlen [tag, pl] mx tail
  refine ⟨leBytes 8 (distWord tag pl) ++ b, ⟨[tag, pl] ++ xs.length :: flatF xs, flatS xs, flatL (List.zipWith mergeE xs rs), mem⟩, ?_, ?_, rfl, rfl,
    contCells_merge mem xs rs hall⟩
  · simp only [wBlindRotationKeyCompressed, wDist, contState, origin, bind, Outcome.bind]
    simp only [List.cons_append, List.nil_append, List.getElem?_cons_zero, List.getElem?_cons_succ, Nat.zero_add]
    simp only [List.length_cons, List.length_nil, List.cons_append, List.nil_append] at hw
    rw [hw]; rfl
  · unfold rBlindRotationKeyCompressed contState origin
    simp only [List.cons_append, List.nil_append, List.append_assoc]
    rw [readDistAt_step _ t0 p0 _ _ _ _ tag pl hd]
    simpa using hr

end CoreSerCont
