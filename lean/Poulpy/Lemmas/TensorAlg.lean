import Poulpy.Lemmas.TensorCols
import Mathlib.Algebra.BigOperators.Intervals
import Mathlib.Algebra.BigOperators.Ring.Finset
import Mathlib.Tactic.Ring
import Mathlib.Tactic.Abel
import Mathlib.Tactic.LinearCombination

/-!
The algebra of the tensor of two ciphertexts, every rank: the sum over the `cols(cols+1)/2` tensor columns weighted by the secret tensor is
the double sum over pairs, and with the pairwise trick `(x_i + x_j)(y_i + y_j) − x_i y_i − x_j y_j` it is the product of the two phases.
-/

namespace Core
open Finset

/-- the tensor columns enumerated row by row -/
theorem sum_cix {R : Type*} [AddCommMonoid R] (cols : Nat) (f : ℕ → R) :
    ∑ c ∈ range ((cols + 1) * cols / 2), f c = ∑ i ∈ range cols, ∑ j ∈ Ico i cols, f (cix cols i j) := by
  have key : ∀ k, k ≤ cols → ∑ c ∈ range (cix cols k k), f c = ∑ i ∈ range k, ∑ j ∈ Ico i cols, f (cix cols i j) := by
    intro k
    induction k with
    | zero => intro _; simp [cix, colIdx]
    | succ m ih =>
      intro hm
      rw [cix_diag_succ cols m (by omega), Finset.sum_range_add, ih (by omega), Finset.sum_range_succ]
      congr 1
      rw [Finset.sum_Ico_eq_sum_range]
      apply Finset.sum_congr rfl
      intro d _
      rw [cix_row]
  rw [← cix_top, key cols (Nat.le_refl _)]

/-- a double sum split into diagonal and the two triangles -/
theorem double_sum_split {R : Type*} [AddCommMonoid R] (n : Nat) (g : ℕ → ℕ → R) :
    ∑ i ∈ range n, ∑ j ∈ range n, g i j = ∑ i ∈ range n, (g i i + ∑ j ∈ Ico (i + 1) n, (g i j + g j i)) := by
  induction n with
  | zero => simp
  | succ m ih =>
    rw [Finset.sum_range_succ, Finset.sum_range_succ (fun i => g i i + ∑ j ∈ Ico (i + 1) (m + 1), (g i j + g j i))]
    have e1 : ∑ i ∈ range m, ∑ j ∈ range (m + 1), g i j = ∑ i ∈ range m, ∑ j ∈ range m, g i j + ∑ i ∈ range m, g i m := by
      rw [← Finset.sum_add_distrib]
      apply Finset.sum_congr rfl
      intro i _
      rw [Finset.sum_range_succ]
    have e2 : ∑ i ∈ range m, (g i i + ∑ j ∈ Ico (i + 1) (m + 1), (g i j + g j i))
        = ∑ i ∈ range m, (g i i + ∑ j ∈ Ico (i + 1) m, (g i j + g j i)) + ∑ i ∈ range m, (g i m + g m i) := by
      rw [← Finset.sum_add_distrib]
      apply Finset.sum_congr rfl
      intro i hi
      have him : i + 1 ≤ m := by have := mem_range.mp hi; omega
      rw [Finset.sum_Ico_succ_top him]
      abel
    rw [e1, e2, ih, Finset.sum_range_succ, Finset.sum_add_distrib, Finset.sum_add_distrib]
    simp only [Finset.Ico_self, Finset.sum_empty, add_zero]
    generalize ∑ x ∈ range m, g x x = S1
    generalize ∑ x ∈ range m, ∑ j ∈ Ico (x + 1) m, (g x j + g j x) = S2
    generalize ∑ i ∈ range m, g i m = S3
    generalize ∑ x ∈ range m, g m x = S4
    abel

/-- **the tensor of two phases** (every rank): if the diagonal products carry `A·d_i = K·β·x_i·y_i + rD i`, the pairwise products
`A·p_{ij} = K·β·(x_i+x_j)(y_i+y_j) + rP i j`, and the tensor column `(i, j)` holds `d_i` (`i = j`) resp. `p_{ij} − d_i − d_j`, then the
tensor weighted by `σ_i σ_j` is `K·β·(Σσ_i x_i)(Σσ_j y_j)` plus the weighted residuals. -/
theorem tensor_product_identity {R : Type*} [CommRing R] (cols : Nat) (A K β : R) (σ x y : ℕ → R) (dV rD : ℕ → R) (pV rP : ℕ → ℕ → R)
    (v τ : ℕ → R)
    (hD : ∀ i, i < cols → A * dV i = K * β * x i * y i + rD i)
    (hP : ∀ i j, i < j → j < cols → A * pV i j = K * β * (x i + x j) * (y i + y j) + rP i j)
    (hvd : ∀ i, i < cols → v (cix cols i i) = dV i)
    (hvo : ∀ i j, i < j → j < cols → v (cix cols i j) = pV i j - dV i - dV j)
    (hτ : ∀ i j, i ≤ j → j < cols → τ (cix cols i j) = σ i * σ j) :
    A * ∑ c ∈ range ((cols + 1) * cols / 2), τ c * v c
      = K * β * ((∑ i ∈ range cols, σ i * x i) * (∑ j ∈ range cols, σ j * y j))
        + ∑ i ∈ range cols, (σ i * σ i * rD i + ∑ j ∈ Ico (i + 1) cols, σ i * σ j * (rP i j - rD i - rD j)) := by
  rw [sum_cix, Finset.sum_mul_sum, double_sum_split, Finset.mul_sum, Finset.mul_sum, ← Finset.sum_add_distrib]
  apply Finset.sum_congr rfl
  intro i hi
  have hic : i < cols := mem_range.mp hi
  have hsplit : ∑ j ∈ Ico i cols, τ (cix cols i j) * v (cix cols i j)
      = τ (cix cols i i) * v (cix cols i i) + ∑ j ∈ Ico (i + 1) cols, τ (cix cols i j) * v (cix cols i j) := by
    rw [Finset.sum_eq_sum_Ico_succ_bot hic]
  rw [hsplit, hτ i i (Nat.le_refl _) hic, hvd i hic, mul_add, mul_add, Finset.mul_sum, Finset.mul_sum]
  have hd := hD i hic
  have e1 : A * (σ i * σ i * dV i) = K * β * (σ i * x i * (σ i * y i)) + σ i * σ i * rD i := by
    linear_combination (σ i * σ i) * hd
  rw [e1]
  have e2 : ∀ j ∈ Ico (i + 1) cols, A * (τ (cix cols i j) * v (cix cols i j))
      = K * β * (σ i * x i * (σ j * y j) + σ j * x j * (σ i * y i)) + σ i * σ j * (rP i j - rD i - rD j) := by
    intro j hj
    have hj' := Finset.mem_Ico.mp hj
    have hij : i < j := by omega
    rw [hτ i j (by omega) hj'.2, hvo i j hij hj'.2]
    have h1 := hP i j hij hj'.2
    have h2 := hD i hic
    have h3 := hD j hj'.2
    linear_combination (σ i * σ j) * h1 - (σ i * σ j) * h2 - (σ i * σ j) * h3
  rw [Finset.sum_congr rfl e2, Finset.sum_add_distrib, ← Finset.mul_sum]
  ring

end Core
