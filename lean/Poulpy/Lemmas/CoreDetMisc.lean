import Poulpy.Lemmas.CoreDetOps
import Poulpy.Lemmas.CoreFrameOps
import Poulpy.Model.CkksData
import Poulpy.Model.Core.Mul

/-! Determinacy of the CKKS data-path `…_into` operations and of the tensor loops in the previous content of the result. -/

namespace C11Core
open Core Core.Ops

/-! ### tensor product: the non-accumulating forms overwrite every column (ranks 1 and 2, as in C05) -/

theorem tensorApplyCore_det2 (n rs : Nat) (D : Nat → Option Col) (P : Nat → Nat → Option Col) (r0 r1 r2 z0 z1 z2 : Col) :
    tensorApplyCore false n 2 rs D P [r0, r1, r2] = tensorApplyCore false n 2 rs D P [z0, z1, z2] := by
  unfold tensorApplyCore
  cases h0 : D 0 with
  | none => simp [List.range_succ, h0]
  | some d0 =>
    cases h1 : D 1 with
    | none => simp [List.range_succ, h0, h1, tensorDiagStep, mulUpdCol, colIdx]
    | some d1 =>
      cases hp : P 0 1 with
      | none => simp [List.range_succ, h0, h1, hp, tensorDiagStep, mulUpdCol, colIdx]
      | some p => simp [List.range_succ, h0, h1, hp, tensorDiagStep, mulUpdCol, colIdx]

theorem tensorApplyCore_det3 (n rs : Nat) (D : Nat → Option Col) (P : Nat → Nat → Option Col)
    (r0 r1 r2 r3 r4 r5 z0 z1 z2 z3 z4 z5 : Col) :
    tensorApplyCore false n 3 rs D P [r0, r1, r2, r3, r4, r5] = tensorApplyCore false n 3 rs D P [z0, z1, z2, z3, z4, z5] := by
  unfold tensorApplyCore
  cases h0 : D 0 with
  | none => simp [List.range_succ, h0]
  | some d0 =>
  cases h1 : D 1 with
  | none => simp [List.range_succ, h0, h1, tensorDiagStep, mulUpdCol, colIdx]
  | some d1 =>
  cases h2 : D 2 with
  | none => simp [List.range_succ, h0, h1, h2, tensorDiagStep, mulUpdCol, colIdx]
  | some d2 =>
  cases p01 : P 0 1 with
  | none => simp [List.range_succ, h0, h1, h2, p01, tensorDiagStep, mulUpdCol, colIdx]
  | some q01 =>
  cases p02 : P 0 2 with
  | none => simp [List.range_succ, h0, h1, h2, p01, p02, tensorDiagStep, mulUpdCol, colIdx]
  | some q02 =>
  cases p12 : P 1 2 with
  | none => simp [List.range_succ, h0, h1, h2, p01, p02, p12, tensorDiagStep, mulUpdCol, colIdx]
  | some q12 => simp [List.range_succ, h0, h1, h2, p01, p02, p12, tensorDiagStep, mulUpdCol, colIdx]

theorem tensorSquareCore_det2 (n rs : Nat) (D : Nat → Option Col) (P : Nat → Nat → Option Col) (r0 r1 r2 z0 z1 z2 : Col) :
    tensorSquareCore n 2 rs D P [r0, r1, r2] = tensorSquareCore n 2 rs D P [z0, z1, z2] := by
  unfold tensorSquareCore
  cases h0 : D 0 with
  | none => simp [List.range_succ, h0]
  | some d0 =>
    cases h1 : D 1 with
    | none => simp [List.range_succ, h0, h1, mulUpdCol, colIdx]
    | some d1 =>
      cases hp : P 0 1 with
      | none => simp [List.range_succ, h0, h1, hp, mulUpdCol, colIdx]
      | some p => simp [List.range_succ, h0, h1, hp, mulUpdCol, colIdx]

theorem tensorSquareCore_det3 (n rs : Nat) (D : Nat → Option Col) (P : Nat → Nat → Option Col)
    (r0 r1 r2 r3 r4 r5 z0 z1 z2 z3 z4 z5 : Col) :
    tensorSquareCore n 3 rs D P [r0, r1, r2, r3, r4, r5] = tensorSquareCore n 3 rs D P [z0, z1, z2, z3, z4, z5] := by
  unfold tensorSquareCore
  cases h0 : D 0 with
  | none => simp [List.range_succ, h0]
  | some d0 =>
  cases h1 : D 1 with
  | none => simp [List.range_succ, h0, h1, mulUpdCol, colIdx]
  | some d1 =>
  cases h2 : D 2 with
  | none => simp [List.range_succ, h0, h1, h2, mulUpdCol, colIdx]
  | some d2 =>
  cases p01 : P 0 1 with
  | none => simp [List.range_succ, h0, h1, h2, p01, mulUpdCol, colIdx]
  | some q01 =>
  cases p02 : P 0 2 with
  | none => simp [List.range_succ, h0, h1, h2, p01, p02, mulUpdCol, colIdx]
  | some q02 =>
  cases p12 : P 1 2 with
  | none => simp [List.range_succ, h0, h1, h2, p01, p02, p12, mulUpdCol, colIdx]
  | some q12 => simp [List.range_succ, h0, h1, h2, p01, p02, p12, mulUpdCol, colIdx]

/-! ### CKKS data path: the `…_into` forms read the destination only through its metadata and shape -/

open Ckks in
theorem dct_ct_eq (d₁ d₂ : DCt) (hm : d₁.md = d₂.md) (hs : SameShapeG d₁.g d₂.g) : d₂.ct = d₁.ct := by
  unfold DCt.ct; rw [hm, hs.size]

open Ckks in
theorem dRescaleInto_det (env : Env) (N : Nat) (d₁ d₂ : DCt) (k : Nat) (src : DCt) (hm : d₁.md = d₂.md)
    (hs : SameShapeG d₁.g d₂.g) : dRescaleInto env N d₁ k src = dRescaleInto env N d₂ k src := by
  unfold dRescaleInto
  rw [dct_ct_eq d₁ d₂ hm hs, glweLsh_det N d₁.g d₂.g src.g _ hs]

open Ckks in
theorem dMulPow2Into_det (env : Env) (N : Nat) (d₁ d₂ src : DCt) (bits : Nat) (hm : d₁.md = d₂.md)
    (hs : SameShapeG d₁.g d₂.g) : dMulPow2Into env N d₁ src bits = dMulPow2Into env N d₂ src bits := by
  unfold dMulPow2Into
  rw [dct_ct_eq d₁ d₂ hm hs, glweLsh_det N d₁.g d₂.g src.g _ hs]

open Ckks in
theorem dDivPow2Into_det (env : Env) (N : Nat) (d₁ d₂ src : DCt) (bits : Nat) (hm : d₁.md = d₂.md)
    (hs : SameShapeG d₁.g d₂.g) : dDivPow2Into env N d₁ src bits = dDivPow2Into env N d₂ src bits := by
  unfold dDivPow2Into
  rw [dct_ct_eq d₁ d₂ hm hs, glweLsh_det N d₁.g d₂.g src.g _ hs]

open Ckks in
theorem dNegInto_det (env : Env) (N : Nat) (d₁ d₂ src : DCt) (hm : d₁.md = d₂.md)
    (hs : SameShapeG d₁.g d₂.g) : dNegInto env N d₁ src = dNegInto env N d₂ src := by
  unfold dNegInto
  rw [dct_ct_eq d₁ d₂ hm hs, glweLsh_det N d₁.g d₂.g src.g _ hs, glweNegate_det N d₁.g d₂.g src.g hs]

open Ckks in
theorem dAddInto_det (env : Env) (N : Nat) (sub : Bool) (d₁ d₂ a b : DCt) (hm : d₁.md = d₂.md)
    (hs : SameShapeG d₁.g d₂.g) : dAddInto env N sub d₁ a b = dAddInto env N sub d₂ a b := by
  unfold dAddInto addIntoData
  dsimp only
  rw [dct_ct_eq d₁ d₂ hm hs, glweSub_det N d₁.g d₂.g a.g b.g hs, glweAddInto_det N d₁.g d₂.g a.g b.g hs,
    glweLsh_det N d₁.g d₂.g a.g _ hs, glweLsh_det N d₁.g d₂.g b.g _ hs]

open Ckks in
theorem dAddPtInto_det (env : Env) (N : Nat) (sub : Bool) (d₁ d₂ a : DCt) (pt : Pt) (pg : Col) (hm : d₁.md = d₂.md)
    (hs : SameShapeG d₁.g d₂.g) : dAddPtInto env N sub d₁ a pt pg = dAddPtInto env N sub d₂ a pt pg := by
  unfold dAddPtInto
  rw [dct_ct_eq d₁ d₂ hm hs, glweLsh_det N d₁.g d₂.g a.g _ hs]

/-- accumulate forms are *not* determined by their operands alone: they read `res` (witness) -/
theorem addAssign_reads_res :
    ∃ res₁ res₂ a : GLWE, SameShapeG res₁ res₂ ∧ glweAddAssign 1 res₁ a ≠ glweAddAssign 1 res₂ a := by
  refine ⟨⟨4, 0, 1, [[[1]]]⟩, ⟨4, 0, 1, [[[2]]]⟩, ⟨4, 0, 1, [[[5]]]⟩, ⟨rfl, rfl, rfl, rfl, fun i => ?_⟩, ?_⟩
  · cases i <;> simp
  · intro h
    have := congrArg (fun o => match o with | Outcome.ok g => g.cols | _ => []) h
    revert this
    decide

end C11Core
