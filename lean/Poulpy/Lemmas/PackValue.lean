import Poulpy.Lemmas.PackAlg
import Poulpy.Lemmas.PackPhase

/-!
Layer B of ring packing: **value statements over arbitrary subsets of slots**, over the abstract
automorphism-with-rotation contract `Pack.Contract M` of `Lemmas/PackAlg.lean`.

An input `J` is modelled by its phase `f J = u J + w J`: `u J` is the *slot part* (fixed by the automorphisms
applied to it), `w J` is *garbage* that the level projectors kill; an absent input is `f J = 0`
(`u J = 0`, `w J = 0`).  Because every statement is a sum over slots of an additive expression in `u`, each one
holds for **every subset** of present slots (absent slots contribute `0`); the `_subset` forms restrict the sum
to a `Finset` of present slot numbers.

* `Q_eq_traceAbs`      : the composed level projectors `Q c L` are the abstract trace over `List.range L`.
* `pack_closed_form`   : `glwe_pack` = `L` packing levels followed by the trace over the levels `L … K-1`; slot
  `idxOff s L m` contributes `X^{rotOff c L m} · (full projector of its phase)`.
* `pack_value`, `pack_value_poulpy`, `pack_value_subset`, `pack_value_decomp` : when the full projector keeps
  exactly the slot part, slot `J` contributes `X^J · u J` with scale `1` and sign `+`, and nothing else survives.
* `trace_value`, `trace_killed` : `glwe_trace` with start level `skip`.
* `shift`, `packerVal`, `idxOff_pow2`, `revOff`, `revOff_eq_bits`, `packer_closed_form`, `packer_value`,
  `packer_value_subset` : the streaming packer; arrival `k` lands rotated by the bit-reversed offset
  `Σ_{i<m} bit_i(k) · t_{lb+i}` with scale `1` and sign `+`.
* non-vacuity in `Pack.model` (`ℚ[X]/(X²+1)`).
-/

namespace Pack

open Finset

variable {M : Type*} [AddCommGroup M]

/-! ### 0. The abstract trace as a homomorphism; list bookkeeping -/

theorem traceAbs_nil (c : Contract M) (x : M) : Ks.traceAbs c [] x = x := rfl

theorem traceAbs_cons (c : Contract M) (i : ℕ) (is : List ℕ) (x : M) :
    Ks.traceAbs c (i :: is) x = Ks.traceAbs c is (P c i x) := rfl

/-- the trace over an append is a composition -/
theorem traceAbs_append (c : Contract M) (l₁ l₂ : List ℕ) (x : M) :
    Ks.traceAbs c (l₁ ++ l₂) x = Ks.traceAbs c l₂ (Ks.traceAbs c l₁ x) := by
  unfold Ks.traceAbs
  rw [List.foldl_append]

/-- `Ks.traceAbs c levels` as a bundled additive homomorphism -/
def traceHom (c : Contract M) (levels : List ℕ) : M →+ M where
  toFun := Ks.traceAbs c levels
  map_zero' := Ks.traceAbs_zero c levels
  map_add' := Ks.traceAbs_add c levels

@[simp] theorem traceHom_apply (c : Contract M) (levels : List ℕ) (x : M) :
    traceHom c levels x = Ks.traceAbs c levels x := rfl

theorem traceAbs_sum {ι : Type*} (c : Contract M) (levels : List ℕ) (S : Finset ι) (g : ι → M) :
    Ks.traceAbs c levels (∑ k ∈ S, g k) = ∑ k ∈ S, Ks.traceAbs c levels (g k) :=
  map_sum (traceHom c levels) g S

theorem traceAbs_neg (c : Contract M) (levels : List ℕ) (x : M) :
    Ks.traceAbs c levels (-x) = - Ks.traceAbs c levels x :=
  map_neg (traceHom c levels) x

/-- `List.range K = List.range L ++ [L, …, K-1]` -/
theorem range_split {L K : ℕ} (h : L ≤ K) : List.range K = List.range L ++ List.range' L (K - L) := by
  have e := @List.range'_append_1 0 L (K - L)
  rw [Nat.zero_add, Nat.add_sub_cancel' h] at e
  rw [List.range_eq_range', List.range_eq_range', e]

/-- `[skip, …, K-1] = [skip, …, j-1] ++ j :: [j+1, …, K-1]` -/
theorem range'_split {skip j K : ℕ} (h1 : skip ≤ j) (h2 : j < K) :
    List.range' skip (K - skip)
      = List.range' skip (j - skip) ++ j :: List.range' (j + 1) (K - j - 1) := by
  have e := @List.range'_append_1 skip (j - skip) (K - j - 1 + 1)
  rw [Nat.add_sub_cancel' h1, List.range'_succ] at e
  rw [e]
  congr 1
  omega

/-! ### 1. `Q` is the trace over the first `L` levels -/

theorem Q_eq_traceAbs (c : Contract M) (L : ℕ) (x : M) :
    Q c L x = Ks.traceAbs c (List.range L) x := by
  induction L with
  | zero => rfl
  | succ L ih =>
    rw [Q_succ, ih, List.range_succ, traceAbs_append]
    rfl

/-- the full projector splits into the packing levels followed by the trace levels -/
theorem full_split (c : Contract M) {L K : ℕ} (h : L ≤ K) (x : M) :
    Ks.traceAbs c (List.range K) x = Ks.traceAbs c (List.range' L (K - L)) (Q c L x) := by
  rw [range_split h, traceAbs_append, Q_eq_traceAbs]

/-! ### 2. `glwe_pack` : packing levels followed by the trace, any subset of slots -/

/-- the trace over levels `≥ L` commutes with the rotations accumulated over the levels `< L` -/
theorem traceAbs_rot_rotOff (c : Contract M) (L : ℕ) (levels : List ℕ) (h : ∀ i ∈ levels, L ≤ i)
    (m : ℕ) (y : M) :
    Ks.traceAbs c levels (c.rot (rotOff c L m) y)
      = c.rot (rotOff c L m) (Ks.traceAbs c levels y) := by
  induction levels generalizing y with
  | nil => rfl
  | cons i is ih =>
    rw [traceAbs_cons, traceAbs_cons, P_rot_rotOff c (h i List.mem_cons_self),
      ih (fun j hj => h j (List.mem_cons_of_mem _ hj))]

/-- `L` packing levels followed by the trace over the levels `L … K-1`, read at slot `j`: the input slot
`j + idxOff s L m` contributes its **fully projected** phase, rotated by `rotOff c L m`. -/
theorem pack_closed_form_at (c : Contract M) (s : ℕ → ℕ) (f : ℕ → M) {L K : ℕ} (hLK : L ≤ K) (j : ℕ) :
    Ks.traceAbs c (List.range' L (K - L)) (after c s f L j)
      = ∑ m ∈ range (2 ^ L),
          c.rot (rotOff c L m) (Ks.traceAbs c (List.range K) (f (j + idxOff s L m))) := by
  rw [after_closed_form, traceAbs_sum]
  refine sum_congr rfl fun m _ => ?_
  rw [traceAbs_rot_rotOff c L _ (fun i hi => (List.mem_range'_1.mp hi).1), full_split c hLK]

/-- `glwe_pack` (output = slot `0`). -/
theorem pack_closed_form (c : Contract M) (s : ℕ → ℕ) (f : ℕ → M) {L K : ℕ} (hLK : L ≤ K) :
    Ks.traceAbs c (List.range' L (K - L)) (after c s f L 0)
      = ∑ m ∈ range (2 ^ L),
          c.rot (rotOff c L m) (Ks.traceAbs c (List.range K) (f (idxOff s L m))) := by
  rw [pack_closed_form_at c s f hLK 0]
  refine sum_congr rfl fun m _ => ?_
  rw [Nat.zero_add]

/-- the full projector keeps exactly the slot part of `u + w` when `u` is fixed by all the levels and the
projectors kill `w` -/
theorem full_of_decomp (c : Contract M) (levels : List ℕ) (u w : M)
    (hu : ∀ i ∈ levels, c.sig i u = u) (hw : Ks.traceAbs c levels w = 0) :
    Ks.traceAbs c levels (u + w) = u := by
  rw [Ks.traceAbs_add, Ks.traceAbs_fixed c levels u hu, hw, add_zero]

/-- an absent input (`0`) has slot part `0` -/
theorem full_of_absent (c : Contract M) (levels : List ℕ) : Ks.traceAbs c levels (0 : M) = 0 :=
  Ks.traceAbs_zero c levels

/-- **`glwe_pack`, value statement.**  If the full projector maps the phase of input `J` to its slot part `u J`
(absent inputs: `f J = 0`, `u J = 0`), the output is `∑ m, X^{rotOff c L m} · u (idxOff s L m)`: every slot
lands with scale `1` and sign `+`, and nothing else survives. -/
theorem pack_value (c : Contract M) (s : ℕ → ℕ) (f u : ℕ → M) {L K : ℕ} (hLK : L ≤ K)
    (hfull : ∀ J, Ks.traceAbs c (List.range K) (f J) = u J) :
    Ks.traceAbs c (List.range' L (K - L)) (after c s f L 0)
      = ∑ m ∈ range (2 ^ L), c.rot (rotOff c L m) (u (idxOff s L m)) := by
  rw [pack_closed_form c s f hLK]
  refine sum_congr rfl fun m _ => ?_
  rw [hfull]

/-- `rotOff_eq_idxOff` using only the levels `< L` (a model of a ring of degree `2^K` may be degenerate at the
levels `≥ K`): if index distance `=` rotation amount at every level `< L`, the accumulated rotation is the
accumulated slot offset. -/
theorem rotOff_eq_idxOff_of_lt (c : Contract M) (s : ℕ → ℕ) {L : ℕ} (hs : ∀ i, i < L → (s i : ℤ) = c.t i)
    (m : ℕ) : rotOff c L m = (idxOff s L m : ℤ) := by
  induction L generalizing m with
  | zero => simp
  | succ L ih =>
    rw [rotOff_succ, idxOff_succ, ih (fun i hi => hs i (Nat.lt_succ_of_lt hi)), Nat.cast_add, Nat.cast_mul,
      hs L (Nat.lt_succ_self L)]

/-- **`glwe_pack` with poulpy's parameters** (`s i = t i = N / 2^{i+1}`, needed only at the packing levels
`i < L`): slot `J = idxOff s L m` contributes `X^J · u J`. -/
theorem pack_value_poulpy (c : Contract M) (s : ℕ → ℕ) (f u : ℕ → M) {L K : ℕ} (hLK : L ≤ K)
    (hs : ∀ i, i < L → (s i : ℤ) = c.t i)
    (hfull : ∀ J, Ks.traceAbs c (List.range K) (f J) = u J) :
    Ks.traceAbs c (List.range' L (K - L)) (after c s f L 0)
      = ∑ m ∈ range (2 ^ L), c.rot (idxOff s L m : ℤ) (u (idxOff s L m)) := by
  rw [pack_value c s f u hLK hfull]
  refine sum_congr rfl fun m _ => ?_
  rw [rotOff_eq_idxOff_of_lt c s hs]

/-- **subset form**: only the present slot numbers `m ∈ S` contribute. -/
theorem pack_value_subset (c : Contract M) (s : ℕ → ℕ) (f u : ℕ → M) {L K : ℕ} (hLK : L ≤ K)
    (hs : ∀ i, i < L → (s i : ℤ) = c.t i)
    (hfull : ∀ J, Ks.traceAbs c (List.range K) (f J) = u J)
    (S : Finset ℕ) (hS : S ⊆ range (2 ^ L))
    (habs : ∀ m ∈ range (2 ^ L), m ∉ S → u (idxOff s L m) = 0) :
    Ks.traceAbs c (List.range' L (K - L)) (after c s f L 0)
      = ∑ m ∈ S, c.rot (idxOff s L m : ℤ) (u (idxOff s L m)) := by
  rw [pack_value_poulpy c s f u hLK hs hfull]
  refine (sum_subset hS fun m hm hmS => ?_).symm
  rw [habs m hm hmS, map_zero]

/-- **`glwe_pack`, decomposed inputs**: `f J = u J + w J`, `u J` fixed by every level `< K`, `w J` killed by the
full projector; any subset (absent: `u J = w J = 0`). -/
theorem pack_value_decomp (c : Contract M) (s : ℕ → ℕ) (f u w : ℕ → M) {L K : ℕ} (hLK : L ≤ K)
    (hs : ∀ i, i < L → (s i : ℤ) = c.t i)
    (hf : ∀ J, f J = u J + w J)
    (hu : ∀ J i, i < K → c.sig i (u J) = u J)
    (hw : ∀ J, Ks.traceAbs c (List.range K) (w J) = 0) :
    Ks.traceAbs c (List.range' L (K - L)) (after c s f L 0)
      = ∑ m ∈ range (2 ^ L), c.rot (idxOff s L m : ℤ) (u (idxOff s L m)) := by
  refine pack_value_poulpy c s f u hLK hs fun J => ?_
  rw [hf J]
  exact full_of_decomp c _ _ _ (fun i hi => hu J i (List.mem_range.mp hi)) (hw J)

/-- subset form of `pack_value_decomp` -/
theorem pack_value_decomp_subset (c : Contract M) (s : ℕ → ℕ) (f u w : ℕ → M) {L K : ℕ} (hLK : L ≤ K)
    (hs : ∀ i, i < L → (s i : ℤ) = c.t i)
    (hf : ∀ J, f J = u J + w J)
    (hu : ∀ J i, i < K → c.sig i (u J) = u J)
    (hw : ∀ J, Ks.traceAbs c (List.range K) (w J) = 0)
    (S : Finset ℕ) (hS : S ⊆ range (2 ^ L))
    (habs : ∀ m ∈ range (2 ^ L), m ∉ S → u (idxOff s L m) = 0) :
    Ks.traceAbs c (List.range' L (K - L)) (after c s f L 0)
      = ∑ m ∈ S, c.rot (idxOff s L m : ℤ) (u (idxOff s L m)) := by
  refine pack_value_subset c s f u hLK hs (fun J => ?_) S hS habs
  rw [hf J]
  exact full_of_decomp c _ _ _ (fun i hi => hu J i (List.mem_range.mp hi)) (hw J)

/-! ### 3. `glwe_trace` with start level `skip` -/

/-- **`glwe_trace(skip)`, value statement**: `u` fixed by the levels `skip ≤ i < K`, every `w ∈ ws` killed by
that level list ⇒ the trace of `u + Σ ws` is `u`. -/
theorem trace_value (c : Contract M) (skip K : ℕ) (u : M) (ws : List M)
    (hu : ∀ i, skip ≤ i → i < K → c.sig i u = u)
    (hw : ∀ w ∈ ws, Ks.traceAbs c (List.range' skip (K - skip)) w = 0) :
    Ks.traceAbs c (List.range' skip (K - skip)) (u + ws.sum) = u := by
  refine Ks.traceAbs_decomp c _ u ws (fun i hi => ?_) hw
  have h := List.mem_range'_1.mp hi
  exact hu i h.1 (by omega)

/-- killing criterion: `w` fixed by the levels `skip ≤ i < j` and negated at level `j` (`skip ≤ j < K`) is
killed by the trace over `skip … K-1`. -/
theorem trace_killed (c : Contract M) {skip j K : ℕ} (h1 : skip ≤ j) (h2 : j < K) (w : M)
    (hpre : ∀ i, skip ≤ i → i < j → c.sig i w = w) (hj : c.sig j w = -w) :
    Ks.traceAbs c (List.range' skip (K - skip)) w = 0 := by
  rw [range'_split h1 h2]
  refine Ks.traceAbs_killed c _ j _ w (fun i hi => ?_) hj
  have h := List.mem_range'_1.mp hi
  exact hpre i h.1 (by omega)

/-- `trace_value` with the killing criterion built in: each `w ∈ ws` comes with a level `skip ≤ j < K` at which
it is negated, being fixed before. -/
theorem trace_value_of_negated (c : Contract M) (skip K : ℕ) (u : M) (ws : List M)
    (hu : ∀ i, skip ≤ i → i < K → c.sig i u = u)
    (hw : ∀ w ∈ ws, ∃ j, skip ≤ j ∧ j < K ∧ (∀ i, skip ≤ i → i < j → c.sig i w = w) ∧ c.sig j w = -w) :
    Ks.traceAbs c (List.range' skip (K - skip)) (u + ws.sum) = u := by
  refine trace_value c skip K u ws hu fun w hwm => ?_
  obtain ⟨j, h1, h2, hpre, hj⟩ := hw w hwm
  exact trace_killed c h1 h2 w hpre hj

/-! ### 4. The streaming packer -/

/-- the contract seen from level `lb` on: level `i` of the shifted contract is level `lb + i` -/
def shift (c : Contract M) (lb : ℕ) : Contract M where
  rot := c.rot
  half := c.half
  sig i := c.sig (lb + i)
  t i := c.t (lb + i)
  rot_zero := c.rot_zero
  rot_add := c.rot_add
  half_add_half := c.half_add_half
  half_rot := c.half_rot
  half_sig i := c.half_sig (lb + i)
  sig_rot_self i := c.sig_rot_self (lb + i)
  sig_rot_lt i j h := c.sig_rot_lt (lb + i) (lb + j) (Nat.add_lt_add_left h lb)

@[simp] theorem shift_rot (c : Contract M) (lb : ℕ) : (shift c lb).rot = c.rot := rfl
@[simp] theorem shift_half (c : Contract M) (lb : ℕ) : (shift c lb).half = c.half := rfl
@[simp] theorem shift_sig (c : Contract M) (lb i : ℕ) : (shift c lb).sig i = c.sig (lb + i) := rfl
@[simp] theorem shift_t (c : Contract M) (lb i : ℕ) : (shift c lb).t i = c.t (lb + i) := rfl

theorem P_shift (c : Contract M) (lb i : ℕ) (x : M) : P (shift c lb) i x = P c (lb + i) x := rfl

/-- the projectors of the shifted contract are the trace over the levels `lb … lb+m-1` -/
theorem Q_shift (c : Contract M) (lb m : ℕ) (x : M) :
    Q (shift c lb) m x = Ks.traceAbs c (List.range' lb m) x := by
  induction m with
  | zero => rfl
  | succ m ih =>
    rw [Q_succ, ih, P_shift, List.range'_concat, traceAbs_append, Nat.one_mul]
    rfl

/-- **the stream value** after `2^m` arrivals `g 0, g 1, …` (absent = `0`) entering at level `lb`: at the
`i`-th packer level (ring level `lb + i`) the operands are `2^i` arrivals apart, the later one is the upper
operand. -/
def packerVal (c : Contract M) (lb : ℕ) (g : ℕ → M) (m : ℕ) : M :=
  after (shift c lb) (fun i => 2 ^ i) g m 0

/-- the recursion of the stream value, spelled out: two consecutive blocks of `2^m` arrivals are merged at ring
level `lb + m`, the later block being the upper operand -/
theorem packerVal_succ (c : Contract M) (lb : ℕ) (g : ℕ → M) (m : ℕ) :
    packerVal c lb g (m + 1)
      = merge c (lb + m) (packerVal c lb g m)
          (after (shift c lb) (fun i => 2 ^ i) g m (2 ^ m)) := by
  unfold packerVal
  rw [after_succ, Nat.zero_add]
  rfl

/-- with index distance `2^i` at level `i` the accumulated index offset of `k` is `k` itself -/
theorem idxOff_pow2 {m k : ℕ} (h : k < 2 ^ m) : idxOff (fun i => 2 ^ i) m k = k := by
  induction m generalizing k with
  | zero =>
    rw [idxOff_zero]
    rw [pow_zero] at h
    omega
  | succ m ih =>
    have hpos : 0 < 2 ^ m := Nat.pos_of_ne_zero (by positivity)
    rw [idxOff_succ, ih (Nat.mod_lt k hpos)]
    exact Nat.mod_add_div' k (2 ^ m)

/-- the bit-reversed placement: bit `i` of the arrival index selects `t_{lb+i}` -/
def revOff (c : Contract M) (lb m k : ℕ) : ℤ := rotOff (shift c lb) m k

@[simp] theorem revOff_zero (c : Contract M) (lb k : ℕ) : revOff c lb 0 k = 0 := rfl

theorem revOff_succ (c : Contract M) (lb m k : ℕ) :
    revOff c lb (m + 1) k = revOff c lb m (k % 2 ^ m) + ((k / 2 ^ m : ℕ) : ℤ) * c.t (lb + m) := rfl

/-- `revOff c lb m k = Σ_{i<m} bit_i(k) · t_{lb+i}` -/
theorem revOff_eq_bits (c : Contract M) (lb : ℕ) {m k : ℕ} (h : k < 2 ^ m) :
    revOff c lb m k = ∑ i ∈ range m, ((k / 2 ^ i % 2 : ℕ) : ℤ) * c.t (lb + i) := by
  induction m generalizing k with
  | zero => simp
  | succ m ih =>
    have hpos : 0 < 2 ^ m := Nat.pos_of_ne_zero (by positivity)
    have hq : k / 2 ^ m < 2 := by
      rw [Nat.div_lt_iff_lt_mul hpos, Nat.mul_comm, ← pow_succ]
      exact h
    rw [revOff_succ, ih (Nat.mod_lt k hpos), sum_range_succ, Nat.mod_eq_of_lt hq]
    congr 1
    refine sum_congr rfl fun i hi => ?_
    have him : i < m := mem_range.mp hi
    have e : 2 ^ m = 2 ^ i * 2 ^ (m - i) := by
      rw [← pow_add, Nat.add_sub_cancel' (Nat.le_of_lt him)]
    have hd : 2 ∣ 2 ^ (m - i) := dvd_pow_self 2 (by omega)
    rw [e, Nat.mod_mul_right_div_self, Nat.mod_mod_of_dvd _ hd]

/-- **streaming packer, closed form**: arrival `k` contributes its phase projected by the levels
`lb … lb+m-1`, rotated by the bit-reversed offset. -/
theorem packer_closed_form (c : Contract M) (lb : ℕ) (g : ℕ → M) (m : ℕ) :
    packerVal c lb g m
      = ∑ k ∈ range (2 ^ m), c.rot (revOff c lb m k) (Q (shift c lb) m (g k)) := by
  unfold packerVal
  rw [after_closed_form]
  refine sum_congr rfl fun k hk => ?_
  rw [Nat.zero_add, idxOff_pow2 (mem_range.mp hk)]
  rfl

/-- the same with the projectors written as a trace over the ring levels `lb … lb+m-1` -/
theorem packer_closed_form_trace (c : Contract M) (lb : ℕ) (g : ℕ → M) (m : ℕ) :
    packerVal c lb g m
      = ∑ k ∈ range (2 ^ m), c.rot (revOff c lb m k) (Ks.traceAbs c (List.range' lb m) (g k)) := by
  rw [packer_closed_form]
  refine sum_congr rfl fun k _ => ?_
  rw [Q_shift]

/-- **streaming packer, value statement**: if the projectors of the levels `lb … lb+m-1` map the phase of
arrival `k` to its slot part `u k` (absent: `g k = 0`, `u k = 0`), arrival `k` lands rotated by the bit-reversed
offset with scale `1` and sign `+`, for every subset of arrivals. -/
theorem packer_value (c : Contract M) (lb : ℕ) (g u : ℕ → M) (m : ℕ)
    (hQ : ∀ k, Q (shift c lb) m (g k) = u k) :
    packerVal c lb g m = ∑ k ∈ range (2 ^ m), c.rot (revOff c lb m k) (u k) := by
  rw [packer_closed_form]
  refine sum_congr rfl fun k _ => ?_
  rw [hQ]

/-- subset form: only the present arrivals `k ∈ S` contribute -/
theorem packer_value_subset (c : Contract M) (lb : ℕ) (g u : ℕ → M) (m : ℕ)
    (hQ : ∀ k, Q (shift c lb) m (g k) = u k)
    (S : Finset ℕ) (hS : S ⊆ range (2 ^ m)) (habs : ∀ k ∈ range (2 ^ m), k ∉ S → u k = 0) :
    packerVal c lb g m = ∑ k ∈ S, c.rot (revOff c lb m k) (u k) := by
  rw [packer_value c lb g u m hQ]
  refine (sum_subset hS fun k hk hkS => ?_).symm
  rw [habs k hk hkS, map_zero]

/-- decomposed arrivals: `g k = u k + w k`, `u k` fixed by the levels `lb ≤ i < lb + m`, `w k` killed by them -/
theorem packer_value_decomp (c : Contract M) (lb : ℕ) (g u w : ℕ → M) (m : ℕ)
    (hg : ∀ k, g k = u k + w k)
    (hu : ∀ k i, lb ≤ i → i < lb + m → c.sig i (u k) = u k)
    (hw : ∀ k, Ks.traceAbs c (List.range' lb m) (w k) = 0) :
    packerVal c lb g m = ∑ k ∈ range (2 ^ m), c.rot (revOff c lb m k) (u k) := by
  refine packer_value c lb g u m fun k => ?_
  rw [Q_shift, hg k]
  refine full_of_decomp c _ _ _ (fun i hi => ?_) (hw k)
  have h := List.mem_range'_1.mp hi
  exact hu k i h.1 h.2

/-! ### 5. Non-vacuity in `Pack.model` (`ℚ[X]/(X²+1)`, one level, `N = 2`, `K = 1`)

Input `J` has phase `(x J, x' J) = x J + x' J · X`; slot part `u J = (x J, 0)` (fixed by `σ_{-1}`), garbage
`w J = (0, x' J)` (negated by `σ_{-1}`, hence killed by the level-`0` projector). -/

theorem model_sig0_u (a : ℚ) : model.sig 0 ((a, 0) : ℚ × ℚ) = (a, 0) := by
  ext <;> simp [model]

theorem model_sig0_w (a' : ℚ) : model.sig 0 ((0, a') : ℚ × ℚ) = -(0, a') := by
  ext <;> simp [model]

/-- the garbage is killed by the full projector, through the killing criterion `trace_killed` -/
theorem model_w_killed (a' : ℚ) : Ks.traceAbs model (List.range 1) ((0, a') : ℚ × ℚ) = 0 := by
  have h := trace_killed model (skip := 0) (j := 0) (K := 1) le_rfl Nat.one_pos ((0, a') : ℚ × ℚ)
    (fun i _ hi => absurd hi (Nat.not_lt_zero i)) (model_sig0_w a')
  exact h

/-- `pack_value` in the model with `L = 1`, `K = 1`: inputs `x 0 + x' 0 · X` and `x 1 + x' 1 · X` give
`x 0 + x 1 · X`. -/
theorem model_pack_value (x x' : ℕ → ℚ) :
    Ks.traceAbs model (List.range' 1 (1 - 1)) (after model (fun _ => 1) (fun J => (x J, x' J)) 1 0)
      = (x 0, x 1) := by
  rw [pack_value_decomp model (fun _ => 1) (fun J => (x J, x' J)) (fun J => (x J, 0)) (fun J => (0, x' J))
    (L := 1) (K := 1) le_rfl
    (fun i hi => by
      have : i = 0 := by omega
      subst this
      rfl)
    (fun J => by ext <;> simp)
    (fun J i hi => by
      have : i = 0 := by omega
      subst this
      exact model_sig0_u (x J))
    (fun J => model_w_killed (x' J))]
  simp only [sum_range_succ, sum_range_zero, idxOff_succ, idxOff_zero, pow_one]
  norm_num
  ext <;> simp [model]

/-- both slots present: `f 0 = (a, a')`, `f 1 = (b, b')` ⇒ `(a, b)` -/
example (a a' b b' : ℚ) :
    Ks.traceAbs model (List.range' 1 (1 - 1))
        (after model (fun _ => 1)
          (fun J => ((if J = 0 then a else if J = 1 then b else 0), (if J = 0 then a' else if J = 1 then b' else 0)))
          1 0)
      = (a, b) := by
  rw [model_pack_value]
  simp

/-- subset `{0}`: slot `1` absent (phase `0`) ⇒ `(a, 0)` -/
example (a a' : ℚ) :
    Ks.traceAbs model (List.range' 1 (1 - 1))
        (after model (fun _ => 1) (fun J => if J = 0 then ((a, a') : ℚ × ℚ) else 0) 1 0)
      = (a, 0) := by
  have e : (fun J => if J = 0 then ((a, a') : ℚ × ℚ) else 0)
      = fun J : ℕ => ((if J = 0 then a else 0), (if J = 0 then a' else 0)) := by
    funext J
    by_cases h : J = 0 <;> simp [h, Prod.zero_eq_mk]
  rw [e, model_pack_value]
  simp

/-- subset `{1}`: slot `0` absent (phase `0`) ⇒ `(0, b)` -/
example (b b' : ℚ) :
    Ks.traceAbs model (List.range' 1 (1 - 1))
        (after model (fun _ => 1) (fun J => if J = 1 then ((b, b') : ℚ × ℚ) else 0) 1 0)
      = (0, b) := by
  have e : (fun J => if J = 1 then ((b, b') : ℚ × ℚ) else 0)
      = fun J : ℕ => ((if J = 1 then b else 0), (if J = 1 then b' else 0)) := by
    funext J
    by_cases h : J = 1 <;> simp [h, Prod.zero_eq_mk]
  rw [e, model_pack_value]
  simp

/-- the subset form `pack_value_decomp_subset` instantiated with `S = {1}` -/
example (b b' : ℚ) :
    Ks.traceAbs model (List.range' 1 (1 - 1))
        (after model (fun _ => 1)
          (fun J => ((if J = 1 then b else 0), (if J = 1 then b' else 0))) 1 0)
      = ∑ m ∈ ({1} : Finset ℕ), model.rot (idxOff (fun _ => 1) 1 m : ℤ)
          ((fun J => ((if J = 1 then b else 0), (0 : ℚ))) (idxOff (fun _ => 1) 1 m)) := by
  refine pack_value_decomp_subset model (fun _ => 1) _ (fun J => ((if J = 1 then b else 0), (0 : ℚ)))
    (fun J => ((0 : ℚ), (if J = 1 then b' else 0))) (L := 1) (K := 1) le_rfl
    (fun i hi => by
      have : i = 0 := by omega
      subst this
      rfl)
    (fun J => by ext <;> simp)
    (fun J i hi => by
      have : i = 0 := by omega
      subst this
      exact model_sig0_u _)
    (fun J => model_w_killed _) {1} (by decide) (fun m hm hmS => ?_)
  have hm' : m < 2 := by simpa using hm
  have h0 : m = 0 := by
    have : m ≠ 1 := by simpa using hmS
    omega
  subst h0
  simp [idxOff_succ]

/-- the streaming packer in the model (`lb = 0`, one level, two arrivals): `(x 0, x 1)` -/
theorem model_packer_value (x x' : ℕ → ℚ) :
    packerVal model 0 (fun k => (x k, x' k)) 1 = (x 0, x 1) := by
  rw [packer_value_decomp model 0 (fun k => (x k, x' k)) (fun k => (x k, 0)) (fun k => (0, x' k)) 1
    (fun k => by ext <;> simp)
    (fun k i _ hi => by
      have : i = 0 := by omega
      subst this
      exact model_sig0_u (x k))
    (fun k => model_w_killed (x' k))]
  simp only [sum_range_succ, sum_range_zero, revOff_succ, revOff_zero, pow_one]
  norm_num
  ext <;> simp [model]

end Pack
