/-
Helper lemmas for C01: phase identity of `lwe_encrypt_sk`.
-/
import Poulpy.Lemmas.CoreEncDec

namespace CoreEnc
open NormL

/-- exact inner product `Σ xⱼ·yⱼ` over `zip` -/
def dotZ (x y : List Int) : Int := (List.zipWith (· * ·) x y).foldl (· + ·) 0

theorem dotW_eq (x y : List Int) : Core.dotW x y = w64 (dotZ x y) := rfl

/-- exact LWE phase, limb by limb: `body + ⟨mask, s⟩` (what `lwe_decrypt` accumulates before normalising) -/
def lwePhaseBig (ct : Col) (sk : Poly) : List Int := ct.map (fun l => l.getD 0 0 + dotZ (l.drop 1) sk)

/-- the plaintext limbs truncated / zero-extended to the ciphertext size -/
def lweMsg (size : Nat) (pt : List Int) : List Int := (List.range size).map (fun i => pt.getD i 0)

theorem valI_map_range_add (b size : Nat) (f g : Nat → Int) :
    valI b ((List.range size).map (fun i => f i + g i)) = valI b ((List.range size).map f) + valI b ((List.range size).map g) := by
  have : (List.range size).map (fun i => f i + g i) = List.zipWith (· + ·) ((List.range size).map f) ((List.range size).map g) := by
    apply List.ext_getElem
    · simp
    · intro j h1 h2; simp
  rw [this, valI_zipWith_add b _ _ (by simp)]

theorem valI_map_range_sub (b size : Nat) (f g : Nat → Int) :
    valI b ((List.range size).map (fun i => f i - g i)) = valI b ((List.range size).map f) - valI b ((List.range size).map g) := by
  have : (List.range size).map (fun i => f i - g i) = List.zipWith (· - ·) ((List.range size).map f) ((List.range size).map g) := by
    apply List.ext_getElem
    · simp
    · intro j h1 h2; simp
  rw [this, valI_zipWith_sub b _ _ (by simp)]

section lwe
variable {b size kxe : Nat} {P D E : Int}

/-- **phase identity of `lwe_encrypt_sk`**: the limb-wise exact phase of the produced ciphertext equals the
message (truncated / zero-extended to the ciphertext size) plus the error on limb `⌈kxe/b⌉−1`, modulo
`2^(b·size)`; the mask coefficients are those of the filled buffer. -/
theorem lweEncryptSk_phase (hb1 : 1 ≤ b) (hb : b ≤ 61) (hk : 1 ≤ kxe) (hlimb : errLimb kxe b < size)
    (filled : Col) (hf : filled.length = size) (pt : List Int) (sk : Poly) (e : Int)
    (hP : ∀ i, |pt.getD i 0| ≤ P) (hD : ∀ l ∈ filled, |dotZ (l.drop 1) sk| ≤ D) (hE : |e| ≤ E)
    (hP0 : 0 ≤ P) (hD0 : 0 ≤ D) (hE0 : 0 ≤ E) (hsum : P + D + E ≤ 2 ^ 62) :
    ∃ ct, Core.lweEncryptSk b size kxe filled pt b sk e = some ct ∧ ct.length = size ∧
      (∀ i (h : i < ct.length) (h' : i < filled.length), (ct[i]).drop 1 = (filled[i]).drop 1) ∧
      ∃ K : Int, valI b (lwePhaseBig ct sk) = valI b (lweMsg size pt) + e * 2 ^ (b * (size - 1 - errLimb kxe b)) + K * 2 ^ (b * size) := by
  have hr := headRoom64 hb1 hb
  have hDi : ∀ i, |dotZ ((filled.getD i []).drop 1) sk| ≤ D := by
    intro i
    rw [List.getD_eq_getElem?_getD]
    by_cases h : i < filled.length
    · simp only [List.getElem?_eq_getElem h, Option.getD_some]; exact hD _ (List.getElem_mem h)
    · simp [List.getElem?_eq_none (Nat.le_of_not_lt h), dotZ, hD0]
  -- the temporary column: one coefficient per limb
  set tmpL : List Int := (List.range size).map (fun i => pt.getD i 0 - dotZ ((filled.getD i []).drop 1) sk) with htmpL
  have htmp : (List.range size).map (fun i =>
      (if i < min size pt.length then [w64 (pt.getD i 0 - Core.dotW ((filled.getD i []).drop 1) sk)]
        else [w64 (0 - Core.dotW ((filled.getD i []).drop 1) sk)] : Poly)) = tmpL.map (fun x => [x]) := by
    rw [htmpL, List.map_map]
    apply List.map_congr_left
    intro i hi
    have hi' : i < size := List.mem_range.mp hi
    have hd := hDi i
    have hdw : Core.dotW ((filled.getD i []).drop 1) sk = dotZ ((filled.getD i []).drop 1) sk := by
      rw [dotW_eq]; exact w64_id (by nlinarith [two_pow_pos 62])
    have hp := hP i
    have hnw : w64 (pt.getD i 0 - dotZ ((filled.getD i []).drop 1) sk) = pt.getD i 0 - dotZ ((filled.getD i []).drop 1) sk := by
      apply w64_id
      have := abs_sub (pt.getD i 0) (dotZ ((filled.getD i []).drop 1) sk)
      nlinarith [two_pow_pos 62]
    simp only [Function.comp, hdw]
    by_cases hlt : i < min size pt.length
    · rw [if_pos hlt, hnw]
    · rw [if_neg hlt]
      have hge : pt.length ≤ i := by omega
      have h0 : pt.getD i 0 = 0 := by rw [List.getD_eq_getElem?_getD, List.getElem?_eq_none hge]; rfl
      rw [h0] at hnw ⊢
      rw [hnw]
  set tmp : Col := tmpL.map (fun x => [x]) with htmpc
  have htmpwf : WF 1 tmp := by intro l hl; simp [htmpc] at hl; obtain ⟨_, _, rfl⟩ := hl; rfl
  have htmplen : tmp.length = size := by simp [htmpc, htmpL]
  have hcoef : coefAt tmp 0 = tmpL := by
    rw [htmpc]; unfold coefAt; rw [List.map_map]
    have : ((fun p : Poly => p.getD 0 0) ∘ fun x : Int => [x]) = id := by funext x; simp
    rw [this, List.map_id]
  have htmpB : ∀ v ∈ tmpL, |v| ≤ P + D := by
    intro v hv
    simp only [htmpL, List.mem_map, List.mem_range] at hv
    obtain ⟨i, _, rfl⟩ := hv
    have := abs_sub (pt.getD i 0) (dotZ ((filled.getD i []).drop 1) sk)
    have := hP i
    have := hDi i
    linarith
  -- error placement
  have htl : Sampling.targetLimbAndScale kxe b = some (errLimb kxe b, (errLimb kxe b + 1) * b - kxe) := by
    unfold Sampling.targetLimbAndScale errLimb; rw [if_neg (by omega)]
  set t1 := tmp.mapIdx (fun j l => if j = errLimb kxe b then List.zipWith (fun x y => w64 (x + y)) l [e] else l) with ht1
  have hadd : Sampling.addNormalCol w64 kxe b tmp [e] = some t1 := by
    unfold Sampling.addNormalCol
    simp only [htl]
    rw [if_pos (by rw [htmplen]; exact hlimb)]
  have ht1wf : WF 1 t1 := mapIdx_length_WF _ _ tmp [e] htmpwf rfl
  have ht1len : t1.length = size := by simp [ht1, htmplen]
  have ht1coef : coefAt t1 0 = tmpL.mapIdx (fun j x => if j = errLimb kxe b then x + e else x) := by
    rw [ht1, coefAt_addNormal _ _ tmp [e] htmpwf rfl 0 (by norm_num), hcoef]
    exact mapIdx_wrap_eq (B := P + D) (E := E) (by nlinarith [two_pow_pos 62]) _ _ _ htmpB (by simpa using hE)
  have ht1B : ∀ v ∈ coefAt t1 0, |v| ≤ 2 ^ 62 := by
    intro v hv
    rw [ht1coef] at hv
    have := mapIdx_bound hE0 _ _ _ htmpB hE v hv
    linarith
  -- normalisation in place
  have hnorm : coefAt (normalizeAssignCol b t1 1) 0 = finalTopRun 64 b 0 (coefAt t1 0) 0 := by
    unfold normalizeAssignCol
    rw [coefAt_mapCoefs 1 t1.length _ 0 (by norm_num)]
    · unfold normalizeAssignCoef; exact assignRun_eq hr _ ht1B
    · unfold normalizeAssignCoef
      rw [assignRun_eq hr _ ht1B, (finalTopRun_spec hr _ ht1B 0 (by norm_num)).2.1, coefAt_length]
  obtain ⟨⟨q, hq⟩, hlenf, _⟩ := finalTopRun_spec hr (coefAt t1 0) ht1B 0 (by norm_num)
  -- assemble
  unfold Core.lweEncryptSk
  simp only [ne_eq, not_true_eq_false, if_false, htmp, hadd]
  set t2 := normalizeAssignCol b t1 1 with ht2
  refine ⟨_, rfl, by simp, ?_, ?_⟩
  · intro i h h'
    simp only [List.length_map, List.length_range] at h
    simp [List.getD_eq_getElem?_getD, List.getElem?_eq_getElem h']
  · have hbl : (coefAt t2 0).length = size := by rw [hnorm, hlenf, coefAt_length, ht1len]
    have hphase : lwePhaseBig ((List.range size).map (fun i => ((t2.getD i []).getD 0 0) :: (filled.getD i []).drop 1)) sk
        = (List.range size).map (fun i => (coefAt t2 0).getD i 0 + dotZ ((filled.getD i []).drop 1) sk) := by
      unfold lwePhaseBig
      rw [List.map_map]
      apply List.map_congr_left
      intro i _
      simp only [Function.comp, List.getD_cons_zero, List.drop_succ_cons, List.drop_zero]
      congr 1
      simp only [coefAt, List.getD_eq_getElem?_getD, List.getElem?_map]
      cases t2[i]? <;> simp
    have hbody_id : (List.range size).map (fun i => (coefAt t2 0).getD i 0) = coefAt t2 0 := by
      apply List.ext_getElem
      · simp [hbl]
      · intro j h1 h2
        simp [List.getD_eq_getElem?_getD, List.getElem?_eq_getElem h2]
    rw [hphase, valI_map_range_add, hbody_id, hnorm]
    have hv1 : valI b (coefAt t1 0) = valI b tmpL + e * 2 ^ (b * (size - 1 - errLimb kxe b)) := by
      rw [ht1coef, valI_mapIdx_add b _ _ _ (by simp [htmpL]; exact hlimb)]
      simp [htmpL]
    have hv2 : valI b tmpL = valI b (lweMsg size pt) - valI b ((List.range size).map (fun i => dotZ ((filled.getD i []).drop 1) sk)) := by
      rw [htmpL, valI_map_range_sub]; rfl
    refine ⟨-q, ?_⟩
    have hq' : valI b (finalTopRun 64 b 0 (coefAt t1 0) 0) = valI b (coefAt t1 0) - q * 2 ^ (b * size) := by
      have : (coefAt t1 0).length = size := by rw [coefAt_length, ht1len]
      rw [this] at hq
      linarith
    rw [hq', hv1, hv2]
    ring

end lwe

end CoreEnc
