import Poulpy.Lemmas.Fft64Gen
import Poulpy.Lemmas.F64Mono

open Complex

namespace Fft64Avx
open F64 Fft64

theorem decode_magic (t : Nat) (ht : t < 2 ^ 52) : decode (t + 0x4330000000000000) = some ⟨false, t + 2 ^ 52, 0⟩ := by
  rw [decode_eq]
  have e1 : (t + 0x4330000000000000) / 2 ^ 52 % 2048 = 1075 := by omega
  have e2 : (t + 0x4330000000000000) % 2 ^ 52 = t := by omega
  have e3 : ¬ ((t + 0x4330000000000000) / 2 ^ 63 % 2 = 1) := by omega
  rw [e1, e2]; unfold decodeF; simp; omega

theorem add_same_exp (pa pb : Nat) (x y : Dy) (hx : decode pa = some x) (hy : decode pb = some y) (he : x.e = y.e)
    (hxm : x.m ≠ 0) (hym : y.m ≠ 0) :
    add pa pb = (if x.toInt + y.toInt = 0 then 0 else F64.round ⟨decide (x.toInt + y.toInt < 0), (x.toInt + y.toInt).natAbs, x.e⟩) := by
  unfold add; rw [hx, hy]; simp only
  rw [if_neg (fun h => hxm h.1), if_neg hxm, if_neg hym, ← he]
  simp only [min_self, sub_self, Int.toNat_zero, pow_zero, mul_one]

/-- **the magic-constant conversion is `as f64`**, bit for bit, inside the asserted range -/
theorem fromLaneAvx_eq (x : Int) (hx : x.natAbs ≤ 2 ^ 50 - 1) : fromLaneAvx x = ofInt x := by
  obtain ⟨t, ht⟩ : ∃ t : Nat, (t : Int) = x + 2 ^ 51 := ⟨(x + 2 ^ 51).toNat, by omega⟩
  have ht' : (x + 2 ^ 51).toNat = t := by omega
  have htlt : t < 2 ^ 52 := by omega
  have hp := decode_magic t htlt
  have hq : decode 0x4338000000000000 = some ⟨false, 2 ^ 52 + 2 ^ 51, 0⟩ := by decide +kernel
  have hnq : decode (neg 0x4338000000000000) = some ⟨true, 2 ^ 52 + 2 ^ 51, 0⟩ := decode_neg hq
  unfold fromLaneAvx sub
  rw [ht', add_same_exp _ _ _ _ hp hnq rfl (by show t + 2 ^ 52 ≠ 0; omega) (by show 2 ^ 52 + 2 ^ 51 ≠ 0; omega)]
  have hs : (Dy.mk false (t + 2 ^ 52) 0).toInt + (Dy.mk true (2 ^ 52 + 2 ^ 51) 0).toInt = x := by
    simp only [Dy.toInt, Bool.false_eq_true, if_false, if_true]; push_cast; omega
  rw [hs]
  unfold ofInt
  by_cases h0 : x = 0
  · subst h0; simp [F64.round, roundMag, pack]
  · rw [if_neg h0]

theorem fromLaneAvx_spec (x : Int) (hx : x.natAbs ≤ 2 ^ 50 - 1) : Fin64 (fromLaneAvx x) ∧ val (fromLaneAvx x) = (x:ℝ) := by
  rw [fromLaneAvx_eq x hx]
  have big : |(x:ℝ)| < (2:ℝ) ^ (1023:Int) := by
    have h1 : |(x:ℝ)| = ((x.natAbs : Nat) : ℝ) := by rw [← Int.cast_abs, Int.abs_eq_natAbs]; simp
    have h2 : ((x.natAbs : Nat) : ℝ) < (2:ℝ) ^ (53:Nat) := by exact_mod_cast (by omega : x.natAbs < 2 ^ 53)
    have h3 : (2:ℝ) ^ (53:Nat) ≤ (2:ℝ) ^ (1023:Int) := by rw [← zpow_natCast]; exact two_pow_le _ _ (by norm_num)
    rw [h1]; exact lt_of_lt_of_le h2 h3
  obtain ⟨f, _, e⟩ := ofInt_spec x big
  exact ⟨f, e (by omega)⟩

/-- inside the asserted range `reim_from_znx_i64_bnd50_fma` computes the same patterns as the reference conversion -/
theorem fromZnxAvx_eq (a : List Int) (ha : ∀ x ∈ a, x.natAbs ≤ 2 ^ 50 - 1) : fromZnxAvx a = .ok (fromZnx a) := by
  unfold fromZnxAvx
  have h1 : a.any (fun x => decide (2 ^ 50 - 1 < x.natAbs)) = false := by
    rw [List.any_eq_false]; intro x hx; simp; exact ha x hx
  rw [h1]; simp only [Bool.false_eq_true, if_false]
  congr 1
  have e1 : (a.take (a.length / 4 * 4)).map fromLaneAvx = (a.take (a.length / 4 * 4)).map ofInt := by
    apply List.map_congr_left; intro x hx; exact fromLaneAvx_eq x (ha x (List.mem_of_mem_take hx))
  rw [e1, ← List.map_append, List.take_append_drop]; rfl


theorem decode_off (sg : Bool) (K : Nat) (hK : K ≤ 1000) :
    decode (pack sg ((1022 + K) * 2 ^ 52)) = some ⟨sg, 2 ^ 52, (K:Int) - 53⟩ := by
  have h0 : decode ((1022 + K) * 2 ^ 52) = some ⟨false, 2 ^ 52, (K:Int) - 53⟩ := by
    rw [decode_eq]
    have e1 : (1022 + K) * 2 ^ 52 / 2 ^ 52 % 2048 = 1022 + K := by omega
    have e2 : (1022 + K) * 2 ^ 52 % 2 ^ 52 = 0 := by omega
    have e3 : ¬ ((1022 + K) * 2 ^ 52 / 2 ^ 63 % 2 = 1) := by omega
    rw [e1, e2]; unfold decodeF
    rw [if_neg (by omega), if_neg (by omega)]
    simp only [e3, decide_false, Nat.zero_add]
    congr 2; omega
  exact decode_pack sg _ _ h0 rfl

/-- the integer part computed by the exponent-difference shifts: for a normal `a'` with fields `(ef, mf)` the lane
output magnitude is `⌊(mf + 2^52)·2^(ef − 1075 − K)⌋` as long as it is below `2^64` -/
theorem shift_out (ef mant K : Nat) (hef : ef < 2047) (hK : K ≤ 900) (hm : mant < 2 ^ 53) :
    let ed := 1075 + K
    let lsh := (ef + 4096 - ed) % 4096
    let rsh := (ed + 4096 - ef) % 4096
    let outL : Nat := if lsh < 64 then (mant * 2 ^ lsh) % 2 ^ 64 else 0
    let outR : Nat := if rsh < 64 then mant / 2 ^ rsh else 0
    (ed ≤ ef → ef - ed < 64 → (outL ||| outR) = (mant * 2 ^ (ef - ed)) % 2 ^ 64) ∧
    (ef < ed → (outL ||| outR) = mant / 2 ^ (ed - ef)) := by
  intro ed lsh rsh outL outR
  constructor
  · intro h1 h2
    have hl : lsh = ef - ed := by show (ef + 4096 - (1075 + K)) % 4096 = ef - (1075 + K); omega
    by_cases heq : ef = ed
    · have hr : rsh = 0 := by show ((1075 + K) + 4096 - ef) % 4096 = 0; omega
      have hl0 : lsh = 0 := by omega
      show (if lsh < 64 then (mant * 2 ^ lsh) % 2 ^ 64 else 0) ||| (if rsh < 64 then mant / 2 ^ rsh else 0) = _
      rw [hl0, hr, heq]; simp
      have : mant % 18446744073709551616 = mant := Nat.mod_eq_of_lt (by omega)
      rw [this, Nat.or_self]
    · have hr : ¬ rsh < 64 := by show ¬ ((1075 + K) + 4096 - ef) % 4096 < 64; omega
      show (if lsh < 64 then (mant * 2 ^ lsh) % 2 ^ 64 else 0) ||| (if rsh < 64 then mant / 2 ^ rsh else 0) = _
      rw [if_neg hr, if_pos (by omega), hl]; simp
  · intro h1
    have hl : ¬ lsh < 64 := by show ¬ (ef + 4096 - (1075 + K)) % 4096 < 64; omega
    have hr : rsh = ed - ef := by show ((1075 + K) + 4096 - ef) % 4096 = (1075 + K) - ef; omega
    show (if lsh < 64 then (mant * 2 ^ lsh) % 2 ^ 64 else 0) ||| (if rsh < 64 then mant / 2 ^ rsh else 0) = _
    rw [if_neg hl, hr]; simp
    intro h64
    have : mant < 2 ^ (ed - ef) := lt_of_lt_of_le hm (Nat.pow_le_pow_right (by norm_num) (by omega))
    exact (Nat.div_eq_of_lt this).symm


theorem w64_id (c : Int) (hc : |c| ≤ 2 ^ 62) : w64 c = c := by
  have := abs_le.mp hc
  unfold w64; omega

/-- real-number core of the lane analysis: the rounded `T = y + s/2` divided by `s` has integer part `C` -/
theorem lane_range (C δ y s T r : ℝ) (hC0 : 0 ≤ C) (hδ0 : 0 ≤ δ) (hy0 : 0 ≤ y) (hs1 : 1 ≤ s)
    (hq : C - δ ≤ y / s ∧ y / s ≤ C + δ) (hT : T = y + s / 2) (hrT : |r - T| ≤ u * T)
    (hmain : δ + u * (C + 1) < 1 / 2) :
    C * s ≤ r ∧ r < (C + 1) * s ∧ 1 / 4 ≤ r := by
  have hu := u_pos
  have hu1 : u ≤ 1 / 64 := by
    unfold u
    calc (2:ℝ) ^ (-53:Int) ≤ (2:ℝ) ^ (-6:Int) := two_pow_le _ _ (by norm_num)
      _ = 1 / 64 := by norm_num
  have hs0 : 0 < s := by linarith
  have hδ12 : δ < 1 / 2 := by
    have : 0 ≤ u * (C + 1) := by positivity
    linarith
  have e : T = (y / s + 1 / 2) * s := by rw [hT]; field_simp
  have hTs1 : (C + 1 / 2 - δ) * s ≤ T := by rw [e]; apply mul_le_mul_of_nonneg_right _ hs0.le; linarith
  have hTs2 : T ≤ (C + 1 / 2 + δ) * s := by rw [e]; apply mul_le_mul_of_nonneg_right _ hs0.le; linarith
  have hT0 : 0 ≤ T := by rw [hT]; positivity
  have hrlo : T * (1 - u) ≤ r := by have := (abs_le.mp hrT).1; linarith
  have hrhi : r ≤ T * (1 + u) := by have := (abs_le.mp hrT).2; linarith
  refine ⟨?_, ?_, ?_⟩
  · have h1 : C * s ≤ (C + 1 / 2 - δ) * (1 - u) * s := by
      apply mul_le_mul_of_nonneg_right _ hs0.le
      have : u * (C + 1 / 2 - δ) ≤ u * (C + 1) := mul_le_mul_of_nonneg_left (by linarith) hu.le
      nlinarith
    have h2 : (C + 1 / 2 - δ) * (1 - u) * s ≤ T * (1 - u) := by
      have := mul_le_mul_of_nonneg_right hTs1 (by linarith : (0:ℝ) ≤ 1 - u)
      linarith
    linarith
  · have h1 : T * (1 + u) ≤ (C + 1 / 2 + δ) * (1 + u) * s := by
      have := mul_le_mul_of_nonneg_right hTs2 (by linarith : (0:ℝ) ≤ 1 + u)
      linarith
    have h2 : (C + 1 / 2 + δ) * (1 + u) * s < (C + 1) * s := by
      apply mul_lt_mul_of_pos_right _ hs0
      have : u * (C + 1 / 2 + δ) ≤ u * (C + 1) := mul_le_mul_of_nonneg_left (by linarith) hu.le
      nlinarith
    linarith
  · have h1 : s / 2 ≤ T := by rw [hT]; linarith
    have h2 : (1:ℝ) / 2 * (1 - u) ≤ T * (1 - u) := mul_le_mul_of_nonneg_right (by linarith) (by linarith)
    nlinarith

/-- integer core: the shifted significand is `n` when `(mf + 2^52)·2^(ef − 1075)/2^K ∈ [n, n+1)` -/
theorem lane_int (ef mf K n : Nat) (hef47 : ef < 2047) (hK : K ≤ 900) (hmf52 : mf < 2 ^ 52) (hn62 : n ≤ 2 ^ 62)
    (hrange : (n:ℝ) * (2:ℝ) ^ K ≤ ((mf + 2 ^ 52 : Nat) : ℝ) * (2:ℝ) ^ ((ef : Int) - 1075) ∧
      ((mf + 2 ^ 52 : Nat) : ℝ) * (2:ℝ) ^ ((ef : Int) - 1075) < ((n:ℝ) + 1) * (2:ℝ) ^ K) :
    ((if (ef + 4096 - (1075 + K)) % 4096 < 64 then ((mf + 2 ^ 52) * 2 ^ ((ef + 4096 - (1075 + K)) % 4096)) % 2 ^ 64 else 0) |||
      (if ((1075 + K) + 4096 - ef) % 4096 < 64 then (mf + 2 ^ 52) / 2 ^ (((1075 + K) + 4096 - ef) % 4096) else 0)) = n := by
  have h2 : (2:ℝ) ≠ 0 := by norm_num
  set s : ℝ := 2 ^ K with hs
  have hs0 : 0 < s := by positivity
  have hmant : mf + 2 ^ 52 < 2 ^ 53 := by omega
  obtain ⟨so1, so2⟩ := shift_out ef (mf + 2 ^ 52) K hef47 hK hmant
  by_cases hge : 1075 + K ≤ ef
  · obtain ⟨E, hE⟩ : ∃ E, ef = 1075 + K + E := ⟨ef - (1075 + K), by omega⟩
    have hpow : (2:ℝ) ^ ((ef : Int) - 1075) = (2:ℝ) ^ E * s := by
      rw [hs, ← pow_add, ← zpow_natCast]; congr 1; push_cast; omega
    rw [hpow, ← mul_assoc] at hrange
    have r1 : (n:ℝ) ≤ ((mf + 2 ^ 52 : Nat) : ℝ) * (2:ℝ) ^ E := le_of_mul_le_mul_right hrange.1 hs0
    have r2 : ((mf + 2 ^ 52 : Nat) : ℝ) * (2:ℝ) ^ E < (n:ℝ) + 1 := lt_of_mul_lt_mul_right hrange.2 hs0.le
    have n1 : n ≤ (mf + 2 ^ 52) * 2 ^ E := by exact_mod_cast r1
    have n2 : (mf + 2 ^ 52) * 2 ^ E < n + 1 := by exact_mod_cast r2
    have hval : (mf + 2 ^ 52) * 2 ^ E = n := by omega
    have hE64 : E < 64 := by
      by_contra h64
      have : 2 ^ 64 ≤ 2 ^ E := Nat.pow_le_pow_right (by norm_num) (by omega)
      have : 2 ^ 52 * 2 ^ 64 ≤ (mf + 2 ^ 52) * 2 ^ E := Nat.mul_le_mul (by omega) this
      omega
    have := so1 hge (by omega)
    rw [show ef - (1075 + K) = E by omega, hval] at this
    rw [this]; exact Nat.mod_eq_of_lt (by omega)
  · obtain ⟨D, hD⟩ : ∃ D, 1075 + K = ef + D := ⟨1075 + K - ef, by omega⟩
    have hpow : (2:ℝ) ^ ((ef : Int) - 1075) = s / (2:ℝ) ^ D := by
      rw [hs, eq_div_iff (by positivity), ← zpow_natCast, ← zpow_natCast, ← zpow_add₀ h2]; congr 1; push_cast; omega
    have hD0 : (0:ℝ) < (2:ℝ) ^ D := by positivity
    rw [hpow] at hrange
    have e : ((mf + 2 ^ 52 : Nat) : ℝ) * (s / (2:ℝ) ^ D) = ((mf + 2 ^ 52 : Nat) : ℝ) / (2:ℝ) ^ D * s := by ring
    rw [e] at hrange
    have r1 : (n:ℝ) * (2:ℝ) ^ D ≤ ((mf + 2 ^ 52 : Nat) : ℝ) := by
      have := le_of_mul_le_mul_right hrange.1 hs0
      rwa [le_div_iff₀ hD0] at this
    have r2 : ((mf + 2 ^ 52 : Nat) : ℝ) < ((n:ℝ) + 1) * (2:ℝ) ^ D := by
      have := lt_of_mul_lt_mul_right hrange.2 hs0.le
      rwa [div_lt_iff₀ hD0] at this
    have n1 : n * 2 ^ D ≤ mf + 2 ^ 52 := by exact_mod_cast r1
    have n2 : mf + 2 ^ 52 < (n + 1) * 2 ^ D := by exact_mod_cast r2
    have := so2 (by omega)
    rw [show 1075 + K - ef = D by omega] at this
    rw [this]
    exact Nat.div_eq_of_lt_le n1 n2

/-- **one lane of `reim_to_znx_i64_bnd63_avx2_fma`**: if `a / 2^K` is within `δ` of the integer `c` and
`δ + u·(|c| + 1) < 1/2` (the `u` term pays for the rounding of `a ± m/2`), the lane returns `c` -/
theorem toLaneAvx_spec (K : Nat) (hK : K ≤ 900) (a : Nat) (ha : Fin64 a) (c : Int) (hc : |c| ≤ 2 ^ 62) (δ : ℝ)
    (hδ : |val a / 2 ^ K - (c:ℝ)| ≤ δ) (hmain : δ + u * (|(c:ℝ)| + 1) < 1 / 2) : toLaneAvx K a = c := by
  obtain ⟨d, hd⟩ := ha
  have hu := u_pos
  have h2 : (2:ℝ) ≠ 0 := by norm_num
  set s : ℝ := 2 ^ K with hs
  have hs0 : 0 < s := by positivity
  have hs1 : (1:ℝ) ≤ s := by rw [hs]; exact one_le_pow₀ (by norm_num)
  have hδ0 : 0 ≤ δ := le_trans (abs_nonneg _) hδ
  have hsg : decide (a / 2 ^ 63 % 2 = 1) = d.neg := by
    rw [decode_eq] at hd; exact (decodeF_neg_field hd).symm
  set σ : ℝ := if d.neg then -1 else 1 with hσ
  have hσ2 : σ * σ = 1 := by rw [hσ]; cases d.neg <;> simp
  have hσabs : |σ| = 1 := by rw [hσ]; cases d.neg <;> simp
  set y : ℝ := (d.m : ℝ) * (2:ℝ) ^ d.e with hy
  have hy0 : 0 ≤ y := by positivity
  have hva : val a = σ * y := by rw [val_of_decode hd]; rfl
  have hoff := decode_off d.neg K (by omega)
  have hvoff : val (pack d.neg ((1022 + K) * 2 ^ 52)) = σ * (s / 2) := by
    rw [val_of_decode hoff]; unfold Dy.val; simp only
    have : ((2 ^ 52 : Nat) : ℝ) * (2:ℝ) ^ ((K:Int) - 53) = s / 2 := by
      have e52 : ((2 ^ 52 : Nat) : ℝ) = (2:ℝ) ^ (52:Int) := by norm_num
      rw [e52, ← zpow_add₀ h2, hs, ← zpow_natCast, div_eq_mul_inv, show (2:ℝ)⁻¹ = (2:ℝ) ^ (-1:Int) by norm_num, ← zpow_add₀ h2]
      congr 1; ring
    rw [this]
  set T : ℝ := y + s / 2 with hT
  have hT0 : 0 < T := by positivity
  have hsum : val a + val (pack d.neg ((1022 + K) * 2 ^ 52)) = σ * T := by rw [hva, hvoff, hT]; ring
  set C : ℝ := abs (c:ℝ) with hC
  have hC0 : 0 ≤ C := abs_nonneg _
  have hn : ((c.natAbs : Nat) : ℝ) = C := by rw [hC, ← Int.cast_abs, Int.abs_eq_natAbs]; simp
  have hδ12 : δ < 1 / 2 := by
    have : 0 ≤ u * (C + 1) := by positivity
    linarith
  -- y/s is within δ of C, and the sign of the input is the sign of c (or c = 0)
  have hyc : (C - δ ≤ y / s ∧ y / s ≤ C + δ) ∧ (if d.neg then -((c.natAbs : Nat) : Int) else ((c.natAbs : Nat) : Int)) = c := by
    rw [hva] at hδ
    have hyq : 0 ≤ y / s := by positivity
    by_cases hc0 : c = 0
    · have hC' : C = 0 := by rw [hC, hc0]; simp
      rw [hc0] at hδ; simp at hδ
      rw [abs_div, abs_mul, hσabs, one_mul, abs_of_nonneg hy0, abs_of_pos hs0] at hδ
      refine ⟨⟨by rw [hC']; linarith, by rw [hC']; linarith⟩, by rw [hc0]; simp⟩
    · have hc1 : (1:ℝ) ≤ C := by
        have h1 : 1 ≤ |c| := Int.one_le_abs hc0
        have h2' : ((1:Int):ℝ) ≤ ((|c| : Int) : ℝ) := by exact_mod_cast h1
        rw [Int.cast_abs] at h2'; simpa [hC] using h2'
      have e : σ * y / s - (c:ℝ) = σ * (y / s - σ * (c:ℝ)) := by
        have : σ * (y / s - σ * (c:ℝ)) = σ * y / s - (σ * σ) * c := by ring
        rw [this, hσ2]; ring
      rw [e, abs_mul, hσabs, one_mul] at hδ
      have habs : |σ * (c:ℝ)| = C := by rw [abs_mul, hσabs, one_mul]
      have hsc : σ * (c:ℝ) = C := by
        rcases (abs_eq (by linarith : (0:ℝ) ≤ C)).mp habs with h | h
        · exact h
        · exfalso
          rw [h] at hδ
          have := (abs_le.mp hδ).2
          linarith
      rw [hsc] at hδ
      have := abs_le.mp hδ
      refine ⟨⟨by linarith, by linarith⟩, ?_⟩
      have hcσ : (c:ℝ) = σ * C := by rw [← hsc, ← mul_assoc, hσ2, one_mul]
      have : ((if d.neg then -((c.natAbs : Nat) : Int) else ((c.natAbs : Nat) : Int) : Int) : ℝ) = (c:ℝ) := by
        rw [hcσ, hσ, ← hn]; cases d.neg <;> simp
      exact_mod_cast this
  obtain ⟨hq, hres⟩ := hyc
  -- the rounded sum
  have hC62 : C ≤ (2:ℝ) ^ (62:Nat) := by
    have h1 : ((|c| : Int) : ℝ) ≤ (2:ℝ) ^ (62:Nat) := by exact_mod_cast hc
    rw [Int.cast_abs] at h1; exact h1
  have hTbig : T < (2:ℝ) ^ (1023:Int) := by
    have hs900 : s ≤ (2:ℝ) ^ (900:Nat) := by rw [hs]; exact pow_le_pow_right₀ (by norm_num) hK
    have e : T = (y / s + 1 / 2) * s := by rw [hT]; field_simp
    have h1 : T ≤ ((2:ℝ) ^ (62:Nat) + 1) * (2:ℝ) ^ (900:Nat) := by
      rw [e]; exact mul_le_mul (by linarith [hq.2]) hs900 hs0.le (by positivity)
    have h3 : ((2:ℝ) ^ (62:Nat) + 1) * (2:ℝ) ^ (900:Nat) < (2:ℝ) ^ (1023:Int) := by
      have e' : (2:ℝ) ^ (1023:Int) = (2:ℝ) ^ (123:Nat) * (2:ℝ) ^ (900:Nat) := by
        rw [← pow_add, ← zpow_natCast]; norm_num
      rw [e']; apply mul_lt_mul_of_pos_right _ (by positivity); norm_num
    exact lt_of_le_of_lt h1 h3
  have hfo : Fin64 (pack d.neg ((1022 + K) * 2 ^ 52)) := ⟨_, hoff⟩
  have habsT : |val a + val (pack d.neg ((1022 + K) * 2 ^ 52))| = T := by
    rw [hsum, abs_mul, hσabs, one_mul, abs_of_pos hT0]
  obtain ⟨fa', ea'⟩ := add_spec a _ ⟨d, hd⟩ hfo (by rw [habsT]; exact hTbig)
  rw [habsT, hsum] at ea'
  set a' := add a (pack d.neg ((1022 + K) * 2 ^ 52)) with ha'
  obtain ⟨d', hd'⟩ := fa'
  set r : ℝ := σ * val a' with hr
  have hrT : |r - T| ≤ u * T := by
    have : r - T = σ * (val a' - σ * T) := by
      rw [hr]; have : σ * (val a' - σ * T) = σ * val a' - (σ * σ) * T := by ring
      rw [this, hσ2]; ring
    rw [this, abs_mul, hσabs, one_mul]; exact ea'
  obtain ⟨g1, g2, g3⟩ := lane_range C δ y s T r hC0 hδ0 hy0 hs1 hq hT hrT hmain
  have hr0 : 0 < r := by linarith
  have hva' : val a' = σ * r := by rw [hr, ← mul_assoc, hσ2, one_mul]
  have hd'v : d'.val = σ * r := by rw [← val_of_decode hd', hva']
  have hneg' : d'.neg = d.neg ∧ d'.m ≠ 0 := by
    obtain ⟨p1, p2⟩ := Dy.val_pos_iff d'
    cases hn' : d.neg
    · have : 0 < d'.val := by rw [hd'v, hσ, hn']; simpa using hr0
      exact p1.mp this
    · have : d'.val < 0 := by rw [hd'v, hσ, hn']; simp; exact hr0
      exact p2.mp this
  set y' : ℝ := (d'.m : ℝ) * (2:ℝ) ^ d'.e with hy'
  have hry : r = y' := by
    have : d'.val = σ * y' := by unfold Dy.val; rw [hneg'.1]
    rw [this] at hd'v
    have := congrArg (fun t => σ * t) hd'v
    simp only [← mul_assoc, hσ2, one_mul] at this
    exact this.symm
  rw [hry] at g1 g2 g3
  -- fields of a'
  rw [decode_eq] at hd'
  set ef := a' / 2 ^ 52 % 2048 with hef
  set mf := a' % 2 ^ 52 with hmf
  have hmf52 : mf < 2 ^ 52 := Nat.mod_lt _ (by norm_num)
  have hfields : ef < 2047 ∧ d'.m = mf + 2 ^ 52 ∧ d'.e = (ef : Int) - 1075 := by
    unfold decodeF at hd'
    split at hd'
    · cases hd'
    · rename_i h47
      split at hd'
      · rename_i h0
        exfalso
        cases hd'
        have : y' < (2:ℝ) ^ (-1022:Int) := by
          rw [hy']; simp only
          have e : (2:ℝ) ^ (-1022:Int) = (2:ℝ) ^ (52:Nat) * (2:ℝ) ^ (-1074:Int) := by
            rw [← zpow_natCast, ← zpow_add₀ h2]; norm_num
          rw [e]; apply mul_lt_mul_of_pos_right _ (by positivity); exact_mod_cast hmf52
        have h4 : (2:ℝ) ^ (-1022:Int) ≤ 1 / 4 := by
          calc (2:ℝ) ^ (-1022:Int) ≤ (2:ℝ) ^ (-2:Int) := two_pow_le _ _ (by norm_num)
            _ = 1 / 4 := by norm_num
        linarith
      · rename_i h0
        cases hd'
        exact ⟨by omega, rfl, rfl⟩
  obtain ⟨hef47, hdm, hde⟩ := hfields
  have hn62 : c.natAbs ≤ 2 ^ 62 := by have := abs_le.mp hc; omega
  have hout := lane_int ef mf K c.natAbs hef47 hK hmf52 hn62 (by
    rw [hn, ← hs]; rw [hy', hdm, hde] at g1 g2; exact ⟨g1, g2⟩)
  unfold toLaneAvx
  simp only [hsg]
  rw [← ha', ← hef, ← hmf, hout, hres]
  exact w64_id c hc

end Fft64Avx
