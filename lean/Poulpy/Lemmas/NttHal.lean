import Poulpy.Lemmas.NttSum
import Poulpy.Lemmas.NttRange
import Poulpy.Model.Ntt120Hal

/-!
NTT120 at HAL level.  `Rep P k j lane a`: the `u64` lane (one prime of one DFT-domain limb, as the
NTT120 back end stores it) *represents* the integer polynomial `a`: modulo the prime it is the
transform `nttM ω j a`.  Every DFT-domain HAL operation of the back end preserves the relation
(`rep_dft`, `rep_zero`, `rep_add`, `rep_sub`, `rep_neg`, products through `bbc`: `rep_slots`), and
`idft` of four lanes representing `a` returns exactly `a` when `|a| ≤ (Q−1)/2` (`idft_of_reps`).
-/

namespace Ntt120
open NttMath

/-- everything the lane proofs need about lane `k` at size `2^j` -/
structure LaneCtx (P : PrimeSet) (k j : Nat) : Prop where
  fwd : LaneFwd P k
  inv : LaneInv P k
  hj1 : 1 ≤ j
  hj : j ≤ 16

theorem laneCtx_of (P : PrimeSet) (ng : P.NttGood) (k j : Nat) (hk : k < 4) (hj1 : 1 ≤ j) (hj : j ≤ 16) : LaneCtx P k j :=
  ⟨(ng k hk).1, (ng k hk).2, hj1, hj⟩

/-- the `u64` lane represents the integer polynomial `a` (length `2^j`) modulo prime `k` -/
def Rep (P : PrimeSet) (k j : Nat) (lane : List Nat) (a : Poly) : Prop :=
  lane.length = 2 ^ j ∧ a.length = 2 ^ j ∧ AllLe (2 ^ 64 - 1) lane ∧
  lane.map (cz (P.qs.getD k 1)) = nttM (omegaZ P k j) j (a.map (ci (P.qs.getD k 1)))

theorem map_cz_replicate (q n : Nat) : (List.replicate n 0).map (cz q) = (zeros n : List (ZMod q)) := by
  simp [zeros, cz]

theorem map_ci_zeroP (q n : Nat) : (Hal.zeroP n).map (ci q) = (zeros n : List (ZMod q)) := by
  simp [Hal.zeroP, zeros, ci]

/-- `ntt_zero` / zero fill: the all-zero lane represents the zero polynomial -/
theorem rep_zero (P : PrimeSet) (k j : Nat) (c : LaneCtx P k j) : Rep P k j (List.replicate (2 ^ j) 0) (Hal.zeroP (2 ^ j)) := by
  refine ⟨by simp, by simp [Hal.zeroP], ?_, ?_⟩
  · intro x hx; simp only [List.mem_replicate] at hx; omega
  · rw [map_cz_replicate, map_ci_zeroP, nttM_zeros _ j (omegaZ_pow P k j c.fwd c.hj)]

/-- `vec_znx_dft_apply` on one limb (`b_from_znx64`, `ntt_ref`) -/
theorem rep_dft (P : PrimeSet) (k j : Nat) (c : LaneCtx P k j) (t : TableK) (ht : nttTableK P k (2 ^ j) = .ok t)
    (a : Poly) (ha : a.length = 2 ^ j) (hr : ∀ x ∈ a, -(2 ^ 63) ≤ x ∧ x < 2 ^ 63) :
    Rep P k j (nttK t (a.map (fun x => bFromU64K (P.qs.getD k 1) (asU64 x)))) a := by
  have hqg := c.fwd.q_gt
  have hql := c.fwd.q_lt
  obtain ⟨bp, up⟩ := map_bFrom (P.qs.getD k 1) (by omega) (by omega) a hr
  obtain ⟨e, n, u⟩ := nttK_real P k j c.fwd c.hj1 c.hj t ht _ (by simpa using ha) up
  exact ⟨n, ha, u, by rw [e, bp]⟩

theorem asU64_maskCoeff (x mask : Int) : asU64 (Hal.maskCoeff mask x) = asU64 x &&& asU64 mask := by
  have hl : Nat.land (x % 2 ^ 64).toNat (mask % 2 ^ 64).toNat < 2 ^ 64 := by
    apply Nat.and_lt_two_pow
    have := Int.emod_lt_of_pos x (by norm_num : (0 : Int) < 2 ^ 64)
    have := Int.emod_nonneg x (by norm_num : (2 ^ 64 : Int) ≠ 0)
    omega
  have e : Hal.maskCoeff mask x = w64 (Int.ofNat (Nat.land (x % 2 ^ 64).toNat (mask % 2 ^ 64).toNat)) := rfl
  rw [e, asU64_w64_natCast _ hl]
  unfold asU64
  rfl

theorem maskCoeff_range (x mask : Int) : -(2 ^ 63) ≤ Hal.maskCoeff mask x ∧ Hal.maskCoeff mask x < 2 ^ 63 := by
  unfold Hal.maskCoeff w64; simp only []; omega

theorem bFrom_masked_eq (q : Nat) (x mask : Int) :
    bFromU64K q (asU64 x &&& asU64 mask) = bFromU64K q (asU64 (Hal.maskCoeff mask x)) := by
  rw [asU64_maskCoeff]

theorem map_bFrom_masked (q : Nat) (a : Poly) (mask : Int) :
    a.map (fun x => bFromU64K q (asU64 x &&& asU64 mask)) =
      (a.map (Hal.maskCoeff mask)).map (fun x => bFromU64K q (asU64 x)) := by
  induction a with
  | nil => rfl
  | cons x xs ih => rw [List.map_cons, List.map_cons, List.map_cons, ih, bFrom_masked_eq]

theorem maskCoeff_all_range (a : Poly) (mask : Int) : ∀ x ∈ a.map (Hal.maskCoeff mask), -(2 ^ 63) ≤ x ∧ x < 2 ^ 63 := by
  intro x hx
  simp only [List.mem_map] at hx
  obtain ⟨y, _, rfl⟩ := hx
  exact maskCoeff_range y mask

/-- the masked last limb of `cnv_prepare_*` (`b_from_znx64_masked`, `ntt_ref`) represents the masked limb -/
theorem rep_dft_masked (P : PrimeSet) (k j : Nat) (c : LaneCtx P k j) (t : TableK) (ht : nttTableK P k (2 ^ j) = .ok t)
    (a : Poly) (mask : Int) (ha : a.length = 2 ^ j) :
    Rep P k j (nttK t (a.map (fun x => bFromU64K (P.qs.getD k 1) (asU64 x &&& asU64 mask)))) (a.map (Hal.maskCoeff mask)) := by
  rw [map_bFrom_masked]
  exact rep_dft P k j c t ht _ (by rw [List.length_map]; exact ha) (maskCoeff_all_range a mask)

/-! ### lazy add / sub / negate on lanes -/

theorem map_zipWith_cz (q : Nat) (f : Nat → Nat → Nat) (g : ZMod q → ZMod q → ZMod q)
    (h : ∀ a b, cz q (f a b) = g (cz q a) (cz q b)) : ∀ (u v : List Nat),
    (List.zipWith f u v).map (cz q) = List.zipWith g (u.map (cz q)) (v.map (cz q)) := by
  intro u
  induction u with
  | nil => intro v; simp
  | cons x xs ih => intro v; cases v with
    | nil => simp
    | cons y ys => simp [ih, h]

theorem allLe_zipWith (M : Nat) (f : Nat → Nat → Nat) (h : ∀ a b, f a b ≤ M) (u v : List Nat) : AllLe M (List.zipWith f u v) := by
  intro x hx
  rw [List.mem_iff_getElem] at hx
  obtain ⟨i, hi, rfl⟩ := hx
  rw [List.getElem_zipWith]; exact h _ _

/-- `vec_znx_dft_add` on one limb (reference kernel `% Q_SHIFTED`): represents `a + b`; every stored
value is below `2·Q_SHIFTED` -/
theorem rep_add (P : PrimeSet) (k j : Nat) (c : LaneCtx P k j) (hq30 : P.qs.getD k 1 < 2 ^ 30) (u v : List Nat) (a b : Poly)
    (hu : Rep P k j u a) (hv : Rep P k j v b) :
    Rep P k j (List.zipWith (addBbbK (P.qs.getD k 1)) u v) (Hal.polyAdd a b) ∧
    AllLe (2 * (P.qs.getD k 1 * 2 ^ 33) - 1) (List.zipWith (addBbbK (P.qs.getD k 1)) u v) := by
  have hqg := c.fwd.q_gt
  set q := P.qs.getD k 1 with hq
  have hω := omegaZ_pow P k j c.fwd c.hj
  have hb : ∀ x y, addBbbK q x y ≤ 2 * (q * 2 ^ 33) - 1 := fun x y => by
    have := (addBbbK_spec q x y (by omega) hq30).2.1; omega
  refine ⟨⟨by simp [hu.1, hv.1], by simp [Hal.polyAdd, hu.2.1, hv.2.1], ?_, ?_⟩, allLe_zipWith _ _ hb u v⟩
  · exact (allLe_zipWith _ _ hb u v).mono (by omega)
  · rw [map_zipWith_cz q (addBbbK q) (· + ·) (fun x y => by
      rw [cz_eq_of_modEq (addBbbK_spec q x y (by omega) hq30).2.2]; unfold cz; push_cast; rfl)]
    rw [hu.2.2.2, hv.2.2.2, map_polyAdd]
    exact (nttM_add _ j _ _ (by simpa using hu.2.1) (by simpa using hv.2.1) hω).symm

theorem map_polySub (q : Nat) (a b : Poly) : (Hal.polySub a b).map (ci q) = subL (a.map (ci q)) (b.map (ci q)) := by
  unfold Hal.polySub subL
  induction a generalizing b with
  | nil => simp
  | cons x xs ih => cases b with
    | nil => simp
    | cons y ys => simp [ih, ci]

theorem nttM_sub {R : Type*} [CommRing R] (ω : R) (k : Nat) (a b : List R) (ha : a.length = 2 ^ k) (hb : b.length = 2 ^ k) (hω : ω ^ 2 ^ k = -1) :
    nttM ω k (subL a b) = subL (nttM ω k a) (nttM ω k b) := by
  rw [nttM_eval ω k _ (by simp [ha, hb]) hω, nttM_eval ω k a ha hω, nttM_eval ω k b hb hω]
  unfold subL
  rw [map_zipWith_same]
  apply List.map_congr_left
  intro x _
  exact ev_subL a b (by rw [ha, hb]) _

/-- `vec_znx_dft_sub` on one limb: represents `a − b`, values below `2·Q_SHIFTED` -/
theorem rep_sub (P : PrimeSet) (k j : Nat) (c : LaneCtx P k j) (hq30 : P.qs.getD k 1 < 2 ^ 30) (u v : List Nat) (a b : Poly)
    (hu : Rep P k j u a) (hv : Rep P k j v b) :
    Rep P k j (List.zipWith (subBbbK (P.qs.getD k 1)) u v) (Hal.polySub a b) ∧
    AllLe (2 * (P.qs.getD k 1 * 2 ^ 33) - 1) (List.zipWith (subBbbK (P.qs.getD k 1)) u v) := by
  have hqg := c.fwd.q_gt
  set q := P.qs.getD k 1 with hq
  have hω := omegaZ_pow P k j c.fwd c.hj
  have hb : ∀ x y, subBbbK q x y ≤ 2 * (q * 2 ^ 33) - 1 := fun x y => by
    have := (subBbbK_spec q x y (by omega) hq30).2.1; omega
  refine ⟨⟨by simp [hu.1, hv.1], by simp [Hal.polySub, hu.2.1, hv.2.1], ?_, ?_⟩, allLe_zipWith _ _ hb u v⟩
  · exact (allLe_zipWith _ _ hb u v).mono (by omega)
  · rw [map_zipWith_cz q (subBbbK q) (· - ·) (fun x y => by
      have h := cz_eq_of_modEq (subBbbK_spec q x y (by omega) hq30).2.2
      unfold cz at *; push_cast at h
      rw [← h]; ring)]
    rw [hu.2.2.2, hv.2.2.2, map_polySub]
    exact (nttM_sub _ j _ _ (by simpa using hu.2.1) (by simpa using hv.2.1) hω).symm

/-! ### `idft` -/

/-- **`vec_znx_idft_apply` on one limb**: four lanes representing `a` give back exactly `a` when every
coefficient is at most `(Q−1)/2` in absolute value -/
theorem idft_of_reps (P : PrimeSet) (g : P.Good) (ng : P.NttGood) (j : Nat) (hj1 : 1 ≤ j) (hj : j ≤ 16)
    (l0 l1 l2 l3 : List Nat) (a : Poly)
    (h0 : Rep P 0 j l0 a) (h1 : Rep P 1 j l1 a) (h2 : Rep P 2 j l2 a) (h3 : Rep P 3 j l3 a)
    (hbound : ∀ i, i < 2 ^ j → -(((bigQ P : Int) - 1) / 2) ≤ a.getD i 0 ∧ a.getD i 0 ≤ ((bigQ P : Int) - 1) / 2) :
    (List.range (2 ^ j)).map (fun i => bToZnx128Core P ((realIntt P (2 ^ j) 0 l0).getD i 0) ((realIntt P (2 ^ j) 1 l1).getD i 0)
      ((realIntt P (2 ^ j) 2 l2).getD i 0) ((realIntt P (2 ^ j) 3 l3).getD i 0)) = a := by
  have lane : ∀ k, k < 4 → ∀ (l : List Nat), Rep P k j l a → ∀ i, i < 2 ^ j →
      ((realIntt P (2 ^ j) k l).getD i 0 : Int) ≡ a.getD i 0 [ZMOD (P.qs.getD k 1 : Nat)] := by
    intro k hk l hl i hi
    obtain ⟨gf, gi⟩ := ng k hk
    obtain ⟨ti, hti⟩ := inttTableK_ok P k j gi hj1 hj
    rw [realIntt_eq P _ k ti hti]
    obtain ⟨e, _⟩ := inttK_real P k j gf gi hj1 hj ti hti l hl.1 hl.2.2.1
    rw [hl.2.2.2, inttM_nttM _ _ _ j (omegaInv_spec P k j gf gi hj).1 (nInv_spec P k j gf gi hj).1 _ (by simpa using hl.2.1)] at e
    exact getD_of_map_eq _ _ _ e i (by rw [hl.2.1]; exact hi)
  apply List.ext_getElem
  · simp [h0.2.1]
  · intro i hi1 hi2
    simp only [List.length_map, List.length_range] at hi1
    rw [List.getElem_map, List.getElem_range]
    have hb := hbound i hi1
    have e : a[i] = a.getD i 0 := by
      rw [List.getD_eq_getElem?_getD, List.getElem?_eq_getElem hi2]; rfl
    rw [e]
    exact bToZnx128Core_exact P g _ _ _ _ _ hb.1 hb.2 (lane 0 (by omega) l0 h0 i hi1) (lane 1 (by omega) l1 h1 i hi1)
      (lane 2 (by omega) l2 h2 i hi1) (lane 3 (by omega) l3 h3 i hi1)

/-! ### products through the `bbc` kernel: left operands as `(lo, hi)` halves, right operands prepared -/

/-- a list of `(lo, hi)` `u32` halves whose values `lo + hi·2^32` represent `x` (what the `bbc` kernels read
as their left operand: the raw halves of a q120b word, or a packed canonical residue with `hi = 0`) -/
def LRep (P : PrimeSet) (k j : Nat) (L : List (Nat × Nat)) (x : Poly) : Prop :=
  L.length = 2 ^ j ∧ x.length = 2 ^ j ∧ (∀ l ∈ L, l.1 < 2 ^ 32 ∧ l.2 < 2 ^ 32) ∧
  L.map (fun l => cz (P.qs.getD k 1) l.1 + cz (P.qs.getD k 1) l.2 * 2 ^ 32) = nttM (omegaZ P k j) j (x.map (ci (P.qs.getD k 1)))

/-- a list of prepared pairs `(r, r')`, `r' ≡ r·2^32`, whose first components represent `p` (a q120c lane,
or the entry-wise sum of two) -/
def PrepRep (P : PrimeSet) (k j : Nat) (C : List (Nat × Nat)) (p : Poly) : Prop :=
  C.length = 2 ^ j ∧ p.length = 2 ^ j ∧
  (∀ c ∈ C, c.1 < 2 ^ 32 ∧ c.2 < 2 ^ 32 ∧ cz (P.qs.getD k 1) c.2 = cz (P.qs.getD k 1) c.1 * 2 ^ 32) ∧
  C.map (fun c => cz (P.qs.getD k 1) c.1) = nttM (omegaZ P k j) j (p.map (ci (P.qs.getD k 1)))

theorem cz_split (q a : Nat) : cz q (a % 2 ^ 32) + cz q (a / 2 ^ 32) * 2 ^ 32 = cz q a := by
  have h := Nat.mod_add_div a (2 ^ 32)
  have : cz q a = cz q (a % 2 ^ 32 + 2 ^ 32 * (a / 2 ^ 32)) := by rw [h]
  rw [this]; unfold cz; push_cast; ring

/-- the raw halves of a q120b lane (`svp`, `vmp`: `cast_slice::<u64, u32>`) -/
theorem lrep_split (P : PrimeSet) (k j : Nat) (lane : List Nat) (x : Poly) (h : Rep P k j lane x) :
    LRep P k j (lane.map u32Pair) x := by
  refine ⟨by simp [h.1], h.2.1, ?_, ?_⟩
  · intro l hl
    simp only [List.mem_map] at hl
    obtain ⟨a, ha, rfl⟩ := hl
    have := h.2.2.1 a ha
    simp only [u32Pair, land_m32, shr_eq]
    exact ⟨Nat.mod_lt _ (by decide), by omega⟩
  · rw [← h.2.2.2, List.map_map]
    apply List.map_congr_left
    intro a _
    simp only [Function.comp, u32Pair, land_m32, shr_eq]
    exact cz_split _ a

/-- `ntt_pack_left_1blk_x2` (convolution): the canonical residue, high half zero -/
theorem lrep_pack (P : PrimeSet) (k j : Nat) (c : LaneCtx P k j) (lane : List Nat) (x : Poly) (h : Rep P k j lane x) :
    LRep P k j (lane.map (packLeftK (P.qs.getD k 1))) x := by
  have hqg := c.fwd.q_gt
  have hql := c.fwd.q_lt
  refine ⟨by simp [h.1], h.2.1, ?_, ?_⟩
  · intro l hl
    simp only [List.mem_map] at hl
    obtain ⟨a, _, rfl⟩ := hl
    have : a % P.qs.getD k 1 < P.qs.getD k 1 := Nat.mod_lt _ (by omega)
    simp only [packLeftK]
    rw [wu32_of_lt _ (by omega)]
    exact ⟨by omega, by norm_num⟩
  · rw [← h.2.2.2, List.map_map]
    apply List.map_congr_left
    intro a _
    have : a % P.qs.getD k 1 < P.qs.getD k 1 := Nat.mod_lt _ (by omega)
    simp only [Function.comp, packLeftK]
    rw [wu32_of_lt _ (by omega)]
    have e : cz (P.qs.getD k 1) (a % P.qs.getD k 1) = cz (P.qs.getD k 1) a := cz_eq_of_modEq (Nat.mod_modEq _ _)
    rw [e]; simp [cz]

/-- the prepared pair of one lazy residue (`Ntt120.cPairK`) -/
abbrev cPairOf (q b : Nat) : Nat × Nat := cPairK q b

theorem cPairOf_eq (q b : Nat) (hq0 : 0 < q) (hq : q < 2 ^ 32) : cPairOf q b = (b % q, b % q * 2 ^ 32 % q) := by
  unfold cPairOf cPairK; rw [cFromBK_eq q hq0 hq b]; simp only [List.getD_cons_zero, List.getD_cons_succ]

theorem cPairOf_spec (q b : Nat) (hq0 : 0 < q) (hq : q < 2 ^ 32) :
    (cPairOf q b).1 < q ∧ (cPairOf q b).2 < q ∧ cz q (cPairOf q b).2 = cz q (cPairOf q b).1 * 2 ^ 32 ∧ cz q (cPairOf q b).1 = cz q b := by
  rw [cPairOf_eq q b hq0 hq]
  refine ⟨Nat.mod_lt _ hq0, Nat.mod_lt _ hq0, ?_, cz_eq_of_modEq (Nat.mod_modEq _ _)⟩
  show cz q (b % q * 2 ^ 32 % q) = cz q (b % q) * 2 ^ 32
  rw [cz_eq_of_modEq (Nat.mod_modEq (b % q * 2 ^ 32) q)]
  unfold cz; push_cast; ring

/-- `c_from_b` of a lane (`svp_prepare`, `vmp_prepare`, `cnv_prepare_right`) -/
theorem prep_of_rep (P : PrimeSet) (k j : Nat) (c : LaneCtx P k j) (lane : List Nat) (p : Poly) (h : Rep P k j lane p) :
    PrepRep P k j (lane.map (cPairOf (P.qs.getD k 1))) p ∧
    ∀ e ∈ lane.map (cPairOf (P.qs.getD k 1)), e.1 < P.qs.getD k 1 ∧ e.2 < P.qs.getD k 1 := by
  have hqg := c.fwd.q_gt
  have hql := c.fwd.q_lt
  refine ⟨⟨by simp [h.1], h.2.1, ?_, ?_⟩, ?_⟩
  · intro e he
    simp only [List.mem_map] at he
    obtain ⟨b, _, rfl⟩ := he
    obtain ⟨h1, h2, h3, _⟩ := cPairOf_spec (P.qs.getD k 1) b (by omega) (by omega)
    exact ⟨by omega, by omega, h3⟩
  · rw [← h.2.2.2, List.map_map]
    apply List.map_congr_left
    intro b _
    exact (cPairOf_spec (P.qs.getD k 1) b (by omega) (by omega)).2.2.2
  · intro e he
    simp only [List.mem_map] at he
    obtain ⟨b, _, rfl⟩ := he
    obtain ⟨h1, h2, _, _⟩ := cPairOf_spec (P.qs.getD k 1) b (by omega) (by omega)
    exact ⟨h1, h2⟩

/-- the terms one slot of a `bbc` call reads from its rows -/
def slotTerms (rows : List (List (Nat × Nat) × List (Nat × Nat))) (s : Nat) : List Term :=
  rows.map (fun r => ((r.1.getD s (0, 0)).1, (r.1.getD s (0, 0)).2, (r.2.getD s (0, 0)).1, (r.2.getD s (0, 0)).2))

/-- all slots of a `bbc` product over `rows` (`vec_mat1col_product_bbc` and its x2 / 2-column twins,
slot by slot) -/
def bbcSlots (q h n : Nat) (rows : List (List (Nat × Nat) × List (Nat × Nat))) : List Nat :=
  (List.range n).map (fun s => bbcK h (pow2Mod 32 q) (pow2Mod (32 + h) q) (slotTerms rows s))

theorem bbcSlotsK_eq (q h n : Nat) (rows : List (List (Nat × Nat) × List (Nat × Nat))) : bbcSlotsK q h n rows = bbcSlots q h n rows := rfl

theorem getD_mem {α} (l : List α) (i : Nat) (d : α) (hi : i < l.length) : l.getD i d ∈ l := by
  rw [List.getD_eq_getElem?_getD, List.getElem?_eq_getElem hi]; simp

theorem nttM_length {R : Type*} [CommRing R] (ω : R) (k : Nat) (a : List R) (ha : a.length = 2 ^ k) : (nttM ω k a).length = 2 ^ k := by
  unfold nttM; exact dif_length _ k _ (by simpa using ha)

theorem getD_eq_getElem' {α} (l : List α) (i : Nat) (d : α) (hi : i < l.length) : l.getD i d = l[i] := by
  rw [List.getD_eq_getElem?_getD, List.getElem?_eq_getElem hi]; rfl

/-- **the `bbc` product of represented operands represents the sum of the negacyclic products**:
fewer than 10 000 rows, left operands `LRep x_r`, right operands `PrepRep p_r` -/
theorem rep_slots (P : PrimeSet) (k j h : Nat) (c : LaneCtx P k j) (hh : 16 ≤ h) (hh2 : h < 32)
    (rows : List (List (Nat × Nat) × List (Nat × Nat))) (polys : List (Poly × Poly)) (hell : rows.length < 10000)
    (hlen : rows.length = polys.length)
    (hrep : ∀ i (hi : i < rows.length) (hi' : i < polys.length), LRep P k j (rows[i]).1 (polys[i]).1 ∧ PrepRep P k j (rows[i]).2 (polys[i]).2) :
    Rep P k j (bbcSlots (P.qs.getD k 1) h (2 ^ j) rows) (Hal.sumPolys (2 ^ j) (polys.map (fun r => Hal.negMul r.1 r.2))) ∧
    AllLe (2 ^ 63 + 2 ^ 47) (bbcSlots (P.qs.getD k 1) h (2 ^ j) rows) := by
  have hqg := c.fwd.q_gt
  have hql := c.fwd.q_lt
  set q := P.qs.getD k 1 with hq
  have hω := omegaZ_pow P k j c.fwd c.hj
  have hp1 := pow2Mod_lt 32 q (by omega)
  have hp2 := pow2Mod_lt (32 + h) q (by omega)
  have he1 : (32 : Nat) < 2 ^ 64 := by omega
  have he2 : 32 + h < 2 ^ 64 := by omega
  set W : Poly × Poly → List (ZMod q) := fun r => mulL (nttM (omegaZ P k j) j (r.1.map (ci q))) (nttM (omegaZ P k j) j (r.2.map (ci q))) with hW
  have hpl : ∀ r ∈ polys, r.1.length = 2 ^ j ∧ r.2.length = 2 ^ j := by
    intro r hr
    rw [List.mem_iff_getElem] at hr
    obtain ⟨i, hi, rfl⟩ := hr
    obtain ⟨hL, hC⟩ := hrep i (by omega) hi
    exact ⟨hL.2.1, hC.2.1⟩
  have hWl : ∀ l ∈ polys.map W, l.length = 2 ^ j := by
    intro l hl
    simp only [List.mem_map] at hl
    obtain ⟨r, hr, rfl⟩ := hl
    obtain ⟨a1, a2⟩ := hpl r hr
    simp only [hW, mulL, List.length_zipWith, nttM_length _ j _ (by simpa using a1 : (r.1.map (ci q)).length = 2 ^ j),
      nttM_length _ j _ (by simpa using a2 : (r.2.map (ci q)).length = 2 ^ j), Nat.min_self]
  -- per slot
  have hslot : ∀ s, s < 2 ^ j →
      (∀ t ∈ slotTerms rows s, Term.u32 t) ∧ cz q (dot (slotTerms rows s)) = (psum (2 ^ j) (polys.map W)).getD s 0 := by
    intro s hs
    have hrow : ∀ i (hi : i < rows.length) (hi' : i < polys.length),
        Term.u32 (((rows[i]).1.getD s (0, 0)).1, ((rows[i]).1.getD s (0, 0)).2, ((rows[i]).2.getD s (0, 0)).1, ((rows[i]).2.getD s (0, 0)).2) ∧
        cz q (Term.prod (((rows[i]).1.getD s (0, 0)).1, ((rows[i]).1.getD s (0, 0)).2, ((rows[i]).2.getD s (0, 0)).1, ((rows[i]).2.getD s (0, 0)).2)) =
          (W polys[i]).getD s 0 := by
      intro i hi hi'
      obtain ⟨hL, hC⟩ := hrep i hi hi'
      have ml := getD_mem (rows[i]).1 s (0, 0) (by rw [hL.1]; exact hs)
      have mc := getD_mem (rows[i]).2 s (0, 0) (by rw [hC.1]; exact hs)
      obtain ⟨l1, l2⟩ := hL.2.2.1 _ ml
      obtain ⟨c1, c2, c3⟩ := hC.2.2.1 _ mc
      refine ⟨⟨l1, l2, c1, c2⟩, ?_⟩
      have n1 := nttM_length (omegaZ P k j) j ((polys[i]).1.map (ci q)) (by simpa using hL.2.1)
      have n2 := nttM_length (omegaZ P k j) j ((polys[i]).2.map (ci q)) (by simpa using hC.2.1)
      have vL : (nttM (omegaZ P k j) j ((polys[i]).1.map (ci q))).getD s 0 =
          cz q ((rows[i]).1.getD s (0, 0)).1 + cz q ((rows[i]).1.getD s (0, 0)).2 * 2 ^ 32 := by
        rw [← hL.2.2.2, getD_map_lt _ _ s (0, 0) 0 (by rw [hL.1]; exact hs)]
      have vC : (nttM (omegaZ P k j) j ((polys[i]).2.map (ci q))).getD s 0 = cz q ((rows[i]).2.getD s (0, 0)).1 := by
        rw [← hC.2.2.2, getD_map_lt _ _ s (0, 0) 0 (by rw [hC.1]; exact hs)]
      simp only [hW]
      rw [getD_mulL _ _ s (by rw [n1]; exact hs) (by rw [n2]; exact hs), vL, vC]
      simp only [Term.prod]
      unfold cz at *
      push_cast
      rw [c3]; ring
    refine ⟨?_, ?_⟩
    · intro t ht
      simp only [slotTerms, List.mem_map] at ht
      obtain ⟨r, hr, rfl⟩ := ht
      rw [List.mem_iff_getElem] at hr
      obtain ⟨i, hi, rfl⟩ := hr
      exact (hrow i hi (by omega)).1
    · rw [getD_psum (2 ^ j) _ hWl s hs]
      have hd : ∀ ts : List Term, cz q (dot ts) = (ts.map (fun t => cz q (Term.prod t))).sum := by
        intro ts
        unfold dot
        induction ts with
        | nil => simp [cz]
        | cons t ts ih => simp only [List.map_cons, List.sum_cons]; rw [← ih]; unfold cz; push_cast; rfl
      rw [hd]
      congr 1
      apply List.ext_getElem
      · simp [slotTerms, hlen]
      · intro i h1 h2
        have hi : i < rows.length := by simpa [slotTerms] using h1
        have hi' : i < polys.length := by omega
        simp only [slotTerms, List.getElem_map]
        rw [(hrow i hi hi').2]
  have hval : ∀ s, s < 2 ^ j → cz q ((bbcSlots q h (2 ^ j) rows).getD s 0) = (psum (2 ^ j) (polys.map W)).getD s 0 ∧
      (bbcSlots q h (2 ^ j) rows).getD s 0 < 2 ^ 63 + 2 ^ 47 := by
    intro s hs
    obtain ⟨hu, hd⟩ := hslot s hs
    have e0 : (bbcSlots q h (2 ^ j) rows).getD s 0 = bbcK h (pow2Mod 32 q) (pow2Mod (32 + h) q) (slotTerms rows s) := by
      unfold bbcSlots
      rw [getD_map_lt _ _ s 0 0 (by simpa using hs)]
      simp [List.getD, hs]
    obtain ⟨_, hlt, hm⟩ := bbcK_spec q h (pow2Mod 32 q) (pow2Mod (32 + h) q) (slotTerms rows s) hu
      (by simp [slotTerms]; exact hell) hh hh2 (by omega) (by omega) (pow2Mod_spec 32 q (by omega) he1) (pow2Mod_spec (32 + h) q (by omega) he2)
    rw [e0]
    exact ⟨by rw [cz_eq_of_modEq hm, hd], hlt⟩
  have hslen : (bbcSlots q h (2 ^ j) rows).length = 2 ^ j := by simp [bbcSlots]
  have hbound : AllLe (2 ^ 63 + 2 ^ 47) (bbcSlots q h (2 ^ j) rows) := by
    intro x hx
    rw [List.mem_iff_getElem] at hx
    obtain ⟨s, hs, rfl⟩ := hx
    have := (hval s (by omega)).2
    rw [getD_eq_getElem' _ s 0 hs] at this
    exact le_of_lt this
  have hnegl : ∀ a ∈ polys.map (fun r => Hal.negMul r.1 r.2), a.length = 2 ^ j := by
    intro a ha
    simp only [List.mem_map] at ha
    obtain ⟨r, hr, rfl⟩ := ha
    rw [Hal.negMul_length]; exact (hpl r hr).2
  refine ⟨⟨hslen, sumPolys_length 2 _ _ hnegl, hbound.mono (by norm_num), ?_⟩, hbound⟩
  have hplen : (psum (2 ^ j) (polys.map W)).length = 2 ^ j := psum_length _ _ hWl
  have hS : (bbcSlots q h (2 ^ j) rows).map (cz q) = psum (2 ^ j) (polys.map W) := by
    apply List.ext_getElem
    · simp [hslen, hplen]
    · intro s h1 h2
      have hs : s < 2 ^ j := by simpa [hslen] using h1
      have := (hval s hs).1
      rw [getD_eq_getElem' _ s 0 (by omega), getD_eq_getElem' _ s 0 h2] at this
      simpa using this
  rw [hS]
  have hprod : polys.map W = (polys.map (fun r => negMulR (r.1.map (ci q)) (r.2.map (ci q)))).map (nttM (omegaZ P k j) j) := by
    rw [List.map_map]
    apply List.map_congr_left
    intro r hr
    obtain ⟨l1, l2⟩ := hpl r hr
    simp only [Function.comp, hW]
    rw [← nttM_mul _ j _ _ (by simpa using l1) (by simpa using l2) hω]
  have hnl : ∀ l ∈ polys.map (fun r => negMulR (r.1.map (ci q)) (r.2.map (ci q))), l.length = 2 ^ j := by
    intro l hl
    simp only [List.mem_map] at hl
    obtain ⟨r, hr, rfl⟩ := hl
    rw [negMulR_length]; simpa using (hpl r hr).2
  rw [hprod, ← nttM_psum _ j hω _ hnl, map_sumPolys q (2 ^ j) _ hnegl, List.map_map]
  congr 2
  apply List.map_congr_left
  intro r _
  simp only [Function.comp]
  exact (map_negMul q r.1 r.2).symm

end Ntt120
