import Poulpy.Lemmas.NttSum
import Poulpy.Lemmas.NttRange

/-!
NTT120 at HAL level.  `Rep P k j lane a`: the `u64` lane (one prime of one DFT-domain limb, as the
NTT120 back end stores it) *represents* the integer polynomial `a`: modulo the prime it is the
transform `nttM ω j a`.  Every DFT-domain HAL operation of the back end preserves the relation
(`rep_dft`, `rep_zero`, `rep_add`, `rep_sub`, `rep_neg`, products through `bbc`: `rep_slots`), and
`idft` of four lanes representing `a` returns exactly `a` when `|a| ≤ (Q−1)/2` (`idft_of_reps`).
-/

namespace Ntt120
open NttMath

/-- everything the lane proofs need about lane `k` at size `2^j` -/
structure LaneCtx (P : PrimeSet) (k j : Nat) : Prop where
  fwd : LaneFwd P k
  inv : LaneInv P k
  hj1 : 1 ≤ j
  hj : j ≤ 16

theorem laneCtx_of (P : PrimeSet) (ng : P.NttGood) (k j : Nat) (hk : k < 4) (hj1 : 1 ≤ j) (hj : j ≤ 16) : LaneCtx P k j :=
  ⟨(ng k hk).1, (ng k hk).2, hj1, hj⟩

/-- the `u64` lane represents the integer polynomial `a` (length `2^j`) modulo prime `k` -/
def Rep (P : PrimeSet) (k j : Nat) (lane : List Nat) (a : Poly) : Prop :=
  lane.length = 2 ^ j ∧ a.length = 2 ^ j ∧ AllLe (2 ^ 64 - 1) lane ∧
  lane.map (cz (P.qs.getD k 1)) = nttM (omegaZ P k j) j (a.map (ci (P.qs.getD k 1)))

theorem map_cz_replicate (q n : Nat) : (List.replicate n 0).map (cz q) = (zeros n : List (ZMod q)) := by
  simp [zeros, cz]

theorem map_ci_zeroP (q n : Nat) : (Hal.zeroP n).map (ci q) = (zeros n : List (ZMod q)) := by
  simp [Hal.zeroP, zeros, ci]

/-- `ntt_zero` / zero fill: the all-zero lane represents the zero polynomial -/
theorem rep_zero (P : PrimeSet) (k j : Nat) (c : LaneCtx P k j) : Rep P k j (List.replicate (2 ^ j) 0) (Hal.zeroP (2 ^ j)) := by
  refine ⟨by simp, by simp [Hal.zeroP], ?_, ?_⟩
  · intro x hx; simp only [List.mem_replicate] at hx; omega
  · rw [map_cz_replicate, map_ci_zeroP, nttM_zeros _ j (omegaZ_pow P k j c.fwd c.hj)]

/-- `vec_znx_dft_apply` on one limb (`b_from_znx64`, `ntt_ref`) -/
theorem rep_dft (P : PrimeSet) (k j : Nat) (c : LaneCtx P k j) (t : TableK) (ht : nttTableK P k (2 ^ j) = .ok t)
    (a : Poly) (ha : a.length = 2 ^ j) (hr : ∀ x ∈ a, -(2 ^ 63) ≤ x ∧ x < 2 ^ 63) :
    Rep P k j (nttK t (a.map (fun x => bFromU64K (P.qs.getD k 1) (asU64 x)))) a := by
  have hqg := c.fwd.q_gt
  have hql := c.fwd.q_lt
  obtain ⟨bp, up⟩ := map_bFrom (P.qs.getD k 1) (by omega) (by omega) a hr
  obtain ⟨e, n, u⟩ := nttK_real P k j c.fwd c.hj1 c.hj t ht _ (by simpa using ha) up
  exact ⟨n, ha, u, by rw [e, bp]⟩

theorem asU64_maskCoeff (x mask : Int) : asU64 (Hal.maskCoeff mask x) = asU64 x &&& asU64 mask := by
  have hl : Nat.land (x % 2 ^ 64).toNat (mask % 2 ^ 64).toNat < 2 ^ 64 := by
    apply Nat.and_lt_two_pow
    have := Int.emod_lt_of_pos x (by norm_num : (0 : Int) < 2 ^ 64)
    have := Int.emod_nonneg x (by norm_num : (2 ^ 64 : Int) ≠ 0)
    omega
  have e : Hal.maskCoeff mask x = w64 (Int.ofNat (Nat.land (x % 2 ^ 64).toNat (mask % 2 ^ 64).toNat)) := rfl
  rw [e, asU64_w64_natCast _ hl]
  unfold asU64
  rfl

theorem maskCoeff_range (x mask : Int) : -(2 ^ 63) ≤ Hal.maskCoeff mask x ∧ Hal.maskCoeff mask x < 2 ^ 63 := by
  unfold Hal.maskCoeff w64; simp only []; omega

theorem bFrom_masked_eq (q : Nat) (x mask : Int) :
    bFromU64K q (asU64 x &&& asU64 mask) = bFromU64K q (asU64 (Hal.maskCoeff mask x)) := by
  rw [asU64_maskCoeff]

theorem map_bFrom_masked (q : Nat) (a : Poly) (mask : Int) :
    a.map (fun x => bFromU64K q (asU64 x &&& asU64 mask)) =
      (a.map (Hal.maskCoeff mask)).map (fun x => bFromU64K q (asU64 x)) := by
  induction a with
  | nil => rfl
  | cons x xs ih => rw [List.map_cons, List.map_cons, List.map_cons, ih, bFrom_masked_eq]

theorem maskCoeff_all_range (a : Poly) (mask : Int) : ∀ x ∈ a.map (Hal.maskCoeff mask), -(2 ^ 63) ≤ x ∧ x < 2 ^ 63 := by
  intro x hx
  simp only [List.mem_map] at hx
  obtain ⟨y, _, rfl⟩ := hx
  exact maskCoeff_range y mask

/-- the masked last limb of `cnv_prepare_*` (`b_from_znx64_masked`, `ntt_ref`) represents the masked limb -/
theorem rep_dft_masked (P : PrimeSet) (k j : Nat) (c : LaneCtx P k j) (t : TableK) (ht : nttTableK P k (2 ^ j) = .ok t)
    (a : Poly) (mask : Int) (ha : a.length = 2 ^ j) :
    Rep P k j (nttK t (a.map (fun x => bFromU64K (P.qs.getD k 1) (asU64 x &&& asU64 mask)))) (a.map (Hal.maskCoeff mask)) := by
  rw [map_bFrom_masked]
  exact rep_dft P k j c t ht _ (by rw [List.length_map]; exact ha) (maskCoeff_all_range a mask)

/-! ### lazy add / sub / negate on lanes -/

theorem map_zipWith_cz (q : Nat) (f : Nat → Nat → Nat) (g : ZMod q → ZMod q → ZMod q)
    (h : ∀ a b, cz q (f a b) = g (cz q a) (cz q b)) : ∀ (u v : List Nat),
    (List.zipWith f u v).map (cz q) = List.zipWith g (u.map (cz q)) (v.map (cz q)) := by
  intro u
  induction u with
  | nil => intro v; simp
  | cons x xs ih => intro v; cases v with
    | nil => simp
    | cons y ys => simp [ih, h]

theorem allLe_zipWith (M : Nat) (f : Nat → Nat → Nat) (h : ∀ a b, f a b ≤ M) (u v : List Nat) : AllLe M (List.zipWith f u v) := by
  intro x hx
  rw [List.mem_iff_getElem] at hx
  obtain ⟨i, hi, rfl⟩ := hx
  rw [List.getElem_zipWith]; exact h _ _

/-- `vec_znx_dft_add` on one limb (reference kernel `% Q_SHIFTED`): represents `a + b`; every stored
value is below `2·Q_SHIFTED` -/
theorem rep_add (P : PrimeSet) (k j : Nat) (c : LaneCtx P k j) (hq30 : P.qs.getD k 1 < 2 ^ 30) (u v : List Nat) (a b : Poly)
    (hu : Rep P k j u a) (hv : Rep P k j v b) :
    Rep P k j (List.zipWith (addBbbK (P.qs.getD k 1)) u v) (Hal.polyAdd a b) ∧
    AllLe (2 * (P.qs.getD k 1 * 2 ^ 33) - 1) (List.zipWith (addBbbK (P.qs.getD k 1)) u v) := by
  have hqg := c.fwd.q_gt
  set q := P.qs.getD k 1 with hq
  have hω := omegaZ_pow P k j c.fwd c.hj
  have hb : ∀ x y, addBbbK q x y ≤ 2 * (q * 2 ^ 33) - 1 := fun x y => by
    have := (addBbbK_spec q x y (by omega) hq30).2.1; omega
  refine ⟨⟨by simp [hu.1, hv.1], by simp [Hal.polyAdd, hu.2.1, hv.2.1], ?_, ?_⟩, allLe_zipWith _ _ hb u v⟩
  · exact (allLe_zipWith _ _ hb u v).mono (by omega)
  · rw [map_zipWith_cz q (addBbbK q) (· + ·) (fun x y => by
      rw [cz_eq_of_modEq (addBbbK_spec q x y (by omega) hq30).2.2]; unfold cz; push_cast; rfl)]
    rw [hu.2.2.2, hv.2.2.2, map_polyAdd]
    exact (nttM_add _ j _ _ (by simpa using hu.2.1) (by simpa using hv.2.1) hω).symm

theorem map_polySub (q : Nat) (a b : Poly) : (Hal.polySub a b).map (ci q) = subL (a.map (ci q)) (b.map (ci q)) := by
  unfold Hal.polySub subL
  induction a generalizing b with
  | nil => simp
  | cons x xs ih => cases b with
    | nil => simp
    | cons y ys => simp [ih, ci]

theorem nttM_sub {R : Type*} [CommRing R] (ω : R) (k : Nat) (a b : List R) (ha : a.length = 2 ^ k) (hb : b.length = 2 ^ k) (hω : ω ^ 2 ^ k = -1) :
    nttM ω k (subL a b) = subL (nttM ω k a) (nttM ω k b) := by
  rw [nttM_eval ω k _ (by simp [ha, hb]) hω, nttM_eval ω k a ha hω, nttM_eval ω k b hb hω]
  unfold subL
  rw [map_zipWith_same]
  apply List.map_congr_left
  intro x _
  exact ev_subL a b (by rw [ha, hb]) _

/-- `vec_znx_dft_sub` on one limb: represents `a − b`, values below `2·Q_SHIFTED` -/
theorem rep_sub (P : PrimeSet) (k j : Nat) (c : LaneCtx P k j) (hq30 : P.qs.getD k 1 < 2 ^ 30) (u v : List Nat) (a b : Poly)
    (hu : Rep P k j u a) (hv : Rep P k j v b) :
    Rep P k j (List.zipWith (subBbbK (P.qs.getD k 1)) u v) (Hal.polySub a b) ∧
    AllLe (2 * (P.qs.getD k 1 * 2 ^ 33) - 1) (List.zipWith (subBbbK (P.qs.getD k 1)) u v) := by
  have hqg := c.fwd.q_gt
  set q := P.qs.getD k 1 with hq
  have hω := omegaZ_pow P k j c.fwd c.hj
  have hb : ∀ x y, subBbbK q x y ≤ 2 * (q * 2 ^ 33) - 1 := fun x y => by
    have := (subBbbK_spec q x y (by omega) hq30).2.1; omega
  refine ⟨⟨by simp [hu.1, hv.1], by simp [Hal.polySub, hu.2.1, hv.2.1], ?_, ?_⟩, allLe_zipWith _ _ hb u v⟩
  · exact (allLe_zipWith _ _ hb u v).mono (by omega)
  · rw [map_zipWith_cz q (subBbbK q) (· - ·) (fun x y => by
      have h := cz_eq_of_modEq (subBbbK_spec q x y (by omega) hq30).2.2
      unfold cz at *; push_cast at h
      rw [← h]; ring)]
    rw [hu.2.2.2, hv.2.2.2, map_polySub]
    exact (nttM_sub _ j _ _ (by simpa using hu.2.1) (by simpa using hv.2.1) hω).symm

/-! ### `idft` -/

/-- **`vec_znx_idft_apply` on one limb**: four lanes representing `a` give back exactly `a` when every
coefficient is at most `(Q−1)/2` in absolute value -/
theorem idft_of_reps (P : PrimeSet) (g : P.Good) (ng : P.NttGood) (j : Nat) (hj1 : 1 ≤ j) (hj : j ≤ 16)
    (l0 l1 l2 l3 : List Nat) (a : Poly)
    (h0 : Rep P 0 j l0 a) (h1 : Rep P 1 j l1 a) (h2 : Rep P 2 j l2 a) (h3 : Rep P 3 j l3 a)
    (hbound : ∀ i, i < 2 ^ j → -(((bigQ P : Int) - 1) / 2) ≤ a.getD i 0 ∧ a.getD i 0 ≤ ((bigQ P : Int) - 1) / 2) :
    (List.range (2 ^ j)).map (fun i => bToZnx128Core P ((realIntt P (2 ^ j) 0 l0).getD i 0) ((realIntt P (2 ^ j) 1 l1).getD i 0)
      ((realIntt P (2 ^ j) 2 l2).getD i 0) ((realIntt P (2 ^ j) 3 l3).getD i 0)) = a := by
  have lane : ∀ k, k < 4 → ∀ (l : List Nat), Rep P k j l a → ∀ i, i < 2 ^ j →
      ((realIntt P (2 ^ j) k l).getD i 0 : Int) ≡ a.getD i 0 [ZMOD (P.qs.getD k 1 : Nat)] := by
    intro k hk l hl i hi
    obtain ⟨gf, gi⟩ := ng k hk
    obtain ⟨ti, hti⟩ := inttTableK_ok P k j gi hj1 hj
    rw [realIntt_eq P _ k ti hti]
    obtain ⟨e, _⟩ := inttK_real P k j gf gi hj1 hj ti hti l hl.1 hl.2.2.1
    rw [hl.2.2.2, inttM_nttM _ _ _ j (omegaInv_spec P k j gf gi hj).1 (nInv_spec P k j gf gi hj).1 _ (by simpa using hl.2.1)] at e
    exact getD_of_map_eq _ _ _ e i (by rw [hl.2.1]; exact hi)
  apply List.ext_getElem
  · simp [h0.2.1]
  · intro i hi1 hi2
    simp only [List.length_map, List.length_range] at hi1
    rw [List.getElem_map, List.getElem_range]
    have hb := hbound i hi1
    have e : a[i] = a.getD i 0 := by
      rw [List.getD_eq_getElem?_getD, List.getElem?_eq_getElem hi2]; rfl
    rw [e]
    exact bToZnx128Core_exact P g _ _ _ _ _ hb.1 hb.2 (lane 0 (by omega) l0 h0 i hi1) (lane 1 (by omega) l1 h1 i hi1)
      (lane 2 (by omega) l2 h2 i hi1) (lane 3 (by omega) l3 h3 i hi1)

end Ntt120
