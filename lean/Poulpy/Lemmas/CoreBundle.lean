/-
C06: order of the sub-keys of a key bundle — sortedness, independence of the map iteration order,
consecutive disjoint stream segments.
-/
import Poulpy.Model.Core.Bundle

namespace CoreEnc

theorem insertGal_perm (x : Int) : ∀ l : List Int, (Core.insertGal x l).Perm (x :: l) := by
  intro l
  induction l with
  | nil => exact List.Perm.refl _
  | cons y r ih =>
    unfold Core.insertGal
    split
    · exact List.Perm.refl _
    · exact (List.Perm.cons y ih).trans (List.Perm.swap x y r)

theorem insertGal_pairwise (x : Int) : ∀ l : List Int, l.Pairwise (fun a b => a ≤ b) → (Core.insertGal x l).Pairwise (fun a b => a ≤ b) := by
  intro l
  induction l with
  | nil => intro _; simp [Core.insertGal]
  | cons y r ih =>
    intro h
    have hy := (List.pairwise_cons.mp h).1
    have hr := (List.pairwise_cons.mp h).2
    unfold Core.insertGal
    split
    · rename_i hxy
      refine List.pairwise_cons.mpr ⟨?_, h⟩
      intro a ha
      rcases List.mem_cons.mp ha with rfl | ha
      · exact hxy
      · exact Int.le_trans hxy (hy a ha)
    · rename_i hxy
      refine List.pairwise_cons.mpr ⟨?_, ih hr⟩
      intro a ha
      rcases List.mem_cons.mp ((insertGal_perm x r).mem_iff.mp ha) with rfl | ha
      · omega
      · exact hy a ha

theorem sortedGal_pairwise (gal : List Int) : (Core.sortedGal gal).Pairwise (fun a b => a ≤ b) := by
  unfold Core.sortedGal
  induction gal with
  | nil => simp
  | cons x r ih => exact insertGal_pairwise x _ ih

theorem sortedGal_perm (gal : List Int) : (Core.sortedGal gal).Perm gal := by
  unfold Core.sortedGal
  induction gal with
  | nil => exact List.Perm.refl _
  | cons x r ih => exact (insertGal_perm x _).trans (List.Perm.cons x ih)

theorem sortedGal_of_perm {gal gal' : List Int} (h : gal.Perm gal') : Core.sortedGal gal = Core.sortedGal gal' := by
  apply List.Perm.eq_of_pairwise (le := fun a b => a ≤ b) _ (sortedGal_pairwise gal) (sortedGal_pairwise gal')
  · exact (sortedGal_perm gal).trans (h.trans (sortedGal_perm gal').symm)
  · intro a b _ _ h1 h2; omega

theorem segments_length (use : Core.SubKey → Core.Use) : ∀ (o : List Core.SubKey) (ma er : Nat), (Core.segments use o ma er).length = o.length := by
  intro o; induction o with
  | nil => intro _ _; rfl
  | cons k r ih => intro ma er; simp [Core.segments, ih]

theorem segments_get (use : Core.SubKey → Core.Use) : ∀ (o : List Core.SubKey) (ma er i : Nat),
    (Core.segments use o ma er)[i]? = (o[i]?).map (fun k =>
      (k, ma + ((o.take i).map (fun k => (use k).maskWords)).sum, (use k).maskWords,
          er + ((o.take i).map (fun k => (use k).errPolys)).sum, (use k).errPolys)) := by
  intro o
  induction o with
  | nil => intro _ _ i; simp [Core.segments]
  | cons k r ih =>
    intro ma er i
    cases i with
    | zero => simp [Core.segments]
    | succ j =>
      simp only [Core.segments, List.getElem?_cons_succ, ih, List.take_succ_cons, List.map_cons, List.sum_cons]
      cases r[j]? with
      | none => rfl
      | some k' => simp only [Option.map_some, Nat.add_assoc]

theorem sum_take_mono : ∀ (l : List Nat) (a b : Nat), a ≤ b → (l.take a).sum ≤ (l.take b).sum := by
  intro l
  induction l with
  | nil => intro a b _; simp
  | cons x r ih =>
    intro a b h
    cases a with
    | zero => simp
    | succ a' =>
      cases b with
      | zero => omega
      | succ b' => simp only [List.take_succ_cons, List.sum_cons]; have := ih a' b' (by omega); omega

theorem sum_take_succ (l : List Nat) (i : Nat) (x : Nat) (h : l[i]? = some x) : (l.take (i + 1)).sum = (l.take i).sum + x := by
  rw [List.take_succ, h]; simp

/-- segment `i` ends where a later segment `j` has not yet begun (both streams) -/
theorem segments_disjoint (use : Core.SubKey → Core.Use) (o : List Core.SubKey) (ma er i j : Nat) (hij : i < j)
    (ki kj : Core.SubKey) (mi li ei ni mj lj ej nj : Nat)
    (hi : (Core.segments use o ma er)[i]? = some (ki, mi, li, ei, ni))
    (hj : (Core.segments use o ma er)[j]? = some (kj, mj, lj, ej, nj)) : mi + li ≤ mj ∧ ei + ni ≤ ej := by
  rw [segments_get] at hi hj
  cases hoi : o[i]? with
  | none => simp [hoi] at hi
  | some a =>
    cases hoj : o[j]? with
    | none => simp [hoj] at hj
    | some b =>
      simp only [hoi, hoj, Option.map_some, Option.some.injEq, Prod.mk.injEq] at hi hj
      obtain ⟨rfl, rfl, rfl, rfl, rfl⟩ := hi
      obtain ⟨rfl, rfl, rfl, rfl, rfl⟩ := hj
      have h1 := sum_take_succ (o.map (fun k => (use k).maskWords)) i (use a).maskWords (by simp [hoi])
      have h2 := sum_take_succ (o.map (fun k => (use k).errPolys)) i (use a).errPolys (by simp [hoi])
      have m1 := sum_take_mono (o.map (fun k => (use k).maskWords)) (i + 1) j hij
      have m2 := sum_take_mono (o.map (fun k => (use k).errPolys)) (i + 1) j hij
      simp only [← List.map_take] at h1 h2 m1 m2
      omega

end CoreEnc
