/-
Helper lemmas for C01: head-room of the exact phase from norm bounds.
-/
import Poulpy.Lemmas.CoreEncDec

namespace CoreEnc
open NormL

/-- `Σ ‖sᵢ‖₁` -/
def sumNorm1 (sk : List Poly) : Int := (sk.map norm1).sum

theorem sumNorm1_nonneg (sk : List Poly) : 0 ≤ sumNorm1 sk := by
  unfold sumNorm1
  induction sk with
  | nil => simp
  | cons s ss ih => simp only [List.map_cons, List.sum_cons]; have := norm1_nonneg s; linarith

theorem polyAdd_bounded {B1 B2 : Int} (p q : Poly) (hp : ∀ x ∈ p, |x| ≤ B1) (hq : ∀ y ∈ q, |y| ≤ B2) :
    ∀ z ∈ Hal.polyAdd p q, |z| ≤ B1 + B2 := by
  unfold Hal.polyAdd
  apply zipWith_bound (· + ·) _ p q hp hq
  intro x y hx hy
  have := abs_add_le x y
  show |x + y| ≤ B1 + B2
  linarith

theorem colAddSame_bounded {B1 B2 : Int} : ∀ (x y : Col), Bounded B1 x → Bounded B2 y → Bounded (B1 + B2) (Core.colAddSame x y) := by
  intro x
  induction x with
  | nil => intro y _ _ l hl; simp [Core.colAddSame] at hl
  | cons p ps ih =>
    intro y hx hy l hl
    cases y with
    | nil => simp [Core.colAddSame] at hl
    | cons q qs =>
      simp only [Core.colAddSame, List.zipWith_cons_cons, List.mem_cons] at hl
      rcases hl with rfl | hl
      · exact polyAdd_bounded p q (hx p (by simp)) (hy q (by simp))
      · exact ih qs (fun l hl => hx l (by simp [hl])) (fun l hl => hy l (by simp [hl])) l hl

/-- every coefficient of the exact phase is at most `B₀ + (Σ‖sᵢ‖₁)·A` when the body is bounded by `B₀`
and the masks by `A` -/
theorem phaseFold_bounded {A : Int} (hA : 0 ≤ A) : ∀ (sk : List Poly) (masks : List Col) (acc : Col) (B0 : Int),
    Bounded B0 acc → (∀ a ∈ masks, Bounded A a) → Bounded (B0 + sumNorm1 sk * A) (phaseFold sk masks acc) := by
  intro sk
  induction sk with
  | nil =>
    intro masks acc B0 h _
    cases masks <;> simpa [phaseFold, sumNorm1] using h
  | cons s ss ih =>
    intro masks acc B0 h hm
    cases masks with
    | nil =>
      simp only [phaseFold]
      intro l hl x hx
      have := h l hl x hx
      have h1 := sumNorm1_nonneg (s :: ss)
      nlinarith
    | cons a as =>
      simp only [phaseFold]
      have h1 := colAddSame_bounded acc (Core.colMulPoly s a) h (colMulPoly_bounded s a (hm a (by simp)))
      have h2 := ih as _ _ h1 (fun x hx => hm x (by simp [hx]))
      intro l hl x hx
      have := h2 l hl x hx
      simp only [sumNorm1, List.map_cons, List.sum_cons] at this ⊢
      linarith

end CoreEnc
