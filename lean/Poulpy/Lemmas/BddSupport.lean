import Poulpy.Model.Bdd
/-
Support lemma for the BDD evaluator model: the value of a circuit depends on the input assignment only
through the input bits its `cmux` nodes name.  Kernel-only (no `bv_decide`, no Mathlib).
-/

/-- every `cmux` of the node list selects on an input bit of `S` -/
def suppIn (S : List Nat) (nodes : List Node) : Bool :=
  nodes.all fun nd => match nd with
    | .cmux b _ _ => S.contains b
    | _ => true

theorem stepNode_congr (inp inp' : Nat → Bool) (prev : List (Option Bool)) (j : Nat) (nd : Node)
    (h : ∀ b hi lo, nd = .cmux b hi lo → inp b = inp' b) : stepNode inp prev j nd = stepNode inp' prev j nd := by
  cases nd with
  | cmux b hi lo => simp only [stepNode]; rw [h b hi lo rfl]
  | copy => rfl
  | none => rfl

theorem stepLevel_congr (inp inp' : Nat → Bool) (prev : List (Option Bool)) (lv : List Node)
    (h : ∀ nd ∈ lv, ∀ b hi lo, nd = .cmux b hi lo → inp b = inp' b) :
    stepLevel inp prev lv = stepLevel inp' prev lv := by
  unfold stepLevel
  apply List.ext_getElem?
  intro j
  simp only [List.getElem?_mapIdx]
  cases hj : lv[j]? with
  | none => rfl
  | some nd =>
    simp only [Option.map_some]
    rw [stepNode_congr inp inp' prev j nd (h nd (List.mem_of_getElem? hj))]

theorem evalLevels_congr (inp inp' : Nat → Bool) : ∀ (levels : List (List Node)) (st : List (Option Bool)),
    (∀ lv ∈ levels, ∀ nd ∈ lv, ∀ b hi lo, nd = .cmux b hi lo → inp b = inp' b) →
    evalLevels inp st levels = evalLevels inp' st levels := by
  intro levels
  induction levels with
  | nil => intro st _; rfl
  | cons lv rest ih =>
    intro st h
    simp only [evalLevels]
    rw [stepLevel_congr inp inp' st lv (h lv List.mem_cons_self)]
    exact ih _ (fun l hl => h l (List.mem_cons_of_mem _ hl))

theorem mem_chunksAux (w : Nat) : ∀ (fuel : Nat) (l : List Node) (lv : List Node), lv ∈ chunksAux w fuel l →
    ∀ nd ∈ lv, nd ∈ l := by
  intro fuel
  induction fuel with
  | zero => intro l lv h; simp [chunksAux] at h
  | succ f ih =>
    intro l lv h nd hnd
    unfold chunksAux at h
    split at h
    · simp at h
    · rcases List.mem_cons.1 h with h | h
      · subst h; exact List.mem_of_mem_take hnd
      · exact List.mem_of_mem_drop (ih _ _ h nd hnd)

/-- **support lemma**: two assignments that agree on the bits named by the circuit's `cmux` nodes give the
same result (including the same `none`). -/
theorem evalFlat_congr (nIn w : Nat) (nodes : List Node) (S : List Nat) (hS : suppIn S nodes = true)
    (inp inp' : Nat → Bool) (hag : ∀ b ∈ S, inp b = inp' b) :
    evalFlat nIn w nodes inp = evalFlat nIn w nodes inp' := by
  have hnode : ∀ nd ∈ nodes, ∀ b hi lo, nd = .cmux b hi lo → inp b = inp' b := by
    intro nd hnd b hi lo he
    have := List.all_eq_true.1 hS nd hnd
    subst he
    simp only [List.contains_iff_mem] at this
    exact hag b (by simpa using this)
  unfold evalFlat
  split
  · rfl
  · split
    · unfold evalCircuit
      rw [evalLevels_congr inp inp' (chunks w nodes) (initState w)
        (fun lv hlv nd hnd => hnode nd (mem_chunksAux w _ _ lv hlv nd hnd))]
    · rfl

/-- circuits whose support is within two input bits `i`, `j`: equal to `f (inp i) (inp j)` on every
assignment as soon as they are on the four assignments of those two bits -/
theorem evalFlat_of_support2 (nIn w : Nat) (nodes : List Node) (i j : Nat) (f : Bool → Bool → Bool)
    (hS : suppIn [i, j] nodes = true)
    (h4 : ∀ x y : Bool, evalFlat nIn w nodes (fun k => if k = i then x else if k = j then y else false) = some (f x y))
    (inp : Nat → Bool) : evalFlat nIn w nodes inp = some (f (inp i) (inp j)) := by
  rw [← h4 (inp i) (inp j)]
  apply evalFlat_congr nIn w nodes [i, j] hS
  intro b hb
  simp only [List.mem_cons, List.not_mem_nil, or_false] at hb
  rcases hb with hb | hb
  · subst hb; simp
  · subst hb
    by_cases h : b = i
    · subst h; simp
    · simp [h]

/-- one input bit of support -/
theorem evalFlat_of_support1 (nIn w : Nat) (nodes : List Node) (i : Nat) (f : Bool → Bool)
    (hS : suppIn [i] nodes = true)
    (h2 : ∀ x : Bool, evalFlat nIn w nodes (fun k => if k = i then x else false) = some (f x))
    (inp : Nat → Bool) : evalFlat nIn w nodes inp = some (f (inp i)) := by
  rw [← h2 (inp i)]
  apply evalFlat_congr nIn w nodes [i] hS
  intro b hb
  simp only [List.mem_cons, List.not_mem_nil, or_false] at hb
  subst hb; simp
