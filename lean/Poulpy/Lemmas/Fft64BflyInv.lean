import Poulpy.Lemmas.Fft64Bfly

open Complex

namespace Fft64
open F64

/-- the complex twiddle of an inverse-table entry: `inv_itwiddle` multiplies by `−i·w` -/
noncomputable def twCi (t : Tw) : ℂ := if t.imode then -I * cval (t.re, t.im) else cval (t.re, t.im)

theorem norm_twCi (t : Tw) : ‖twCi t‖ = ‖cval (t.re, t.im)‖ := by
  unfold twCi; split <;> simp

/-- the rounded product of `inv_itwiddle`: `(rd·wi + id·wr, (−rd)·wr + id·wi) ≈ d·(−i·w)` -/
theorem prod_stage_i (d : C64) (wr wi : Nat) (hd : CFin d) (hwr : Fin64 wr) (hwi : Fin64 wi) (M W : ℝ)
    (hM : ‖cval d‖ ≤ M) (hW : ‖cval (wr, wi)‖ ≤ W) (hP1 : (2:ℝ) ^ (-1022:Int) ≤ M * W) (hP2 : M * W ≤ (2:ℝ) ^ (1000:Int)) :
    Fin64 (add (mul d.1 wi) (mul d.2 wr)) ∧ Fin64 (add (mul (neg d.1) wr) (mul d.2 wi)) ∧
    ‖cval (add (mul d.1 wi) (mul d.2 wr), add (mul (neg d.1) wr) (mul d.2 wi)) - cval d * (-I * cval (wr, wi))‖
      ≤ 3 / 2 * (κ * (M * W)) := by
  have hM0 : 0 ≤ M := le_trans (norm_nonneg _) hM
  have hW0 : 0 ≤ W := le_trans (norm_nonneg _) hW
  have b1 := le_trans (abs_re_le_norm (cval d)) hM
  have b2 := le_trans (abs_im_le_norm (cval d)) hM
  have w1 := le_trans (abs_re_le_norm (cval (wr, wi))) hW
  have w2 := le_trans (abs_im_le_norm (cval (wr, wi))) hW
  simp only [cval_re, cval_im] at b1 b2 w1 w2
  obtain ⟨fn, vn⟩ := neg_spec d.1 hd.1
  have pr : ∀ x y : ℝ, |x| ≤ M → |y| ≤ W → |x * y| ≤ M * W := by
    intro x y hx hy; rw [abs_mul]; exact mul_le_mul hx hy (abs_nonneg _) hM0
  have hn : ‖cval d * (-I * cval (wr, wi))‖ ≤ M * W := by
    rw [Complex.norm_mul, Complex.norm_mul, norm_neg, Complex.norm_I, one_mul]
    exact mul_le_mul hM hW (norm_nonneg _) hM0
  have hre := le_trans (abs_re_le_norm _) hn
  have him := le_trans (abs_im_le_norm _) hn
  have ere : (cval d * (-I * cval (wr, wi))).re = val d.1 * val wi + val d.2 * val wr := by
    simp [cval]; ring
  have eim : (cval d * (-I * cval (wr, wi))).im = val (neg d.1) * val wr + val d.2 * val wi := by
    rw [vn]; simp [cval]; ring
  rw [ere] at hre; rw [eim] at him
  have b1' : |val (neg d.1)| ≤ M := by rw [vn, abs_neg]; exact b1
  obtain ⟨f1, e1⟩ := dot2_add d.1 wi d.2 wr (M * W) hd.1 hwi hd.2 hwr (pr _ _ b1 w2) (pr _ _ b2 w1) hre hP1 hP2
  obtain ⟨f2, e2⟩ := dot2_add (neg d.1) wr d.2 wi (M * W) fn hwr hd.2 hwi (pr _ _ b1' w1) (pr _ _ b2 w2) him hP1 hP2
  refine ⟨f1, f2, ?_⟩
  apply norm_le_of_comp_abs _ _ (mul_nonneg κ_nonneg (mul_nonneg hM0 hW0))
  · rw [Complex.sub_re, ere]; simp only [cval_re]
    unfold κ; convert e1 using 1; ring
  · rw [Complex.sub_im, eim]; simp only [cval_im]
    unfold κ; convert e2 using 1; ring

/-- error of one inverse butterfly relative to the bound `M` on its two inputs -/
noncomputable def γi (τ : ℝ) : ℝ := 2 * u + 2 * (1 + u) * (τ + 3 / 2 * κ * (1 + τ))

theorem bflyInv_err (t : Tw) (a b : C64) (ω : ℂ) (τ M : ℝ) (ht : TwFin t) (ha : CFin a) (hb : CFin b)
    (hω : ‖ω‖ = 1) (hτ : ‖twCi t - ω‖ ≤ τ) (hτ1 : τ ≤ 1) (hMa : ‖cval a‖ ≤ M) (hMb : ‖cval b‖ ≤ M)
    (hM1 : 1 ≤ M) (hM2 : M ≤ (2:ℝ) ^ (997:Int)) :
    CFin (bflyInv t a b).1 ∧ CFin (bflyInv t a b).2 ∧
    ‖cval (bflyInv t a b).1 - (cval a + cval b)‖ ≤ γi τ * M ∧
    ‖cval (bflyInv t a b).2 - (cval a - cval b) * ω‖ ≤ γi τ * M := by
  have hτ0 : 0 ≤ τ := le_trans (norm_nonneg _) hτ
  have hM0 : (0:ℝ) ≤ M := by linarith
  have hu := u_pos
  have hu1 := u_le_one
  have hκ := κ_nonneg
  have hκ8 := κ_le
  set w : ℂ := cval (t.re, t.im) with hw
  have hW : ‖w‖ ≤ 1 + τ := by
    rw [hw, ← norm_twCi]
    have := norm_sub_norm_le (twCi t) ω
    rw [hω] at this; linarith
  have hS : ‖cval a‖ + ‖cval (b.1, b.2)‖ ≤ 2 * M := by
    show ‖cval a‖ + ‖cval b‖ ≤ 2 * M; linarith
  have hS2 : 2 * M ≤ (2:ℝ) ^ (1001:Int) := by
    have e : (2:ℝ) ^ (1001:Int) = 16 * (2:ℝ) ^ (997:Int) := by
      rw [show (1001:Int) = 4 + 997 by norm_num, zpow_add₀ (by norm_num : (2:ℝ) ≠ 0)]; norm_num
    rw [e]
    have hT : (0:ℝ) < (2:ℝ) ^ (997:Int) := by positivity
    generalize (2:ℝ) ^ (997:Int) = T at *
    clear e
    linarith
  obtain ⟨⟨cs, es⟩, ⟨cd, ed⟩, _, _⟩ := out_stage a b.1 b.2 ha hb.1 hb.2 (2 * M) hS hS2
  change ‖cval (add a.1 b.1, add a.2 b.2) - (cval a + cval b)‖ ≤ u * (2 * M) at es
  change ‖cval (sub a.1 b.1, sub a.2 b.2) - (cval a - cval b)‖ ≤ u * (2 * M) at ed
  set dc : C64 := (sub a.1 b.1, sub a.2 b.2) with hdc
  set M' := 2 * M * (1 + u) with hM'
  have hdn : ‖cval dc‖ ≤ M' := by
    have h1 := norm_le_insert' (cval dc) (cval a - cval b)
    have h2 := norm_sub_le (cval a) (cval b)
    rw [hM']; nlinarith
  have hP1 : (2:ℝ) ^ (-1022:Int) ≤ M' * (1 + τ) := by
    have : (2:ℝ) ^ (-1022:Int) ≤ 1 := zpow_le_one_of_nonpos₀ (by norm_num) (by norm_num)
    have : 1 ≤ M' := by rw [hM']; nlinarith
    nlinarith
  have hP2 : M' * (1 + τ) ≤ (2:ℝ) ^ (1000:Int) := by
    have e : (2:ℝ) ^ (1000:Int) = (2:ℝ) ^ (997:Int) * 8 := by
      rw [show (1000:Int) = 997 + 3 by norm_num, zpow_add₀ (by norm_num : (2:ℝ) ≠ 0)]; norm_num
    have h1 : M' ≤ (2:ℝ) ^ (997:Int) * 4 := by
      rw [hM']
      have hT : (0:ℝ) < (2:ℝ) ^ (997:Int) := by positivity
      generalize (2:ℝ) ^ (997:Int) = T at *
      clear e
      nlinarith
    rw [e]
    calc M' * (1 + τ) ≤ ((2:ℝ) ^ (997:Int) * 4) * 2 := mul_le_mul h1 (by linarith) (by linarith) (by positivity)
      _ = (2:ℝ) ^ (997:Int) * 8 := by ring
  set ε := 3 / 2 * (κ * (M' * (1 + τ))) with hε
  have hγ : ε + M' * τ + u * (2 * M) = γi τ * M := by rw [hε, hM']; unfold γi; ring
  have hγ2 : u * (2 * M) ≤ γi τ * M := by
    rw [← hγ]; have : 0 ≤ ε := by rw [hε, hM']; positivity
    have : 0 ≤ M' * τ := by rw [hM']; positivity
    linarith
  have tail : ∀ p : C64, ∀ weff : ℂ, ‖weff - ω‖ ≤ τ → ‖cval p - cval dc * weff‖ ≤ ε →
      ‖cval p - (cval a - cval b) * ω‖ ≤ γi τ * M := by
    intro p weff hwe hp
    have e1 : cval p - (cval a - cval b) * ω =
        (cval p - cval dc * weff) + cval dc * (weff - ω) + (cval dc - (cval a - cval b)) * ω := by ring
    rw [e1, ← hγ]
    refine le_trans (norm_add₃_le) ?_
    rw [Complex.norm_mul, Complex.norm_mul, hω, mul_one]
    have : ‖cval dc‖ * ‖weff - ω‖ ≤ M' * τ := mul_le_mul hdn hwe (norm_nonneg _) (by rw [hM']; positivity)
    linarith
  unfold bflyInv
  simp only
  split
  · rename_i him
    have hωw : ‖-I * w - ω‖ ≤ τ := by simpa [twCi, him, hw] using hτ
    obtain ⟨f1, f2, hp⟩ := prod_stage_i dc t.re t.im cd ht.1 ht.2 M' (1 + τ) hdn hW hP1 hP2
    exact ⟨cs, ⟨f1, f2⟩, le_trans es hγ2, tail _ _ hωw hp⟩
  · rename_i him
    have hωw : ‖w - ω‖ ≤ τ := by simpa [twCi, him, hw] using hτ
    obtain ⟨f1, f2, hp⟩ := prod_stage dc t.re t.im cd ht.1 ht.2 M' (1 + τ) hdn hW hP1 hP2
    exact ⟨cs, ⟨f1, f2⟩, le_trans es hγ2, tail _ _ hωw hp⟩

end Fft64
