import Poulpy.Lemmas.CoreOpsOps

/-!
GGSW operations (`operations/ggsw.rs`): the entry loop, and the statement that every `(row, col)` GLWE
of the result is the GLWE operation applied to the corresponding cell, so the phase statement lifts.
-/

namespace C02L
open Hal Core Core.Ops

theorem forEntries_spec (f : Nat → GLWE → Outcome GLWE) (G : Nat → GLWE) (cnt : Nat) :
    ∀ (lo : Nat) (l : List GLWE),
    lo + cnt ≤ l.length →
    (∀ idx, lo ≤ idx → idx < lo + cnt → ∀ e, l[idx]? = some e → f idx e = .ok (G idx)) →
    ∃ l', forEntries cnt lo f l = .ok l' ∧ l'.length = l.length ∧
      ∀ idx, l'[idx]? = if lo ≤ idx ∧ idx < lo + cnt then some (G idx) else l[idx]? := by
  induction cnt with
  | zero =>
    intro lo l _ _
    exact ⟨l, rfl, rfl, fun idx => by simp⟩
  | succ cnt ih =>
    intro lo l hlen hf
    have hlo : lo < l.length := by omega
    have e0 : l[lo]? = some l[lo] := List.getElem?_eq_getElem hlo
    have h0 := hf lo (Nat.le_refl _) (by omega) _ e0
    obtain ⟨l', h1, h2, h3⟩ := ih (lo + 1) (l.set lo (G lo)) (by simp; omega)
      (fun idx a b e he => hf idx (by omega) (by omega) e (by
        rw [List.getElem?_set] at he
        have : lo ≠ idx := by omega
        simpa [this] using he))
    refine ⟨l', ?_, by simpa using h2, fun idx => ?_⟩
    · show (match l[lo]? with
        | none => Outcome.panic "assert"
        | some e => Ops.bind (f lo e) (fun e' => forEntries cnt (lo + 1) f (l.set lo e'))) = _
      rw [e0]
      simp only [h0, Ops.bind]
      exact h1
    · rw [h3 idx, List.getElem?_set]
      by_cases c1 : lo = idx
      · subst c1
        have : ¬ (lo + 1 ≤ lo ∧ lo < lo + 1 + cnt) := by omega
        have t : lo ≤ lo ∧ lo < lo + (cnt + 1) := by omega
        simp [this, t, hlo]
      · by_cases c2 : lo + 1 ≤ idx ∧ idx < lo + 1 + cnt
        · have t : lo ≤ idx ∧ idx < lo + (cnt + 1) := by omega
          simp [c2, t]
        · have t : ¬ (lo ≤ idx ∧ idx < lo + (cnt + 1)) := by omega
          simp [c1, c2, t]

/-- well-formed GGSW: `dnum·(rank+1)` cells, each a well-formed GLWE of the GGSW's rank and radix -/
def GGWF (N : Nat) (g : GGSW) : Prop :=
  g.cts.length = g.dnum * (g.rank + 1) ∧ ∀ c ∈ g.cts, GWF N c ∧ c.rank = g.rank ∧ c.base2k = g.base2k

def GGSmall (g : GGSW) : Prop := ∀ c ∈ g.cts, GSmall c

/-- `ggsw_rotate`: every cell of the first `res.dnum` rows is `glwe_rotate` of the corresponding cells -/
theorem ggswRotate_cells {N : Nat} (k : Int) {res a : GGSW} (hr : GGWF N res) (ha : GGWF N a) (sa : GGSmall a)
    (hd : res.dnum ≤ a.dnum) (hds : res.dsize = a.dsize) (hrk : res.rank = a.rank) (hb : res.base2k = a.base2k) :
    ∃ r', ggswRotate N k res a = .ok r' ∧ r'.cts.length = res.cts.length ∧ r'.dnum = res.dnum ∧ r'.rank = res.rank ∧
      ∀ idx, idx < res.dnum * (res.rank + 1) → ∃ cr ca c',
        res.cts[idx]? = some cr ∧ a.cts[idx]? = some ca ∧ glweRotate N k cr ca = .ok c' ∧ r'.cts[idx]? = some c' ∧
        Same cr c' ∧ GWF N c' ∧ ∀ s, phase s c' = (fit N cr.size (phase s ca)).map (rotP k) := by
  have hla : res.dnum * (res.rank + 1) ≤ a.cts.length := by
    rw [ha.1, ← hrk]; exact Nat.mul_le_mul_right _ hd
  -- the result of each cell, as a function of the index
  have cell : ∀ idx, idx < res.dnum * (res.rank + 1) → ∃ cr ca c',
      res.cts[idx]? = some cr ∧ a.cts[idx]? = some ca ∧ glweRotate N k cr ca = .ok c' ∧
      Same cr c' ∧ GWF N c' ∧ ∀ s, phase s c' = (fit N cr.size (phase s ca)).map (rotP k) := by
    intro idx hi
    have h1 : idx < res.cts.length := by rw [hr.1]; exact hi
    have h2 : idx < a.cts.length := by omega
    have mr := hr.2 _ (List.getElem_mem h1)
    have ma := ha.2 _ (List.getElem_mem h2)
    obtain ⟨c', e, s1, w, _, ph⟩ := rotate_ok k mr.1 ma.1 (sa _ (List.getElem_mem h2))
      (by rw [mr.2.2, ma.2.2, hb]) (by simp [mr.2.1, ma.2.1, hrk])
    exact ⟨_, _, c', List.getElem?_eq_getElem h1, List.getElem?_eq_getElem h2, e, s1, w, ph⟩
  let G : Nat → GLWE := fun idx =>
    match res.cts[idx]?, a.cts[idx]? with
    | some cr, some ca => (match glweRotate N k cr ca with | .ok c => c | _ => cr)
    | _, _ => { base2k := 0, k := 0, n := 0, cols := [] }
  unfold ggswRotate
  rw [check_true _ _ (by simpa using hd), check_true _ _ (beq_true hds), check_true _ _ (beq_true hrk)]
  obtain ⟨l', e1, e2, e3⟩ := forEntries_spec (fun idx e =>
      match a.cts[idx]? with
      | none => .panic "assert"
      | some ae => glweRotate N k e ae) G (res.dnum * (res.rank + 1)) 0 res.cts (by rw [hr.1]; omega)
    (fun idx _ hi e he => by
      obtain ⟨cr, ca, c', g1, g2, g3, _⟩ := cell idx (by omega)
      rw [he] at g1; cases g1
      simp only [g2, g3, G, he])
  refine ⟨{ res with cts := l' }, by erw [e1]; rfl, e2, rfl, rfl, fun idx hi => ?_⟩
  obtain ⟨cr, ca, c', g1, g2, g3, g4, g5, g6⟩ := cell idx hi
  refine ⟨cr, ca, c', g1, g2, g3, ?_, g4, g5, g6⟩
  show l'[idx]? = _
  rw [e3 idx]
  have : 0 ≤ idx ∧ idx < 0 + res.dnum * (res.rank + 1) := by omega
  simp only [this, and_self, if_true, G, g1, g2, g3]

/-- `ggsw_rotate_assign`: every cell is `glwe_rotate_assign` of itself -/
theorem ggswRotateAssign_cells {N : Nat} (k : Int) {res : GGSW} (hr : GGWF N res) (sr : GGSmall res) :
    ∃ r', ggswRotateAssign N k res = .ok r' ∧ r'.cts.length = res.cts.length ∧
      ∀ idx, idx < res.dnum * (res.rank + 1) → ∃ cr c',
        res.cts[idx]? = some cr ∧ glweRotateAssign N k cr = .ok c' ∧ r'.cts[idx]? = some c' ∧
        Same cr c' ∧ GWF N c' ∧ ∀ s, phase s c' = (phase s cr).map (rotP k) := by
  have cell : ∀ idx, idx < res.dnum * (res.rank + 1) → ∃ cr c',
      res.cts[idx]? = some cr ∧ glweRotateAssign N k cr = .ok c' ∧
      Same cr c' ∧ GWF N c' ∧ ∀ s, phase s c' = (phase s cr).map (rotP k) := by
    intro idx hi
    have h1 : idx < res.cts.length := by rw [hr.1]; exact hi
    have mr := hr.2 _ (List.getElem_mem h1)
    obtain ⟨c', e, s1, w, _, ph⟩ := rotateAssign_ok k mr.1 (sr _ (List.getElem_mem h1))
    exact ⟨_, c', List.getElem?_eq_getElem h1, e, s1, w, ph⟩
  let G : Nat → GLWE := fun idx =>
    match res.cts[idx]? with
    | some cr => (match glweRotateAssign N k cr with | .ok c => c | _ => cr)
    | none => { base2k := 0, k := 0, n := 0, cols := [] }
  unfold ggswRotateAssign
  obtain ⟨l', e1, e2, e3⟩ := forEntries_spec (fun _ e => glweRotateAssign N k e) G (res.dnum * (res.rank + 1)) 0 res.cts
    (by rw [hr.1]; omega)
    (fun idx _ hi e he => by
      obtain ⟨cr, c', g1, g3, _⟩ := cell idx (by omega)
      rw [he] at g1; cases g1
      simp only [g3, G, he])
  refine ⟨{ res with cts := l' }, by rw [e1]; rfl, e2, fun idx hi => ?_⟩
  obtain ⟨cr, c', g1, g3, g4, g5, g6⟩ := cell idx hi
  refine ⟨cr, c', g1, g3, ?_, g4, g5, g6⟩
  show l'[idx]? = _
  rw [e3 idx]
  have : 0 ≤ idx ∧ idx < 0 + res.dnum * (res.rank + 1) := by omega
  simp only [this, and_self, if_true, G, g1, g3]

end C02L
