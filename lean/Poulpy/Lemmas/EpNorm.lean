import Poulpy.Model.Core.Ep
import Poulpy.Lemmas.MulTensor

/-! List / option plumbing for the final normalisation of the external products. -/

namespace Core

theorem optOutcome_ok {α} (o : Option α) (v : α) (h : optOutcome o = .ok v) : o = some v := by
  cases o with
  | none => simp [optOutcome] at h
  | some x => simp [optOutcome] at h; rw [h]

theorem mapM_some_getD {α β} (f : α → Option β) (d : α) (d' : β) :
    ∀ (l : List α) (r : List β), l.mapM f = some r → ∀ i, i < l.length → f (l.getD i d) = some (r.getD i d')
  | [], r, _, i, hi => by simp at hi
  | x :: xs, r, h, i, hi => by
    rw [List.mapM_cons] at h
    cases hx : f x with
    | none => simp [hx] at h
    | some y =>
      cases hxs : xs.mapM f with
      | none => simp [hx, hxs] at h
      | some ys =>
        simp [hx, hxs] at h
        subst h
        cases i with
        | zero => simpa using hx
        | succ k =>
          have := mapM_some_getD f d d' xs ys hxs k (by simpa using hi)
          simpa using this

theorem epInternal_length (a : List Col) (g : EpGGSW) (res0 tmp0 : List Col) : (epInternal a g res0 tmp0).length = g.rank + 1 := by
  unfold epInternal
  split <;> simp

theorem mapM_some_of_forall {α β} (f : α → Option β) (gf : α → β) (l : List α) (h : ∀ x ∈ l, f x = some (gf x)) :
    l.mapM f = some (l.map gf) := by
  induction l with
  | nil => rfl
  | cons x xs ih =>
    rw [List.mapM_cons, h x List.mem_cons_self, ih (fun y hy => h y (List.mem_cons_of_mem _ hy))]
    rfl

theorem coefAt_ofCoefs (size : Nat) (cs : List (List Int)) (t : Nat) (ht : t < cs.length) (hl : (cs.getD t []).length = size) :
    coefAt (ofCoefs size cs) t = cs.getD t [] := by
  unfold coefAt ofCoefs
  rw [List.map_map]
  apply List.ext_getElem
  · simp only [List.length_map, List.length_range]; exact hl.symm
  · intro j h1 h2
    simp only [List.getElem_map, List.getElem_range, Function.comp]
    have e : (cs.map (fun c => c.getD j 0)).getD t 0 = (cs.getD t []).getD j 0 := by
      simp [List.getD_eq_getElem?_getD, ht]
    rw [e, List.getD_eq_getElem?_getD, List.getElem?_eq_getElem h2]
    rfl


end Core
