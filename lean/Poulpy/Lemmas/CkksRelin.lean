import Poulpy.Lemmas.CkksMulCt
import Poulpy.Lemmas.CkksKsNumeric
/-!
# C16, piece 5 (second half): `glwe_tensor_relinearize` (rank 1) is C03's key switch of the `s₁²` column

`Core.relinearize` on a rank-1 tensor `[T0, T1, T2]` in the key radix is: the gadget product `prodOf` of the fake ciphertext
`(T0, T2)` with the tensor key (exactly C03's `Ks.keyswitchInternal`, which also adds `T0` to column 0), `T1` added to column 1,
one normalisation per column.  `relinContract_of_adm` discharges `RelinContract` from C03's `keyswitchInternal_value`
(key relation + noise), `bigAdd_exact`, `covered_input_value` and the normalisation stage, both accumulator widths.
-/

namespace Ckks
open Hal Core Core.Ops C02L Ckks.Sem Ckks.CoreSem KsDec Ckks.Tensor

/-- the fake ciphertext whose key switch is the relinearisation: body `T0`, mask `T2` -/
def relinCt (b N : Nat) (T0 T2 : Col) : Ks.Ct := Ks.mkCt b N [T0, T2]

theorem relinCt_wf {N ts : Nat} (b : Nat) {T0 T2 : Col} (h0 : ColWF N ts T0) (h2 : ColWF N ts T2) :
    GWF N (relinCt b N T0 T2) ∧ (relinCt b N T0 T2).size = ts ∧ (relinCt b N T0 T2).rank = 1 ∧ (relinCt b N T0 T2).base2k = b := by
  have hsz : (relinCt b N T0 T2).size = ts := by simp [relinCt, Ks.mkCt, GLWE.size, h0.1]
  refine ⟨⟨rfl, by simp [relinCt, Ks.mkCt], ?_⟩, hsz, by simp [relinCt, Ks.mkCt, GLWE.rank], rfl⟩
  intro c hc
  rw [hsz]
  simp only [relinCt, Ks.mkCt, List.mem_cons, List.mem_nil_iff, or_false] at hc
  rcases hc with rfl | rfl
  · exact h0
  · exact h2

theorem aDftOf_relinCt {N ts : Nat} (b : Nat) {T0 T2 : Col} (h0 : ColWF N ts T0) (h2 : ColWF N ts T2) :
    aDftOf (relinCt b N T0 T2) = Core.mkBuf N 1 ts [T2] := by
  have hsz : (relinCt b N T0 T2).size = ts := (relinCt_wf b h0 h2).2.1
  have hrk : (relinCt b N T0 T2).rank = 1 := (relinCt_wf b h0 h2).2.2.1
  unfold aDftOf
  rw [hrk, hsz]
  simp only [Nat.add_sub_cancel, List.range_one, List.foldl_cons, List.foldl_nil]
  have hact : (Ks.bufOfCols (relinCt b N T0 T2).n ts (relinCt b N T0 T2).cols).act 1 = T2 := by
    simp [Hal.Buf.act, Ks.bufOfCols, relinCt, Ks.mkCt, List.take_of_length_le, h2.1]
  unfold Hal.opDftApply
  rw [hact]
  have hid : Hal.dftApplyCol N 1 0 ts T2 = T2 := by
    have := Ks.dftApplyCol_id N T2
    rw [h2.1] at this; exact this
  simp only [Ks.zeroBuf, relinCt, Ks.mkCt, hid, Hal.Buf.setAct, Core.mkBuf]
  simp [List.take_of_length_le, h2.1, Ks.zeroCol]

/-- **`glwe_tensor_relinearize` on a rank-1 tensor, unfolded**: the accumulators are the gadget product of `(T0, T2)` with the key plus
`T0`, `T1`; one normalisation per column -/
theorem relinearize_rank1 (big : Bool) {N ts : Nat} (b rs : Nat) (hb : 1 ≤ b) (T0 T1 T2 : Col) (h0 : ColWF N ts T0) (h2 : ColWF N ts T2)
    (g : GGLWE) (hgb : g.base2k = b) (hgn : g.n = N) (hci : g.colsIn = 1) (hco : g.colsOut = 2) :
    Core.relinearize big N b rs [T0, T1, T2] b g g.size (zeroC N g.colsOut g.size)
      = [Ks.bigAddSmallAssign big ((prodOf 1 (relinCt b N T0 T2) g.toKey).act 0) T0,
          Ks.bigAddSmallAssign big ((prodOf 1 (relinCt b N T0 T2) g.toKey).act 1) T1].mapM
          (fun c => Core.bigNormalizeOff big N b rs 0 c b) := by
  have hsz : (relinCt b N T0 T2).size = ts := (relinCt_wf b h0 h2).2.1
  have hds : (ts * b + b - 1) / b = ts := by
    have h1 : ts * b + b - 1 = b - 1 + b * ts := by rw [Nat.mul_comm]; omega
    rw [h1, Nat.add_mul_div_left _ _ (by omega), Nat.div_eq_of_lt (by omega)]; omega
  have hid : Hal.dftApplyCol N 1 0 ts T2 = T2 := by
    have := Ks.dftApplyCol_id N T2
    rw [h2.1] at this; exact this
  have hprod : Core.gglweProductDft [T2] g g.size (zeroC N 2 g.size)
      = [(prodOf 1 (relinCt b N T0 T2) g.toKey).act 0, (prodOf 1 (relinCt b N T0 T2) g.toKey).act 1] := by
    unfold Core.gglweProductDft prodOf
    rw [aDftOf_relinCt b h0 h2, hco, hci, hgn]
    simp only [List.getD_cons_zero, h2.1, List.range_succ, List.range_zero, List.map_append, List.map_cons, List.map_nil, List.nil_append,
      List.cons_append]
    rfl
  unfold Core.relinearize
  simp only [hgb, hci, hco, ne_eq, not_true_eq_false, if_false, if_true, List.getD_cons_zero, h0.1, hds, List.range_one, List.mapM_cons,
    List.mapM_nil, Nat.add_zero, hid]
  simp only [show ([T0, T1, T2] : List Col).getD 2 [] = T2 from rfl, Option.pure_def, Option.bind_eq_bind, Option.bind_some, hid, hprod]
  have hadd : (List.range 2).mapM (fun i => some (Core.bigAddSmallAssign big
        ([(prodOf 1 (relinCt b N T0 T2) g.toKey).act 0, (prodOf 1 (relinCt b N T0 T2) g.toKey).act 1].getD i [])
        (([T0, T1, T2] : List Col).getD i [])))
      = some [Ks.bigAddSmallAssign big ((prodOf 1 (relinCt b N T0 T2) g.toKey).act 0) T0,
          Ks.bigAddSmallAssign big ((prodOf 1 (relinCt b N T0 T2) g.toKey).act 1) T1] := by
    rw [NormOff.mapM_some_map _ (fun i => Core.bigAddSmallAssign big
        ([(prodOf 1 (relinCt b N T0 T2) g.toKey).act 0, (prodOf 1 (relinCt b N T0 T2) g.toKey).act 1].getD i [])
        (([T0, T1, T2] : List Col).getD i [])) _ (fun _ _ => rfl)]
    rfl
  rw [hadd]
  simp only [Option.bind_some, List.mapM_cons, List.mapM_nil, Option.pure_def, Option.bind_eq_bind]

/-- admissible tensor columns -/
def TensorCol (N ts : Nat) (H : Int) (T : Col) : Prop := ColWF N ts T ∧ ∀ l ∈ T, ∀ v ∈ l, |v| ≤ H

/-- **admissibility of the executed relinearisation** (rank 1): C03's hypotheses on the gadget product with the tensor key — the key is
in the evaluator's radix and encrypts `s₁⋆s₁` under `s` (`hkey`, with noise lists `EL` and whole multiples `KL`), covered regime,
accumulator head-room `Hp` and bounds `Gmax`, `Dmax` on C03's gadget-noise and dropped-limb terms **for the executed tensor** `(T0, T2)` -/
structure RelinAdm (big : Bool) (N b ts : Nat) (g : GGLWE) (s : List Poly) (EL KL : ℕ → ℕ → Poly) (Hp Gmax Dmax : Int)
    (T0 T2 : Col) : Prop where
  hgb : g.base2k = b
  hgn : g.n = N
  hci : g.colsIn = 1
  hco : g.colsOut = 2
  hD : 1 ≤ g.dsize
  hM : ∀ j q, (g.toPMat.entry j q).length = N
  hS : g.dnum * g.dsize ≤ g.size
  hcov1 : ts ≤ g.size
  hcov2 : ts ≤ g.dnum * g.dsize
  hs : s ≠ []
  hs1 : (s.getD 0 []).length = N
  hEL : ∀ i r, (EL i r).length = N
  hKL : ∀ i r, (KL i r).length = N
  hkey : ∀ i, i < 1 → ∀ r, r < g.dnum →
    Gadget.val (Ks.radix N b) g.size (Ks.keyPhase N s g.toPMat i r) =
      Ks.ι N (([Hal.negMul (s.getD 0 []) (s.getD 0 [])] : List Poly).getD i []) * Ks.radix N b ^ (g.size - (r + 1) * g.dsize)
        + Ks.ι N (EL i r) + Ks.radix N b ^ g.size * Ks.ι N (KL i r)
  hHp0 : 0 ≤ Hp
  hAcc : Hp + 3 * 2 ^ (b - 1) + 8 ≤ 2 ^ (bitsOf big - 2)
  hprod : ∀ i, i < 1 + 1 → ∀ l ∈ (prodOf 1 (relinCt b N T0 T2) g.toKey).act i, ∀ x ∈ l, |x| ≤ Hp
  hG : gadgetBound N b (aDftOf (relinCt b N T0 T2)) g.toKey EL ≤ Gmax
  hDr : dropBound N b s (aDftOf (relinCt b N T0 T2)) g.toKey ≤ Dmax

/-- scale bookkeeping of the relinearisation on one coefficient (`j = S_key − ts`) -/
theorem relin_compose (bts brs bj : Nat) (X' TP V gd e3 q3 qk GD U3 : Int) (hGD : 0 ≤ GD)
    (h3 : 2 ^ (bts + bj) * X' = 2 ^ brs * V + e3 + q3 * 2 ^ (brs + (bts + bj))) (he3 : |e3| ≤ U3 * 2 ^ (bts + bj))
    (hV : V = 2 ^ bj * TP + gd + 2 ^ (bts + bj) * qk) (hgd : |gd| ≤ GD) (k : Nat) (hk : brs ≤ bts + bj + k) :
    ∃ q e : Int, 2 ^ bts * X' = 2 ^ brs * TP + e + q * 2 ^ (brs + bts) ∧ |e| ≤ (GD * 2 ^ k + U3) * 2 ^ bts := by
  set e := 2 ^ bts * X' - 2 ^ brs * TP - (q3 + qk) * 2 ^ (brs + bts) with he
  have hkey : 2 ^ bj * e = 2 ^ brs * gd + e3 := by
    have e1 : (2 : Int) ^ (bts + bj) = 2 ^ bts * 2 ^ bj := pow_add _ _ _
    have e2 : (2 : Int) ^ (brs + (bts + bj)) = 2 ^ brs * (2 ^ bts * 2 ^ bj) := by rw [pow_add, e1]
    have e3' : (2 : Int) ^ (brs + bts) = 2 ^ brs * 2 ^ bts := pow_add _ _ _
    rw [e1, e2] at h3
    rw [e1] at hV
    rw [he, e3']
    rw [hV] at h3
    linear_combination h3
  refine ⟨q3 + qk, e, by rw [he]; ring, ?_⟩
  have hpj : (0 : Int) < 2 ^ bj := by positivity
  have hpow : (2 : Int) ^ brs ≤ 2 ^ (bts + bj) * 2 ^ k := by
    rw [← pow_add]; exact pow_le_pow_right₀ (by norm_num) hk
  have habs : |e| * 2 ^ bj ≤ ((GD * 2 ^ k + U3) * 2 ^ bts) * 2 ^ bj := by
    have h1 : |2 ^ bj * e| = |e| * 2 ^ bj := by rw [abs_mul, abs_of_pos hpj]; ring
    rw [← h1, hkey]
    have h2 : |2 ^ brs * gd| ≤ 2 ^ brs * GD := by
      rw [abs_mul, abs_of_pos (by positivity : (0 : Int) < 2 ^ brs)]
      exact mul_le_mul_of_nonneg_left hgd (by positivity)
    have h4 : (2 : Int) ^ brs * GD ≤ (2 ^ (bts + bj) * 2 ^ k) * GD := mul_le_mul_of_nonneg_right hpow hGD
    have e1 : (2 : Int) ^ (bts + bj) = 2 ^ bts * 2 ^ bj := pow_add _ _ _
    rw [e1] at h4 he3
    calc |2 ^ brs * gd + e3| ≤ |2 ^ brs * gd| + |e3| := abs_add_le _ _
      _ ≤ (2 ^ bts * 2 ^ bj * 2 ^ k) * GD + U3 * (2 ^ bts * 2 ^ bj) := by linarith
      _ = _ := by ring
  exact le_of_mul_le_mul_right habs hpj

/-- the accumulators of the relinearisation for a tensor with digits within `D0` (columns 0 and 2) and `D1` (column 1) — the accumulated
tensor of the fused dot product has `D0 = n·2^(b−1)`, `D1 = n·3·2^(b−1)`: shapes, bounds, and the value of their phase in `ℤ[X]/(X^N+1)` -/
theorem relin_acc_valueG {big : Bool} {N b ts : Nat} (hN : 0 < N) (hb1 : 1 ≤ b) {g : GGLWE} {s : List Poly} {EL KL : ℕ → ℕ → Poly}
    {Hp Gmax Dmax : Int} (T0 T1 T2 : Col) (h : RelinAdm big N b ts g s EL KL Hp Gmax Dmax T0 T2)
    {D0 D1 : Int} (hD0 : 0 ≤ D0) (hD1 : 0 ≤ D1) (hA0 : Hp + D0 + 8 ≤ 2 ^ (bitsOf big - 2)) (hA1 : Hp + D1 + 8 ≤ 2 ^ (bitsOf big - 2))
    (h0 : TensorCol N ts D0 T0) (h1 : TensorCol N ts D1 T1) (h2 : TensorCol N ts D0 T2) :
    ∃ A0 A1 : Col, A0 = Ks.bigAddSmallAssign big ((prodOf 1 (relinCt b N T0 T2) g.toKey).act 0) T0 ∧
      A1 = Ks.bigAddSmallAssign big ((prodOf 1 (relinCt b N T0 T2) g.toKey).act 1) T1 ∧
      ColWF N g.size A0 ∧ ColWF N g.size A1 ∧
      (∀ l ∈ A0, ∀ v ∈ l, |v| ≤ Hp + D0) ∧ (∀ l ∈ A1, ∀ v ∈ l, |v| ≤ Hp + D1) ∧
      ∃ K : Ks.R N, Ks.ι N (valP b N (phase s (Ks.mkCt b N [A0, A1])))
        = Ks.radix N b ^ (g.size - ts) * Ks.ι N (tensorPhase (s.getD 0 []) (valP b N T0) (valP b N T1) (valP b N T2))
          + Ks.ι N (Ks.errL N b (aDftOf (relinCt b N T0 T2)) g.toKey EL) - Ks.ι N (Ks.dropL N b s (aDftOf (relinCt b N T0 T2)) g.toKey)
          + Ks.radix N b ^ g.size * K := by
  set a := relinCt b N T0 T2 with ha_def
  set key := g.toKey with hkeyd
  obtain ⟨ha, hsz, hrk, hbk⟩ := relinCt_wf b h0.1 h2.1
  have hkb : key.base2k = b := h.hgb
  have hks : key.mat.size = g.size := rfl
  have hrows : key.mat.rows = g.dnum := rfl
  have hcin : key.mat.colsIn = 1 := h.hci
  have hcout : key.mat.colsOut = 2 := h.hco
  have hkd : key.dsize = g.dsize := rfl
  have hhalf0 : (0 : Int) ≤ D0 := hD0
  have h2' : (2 : Int) ^ (bitsOf big - 2) ≤ 2 ^ (bitsOf big - 1) := pow_le_pow_right₀ (by norm_num) (by omega)
  have hlt : Hp + D1 < 2 ^ (bitsOf big - 1) := by linarith
  have hlt0 : Hp + D0 < 2 ^ (bitsOf big - 1) := by linarith
  -- C03 on the fake ciphertext
  obtain ⟨resBig, hksi, hbn, hwfacc, hbacc, hval⟩ := keyswitchInternal_value big N 1 a key [Hal.negMul (s.getD 0 []) (s.getD 0 [])] s EL KL Hp
    D0 hN ha (by rw [hbk, hkb]) (by rw [hrk, hcin]) (by rw [hcout]) h.hD h.hM (by rw [hrows, hks]; exact h.hS) h.hEL h.hKL
    (by
      intro i hi r hr
      rw [hcin] at hi
      rw [hrows] at hr
      have := h.hkey i hi r hr
      rw [hkb, hks]
      exact this)
    hhalf0 (by linarith) h.hprod (by
      intro l hl x hx
      have : a.cols.getD 0 [] = T0 := rfl
      rw [this] at hl
      exact h0.2 l hl x hx)
  have hPeq := keyswitchInternal_eq big 1 a key (by rw [hbk, hkb])
  rw [hPeq] at hksi
  injection hksi with hksi
  set P := prodOf 1 a key with hP
  -- shapes of the product
  have hn : a.n = N := ha.1
  obtain ⟨_, dcols, _, dn, _, _⟩ := aDft_spec a ha
  have z_wf := Ks.zeroBuf_WF a.n (1 + 1) key.size
  obtain ⟨pwf, pcols, psize, pn⟩ := prod_shape (Ks.zeroBuf a.n (1 + 1) key.size) (aDftOf a) key z_wf rfl rfl (by rw [hcout]; rfl)
    (by show a.n = _; rw [dn, hn])
  have hPeq2 : P = Ks.gglweProductDft (Ks.zeroBuf a.n (1 + 1) key.size) (aDftOf a) key := rfl
  rw [← hPeq2] at pwf pcols psize pn
  have pcolwf : ∀ c, c < 1 + 1 → ColWF N key.mat.size (P.act c) := fun c hc =>
    prod_col_wf N _ (aDftOf a) key h.hD z_wf rfl rfl (by rw [hcout]; rfl) hn dn h.hM c hc
  have hF1 : ColWF N key.mat.size (fit N key.mat.size T1) := fit_wf h1.1.2 _
  have hA1 : Ks.bigAddSmallAssign big (P.act 1) T1 = C02L.colAdd (P.act 1) (fit N key.mat.size T1) := by
    have := bigAdd_exact (N := N) big Hp D1 hlt (P.act 1) T1 (pcolwf 1 (by omega)).2 (h.hprod 1 (by omega)) h1.2
    rw [(pcolwf 1 (by omega)).1] at this
    exact this
  have hact0 : resBig.act 0 = Ks.bigAddSmallAssign big (P.act 0) T0 := by
    rw [← hksi]
    have hlen : (Ks.bigAddSmallAssign big (P.act 0) (a.cols.getD 0 [])).length = P.size := by
      have := bigAdd_exact (N := N) big Hp D0 hlt0 (P.act 0) T0 (pcolwf 0 (by omega)).2 (h.hprod 0 (by omega)) h0.2
      show (Ks.bigAddSmallAssign big (P.act 0) T0).length = _
      rw [this]
      simp [C02L.colAdd, (pcolwf 0 (by omega)).1, fit_length, psize]
    exact Buf.act_setAct_same P pwf 0 (by rw [pcols]; show 0 < 1 + 1; omega) _ hlen
  have hact1 : resBig.act 1 = P.act 1 := by
    rw [← hksi]; exact Buf.act_setAct_other P 0 1 _ (by omega)
  have hacc : accCols 1 resBig = [Ks.bigAddSmallAssign big (P.act 0) T0, P.act 1] := by
    simp [accCols, List.range_succ, hact0, hact1]
  rw [hacc] at hwfacc hbacc hval
  have wA0 : ColWF N g.size (Ks.bigAddSmallAssign big (P.act 0) T0) := hwfacc _ (by simp)
  have wP1 : ColWF N g.size (P.act 1) := hwfacc _ (by simp)
  have wA1 : ColWF N g.size (Ks.bigAddSmallAssign big (P.act 1) T1) := by rw [hA1]; exact C02L.colAdd_wf (pcolwf 1 (by omega)) hF1
  refine ⟨_, _, rfl, rfl, wA0, wA1, ?_, ?_, ?_⟩
  · intro l hl v hv
    have := hbacc _ (by simp) l hl v hv
    linarith
  · rw [hA1]
    exact colAdd_bound _ _ Hp D1 (h.hprod 1 (by omega)) (fit_bound N _ _ _ hD1 h1.2)
  · -- the value
    have hmin : min (1 : Nat) s.length = 1 := by
      have : 0 < s.length := List.length_pos_of_ne_nil h.hs
      omega
    have e1 := Core.ι_valP_phase_cols N hN b g.size s [Ks.bigAddSmallAssign big (P.act 0) T0, Ks.bigAddSmallAssign big (P.act 1) T1]
      (by simp) (by intro c hc; simp only [List.mem_cons, List.mem_nil_iff, or_false] at hc; rcases hc with rfl | rfl <;> assumption)
    have e2 := Core.ι_valP_phase_cols N hN b g.size s [Ks.bigAddSmallAssign big (P.act 0) T0, P.act 1]
      (by simp) (by intro c hc; simp only [List.mem_cons, List.mem_nil_iff, or_false] at hc; rcases hc with rfl | rfl <;> assumption)
    simp only [List.length_cons, List.length_nil, Nat.add_sub_cancel, Nat.zero_add, hmin, Finset.range_one, Finset.sum_singleton,
      List.getD_cons_zero, List.getD_cons_succ] at e1 e2
    rw [hkb] at hval
    rw [e2] at hval
    have hcov := covered_input_value N a key [Hal.negMul (s.getD 0 []) (s.getD 0 [])] hN ha (by rw [hrk, hcin]) (by rw [hcin]; simp) h.hD
      (by rw [hsz, hks]; exact h.hcov1) (by rw [hsz, hrows, hkd]; exact h.hcov2)
    rw [hkb, hks, hsz, hcin] at hcov
    have hphA : Ks.ι N (valP b N (phase [Hal.negMul (s.getD 0 []) (s.getD 0 [])] a))
        = Ks.ι N (valP b N T0) + Ks.ι N (Hal.negMul (s.getD 0 []) (s.getD 0 [])) * Ks.ι N (valP b N T2) := by
      have := Core.ι_valP_phase_cols N hN b ts [Hal.negMul (s.getD 0 []) (s.getD 0 [])] [T0, T2] (by simp)
        (by intro c hc; simp only [List.mem_cons, List.mem_nil_iff, or_false] at hc; rcases hc with rfl | rfl; exact h0.1; exact h2.1)
      have ha' : a = Ks.mkCt b N [T0, T2] := rfl
      rw [ha']
      simpa using this
    rw [hphA, Ks.ι_negMul N _ _ h.hs1 hN] at hcov
    have hfit1 := ι_valP_fit N b g.size T1 h1.1.2 (by rw [h1.1.1]; exact h.hcov1)
    rw [h1.1.1] at hfit1
    rw [e1, hA1, valP_colAdd b (pcolwf 1 (by omega)) hF1, Ks.ι_add N _ _ (by simp), hks, hfit1,
      ι_tensorPhase N hN _ _ _ _ (by simp) (by simp) (by simp)]
    rw [hcin, hks, hsz] at hval
    refine ⟨Ks.ι N (Ks.errL N b (aDftOf a) key KL)
      - ∑ i ∈ Finset.range 1, Gadget.head (Ks.radix N b) key.dsize key.mat.rows ts (Ks.inLimb N (aDftOf a) i) (Ks.keyPhase N s key.mat i), ?_⟩
    linear_combination hval + hcov

/-- the accumulators of the relinearisation: shapes, bounds, and the value of their phase in `ℤ[X]/(X^N+1)` -/
theorem relin_acc_value {big : Bool} {N b ts : Nat} (hN : 0 < N) (hb1 : 1 ≤ b) {g : GGLWE} {s : List Poly} {EL KL : ℕ → ℕ → Poly}
    {Hp Gmax Dmax : Int} (T0 T1 T2 : Col) (h : RelinAdm big N b ts g s EL KL Hp Gmax Dmax T0 T2)
    (h0 : TensorCol N ts (2 ^ (b - 1)) T0) (h1 : TensorCol N ts (3 * 2 ^ (b - 1)) T1) (h2 : TensorCol N ts (2 ^ (b - 1)) T2) :
    ∃ A0 A1 : Col, A0 = Ks.bigAddSmallAssign big ((prodOf 1 (relinCt b N T0 T2) g.toKey).act 0) T0 ∧
      A1 = Ks.bigAddSmallAssign big ((prodOf 1 (relinCt b N T0 T2) g.toKey).act 1) T1 ∧
      ColWF N g.size A0 ∧ ColWF N g.size A1 ∧
      (∀ l ∈ A0, ∀ v ∈ l, |v| ≤ Hp + 3 * 2 ^ (b - 1)) ∧ (∀ l ∈ A1, ∀ v ∈ l, |v| ≤ Hp + 3 * 2 ^ (b - 1)) ∧
      ∃ K : Ks.R N, Ks.ι N (valP b N (phase s (Ks.mkCt b N [A0, A1])))
        = Ks.radix N b ^ (g.size - ts) * Ks.ι N (tensorPhase (s.getD 0 []) (valP b N T0) (valP b N T1) (valP b N T2))
          + Ks.ι N (Ks.errL N b (aDftOf (relinCt b N T0 T2)) g.toKey EL) - Ks.ι N (Ks.dropL N b s (aDftOf (relinCt b N T0 T2)) g.toKey)
          + Ks.radix N b ^ g.size * K := by
  have hh : (0 : Int) ≤ 2 ^ (b - 1) := by positivity
  obtain ⟨A0, A1, e0, e1, w0, w1, b0, b1, hv⟩ := relin_acc_valueG hN hb1 T0 T1 T2 h (D0 := 2 ^ (b - 1)) (D1 := 3 * 2 ^ (b - 1)) hh
    (by positivity) (by have := h.hAcc; linarith) h.hAcc h0 h1 h2
  exact ⟨A0, A1, e0, e1, w0, w1, fun l hl v hv' => (b0 l hl v hv').trans (by linarith), b1, hv⟩

/-- the error constant of the relinearisation in units of the tensor's last limb: C03's gadget noise and dropped limbs
(`Gmax + Dmax`, at the key's precision, rescaled when the result has more limbs than the key) plus the final rounding -/
def relinU (b rs Sk : Nat) (s : List Poly) (Gmax Dmax : Int) : Int := (Gmax + Dmax) * 2 ^ (b * (rs - Sk)) + (1 + snorm 1 s)

/-- **piece 5, any digit bound (`D0` on columns 0 and 2, `D1 ≥ D0` on column 1): the relinearisation contract discharged on the executed tensor** from C03 (`keyswitchInternal_value`, `covered_input_value`, noise bounds) and C08
(normalisation stage), both accumulator widths.  What remains is `RelinAdm`: C03's hypotheses on the executed gadget product. -/
theorem relinContract_of_admG {big : Bool} {N b ts : Nat} (hN : 0 < N) (hb1 : 1 ≤ b) (hb62 : b ≤ 62) {g : GGLWE} {s : List Poly}
    {EL KL : ℕ → ℕ → Poly} {Hp Gmax Dmax : Int} {T0 T1 T2 : Col} (h : RelinAdm big N b ts g s EL KL Hp Gmax Dmax T0 T2) (rs : Nat)
    (w0 : ColWF N ts T0) (w1 : ColWF N ts T1) (w2 : ColWF N ts T2)
    {D0 D1 : Int} (hD0 : 0 ≤ D0) (hD01 : D0 ≤ D1) (hA1 : Hp + D1 + 8 ≤ 2 ^ (bitsOf big - 2))
    (d0 : ∀ l ∈ T0, ∀ v ∈ l, |v| ≤ D0) (d1 : ∀ l ∈ T1, ∀ v ∈ l, |v| ≤ D1) (d2 : ∀ l ∈ T2, ∀ v ∈ l, |v| ≤ D0) :
    RelinContractAt N b ts rs ⟨big, g⟩ s (relinU b rs g.size s Gmax Dmax) T0 T1 T2 := by
  have t0 : TensorCol N ts D0 T0 := ⟨w0, d0⟩
  have t1 : TensorCol N ts D1 T1 := ⟨w1, d1⟩
  have t2 : TensorCol N ts D0 T2 := ⟨w2, d2⟩
  have hD1 : 0 ≤ D1 := le_trans hD0 hD01
  obtain ⟨A0, A1, e0, e1, wA0, wA1, bA0', bA1, K, hval⟩ := relin_acc_valueG hN hb1 T0 T1 T2 h hD0 hD1 (by linarith) hA1 t0 t1 t2
  have bA0 : ∀ l ∈ A0, ∀ v ∈ l, |v| ≤ Hp + D1 := fun l hl v hv => (bA0' l hl v hv).trans (by linarith)
  have hH0 : (0 : Int) ≤ Hp + D1 := by have := h.hHp0; linarith
  have hbd : ∀ c ∈ [A0, A1], ∀ l ∈ c, ∀ v ∈ l, |v| ≤ Hp + D1 := by
    intro c hc; simp only [List.mem_cons, List.mem_nil_iff, or_false] at hc; rcases hc with rfl | rfl <;> assumption
  obtain ⟨cs, hok, hlen, hcswf, _, hv⟩ := NormOff.norm_stage_off big N b rs b g.size 0 (Hp + D1) [A0, A1] hb1 hb62 hb1 hb62 hH0
    hA1 (by simp) (by intro c hc; simp only [List.mem_cons, List.mem_nil_iff, or_false] at hc; rcases hc with rfl | rfl <;> assumption) hbd
  have hbal := NormOff.norm_stage_balanced big N b rs 0 (Hp + D1) [A0, A1] cs hb1 hb62 hH0 hA1 hbd hok
  refine ⟨cs, ?_, by rw [hlen]; rfl, hcswf, hbal, fun t ht => ?_⟩
  · show Core.relinearize big N b rs [T0, T1, T2] b g g.size (zeroC N g.colsOut g.size) = some cs
    rw [relinearize_rank1 big b rs hb1 T0 T1 T2 w0 w2 g h.hgb h.hgn h.hci h.hco, ← e0, ← e1]
    exact hok
  · obtain ⟨q3, e3, h3, he3⟩ := hv s t ht
    simp only [Int.toNat_zero, pow_zero, one_mul, Nat.add_zero, neg_zero] at h3 he3
    have hmin : min (([A0, A1] : List Col).length - 1) s.length = 1 := by
      have : 0 < s.length := List.length_pos_of_ne_nil h.hs
      simp only [List.length_cons, List.length_nil]; omega
    rw [hmin] at he3
    -- coefficient form of the accumulator value
    have hGl : (Ks.errL N b (aDftOf (relinCt b N T0 T2)) g.toKey EL).length = N := Ks.errL_length N _ _ _ EL h.hEL
    have hDl : (Ks.dropL N b s (aDftOf (relinCt b N T0 T2)) g.toKey).length = N :=
      dropL_length N b s _ g.toKey (by show 0 < g.colsOut; rw [h.hco]; omega) h.hM
    set Er := polyAdd (Ks.errL N b (aDftOf (relinCt b N T0 T2)) g.toKey EL)
      (polyScale (-1) (Ks.dropL N b s (aDftOf (relinCt b N T0 T2)) g.toKey)) with hEr
    have hErl : Er.length = N := by simp [hEr, polyAdd, polyScale, hGl, hDl]
    have hιEr : Ks.ι N Er = Ks.ι N (Ks.errL N b (aDftOf (relinCt b N T0 T2)) g.toKey EL)
        - Ks.ι N (Ks.dropL N b s (aDftOf (relinCt b N T0 T2)) g.toKey) := by
      rw [hEr, Ks.ι_add N _ _ (by simp [polyScale, hGl, hDl]), Ks.ι_polyScale]
      push_cast; ring
    have hring : ((1 : Int) : Ks.R N) * Ks.ι N (valP b N (phase s (Ks.mkCt b N [A0, A1])))
        = (((2 : Int) ^ (b * (g.size - ts)) : Int) : Ks.R N) *
            Ks.ι N (tensorPhase (s.getD 0 []) (valP b N T0) (valP b N T1) (valP b N T2))
          + Ks.ι N Er + (((2 : Int) ^ (b * g.size) : Int) : Ks.R N) * K := by
      rw [hιEr, hval, Ks.radix_pow, Ks.radix_pow]
      push_cast; ring
    obtain ⟨qk, _, hq⟩ := Ks.ring_to_coeff hN _ _ Er (by simp) (tensorPhase_length _ _ _ _ (by simp) (by simp) (by simp)) hErl _ _ _ K hring
    have hqt := hq t
    rw [one_mul, valP_getD _ _ _ _ ht] at hqt
    have hErb : |Er.getD t 0| ≤ Gmax + Dmax := by
      have hmem : Er.getD t 0 ∈ Er := by
        rw [List.getD_eq_getElem?_getD, List.getElem?_eq_getElem (by rw [hErl]; exact ht)]; exact List.getElem_mem _
      refine (Hal.abs_le_normInf hmem).trans ?_
      rw [hEr]
      have a1 := Hal.normInf_polyAdd_le (Ks.errL N b (aDftOf (relinCt b N T0 T2)) g.toKey EL)
        (polyScale (-1) (Ks.dropL N b s (aDftOf (relinCt b N T0 T2)) g.toKey))
      rw [Hal.normInf_polyScale] at a1
      have a2 : Hal.normInf (Ks.errL N b (aDftOf (relinCt b N T0 T2)) g.toKey EL) ≤ gadgetBound N b (aDftOf (relinCt b N T0 T2)) g.toKey EL :=
        Ks.normInf_errL_le N _ _ _ EL
      have a3 : Hal.normInf (Ks.dropL N b s (aDftOf (relinCt b N T0 T2)) g.toKey) ≤ dropBound N b s (aDftOf (relinCt b N T0 T2)) g.toKey :=
        Ks.normInf_dropL_le N _ s _ g.toKey
      have a4 := h.hG
      have a5 := h.hDr
      simp only [abs_neg, abs_one, one_mul] at a1
      linarith
    have hGD : 0 ≤ Gmax + Dmax := le_trans (abs_nonneg _) hErb
    obtain ⟨j, hj⟩ : ∃ j, g.size = ts + j := ⟨g.size - ts, by have := h.hcov1; omega⟩
    have hbS : b * g.size = b * ts + b * j := by rw [hj, Nat.mul_add]
    have hbj : b * (g.size - ts) = b * j := by rw [hj, Nat.add_sub_cancel_left]
    rw [hbS] at h3 he3
    rw [hbj, hbS] at hqt
    obtain ⟨q', e', hr1, hr2⟩ := relin_compose (b * ts) (b * rs) (b * j) _ _ _ (Er.getD t 0) e3 q3 (qk.getD t 0) (Gmax + Dmax)
      (1 + snorm 1 s) hGD h3 he3 (by rw [hqt]) hErb (b * (rs - g.size)) (by
        rw [← Nat.mul_add, ← Nat.mul_add]
        exact Nat.mul_le_mul_left _ (by omega))
    exact ⟨q', e', hr1, hr2⟩

/-- **piece 5: the relinearisation contract discharged on the executed tensor** (digits of one normalised tensor) from C03 and C08, both
accumulator widths.  What remains is `RelinAdm`: C03's hypotheses on the executed gadget product. -/
theorem relinContract_of_adm {big : Bool} {N b ts : Nat} (hN : 0 < N) (hb1 : 1 ≤ b) (hb62 : b ≤ 62) {g : GGLWE} {s : List Poly}
    {EL KL : ℕ → ℕ → Poly} {Hp Gmax Dmax : Int} {T0 T1 T2 : Col} (h : RelinAdm big N b ts g s EL KL Hp Gmax Dmax T0 T2) (rs : Nat)
    (w0 : ColWF N ts T0) (w1 : ColWF N ts T1) (w2 : ColWF N ts T2)
    (d0 : ∀ l ∈ T0, ∀ v ∈ l, |v| ≤ 2 ^ (b - 1)) (d1 : ∀ l ∈ T1, ∀ v ∈ l, |v| ≤ 3 * 2 ^ (b - 1)) (d2 : ∀ l ∈ T2, ∀ v ∈ l, |v| ≤ 2 ^ (b - 1)) :
    RelinContractAt N b ts rs ⟨big, g⟩ s (relinU b rs g.size s Gmax Dmax) T0 T1 T2 :=
  relinContract_of_admG hN hb1 hb62 h rs w0 w1 w2 (D0 := 2 ^ (b - 1)) (D1 := 3 * 2 ^ (b - 1)) (by positivity)
    (by have : (0 : Int) ≤ 2 ^ (b - 1) := by positivity
        linarith) h.hAcc d0 d1 d2

/-- **`ckks_mul_into` (rank 1), the product contract discharged**: masking, tensor columns (truncated accumulators, Karatsuba column),
tensor phase = product of the phases, relinearisation = C03's key switch of the `s₁²` column, normalisations (C08).  What remains are
C03's hypotheses on the executed gadget product (`RelinAdm`, for the tensor the call computes), the covered offset regime and the numeric
head-room of the convolution accumulators. -/
theorem mulAdm_discharged {env : Env} (he : EnvOK env) {N : Nat} (hN : 0 < N) {mk : MulKey} {dst a b : DCt} {Hd : Int}
    (hd : GB N env.base2k 1 Hd dst.g) (ha : DOK env N 1 a) (hb : DOK env N 1 b) {m : Ct}
    (hm : mulInto env dst.ct a.ct b.ct = .ok m) {q : MulP} (hq : mulCtParams env dst.ct a.ct b.ct = .ok q)
    (hhi : (cnvOffsetSplit env.base2k q.cnv).1 ≤ divCeil a.md.effK env.base2k + divCeil b.md.effK env.base2k - 1)
    (hroom : 2 ^ env.base2k * (4 * (divCeil b.md.effK env.base2k : Int) * N * 2 ^ env.base2k) + 8 ≤ 2 ^ (bitsOf mk.big - 2))
    {s : List Poly} (hs : s ≠ []) {EL KL : ℕ → ℕ → Poly} {Hp Gmax Dmax : Int}
    (hadm : ∀ T0 T1 T2, Core.tensorApply false mk.big N env.base2k (max a.g.size b.g.size) q.cnv env.base2k
        (effCols env.base2k a.md.effK a.g) a.md.effK (effCols env.base2k b.md.effK b.g) b.md.effK
        (zeroC N (tensorCols a.g) (max a.g.size b.g.size)) = some [T0, T1, T2] →
      TensorCol N (max a.g.size b.g.size) (2 ^ (env.base2k - 1)) T0 → TensorCol N (max a.g.size b.g.size) (2 ^ (env.base2k - 1)) T2 →
      RelinAdm mk.big N env.base2k (max a.g.size b.g.size) mk.tsk s EL KL Hp Gmax Dmax T0 T2) :
    MulAdm env N 1 s (mulCtU N env.base2k (divCeil b.md.effK env.base2k) (max a.g.size b.g.size) dst.g.size (s.getD 0 [])
        (relinU env.base2k dst.g.size mk.tsk.size s Gmax Dmax) : Int)
      dst a b (dMulInto env N mk dst a b) q :=
  mulAdm_of_relin he hN hd ha hb hm hq hhi hroom hs (fun T0 T1 T2 ht w0 w1 w2 d0 d1 d2 =>
    relinContract_of_adm hN he.lo (by have := he.hi; omega) (hadm T0 T1 T2 ht ⟨w0, d0⟩ ⟨w2, d2⟩) dst.g.size w0 w1 w2 d0 d1 d2)

theorem mulInto_of_squareInto {env : Env} {dst a m : Ct} (h : squareInto env dst a = .ok m) : mulInto env dst a a = .ok m := by
  obtain ⟨q, hq, hchk, hm⟩ := squareInto_params h
  obtain ⟨h1, h2⟩ := squareCheck_none hchk
  have h3 : ¬ cnvHi env.base2k q.cnv > 2 * effLimbs env a := by
    unfold squareCheck at hchk
    rw [if_neg h1, if_neg h2] at hchk
    split at hchk
    · cases hchk
    · assumption
  simp only [mulInto, hq, finishMul, tensorCheck, if_neg h1, h2, or_self, if_false]
  rw [if_neg (by omega)]
  rw [hm]

/-- `ckks_square_into` runs the data path of `ckks_mul_into(dst, a, a)` (C05 `tensorSquare_eq_tensorApply`, every rank) -/
theorem dSquareInto_eq_mul {env : Env} (hb1 : 1 ≤ env.base2k) {N : Nat} {mk : MulKey} {dst a : DCt} {m : Ct}
    (h : squareInto env dst.ct a.ct = .ok m) : dSquareInto env N mk dst a = dMulInto env N mk dst a a := by
  obtain ⟨q, hq, _, _⟩ := squareInto_params h
  simp only [dSquareInto, dMulInto, withMeta_ok _ _ _ h, withMeta_ok _ _ _ (mulInto_of_squareInto h), hq, mulCols, Nat.max_self]
  rw [C05.tensorSquare_eq_tensorApply mk.big N env.base2k a.g.size q.cnv env.base2k (effCols env.base2k a.md.effK a.g) a.md.effK _ hb1 hb1]

/-- **`ckks_square_into` (rank 1), the product contract discharged** -/
theorem squareAdm_discharged {env : Env} (he : EnvOK env) {N : Nat} (hN : 0 < N) {mk : MulKey} {dst a : DCt} {Hd : Int}
    (hd : GB N env.base2k 1 Hd dst.g) (ha : DOK env N 1 a) {m : Ct}
    (hm : squareInto env dst.ct a.ct = .ok m) {q : MulP} (hq : mulCtParams env dst.ct a.ct a.ct = .ok q)
    (hhi : (cnvOffsetSplit env.base2k q.cnv).1 ≤ divCeil a.md.effK env.base2k + divCeil a.md.effK env.base2k - 1)
    (hroom : 2 ^ env.base2k * (4 * (divCeil a.md.effK env.base2k : Int) * N * 2 ^ env.base2k) + 8 ≤ 2 ^ (bitsOf mk.big - 2))
    {s : List Poly} (hs : s ≠ []) {EL KL : ℕ → ℕ → Poly} {Hp Gmax Dmax : Int}
    (hadm : ∀ T0 T1 T2, Core.tensorApply false mk.big N env.base2k (max a.g.size a.g.size) q.cnv env.base2k
        (effCols env.base2k a.md.effK a.g) a.md.effK (effCols env.base2k a.md.effK a.g) a.md.effK
        (zeroC N (tensorCols a.g) (max a.g.size a.g.size)) = some [T0, T1, T2] →
      TensorCol N (max a.g.size a.g.size) (2 ^ (env.base2k - 1)) T0 → TensorCol N (max a.g.size a.g.size) (2 ^ (env.base2k - 1)) T2 →
      RelinAdm mk.big N env.base2k (max a.g.size a.g.size) mk.tsk s EL KL Hp Gmax Dmax T0 T2) :
    MulAdm env N 1 s (mulCtU N env.base2k (divCeil a.md.effK env.base2k) (max a.g.size a.g.size) dst.g.size (s.getD 0 [])
        (relinU env.base2k dst.g.size mk.tsk.size s Gmax Dmax) : Int)
      dst a a (dSquareInto env N mk dst a) q := by
  rw [dSquareInto_eq_mul he.lo hm]
  exact mulAdm_discharged he hN hd ha ha (mulInto_of_squareInto hm) hq hhi hroom hs hadm

/-- the contract is monotone in its error constant (so one constant `Uc` serves every product of a program) -/
theorem MulAdm.mono {env : Env} {N r : Nat} {s : List Poly} {U U' : ℚ} {dst a b : DCt} {res : Outcome DCt} {q : MulP}
    (h : MulAdm env N r s U dst a b res q) (hU : U ≤ U') : MulAdm env N r s U' dst a b res q := by
  obtain ⟨c', h1, h2, h3, h4, z, hc⟩ := h
  refine ⟨c', h1, h2, h3, h4, z, ⟨fun t ht => ?_⟩⟩
  obtain ⟨q', e, hr, he⟩ := hc.rel t ht
  exact ⟨q', e, hr, he.trans (mul_le_mul_of_nonneg_right hU (by positivity))⟩

/-- **`RelinAdm` from numeric shape conditions, keys with `dsize = 1`** (the keys of the CKKS layer): what remains of C03's
hypotheses is the key relation with `‖EL 0 r‖∞ ≤ Emax`, the key's digits within `Kb`, the covered regime and one numeric head-room
inequality; the product accumulators, the gadget noise and the dropped limbs are bounded for **every** admissible tensor. -/
theorem RelinAdm.of_numericG {big : Bool} {N b ts : Nat} {g : GGLWE} {s : List Poly} {EL KL : ℕ → ℕ → Poly} {Kb Emax D0 : Int} (hD0 : 0 ≤ D0)
    (hgb : g.base2k = b) (hgn : g.n = N) (hci : g.colsIn = 1) (hco : g.colsOut = 2) (hd1 : g.dsize = 1)
    (hM : ∀ j q, (g.toPMat.entry j q).length = N) (hS : g.dnum ≤ g.size) (hcov1 : ts ≤ g.size) (hcov2 : ts ≤ g.dnum)
    (hs : s ≠ []) (hs1 : (s.getD 0 []).length = N) (hEL : ∀ i r, (EL i r).length = N) (hKL : ∀ i r, (KL i r).length = N)
    (hkey : ∀ i, i < 1 → ∀ r, r < g.dnum →
      Gadget.val (Ks.radix N b) g.size (Ks.keyPhase N s g.toPMat i r) =
        Ks.ι N (([Hal.negMul (s.getD 0 []) (s.getD 0 [])] : List Poly).getD i []) * Ks.radix N b ^ (g.size - (r + 1) * g.dsize)
          + Ks.ι N (EL i r) + Ks.radix N b ^ g.size * Ks.ι N (KL i r))
    (hK0 : 0 ≤ Kb) (hK : ∀ j q, ∀ x ∈ g.toPMat.entry j q, |x| ≤ Kb) (hE0 : 0 ≤ Emax) (hE : ∀ i r, Hal.normInf (EL i r) ≤ Emax)
    (hroom : ((1 * g.dnum : Nat) : Int) * (N * D0 * Kb) + 3 * 2 ^ (b - 1) + 8 ≤ 2 ^ (bitsOf big - 2))
    (T0 T2 : Col) (h0 : TensorCol N ts D0 T0) (h2 : TensorCol N ts D0 T2) :
    RelinAdm big N b ts g s EL KL (((1 * g.dnum : Nat) : Int) * (N * D0 * Kb))
      ((1 : Nat) * ((g.dnum : Nat) * (N * D0 * Emax))) 0 T0 T2 := by
  obtain ⟨ha, hsz, hrk, hbk⟩ := relinCt_wf b h0.1 h2.1
  have hcolsb : ∀ c ∈ (relinCt b N T0 T2).cols, ∀ l ∈ c, ∀ x ∈ l, |x| ≤ D0 := by
    intro c hc
    simp only [relinCt, Ks.mkCt, List.mem_cons, List.mem_nil_iff, or_false] at hc
    rcases hc with rfl | rfl
    · exact h0.2
    · exact h2.2
  obtain ⟨_, dcols, _, _, dact, dA⟩ := aDft_spec (relinCt b N T0 T2) ha
  have hkd : g.toKey.dsize = 1 := hd1
  refine ⟨hgb, hgn, hci, hco, by omega, hM, by rw [hd1]; omega, hcov1, by rw [hd1]; omega, hs, hs1, hEL, hKL, hkey, by positivity, hroom,
    ?_, ?_, ?_⟩
  · intro i hi
    have := KsNum.prodOf_bound_d1 N 1 (relinCt b N T0 T2) g.toKey hkd ha D0 Kb hD0 hK0 hcolsb hK i hi
    have e : (g.toKey.mat.colsIn * g.toKey.mat.rows : Nat) = 1 * g.dnum := by
      show g.colsIn * g.dnum = _; rw [hci]
    rw [e] at this
    exact this
  · have := KsNum.gadgetBound_d1 N b (aDftOf (relinCt b N T0 T2)) g.toKey hkd EL D0 Emax hD0 hE0 dA
      (by
        intro i l hl x hx
        by_cases hi : i < (relinCt b N T0 T2).rank
        · rw [dact i hi] at hl
          exact hcolsb _ (col_mem _ (by rw [ha.len]; omega)) l hl x hx
        · -- columns beyond the rank are empty
          exfalso
          have hwf := (aDft_spec (relinCt b N T0 T2) ha).1
          have : (aDftOf (relinCt b N T0 T2)).act i = [] := by
            unfold Buf.act
            rw [List.getD_eq_getElem?_getD, List.getElem?_eq_none (by rw [hwf.1, dcols]; omega)]
            simp
          rw [this] at hl; cases hl) hE
    have e1 : (g.toKey.mat.colsIn : Int) = ((1 : Nat) : Int) := by show ((g.colsIn : Nat) : Int) = _; rw [hci]
    have e2 : (g.toKey.mat.rows : Int) = (g.dnum : Int) := rfl
    rw [e1, e2] at this
    exact this
  · exact le_of_eq (KsNum.dropBound_d1 N b s _ g.toKey hkd)

/-- `RelinAdm.of_numericG` at the digit bound of one normalised tensor -/
theorem RelinAdm.of_numeric {big : Bool} {N b ts : Nat} {g : GGLWE} {s : List Poly} {EL KL : ℕ → ℕ → Poly} {Kb Emax : Int}
    (hgb : g.base2k = b) (hgn : g.n = N) (hci : g.colsIn = 1) (hco : g.colsOut = 2) (hd1 : g.dsize = 1)
    (hM : ∀ j q, (g.toPMat.entry j q).length = N) (hS : g.dnum ≤ g.size) (hcov1 : ts ≤ g.size) (hcov2 : ts ≤ g.dnum)
    (hs : s ≠ []) (hs1 : (s.getD 0 []).length = N) (hEL : ∀ i r, (EL i r).length = N) (hKL : ∀ i r, (KL i r).length = N)
    (hkey : ∀ i, i < 1 → ∀ r, r < g.dnum →
      Gadget.val (Ks.radix N b) g.size (Ks.keyPhase N s g.toPMat i r) =
        Ks.ι N (([Hal.negMul (s.getD 0 []) (s.getD 0 [])] : List Poly).getD i []) * Ks.radix N b ^ (g.size - (r + 1) * g.dsize)
          + Ks.ι N (EL i r) + Ks.radix N b ^ g.size * Ks.ι N (KL i r))
    (hK0 : 0 ≤ Kb) (hK : ∀ j q, ∀ x ∈ g.toPMat.entry j q, |x| ≤ Kb) (hE0 : 0 ≤ Emax) (hE : ∀ i r, Hal.normInf (EL i r) ≤ Emax)
    (hroom : ((1 * g.dnum : Nat) : Int) * (N * 2 ^ (b - 1) * Kb) + 3 * 2 ^ (b - 1) + 8 ≤ 2 ^ (bitsOf big - 2))
    (T0 T2 : Col) (h0 : TensorCol N ts (2 ^ (b - 1)) T0) (h2 : TensorCol N ts (2 ^ (b - 1)) T2) :
    RelinAdm big N b ts g s EL KL (((1 * g.dnum : Nat) : Int) * (N * 2 ^ (b - 1) * Kb))
      ((1 : Nat) * ((g.dnum : Nat) * (N * 2 ^ (b - 1) * Emax))) 0 T0 T2 :=
  RelinAdm.of_numericG (by positivity) hgb hgn hci hco hd1 hM hS hcov1 hcov2 hs hs1 hEL hKL hkey hK0 hK hE0 hE hroom T0 T2 h0 h2

/-- **`ckks_mul_into` (rank 1), numeric form for `dsize = 1` tensor keys**: no data-dependent hypothesis is left — the tensor key is a
gadget encryption of `s₁⋆s₁` under `s` with `‖EL‖∞ ≤ Emax`, its digits are within `Kb`, and the shape / head-room inequalities hold -/
theorem mulAdm_numeric {env : Env} (he : EnvOK env) {N : Nat} (hN : 0 < N) {mk : MulKey} {dst a b : DCt} {Hd : Int}
    (hd : GB N env.base2k 1 Hd dst.g) (ha : DOK env N 1 a) (hb : DOK env N 1 b) {m : Ct}
    (hm : mulInto env dst.ct a.ct b.ct = .ok m) {q : MulP} (hq : mulCtParams env dst.ct a.ct b.ct = .ok q)
    (hhi : (cnvOffsetSplit env.base2k q.cnv).1 ≤ divCeil a.md.effK env.base2k + divCeil b.md.effK env.base2k - 1)
    (hroom : 2 ^ env.base2k * (4 * (divCeil b.md.effK env.base2k : Int) * N * 2 ^ env.base2k) + 8 ≤ 2 ^ (bitsOf mk.big - 2))
    {s : List Poly} {EL KL : ℕ → ℕ → Poly} {Kb Emax : Int}
    (hgb : mk.tsk.base2k = env.base2k) (hgn : mk.tsk.n = N) (hci : mk.tsk.colsIn = 1) (hco : mk.tsk.colsOut = 2) (hd1 : mk.tsk.dsize = 1)
    (hM : ∀ j q, (mk.tsk.toPMat.entry j q).length = N) (hS : mk.tsk.dnum ≤ mk.tsk.size)
    (hcov1 : max a.g.size b.g.size ≤ mk.tsk.size) (hcov2 : max a.g.size b.g.size ≤ mk.tsk.dnum)
    (hs : s ≠ []) (hs1 : (s.getD 0 []).length = N) (hEL : ∀ i r, (EL i r).length = N) (hKL : ∀ i r, (KL i r).length = N)
    (hkey : ∀ i, i < 1 → ∀ r, r < mk.tsk.dnum →
      Gadget.val (Ks.radix N env.base2k) mk.tsk.size (Ks.keyPhase N s mk.tsk.toPMat i r) =
        Ks.ι N (([Hal.negMul (s.getD 0 []) (s.getD 0 [])] : List Poly).getD i []) * Ks.radix N env.base2k ^ (mk.tsk.size - (r + 1) * mk.tsk.dsize)
          + Ks.ι N (EL i r) + Ks.radix N env.base2k ^ mk.tsk.size * Ks.ι N (KL i r))
    (hK0 : 0 ≤ Kb) (hK : ∀ j q, ∀ x ∈ mk.tsk.toPMat.entry j q, |x| ≤ Kb) (hE0 : 0 ≤ Emax) (hE : ∀ i r, Hal.normInf (EL i r) ≤ Emax)
    (hroomK : ((1 * mk.tsk.dnum : Nat) : Int) * (N * 2 ^ (env.base2k - 1) * Kb) + 3 * 2 ^ (env.base2k - 1) + 8 ≤ 2 ^ (bitsOf mk.big - 2)) :
    MulAdm env N 1 s (mulCtU N env.base2k (divCeil b.md.effK env.base2k) (max a.g.size b.g.size) dst.g.size (s.getD 0 [])
        (relinU env.base2k dst.g.size mk.tsk.size s ((1 : Nat) * ((mk.tsk.dnum : Nat) * (N * 2 ^ (env.base2k - 1) * Emax))) 0) : Int)
      dst a b (dMulInto env N mk dst a b) q :=
  mulAdm_discharged he hN hd ha hb hm hq hhi hroom hs (fun T0 _ T2 _ t0 t2 =>
    RelinAdm.of_numeric hgb hgn hci hco hd1 hM hS hcov1 hcov2 hs hs1 hEL hKL hkey hK0 hK hE0 hE hroomK T0 T2 t0 t2)

end Ckks
