import Poulpy.Lemmas.CoreDet

/-!
Frame and precise dependence for the `Core.Ops` column loops: which columns a successful run
changes, and what each changed column is in terms of its previous content.
-/

namespace C11Core
open Core Core.Ops

/-- metadata and number of columns preserved; every column outside `S` unchanged -/
def Frame (S : Nat → Prop) (g g' : GLWE) : Prop :=
  g'.base2k = g.base2k ∧ g'.k = g.k ∧ g'.n = g.n ∧ g'.cols.length = g.cols.length ∧
  ∀ j, ¬ S j → g'.cols[j]? = g.cols[j]?

theorem Frame.refl (S : Nat → Prop) (g : GLWE) : Frame S g g := ⟨rfl, rfl, rfl, rfl, fun _ _ => rfl⟩

theorem Frame.trans {S T U : Nat → Prop} {a b c : GLWE} (h1 : Frame S a b) (h2 : Frame T b c)
    (hU : ∀ j, (S j ∨ T j) → U j) : Frame U a c :=
  ⟨h2.1.trans h1.1, h2.2.1.trans h1.2.1, h2.2.2.1.trans h1.2.2.1, h2.2.2.2.1.trans h1.2.2.2.1,
    fun j hj => (h2.2.2.2.2 j (fun t => hj (hU j (Or.inr t)))).trans (h1.2.2.2.2 j (fun s => hj (hU j (Or.inl s))))⟩

theorem Frame.mono {S U : Nat → Prop} {a b : GLWE} (h : Frame S a b) (hU : ∀ j, S j → U j) : Frame U a b :=
  ⟨h.1, h.2.1, h.2.2.1, h.2.2.2.1, fun j hj => h.2.2.2.2 j (fun s => hj (hU j s))⟩

theorem bind_ok {α β : Type} {x : Outcome α} {f : α → Outcome β} {r : β} (h : Ops.bind x f = .ok r) :
    ∃ v, x = .ok v ∧ f v = .ok r := by
  cases x <;> simp_all [Ops.bind]

theorem check_ok {α : Type} {c : Bool} {k : Outcome α} {r : α} (h : Ops.check c k = .ok r) : c = true ∧ k = .ok r := by
  unfold Ops.check at h; split at h
  · exact ⟨‹_›, h⟩
  · cases h

/-- the loop body at index `i` rewrites column `i` as `k i old` and nothing else -/
def Local (body : Nat → GLWE → Outcome GLWE) (k : Nat → Col → Outcome Col) : Prop :=
  ∀ i g g', body i g = .ok g' →
    Frame (fun j => j = i) g g' ∧ ∃ old c, g.cols[i]? = some old ∧ k i old = .ok c ∧ g'.cols[i]? = some c

theorem updCol_local (i : Nat) (k : Col → Outcome Col) (g g' : GLWE) (h : updCol i k g = .ok g') :
    Frame (fun j => j = i) g g' ∧ ∃ old c, g.cols[i]? = some old ∧ k old = .ok c ∧ g'.cols[i]? = some c := by
  unfold updCol at h
  cases ho : g.cols[i]? with
  | none => rw [ho] at h; cases h
  | some old =>
    rw [ho] at h
    simp only at h
    obtain ⟨c, hc, hr⟩ := bind_ok h
    cases hr
    have hi : i < g.cols.length := by
      by_contra hn; rw [List.getElem?_eq_none (by omega)] at ho; cases ho
    refine ⟨⟨rfl, rfl, rfl, by simp, fun j hj => ?_⟩, old, c, rfl, hc, by simp [hi]⟩
    simp only [List.getElem?_set]
    have : ¬ i = j := fun e => hj e.symm
    simp [this]

theorem local_withCol (a : GLWE) (K : Col → Col → Col) :
    Local (withCol a K) (fun i old => .ok (K old (a.cols.getD i []))) := by
  intro i g g' h
  unfold withCol at h
  obtain ⟨ai, hai, h2⟩ := bind_ok h
  have e : a.cols.getD i [] = ai := by
    unfold colOf at hai
    cases hc : a.cols[i]? with
    | none => rw [hc] at hai; cases hai
    | some c => rw [hc] at hai; cases hai; simp [List.getD_eq_getElem?_getD, hc]
  subst e
  exact updCol_local i _ g g' h2

theorem local_selfCol (K : Col → Col) : Local (selfCol K) (fun _ old => .ok (K old)) := by
  intro i g g' h
  exact updCol_local i _ g g' h

theorem local_upd (k : Nat → Col → Outcome Col) : Local (fun i r => updCol i (k i) r) k := by
  intro i g g' h
  exact updCol_local i _ g g' h

theorem forCols_local (body : Nat → GLWE → Outcome GLWE) (k : Nat → Col → Outcome Col) (hb : Local body k) (cnt : Nat) :
    ∀ (lo : Nat) (g g' : GLWE), forCols cnt lo body g = .ok g' →
      Frame (fun j => lo ≤ j ∧ j < lo + cnt) g g' ∧
      ∀ j, lo ≤ j → j < lo + cnt → ∃ old c, g.cols[j]? = some old ∧ k j old = .ok c ∧ g'.cols[j]? = some c := by
  induction cnt with
  | zero =>
    intro lo g g' h
    simp only [forCols] at h
    cases h
    exact ⟨Frame.refl _ _, fun j h1 h2 => by omega⟩
  | succ cnt ih =>
    intro lo g g' h
    simp only [forCols] at h
    obtain ⟨g1, h1, h2⟩ := bind_ok h
    obtain ⟨f1, old, c, ho, hk, hc⟩ := hb lo g g1 h1
    obtain ⟨f2, hd⟩ := ih (lo + 1) g1 g' h2
    refine ⟨Frame.trans f1 f2 (fun j hj => by rcases hj with h | h <;> omega), ?_⟩
    intro j hj1 hj2
    by_cases e : j = lo
    · subst e
      refine ⟨old, c, ho, hk, ?_⟩
      rw [f2.2.2.2.2 j (by omega)]; exact hc
    · obtain ⟨old', c', ho', hk', hc'⟩ := hd j (by omega) (by omega)
      refine ⟨old', c', ?_, hk', hc'⟩
      rw [← f1.2.2.2.2 j e]; exact ho'

theorem forRange_local (body : Nat → GLWE → Outcome GLWE) (k : Nat → Col → Outcome Col) (hb : Local body k)
    (lo hi : Nat) (g g' : GLWE) (h : forRange lo hi body g = .ok g') :
    Frame (fun j => lo ≤ j ∧ j < hi) g g' ∧
    ∀ j, lo ≤ j → j < hi → ∃ old c, g.cols[j]? = some old ∧ k j old = .ok c ∧ g'.cols[j]? = some c := by
  unfold forRange at h
  obtain ⟨f, hd⟩ := forCols_local body k hb (hi - lo) lo g g' h
  exact ⟨f.mono (fun j hj => by omega), fun j h1 h2 => hd j h1 (by omega)⟩

end C11Core
