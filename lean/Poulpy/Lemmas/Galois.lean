import Poulpy.Model.Galois
import Mathlib.Data.Int.ModEq
import Mathlib.Tactic.Ring
import Mathlib.Tactic.Linarith

/-! `mod_exp_u64`, `galois_element`, `galois_element_inv`. -/

theorem u64_modEq (x : Int) : u64 x ≡ x [ZMOD 2 ^ 64] := Int.mod_modEq x _

theorem modExpLoop_modEq (e : Nat) : ∀ y xp : Int, modExpLoop y xp e ≡ y * xp ^ e [ZMOD 2 ^ 64] := by
  induction e using Nat.strong_induction_on with
  | _ e ih =>
    intro y xp
    rw [modExpLoop]
    split
    · rename_i h; subst h; simp
    · rename_i h
      have ih' := ih (e / 2) (by omega) (if e % 2 = 1 then u64 (y * xp) else y) (u64 (xp * xp))
      refine ih'.trans ?_
      have hx : u64 (xp * xp) ^ (e / 2) ≡ (xp * xp) ^ (e / 2) [ZMOD 2 ^ 64] := (u64_modEq _).pow _
      have he : e = e % 2 + 2 * (e / 2) := (Nat.mod_add_div e 2).symm
      by_cases h1 : e % 2 = 1
      · simp only [h1, if_true]
        have : y * xp ^ e = (y * xp) * (xp * xp) ^ (e / 2) := by
          conv_lhs => rw [he, h1]
          rw [pow_add, pow_mul]; ring
        rw [this]
        exact (u64_modEq _).mul hx
      · simp only [h1, if_false]
        have h0 : e % 2 = 0 := by omega
        have : y * xp ^ e = y * (xp * xp) ^ (e / 2) := by
          conv_lhs => rw [he, h0]
          rw [Nat.zero_add, pow_mul]; ring
        rw [this]
        exact (Int.ModEq.refl y).mul hx

/-- `mod_exp_u64(x, e) ≡ x^e (mod 2^64)` -/
theorem modExpU64_modEq (x : Int) (e : Nat) : modExpU64 x e ≡ x ^ e [ZMOD 2 ^ 64] := by
  have := modExpLoop_modEq e 1 x
  simpa [modExpU64] using this

theorem modExpU64_emod (x : Int) (e : Nat) (m : Int) (hm : m ∣ 2 ^ 64) : modExpU64 x e % m = x ^ e % m :=
  (modExpU64_modEq x e).of_dvd hm

/-- odd `x`: `x^(2^j) ≡ 1 (mod 2^(j+1))` -/
theorem odd_pow_two_pow (x : Int) (hx : x % 2 = 1) (j : Nat) : x ^ (2 ^ j) ≡ 1 [ZMOD 2 ^ (j + 1)] := by
  induction j with
  | zero =>
    simp only [pow_zero, pow_one, zero_add]
    exact hx
  | succ j ih =>
    obtain ⟨c, hc⟩ := (Int.modEq_iff_dvd.mp ih)
    have hy : x ^ (2 ^ j) = 1 - 2 ^ (j + 1) * c := by linarith
    rw [Int.modEq_iff_dvd]
    refine ⟨c - 2 ^ j * c ^ 2, ?_⟩
    rw [pow_succ 2 j, pow_mul, hy]
    ring

theorem isPow2Int_pos {m : Int} (h : isPow2Int m = true) : 0 < m := by
  unfold isPow2Int at h
  simp only [Bool.and_eq_true, decide_eq_true_eq] at h
  exact h.1

/-- `galois_element`: `1` for `0`, else `sign(t) · (5^{|t|} mod order)` -/
theorem galoisElement_spec (t m : Int) (hm : isPow2Int m = true) (hd : m ∣ 2 ^ 64) :
    galoisElement t m = .ok (if t = 0 then 1 else 5 ^ t.natAbs % m * t.sign) := by
  unfold galoisElement
  simp only [hm, Bool.not_true, Bool.false_eq_true, if_false]
  split
  · rfl
  · rw [modExpU64_emod _ _ m hd]; rfl

/-- the library's signed generator convention: `galois_element(-t) = -(5^t mod 2N)` for `t > 0` -/
theorem galoisElement_neg (t : Nat) (ht : 0 < t) (m : Int) (hm : isPow2Int m = true) (hd : m ∣ 2 ^ 64) :
    galoisElement (-(t : Int)) m = .ok (-(5 ^ t % m)) := by
  rw [galoisElement_spec _ m hm hd]
  have h1 : (-(t : Int)) ≠ 0 := by omega
  have h2 : (-(t : Int)).sign = -1 := Int.sign_eq_neg_one_of_neg (by omega)
  simp [h1, h2]

theorem galoisElement_pos (t : Nat) (ht : 0 < t) (m : Int) (hm : isPow2Int m = true) (hd : m ∣ 2 ^ 64) :
    galoisElement (t : Int) m = .ok (5 ^ t % m) := by
  rw [galoisElement_spec _ m hm hd]
  have h1 : (t : Int) ≠ 0 := by omega
  have h2 : (t : Int).sign = 1 := Int.sign_eq_one_of_pos (by omega)
  rw [if_neg h1, h2]; simp

theorem galoisElementInv_spec (g m : Int) (hg : g ≠ 0) (hd : m ∣ 2 ^ 64) :
    galoisElementInv g m = .ok ((g.natAbs : Int) ^ (m - 1).toNat % m * g.sign) := by
  unfold galoisElementInv
  simp only [hg, if_false]
  rw [modExpU64_emod _ _ m hd]

/-- `galois_element_inv` really inverts odd elements modulo `2N = 2^K` -/
theorem galoisElementInv_mul (g : Int) (hg : g % 2 = 1) (K : Nat) (hK : K ≤ 64) (h : Int)
    (hh : galoisElementInv g (2 ^ K) = .ok h) : (h * g) % 2 ^ K = 1 % 2 ^ K := by
  have hg0 : g ≠ 0 := by omega
  have hd : (2 : Int) ^ K ∣ 2 ^ 64 := pow_dvd_pow 2 hK
  rw [galoisElementInv_spec g _ hg0 hd] at hh
  injection hh with hh
  subst hh
  have habs : ((g.natAbs : Int)) % 2 = 1 := by omega
  have hsg : g.sign * g = (g.natAbs : Int) := by
    rw [Int.sign_mul_self_eq_natAbs]
  have e1 : (g.natAbs : Int) ^ ((2 : Int) ^ K - 1).toNat % 2 ^ K * g.sign * g
      = (g.natAbs : Int) ^ ((2 : Int) ^ K - 1).toNat % 2 ^ K * (g.natAbs : Int) := by
    rw [mul_assoc, hsg]
  rw [e1]
  have e2 : ((2 : Int) ^ K - 1).toNat + 1 = 2 ^ K := by
    have : (0 : Int) < 2 ^ K := by positivity
    have h3 : (((2 : Int) ^ K - 1).toNat : Int) = 2 ^ K - 1 := Int.toNat_of_nonneg (by omega)
    have : ((((2 : Int) ^ K - 1).toNat + 1 : Nat) : Int) = ((2 ^ K : Nat) : Int) := by push_cast; omega
    exact_mod_cast this
  have key : (g.natAbs : Int) ^ ((2 : Int) ^ K - 1).toNat % 2 ^ K * (g.natAbs : Int) ≡ 1 [ZMOD 2 ^ K] := by
    have a1 : (g.natAbs : Int) ^ ((2 : Int) ^ K - 1).toNat % 2 ^ K * (g.natAbs : Int)
        ≡ (g.natAbs : Int) ^ ((2 : Int) ^ K - 1).toNat * (g.natAbs : Int) [ZMOD 2 ^ K] :=
      (Int.mod_modEq _ _).mul (Int.ModEq.refl _)
    refine a1.trans ?_
    rw [← pow_succ, e2]
    exact (odd_pow_two_pow _ habs K).of_dvd (pow_dvd_pow 2 (Nat.le_succ K))
  exact key
