import Poulpy.Lemmas.CoreOpsAlg

/-!
Column level of C02: normal forms of the per-column kernels in terms of `fit`, and the phase as a
linear form `lin` in the (fitted) columns.
-/

namespace C02L
open Hal

/-! ### `fit` -/

@[simp] theorem fit_length (N rs : Nat) (a : Col) : (fit N rs a).length = rs := by simp [fit]

theorem fit_getElem? (N rs : Nat) (a : Col) (j : Nat) :
    (fit N rs a)[j]? = if j < rs then some (a.getD j (zeroP N)) else none := by
  unfold fit
  by_cases h : j < rs <;> simp [h]

theorem getD_limbsN {N : Nat} {a : Col} (h : LimbsN N a) (j : Nat) : (a.getD j (zeroP N)).length = N := by
  rw [List.getD_eq_getElem?_getD]
  cases e : a[j]? with
  | none => simp [zeroP]
  | some l => simpa using h l (List.mem_of_getElem? e)

theorem getD_small {N : Nat} {a : Col} (h : ColSmall a) (j : Nat) : PolySmall (a.getD j (zeroP N)) := by
  rw [List.getD_eq_getElem?_getD]
  cases e : a[j]? with
  | none =>
    intro x hx
    simp [zeroP] at hx
    omega
  | some l => simpa using h l (List.mem_of_getElem? e)

theorem fit_limbsN {N : Nat} {a : Col} (h : LimbsN N a) (rs : Nat) : LimbsN N (fit N rs a) := by
  intro l hl
  simp only [fit, List.mem_map, List.mem_range] at hl
  obtain ⟨j, _, rfl⟩ := hl
  exact getD_limbsN h j

theorem fit_wf {N : Nat} {a : Col} (h : LimbsN N a) (rs : Nat) : ColWF N rs (fit N rs a) :=
  ⟨fit_length N rs a, fit_limbsN h rs⟩

theorem fit_self {N rs : Nat} {a : Col} (h : a.length = rs) : fit N rs a = a := by
  apply List.ext_getElem?
  intro j
  rw [fit_getElem?]
  by_cases hj : j < rs
  · simp [hj, List.getD_eq_getElem?_getD, List.getElem?_eq_getElem (h ▸ hj)]
  · simp [hj, List.getElem?_eq_none (by omega : a.length ≤ j)]

theorem limbsN_nil (N : Nat) : LimbsN N [] := fun _ h => by simp at h

theorem fit_nil (N rs : Nat) : fit N rs [] = List.replicate rs (zeroP N) := by
  apply List.ext_getElem?
  intro j
  rw [fit_getElem?]
  by_cases hj : j < rs <;> simp [hj, List.getElem?_replicate]

/-- extensionality for columns through `getD` with the zero limb as default -/
theorem col_ext {N : Nat} {a b : Col} (hl : a.length = b.length)
    (h : ∀ j, j < a.length → a.getD j (zeroP N) = b.getD j (zeroP N)) : a = b := by
  apply List.ext_getElem hl
  intro j h1 h2
  have := h j h1
  simpa [List.getD_eq_getElem?_getD, List.getElem?_eq_getElem h1, List.getElem?_eq_getElem h2] using this

theorem colAdd_getD {N : Nat} (a b : Col) (j : Nat) (ha : j < a.length) (hb : j < b.length) :
    (colAdd a b).getD j (zeroP N) = polyAdd (a.getD j (zeroP N)) (b.getD j (zeroP N)) := by
  simp [colAdd, List.getD_eq_getElem?_getD, List.getElem?_zipWith, List.getElem?_eq_getElem ha, List.getElem?_eq_getElem hb]

theorem fit_getD (N rs : Nat) (a : Col) (j : Nat) (hj : j < rs) : (fit N rs a).getD j (zeroP N) = a.getD j (zeroP N) := by
  rw [List.getD_eq_getElem?_getD, fit_getElem?]; simp [hj]

theorem map_getD {N : Nat} (T : Poly → Poly) (a : Col) (j : Nat) (ha : j < a.length) :
    (a.map T).getD j (zeroP N) = T (a.getD j (zeroP N)) := by
  simp [List.getD_eq_getElem?_getD, List.getElem?_eq_getElem ha]

/-! ### normal forms of the kernels (head-room: no `i64` wrap) -/

theorem vecAddW_getElem? (w : Int → Int) (n rs : Nat) (a b : Col) (j : Nat) :
    (vecAddW w n rs a b)[j]? =
      if j < rs then
        some (if j < a.length ∧ j < b.length then znxAddW w (a.getD j []) (b.getD j [])
              else if j < a.length then a.getD j [] else if j < b.length then b.getD j [] else znxZero n)
      else none := by
  unfold vecAddW
  split <;> simp [List.getElem?_append, List.getElem?_take, List.getElem?_drop, List.getElem?_zipWith,
    List.getElem?_replicate, List.getD_eq_getElem?_getD] <;> grind

theorem znxZero_eq (n : Nat) : znxZero n = zeroP n := rfl

theorem getD_eq_of_lt {N : Nat} (a : Col) (j : Nat) (h : j < a.length) : a.getD j [] = a.getD j (zeroP N) := by
  simp [List.getD_eq_getElem?_getD, List.getElem?_eq_getElem h]

theorem getD_of_ge {N : Nat} (a : Col) (j : Nat) (h : a.length ≤ j) : a.getD j (zeroP N) = zeroP N := by
  simp [List.getD_eq_getElem?_getD, List.getElem?_eq_none h]

/-- `vec_znx_add_into` = sum of the fitted operands -/
theorem vecAdd_nf {N : Nat} (rs : Nat) (a b : Col) (ha : LimbsN N a) (hb : LimbsN N b)
    (sa : ColSmall a) (sb : ColSmall b) :
    vecAdd N rs a b = colAdd (fit N rs a) (fit N rs b) := by
  apply List.ext_getElem?
  intro j
  rw [vecAddW_getElem?]
  simp only [colAdd, List.getElem?_zipWith, fit_getElem?]
  by_cases hj : j < rs
  · simp only [hj, if_true, Option.map₂_some_some]
    congr 1
    by_cases h1 : j < a.length <;> by_cases h2 : j < b.length
    · simp only [h1, h2, and_self, if_true, getD_eq_of_lt (N := N) a j h1, getD_eq_of_lt (N := N) b j h2]
      exact znxAddW_small _ _ (getD_small sa j) (getD_small sb j)
    · simp only [h1, h2, and_false, if_false, if_true, getD_eq_of_lt (N := N) a j h1, getD_of_ge (N := N) b j (by omega)]
      exact (polyAdd_zero_right _ N (getD_limbsN ha j)).symm
    · simp only [h1, h2, false_and, if_false, if_true, getD_eq_of_lt (N := N) b j h2, getD_of_ge (N := N) a j (by omega)]
      exact (polyAdd_zero_left _ N (getD_limbsN hb j)).symm
    · simp only [h1, h2, false_and, if_false, getD_of_ge (N := N) a j (by omega), getD_of_ge (N := N) b j (by omega), znxZero_eq]
      exact (polyAdd_zero_zero N).symm
  · simp [hj]

theorem vecSubW_getElem? (w : Int → Int) (n rs : Nat) (a b : Col) (j : Nat) :
    (vecSubW w n rs a b)[j]? =
      if j < rs then
        some (if j < a.length ∧ j < b.length then znxSubW w (a.getD j []) (b.getD j [])
              else if j < a.length then a.getD j [] else if j < b.length then znxNegateW w (b.getD j []) else znxZero n)
      else none := by
  unfold vecSubW
  split <;> simp [List.getElem?_append, List.getElem?_take, List.getElem?_drop, List.getElem?_zipWith,
    List.getElem?_replicate, List.getD_eq_getElem?_getD] <;> grind

/-- `vec_znx_sub` = fitted `a` plus the negated fitted `b` -/
theorem vecSub_nf {N : Nat} (rs : Nat) (a b : Col) (ha : LimbsN N a) (hb : LimbsN N b)
    (sa : ColSmall a) (sb : ColSmall b) :
    vecSub N rs a b = colAdd (fit N rs a) ((fit N rs b).map polyNeg) := by
  apply List.ext_getElem?
  intro j
  rw [vecSubW_getElem?]
  simp only [colAdd, List.getElem?_zipWith, List.getElem?_map, fit_getElem?]
  by_cases hj : j < rs
  · simp only [hj, if_true, Option.map_some, Option.map₂_some_some]
    congr 1
    by_cases h1 : j < a.length <;> by_cases h2 : j < b.length
    · simp only [h1, h2, and_self, if_true, getD_eq_of_lt (N := N) a j h1, getD_eq_of_lt (N := N) b j h2]
      rw [znxSubW_small _ _ (getD_small sa j) (getD_small sb j), polySub_eq]
    · simp only [h1, h2, and_false, if_false, if_true, getD_eq_of_lt (N := N) a j h1, getD_of_ge (N := N) b j (by omega)]
      rw [polyNeg_zero]
      exact (polyAdd_zero_right _ N (getD_limbsN ha j)).symm
    · simp only [h1, h2, false_and, if_false, if_true, getD_eq_of_lt (N := N) b j h2, getD_of_ge (N := N) a j (by omega)]
      rw [znxNegateW_small _ (getD_small sb j)]
      exact (polyAdd_zero_left _ N (by rw [polyNeg_length]; exact getD_limbsN hb j)).symm
    · simp only [h1, h2, false_and, if_false, getD_of_ge (N := N) a j (by omega), getD_of_ge (N := N) b j (by omega), znxZero_eq]
      rw [polyNeg_zero]
      exact (polyAdd_zero_zero N).symm
  · simp [hj]

/-- the unary out-of-place kernels: `take m`, map, zero fill -/
theorem mapFit_getElem? (n rs : Nat) (T : Poly → Poly) (a : Col) (j : Nat) :
    ((a.take (min rs a.length)).map T ++ List.replicate (rs - min rs a.length) (znxZero n))[j]? =
      if j < rs then some (if j < a.length then T (a.getD j []) else znxZero n) else none := by
  simp [List.getElem?_append, List.getElem?_take, List.getElem?_replicate, List.getD_eq_getElem?_getD] <;> grind

theorem mapFit_nf {N : Nat} (rs : Nat) (T : Poly → Poly) (hT : T (zeroP N) = zeroP N) (a : Col) :
    (a.take (min rs a.length)).map T ++ List.replicate (rs - min rs a.length) (znxZero N) = (fit N rs a).map T := by
  apply List.ext_getElem?
  intro j
  rw [mapFit_getElem?]
  simp only [List.getElem?_map, fit_getElem?]
  by_cases hj : j < rs
  · simp only [hj, if_true, Option.map_some]
    congr 1
    by_cases h1 : j < a.length
    · simp [h1, getD_eq_of_lt (N := N) a j h1]
    · simp [h1, getD_of_ge (N := N) a j (by omega), hT, znxZero_eq]
  · simp [hj]

theorem map_congr_small {a : Col} (sa : ColSmall a) (T T' : Poly → Poly) (h : ∀ l, PolySmall l → T l = T' l) :
    a.map T = a.map T' := by
  apply List.map_congr_left
  intro l hl
  exact h l (sa l hl)

theorem ColSmall.take {a : Col} (h : ColSmall a) (k : Nat) : ColSmall (a.take k) :=
  fun l hl => h l (List.mem_of_mem_take hl)

/-- `vec_znx_negate` -/
theorem vecNegate_nf {N : Nat} (rs : Nat) (a : Col) (sa : ColSmall a) :
    vecNegate N rs a = (fit N rs a).map polyNeg := by
  show (a.take (min rs a.length)).map (znxNegateW w64) ++ _ = _
  rw [map_congr_small (sa.take _) _ polyNeg znxNegateW_small]
  exact mapFit_nf rs polyNeg (polyNeg_zero N) a

/-- `vec_znx_rotate` -/
theorem vecRotate_nf {N : Nat} (k : Int) (rs : Nat) (a : Col) (sa : ColSmall a) :
    vecRotate k N rs a = (fit N rs a).map (rotP k) := by
  show (a.take (min rs a.length)).map (znxRotateW w64 k) ++ _ = _
  rw [map_congr_small (sa.take _) _ (rotP k) (znxRotateW_small k)]
  exact mapFit_nf rs (rotP k) (rotP_zero k N) a

/-- `vec_znx_copy` -/
theorem vecCopy_nf {N : Nat} (rs : Nat) (a : Col) : vecCopy N rs a = fit N rs a := by
  have h := mapFit_nf (N := N) rs id rfl a
  simp only [List.map_id] at h
  exact h

/-- `vec_znx_zero` -/
theorem vecZero_nf (N rs : Nat) : vecZero N rs = fit N rs [] := by
  rw [fit_nil]; rfl

/-! ### in-place kernels -/

theorem assignZip_getElem? (f : Poly → Poly → Poly) (g : Poly → Poly) (res a : Col) (j : Nat) :
    (List.zipWith f (res.take (min a.length res.length)) (a.take (min a.length res.length))
        ++ (res.drop (min a.length res.length)).map g)[j]? =
      if j < res.length then some (if j < a.length then f (res.getD j []) (a.getD j []) else g (res.getD j [])) else none := by
  simp [List.getElem?_append, List.getElem?_take, List.getElem?_drop, List.getElem?_zipWith,
    List.getD_eq_getElem?_getD] <;> grind

/-- shared normal form of the in-place binary kernels -/
theorem assignZip_nf {N : Nat} (f B : Poly → Poly → Poly) (g : Poly → Poly) (res a : Col)
    (hr : LimbsN N res) (sr : ColSmall res) (sa : ColSmall a)
    (hf : ∀ x y, PolySmall x → PolySmall y → f x y = B x y)
    (hg : ∀ x, x.length = N → PolySmall x → g x = B x (zeroP N)) :
    List.zipWith f (res.take (min a.length res.length)) (a.take (min a.length res.length))
        ++ (res.drop (min a.length res.length)).map g
      = List.zipWith B res (fit N res.length a) := by
  apply List.ext_getElem?
  intro j
  rw [assignZip_getElem?]
  simp only [List.getElem?_zipWith, fit_getElem?]
  by_cases hj : j < res.length
  · simp only [hj, if_true, List.getElem?_eq_getElem hj, Option.map₂_some_some]
    congr 1
    have e : res.getD j [] = res[j] := by simp [List.getD_eq_getElem?_getD, List.getElem?_eq_getElem hj]
    have sm : PolySmall res[j] := sr _ (List.getElem_mem hj)
    have ln : res[j].length = N := hr _ (List.getElem_mem hj)
    rw [e]
    by_cases h1 : j < a.length
    · simp only [h1, if_true, getD_eq_of_lt (N := N) a j h1]
      exact hf _ _ sm (getD_small sa j)
    · simp only [h1, if_false, getD_of_ge (N := N) a j (by omega)]
      exact hg _ ln sm
  · simp [hj, List.getElem?_eq_none (by omega : res.length ≤ j)]

/-- `vec_znx_add_assign` -/
theorem vecAddAssign_nf {N : Nat} (res a : Col) (hr : LimbsN N res) (sr : ColSmall res) (sa : ColSmall a) :
    vecAddAssignW w64 res a = colAdd res (fit N res.length a) := by
  have h := assignZip_nf (N := N) (znxAddW w64) polyAdd id res a hr sr sa znxAddW_small
    (fun x hx _ => (polyAdd_zero_right x N hx).symm)
  simp only [List.map_id] at h
  exact h

/-- `vec_znx_sub_assign` -/
theorem vecSubAssign_nf {N : Nat} (res a : Col) (hr : LimbsN N res) (sr : ColSmall res) (sa : ColSmall a) :
    vecSubAssignW w64 res a = colAdd res ((fit N res.length a).map polyNeg) := by
  have h := assignZip_nf (N := N) (znxSubW w64) (fun x y => polyAdd x (polyNeg y)) id res a hr sr sa
    (fun x y hx hy => by rw [znxSubW_small x y hx hy, polySub_eq])
    (fun x hx _ => by simp only [id]; rw [polyNeg_zero, polyAdd_zero_right x N hx])
  simp only [List.map_id] at h
  rw [show colAdd res ((fit N res.length a).map polyNeg)
      = List.zipWith (fun x y => polyAdd x (polyNeg y)) res (fit N res.length a) from by
        simp [colAdd, List.zipWith_map_right]]
  exact h

/-- `vec_znx_sub_negate_assign` -/
theorem vecSubNegateAssign_nf {N : Nat} (res a : Col) (hr : LimbsN N res) (sr : ColSmall res) (sa : ColSmall a) :
    vecSubNegateAssignW w64 res a = colAdd (res.map polyNeg) (fit N res.length a) := by
  have h := assignZip_nf (N := N) (fun r x => znxSubW w64 x r) (fun x y => polyAdd (polyNeg x) y) (znxNegateW w64) res a hr sr sa
    (fun x y hx hy => by rw [znxSubW_small y x hy hx, polySub_eq, polyAdd_comm])
    (fun x hx sx => by rw [znxNegateW_small x sx, polyAdd_zero_right _ N (by rw [polyNeg_length]; exact hx)])
  rw [show colAdd (res.map polyNeg) (fit N res.length a)
      = List.zipWith (fun x y => polyAdd (polyNeg x) y) res (fit N res.length a) from by
        simp [colAdd, List.zipWith_map_left]]
  rw [← h]
  unfold vecSubNegateAssignW
  congr 1
  rw [← List.zipWith_comm]  

theorem vecNegateAssign_nf (res : Col) (sr : ColSmall res) : vecNegateAssignW w64 res = res.map polyNeg :=
  map_congr_small sr _ _ znxNegateW_small

theorem vecRotateAssign_nf (k : Int) (res : Col) (sr : ColSmall res) : vecRotateAssignW w64 k res = res.map (rotP k) :=
  map_congr_small sr _ _ (znxRotateW_small k)

theorem PolySmall.neg {x : Poly} (h : PolySmall x) : PolySmall (polyNeg x) := by
  intro y hy
  simp only [polyNeg, List.mem_map] at hy
  obtain ⟨z, hz, rfl⟩ := hy
  have := h z hz
  omega

theorem PolySmall.append {x y : Poly} (hx : PolySmall x) (hy : PolySmall y) : PolySmall (x ++ y) := by
  intro z hz
  rcases List.mem_append.mp hz with h | h
  · exact hx z h
  · exact hy z h

theorem PolySmall.rot {x : Poly} (h : PolySmall x) (k : Int) : PolySmall (rotP k x) := by
  unfold rotP znxRotateW
  simp only [znxNegateW_id]
  split
  · exact (h.drop _).neg.append (h.take _)
  · exact (h.drop _).append (h.take _).neg

theorem vecMulXpMinusOneAssign_nf (k : Int) (res : Col) (sr : ColSmall res) :
    vecMulXpMinusOneAssignW w64 k res = res.map (mxpP k) := by
  apply map_congr_small sr
  intro l hl
  rw [znxRotateW_small k l hl, znxSubW_small _ _ (hl.rot k) hl]
  rfl

theorem ColSmall.fit {N : Nat} {a : Col} (h : ColSmall a) (rs : Nat) : ColSmall (fit N rs a) := by
  intro l hl
  simp only [C02L.fit, List.mem_map, List.mem_range] at hl
  obtain ⟨j, _, rfl⟩ := hl
  exact getD_small h j

theorem ColSmall.map {a : Col} (h : ColSmall a) (T : Poly → Poly) (hT : ∀ l, PolySmall l → PolySmall (T l)) :
    ColSmall (a.map T) := by
  intro l hl
  simp only [List.mem_map] at hl
  obtain ⟨x, hx, rfl⟩ := hl
  exact hT x (h x hx)

theorem LimbsN.map {N : Nat} {a : Col} (h : LimbsN N a) (T : Poly → Poly) (hT : ∀ l, l.length = N → (T l).length = N) :
    LimbsN N (a.map T) := by
  intro l hl
  simp only [List.mem_map] at hl
  obtain ⟨x, hx, rfl⟩ := hl
  exact hT x (h x hx)

/-- `vec_znx_mul_xp_minus_one` -/
theorem vecMulXpMinusOne_nf {N : Nat} (k : Int) (rs : Nat) (a : Col) (ha : LimbsN N a) (sa : ColSmall a) :
    vecMulXpMinusOne k N rs a = (fit N rs a).map (mxpP k) := by
  show vecSubAssignW w64 (vecRotate k N rs a) a = _
  rw [vecRotate_nf k rs a sa]
  have hl : ((fit N rs a).map (rotP k)).length = rs := by simp
  rw [vecSubAssign_nf (N := N) _ a ((fit_limbsN ha rs).map _ (fun l hl => by rw [rotP_length]; exact hl))
    ((sa.fit rs).map _ (fun l hl => hl.rot k)) sa, hl]
  simp only [colAdd, List.zipWith_map_left, List.zipWith_map_right, List.zipWith_self]
  apply List.map_congr_left
  intro l _
  show polyAdd (rotP k l) (polyNeg l) = mxpP k l
  rw [mxpP, polySub_eq]

end C02L
