import Poulpy.Lemmas.ValBridge
import Poulpy.Lemmas.CoreOpsCol
import Poulpy.Model.Core.Ep

/-!
`vec_znx_big_add_small_assign` on the i64 accumulator is the exact limb-wise sum under head-room (no-overflow lemma, from C02's
`vecAddAssign_nf`), and the value of the phase is additive over such column-wise sums.
-/

namespace Core
open Hal Ks Finset C02L Core.Ops

theorem bigAddSmallAssign_exact {N : Nat} (res a : Col) (hr : LimbsN N res) (sr : ColSmall res) (sa : ColSmall a) :
    bigAddSmallAssign false res a = colAdd res (fit N res.length a) := by
  unfold bigAddSmallAssign
  simp only [Bool.false_eq_true, if_false]
  exact vecAddAssign_nf res a hr sr sa

theorem ι_valP_phase_cols (N : Nat) (hN : 0 < N) (b S : Nat) (s : List Poly) (cols : List Col) (hne : cols ≠ [])
    (hwf : ∀ c ∈ cols, ColWF N S c) :
    ι N (valP b N (phase s (Ks.mkCt b N cols)))
      = ι N (valP b N (cols.getD 0 []))
        + ∑ i ∈ range (min (cols.length - 1) s.length), ι N (s.getD i []) * ι N (valP b N (cols.getD (i + 1) [])) := by
  have hpos : 0 < cols.length := List.length_pos_of_ne_nil hne
  have hcol : ∀ i, i ≤ cols.length - 1 → ColWF N S (cols.getD i []) := by
    intro i hi
    have hi' : i < cols.length := by omega
    rw [List.getD_eq_getElem?_getD, List.getElem?_eq_getElem hi']
    exact hwf _ (List.getElem_mem hi')
  have hrank : (Ks.mkCt b N cols).rank = cols.length - 1 := rfl
  rw [phase_eq_linTo, hrank, valP_linTo (N := N) (rs := S) b _ s (fun i => col (Ks.mkCt b N cols) i) (fun i hi => hcol i (by omega)),
    ι_errTo N hN _ s _ (fun _ => by simp)]
  rfl

theorem ι_valP_phase_add (N : Nat) (hN : 0 < N) (b S : Nat) (s : List Poly) (n : Nat) (p q : Nat → Col)
    (hp : ∀ j, j < n + 1 → ColWF N S (p j)) (hq : ∀ j, j < n + 1 → ColWF N S (q j)) :
    ι N (valP b N (phase s (Ks.mkCt b N ((List.range (n + 1)).map (fun j => colAdd (p j) (q j))))))
      = ι N (valP b N (phase s (Ks.mkCt b N ((List.range (n + 1)).map p))))
        + ι N (valP b N (phase s (Ks.mkCt b N ((List.range (n + 1)).map q)))) := by
  have hget : ∀ (f : Nat → Col) i, i < n + 1 → ((List.range (n + 1)).map f).getD i [] = f i := by
    intro f i hi
    simp [List.getD_eq_getElem?_getD, List.getElem?_map, List.getElem?_range hi]
  have hmem : ∀ (f : Nat → Col), (∀ j, j < n + 1 → ColWF N S (f j)) → ∀ c ∈ (List.range (n + 1)).map f, ColWF N S c := by
    intro f hf c hc
    obtain ⟨j, hj, rfl⟩ := List.mem_map.mp hc
    exact hf j (List.mem_range.mp hj)
  have hne : ∀ (f : Nat → Col), (List.range (n + 1)).map f ≠ [] := by
    intro f h
    have := congrArg List.length h
    simp at this
  have hsum : ∀ j, j < n + 1 → ColWF N S (colAdd (p j) (q j)) := by
    intro j hj
    refine ⟨by simp [C02L.colAdd, (hp j hj).1, (hq j hj).1], ?_⟩
    intro l hl
    obtain ⟨k, hk, rfl⟩ := List.getElem_of_mem hl
    simp only [C02L.colAdd, List.getElem_zipWith]
    rw [polyAdd_length]
    have hk1 : k < (p j).length := by simp [C02L.colAdd] at hk; omega
    have hk2 : k < (q j).length := by simp [C02L.colAdd] at hk; omega
    rw [(hp j hj).2 _ (List.getElem_mem hk1), (hq j hj).2 _ (List.getElem_mem hk2)]; simp
  rw [ι_valP_phase_cols N hN b S s _ (hne _) (hmem _ hsum), ι_valP_phase_cols N hN b S s _ (hne _) (hmem _ hp),
    ι_valP_phase_cols N hN b S s _ (hne _) (hmem _ hq)]
  simp only [List.length_map, List.length_range, Nat.add_sub_cancel]
  rw [hget _ 0 (by omega), hget p 0 (by omega), hget q 0 (by omega), valP_colAdd b (hp 0 (by omega)) (hq 0 (by omega)),
    ι_add N _ _ (by simp)]
  have e : ∀ i ∈ range (min n s.length),
      ι N (s.getD i []) * ι N (valP b N (((List.range (n + 1)).map (fun j => colAdd (p j) (q j))).getD (i + 1) []))
        = ι N (s.getD i []) * ι N (valP b N (((List.range (n + 1)).map p).getD (i + 1) []))
          + ι N (s.getD i []) * ι N (valP b N (((List.range (n + 1)).map q).getD (i + 1) [])) := by
    intro i hi
    have hi' : i + 1 < n + 1 := by have := mem_range.mp hi; omega
    rw [hget _ _ hi', hget p _ hi', hget q _ hi', valP_colAdd b (hp _ hi') (hq _ hi'), ι_add N _ _ (by simp)]
    ring
  rw [Finset.sum_congr rfl e, Finset.sum_add_distrib]
  ring

end Core
