import Poulpy.Lemmas.ValBridge
import Poulpy.Lemmas.CoreOpsCol
import Poulpy.Model.Core.Ep
import Poulpy.Lemmas.MulNorm

/-!
`vec_znx_big_add_small_assign` on the i64 accumulator is the exact limb-wise sum under head-room (no-overflow lemma, from C02's
`vecAddAssign_nf`), and the value of the phase is additive over such column-wise sums.
-/

namespace Core
open Hal Ks Finset C02L Core.Ops

theorem bigAddSmallAssign_exact {N : Nat} (res a : Col) (hr : LimbsN N res) (sr : ColSmall res) (sa : ColSmall a) :
    bigAddSmallAssign false res a = colAdd res (fit N res.length a) := by
  unfold bigAddSmallAssign
  simp only [Bool.false_eq_true, if_false]
  exact vecAddAssign_nf res a hr sr sa

theorem ι_valP_phase_cols (N : Nat) (hN : 0 < N) (b S : Nat) (s : List Poly) (cols : List Col) (hne : cols ≠ [])
    (hwf : ∀ c ∈ cols, ColWF N S c) :
    ι N (valP b N (phase s (Ks.mkCt b N cols)))
      = ι N (valP b N (cols.getD 0 []))
        + ∑ i ∈ range (min (cols.length - 1) s.length), ι N (s.getD i []) * ι N (valP b N (cols.getD (i + 1) [])) := by
  have hpos : 0 < cols.length := List.length_pos_of_ne_nil hne
  have hcol : ∀ i, i ≤ cols.length - 1 → ColWF N S (cols.getD i []) := by
    intro i hi
    have hi' : i < cols.length := by omega
    rw [List.getD_eq_getElem?_getD, List.getElem?_eq_getElem hi']
    exact hwf _ (List.getElem_mem hi')
  have hrank : (Ks.mkCt b N cols).rank = cols.length - 1 := rfl
  rw [phase_eq_linTo, hrank, valP_linTo (N := N) (rs := S) b _ s (fun i => col (Ks.mkCt b N cols) i) (fun i hi => hcol i (by omega)),
    ι_errTo N hN _ s _ (fun _ => by simp)]
  rfl

theorem ι_valP_phase_add (N : Nat) (hN : 0 < N) (b S : Nat) (s : List Poly) (n : Nat) (p q : Nat → Col)
    (hp : ∀ j, j < n + 1 → ColWF N S (p j)) (hq : ∀ j, j < n + 1 → ColWF N S (q j)) :
    ι N (valP b N (phase s (Ks.mkCt b N ((List.range (n + 1)).map (fun j => colAdd (p j) (q j))))))
      = ι N (valP b N (phase s (Ks.mkCt b N ((List.range (n + 1)).map p))))
        + ι N (valP b N (phase s (Ks.mkCt b N ((List.range (n + 1)).map q)))) := by
  have hget : ∀ (f : Nat → Col) i, i < n + 1 → ((List.range (n + 1)).map f).getD i [] = f i := by
    intro f i hi
    simp [List.getD_eq_getElem?_getD, List.getElem?_map, List.getElem?_range hi]
  have hmem : ∀ (f : Nat → Col), (∀ j, j < n + 1 → ColWF N S (f j)) → ∀ c ∈ (List.range (n + 1)).map f, ColWF N S c := by
    intro f hf c hc
    obtain ⟨j, hj, rfl⟩ := List.mem_map.mp hc
    exact hf j (List.mem_range.mp hj)
  have hne : ∀ (f : Nat → Col), (List.range (n + 1)).map f ≠ [] := by
    intro f h
    have := congrArg List.length h
    simp at this
  have hsum : ∀ j, j < n + 1 → ColWF N S (colAdd (p j) (q j)) := by
    intro j hj
    refine ⟨by simp [C02L.colAdd, (hp j hj).1, (hq j hj).1], ?_⟩
    intro l hl
    obtain ⟨k, hk, rfl⟩ := List.getElem_of_mem hl
    simp only [C02L.colAdd, List.getElem_zipWith]
    rw [polyAdd_length]
    have hk1 : k < (p j).length := by simp [C02L.colAdd] at hk; omega
    have hk2 : k < (q j).length := by simp [C02L.colAdd] at hk; omega
    rw [(hp j hj).2 _ (List.getElem_mem hk1), (hq j hj).2 _ (List.getElem_mem hk2)]; simp
  rw [ι_valP_phase_cols N hN b S s _ (hne _) (hmem _ hsum), ι_valP_phase_cols N hN b S s _ (hne _) (hmem _ hp),
    ι_valP_phase_cols N hN b S s _ (hne _) (hmem _ hq)]
  simp only [List.length_map, List.length_range, Nat.add_sub_cancel]
  rw [hget _ 0 (by omega), hget p 0 (by omega), hget q 0 (by omega), valP_colAdd b (hp 0 (by omega)) (hq 0 (by omega)),
    ι_add N _ _ (by simp)]
  have e : ∀ i ∈ range (min n s.length),
      ι N (s.getD i []) * ι N (valP b N (((List.range (n + 1)).map (fun j => colAdd (p j) (q j))).getD (i + 1) []))
        = ι N (s.getD i []) * ι N (valP b N (((List.range (n + 1)).map p).getD (i + 1) []))
          + ι N (s.getD i []) * ι N (valP b N (((List.range (n + 1)).map q).getD (i + 1) [])) := by
    intro i hi
    have hi' : i + 1 < n + 1 := by have := mem_range.mp hi; omega
    rw [hget _ _ hi', hget p _ hi', hget q _ hi', valP_colAdd b (hp _ hi') (hq _ hi'), ι_add N _ _ (by simp)]
    ring
  rw [Finset.sum_congr rfl e, Finset.sum_add_distrib]
  ring

theorem mapM_some_map {α β} (f : α → β) (l : List α) : l.mapM (fun x => some (f x)) = some (l.map f) := by
  induction l with
  | nil => rfl
  | cons x xs ih => simp [List.mapM_cons, ih]

/-- **accumulate-then-normalise**, i64 accumulator: the result of normalising `P_j + q_j` column by column has the phase
`A·phase(res) = B·(value of the per-limb phases of P + phase of q at S limbs) + (E₀ + Σ s_i E_{i+1})`. -/
theorem acc_norm_compose (N : Nat) (hN : 0 < N) (K : Col → Option Col) (rb ab S n : Nat) (P : List Col) (q : Nat → Col) (res : List Col)
    (sk : List Poly) (hPlen : P.length = n + 1) (hPwf : ∀ c ∈ P, ColWF N S c) (hPs : ∀ c ∈ P, ColSmall c)
    (hq : ∀ j, j < n + 1 → LimbsN N (q j)) (hqs : ∀ j, j < n + 1 → ColSmall (q j))
    (hm : (List.range (n + 1)).mapM (fun j => K (bigAddSmallAssign false (P.getD j []) (q j))) = some res)
    (hres : GWF N (Ks.mkCt rb N res))
    (A B : Int) (En : Nat → Poly) (hEn : ∀ i, (En i).length = N)
    (hK : ∀ i, i < n + 1 → ∀ C, K (bigAddSmallAssign false (P.getD i []) (q i)) = some C →
      polyScale A (valP rb N C) = polyAdd (polyScale B (valP ab N (bigAddSmallAssign false (P.getD i []) (q i)))) (En i)) :
    (A : R N) * ι N (valP rb N (phase sk (Ks.mkCt rb N res)))
      = (B : R N) * (∑ l ∈ range S, ι N (phaseRow sk (P.map (fun col => limbOr0 N col l))) * ((2 : R N) ^ ab) ^ (S - 1 - l)
          + ι N (valP ab N (phase sk (Ks.mkCt ab N ((List.range (n + 1)).map (fun j => fit N S (q j)))))))
        + ι N (errTo (min n sk.length) sk En) := by
  have hPget : ∀ j, j < n + 1 → ColWF N S (P.getD j []) ∧ ColSmall (P.getD j []) := by
    intro j hj
    have hj' : j < P.length := by rw [hPlen]; exact hj
    rw [List.getD_eq_getElem?_getD, List.getElem?_eq_getElem hj']
    exact ⟨hPwf _ (List.getElem_mem hj'), hPs _ (List.getElem_mem hj')⟩
  rw [mapM_comp (fun j => bigAddSmallAssign false (P.getD j []) (q j)) K] at hm
  have hacc_eq : (List.range (n + 1)).map (fun j => bigAddSmallAssign false (P.getD j []) (q j))
      = (List.range (n + 1)).map (fun j => colAdd (P.getD j []) (fit N S (q j))) := by
    apply List.map_congr_left
    intro j hj
    have hj' := List.mem_range.mp hj
    rw [bigAddSmallAssign_exact (N := N) _ _ (hPget j hj').1.2 (hPget j hj').2 (hqs j hj'), (hPget j hj').1.1]
  have hqwf : ∀ j, j < n + 1 → ColWF N S (fit N S (q j)) := fun j hj => fit_wf (hq j hj) S
  have hadd := ι_valP_phase_add N hN ab S sk n (fun j => P.getD j []) (fun j => fit N S (q j)) (fun j hj => (hPget j hj).1) hqwf
  have hPmap : (List.range (n + 1)).map (fun j => P.getD j []) = P := by
    apply List.ext_getElem
    · simp [hPlen]
    · intro i h1 h2
      simp [List.getD_eq_getElem?_getD, List.getElem?_eq_getElem h2]
  rw [hPmap] at hadd
  have hne : P ≠ [] := by
    intro h; rw [h] at hPlen; simp at hPlen
  have hsumwf : ∀ c ∈ (List.range (n + 1)).map (fun j => colAdd (P.getD j []) (fit N S (q j))), ColWF N S c := by
    intro c hc
    obtain ⟨j, hj, rfl⟩ := List.mem_map.mp hc
    have hj' := List.mem_range.mp hj
    exact colAdd_wf (hPget j hj').1 (hqwf j hj')
  have hnes : (List.range (n + 1)).map (fun j => colAdd (P.getD j []) (fit N S (q j))) ≠ [] := by
    intro h; have := congrArg List.length h; simp at this
  have hacc : GWF N (Ks.mkCt ab N ((List.range (n + 1)).map (fun j => colAdd (P.getD j []) (fit N S (q j))))) := by
    refine ⟨rfl, hnes, ?_⟩
    intro c hc
    have e : (Ks.mkCt ab N ((List.range (n + 1)).map (fun j => colAdd (P.getD j []) (fit N S (q j))))).size = S := by
      show (((List.range (n + 1)).map (fun j => colAdd (P.getD j []) (fit N S (q j)))).getD 0 []).length = S
      have h0' : 0 < ((List.range (n + 1)).map (fun j => colAdd (P.getD j []) (fit N S (q j)))).length := by simp
      rw [List.getD_eq_getElem?_getD, List.getElem?_eq_getElem h0']
      exact (hsumwf _ (List.getElem_mem h0')).1
    rw [e]
    exact hsumwf c hc
  rw [hacc_eq] at hm
  have h1 := mapM_kernel_phase_modulo_norm K rb ab _ res hm hres hacc A B En hEn (by
    intro i hi C hC
    have hi' : i < n + 1 := by simpa using hi
    have e : ((List.range (n + 1)).map (fun j => colAdd (P.getD j []) (fit N S (q j)))).getD i []
        = ((List.range (n + 1)).map (fun j => bigAddSmallAssign false (P.getD j []) (q j))).getD i [] := by
      rw [hacc_eq]
    rw [e] at hC ⊢
    have e2 : ((List.range (n + 1)).map (fun j => bigAddSmallAssign false (P.getD j []) (q j))).getD i []
        = bigAddSmallAssign false (P.getD i []) (q i) := by
      simp [List.getD_eq_getElem?_getD, List.getElem?_map, List.getElem?_range hi']
    rw [e2] at hC ⊢
    exact hK i hi' C hC) sk
  have e1 : ((List.range (n + 1)).map (fun j => colAdd (P.getD j []) (fit N S (q j)))).length - 1 = n := by simp
  rw [e1] at h1
  have h2 := phase_norm_ι N rb ab sk res _ A B _ (errTo_length _ sk En hEn) h1
  rw [h2, hadd, ι_valP_phase_rows' N hN ab S sk _ hne hPwf]

end Core
