import Poulpy.Model.Core.Pack
import Poulpy.Lemmas.PackAlg

/-!
Phase-level identification of the executable packing / trace steps (`Ks.mergeStep`, `Ks.traceLoop`) with the
abstract steps of `Lemmas/PackAlg.lean`, under an **ideal-operation contract**: a map `ph : Ct → M` ("the phase")
for which every elementary operation used by the code acts on the phase as its noise-free, rounding-free meaning
(`glwe_rotate` = `rot`, `glwe_rsh(1)` = `half`, add/sub exact, `glwe_normalize_assign` = identity, the key-switching
automorphism of level `i` = `sig i`).  Under this contract the three branches of `mergeStep` are exactly
`Pack.stepBoth` / `Pack.stepLo` / `Pack.stepHi` and the trace loop is the composition of the `Pack.stepLo`s: what is
proved is the **data flow** of the code (which operand is rotated, subtracted, negated, in which order, with which
sign).  The contract itself holds exactly for rotate / add / sub / normalize (C02) and up to the key-switch noise
and one rounding unit for `rsh` and the automorphisms (C03 `keyswitch_value`, C08); that quantitative part is what
the oracle checks for every subset of slots.
-/

namespace Ks
open Hal Core

theorem obind_ok {α β : Type} {x : Outcome α} {f : α → Outcome β} {r : β} (h : obind x f = .ok r) :
    ∃ v, x = .ok v ∧ f v = .ok r := by
  cases x with
  | ok v => exact ⟨v, rfl, h⟩
  | err e => simp [obind] at h
  | panic c => simp [obind] at h

/-- ideal-operation contract for the phase map `ph`, for ring degree `N`, accumulator flavour `big128`, and the
keys `keyOf i` used at level `i` -/
structure IdealOps {M : Type*} [AddCommGroup M] (c : Pack.Contract M) (ph : Ct → M) (N : Nat) (big128 : Bool) (keyOf : Nat → Key) : Prop where
  rotA : ∀ k x y, Core.Ops.glweRotateAssign N k x = .ok y → ph y = c.rot k (ph x)
  rot : ∀ k r x y, Core.Ops.glweRotate N k r x = .ok y → ph y = c.rot k (ph x)
  sub : ∀ r x y z, Core.Ops.glweSub N r x y = .ok z → ph z = ph x - ph y
  addA : ∀ x y z, Core.Ops.glweAddAssign N x y = .ok z → ph z = ph x + ph y
  subA : ∀ x y z, Core.Ops.glweSubAssign N x y = .ok z → ph z = ph x - ph y
  rsh : ∀ x y, Core.Ops.glweRsh N 0 1 x = .ok y → ph y = c.half (ph x)
  norm : ∀ x y, Core.Ops.glweNormalizeAssign N x = .ok y → ph y = ph x
  auto : ∀ i x y, autoAssign big128 x (keyOf i) = .ok y → ph y = c.sig i (ph x)
  autoAdd : ∀ i x y, autoAddAssign big128 x (keyOf i) = .ok y → ph y = ph x + c.sig i (ph x)
  autoSubNeg : ∀ i r x y, autoSubNegate big128 r x (keyOf i) = .ok y → ph y = ph x - c.sig i (ph x)

variable {M : Type*} [AddCommGroup M]

/-- **both slots present**: the executed branch computes `Pack.stepBoth` on the phases -/
theorem mergeStep_both_phase (c : Pack.Contract M) (ph : Ct → M) (N : Nat) (big128 : Bool) (keyOf : Nat → Key)
    (H : IdealOps c ph N big128 keyOf) (i : Nat) (ht : c.t i = ((2 ^ (log2Nat N - i - 1) : Nat) : Int))
    (a b sh r : Ct) (h : mergeStep big128 N i (keyOf i) (some a) (some b) sh = .ok (some r)) :
    ph r = Pack.stepBoth c i (ph a) (ph b) := by
  simp only [mergeStep] at h
  obtain ⟨a1, h1, h⟩ := obind_ok h
  obtain ⟨tmp1, h2, h⟩ := obind_ok h
  obtain ⟨tmp2, h3, h⟩ := obind_ok h
  obtain ⟨a2, h4, h⟩ := obind_ok h
  obtain ⟨a3, h5, h⟩ := obind_ok h
  obtain ⟨tmp3, h6, h⟩ := obind_ok h
  obtain ⟨tmp4, h7, h⟩ := obind_ok h
  obtain ⟨a4, h8, h⟩ := obind_ok h
  obtain ⟨a5, h9, h⟩ := obind_ok h
  obtain ⟨a6, h10, h⟩ := obind_ok h
  have hr : a6 = r := by injection h with h; injection h
  subst hr
  rw [H.rotA _ _ _ h10, H.norm _ _ h9, H.subA _ _ _ h8, H.rsh _ _ h5, H.addA _ _ _ h4, H.auto i _ _ h7, H.norm _ _ h6,
    H.rsh _ _ h3, H.sub _ _ _ _ h2, H.rotA _ _ _ h1]
  unfold Pack.stepBoth
  rw [ht]

/-- **only the lower slot present**: `Pack.stepLo` -/
theorem mergeStep_lo_phase (c : Pack.Contract M) (ph : Ct → M) (N : Nat) (big128 : Bool) (keyOf : Nat → Key)
    (H : IdealOps c ph N big128 keyOf) (i : Nat) (a sh r : Ct)
    (h : mergeStep big128 N i (keyOf i) (some a) none sh = .ok (some r)) :
    ph r = Pack.stepLo c i (ph a) := by
  simp only [mergeStep] at h
  obtain ⟨a1, h1, h⟩ := obind_ok h
  obtain ⟨a2, h2, h⟩ := obind_ok h
  have hr : a2 = r := by injection h with h; injection h
  subst hr
  rw [H.autoAdd i _ _ h2, H.rsh _ _ h1]
  rfl

/-- **only the upper slot present**: `Pack.stepHi` — rotate, halve, then `x − σ(x)` (`glwe_automorphism_sub_negate`) -/
theorem mergeStep_hi_phase (c : Pack.Contract M) (ph : Ct → M) (N : Nat) (big128 : Bool) (keyOf : Nat → Key)
    (H : IdealOps c ph N big128 keyOf) (i : Nat) (ht : c.t i = ((2 ^ (log2Nat N - i - 1) : Nat) : Int))
    (b sh r : Ct) (h : mergeStep big128 N i (keyOf i) none (some b) sh = .ok (some r)) :
    ph r = Pack.stepHi c i (ph b) := by
  simp only [mergeStep] at h
  obtain ⟨t1, h1, h⟩ := obind_ok h
  obtain ⟨t2, h2, h⟩ := obind_ok h
  obtain ⟨r', h3, h⟩ := obind_ok h
  have hr : r' = r := by injection h with h; injection h
  subst hr
  rw [H.autoSubNeg i _ _ _ h3, H.rsh _ _ h2, H.rot _ _ _ _ h1]
  unfold Pack.stepHi
  rw [ht, c.half_rot]

/-- all three branches at once: the executed merge is `Pack.merge` of the phases (an absent slot counts as `0`) -/
theorem mergeStep_phase (c : Pack.Contract M) (ph : Ct → M) (N : Nat) (big128 : Bool) (keyOf : Nat → Key)
    (H : IdealOps c ph N big128 keyOf) (i : Nat) (ht : c.t i = ((2 ^ (log2Nat N - i - 1) : Nat) : Int))
    (a b : Option Ct) (sh r : Ct) (hab : a.isSome ∨ b.isSome) (h : mergeStep big128 N i (keyOf i) a b sh = .ok (some r)) :
    ph r = Pack.merge c i ((a.map ph).getD 0) ((b.map ph).getD 0) := by
  cases a with
  | some a =>
    cases b with
    | some b => simpa [Pack.stepBoth_eq_merge] using mergeStep_both_phase c ph N big128 keyOf H i ht a b sh r h
    | none => simpa [Pack.stepLo_eq_merge] using mergeStep_lo_phase c ph N big128 keyOf H i a sh r h
  | none =>
    cases b with
    | some b => simpa [Pack.stepHi_eq_merge] using mergeStep_hi_phase c ph N big128 keyOf H i ht b sh r h
    | none => simp at hab

/-! ### trace = composition of the level projectors -/

/-- the abstract trace over the levels `levels`: `x ↦ P_{i_k}(… P_{i_1}(x))` -/
def traceAbs (c : Pack.Contract M) (levels : List Nat) (x : M) : M := levels.foldl (fun y i => Pack.P c i y) x

theorem traceAbs_add (c : Pack.Contract M) (levels : List Nat) (x y : M) :
    traceAbs c levels (x + y) = traceAbs c levels x + traceAbs c levels y := by
  induction levels generalizing x y with
  | nil => rfl
  | cons i is ih => simp only [traceAbs, List.foldl_cons] at ih ⊢; rw [Pack.P_add]; exact ih _ _

theorem traceAbs_zero (c : Pack.Contract M) (levels : List Nat) : traceAbs c levels (0 : M) = 0 := by
  induction levels with
  | nil => rfl
  | cons i is ih => simp only [traceAbs, List.foldl_cons] at ih ⊢; rw [Pack.P_zero]; exact ih

/-- an element fixed by the automorphisms of all the levels passes through the (partial) trace unchanged -/
theorem traceAbs_fixed (c : Pack.Contract M) (levels : List Nat) (x : M) (h : ∀ i ∈ levels, c.sig i x = x) :
    traceAbs c levels x = x := by
  induction levels with
  | nil => rfl
  | cons i is ih =>
    simp only [traceAbs, List.foldl_cons]
    rw [Pack.P_fixed c i x (h i List.mem_cons_self)]
    exact ih (fun j hj => h j (List.mem_cons_of_mem _ hj))

/-- an element negated by the automorphism of some level `j`, and fixed by the levels before it, is killed -/
theorem traceAbs_killed (c : Pack.Contract M) (pre : List Nat) (j : Nat) (post : List Nat) (x : M)
    (hpre : ∀ i ∈ pre, c.sig i x = x) (hj : c.sig j x = -x) : traceAbs c (pre ++ j :: post) x = 0 := by
  unfold traceAbs
  rw [List.foldl_append]
  have h1 : pre.foldl (fun y i => Pack.P c i y) x = x := traceAbs_fixed c pre x hpre
  rw [h1, List.foldl_cons]
  have h2 : Pack.P c j x = 0 := by
    unfold Pack.P
    rw [← c.half_sig, hj, map_neg]
    abel
  rw [h2]
  exact traceAbs_zero c post

/-- **partial trace**: `x = u + Σ v_k` with `u` fixed by every level and each `v_k` killed at some level ⇒ the trace is `u` -/
theorem traceAbs_decomp (c : Pack.Contract M) (levels : List Nat) (u : M) (vs : List M)
    (hu : ∀ i ∈ levels, c.sig i u = u) (hv : ∀ v ∈ vs, traceAbs c levels v = 0) :
    traceAbs c levels (u + vs.sum) = u := by
  rw [traceAbs_add, traceAbs_fixed c levels u hu]
  have : traceAbs c levels vs.sum = 0 := by
    induction vs with
    | nil => exact traceAbs_zero c levels
    | cons v vt ih =>
      rw [List.sum_cons, traceAbs_add, hv v List.mem_cons_self, ih (fun w hw => hv w (List.mem_cons_of_mem _ hw))]
      simp
  rw [this]; simp

/-- the executed trace loop (`glwe_rsh(1)` + `glwe_automorphism_add_assign` per level) is, on the phases and under the
ideal-operation contract (`rsh` = `half`, fused automorphism-add of level `i` = `x + σ_i x`), the composition of the
level projectors: **trace = composition, by induction on the levels** -/
theorem traceLoop_phase (c : Pack.Contract M) (ph : Ct → M) (big128 : Bool) (keys : List Key)
    (hrsh : ∀ x y, glweRsh 1 x = .ok y → ph y = c.half (ph x))
    (hauto : ∀ i x key p y, traceGalois x.n i = .ok p → keys.find? (fun k => k.p == p) = some key →
      automorphismFused .add big128 (zeroBuf x.n (x.rank + 1) key.size) x.base2k x.size x.rank x key = .ok y →
      (y.n = x.n ∧ ph y = ph x + c.sig i (ph x)))
    (hn : ∀ x y, glweRsh 1 x = .ok y → y.n = x.n)
    (levels : List Nat) (x r : Ct) (h : traceLoop big128 keys x levels = .ok r) :
    ph r = traceAbs c levels (ph x) := by
  induction levels generalizing x with
  | nil =>
    simp only [traceLoop] at h
    injection h with h; subst h; rfl
  | cons i is ih =>
    simp only [traceLoop] at h
    obtain ⟨r1, h1, h⟩ := obind_ok h
    obtain ⟨p, h2, h⟩ := obind_ok h
    cases hk : keys.find? (fun k => k.p == p) with
    | none => simp [hk] at h
    | some key =>
      simp only [hk] at h
      obtain ⟨r2, h3, h⟩ := obind_ok h
      have hn1 := hn _ _ h1
      have h2' : traceGalois r1.n i = .ok p := by rw [hn1]; exact h2
      rw [← hn1] at h3
      have hx := hauto i r1 key p r2 h2' hk h3
      rw [ih r2 h]
      simp only [traceAbs, List.foldl_cons]
      congr 1
      rw [hx.2, hrsh _ _ h1]
      rfl

end Ks
