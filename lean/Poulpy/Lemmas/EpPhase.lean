import Poulpy.Model.Core.Ep
import Poulpy.Lemmas.EpAlgebra

/-!
The phase of a vector-matrix product is the digit-weighted sum of the phases of the matrix rows —
the algebraic core of key switching and of the external product, proved on `Hal.vmpFlat`.
-/

namespace Hal

/-- exact phase of limb `l` of a flat (limb-major, column-minor) ciphertext with `cols = rank+1`
columns: `body + Σ_i s_i ⋆ mask_i` -/
def phaseFlat (n : Nat) (sk : List Poly) (cols : Nat) (entry : Nat → Poly) (l : Nat) : Poly :=
  polyAdd (entry (l * cols)) (sumR n (fun i => negMul (sk.getD i []) (entry (l * cols + i + 1))) sk.length)

theorem phaseFlat_length (n : Nat) (sk : List Poly) (cols : Nat) (entry : Nat → Poly) (l : Nat)
    (hE : ∀ r, (entry r).length = n) : (phaseFlat n sk cols entry l).length = n := by
  unfold phaseFlat
  rw [polyAdd_length, hE, sumR_length n _ _ (fun i _ => by rw [negMul_length, hE])]
  simp

/-- the phase commutes with digit-weighted sums of rows -/
theorem phaseFlat_sumR (n : Nat) (sk : List Poly) (cols : Nat) (a : Nat → Poly) (E : Nat → Nat → Poly) (R l : Nat)
    (hE : ∀ q r, (E q r).length = n) :
    phaseFlat n sk cols (fun r => sumR n (fun q => negMul (a q) (E q r)) R) l
      = sumR n (fun q => negMul (a q) (phaseFlat n sk cols (E q) l)) R := by
  unfold phaseFlat
  have h1 : ∀ i, negMul (sk.getD i []) (sumR n (fun q => negMul (a q) (E q (l * cols + i + 1))) R)
      = sumR n (fun q => negMul (a q) (negMul (sk.getD i []) (E q (l * cols + i + 1)))) R := by
    intro i
    rw [negMul_sumR n _ _ _ (fun q _ => by rw [negMul_length, hE])]
    apply sumR_congr
    intro q _
    exact negMul_negMul_comm _ _ _
  have h2 : sumR n (fun i => negMul (sk.getD i []) (sumR n (fun q => negMul (a q) (E q (l * cols + i + 1))) R)) sk.length
      = sumR n (fun q => negMul (a q) (sumR n (fun i => negMul (sk.getD i []) (E q (l * cols + i + 1))) sk.length)) R := by
    rw [sumR_congr n _ _ _ (fun i _ => h1 i), sumR_comm]
    apply sumR_congr
    intro q _
    rw [negMul_sumR n _ _ _ (fun i _ => by rw [negMul_length, hE])]
  rw [h2, sumR_add]
  apply sumR_congr
  intro q _
  rw [negMul_add_right _ _ _ (by
    rw [hE, sumR_length n _ _ (fun i _ => by rw [negMul_length, hE])])]

/-- multiplication by the constant polynomial `1` -/
theorem negMul_one (n : Nat) (x : Poly) : negMul (1 :: zeroP n) x = x := by
  have hz : ∀ (k : Nat) (y : Poly), negMul (zeroP k) y = zeroP y.length := by
    intro k
    induction k with
    | zero => intro y; simp [zeroP, negMul, List.eq_replicate_iff]
    | succ k ih =>
      intro y
      have e : zeroP (k + 1) = 0 :: zeroP k := by simp [zeroP, List.replicate_succ]
      rw [e]
      simp only [negMul]
      rw [ih, mulX_zero]
      have : polyScale 0 y = zeroP y.length := by simp [polyScale, zeroP, List.eq_replicate_iff]
      rw [this, polyAdd_zero_zero]
  simp only [negMul]
  rw [hz, mulX_zero]
  have : polyScale 1 x = x := by simp [polyScale]
  rw [this, ep_polyAdd_zero_right _ _ rfl]

theorem negMul_zeroP_left (k : Nat) (y : Poly) : negMul (zeroP k) y = zeroP y.length := by
  induction k generalizing y with
  | zero => simp [zeroP, negMul, List.eq_replicate_iff]
  | succ k ih =>
    have e : zeroP (k + 1) = 0 :: zeroP k := by simp [zeroP, List.replicate_succ]
    rw [e]
    simp only [negMul]
    rw [ih, mulX_zero]
    have : polyScale 0 y = zeroP y.length := by simp [polyScale, zeroP, List.eq_replicate_iff]
    rw [this, polyAdd_zero_zero]

theorem polyAdd_polySub_cancel (t f : Poly) (h : t.length = f.length) : polyAdd (polySub t f) f = t := by
  unfold polyAdd polySub
  induction t generalizing f with
  | nil => cases f <;> simp_all
  | cons x xs ih =>
    cases f with
    | nil => simp at h
    | cons y ys =>
      simp only [List.zipWith_cons_cons]
      rw [ih ys (by simpa using h)]
      congr 1
      omega


end Hal
