import Poulpy.Model.Cbt
import Poulpy.Lemmas.LutBlind

namespace Cbt
open Lut

theorem nextPow2_ge (x : Nat) : x ≤ nextPow2 x ∧ 0 < nextPow2 x := by
  unfold nextPow2
  split
  · omega
  · have := Nat.lt_log2_self (n := x - 1)
    have hp : 0 < 2 ^ ((x - 1).log2 + 1) := by positivity
    omega

theorem iterRotateBy (g : Int) (P : List Vec) (hP : InRange P) : ∀ i : Nat,
    (List.range i).foldl (fun p _ => rotate g p) P = rotate ((i : Int) * g) P := by
  intro i
  induction i with
  | zero => simp only [List.range_zero, List.foldl_nil, Nat.cast_zero, Int.zero_mul]; exact (rotate_zero' P hP).symm
  | succ i ih =>
    rw [List.range_succ, List.foldl_append, ih]
    simp only [List.foldl_cons, List.foldl_nil]
    rw [rotate_rotate _ _ _ hP]
    congr 1; push_cast; ring

theorem cbtTable_get (dnum resB : Nat) (bit i : Nat) (hbit : bit < 2) (hi : i < dnum) :
    (cbtTable 1 dnum resB)[bit * nextPow2 dnum + i]? = some (((bit : Nat) : Int) * 2 ^ (resB * (dnum - 1 - i))) := by
  obtain ⟨hge, hpos⟩ := nextPow2_ge dnum
  unfold cbtTable
  simp only
  have hlt : bit * nextPow2 dnum + i < 2 ^ 1 * nextPow2 dnum := by
    have : bit * nextPow2 dnum ≤ 1 * nextPow2 dnum := Nat.mul_le_mul_right _ (by omega)
    omega
  rw [List.getElem?_map, List.getElem?_range hlt]
  have h1 : (bit * nextPow2 dnum + i) % nextPow2 dnum = i := by
    rw [Nat.mul_comm, Nat.mul_add_mod]; exact Nat.mod_eq_of_lt (by omega)
  have h2 : (bit * nextPow2 dnum + i) / nextPow2 dnum = bit := by
    rw [Nat.mul_comm, Nat.mul_add_div hpos, Nat.div_eq_of_lt (by omega)]; rfl
  simp only [Option.map_some, h1, h2, hi, if_true]

theorem cbtTable_length (dnum resB : Nat) : (cbtTable 1 dnum resB).length = 2 * nextPow2 dnum := by
  simp [cbtTable]

end Cbt
