import Poulpy.Model.Core.Mul

/-!
Column arithmetic of the tensor loops (`glwe_tensor_apply`, `_add_assign`, `_square_apply`) on
well-shaped columns, and the unfolding of the loops for ranks 1 and 2.  Core Lean only.
-/

namespace Core

/-- `rs` limbs of `n` coefficients -/
def ColShape (n rs : Nat) (c : Col) : Prop := c.length = rs ∧ ∀ l ∈ c, l.length = n

theorem vecCopy_shape (n rs : Nat) (d : Col) (h : d.length = rs) : vecCopy n rs d = d := by
  subst h; unfold vecCopy; simp

theorem vecNegate_shape (n rs : Nat) (d : Col) (h : d.length = rs) : vecNegate n rs d = d.map (znxNegateW w64) := by
  show vecNegateW w64 n rs d = _
  subst h; unfold vecNegateW; simp [List.take_of_length_le]

theorem vecSubAssign_shape (r a : Col) (h : a.length = r.length) : vecSubAssignW w64 r a = List.zipWith (znxSubW w64) r a := by
  unfold vecSubAssignW; rw [h]; simp [← h, List.take_of_length_le]

theorem vecAddAssign_shape (r a : Col) (h : a.length = r.length) : vecAddAssignW w64 r a = List.zipWith (znxAddW w64) r a := by
  unfold vecAddAssignW; rw [h]; simp [← h, List.take_of_length_le]

theorem w64_arith_square (di dj p : Int) : w64 (w64 (w64 (-di) - dj) + p) = w64 (w64 (p - di) - dj) := by
  unfold w64; omega

theorem w64_arith_acc (r di dj p : Int) : w64 (w64 (w64 (r - di) - dj) + p) = w64 (r + w64 (w64 (w64 (-di) - dj) + p)) := by
  unfold w64; omega

/-- limb level: `(−dᵢ − dⱼ) + p = (p − dᵢ) − dⱼ` -/
theorem limb_square (di dj p : Poly) (h1 : di.length = p.length) (h2 : dj.length = p.length) :
    znxAddW w64 (znxSubW w64 (znxNegateW w64 di) dj) p = znxSubW w64 (znxSubW w64 p di) dj := by
  unfold znxAddW znxSubW znxNegateW
  apply List.ext_getElem
  · simp [h1, h2]
  · intro t ht1 ht2
    simp only [List.getElem_zipWith, List.getElem_map]
    exact w64_arith_square _ _ _

/-- column level, the off-diagonal column of `apply` equals that of `square` -/
theorem col_square (n rs : Nat) (di dj p : Col) (hi : ColShape n rs di) (hj : ColShape n rs dj) (hp : ColShape n rs p) :
    vecAddAssignW w64 (vecSubAssignW w64 (vecNegate n rs di) dj) p
      = vecSubAssignW w64 (vecSubAssignW w64 p di) dj := by
  rw [vecNegate_shape n rs di hi.1, vecSubAssign_shape _ dj (by simp [hi.1, hj.1]),
    vecAddAssign_shape _ p (by simp [hi.1, hj.1, hp.1]), vecSubAssign_shape p di (by rw [hi.1, hp.1]),
    vecSubAssign_shape _ dj (by simp [hi.1, hj.1, hp.1])]
  apply List.ext_getElem
  · simp [hi.1, hj.1, hp.1]
  · intro t ht1 ht2
    simp only [List.getElem_zipWith, List.getElem_map]
    have ht : t < rs := by simpa [hi.1, hj.1, hp.1] using ht1
    apply limb_square
    · rw [hi.2 _ (List.getElem_mem (by rw [hi.1]; exact ht)), hp.2 _ (List.getElem_mem (by rw [hp.1]; exact ht))]
    · rw [hj.2 _ (List.getElem_mem (by rw [hj.1]; exact ht)), hp.2 _ (List.getElem_mem (by rw [hp.1]; exact ht))]

/-- limb level, accumulate: `((r − dᵢ) − dⱼ) + p = r + ((−dᵢ − dⱼ) + p)` -/
theorem limb_acc (r di dj p : Poly) (h0 : r.length = p.length) (h1 : di.length = p.length) (h2 : dj.length = p.length) :
    znxAddW w64 (znxSubW w64 (znxSubW w64 r di) dj) p
      = znxAddW w64 r (znxAddW w64 (znxSubW w64 (znxNegateW w64 di) dj) p) := by
  unfold znxAddW znxSubW znxNegateW
  apply List.ext_getElem
  · simp [h0, h1, h2]
  · intro t ht1 ht2
    simp only [List.getElem_zipWith, List.getElem_map]
    exact w64_arith_acc _ _ _ _

/-- column level, accumulate form of an off-diagonal column -/
theorem col_acc (n rs : Nat) (r di dj p : Col) (hr : ColShape n rs r) (hi : ColShape n rs di) (hj : ColShape n rs dj)
    (hp : ColShape n rs p) :
    vecAddAssignW w64 (vecSubAssignW w64 (vecSubAssignW w64 r di) dj) p
      = vecAddAssignW w64 r (vecAddAssignW w64 (vecSubAssignW w64 (vecNegate n rs di) dj) p) := by
  rw [vecNegate_shape n rs di hi.1, vecSubAssign_shape r di (by rw [hi.1, hr.1]),
    vecSubAssign_shape _ dj (by simp [hr.1, hi.1, hj.1]), vecAddAssign_shape _ p (by simp [hr.1, hi.1, hj.1, hp.1]),
    vecSubAssign_shape _ dj (by simp [hi.1, hj.1]), vecAddAssign_shape _ p (by simp [hi.1, hj.1, hp.1]),
    vecAddAssign_shape r _ (by simp [hr.1, hi.1, hj.1, hp.1])]
  apply List.ext_getElem
  · simp [hr.1, hi.1, hj.1, hp.1]
  · intro t ht1 ht2
    simp only [List.getElem_zipWith, List.getElem_map]
    have ht : t < rs := by simpa [hr.1, hi.1, hj.1, hp.1] using ht1
    apply limb_acc
    · rw [hr.2 _ (List.getElem_mem (by rw [hr.1]; exact ht)), hp.2 _ (List.getElem_mem (by rw [hp.1]; exact ht))]
    · rw [hi.2 _ (List.getElem_mem (by rw [hi.1]; exact ht)), hp.2 _ (List.getElem_mem (by rw [hp.1]; exact ht))]
    · rw [hj.2 _ (List.getElem_mem (by rw [hj.1]; exact ht)), hp.2 _ (List.getElem_mem (by rw [hp.1]; exact ht))]

/-- diagonal column, accumulate form -/
theorem col_acc_diag (n rs : Nat) (r d : Col) (hd : d.length = rs) :
    vecAddAssignW w64 r d = vecAddAssignW w64 r (vecCopy n rs d) := by
  rw [vecCopy_shape n rs d hd]

/-! ### shape of the normalised products -/

theorem mapM_some_length {α β} (f : α → Option β) : ∀ (l : List α) (r : List β), l.mapM f = some r → r.length = l.length
  | [], r, h => by simp at h; subst h; rfl
  | x :: xs, r, h => by
    rw [List.mapM_cons] at h
    cases hx : f x with
    | none => simp [hx] at h
    | some y =>
      cases hxs : xs.mapM f with
      | none => simp [hx, hxs] at h
      | some ys =>
        simp [hx, hxs] at h
        subst h
        simp [mapM_some_length f xs ys hxs]

theorem mapCoefs?_shape (n size : Nat) (f : Nat → Option (List Int)) (c : Col) (h : mapCoefs? n size f = some c) :
    ColShape n size c := by
  unfold mapCoefs? at h
  cases hm : (List.range n).mapM f with
  | none => simp [hm] at h
  | some cs =>
    simp [hm] at h
    subst h
    have hl := mapM_some_length f _ _ hm
    constructor
    · simp [ofCoefs]
    · intro l hlmem
      simp [ofCoefs] at hlmem
      obtain ⟨j, _, rfl⟩ := hlmem
      simp [hl]

theorem cnvNorm_shape (big128 : Bool) (n rb rs b dft hi : Nat) (lo : Int) (x y c : Col)
    (h : cnvNorm big128 n rb rs b dft hi lo x y = some c) : ColShape n rs c := by
  unfold cnvNorm bigNormalizeOff at h
  cases big128 with
  | true => exact mapCoefs?_shape n rs _ c (by simpa [bigNormalizeCol128?] using h)
  | false => exact mapCoefs?_shape n rs _ c (by simpa [bigNormalizeCol64?, normalizeCol?] using h)

/-! ### the loops, ranks 1 and 2 -/

theorem square_eq_apply_cols2 (n rs : Nat) (D : Nat → Option Col) (P : Nat → Nat → Option Col) (r0 r1 r2 : Col)
    (hD : ∀ i d, D i = some d → ColShape n rs d) (hP : ∀ i j p, P i j = some p → ColShape n rs p) :
    tensorSquareCore n 2 rs D P [r0, r1, r2] = tensorApplyCore false n 2 rs D P [r0, r1, r2] := by
  unfold tensorSquareCore tensorApplyCore
  cases h0 : D 0 with
  | none => simp [List.range_succ, h0]
  | some d0 =>
    cases h1 : D 1 with
    | none => simp [List.range_succ, h0, h1, tensorDiagStep, mulUpdCol, colIdx]
    | some d1 =>
      cases hp : P 0 1 with
      | none => simp [List.range_succ, h0, h1, hp, tensorDiagStep, mulUpdCol, colIdx]
      | some p =>
        simp [List.range_succ, h0, h1, hp, tensorDiagStep, mulUpdCol, colIdx]
        exact (col_square n rs d0 d1 p (hD 0 d0 h0) (hD 1 d1 h1) (hP 0 1 p hp)).symm

theorem square_eq_apply_cols3 (n rs : Nat) (D : Nat → Option Col) (P : Nat → Nat → Option Col) (r0 r1 r2 r3 r4 r5 : Col)
    (hD : ∀ i d, D i = some d → ColShape n rs d) (hP : ∀ i j p, P i j = some p → ColShape n rs p) :
    tensorSquareCore n 3 rs D P [r0, r1, r2, r3, r4, r5] = tensorApplyCore false n 3 rs D P [r0, r1, r2, r3, r4, r5] := by
  unfold tensorSquareCore tensorApplyCore
  cases h0 : D 0 with
  | none => simp [List.range_succ, h0]
  | some d0 =>
  cases h1 : D 1 with
  | none => simp [List.range_succ, h0, h1, tensorDiagStep, mulUpdCol, colIdx]
  | some d1 =>
  cases h2 : D 2 with
  | none => simp [List.range_succ, h0, h1, h2, tensorDiagStep, mulUpdCol, colIdx]
  | some d2 =>
  cases p01 : P 0 1 with
  | none => simp [List.range_succ, h0, h1, h2, p01, tensorDiagStep, mulUpdCol, colIdx]
  | some q01 =>
  cases p02 : P 0 2 with
  | none => simp [List.range_succ, h0, h1, h2, p01, p02, tensorDiagStep, mulUpdCol, colIdx]
  | some q02 =>
  cases p12 : P 1 2 with
  | none => simp [List.range_succ, h0, h1, h2, p01, p02, p12, tensorDiagStep, mulUpdCol, colIdx]
  | some q12 =>
    simp [List.range_succ, h0, h1, h2, p01, p02, p12, tensorDiagStep, mulUpdCol, colIdx]
    exact ⟨(col_square n rs d0 d1 q01 (hD 0 d0 h0) (hD 1 d1 h1) (hP 0 1 q01 p01)).symm,
      (col_square n rs d0 d2 q02 (hD 0 d0 h0) (hD 2 d2 h2) (hP 0 2 q02 p02)).symm,
      (col_square n rs d1 d2 q12 (hD 1 d1 h1) (hD 2 d2 h2) (hP 1 2 q12 p12)).symm⟩

/-- accumulate = previous + product, rank 1: `zs` is any prior content of the non-accumulating call -/
theorem acc_eq_add_cols2 (n rs : Nat) (D : Nat → Option Col) (P : Nat → Nat → Option Col) (r0 r1 r2 z0 z1 z2 : Col)
    (hr0 : ColShape n rs r0) (hr1 : ColShape n rs r1) (hr2 : ColShape n rs r2)
    (hD : ∀ i d, D i = some d → ColShape n rs d) (hP : ∀ i j p, P i j = some p → ColShape n rs p) :
    tensorApplyCore true n 2 rs D P [r0, r1, r2]
      = (tensorApplyCore false n 2 rs D P [z0, z1, z2]).map (fun pr => List.zipWith (vecAddAssignW w64) [r0, r1, r2] pr) := by
  unfold tensorApplyCore
  cases h0 : D 0 with
  | none => simp [List.range_succ, h0]
  | some d0 =>
  cases h1 : D 1 with
  | none => simp [List.range_succ, h0, h1, tensorDiagStep, mulUpdCol, colIdx]
  | some d1 =>
  cases hp : P 0 1 with
  | none => simp [List.range_succ, h0, h1, hp, tensorDiagStep, mulUpdCol, colIdx]
  | some p =>
    simp [List.range_succ, h0, h1, hp, tensorDiagStep, mulUpdCol, colIdx]
    exact ⟨col_acc_diag n rs r0 d0 (hD 0 d0 h0).1,
      col_acc n rs r1 d0 d1 p hr1 (hD 0 d0 h0) (hD 1 d1 h1) (hP 0 1 p hp),
      col_acc_diag n rs r2 d1 (hD 1 d1 h1).1⟩

/-- accumulate = previous + product, rank 2 -/
theorem acc_eq_add_cols3 (n rs : Nat) (D : Nat → Option Col) (P : Nat → Nat → Option Col)
    (r0 r1 r2 r3 r4 r5 z0 z1 z2 z3 z4 z5 : Col)
    (hr1 : ColShape n rs r1) (hr2 : ColShape n rs r2) (hr4 : ColShape n rs r4)
    (hD : ∀ i d, D i = some d → ColShape n rs d) (hP : ∀ i j p, P i j = some p → ColShape n rs p) :
    tensorApplyCore true n 3 rs D P [r0, r1, r2, r3, r4, r5]
      = (tensorApplyCore false n 3 rs D P [z0, z1, z2, z3, z4, z5]).map
          (fun pr => List.zipWith (vecAddAssignW w64) [r0, r1, r2, r3, r4, r5] pr) := by
  unfold tensorApplyCore
  cases h0 : D 0 with
  | none => simp [List.range_succ, h0]
  | some d0 =>
  cases h1 : D 1 with
  | none => simp [List.range_succ, h0, h1, tensorDiagStep, mulUpdCol, colIdx]
  | some d1 =>
  cases h2 : D 2 with
  | none => simp [List.range_succ, h0, h1, h2, tensorDiagStep, mulUpdCol, colIdx]
  | some d2 =>
  cases p01 : P 0 1 with
  | none => simp [List.range_succ, h0, h1, h2, p01, tensorDiagStep, mulUpdCol, colIdx]
  | some q01 =>
  cases p02 : P 0 2 with
  | none => simp [List.range_succ, h0, h1, h2, p01, p02, tensorDiagStep, mulUpdCol, colIdx]
  | some q02 =>
  cases p12 : P 1 2 with
  | none => simp [List.range_succ, h0, h1, h2, p01, p02, p12, tensorDiagStep, mulUpdCol, colIdx]
  | some q12 =>
    simp [List.range_succ, h0, h1, h2, p01, p02, p12, tensorDiagStep, mulUpdCol, colIdx]
    exact ⟨col_acc_diag n rs r0 d0 (hD 0 d0 h0).1,
      col_acc n rs r1 d0 d1 q01 hr1 (hD 0 d0 h0) (hD 1 d1 h1) (hP 0 1 q01 p01),
      col_acc n rs r2 d0 d2 q02 hr2 (hD 0 d0 h0) (hD 2 d2 h2) (hP 0 2 q02 p02),
      col_acc_diag n rs r3 d1 (hD 1 d1 h1).1,
      col_acc n rs r4 d1 d2 q12 hr4 (hD 1 d1 h1) (hD 2 d2 h2) (hP 1 2 q12 p12),
      col_acc_diag n rs r5 d2 (hD 2 d2 h2).1⟩

end Core
