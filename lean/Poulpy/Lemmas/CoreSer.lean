/-
Helper lemmas for C19: write-then-read round trips of the compressed wrappers in the byte-level
model of C18 (`Model/Bytes.lean`): `GLWECompressed` and `GGLWECompressed` (= `GGSWCompressed`).
-/
import Poulpy.Props.C18
import Mathlib.Tactic.Ring
import Mathlib.Tactic.Set

namespace CoreSer
open Ser

theorem setF_bind {β : Type} (i v : Nat) (f : Unit → Rd St β) (s : St) (bs : Bytes) :
    (setF i v >>= f) s bs = if i < s.fields.length then f () { s with fields := s.fields.set i v } bs else .err "shape" s := by
  by_cases h : i < s.fields.length <;> simp [bind_apply, setF, h]

theorem readSeedAt_bind {β : Type} (i : Nat) (f : Unit → Rd St β) (s : St) (bs : Bytes) (g : SeedGroup) (hg : s.seeds[i]? = some g)
    (hl : 32 ≤ bs.length) :
    (readSeedAt i >>= f) s bs = f () { s with seeds := s.seeds.set i ⟨1, bs.take 32⟩ } (bs.drop 32) := by
  have : ¬ bs.length < 32 := by omega
  simp [bind_apply, readSeedAt, hg, this]

/-- **`GLWECompressed`: write then read** — fields `base2k, rank`, the seed and the active bytes of the
body come back unchanged, the rest of the stream is left for the next reader -/
theorem glwe_compressed_round_trip (b r : Nat) (sd : Bytes) (xv rv : VecZnx) (tail : Bytes) (p : Profile) (mem : Nat)
    (hb : b < 2 ^ 32) (hr : r < 2 ^ 32) (hsd : sd.length = 32) (f0 f1 : Nat) (g0 : SeedGroup)
    (hw : Ser.VecWF xv) (hi : xv.Inv) (hcap : xv.n * xv.cols * xv.maxSize * 8 ≤ rv.data.length) :
    ∃ bs, wGLWECompressed p ⟨[b, r], [⟨1, sd⟩], [.vec xv], mem⟩ origin = .ok bs ∧
      rGLWECompressed origin ⟨[f0, f1], [g0], [.vec rv], mem⟩ (bs ++ tail) =
        .ok () ⟨[b, r], [⟨1, sd⟩], [.vec ⟨xv.n, xv.cols, xv.size, xv.maxSize,
          xv.data.take (xv.n * xv.cols * xv.size * 8) ++ rv.data.drop (xv.n * xv.cols * xv.size * 8)⟩], mem⟩ tail := by
  obtain ⟨vb, hvw, hvr⟩ := C18.vec_read_write xv rv p tail hw hi hcap
  refine ⟨leBytes 4 b ++ leBytes 4 r ++ sd ++ vb, ?_, ?_⟩
  · simp [wGLWECompressed, origin, wF, wSeed, wLeaf, hvw, bind, Outcome.bind, SeedGroup.bytes, hsd]
    rfl
  · simp only [rGLWECompressed, origin, List.append_assoc]
    rw [readU32_bind, if_neg (by simp [leBytes_length]), take4_le _ _ hb, drop4_le, setF_bind, if_pos (by simp)]
    rw [readU32_bind, if_neg (by simp [leBytes_length]), take4_le _ _ hr, drop4_le, setF_bind, if_pos (by simp)]
    rw [readSeedAt_bind 0 _ _ _ g0 (by simp) (by simp [hsd])]
    simp only [List.take_left' hsd, List.drop_left' hsd]
    simp [readVecAt, onLeaf, liftVec, hvr]

def MatWF (m : MatZnx) : Prop :=
  m.n < 2 ^ 64 ∧ m.size < 2 ^ 64 ∧ m.rows < 2 ^ 64 ∧ m.colsIn < 2 ^ 64 ∧ m.colsOut < 2 ^ 64 ∧
  m.rows * m.colsIn < 2 ^ 64 ∧ m.rows * m.colsIn * m.n < 2 ^ 64 ∧ m.rows * m.colsIn * m.n * m.colsOut < 2 ^ 64 ∧
  m.rows * m.colsIn * m.n * m.colsOut * m.size < 2 ^ 64 ∧ m.rows * m.colsIn * m.n * m.colsOut * m.size * 8 < 2 ^ 64 ∧
  m.n * m.colsOut < 2 ^ 64 ∧ m.n * m.colsOut * m.size < 2 ^ 64 ∧ m.n * m.colsOut * m.size * 8 < 2 ^ 64

theorem mat_read_write (x r : MatZnx) (p : Profile) (tail : Bytes) (hw : MatWF x)
    (hx : x.rows * x.colsIn * x.n * x.colsOut * x.size * 8 ≤ x.data.length)
    (hcap : x.rows * x.colsIn * x.n * x.colsOut * x.size * 8 ≤ r.data.length) :
    ∃ bs, x.writeTo p = .ok bs ∧
      MatZnx.readFrom r (bs ++ tail) =
        .ok () ⟨x.n, x.size, x.rows, x.colsIn, x.colsOut,
          x.data.take (x.rows * x.colsIn * x.n * x.colsOut * x.size * 8) ++ r.data.drop (x.rows * x.colsIn * x.n * x.colsOut * x.size * 8)⟩ tail := by
  obtain ⟨h1, h2, h3, h4, h5, h6, h7, h8, h9, h10, h11, h12, h13⟩ := hw
  set L := x.rows * x.colsIn * x.n * x.colsOut * x.size * 8 with hL
  have hLe : x.rows * x.colsIn * (x.n * x.colsOut * x.size * 8) = L := by rw [hL]; ring
  refine ⟨leBytes 8 x.n ++ leBytes 8 x.size ++ leBytes 8 x.rows ++ leBytes 8 x.colsIn ++ leBytes 8 x.colsOut ++ leBytes 8 L ++ x.data.take L, ?_, ?_⟩
  · unfold MatZnx.writeTo MatZnx.bytesOf
    simp only [bind, Outcome.bind, mulU_of_lt p h11, mulU_of_lt p h12, mulU_of_lt p h13, mulU_of_lt p h6,
      mulU_of_lt p (show x.rows * x.colsIn * (x.n * x.colsOut * x.size * 8) < 2 ^ 64 by rw [hLe]; exact h10), hLe]
    have : ¬ x.data.length < L := by omega
    simp only [this, ↓reduceIte]
  · unfold MatZnx.readFrom
    simp only [List.append_assoc]
    rw [readU64_le _ h1, readU64_le _ h2, readU64_le _ h3, readU64_le _ h4, readU64_le _ h5, readU64_le _ h10]
    have hcm : cmMat x.rows x.colsIn x.n x.colsOut x.size = some L := by
      unfold cmMat
      simp [checkedMul_of_lt h6, checkedMul_of_lt h7, checkedMul_of_lt h8, checkedMul_of_lt h9, checkedMul_of_lt h10, hL]
    simp only [hcm, ne_eq, not_true_eq_false, ↓reduceIte, getS_bind]
    have hb : ¬ r.data.length < L := by omega
    simp only [hb, ↓reduceIte]
    rw [readExactInto_bind]
    have hl : (List.take L x.data).length = L := by simp; omega
    have hg : ¬ (L > r.data.length) := by omega
    have hlt : ¬ ((List.take L x.data ++ tail).length < L) := by simp; omega
    simp only [hg, hlt, ↓reduceIte, List.take_left' hl, List.drop_left' hl, modifyS_apply]

/-- the seed loop reads `k` seeds of 32 bytes in order and appends them to what was read before -/
theorem readSeedsLoop_eval (i total : Nat) : ∀ (k : Nat) (done sb rest : Bytes) (s : St), sb.length = 32 * k → i < s.seeds.length →
    readSeedsLoop i total k done s (sb ++ rest) =
      .ok () (if k = 0 then s else { s with seeds := s.seeds.set i ⟨total, done ++ sb⟩ }) rest := by
  intro k
  induction k with
  | zero =>
    intro done sb rest s h _
    have : sb = [] := List.eq_nil_of_length_eq_zero (by simpa using h)
    subst this
    simp [readSeedsLoop, Rd.pure]
  | succ k ih =>
    intro done sb rest s h hi
    unfold readSeedsLoop
    have hl : ¬ (sb ++ rest).length < 32 := by simp; omega
    simp only [hl, ↓reduceIte]
    have h32 : (sb.take 32).length = 32 := by simp; omega
    have e1 : (sb ++ rest).take 32 = sb.take 32 := by rw [List.take_append_of_le_length (by omega)]
    have e2 : (sb ++ rest).drop 32 = sb.drop 32 ++ rest := by rw [List.drop_append_of_le_length (by omega)]
    rw [e1, e2, ih (done ++ sb.take 32) (sb.drop 32) rest _ (by simp; omega) (by simpa using hi)]
    congr 1
    by_cases hk : k = 0
    · subst hk
      have : sb.drop 32 = [] := List.eq_nil_of_length_eq_zero (by simp; omega)
      have h2 : sb.take 32 = sb := List.take_of_length_le (by omega)
      simp [h2]
    · simp only [hk, ↓reduceIte, Nat.add_eq_zero_iff, one_ne_zero, and_false, List.set_set, List.append_assoc, List.take_append_drop]

/-- **`GGLWECompressed` / `GGSWCompressed`: write then read** — the four header fields, the seed vector
(count and every seed, in order) and the active bytes of the matrix come back unchanged -/
theorem gglwe_compressed_round_trip (k b ds ro cnt : Nat) (sb : Bytes) (xm rm : MatZnx) (tail : Bytes) (p : Profile) (mem : Nat)
    (hk : k < 2 ^ 32) (hb : b < 2 ^ 32) (hds : ds < 2 ^ 32) (hro : ro < 2 ^ 32) (hcnt : cnt < 2 ^ 32) (hcnt0 : 0 < cnt)
    (hsb : sb.length = 32 * cnt) (hmem : cnt * 32 ≤ mem)
    (f0 f1 f2 f3 : Nat) (g0 : SeedGroup) (hw : MatWF xm)
    (hx : xm.rows * xm.colsIn * xm.n * xm.colsOut * xm.size * 8 ≤ xm.data.length)
    (hcap : xm.rows * xm.colsIn * xm.n * xm.colsOut * xm.size * 8 ≤ rm.data.length) :
    ∃ bs, wGGLWECompressed p ⟨[k, b, ds, ro], [⟨cnt, sb⟩], [.mat xm], mem⟩ origin = .ok bs ∧
      rGGLWECompressed origin ⟨[f0, f1, f2, f3], [g0], [.mat rm], mem⟩ (bs ++ tail) =
        .ok () ⟨[k, b, ds, ro], [⟨cnt, sb⟩], [.mat ⟨xm.n, xm.size, xm.rows, xm.colsIn, xm.colsOut,
          xm.data.take (xm.rows * xm.colsIn * xm.n * xm.colsOut * xm.size * 8)
            ++ rm.data.drop (xm.rows * xm.colsIn * xm.n * xm.colsOut * xm.size * 8)⟩], mem⟩ tail := by
  obtain ⟨mb, hmw, hmr⟩ := mat_read_write xm rm p tail hw hx hcap
  refine ⟨leBytes 4 k ++ leBytes 4 b ++ leBytes 4 ds ++ leBytes 4 ro ++ (leBytes 4 cnt ++ sb) ++ mb, ?_, ?_⟩
  · simp [wGGLWECompressed, origin, wF, wSeedVec, wLeaf, hmw, bind, Outcome.bind, SeedGroup.bytes, hsb]
    rfl
  · simp only [rGGLWECompressed, origin, List.append_assoc]
    rw [readU32_bind, if_neg (by simp [leBytes_length]), take4_le _ _ hk, drop4_le, setF_bind, if_pos (by simp)]
    rw [readU32_bind, if_neg (by simp [leBytes_length]), take4_le _ _ hb, drop4_le, setF_bind, if_pos (by simp)]
    rw [readU32_bind, if_neg (by simp [leBytes_length]), take4_le _ _ hds, drop4_le, setF_bind, if_pos (by simp)]
    rw [readU32_bind, if_neg (by simp [leBytes_length]), take4_le _ _ hro, drop4_le, setF_bind, if_pos (by simp)]
    rw [bind_apply]
    have hsv : readSeedVecAt 0 ⟨[k, b, ds, ro], [g0], [.mat rm], mem⟩ (leBytes 4 cnt ++ (sb ++ (mb ++ tail))) =
        .ok () ⟨[k, b, ds, ro], [⟨cnt, sb⟩], [.mat rm], mem⟩ (mb ++ tail) := by
      unfold readSeedVecAt
      rw [readU32_bind, if_neg (by simp [leBytes_length]), take4_le _ _ hcnt, drop4_le, getS_bind]
      have h1 : ¬ (0 ≥ ([g0] : List SeedGroup).length) := by simp
      have h2 : ¬ (cnt * 32 > mem) := by omega
      simp only [h1, h2, ↓reduceIte]
      rw [bind_apply, modifyS_apply]
      simp only
      rw [readSeedsLoop_eval 0 cnt cnt [] sb (mb ++ tail) _ hsb (by simp)]
      have : cnt ≠ 0 := by omega
      simp [this]
    simp only [List.set_cons_zero, List.set_cons_succ] at hsv ⊢
    rw [hsv]
    simp [readMatAt, onLeaf, liftMat, hmr]

end CoreSer
