import Poulpy.Lemmas.Ntt120Pipe
import Poulpy.Lemmas.Ntt120Bbb
import Poulpy.Lemmas.HalSpec

/-!
NTT120: the statements of `Lemmas/Ntt120{Crt,Acc,Bbb,Pipe}.lean` lifted from the per-prime kernels
to the four-residue functions the driver executes (`bFromZnx64`, `bToZnx128`, `bbcOut`, …).
-/

namespace Ntt120

theorem lt4_cases (k : Nat) (hk : k < 4) : k = 0 ∨ k = 1 ∨ k = 2 ∨ k = 3 := by omega

theorem PrimeSet.Good.q_gt (P : PrimeSet) (g : P.Good) (k : Nat) (hk : k < 4) : 1 < P.qs.getD k 1 := by
  rcases lt4_cases k hk with rfl | rfl | rfl | rfl
  · exact g.q0_gt
  · exact g.q1_gt
  · exact g.q2_gt
  · exact g.q3_gt

theorem PrimeSet.Good.q_lt (P : PrimeSet) (g : P.Good) (k : Nat) (hk : k < 4) : P.qs.getD k 1 < 2 ^ 32 := by
  rcases lt4_cases k hk with rfl | rfl | rfl | rfl
  · exact g.q0_lt
  · exact g.q1_lt
  · exact g.q2_lt
  · exact g.q3_lt

theorem qs_map_getD {β} (P : PrimeSet) (f : Nat → β) (k : Nat) (hk : k < 4) (d : β) :
    (P.qs.map f).getD k d = f (P.qs.getD k 1) := by
  rcases lt4_cases k hk with rfl | rfl | rfl | rfl <;> rfl

/-- every prime of the set is below `2^31` (true of Primes29/30/31) -/
def PrimeSet.Below31 (P : PrimeSet) : Prop := P.q0 < 2 ^ 31 ∧ P.q1 < 2 ^ 31 ∧ P.q2 < 2 ^ 31 ∧ P.q3 < 2 ^ 31

theorem PrimeSet.Below31.q_lt (P : PrimeSet) (b : P.Below31) (k : Nat) (hk : k < 4) : P.qs.getD k 1 < 2 ^ 31 := by
  rcases lt4_cases k hk with rfl | rfl | rfl | rfl
  · exact b.1
  · exact b.2.1
  · exact b.2.2.1
  · exact b.2.2.2

/-- (a) all four residues of `b_from_znx64_ref` -/
theorem bFromZnx64_residues (P : PrimeSet) (g : P.Good) (x : Int) (h0 : -(2 ^ 63) ≤ x) (h1 : x < 2 ^ 63) (k : Nat) (hk : k < 4) :
    ((bFromZnx64 P x).getD k 0 : Int) ≡ x [ZMOD (P.qs.getD k 1 : Nat)] ∧ (bFromZnx64 P x).getD k 0 < 2 ^ 63 + 2 ^ 32 := by
  unfold bFromZnx64
  rw [qs_map_getD P _ k hk 0]
  have hq := g.q_gt P k hk
  have hq2 := g.q_lt P k hk
  refine ⟨bFromU64K_congr _ (by omega) (by omega) x h0 h1, ?_⟩
  have := bFromU64K_range (P.qs.getD k 1) (by omega) (by omega) x h0 h1
  omega

theorem asU64_w64_natCast (n : Nat) (h : n < 2 ^ 64) : asU64 (w64 (Int.ofNat n)) = n := by
  unfold asU64 w64
  simp only [Int.ofNat_eq_natCast]
  omega

/-- the masked variant is `b_from_znx64` of the masked coefficient (`Hal.maskCoeff`, the same
function the convolution-prepare model uses) -/
theorem bFromZnx64Masked_eq (P : PrimeSet) (x mask : Int) :
    bFromZnx64Masked P x mask = bFromZnx64 P (Hal.maskCoeff mask x) := by
  unfold bFromZnx64Masked bFromZnx64 Hal.maskCoeff
  have hl : Nat.land (x % 2 ^ 64).toNat (mask % 2 ^ 64).toNat < 2 ^ 64 := by
    apply Nat.and_lt_two_pow
    have := Int.emod_lt_of_pos x (by decide : (0 : Int) < 2 ^ 64)
    have := Int.emod_nonneg x (by decide : (2 ^ 64 : Int) ≠ 0)
    omega
  simp only []
  rw [asU64_w64_natCast _ hl]
  rfl

/-- (b) `b_to_znx128_ref` on a four-residue list -/
theorem bToZnx128_exact (P : PrimeSet) (g : P.Good) (x : Int) (x0 x1 x2 x3 : Nat)
    (hlo : -(((bigQ P : Int) - 1) / 2) ≤ x) (hhi : x ≤ ((bigQ P : Int) - 1) / 2)
    (h : ∀ k, k < 4 → (([x0, x1, x2, x3] : List Nat).getD k 0 : Int) ≡ x [ZMOD (P.qs.getD k 1 : Nat)]) :
    bToZnx128Core P x0 x1 x2 x3 = x :=
  bToZnx128Core_exact P g x x0 x1 x2 x3 hlo hhi (h 0 (by omega)) (h 1 (by omega)) (h 2 (by omega)) (h 3 (by omega))

/-- CRT round trip on every `i64`: `b_to_znx128(b_from_znx64(x)) = x` -/
theorem crt_roundtrip (P : PrimeSet) (g : P.Good) (hQ : 2 ^ 64 < bigQ P) (x : Int) (h0 : -(2 ^ 63) ≤ x) (h1 : x < 2 ^ 63) :
    bToZnx128Core P ((bFromZnx64 P x).getD 0 0) ((bFromZnx64 P x).getD 1 0) ((bFromZnx64 P x).getD 2 0) ((bFromZnx64 P x).getD 3 0) = x := by
  have hQ' : (2 ^ 64 : Int) < (bigQ P : Int) := by exact_mod_cast hQ
  apply bToZnx128Core_exact P g x _ _ _ _ (by omega) (by omega)
  · exact (bFromZnx64_residues P g x h0 h1 0 (by omega)).1
  · exact (bFromZnx64_residues P g x h0 h1 1 (by omega)).1
  · exact (bFromZnx64_residues P g x h0 h1 2 (by omega)).1
  · exact (bFromZnx64_residues P g x h0 h1 3 (by omega)).1

/-! ### (c) bbc on flat operands -/

theorem bbcTerms_u32 (ell k sx ox sy oy : Nat) (x y : Array Nat) (hx : ∀ i, x.getD i 0 < 2 ^ 32) (hy : ∀ i, y.getD i 0 < 2 ^ 32) :
    ∀ t ∈ bbcTerms ell k sx ox sy oy x y, Term.u32 t := by
  intro t ht
  unfold bbcTerms at ht
  simp only [List.mem_map, List.mem_range] at ht
  obtain ⟨i, _, rfl⟩ := ht
  exact ⟨hx _, hx _, hy _, hy _⟩

theorem bbcTerms_length (ell k sx ox sy oy : Nat) (x y : Array Nat) : (bbcTerms ell k sx ox sy oy x y).length = ell := by
  simp [bbcTerms]

theorem bbcH_range (P : PrimeSet) : 16 ≤ bbcH P ∧ bbcH P < 32 := by
  unfold bbcH; split <;> omega

/-- **lazy accumulation of the bbc family never overflows**: every output residue of
`vec_mat1col_product_bbc_ref` / `…_x2_bbc_ref` / `vec_mat2cols_product_x2_bbc_ref` (all are
`bbcOut` at different strides) with the crate's `BbcMeta` equals the un-wrapped expression
`collapse`, is below `2^63 + 2^47`, and is congruent to the exact dot product modulo its prime —
for fewer than 10 000 rows of arbitrary `u32` operands -/
theorem bbcOut_spec (P : PrimeSet) (g : P.Good) (b : P.Below31) (ell sx ox sy oy : Nat) (x y : Array Nat)
    (hell : ell < 10000) (hx : ∀ i, x.getD i 0 < 2 ^ 32) (hy : ∀ i, y.getD i 0 < 2 ^ 32) (k : Nat) (hk : k < 4) :
    (bbcOut (bbcMeta P) ell sx ox sy oy x y).getD k 0 =
      collapse (bbcH P) (pow2Mod 32 (P.qs.getD k 1)) (pow2Mod (32 + bbcH P) (P.qs.getD k 1))
        (sumLo (bbcTerms ell k sx ox sy oy x y)) (sumHi (bbcTerms ell k sx ox sy oy x y)) ∧
    (bbcOut (bbcMeta P) ell sx ox sy oy x y).getD k 0 < 2 ^ 63 + 2 ^ 47 ∧
    (bbcOut (bbcMeta P) ell sx ox sy oy x y).getD k 0 ≡ dot (bbcTerms ell k sx ox sy oy x y) [MOD P.qs.getD k 1] := by
  have hq := g.q_gt P k hk
  have hq31 := b.q_lt P k hk
  obtain ⟨hh, hh2⟩ := bbcH_range P
  have e : (bbcOut (bbcMeta P) ell sx ox sy oy x y).getD k 0 =
      bbcK (bbcH P) (pow2Mod 32 (P.qs.getD k 1)) (pow2Mod (32 + bbcH P) (P.qs.getD k 1)) (bbcTerms ell k sx ox sy oy x y) := by
    unfold bbcOut bbcMeta bbcMetaOf
    simp only []
    rw [Hal.mapRange_getD 4 k _ 0 hk, qs_map_getD P _ k hk 0, qs_map_getD P _ k hk 0]
  rw [e]
  have hp1 := pow2Mod_lt 32 _ hq
  have hp2 := pow2Mod_lt (32 + bbcH P) _ hq
  exact bbcK_spec _ _ _ _ _ (bbcTerms_u32 ell k sx ox sy oy x y hx hy) (by rw [bbcTerms_length]; exact hell) hh hh2
    (by omega) (by omega) (pow2Mod_spec 32 _ hq (by omega)) (pow2Mod_spec _ _ hq (by omega))

/-! ### (c) bbb with the crate's constants (Primes29, Primes30) -/

/-- what `bbbK_spec` needs of the constants of prime `k` -/
def BbbCstOK (P : PrimeSet) (k : Nat) : Prop :=
  let m := bbbMeta P
  let q := P.qs.getD k 1
  16 ≤ m.h ∧ m.h < 32 ∧ m.s1h = wu64 (2 ^ m.h) ∧
  m.s2l.getD k 0 < 2 ^ 30 ∧ m.s2h.getD k 0 < 2 ^ 30 ∧ m.s3l.getD k 0 < 2 ^ 30 ∧ m.s3h.getD k 0 < 2 ^ 30 ∧
  m.s4l.getD k 0 < 2 ^ 30 ∧ m.s4h.getD k 0 < 2 ^ 30 ∧
  m.s2l.getD k 0 ≡ 2 ^ 32 [MOD q] ∧ m.s2h.getD k 0 ≡ 2 ^ (32 + m.h) [MOD q] ∧
  m.s3l.getD k 0 ≡ 2 ^ 64 [MOD q] ∧ m.s3h.getD k 0 ≡ 2 ^ (64 + m.h) [MOD q] ∧
  m.s4l.getD k 0 ≡ 2 ^ 96 [MOD q] ∧ m.s4h.getD k 0 ≡ 2 ^ (96 + m.h) [MOD q]

instance (P : PrimeSet) (k : Nat) : Decidable (BbbCstOK P k) := by unfold BbbCstOK; exact inferInstance

theorem bbbCst30 : ∀ k, k < 4 → BbbCstOK primes30 k := by decide +kernel
theorem bbbCst29 : ∀ k, k < 4 → BbbCstOK primes29 k := by decide +kernel

/-- one output residue of `vec_mat1col_product_bbb_ref` -/
def bbbOutK (m : BbbMeta) (ell k : Nat) (x y : Array Nat) : Nat :=
  bbbK m.h m.s1h (m.s2l.getD k 0) (m.s2h.getD k 0) (m.s3l.getD k 0) (m.s3h.getD k 0) (m.s4l.getD k 0) (m.s4h.getD k 0)
    ((List.range ell).map (fun i => (x.getD (4 * i + k) 0, y.getD (4 * i + k) 0)))

theorem bbbOutK_spec (P : PrimeSet) (k : Nat) (c : BbbCstOK P k) (ell : Nat) (x y : Array Nat) (hell : ell < 10000)
    (hx : ∀ i, x.getD i 0 < 2 ^ 64) (hy : ∀ i, y.getD i 0 < 2 ^ 64) :
    bbbOutK (bbbMeta P) ell k x y ≡ dot2 ((List.range ell).map (fun i => (x.getD (4 * i + k) 0, y.getD (4 * i + k) 0))) [MOD P.qs.getD k 1] ∧
    bbbOutK (bbbMeta P) ell k x y =
      collapse4 (bbbMeta P).h ((bbbMeta P).s2l.getD k 0) ((bbbMeta P).s2h.getD k 0) ((bbbMeta P).s3l.getD k 0) ((bbbMeta P).s3h.getD k 0)
        ((bbbMeta P).s4l.getD k 0) ((bbbMeta P).s4h.getD k 0)
        (sum1 ((List.range ell).map (fun i => (x.getD (4 * i + k) 0, y.getD (4 * i + k) 0))))
        (sum2 ((List.range ell).map (fun i => (x.getD (4 * i + k) 0, y.getD (4 * i + k) 0))))
        (sum3 ((List.range ell).map (fun i => (x.getD (4 * i + k) 0, y.getD (4 * i + k) 0))))
        (sum4 ((List.range ell).map (fun i => (x.getD (4 * i + k) 0, y.getD (4 * i + k) 0)))) := by
  obtain ⟨hh, hh2, e1, c2l, c2h, c3l, c3h, c4l, c4h, e2l, e2h, e3l, e3h, e4l, e4h⟩ := c
  unfold bbbOutK
  rw [e1]
  have hps : ∀ p ∈ (List.range ell).map (fun i => ((x.getD (4 * i + k) 0, y.getD (4 * i + k) 0) : Pair)), Pair.u64 p := by
    intro p hp
    simp only [List.mem_map, List.mem_range] at hp
    obtain ⟨i, _, rfl⟩ := hp
    exact ⟨hx _, hy _⟩
  obtain ⟨a, _, c⟩ := bbbK_spec (P.qs.getD k 1) (bbbMeta P).h _ _ _ _ _ _ _ hps (by simp; exact hell) hh hh2 c2l c2h c3l c3h c4l c4h e2l e2h e3l e3h e4l e4h
  exact ⟨c, a⟩

/-! ### (d) the `n = 1` pipeline, and the identity transform satisfies the hypothesis -/

/-- `Z[X]/(X+1) = Z`: at ring degree 1 the identity is a ring isomorphism in the sense of
`NttIsRingIso` — the hypothesis of the pipeline theorem is satisfiable, and `ntt_ref` / `intt_ref`
return immediately for `n = 1` -/
theorem idIso (q : Nat) : NttIsRingIso 1 q id id := by
  refine ⟨fun _ _ h => h, fun _ _ h => h, fun u hu => ⟨hu, hu, fun _ _ => Nat.ModEq.refl _⟩, ?_⟩
  intro a b u v w hu hv hw
  refine ⟨hw.1, by simp [hu.1, hv.1], ?_⟩
  intro i hi
  have i0 : i = 0 := by omega
  subst i0
  simp only [id]
  rw [getD_zipWith_lt _ _ _ 0 0 0 0 (by rw [hu.1]; omega) (by rw [hv.1]; omega)]
  have ha : ∃ a0, a = [a0] := by
    have := hu.2.1
    match a, this with
    | [a0], _ => exact ⟨a0, rfl⟩
  have hb : ∃ b0, b = [b0] := by
    have := hv.2.1
    match b, this with
    | [b0], _ => exact ⟨b0, rfl⟩
  obtain ⟨a0, rfl⟩ := ha
  obtain ⟨b0, rfl⟩ := hb
  have h1 := hu.2.2 0 (by omega)
  have h2 := hv.2.2 0 (by omega)
  have h3 := hw.2.2 0 (by omega)
  have e : (Hal.negMul [a0] [b0]).getD 0 0 = a0 * b0 := by
    simp [Hal.negMul, Hal.polyAdd, Hal.polyScale, Hal.mulX]
  rw [e] at h3
  simp only [List.getD_cons_zero] at h1 h2
  have : ((u.getD 0 0 * v.getD 0 0 : Nat) : Int) ≡ a0 * b0 [ZMOD q] := by push_cast; exact h1.mul h2
  exact (Int.natCast_modEq_iff).mp (h3.trans this.symm)

end Ntt120
