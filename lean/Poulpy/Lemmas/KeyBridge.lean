/-
Key generation as encryption, part 10: the generated keys as the containers of the consumers (`Ks.Key`, `Core.EpGGSW`, `Core.GGLWE`,
`Core.ToGGSWKey`) and `KeyWellFormed` in the literal form of their key hypotheses.
-/
import Poulpy.Lemmas.KeyTensor
import Poulpy.Model.Core.Ep
import Poulpy.Model.Core.Mul
import Poulpy.Model.Core.Expand

namespace CoreEnc
open NormL Ks

/-- the rows of a generated key in storage order (what `GGLWEPrepared` / the cell lists of the consumers hold) -/
def keyRows (rows colsIn : Nat) (cells : List (Nat × List Col)) : List (List Col) := (List.range (rows * colsIn)).map (Core.cellCols cells)

/-- a generated GGLWE-type key as `Ks.Key` (C03) -/
def ksKeyOf (b dsize : Nat) (p : Int) (n dnum colsIn colsOut size : Nat) (cells : List (Nat × List Col)) : Ks.Key :=
  { base2k := b, dsize := dsize, p := p, mat := Core.keyMat n dnum colsIn colsOut size cells }

/-- a generated GGSW as `Core.EpGGSW` (C04, C14, C15) -/
def ggswOf (b n rank dsize dnum size : Nat) (cells : List (Nat × List Col)) : Core.EpGGSW :=
  { base2k := b, n := n, rank := rank, dsize := dsize, dnum := dnum, size := size, cells := keyRows dnum (rank + 1) cells }

/-- a generated GGLWE as `Core.GGLWE` (C05; the sub-keys of `Core.ToGGSWKey`) -/
def gglweOf (b n colsIn colsOut dsize dnum size : Nat) (cells : List (Nat × List Col)) : Core.GGLWE :=
  { base2k := b, n := n, colsIn := colsIn, colsOut := colsOut, dsize := dsize, dnum := dnum, size := size, cells := keyRows dnum colsIn cells }

/-- a generated GGLWE→GGSW key as `Core.ToGGSWKey` (C03 `ggsw_cells_value`, C14) -/
def toGgswKeyOf (b n rank dsize dnum size : Nat) (subs : List (List (Nat × List Col))) : Core.ToGGSWKey :=
  { base2k := b, n := n, rank := rank, dsize := dsize, dnum := dnum, size := size, keys := subs.map (keyRows dnum rank) }

theorem ggswOf_toPMat (b n rank dsize dnum size : Nat) (cells : List (Nat × List Col)) :
    (ggswOf b n rank dsize dnum size cells).toPMat = Core.keyMat n dnum (rank + 1) (rank + 1) size cells := rfl

theorem gglweOf_toPMat (b n colsIn colsOut dsize dnum size : Nat) (cells : List (Nat × List Col)) :
    (gglweOf b n colsIn colsOut dsize dnum size cells).toPMat = Core.keyMat n dnum colsIn colsOut size cells := rfl

theorem toGgswKeyOf_at (b n rank dsize dnum size : Nat) (subs : List (List (Nat × List Col))) (c : Nat) (cells : List (Nat × List Col))
    (h : subs[c]? = some cells) : ((toGgswKeyOf b n rank dsize dnum size subs).at c).toPMat = Core.keyMat n dnum rank (rank + 1) size cells := by
  unfold toGgswKeyOf Core.ToGGSWKey.at Core.GGLWE.toPMat Core.keyMat
  simp [List.getD_eq_getElem?_getD, h, keyRows]

section
variable {n b dsize size kxe dnum colsIn : Nat}

/-- **`KeyWellFormed` is the key part of `KsSide` / the hypotheses of `C03.glwe_keyswitch_decrypts`** (`hc0 hD hM hS hs hEL hKL hkey`) for
`key = ksKeyOf …`: explicit `EL` (the scaled sampler errors), some `KL` -/
theorem KeyWellFormed.ks {mat : Hal.PMat} {sIn sOut : List Poly} {err : Nat → Nat → Poly} (hdn : 1 ≤ dnum) (hci : 0 < colsIn)
    (h : KeyWellFormed n b dsize size kxe dnum colsIn mat sOut (fun i => ι n (sIn.getD i [])) err)
    (herr : ∀ i, i < colsIn → ∀ r, r < dnum → (err i r).length = n) (p : Int) :
    let key : Ks.Key := { base2k := b, dsize := dsize, p := p, mat := mat }
    0 < key.mat.colsOut ∧ key.mat.rows * key.dsize ≤ key.mat.size ∧
    (∀ i, i < key.mat.colsIn → ∀ r, r < key.mat.rows → ∀ q, (key.mat.entry (r * key.mat.colsIn + i) q).length = n) ∧
    ∃ EL KL : Nat → Nat → Poly, (∀ i r, (EL i r).length = n) ∧ (∀ i r, (KL i r).length = n) ∧
      (∀ i, i < colsIn → ∀ r, r < dnum → EL i r = Hal.polyScale (2 ^ (b * (size - 1 - errLimb kxe b))) (err i r)) ∧
      ∀ i, i < key.mat.colsIn → ∀ r, r < key.mat.rows →
        Gadget.val (Ks.radix n key.base2k) key.mat.size (Ks.keyPhase n sOut key.mat i r) =
          Ks.ι n (sIn.getD i []) * Ks.radix n key.base2k ^ (key.mat.size - (r + 1) * key.dsize) + Ks.ι n (EL i r)
            + Ks.radix n key.base2k ^ key.mat.size * Ks.ι n (KL i r) := by
  obtain ⟨h1, h2, h3, h4, h5, h6, KL, h7, h8⟩ := h
  intro key
  refine ⟨by show 0 < mat.colsOut; omega, ?_, ?_, ?_⟩
  · show mat.rows * dsize ≤ mat.size
    rw [h2, h5]
    have := (h6 0 hci (dnum - 1) (by omega)).1
    have e : dnum - 1 + 1 = dnum := by omega
    rwa [e] at this
  · intro i hi r hr q
    have hi' : i < colsIn := by rw [← h3]; exact hi
    have hr' : r < dnum := by rw [← h2]; exact hr
    have := (h6 i hi' r hr').2 q
    show (mat.entry (r * mat.colsIn + i) q).length = n
    rw [h3]; exact this
  · classical
    refine ⟨fun i r => if i < colsIn ∧ r < dnum then Hal.polyScale (2 ^ (b * (size - 1 - errLimb kxe b))) (err i r) else Hal.zeroP n,
      KL, ?_, h7, ?_, ?_⟩
    · intro i r
      by_cases hc : i < colsIn ∧ r < dnum
      · simp only [hc, and_self, if_true]; simp [Hal.polyScale, herr i hc.1 r hc.2]
      · simp only [hc, if_false]; simp [Hal.zeroP]
    · intro i hi r hr; simp [hi, hr]
    · intro i hi r hr
      have hi' : i < colsIn := by rw [← h3]; exact hi
      have hr' : r < dnum := by rw [← h2]; exact hr
      have := h8 i hi r hr
      simp only [hi', hr', and_self, if_true]
      exact this

/-- **`KeyWellFormed` in the form of `hkey` of `C04.ep_decrypts` / `C05.relin_decrypts` / `C03.ggsw_cells_value`**: with
`E i r := ι (2^(b(size−1−limb))·e) + β^S · ι (KL i r)` -/
theorem KeyWellFormed.ep {mat : Hal.PMat} {sOut : List Poly} {msg : Nat → R n} {err : Nat → Nat → Poly}
    (h : KeyWellFormed n b dsize size kxe dnum colsIn mat sOut msg err) :
    ∃ (KL : Nat → Nat → Poly) (E : Nat → Nat → R n), (∀ i r, (KL i r).length = n) ∧
      (∀ i r, E i r = ι n (Hal.polyScale (2 ^ (b * (size - 1 - errLimb kxe b))) (err i r)) + ((2 : R n) ^ b) ^ size * ι n (KL i r)) ∧
      ∀ i, i < colsIn → ∀ r, r < dnum →
        Gadget.val ((2 : R n) ^ b) size (Ks.keyPhase n sOut mat i r) = msg i * ((2 : R n) ^ b) ^ (size - (r + 1) * dsize) + E i r := by
  obtain ⟨_, h2, h3, _, h5, _, KL, h7, h8⟩ := h
  refine ⟨KL, fun i r => ι n (Hal.polyScale (2 ^ (b * (size - 1 - errLimb kxe b))) (err i r)) + ((2 : R n) ^ b) ^ size * ι n (KL i r),
    h7, fun _ _ => rfl, ?_⟩
  intro i hi r hr
  have := h8 i (by rw [h3]; exact hi) r (by rw [h2]; exact hr)
  rw [radix_eq, h5] at this
  rw [this]
  ring

/-- every entry of a generated key matrix has `n` coefficients (`hM` of the consumers, all flat indices) -/
theorem keyMat_entry_length {colsOut : Nat} {cells : List (Nat × List Col)} {sOut : List Poly} {msg : Nat → R n} {err : Nat → Nat → Poly}
    (hci : 0 < colsIn)
    (h : KeyWellFormed n b dsize size kxe dnum colsIn (Core.keyMat n dnum colsIn colsOut size cells) sOut msg err) :
    ∀ j q, ((Core.keyMat n dnum colsIn colsOut size cells).entry j q).length = n := by
  obtain ⟨_, _, _, _, _, h6, _⟩ := h
  intro j q
  by_cases hj : j < dnum * colsIn
  · have hr : j / colsIn < dnum := by rw [Nat.div_lt_iff_lt_mul hci]; exact hj
    have hi : j % colsIn < colsIn := Nat.mod_lt _ hci
    have := (h6 (j % colsIn) hi (j / colsIn) hr).2 q
    have e : j / colsIn * colsIn + j % colsIn = j := by rw [Nat.mul_comm]; exact Nat.div_add_mod j colsIn
    rwa [e] at this
  · have hnone : ((List.range (dnum * colsIn)).map (Core.cellCols cells))[j]? = none := by
      rw [List.getElem?_eq_none_iff]; simp; omega
    simp only [Hal.PMat.entry, Core.keyMat, List.getD_eq_getElem?_getD, hnone]
    simp [Hal.limbOr0, Hal.zeroP]

/-- **the key side of `KsSide` from a generated key**: given the fields of `KsSide` that concern the operand and the head-room, a key
`ksKeyOf …` satisfying `KeyWellFormed` supplies all the others (`hc0 hD hM hS hs hEL hKL hkey`) with the explicit `EL` -/
theorem ksSide_of_generated (big128 : Bool) (N bout sout rout : Nat) (a : Ks.Ct) (p : Int) (colsOut : Nat) (cells : List (Nat × List Col))
    (sIn skOut : List Poly) (err : Nat → Nat → Poly) (Hin Hp : Int)
    (hdn : 1 ≤ dnum) (hci : 0 < colsIn) (hd : 1 ≤ dsize)
    (hwf : KeyWellFormed N b dsize size kxe dnum colsIn (Core.keyMat N dnum colsIn colsOut size cells) skOut (fun i => ι N (sIn.getD i [])) err)
    (herr : ∀ i, i < colsIn → ∀ r, r < dnum → (err i r).length = N) (hsl : colsIn ≤ sIn.length)
    (hN : 0 < N) (hrank : a.rank = colsIn) (hrout : rout = colsOut - 1)
    (hbi1 : 1 ≤ a.base2k) (hbi : a.base2k ≤ 62) (hbk1 : 1 ≤ b) (hbk : b ≤ 62) (hbo1 : 1 ≤ bout) (hbo : bout ≤ 62)
    (hIn0 : 0 ≤ Hin) (hIn : Hin + 8 ≤ 2 ^ 62) (hHp0 : 0 ≤ Hp) (hAcc : Hp + (Hin + 2 ^ b) + 8 ≤ 2 ^ (KsDec.bitsOf big128 - 2))
    (hprod : ∀ aConv, Ks.convIn a (ksKeyOf b dsize p N dnum colsIn colsOut size cells) = .ok aConv → ∀ i, i < rout + 1 →
      ∀ l ∈ (KsDec.prodOf rout aConv (ksKeyOf b dsize p N dnum colsIn colsOut size cells)).act i, ∀ x ∈ l, |x| ≤ Hp)
    (hcov1 : KsDec.convSize a (ksKeyOf b dsize p N dnum colsIn colsOut size cells) ≤ size)
    (hcov2 : KsDec.convSize a (ksKeyOf b dsize p N dnum colsIn colsOut size cells) ≤ dnum * dsize) :
    ∃ EL KL : Nat → Nat → Poly,
      (∀ i, i < colsIn → ∀ r, r < dnum → EL i r = Hal.polyScale (2 ^ (b * (size - 1 - errLimb kxe b))) (err i r)) ∧
      KsDec.KsSide big128 N bout sout rout a (ksKeyOf b dsize p N dnum colsIn colsOut size cells) sIn skOut EL KL Hin Hp := by
  obtain ⟨k1, k2, _, EL, KL, hEL, hKL, hexp, hkey⟩ := KeyWellFormed.ks hdn hci hwf herr p
  have hM := keyMat_entry_length hci hwf
  obtain ⟨_, _, _, w4, _⟩ := hwf
  refine ⟨EL, KL, hexp, ?_⟩
  exact { hN := hN, hrank := hrank, hrout := hrout, hc0 := k1, hD := hd, hM := hM, hS := k2, hbi1 := hbi1, hbi := hbi, hbk1 := hbk1,
          hbk := hbk, hbo1 := hbo1, hbo := hbo, hIn0 := hIn0, hIn := hIn, hHp0 := hHp0, hAcc := hAcc, hprod := hprod, hs := hsl,
          hEL := hEL, hKL := hKL, hkey := hkey, hcov1 := hcov1, hcov2 := hcov2 }

end

end CoreEnc
