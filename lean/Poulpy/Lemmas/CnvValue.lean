import Mathlib.Algebra.BigOperators.Ring.Finset
import Mathlib.Algebra.BigOperators.Group.Finset.Sigma
import Mathlib.Tactic.Ring
import Mathlib.Tactic.Linarith

/-! The bivariate convolution of two limb vectors has the value of the product (Cauchy product, descending weights). -/

namespace CnvValue
open Finset

variable {R : Type*} [CommRing R]

/-- limb `k` of the convolution of `a` (`sa` limbs) and `b` (`sb` limbs) -/
def conv (a b : ℕ → R) (sa sb k : ℕ) : R :=
  ∑ j ∈ range sb, if j ≤ k ∧ k - j < sa then a (k - j) * b j else 0

/-- value of `S` limbs, most significant first -/
def val (β : R) (S : ℕ) (x : ℕ → R) : R := ∑ l ∈ range S, x l * β ^ (S - 1 - l)

theorem sum_shift_ite (f : ℕ → ℕ → R) (sa sb j : ℕ) (hj : j < sb) :
    ∑ k ∈ range (sa + sb), (if j ≤ k ∧ k - j < sa then f (k - j) k else 0) = ∑ m ∈ range sa, f m (m + j) := by
  rw [← Finset.sum_filter]
  apply Finset.sum_bij' (fun k _ => k - j) (fun m _ => m + j)
  · intro k hk
    simp only [mem_filter, mem_range] at hk
    simp only [mem_range]; exact hk.2.2
  · intro m hm
    simp only [mem_range] at hm
    simp only [mem_filter, mem_range]
    refine ⟨by omega, by omega, by omega⟩
  · intro k hk
    simp only [mem_filter, mem_range] at hk
    omega
  · intro m _; omega
  · intro k hk
    simp only [mem_filter, mem_range] at hk
    have : k - j + j = k := by omega
    rw [this]

/-- **Cauchy product with descending weights**: the `sa+sb` limbs `conv_0 … conv_{sa+sb−2}, 0` have the value `β·val(a)·val(b)` -/
theorem conv_value (β : R) (a b : ℕ → R) (sa sb : ℕ) :
    val β (sa + sb) (conv a b sa sb) = β * val β sa a * val β sb b := by
  unfold val conv
  simp only [Finset.sum_mul]
  rw [Finset.sum_comm]
  have h1 : ∀ j ∈ range sb, ∑ k ∈ range (sa + sb), (if j ≤ k ∧ k - j < sa then a (k - j) * b j else 0) * β ^ (sa + sb - 1 - k)
      = ∑ m ∈ range sa, a m * b j * β ^ (sa + sb - 1 - (m + j)) := by
    intro j hj
    have hj' : j < sb := mem_range.mp hj
    rw [← sum_shift_ite (fun m k => a m * b j * β ^ (sa + sb - 1 - k)) sa sb j hj']
    apply Finset.sum_congr rfl
    intro k _
    split <;> simp
  rw [Finset.sum_congr rfl h1]
  rw [Finset.mul_sum]
  apply Finset.sum_congr rfl
  intro j hj
  rw [Finset.mul_sum, Finset.sum_mul]
  apply Finset.sum_congr rfl
  intro m hm
  have hm' : m < sa := mem_range.mp hm
  have hj' : j < sb := mem_range.mp hj
  have e : sa + sb - 1 - (m + j) = 1 + (sa - 1 - m) + (sb - 1 - j) := by omega
  rw [e, pow_add, pow_add, pow_one]
  ring

end CnvValue
