/-
Helper lemmas for C08: the cross-radix `vec_znx_normalize`, part 4 — offset 0
(`vec_znx_big_normalize` of a decryption / `glwe_normalize`): the value theorem.
-/
import Poulpy.Lemmas.NormCross3

namespace NormL

theorem CrossCtx.headRoomH {bits ab rb rs lsh : Nat} {H : Int} {a : List Int}
    (c : CrossCtx bits ab rb rs lsh H a) : HeadRoom bits ab lsh H := by
  refine ⟨c.bits1, c.hlsh, by have := c.hab; rcases c.hbits with h | h <;> omega, c.hH0, ?_⟩
  have h1 : (2 : Int) ^ ab ≤ 2 ^ 62 := two_pow_le c.hab
  have h2 : (2 : Int) ^ 62 ≤ 2 ^ (bits - 2) := two_pow_le (by rcases c.hbits with h | h <;> omega)
  have := c.pow_bits
  have := c.hH
  linarith

/-- `⌈(t·n + r)/n⌉ = t` or `t + 1` -/
theorem ceil_div_mul_add (n t r : Nat) (hn : 1 ≤ n) (hr : r < n) :
    (t * n + r + n - 1) / n = t + (if r = 0 then 0 else 1) := by
  by_cases h0 : r = 0
  · subst h0
    simp only [if_true, Nat.add_zero]
    apply Nat.div_eq_of_lt_le
    · omega
    · rw [Nat.add_mul]; omega
  · simp only [h0, if_false]
    apply Nat.div_eq_of_lt_le
    · rw [Nat.add_mul]; omega
    · rw [Nat.add_mul, Nat.add_mul]; omega

/-- offset 0, `a` has at most as many bits as the result: `a_start = a_size`, no rounding, and the
`a` bits fill the result exactly from position `res_bits − a_bits` -/
theorem cross_arith_A (ab rb as rs : Nat) (hab : 1 ≤ ab) (hrb : 1 ≤ rb) (hle : as * ab ≤ rs * rb) (has : 1 ≤ as) :
    (as * ab + ab - 1) / ab = as ∧ (as * ab - as * ab) % ab = 0 ∧
    1 ≤ (as * ab + rb - 1) / rb ∧ (as * ab + rb - 1) / rb ≤ rs ∧
    rb * (rs - (as * ab + rb - 1) / rb) + (rs * rb - as * ab) % rb = rs * rb - as * ab := by
  have h1 : (as * ab + ab - 1) / ab = as := by
    have := ceil_div_mul_add ab as 0 hab (by omega); simpa using this
  refine ⟨h1, by simp, ?_⟩
  have hdm := Nat.div_add_mod (rs * rb - as * ab) rb
  have hml := Nat.mod_lt (rs * rb - as * ab) (show rb > 0 by omega)
  generalize hu : rs * rb - as * ab = u at hdm hml ⊢
  generalize hx : u / rb = x at hdm
  generalize hpad : u % rb = pad at hdm hml ⊢
  have hxr : x ≤ rs := by
    have : rb * x ≤ rs * rb := by omega
    have : x * rb ≤ rs * rb := by rwa [Nat.mul_comm] at this
    exact Nat.le_of_mul_le_mul_right this (by omega)
  have hA : 1 ≤ as * ab := Nat.mul_pos (by omega) (by omega)
  have e1 : (rs - x) * rb = rs * rb - x * rb := Nat.sub_mul _ _ _
  have e2 : rb * x = x * rb := Nat.mul_comm _ _
  by_cases hp0 : pad = 0
  · -- aTot = (rs - x)·rb
    have haT : as * ab = (rs - x) * rb + 0 := by omega
    have hrsx : 1 ≤ rs - x := by
      by_contra hne
      have : rs - x = 0 := by omega
      rw [this] at haT; omega
    have h2 : (as * ab + rb - 1) / rb = rs - x := by
      rw [haT]; have := ceil_div_mul_add rb (rs - x) 0 hrb (by omega); simpa using this
    generalize (as * ab + rb - 1) / rb = rS at h2 ⊢
    subst h2
    refine ⟨hrsx, by omega, ?_⟩
    have : rs - (rs - x) = x := by omega
    rw [this]; omega
  · have hrsx : 1 ≤ rs - x := by
      by_contra hne
      have : rs - x = 0 := by omega
      rw [this] at e1; omega
    have haT : as * ab = (rs - x - 1) * rb + (rb - pad) := by
      have e3 : (rs - x - 1) * rb = (rs - x) * rb - rb := by
        rw [Nat.sub_mul, Nat.one_mul]
      have e4 : rb ≤ (rs - x) * rb := Nat.le_mul_of_pos_left rb hrsx
      omega
    have h2 : (as * ab + rb - 1) / rb = rs - x := by
      rw [haT]
      have := ceil_div_mul_add rb (rs - x - 1) (rb - pad) hrb (by omega)
      rw [this, if_neg (by omega)]; omega
    generalize (as * ab + rb - 1) / rb = rS at h2 ⊢
    subst h2
    refine ⟨hrsx, by omega, ?_⟩
    have : rs - (rs - x) = x := by omega
    rw [this]; omega

/-- offset 0, `a` has more bits than the result: the used limbs of `a`, shifted right by `take` bits,
fill the result exactly -/
theorem cross_arith_B (ab rb as rs : Nat) (hab : 1 ≤ ab) (hrb : 1 ≤ rb) (hlt : rs * rb < as * ab) (hrs : 1 ≤ rs) :
    let aStart := (rs * rb + ab - 1) / ab
    let take := (as * ab - rs * rb) % ab
    1 ≤ aStart ∧ aStart ≤ as ∧ aStart * ab = rs * rb + take ∧ ab * (as - aStart) + take = as * ab - rs * rb := by
  intro aStart take
  have hdm := Nat.div_add_mod (as * ab - rs * rb) ab
  have hml := Nat.mod_lt (as * ab - rs * rb) (show ab > 0 by omega)
  have htk0 : take = (as * ab - rs * rb) % ab := rfl
  generalize hv : as * ab - rs * rb = v at hdm hml htk0 ⊢
  generalize hy : v / ab = y at hdm
  generalize take = tk at htk0 ⊢
  subst htk0
  have hyas : y ≤ as := by
    have : ab * y ≤ as * ab := by omega
    have : y * ab ≤ as * ab := by rwa [Nat.mul_comm] at this
    exact Nat.le_of_mul_le_mul_right this (by omega)
  have hR : 1 ≤ rs * rb := Nat.mul_pos (by omega) (by omega)
  have e1 : (as - y) * ab = as * ab - y * ab := Nat.sub_mul _ _ _
  have e2 : ab * y = y * ab := Nat.mul_comm _ _
  have hS : aStart = as - y := by
    show (rs * rb + ab - 1) / ab = as - y
    by_cases ht0 : v % ab = 0
    · have hRe : rs * rb = (as - y) * ab + 0 := by omega
      rw [hRe]; have := ceil_div_mul_add ab (as - y) 0 hab (by omega); simpa using this
    · have hasy : 1 ≤ as - y := by
        by_contra hne
        have : as - y = 0 := by omega
        rw [this] at e1; omega
      have hRe : rs * rb = (as - y - 1) * ab + (ab - v % ab) := by
        have e3 : (as - y - 1) * ab = (as - y) * ab - ab := by rw [Nat.sub_mul, Nat.one_mul]
        have e4 : ab ≤ (as - y) * ab := Nat.le_mul_of_pos_left ab hasy
        omega
      rw [hRe]
      have := ceil_div_mul_add ab (as - y - 1) (ab - v % ab) hab (by omega)
      rw [this, if_neg (by omega)]; omega
  have hasy : 1 ≤ as - y := by
    by_contra hne
    have : as - y = 0 := by omega
    rw [this] at e1; omega
  generalize aStart = aS at hS ⊢
  subst hS
  refine ⟨hasy, by omega, by omega, ?_⟩
  have : as - (as - y) = y := by omega
  rw [this]; omega

end NormL

namespace NormL

theorem clampNat_zero (hi : Nat) : clampNat (0 : Int) hi = 0 := by simp [clampNat]

theorem toNat_neg_cast (n : Nat) : Int.toNat (0 - (n : Int)) = 0 := by omega

/-- `normalizeCrossCoef` at offset 0, with the clamps evaluated and the loop body named -/
theorem normalizeCrossCoef_off0 (bits rb rs ab : Nat) (a : List Int) (hab : 1 ≤ ab) :
    normalizeCrossCoef bits rb rs 0 ab a =
      (if (min (a.length * ab) (rs * rb) + rb - 1) / rb = 0 then some (List.replicate rs 0)
       else
        let aStart := (min (rs * rb) (a.length * ab) + ab - 1) / ab
        let st := (List.range aStart).foldl
          (crossOuterBody bits ab rb 0 a aStart ((a.length * ab - min (rs * rb) (a.length * ab)) % ab)
            ((rs * rb - min (a.length * ab) (rs * rb)) % rb))
          (crossSt0 rb rs ((min (a.length * ab) (rs * rb) + rb - 1) / rb) ab
            ((carryOnlyRun bits ab 0 (a.drop aStart)).getD 0))
        if st.stuck then none else some st.res) := by
  have hso : splitOffset ab (0 : Int) = (0, 0) := splitOffset_unique hab 0 0 0 (by simp) (by omega)
  unfold normalizeCrossCoef
  rw [hso]
  simp only [neg_zero, zero_mul, sub_zero, add_zero, clampNat_zero, clampNat_natCast, Nat.zero_div,
    toNat_neg_cast, ne_eq, not_true_eq_false, if_false, Nat.sub_zero]
  rfl

end NormL

namespace NormL

section
variable {bits ab rb rs : Nat} {H : Int} {a : List Int}

/-- both `done` exits of the outer loop leave `K ≡ valI res (mod 2^(rb·rs))` when the last limb of `a`
ends exactly at the top of the result -/
theorem cross_final_mod (hrb1 : 1 ≤ rb) {K : Int} {pinit take aStart : Nat} {st : CrossSt}
    (hq : crossQ pinit ab take aStart = rb * rs)
    (h : COut ab rb rs 0 H a K pinit take aStart aStart st) :
    st.stuck = false ∧ st.res.length = rs ∧ (∀ d ∈ st.res, |d| ≤ 2 ^ rb - 1) ∧
    ∃ Z : Int, K = valI rb st.res + 2 ^ (rb * rs) * Z := by
  rcases h with ⟨hlt, _⟩ | ⟨_, _, _, hf⟩ | hf
  · omega
  · exact ⟨hf.ns, hf.len, hf.lims, hf.val⟩
  · refine ⟨hf.ns, hf.len, hf.lims, st.resCarry, ?_⟩
    have hp := hf.posq
    rw [hq] at hp
    have hL : st.resLimb = 0 := by
      have h1 : rs ≤ rs - st.resLimb := Nat.le_of_mul_le_mul_left hp (by omega)
      have := hf.lim
      omega
    have hv := hf.val
    rw [hL, Nat.sub_zero] at hv
    exact hv

/-- **value theorem of the cross-radix `vec_znx_normalize` / `vec_znx_big_normalize` at offset 0**
(any pair of radices 1..62, any sizes, un-normalised input within head-room): `rs` limbs, each of
absolute value `< 2^rb`, representing `a` within one unit of the last limb, exactly when the result
has at least as many bits as `a`. -/
theorem normalizeCrossCoef_value_off0 (c : CrossCtx bits ab rb rs 0 H a) {out : List Int}
    (h : normalizeCrossCoef bits rb rs 0 ab a = some out) :
    out.length = rs ∧ (∀ d ∈ out, |d| ≤ 2 ^ rb - 1) ∧
    TorusNear (valI rb out) (rb * rs) (valI ab a) (ab * a.length) ∧
    (ab * a.length ≤ rb * rs → TorusEq (valI rb out) (rb * rs) (valI ab a) (ab * a.length)) := by
  have hab1 : 1 ≤ ab := by have := c.hlsh; omega
  have hrb1 := c.hrb1
  rw [normalizeCrossCoef_off0 bits rb rs ab a hab1] at h
  have hcomm : ab * a.length = a.length * ab := Nat.mul_comm _ _
  have hcomm2 : rb * rs = rs * rb := Nat.mul_comm _ _
  have hRb := two_pow_pos rb
  by_cases hz : (min (a.length * ab) (rs * rb) + rb - 1) / rb = 0
  · rw [if_pos hz] at h
    cases h
    have hm0 : min (a.length * ab) (rs * rb) = 0 := by
      have := (Nat.div_eq_zero_iff).mp hz
      omega
    have hzl : ∀ d ∈ List.replicate rs (0 : Int), |d| ≤ 2 ^ rb - 1 := by
      intro d hd; rw [(List.mem_replicate.mp hd).2]; simp; linarith
    refine ⟨by simp, hzl, ?_, ?_⟩
    · by_cases has0 : a.length = 0
      · have : a = [] := List.eq_nil_of_length_eq_zero has0
        subst this
        refine TorusEq.near ⟨0, ?_⟩
        simp [valI, valI_replicate_zero]
      · have hrs0 : rs = 0 := by
          have h1 : 1 ≤ a.length * ab := Nat.mul_pos (by omega) (by omega)
          have h2 : rs * rb = 0 := by omega
          rcases Nat.mul_eq_zero.mp h2 with h | h <;> omega
        subst hrs0
        simpa using torusNear_zero_prec (valI rb (List.replicate 0 0)) (valI ab a) (ab * a.length)
    · intro hle
      have has0 : a.length = 0 := by
        by_contra hne
        have h1 : 1 ≤ a.length * ab := Nat.mul_pos (by omega) (by omega)
        omega
      have : a = [] := List.eq_nil_of_length_eq_zero has0
      subst this
      exact ⟨0, by simp [valI, valI_replicate_zero]⟩
  · rw [if_neg hz] at h
    have hm1 : 1 ≤ min (a.length * ab) (rs * rb) := by
      by_contra hne
      have : min (a.length * ab) (rs * rb) = 0 := by omega
      rw [this] at hz
      exact hz (Nat.div_eq_of_lt (by omega))
    have has1 : 1 ≤ a.length := by
      by_contra hne
      have : a.length = 0 := by omega
      rw [this] at hm1; simp at hm1
    have hrs1 : 1 ≤ rs := by
      by_contra hne
      have : rs = 0 := by omega
      rw [this] at hm1; simp at hm1
    dsimp only at h
    by_cases hAB : a.length * ab ≤ rs * rb
    · -- (A) the result has at least as many bits as `a`: exact
      have hmin1 : min (a.length * ab) (rs * rb) = a.length * ab := by omega
      have hmin2 : min (rs * rb) (a.length * ab) = a.length * ab := by omega
      rw [hmin1, hmin2] at h
      obtain ⟨hA1, hA2, hA3, hA4, hA5⟩ := cross_arith_A ab rb a.length rs hab1 hrb1 hAB has1
      rw [hA1, hA2] at h
      have hD : a.drop a.length = [] := by simp
      rw [hD] at h
      have hcD : (carryOnlyRun bits ab 0 ([] : List Int)).getD 0 = 0 := rfl
      rw [hcD] at h
      generalize hstf : List.foldl (crossOuterBody bits ab rb 0 a _ _ _) _ (List.range _) = stf at h
      obtain ⟨K, ρ, hK, _, hρ0, hfold⟩ := crossOuter_fold c (aStart := a.length) (take := 0)
        (pad := (rs * rb - a.length * ab) % rb) (resStart := (a.length * ab + rb - 1) / rb) (cD := 0)
        has1 (le_refl _) (by omega) (Nat.mod_lt _ (by omega)) (Or.inl rfl) hA3 hA4
        (by have := c.hH0; simp; linarith)
      have hfin := cross_final_mod (ab := ab) (H := H) (a := a) hrb1
        (by unfold crossQ; rw [hA5]; omega) (hfold a.length has1 (le_refl _))
      rw [hstf] at hfin
      obtain ⟨hns, hlen, hlims, Z, hZ⟩ := hfin
      rw [hns] at h
      simp only [Bool.false_eq_true, if_false] at h
      cases h
      rw [hρ0 rfl, hA5] at hK
      have hT : crossTop ab 0 a a.length 0 = valI ab a := by
        unfold crossTop; simp
      rw [hT] at hK
      simp only [pow_zero, one_mul, sub_zero] at hK
      have hexact : TorusEq (valI rb stf.res) (rb * rs) (valI ab a) (ab * a.length) := by
        refine ⟨-Z, ?_⟩
        have e1 : (2 : Int) ^ (rb * rs) = 2 ^ (rs * rb - a.length * ab) * 2 ^ (ab * a.length) := by
          rw [← pow_add]; congr 1; omega
        have e2 : (2 : Int) ^ (rb * rs + ab * a.length) = 2 ^ (rb * rs) * 2 ^ (ab * a.length) := by rw [pow_add]
        rw [e2]
        have hv : valI rb stf.res = K - 2 ^ (rb * rs) * Z := by rw [hZ]; ring
        rw [hv, hK, e1]
        ring
      exact ⟨hlen, hlims, hexact.near, fun _ => hexact⟩
    · -- (B) `a` has more bits than the result: the low part is rounded away
      have hlt : rs * rb < a.length * ab := by omega
      have hmin1 : min (a.length * ab) (rs * rb) = rs * rb := by omega
      have hmin2 : min (rs * rb) (a.length * ab) = rs * rb := by omega
      rw [hmin1, hmin2] at h
      have hrS : (rs * rb + rb - 1) / rb = rs := by
        have := ceil_div_mul_add rb rs 0 hrb1 (by omega); simpa using this
      have hpad : (rs * rb - rs * rb) % rb = 0 := by simp
      rw [hrS, hpad] at h
      obtain ⟨hB1, hB2, hB3, hB4⟩ := cross_arith_B ab rb a.length rs hab1 hrb1 hlt hrs1
      generalize hSt : (rs * rb + ab - 1) / ab = aStart at h hB1 hB2 hB3 hB4
      generalize htk : (a.length * ab - rs * rb) % ab = take at h hB3 hB4
      have htake : take < ab := by rw [← htk]; exact Nat.mod_lt _ (by omega)
      -- the discarded low limbs
      have hr := c.headRoomH
      have hDb : ∀ x ∈ a.drop aStart, |x| ≤ H := fun x hx => c.ha x (List.mem_of_mem_drop hx)
      have h0 : |(0 : Int)| ≤ H + 3 := by have := c.hH0; simp; linarith
      obtain ⟨dv, dl, db, dc⟩ := middleRun_spec hr (a.drop aStart) hDb 0 h0
      rw [← carryOnlyRun_getD hr _ hDb] at dv dc
      set cD := (carryOnlyRun bits ab 0 (a.drop aStart)).getD 0 with hcD
      clear_value cD
      have hdD := valI_balanced_bound hab1 _ db
      rw [dl] at hdD
      set dD := valI ab (middleRun bits ab 0 (a.drop aStart) 0).1 with hdDdef
      clear_value dD
      have hDl : (a.drop aStart).length = a.length - aStart := by simp
      rw [hDl] at dv hdD
      generalize hstf : List.foldl (crossOuterBody bits ab rb 0 a _ _ _) _ (List.range _) = stf at h
      obtain ⟨K, ρ, hK, hρ, hρ0, hfold⟩ := crossOuter_fold c (aStart := aStart) (take := take) (pad := 0)
        (resStart := rs) (cD := cD) hB1 hB2 htake (by omega) (Or.inr rfl) hrs1 (le_refl _) dc
      have hfin := cross_final_mod (ab := ab) (H := H) (a := a) hrb1
        (by unfold crossQ; rw [hB3]; simp; omega) (hfold aStart hB1 (le_refl _))
      rw [hstf] at hfin
      obtain ⟨hns, hlen, hlims, Z, hZ⟩ := hfin
      rw [hns] at h
      simp only [Bool.false_eq_true, if_false] at h
      cases h
      simp only [Nat.sub_self, Nat.mul_zero, Nat.add_zero, pow_zero, one_mul] at hK
      -- valI a = T·P + dD
      set P := (2 : Int) ^ (ab * (a.length - aStart)) with hP
      clear_value P
      have hPpos : 0 < P := by rw [hP]; exact two_pow_pos _
      have hva : valI ab a = (crossTop ab 0 a aStart cD) * P + dD := by
        have e : a = a.take aStart ++ a.drop aStart := (List.take_append_drop aStart a).symm
        conv_lhs => rw [e]
        rw [valI_append, hDl]
        unfold crossTop
        simp only [pow_zero, one_mul, mul_one, add_zero] at dv ⊢
        rw [← hP]
        linarith
      refine ⟨hlen, hlims, ?_, fun hle => by omega⟩
      have hT2 := two_pow_pos take
      set E := ρ * P + dD with hE
      clear_value E
      have hEb : |E| ≤ 2 ^ take * P := by
        have h1 : |E| ≤ |ρ| * P + |dD| := by
          have := abs_add_le (ρ * P) dD
          rw [abs_mul, abs_of_pos hPpos] at this; rw [hE]; exact this
        by_cases ht0 : take = 0
        · rw [hρ0 ht0] at h1; rw [ht0]; simp at h1 ⊢; linarith
        · have hth := half_le_full (show 1 ≤ take by omega)
          have h2 : (2 * |ρ|) * P ≤ 2 ^ take * P := mul_le_mul_of_nonneg_right hρ (le_of_lt hPpos)
          have h3 : (2 : Int) ≤ 2 ^ take := by
            have := two_pow_le (show 1 ≤ take by omega); simpa using this
          have h4 : 2 * P ≤ 2 ^ take * P := mul_le_mul_of_nonneg_right h3 (le_of_lt hPpos)
          linarith
      have eg : (2 : Int) ^ (ab * a.length) = 2 ^ take * P * 2 ^ (rb * rs) := by
        rw [hP, ← pow_add, ← pow_add]; congr 1; omega
      refine ⟨-Z, -(E * 2 ^ (rb * rs)), ?_, ?_⟩
      · have e2 : (2 : Int) ^ (rb * rs + ab * a.length) = 2 ^ (rb * rs) * 2 ^ (ab * a.length) := by rw [pow_add]
        have hv : valI rb stf.res = K - 2 ^ (rb * rs) * Z := by rw [hZ]; ring
        have hT : crossTop ab 0 a aStart cD = 2 ^ take * K + ρ := by linarith
        rw [e2, hv, hva, hT, eg, hE]
        generalize (2 : Int) ^ (rb * rs) = Pr
        generalize (2 : Int) ^ take = Pt
        ring
      · rw [abs_neg, abs_mul, abs_of_pos (two_pow_pos _), eg]
        exact mul_le_mul_of_nonneg_right hEb (le_of_lt (two_pow_pos _))

end

end NormL
