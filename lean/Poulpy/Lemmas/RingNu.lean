import Poulpy.Lemmas.NoiseAlg
import Poulpy.Lemmas.ModSize
import Poulpy.Lemmas.LweDecrypt
import Poulpy.Lemmas.TraceJump

/-!
A concrete error measure and the monomials for the blind-rotation machines of `NoiseAlg.lean` on the ring in which the executed
identities of C03 / C04 live: `R = ℤ[X]/(X^N+1)` (`Ks.R N`).  Every element has a unique coefficient list of length `N`
(`KsDec.ι_surj`, `KsDec.ι_inj`); the measure modulo `M` is the largest centred residue of its coefficients.  Multiplication by `X`
shifts the list and negates the coefficient that wraps (`Hal.mulX`), so the monomials `X^a` act isometrically, and an element of the form
`ι E + M·y` — the shape of every error term exhibited by C03 / C04 — has measure at most `‖E‖_∞`.
-/

namespace RingNu
open Noise Hal KsDec TraceJump

/-- the coefficient list of an element of `ℤ[X]/(X^N+1)` -/
noncomputable def coefL (N : ℕ) (x : Ks.R N) : Poly :=
  if h : 0 < N then Classical.choose (ι_surj N h x) else []

theorem coefL_length {N : ℕ} (hN : 0 < N) (x : Ks.R N) : (coefL N x).length = N := by
  unfold coefL; rw [dif_pos hN]; exact (Classical.choose_spec (ι_surj N hN x)).1

theorem ι_coefL {N : ℕ} (hN : 0 < N) (x : Ks.R N) : Ks.ι N (coefL N x) = x := by
  unfold coefL; rw [dif_pos hN]; exact (Classical.choose_spec (ι_surj N hN x)).2

theorem coefL_ι {N : ℕ} (hN : 0 < N) (p : Poly) (hp : p.length = N) : coefL N (Ks.ι N p) = p :=
  ι_inj N hN _ _ (coefL_length hN _) hp (ι_coefL hN _)

/-- centred residues of a coefficient list -/
def cmod (M : ℕ) (l : Poly) : Poly := l.map (fun c => Int.bmod c M)

theorem abs_bmod_le (z : ℤ) (M : ℕ) : |Int.bmod z M| ≤ |z| := by
  have := natAbs_bmod_le z M
  rw [Int.abs_eq_natAbs, Int.abs_eq_natAbs]; exact_mod_cast this

theorem abs_bmod_neg (z : ℤ) (M : ℕ) : |Int.bmod (-z) M| = |Int.bmod z M| := by
  have := natAbs_bmod_neg z M
  rw [Int.abs_eq_natAbs, Int.abs_eq_natAbs]; exact_mod_cast congrArg (fun n : ℕ => (n : ℤ)) this

theorem abs_bmod_add (x y : ℤ) (M : ℕ) : |Int.bmod (x + y) M| ≤ |Int.bmod x M| + |Int.bmod y M| := by
  have := natAbs_bmod_add x y M
  rw [Int.abs_eq_natAbs, Int.abs_eq_natAbs, Int.abs_eq_natAbs]; exact_mod_cast this

/-- `ν_M(x)`: the largest centred residue modulo `M` of the coefficients of `x` -/
noncomputable def nu (M N : ℕ) (x : Ks.R N) : ℤ := normInf (cmod M (coefL N x))

theorem nu_le_of_coef {M N : ℕ} (hN : 0 < N) (x : Ks.R N) (B : ℤ) (hB : 0 ≤ B)
    (h : ∀ k, k < N → |Int.bmod ((coefL N x).getD k 0) M| ≤ B) : nu M N x ≤ B := by
  unfold nu cmod
  apply normInf_le_of_forall _ hB
  intro y hy
  obtain ⟨c, hc, rfl⟩ := List.mem_map.mp hy
  obtain ⟨k, hk, rfl⟩ := List.mem_iff_getElem.mp hc
  have := h k (by rw [← coefL_length hN x]; exact hk)
  rwa [List.getD_eq_getElem?_getD, List.getElem?_eq_getElem hk, Option.getD_some] at this

theorem coef_le_nu {M N : ℕ} (x : Ks.R N) (k : ℕ) : |Int.bmod ((coefL N x).getD k 0) M| ≤ nu M N x := by
  unfold nu cmod
  by_cases hk : k < (coefL N x).length
  · have := abs_getD_le_normInf ((coefL N x).map (fun c => Int.bmod c M)) k
    rwa [List.getD_eq_getElem?_getD, List.getElem?_map, List.getElem?_eq_getElem hk, Option.map_some, Option.getD_some,
      ← Option.getD_some (a := (coefL N x)[k]) (b := 0), ← List.getElem?_eq_getElem hk, ← List.getD_eq_getElem?_getD] at this
  · rw [List.getD_eq_getElem?_getD, List.getElem?_eq_none (by omega)]
    simpa using normInf_nonneg _

theorem coefL_add {N : ℕ} (hN : 0 < N) (x y : Ks.R N) : coefL N (x + y) = polyAdd (coefL N x) (coefL N y) := by
  apply ι_inj N hN _ _ (coefL_length hN _) (by simp [polyAdd, coefL_length hN])
  rw [ι_coefL hN, Ks.ι_add N _ _ (by rw [coefL_length hN, coefL_length hN]), ι_coefL hN, ι_coefL hN]

theorem coefL_neg {N : ℕ} (hN : 0 < N) (x : Ks.R N) : coefL N (-x) = polyScale (-1) (coefL N x) := by
  apply ι_inj N hN _ _ (coefL_length hN _) (by simp [polyScale, coefL_length hN])
  rw [ι_coefL hN, Ks.ι_polyScale, ι_coefL hN]; push_cast; ring

theorem coefL_zero {N : ℕ} (hN : 0 < N) : coefL N (0 : Ks.R N) = zeroP N := by
  apply ι_inj N hN _ _ (coefL_length hN _) (by simp [zeroP])
  rw [ι_coefL hN, Ks.ι_zero]

theorem coefL_rt_mul {N : ℕ} (hN : 0 < N) (x : Ks.R N) : coefL N (rt N * x) = _root_.mulX (coefL N x) := by
  have hl : (_root_.mulX (coefL N x)).length = N := by
    have h := coefL_length hN x
    rcases List.eq_nil_or_concat (coefL N x) with e | ⟨init, z, e⟩
    · rw [e] at h; simp at h; omega
    · rw [e, List.concat_eq_append] at h ⊢
      simp [_root_.mulX] at h ⊢; omega
  apply ι_inj N hN _ _ (coefL_length hN _) hl
  rw [ι_coefL hN]
  have := mk_mulX N (coefL N x) (coefL_length hN x) hN
  unfold Ks.ι
  rw [this]
  show rt N * x = rt N * Ks.ι N (coefL N x)
  rw [ι_coefL hN]

theorem getD_polyAdd' (a b : Poly) (h : a.length = b.length) (k : ℕ) : (polyAdd a b).getD k 0 = a.getD k 0 + b.getD k 0 := by
  unfold polyAdd
  simp only [List.getD_eq_getElem?_getD, List.getElem?_zipWith]
  by_cases hk : k < a.length
  · rw [List.getElem?_eq_getElem hk, List.getElem?_eq_getElem (h ▸ hk)]; rfl
  · rw [List.getElem?_eq_none (by omega), List.getElem?_eq_none (by omega)]; rfl

theorem getD_polyScale' (c : ℤ) (a : Poly) (k : ℕ) : (polyScale c a).getD k 0 = c * a.getD k 0 := by
  unfold polyScale
  simp only [List.getD_eq_getElem?_getD, List.getElem?_map]
  by_cases hk : k < a.length
  · rw [List.getElem?_eq_getElem hk]; rfl
  · rw [List.getElem?_eq_none (by omega)]; simp

/-- `map f (mulX l)` and `map f l` have the same `∞`-norm when `|f(−z)| = |f z|` -/
theorem normInf_map_mulX (f : ℤ → ℤ) (hf : ∀ z, |f (-z)| = |f z|) (l : Poly) : normInf ((_root_.mulX l).map f) = normInf (l.map f) := by
  rcases List.eq_nil_or_concat l with e | ⟨init, z, e⟩
  · subst e; simp [_root_.mulX]
  · subst e
    rw [List.concat_eq_append]
    have : _root_.mulX (init ++ [z]) = (-z) :: init := by simp [_root_.mulX]
    rw [this, List.map_cons, normInf_cons, List.map_append, normInf_append, List.map_cons, List.map_nil, normInf_cons, normInf_nil, hf]
    rw [max_comm]
    congr 1
    exact (max_eq_left (abs_nonneg _)).symm

/-- the error measure on `ℤ[X]/(X^N+1)` modulo `M` -/
noncomputable def size (M N : ℕ) (hN : 0 < N) : Size (Ks.R N) where
  ν := nu M N
  nonneg := fun _ => normInf_nonneg _
  zero := by
    unfold nu cmod
    rw [coefL_zero hN]
    have : (zeroP N).map (fun c => Int.bmod c M) = zeroP N := by simp [zeroP]
    rw [this, normInf_zeroP]
  add_le := by
    intro x y
    have hB : 0 ≤ nu M N x + nu M N y := add_nonneg (normInf_nonneg _) (normInf_nonneg _)
    apply nu_le_of_coef hN _ _ hB
    intro k _
    rw [coefL_add hN, getD_polyAdd' _ _ (by rw [coefL_length hN, coefL_length hN])]
    have h1 := abs_bmod_add ((coefL N x).getD k 0) ((coefL N y).getD k 0) M
    have h2 := coef_le_nu (M := M) x k
    have h3 := coef_le_nu (M := M) y k
    linarith
  neg := by
    intro x
    apply le_antisymm
    · apply nu_le_of_coef hN _ _ (normInf_nonneg _)
      intro k _
      rw [coefL_neg hN, getD_polyScale', neg_one_mul, abs_bmod_neg]
      exact coef_le_nu x k
    · apply nu_le_of_coef hN _ _ (normInf_nonneg _)
      intro k _
      have := coef_le_nu (M := M) (-x) k
      rw [coefL_neg hN, getD_polyScale', neg_one_mul, abs_bmod_neg] at this
      exact this

theorem nu_rt_mul {M N : ℕ} (hN : 0 < N) (x : Ks.R N) : nu M N (rt N * x) = nu M N x := by
  unfold nu cmod
  rw [coefL_rt_mul hN]
  exact normInf_map_mulX (fun c => Int.bmod c M) (fun z => abs_bmod_neg z M) _

theorem nu_rt_pow_mul {M N : ℕ} (hN : 0 < N) (k : ℕ) (x : Ks.R N) : nu M N (rt N ^ k * x) = nu M N x := by
  induction k with
  | zero => simp
  | succ k ih => rw [pow_succ', mul_assoc, nu_rt_mul hN, ih]

/-- exponent of `X^a`, `a ∈ ℤ`: `a mod 2N` -/
def xexp (N : ℕ) (a : ℤ) : ℕ := (a % ((2 * N : ℕ) : ℤ)).toNat

/-- the monomials `X^a` (`X^{2N} = 1`) -/
noncomputable def mono (M N : ℕ) (hN : 0 < N) : Mono (Ks.R N) (size M N hN) where
  X := fun a => rt N ^ xexp N a
  X_zero := by simp [xexp]
  X_add := by
    intro a b
    have hm : (0 : ℤ) < ((2 * N : ℕ) : ℤ) := by exact_mod_cast (by omega : 0 < 2 * N)
    rw [← pow_add, rt_pow_mod N (xexp N a + xexp N b)]
    congr 1
    unfold xexp
    have ha := Int.emod_nonneg a (ne_of_gt hm)
    have hb := Int.emod_nonneg b (ne_of_gt hm)
    have hab := Int.emod_nonneg (a + b) (ne_of_gt hm)
    push_cast at ha hb hab
    zify
    rw [Int.toNat_of_nonneg ha, Int.toNat_of_nonneg hb, Int.toNat_of_nonneg hab, ← Int.add_emod]
  isom := fun a x => nu_rt_pow_mul hN _ x

/-- an element `ι E + M·y` has measure at most `‖E‖_∞` -/
theorem nu_le_of_repr {M N : ℕ} (hN : 0 < N) (x y : Ks.R N) (E : Poly) (hE : E.length = N)
    (h : x = Ks.ι N E + ((M : ℤ) : Ks.R N) * y) : nu M N x ≤ normInf E := by
  obtain ⟨q, hq, rfl⟩ := ι_surj N hN y
  have hx : x = Ks.ι N (polyAdd E (polyScale (M : ℤ) q)) := by
    rw [Ks.ι_add N _ _ (by simp [polyScale, hE, hq]), Ks.ι_polyScale]; exact h
  apply nu_le_of_coef hN _ _ (normInf_nonneg _)
  intro k _
  rw [hx, coefL_ι hN _ (by simp [polyAdd, polyScale, hE, hq]), getD_polyAdd' _ _ (by simp [polyScale, hE, hq]), getD_polyScale',
    Int.add_mul_bmod_self_left]
  exact le_trans (abs_bmod_le _ _) (abs_getD_le_normInf E k)

/-- from the measure back to coefficients: every coefficient is `e + M·q` with `|e| ≤ B` -/
theorem coef_of_nu {M N : ℕ} (x : Ks.R N) (B : ℤ) (h : nu M N x ≤ B) (k : ℕ) :
    ∃ e q : ℤ, (coefL N x).getD k 0 = e + (M : ℤ) * q ∧ |e| ≤ B := by
  refine ⟨Int.bmod ((coefL N x).getD k 0) M, Int.bdiv ((coefL N x).getD k 0) M, ?_, le_trans (coef_le_nu x k) h⟩
  have := Int.bmod_add_bdiv ((coefL N x).getD k 0) M; linarith

theorem coefL_sub {N : ℕ} (hN : 0 < N) (x y : Ks.R N) (k : ℕ) :
    (coefL N (x - y)).getD k 0 = (coefL N x).getD k 0 - (coefL N y).getD k 0 := by
  rw [sub_eq_add_neg, coefL_add hN, getD_polyAdd' _ _ (by rw [coefL_length hN, coefL_length hN]), coefL_neg hN, getD_polyScale']
  ring

theorem coefL_scale_ι {N : ℕ} (hN : 0 < N) (c : ℤ) (a : Poly) (ha : a.length = N) (k : ℕ) :
    (coefL N ((c : Ks.R N) * Ks.ι N a)).getD k 0 = c * a.getD k 0 := by
  rw [← Ks.ι_polyScale, coefL_ι hN _ (by simp [polyScale, ha]), getD_polyScale']

end RingNu
