import Poulpy.Lemmas.CkksMulPt
/-!
The convolution + normalisation stage on coefficients, for **arbitrary** operand columns (`MulPt.mulPlain_coeff` is the
instance "prepared operand × prepared plaintext"; the tensor product uses it on the prepared columns and on their sums,
`cnv_pairwise_apply_dft`).
-/

namespace Ckks.Cnv
open Hal Core Core.Ops C02L KsDec Ks Finset Ckks.MulPt

/-- `cnv_apply_dft(hi, xᵢ, y)` + `vec_znx_big_normalize(lo)` for every column `xᵢ` of a list, on coefficients -/
theorem cnvList_coeff (N : Nat) (hN : 0 < N) (big : Bool) (b rs cnv : Nat) (hb1 : 1 ≤ b) (hb62 : b ≤ 62)
    (x0 : Col) (xs : List Col) (y : Col) (sa : Nat)
    (h0 : x0.length = sa) (hall : ∀ x ∈ xs, x.length = sa) (hx0 : ∀ l ∈ x0, l.length = N) (hxs : ∀ x ∈ xs, ∀ l ∈ x, l.length = N)
    (hy : ∀ l ∈ y, l.length = N) (hsa : 1 ≤ sa) (hsb : 1 ≤ y.length) (hhi : (cnvOffsetSplit b cnv).1 ≤ sa + y.length - 1)
    (H : Int) (hH0 : 0 ≤ H) (hH : H + 8 ≤ 2 ^ (bitsOf big - 2))
    (hacc : ∀ c ∈ (x0 :: xs).map (fun x =>
        Hal.cnvApplyCol N (sa + y.length - (cnvOffsetSplit b cnv).1) (cnvOffsetSplit b cnv).1 x y), ∀ l ∈ c, ∀ x ∈ l, |x| ≤ H) :
    ∃ res, (x0 :: xs).mapM (fun x => cnvNorm big N b rs b (sa + y.length - (cnvOffsetSplit b cnv).1) (cnvOffsetSplit b cnv).1
        (cnvOffsetSplit b cnv).2 x y) = some res ∧ res.length = xs.length + 1 ∧
      (∀ c ∈ res, ColWF N rs c) ∧ (∀ c ∈ res, ∀ l ∈ c, ∀ x ∈ l, |x| ≤ 2 ^ b - 1) ∧
      ∀ (s : List Poly) t, t < N → ∃ q e : Int,
        2 ^ (b * (sa + y.length) + (-(cnvOffsetSplit b cnv).2).toNat) * valCoeff b (phase s (Ks.mkCt b N res)) t
          = 2 ^ (cnv + (-(cnvOffsetSplit b cnv).2).toNat) * 2 ^ (b * rs) *
              (Hal.negMul (valP b N (phase s (Ks.mkCt b N (x0 :: xs)))) (valP b N y)).getD t 0
            + e + q * 2 ^ (b * rs + (b * (sa + y.length) + (-(cnvOffsetSplit b cnv).2).toNat)) ∧
        |e| ≤ (1 + snorm (min xs.length s.length) s) * 2 ^ (b * (sa + y.length) + (-(cnvOffsetSplit b cnv).2).toNat) := by
  set hi := (cnvOffsetSplit b cnv).1 with hhidef
  set lo := (cnvOffsetSplit b cnv).2 with hlodef
  set F := sa + y.length - hi with hF
  set W := (x0 :: xs).map (fun x => Hal.cnvApplyCol N F hi x y) with hW
  have hWwf : ∀ c ∈ W, ColWF N F c := by
    intro c hc
    obtain ⟨x, _, rfl⟩ := List.mem_map.mp hc
    exact cnvApplyCol_wf N F hi x y hy
  have hWne : W ≠ [] := by simp [hW]
  obtain ⟨cs, hok, hlen, hcswf, hdig, hv⟩ := NormOff.norm_stage_off big N b rs b F lo H W hb1 hb62 hb1 hb62 hH0 hH hWne hWwf hacc
  have hmul : (x0 :: xs).mapM (fun x => cnvNorm big N b rs b F hi lo x y) = some cs := by
    unfold cnvNorm
    rw [mapM_comp (fun x => Hal.cnvApplyCol N F hi x y) (fun c => Core.bigNormalizeOff big N b rs lo c b)]
    exact hok
  refine ⟨cs, hmul, by rw [hlen]; simp [hW], hcswf, hdig, fun s t ht => ?_⟩
  obtain ⟨q, e, hrel, he⟩ := hv s t ht
  obtain ⟨T, _, hT0, hacc'⟩ := acc_coeff N hN b s x0 xs y hi sa h0 hall hx0 hxs hy hsa hsb hhi
  have hXW := hacc' t ht
  have hWlen : W.length - 1 = xs.length := by simp [hW]
  rw [hWlen] at he
  set X' := valCoeff b (phase s (Ks.mkCt b N cs)) t
  set XW := valCoeff b (phase s (Ks.mkCt b N W)) t
  set Z := (Hal.negMul (valP b N (phase s (Ks.mkCt b N (x0 :: xs)))) (valP b N y)).getD t 0
  have hFhi : F + hi = sa + y.length := by omega
  rcases split_cases b cnv (by omega) with ⟨hc1, hz⟩ | ⟨hh0, hp0, hc2⟩
  · rw [← hlodef] at hz hc1
    rw [hz] at hrel he ⊢
    simp only [Nat.add_zero] at hrel he ⊢
    refine ⟨q - 2 ^ lo.toNat * T.getD t 0, e * 2 ^ (b * hi), ?_, ?_⟩
    · have e1 : (2 : Int) ^ (b * (sa + y.length)) = 2 ^ (b * F) * 2 ^ (b * hi) := by rw [← pow_add, ← Nat.mul_add, hFhi]
      have e2 : (2 : Int) ^ cnv = 2 ^ lo.toNat * 2 ^ (b * hi) * 2 ^ b := by
        rw [← pow_add, ← pow_add]; congr 1; rw [← hc1, ← hhidef]; ring
      have e3 : (2 : Int) ^ (b * rs + b * (sa + y.length)) = 2 ^ (b * rs) * (2 ^ (b * F) * 2 ^ (b * hi)) := by rw [pow_add, e1]
      have e4 : (2 : Int) ^ (b * rs + b * F) = 2 ^ (b * rs) * 2 ^ (b * F) := pow_add _ _ _
      rw [e1, e2, e3]
      rw [e4] at hrel
      linear_combination (2 ^ (b * hi)) * hrel + (2 ^ lo.toNat * 2 ^ (b * rs) * 2 ^ (b * hi)) * hXW
    · rw [abs_mul, abs_of_pos (by positivity : (0 : Int) < 2 ^ (b * hi))]
      have e1 : (2 : Int) ^ (b * (sa + y.length)) = 2 ^ (b * F) * 2 ^ (b * hi) := by rw [← pow_add, ← Nat.mul_add, hFhi]
      rw [e1]
      calc |e| * 2 ^ (b * hi) ≤ (1 + snorm (min xs.length s.length) s) * 2 ^ (b * F) * 2 ^ (b * hi) := by gcongr
        _ = _ := by ring
  · rw [← hhidef] at hh0
    rw [← hlodef] at hp0 hc2
    have hFe : F = sa + y.length := by omega
    have hT := hT0 hh0 t
    rw [hT, mul_zero, add_zero] at hXW
    rw [hp0, hFe] at hrel
    rw [hFe] at he
    refine ⟨q, e, ?_, he⟩
    have e2 : (2 : Int) ^ (cnv + (-lo).toNat) = 2 ^ b := by rw [hc2]
    rw [e2]
    simp only [pow_zero, one_mul] at hrel
    linear_combination hrel + (2 ^ (b * rs)) * hXW

/-- balanced digits of the convolution + normalisation stage -/
theorem cnvList_balanced (N : Nat) (big : Bool) (b rs F hi : Nat) (lo : Int) (hb1 : 1 ≤ b) (hb62 : b ≤ 62) (L : List Col) (y : Col)
    (H : Int) (hH0 : 0 ≤ H) (hH : H + 8 ≤ 2 ^ (bitsOf big - 2))
    (hacc : ∀ c ∈ L.map (fun x => Hal.cnvApplyCol N F hi x y), ∀ l ∈ c, ∀ x ∈ l, |x| ≤ H) (res : List Col)
    (h : L.mapM (fun x => cnvNorm big N b rs b F hi lo x y) = some res) :
    ∀ c ∈ res, ∀ l ∈ c, ∀ x ∈ l, |x| ≤ 2 ^ (b - 1) := by
  unfold cnvNorm at h
  rw [mapM_comp (fun x => Hal.cnvApplyCol N F hi x y) (fun c => Core.bigNormalizeOff big N b rs lo c b)] at h
  exact NormOff.norm_stage_balanced big N b rs lo H _ res hb1 hb62 hH0 hH hacc h

end Ckks.Cnv
