import Poulpy.Lemmas.CnvModel

/-! `glwe_mul_const_assign`: the accumulator has only `res.size` limbs; it is the truncation of the full constant convolution
(`cnv_by_const_apply` computes limb `k` independently of the result size), so its value is the full value minus the explicit dropped limbs. -/

namespace Core
open Hal Ks Finset

theorem cnvByConstCol_take (n R F hi : Nat) (x : Col) (b : List Int) (h : R ≤ F) :
    cnvByConstCol n R hi x b = (cnvByConstCol n F hi x b).take R := by
  unfold cnvByConstCol
  rw [← List.map_take, List.take_range, Nat.min_eq_left h]
  apply List.map_congr_left
  intro k hk
  have hk' : k < R := List.mem_range.mp hk
  by_cases h1 : k < x.length + b.length - 1
  · rw [if_pos (by omega), if_pos (by omega)]
  · rw [if_neg (by omega), if_neg (by omega)]

theorem limbOr0_take (n R : Nat) (c : Col) (k : Nat) (hk : k < R) : limbOr0 n (c.take R) k = limbOr0 n c k := by
  unfold limbOr0
  simp only [List.getD_eq_getElem?_getD, List.getElem?_take, hk, if_true]

theorem sum_trunc_split {A : Type*} [CommRing A] (β : A) (R F : ℕ) (h : R ≤ F) (f : ℕ → A) :
    ∑ k ∈ range F, f k * β ^ (F - 1 - k)
      = β ^ (F - R) * ∑ k ∈ range R, f k * β ^ (R - 1 - k) + ∑ k ∈ Ico R F, f k * β ^ (F - 1 - k) := by
  rw [Finset.range_eq_Ico, ← Finset.sum_Ico_consecutive _ (Nat.zero_le R) h, Finset.mul_sum]
  congr 1
  rw [← Finset.range_eq_Ico]
  apply Finset.sum_congr rfl
  intro k hk
  have hk' : k < R := Finset.mem_range.mp hk
  have e : F - 1 - k = (F - R) + (R - 1 - k) := by omega
  rw [e, pow_add]; ring

/-- **assign form** (`R = res.size ≤ F = a.size + b.len − hi`): the phase of the `R`-limb accumulator, rescaled, plus the explicit dropped limbs
`R ≤ k < F` of the full convolution, plus the skipped top limbs, is `β · val(phase a) · val(b)`. -/
theorem mulConstAssign_phase_value (N : Nat) (hN : 0 < N) (sk : List Poly) (a0 : Col) (as : List Col) (b : List Int) (hi sa R : Nat) (β : Ks.R N)
    (h0 : a0.length = sa) (hall : ∀ x ∈ as, x.length = sa) (hx0 : ∀ l ∈ a0, l.length = N) (hxs : ∀ x ∈ as, ∀ l ∈ x, l.length = N)
    (hsa : 1 ≤ sa) (hsb : 1 ≤ b.length) (hhi : hi ≤ sa + b.length - 1) (hR : R ≤ sa + b.length - hi) :
    β ^ (sa + b.length - hi - R) * ∑ k ∈ range R,
        ι N (phaseRow sk (((a0 :: as).map (fun x => cnvByConstCol N R hi x b)).map (fun col => limbOr0 N col k))) * β ^ (R - 1 - k)
      + ∑ k ∈ Ico R (sa + b.length - hi),
        ι N (phaseRow sk (((a0 :: as).map (fun x => cnvByConstCol N (sa + b.length - hi) hi x b)).map (fun col => limbOr0 N col k)))
          * β ^ (sa + b.length - hi - 1 - k)
      + β ^ (sa + b.length - hi) * (constTop N β a0 b hi
          + ∑ i ∈ range (min sk.length as.length), ι N (sk.getD i []) * constTop N β (as.getD i []) b hi)
      = β * (colVal N β a0 + ∑ i ∈ range (min sk.length as.length), ι N (sk.getD i []) * colVal N β (as.getD i [])) * constVal N β b := by
  rw [← mulConst_phase_value N hN sk a0 as b hi sa β h0 hall hx0 hxs hsa hsb hhi,
    sum_trunc_split β R (sa + b.length - hi) hR]
  congr 3
  apply Finset.sum_congr rfl
  intro k hk
  have hk' : k < R := mem_range.mp hk
  congr 3
  rw [List.map_map, List.map_map]
  apply List.map_congr_left
  intro x _
  show limbOr0 N (cnvByConstCol N R hi x b) k = limbOr0 N (cnvByConstCol N (sa + b.length - hi) hi x b) k
  rw [cnvByConstCol_take N R _ hi x b hR, limbOr0_take N R _ k hk']

end Core
