import Poulpy.Lemmas.AvxNtt
import Poulpy.Lemmas.NttTable
/-
C10: from the lane theorems of `Lemmas/AvxNtt.lean` to whole kernels of the NTT120 AVX2 back end:
the 4-lanes-per-word loop, the row loops of the product kernels, and the level schedules of `ntt_avx2` / `intt_avx2`.
-/
namespace Avx.Ntt
open Avx Ntt120

/-! ### the 4-lane loop -/

theorem loop4_eq_mapIdx {α β : Type} (f : Nat → α → β) :
    ∀ (n : Nat) (l : List α), l.length = 4 * n → loop4 f l = l.mapIdx (fun i x => f (i % 4) x) := by
  intro n
  induction n with
  | zero => intro l hl; have : l = [] := List.length_eq_zero_iff.mp (by omega); subst this; rfl
  | succ n ih =>
    intro l hl
    match l, hl with
    | a :: b :: c :: d :: rest, hl =>
      have hr : rest.length = 4 * n := by simp only [List.length_cons] at hl; omega
      simp only [loop4, List.mapIdx_cons, ih rest hr]
      refine congrArg _ (congrArg _ (congrArg _ (congrArg _ ?_)))
      apply List.ext_getElem (by simp)
      intro i h1 h2
      simp only [List.getElem_mapIdx]
      congr 1
      omega

/-- the generic whole-array statement: if lane function `f k` agrees (through a reading `φ` of the result) with a scalar function
`g k` on every operand allowed at lane `k`, the AVX loop over the flat array is the reference's element-wise loop
`res[4·j + k] = g k (a[4·j + k])` -/
theorem loop4_lift {α β γ : Type} (f : Nat → α → β) (g : Nat → α → γ) (φ : β → γ) (P : Nat → α → Prop)
    (h : ∀ k x, k < 4 → P k x → φ (f k x) = g k x) (n : Nat) (l : List α) (hl : l.length = 4 * n)
    (hP : ∀ i (hi : i < l.length), P (i % 4) l[i]) :
    (loop4 f l).map φ = l.mapIdx (fun i x => g (i % 4) x) := by
  rw [loop4_eq_mapIdx f n l hl]
  apply List.ext_getElem (by simp)
  intro i h1 h2
  simp only [List.getElem_map, List.getElem_mapIdx]
  have hi : i < l.length := by simpa using h1
  exact h (i % 4) l[i] (Nat.mod_lt _ (by decide)) (hP i hi)

/-! ### the row loops of the product kernels -/

/-- the `(x_lo, x_hi, y_lo, y_hi)` halves the reference reads from one row (`u32` view of the q120b / q120c words) -/
def termOf (p : W × W) : Term := (p.1.toNat &&& m32, p.1.toNat >>> 32, p.2.toNat &&& m32, p.2.toNat >>> 32)

theorem termOf_u32 (p : W × W) : (termOf p).u32 := by
  unfold termOf Term.u32
  simp only [land_m32]
  exact ⟨half_lt _, hi_lt p.1, half_lt _, hi_lt p.2⟩

theorem bbc_fold_eq (rows : List (W × W)) :
    ∀ s : W × W,
      ((rows.foldl (fun s p => bbcStep s p.1 p.2) s).1.toNat, (rows.foldl (fun s p => bbcStep s p.1 p.2) s).2.toNat)
        = (rows.map termOf).foldl (fun s t => accumMulBcK s t.1 t.2.1 t.2.2.1 t.2.2.2) (s.1.toNat, s.2.toNat) := by
  induction rows with
  | nil => intro s; rfl
  | cons p rows ih =>
    intro s
    simp only [List.foldl_cons, List.map_cons]
    rw [ih (bbcStep s p.1 p.2), bbcStep_eq s p.1 p.2]
    rfl

/-- **whole BBC kernel, one prime lane**: for `ell` rows of arbitrary 64-bit words with `ell·2^33 < 2^(32+h)` and `h ≤ 32`
(the crate has `h ∈ {25, 27}` and at most a few thousand rows), `vec_mat1col_product_bbc_avx2` (and each output word of the
`x2` / `2cols` variants) returns exactly the word of `vec_mat1col_product_bbc_ref` (`bbcK`) -/
theorem bbcLane_eq_ref (maskH h2 s2l s2h : W) (rows : List (W × W)) (hh : h2.toNat ≤ 32) (hm : maskH.toNat = maskOf h2.toNat)
    (hell : rows.length * 2 ^ 33 < 2 ^ (32 + h2.toNat)) (h1 : s2l.toNat < 2 ^ 32) (h2' : s2h.toNat < 2 ^ 32) :
    (bbcLane maskH h2 s2l s2h rows).toNat = bbcK h2.toNat s2l.toNat s2h.toNat (rows.map termOf) := by
  have hf := bbc_fold_eq rows (0#64, 0#64)
  have hts : ∀ t ∈ rows.map termOf, t.u32 := by
    intro t ht
    obtain ⟨p, _, rfl⟩ := List.mem_map.mp ht
    exact termOf_u32 p
  have hlen : (rows.map termOf).length = rows.length := List.length_map _
  have h64 : (2 : Nat) ^ (32 + h2.toNat) ≤ 2 ^ 64 := Nat.pow_le_pow_right (by decide) (by omega)
  have hacc := accum_fold (rows.map termOf) hts (0, 0) (by rw [hlen]; simp only []; omega) (by rw [hlen]; simp only []; omega)
  have hhi := sumHi_le (rows.map termOf) hts
  rw [hlen] at hhi
  simp only [BitVec.toNat_ofNat, Nat.zero_mod] at hf
  rw [hacc] at hf
  have e1 := congrArg Prod.fst hf
  have e2 := congrArg Prod.snd hf
  simp only [Nat.zero_add] at e1 e2
  unfold bbcLane bbcK
  simp only []
  rw [reduceBbc_eq _ _ maskH h2 s2l s2h hh hm (by rw [e2]; omega) h1 h2', hacc]
  simp only [Nat.zero_add, e1, e2]

theorem bbb_fold_eq (rows : List (W × W)) :
    ∀ s : W × W × W × W,
      (let r := rows.foldl (fun s p => bbbStep s p.1 p.2) s
       (r.1.toNat, r.2.1.toNat, r.2.2.1.toNat, r.2.2.2.toNat))
        = (rows.map (fun p => (p.1.toNat, p.2.toNat))).foldl (fun s t => bbbAccK s t.1 t.2) (s.1.toNat, s.2.1.toNat, s.2.2.1.toNat, s.2.2.2.toNat) := by
  induction rows with
  | nil => intro s; rfl
  | cons p rows ih =>
    intro s
    simp only [List.foldl_cons, List.map_cons]
    have := ih (bbbStep s p.1 p.2)
    simp only [] at this
    rw [this, bbbStep_eq s p.1 p.2]

theorem wu64_le (x : Nat) : wu64 x ≤ x := Nat.mod_le _ _
theorem wu64_lt (x : Nat) : wu64 x < 2 ^ 64 := Nat.mod_lt _ (by decide)
theorem shr32_lt (x : Nat) (h : x < 2 ^ 64) : x >>> 32 < 2 ^ 32 := by
  rw [Nat.shiftRight_eq_div_pow]; exact Nat.div_lt_of_lt_mul (by omega)
theorem and32_lt (x : Nat) : x &&& m32 < 2 ^ 32 := by rw [land_m32]; exact half_lt _

/-- every accumulator of the BBB loop grows by less than `3·2^32` per row -/
theorem bbbAccK_bound (s : Nat × Nat × Nat × Nat) (x y B : Nat)
    (h1 : s.1 ≤ B) (h2 : s.2.1 ≤ B) (h3 : s.2.2.1 ≤ B) (h4 : s.2.2.2 ≤ B) :
    (bbbAccK s x y).1 ≤ B + 3 * 2 ^ 32 ∧ (bbbAccK s x y).2.1 ≤ B + 3 * 2 ^ 32 ∧
    (bbbAccK s x y).2.2.1 ≤ B + 3 * 2 ^ 32 ∧ (bbbAccK s x y).2.2.2 ≤ B + 3 * 2 ^ 32 := by
  unfold bbbAccK
  simp only []
  generalize ha : wu64 ((x &&& m32) * (y &&& m32)) = a
  generalize hb : wu64 ((x &&& m32) * (y >>> 32)) = b
  generalize hc : wu64 ((x >>> 32) * (y &&& m32)) = c
  generalize hd : wu64 ((x >>> 32) * (y >>> 32)) = d
  have a64 : a < 2 ^ 64 := by rw [← ha]; exact wu64_lt _
  have a2 := shr32_lt a a64
  have b64 : b < 2 ^ 64 := by rw [← hb]; exact wu64_lt _
  have c64 : c < 2 ^ 64 := by rw [← hc]; exact wu64_lt _
  have d64 : d < 2 ^ 64 := by rw [← hd]; exact wu64_lt _
  have a1 := and32_lt a; have b1 := and32_lt b; have c1 := and32_lt c; have d1 := and32_lt d
  have b2 := shr32_lt b b64; have c2 := shr32_lt c c64; have d2 := shr32_lt d d64
  refine ⟨?_, ?_, ?_, ?_⟩
  · have := wu64_le (s.1 + (a &&& m32)); omega
  · have k1 := wu64_le (s.2.1 + wu64 (wu64 (a >>> 32 + (b &&& m32)) + (c &&& m32)))
    have k2 := wu64_le (wu64 (a >>> 32 + (b &&& m32)) + (c &&& m32))
    have k3 := wu64_le (a >>> 32 + (b &&& m32))
    omega
  · have k1 := wu64_le (s.2.2.1 + wu64 (wu64 (b >>> 32 + (c >>> 32)) + (d &&& m32)))
    have k2 := wu64_le (wu64 (b >>> 32 + (c >>> 32)) + (d &&& m32))
    have k3 := wu64_le (b >>> 32 + (c >>> 32))
    omega
  · have := wu64_le (s.2.2.2 + (d >>> 32)); omega

theorem bbb_fold_bound (ts : List (Nat × Nat)) :
    ∀ (s : Nat × Nat × Nat × Nat) (B : Nat), s.1 ≤ B → s.2.1 ≤ B → s.2.2.1 ≤ B → s.2.2.2 ≤ B →
      (let r := ts.foldl (fun s t => bbbAccK s t.1 t.2) s
       r.1 ≤ B + ts.length * (3 * 2 ^ 32) ∧ r.2.1 ≤ B + ts.length * (3 * 2 ^ 32) ∧
       r.2.2.1 ≤ B + ts.length * (3 * 2 ^ 32) ∧ r.2.2.2 ≤ B + ts.length * (3 * 2 ^ 32)) := by
  induction ts with
  | nil => intro s B h1 h2 h3 h4; simpa using ⟨h1, h2, h3, h4⟩
  | cons t ts ih =>
    intro s B h1 h2 h3 h4
    obtain ⟨k1, k2, k3, k4⟩ := bbbAccK_bound s t.1 t.2 B h1 h2 h3 h4
    have := ih (bbbAccK s t.1 t.2) (B + 3 * 2 ^ 32) k1 k2 k3 k4
    simp only [List.foldl_cons, List.length_cons] at this ⊢
    have e : B + 3 * 2 ^ 32 + ts.length * (3 * 2 ^ 32) = B + (ts.length + 1) * (3 * 2 ^ 32) := by ring
    rw [e] at this
    exact this

/-- **whole BBB kernel, one prime lane**: `vec_mat1col_product_bbb_avx2` = `vec_mat1col_product_bbb_ref` (`bbbK`) for `ell` rows of
arbitrary 64-bit words with `3·ell·2^32 < 2^(32+h)`, `h ≤ 32`, constants below `2^32` (the crate: `h = 24`) -/
theorem bbbLane_eq_ref (maskH h2 c1 c2 c3 c4 c5 c6 c7 : W) (rows : List (W × W)) (hh : h2.toNat ≤ 32)
    (hm : maskH.toNat = maskOf h2.toNat) (hell : rows.length * (3 * 2 ^ 32) < 2 ^ (32 + h2.toNat))
    (hc : ∀ x ∈ [c1, c2, c3, c4, c5, c6, c7], x.toNat < 2 ^ 32) :
    (bbbLane maskH h2 c1 c2 c3 c4 c5 c6 c7 rows).toNat
      = bbbK h2.toNat c1.toNat c2.toNat c3.toNat c4.toNat c5.toNat c6.toNat c7.toNat (rows.map (fun p => (p.1.toNat, p.2.toNat))) := by
  have hf := bbb_fold_eq rows (0#64, 0#64, 0#64, 0#64)
  simp only [BitVec.toNat_ofNat, Nat.zero_mod] at hf
  have hb := bbb_fold_bound (rows.map (fun p => (p.1.toNat, p.2.toNat))) (0, 0, 0, 0) 0 (le_refl _) (le_refl _) (le_refl _) (le_refl _)
  simp only [List.length_map, Nat.zero_add] at hb
  rw [← hf] at hb
  simp only [] at hb
  obtain ⟨b1, b2, b3, b4⟩ := hb
  unfold bbbLane bbbK
  rw [bbbFinal_eq maskH h2 c1 c2 c3 c4 c5 c6 c7 _ hm ⟨hh, by omega, by omega, by omega, by omega, hc⟩]
  rw [hf]

/-! ### `ntt_avx2`: blocks, levels, schedule -/

/-- a list of lanes read as `u64` values -/
abbrev tn (l : List W) : List Nat := l.map BitVec.toNat

def LevelC.toLevel (l : LevelC) : Level := (stepOf l.m l.bs, tn l.tw)

variable {q : Nat}

theorem fwdTailBV_eq (r : RedC) (hr : ReducOK q (redOf r)) (m : StepC) (bs M : Nat) (hM : M < 2 ^ 64)
    (ok : BflyOK q (stepOf m bs) (redBound (redOf r) m.reduce M)) :
    ∀ (tw lo hi : List W), tw.length = lo.length → lo.length = hi.length → AllLe M (tn lo) → AllLe M (tn hi) →
      (tw ≠ [] → SpmOK q (stepOf m bs) (redBound (redOf r) m.reduce M + m.q2bs.toNat)) →
      tn (fwdTailBV r m tw lo hi).1 = (fwdTail (redOf r) (stepOf m bs) (tn tw) (tn lo) (tn hi)).1 ∧
      tn (fwdTailBV r m tw lo hi).2 = (fwdTail (redOf r) (stepOf m bs) (tn tw) (tn lo) (tn hi)).2 := by
  intro tw
  induction tw with
  | nil => intro lo hi _ _ _ _ _; simp [fwdTailBV, fwdTail]
  | cons po tw ih =>
    intro lo hi h1 h2 hlo hhi hspm
    match lo, hi, h1, h2 with
    | a :: lo', b :: hi', h1, h2 =>
      have h1' : tw.length = lo'.length := by simpa using h1
      have h2' : lo'.length = hi'.length := by simpa using h2
      obtain ⟨haM, hlo'⟩ := AllLe.cons (by simpa using hlo : AllLe M (a.toNat :: tn lo'))
      obtain ⟨hbM, hhi'⟩ := AllLe.cons (by simpa using hhi : AllLe M (b.toNat :: tn hi'))
      have sp := hspm (by simp)
      obtain ⟨_, _, _, l2⟩ := bfly_spec (redOf r) hr (stepOf m bs) a.toNat b.toNat M haM hbM hM ok
      have hd := spmRange_of_ok q m bs _ _ sp l2
      have hl := fwdBflyI_eq r m bs a b po (redRange_of_ok q r m a hr) (redRange_of_ok q r m b hr) hd
      obtain ⟨i1, i2⟩ := ih lo' hi' h1' h2' hlo' hhi' (fun _ => sp)
      have e1 := congrArg Prod.fst hl
      have e2 := congrArg Prod.snd hl
      simp only [] at e1 e2
      simp only [fwdTailBV, fwdTail, List.map_cons, tn] at *
      exact ⟨by rw [e1, i1], by rw [e2, i2]; rfl⟩

theorem fwdBlockBV_eq (r : RedC) (hr : ReducOK q (redOf r)) (m : StepC) (bs M : Nat) (hM : M < 2 ^ 64)
    (ok : BflyOK q (stepOf m bs) (redBound (redOf r) m.reduce M)) (tw lo hi : List W)
    (h1 : tw.length + 1 = lo.length) (h2 : lo.length = hi.length) (hlo : AllLe M (tn lo)) (hhi : AllLe M (tn hi))
    (hspm : tw ≠ [] → SpmOK q (stepOf m bs) (redBound (redOf r) m.reduce M + m.q2bs.toNat)) :
    tn (fwdBlockBV r m tw lo hi).1 = (fwdBfly (redOf r) (stepOf m bs) (tn tw) (tn lo) (tn hi)).1 ∧
    tn (fwdBlockBV r m tw lo hi).2 = (fwdBfly (redOf r) (stepOf m bs) (tn tw) (tn lo) (tn hi)).2 := by
  match lo, hi, h1, h2 with
  | a :: lo', b :: hi', h1, h2 =>
    have h1' : tw.length = lo'.length := by simpa using h1
    have h2' : lo'.length = hi'.length := by simpa using h2
    obtain ⟨_, hlo'⟩ := AllLe.cons (by simpa using hlo : AllLe M (a.toNat :: tn lo'))
    obtain ⟨_, hhi'⟩ := AllLe.cons (by simpa using hhi : AllLe M (b.toNat :: tn hi'))
    have hl := bfly0_eq r m bs a b (redRange_of_ok q r m a hr) (redRange_of_ok q r m b hr)
    obtain ⟨i1, i2⟩ := fwdTailBV_eq r hr m bs M hM ok tw lo' hi' h1' h2' hlo' hhi' hspm
    have e1 := congrArg Prod.fst hl
    have e2 := congrArg Prod.snd hl
    simp only [] at e1 e2
    simp only [fwdBlockBV, fwdBfly, List.map_cons, tn] at *
    exact ⟨by rw [e1, i1], by rw [e2, i2]⟩

theorem tn_take (l : List W) (n : Nat) : tn (l.take n) = (tn l).take n := by simp [tn, List.map_take]
theorem tn_drop (l : List W) (n : Nat) : tn (l.drop n) = (tn l).drop n := by simp [tn, List.map_drop]
theorem tn_length (l : List W) : (tn l).length = l.length := by simp [tn]
theorem tn_append (a b : List W) : tn (a ++ b) = tn a ++ tn b := by simp [tn]

/-- **all forward levels of a block**: the BitVec network in the reference's depth-first order is C07's `nttLevels` on every input
vector bounded by `M`, under exactly C07's schedule check `fwdSchedOK` and twiddle condition `FwdTwOK` -/
theorem nttLevelsBV_eq (r : RedC) (hr : ReducOK q (redOf r)) :
    ∀ (lcs : List LevelC) (ρ : ZMod q) (M : Nat) (v : List W),
      fwdSchedOK q (redOf r) ((lcs.map LevelC.toLevel).map Prod.fst) M = true → FwdTwOK q ρ (lcs.map LevelC.toLevel) →
      v.length = 2 ^ lcs.length → AllLe M (tn v) →
      tn (nttLevelsBV r lcs v) = nttLevels (redOf r) (lcs.map LevelC.toLevel) (tn v) := by
  intro lcs
  induction lcs with
  | nil => intro ρ M v _ _ _ _; simp [nttLevelsBV, nttLevels]
  | cons l rest ih =>
    intro ρ M v hs ht hv hle
    simp only [List.map_cons, LevelC.toLevel, FwdTwOK] at ht
    obtain ⟨htl, htw, htrest⟩ := ht
    simp only [List.map_cons, LevelC.toLevel, fwdSchedOK, Bool.and_eq_true, decide_eq_true_eq, Bool.or_eq_true, List.isEmpty_map] at hs
    obtain ⟨⟨⟨⟨⟨⟨hM, h1⟩, h2⟩, h3⟩, h4⟩, h5⟩, hsrest⟩ := hs
    have hlenr : (rest.map LevelC.toLevel).length = rest.length := List.length_map _
    rw [hlenr] at htl
    have hemp : (tn l.tw).isEmpty = rest.isEmpty := by
      have := isEmpty_of_len (tn l.tw) rest htl
      exact this
    have hb : BflyOK q (stepOf l.m l.bs) (redBound (redOf r) l.m.reduce M) := ⟨h1, h2, h3, Nat.dvd_of_mod_eq_zero h4⟩
    have hspmN : tn l.tw ≠ [] → SpmOK q (stepOf l.m l.bs) (redBound (redOf r) l.m.reduce M + l.m.q2bs.toNat) := by
      intro hne
      have : rest.isEmpty = false := by rw [← hemp]; cases h : tn l.tw <;> simp_all
      rw [this] at h5
      simp only [Bool.false_eq_true, false_or] at h5
      exact ⟨h5.1.1.1, h5.1.1.2, h5.1.2, h5.2⟩
    have hspm : l.tw ≠ [] → SpmOK q (stepOf l.m l.bs) (redBound (redOf r) l.m.reduce M + l.m.q2bs.toNat) := by
      intro hne; apply hspmN; intro h; apply hne; simpa [tn] using h
    have hv' : v.length = 2 ^ (rest.length + 1) := by simpa using hv
    obtain ⟨_, hlo, hhi⟩ := NttMath.halves_length v rest.length hv'
    have hvn : (tn v).length = v.length := tn_length v
    have htwl : l.tw.length + 1 = 2 ^ rest.length := by rw [← tn_length l.tw]; exact htl
    obtain ⟨a1, a2⟩ := fwdBlockBV_eq r hr l.m l.bs M hM hb l.tw (v.take (v.length / 2)) (v.drop (v.length / 2))
      (by rw [hlo]; exact htwl) (by rw [hlo, hhi]) (by rw [tn_take]; exact hle.take _) (by rw [tn_drop]; exact hle.drop _) hspm
    obtain ⟨_, _, b1, b2, n1, n2⟩ := fwdBfly_spec (redOf r) hr (stepOf l.m l.bs) M hM hb ρ (tn l.tw) (tn (v.take (v.length / 2))) (tn (v.drop (v.length / 2)))
      (by simp only [tn_length]; rw [hlo]; exact htwl) (by simp only [tn_length]; rw [hlo, hhi]) (by rw [tn_take]; exact hle.take _) (by rw [tn_drop]; exact hle.drop _)
      hspmN htw
    rw [hemp] at b1 b2
    rw [← a1] at b1 n1
    rw [← a2] at b2 n2
    simp only [tn_length] at n1 n2
    rw [hlo] at n1 n2
    have j1 := ih (ρ * ρ) _ _ hsrest htrest n1 b1
    have j2 := ih (ρ * ρ) _ _ hsrest htrest n2 b2
    simp only [nttLevelsBV, nttLevels, tn_append, List.map_cons, LevelC.toLevel]
    rw [j1, j2, a1, a2, tn_take, tn_drop, hvn]

/-- the AVX schedule (level by level over a list of blocks) is the depth-first schedule applied to every block -/
theorem fwdLevelwise_eq (r : RedC) :
    ∀ (lcs : List LevelC) (bs : List (List W)), (fwdLevelwiseBV r lcs bs).flatten = bs.flatMap (nttLevelsBV r lcs) := by
  intro lcs
  induction lcs with
  | nil => intro bs; simp [fwdLevelwiseBV, nttLevelsBV, List.flatMap_def]
  | cons l ls ih =>
    intro bs
    simp only [fwdLevelwiseBV]
    rw [ih, fwdLevelBV, List.flatMap_assoc]
    apply List.flatMap_congr
    intro blk _
    simp [nttLevelsBV]

theorem fwdLevelwise_append (r : RedC) (l1 l2 : List LevelC) (bs : List (List W)) :
    fwdLevelwiseBV r (l1 ++ l2) bs = fwdLevelwiseBV r l2 (fwdLevelwiseBV r l1 bs) := by
  induction l1 generalizing bs with
  | nil => rfl
  | cons l ls ih => simp only [List.cons_append, fwdLevelwiseBV]; rw [ih]

/-- **`ntt_avx2` schedule lemma**: whatever the number `k` of by-level passes (`CHANGE_MODE_N`), the by-level-then-by-block order of
`ntt_avx2` computes the depth-first network -/
theorem nttAvx_schedule (r : RedC) (l0 : LevelC) (rest : List LevelC) (k : Nat) (v : List W) :
    nttAvx r (l0 :: rest) k v = nttLevelsBV r rest (List.zipWith (fun x po => splitPrecompmulSi256 x po l0.m.halfBs l0.m.mask) v l0.tw) := by
  unfold nttAvx
  simp only []
  generalize List.zipWith (fun x po => splitPrecompmulSi256 x po l0.m.halfBs l0.m.mask) v l0.tw = v0
  have h1 : ∀ blk : List W, (fwdLevelwiseBV r (rest.drop k) [blk]).flatten = nttLevelsBV r (rest.drop k) blk := by
    intro blk; rw [fwdLevelwise_eq]; simp
  simp only [h1]
  rw [← List.flatMap_def, ← fwdLevelwise_eq, ← fwdLevelwise_append, List.take_append_drop, fwdLevelwise_eq]
  simp

theorem tn_zipWith (f : W → W → W) (g : Nat → Nat → Nat) (h : ∀ x po, (f x po).toNat = g x.toNat po.toNat) :
    ∀ (v tw : List W), tn (List.zipWith f v tw) = List.zipWith g (tn v) (tn tw) := by
  intro v
  induction v with
  | nil => intro tw; simp [tn]
  | cons x xs ih =>
    intro tw
    cases tw with
    | nil => simp [tn]
    | cons po tw => simp only [List.zipWith_cons_cons, List.map_cons, tn] at *; rw [h, ih]

theorem allLe_u64 (v : List W) : AllLe (2 ^ 64 - 1) (tn v) := by
  intro x hx
  obtain ⟨w, _, rfl⟩ := List.mem_map.mp hx
  have := w.isLt; omega

/-- **`ntt_avx2`, one prime lane, whole transform**: for every table accepted by C07's `FwdTableOK` (proved there for the real
tables of all three prime sets, `2 ≤ n ≤ 2^16`), every split `k` and EVERY vector of 64-bit words, the AVX2 transform returns
exactly the words of `ntt_ref` (`nttK`) -/
theorem nttAvx_eq_nttK (r : RedC) (lcs : List LevelC) (k : Nat) (t : TableK) (ω : ZMod q) (ok : FwdTableOK q t ω)
    (ht : t.levels = lcs.map LevelC.toLevel) (hrd : t.reduc = redOf r) (v : List W) (hv : v.length = 2 ^ (lcs.length - 1)) :
    tn (nttAvx r lcs k v) = nttK t (tn v) := by
  obtain ⟨hr, hl⟩ := ok
  rw [hrd] at hr
  match lcs, ht, hv with
  | [], ht, _ => rw [ht] at hl; exact absurd hl (by simp)
  | l0 :: rest, ht, hv =>
    rw [ht] at hl
    simp only [List.map_cons, LevelC.toLevel] at hl
    obtain ⟨sp, htl, htw, hsched, htwr⟩ := hl
    rw [hrd] at hsched
    have hlenr : (rest.map LevelC.toLevel).length = rest.length := List.length_map _
    rw [hlenr] at htl
    have hv' : v.length = 2 ^ rest.length := by simpa using hv
    rw [nttAvx_schedule]
    unfold nttK
    rw [ht]
    simp only [List.map_cons, LevelC.toLevel]
    have hz : tn (List.zipWith (fun x po => splitPrecompmulSi256 x po l0.m.halfBs l0.m.mask) v l0.tw)
        = List.zipWith (fun x po => splitPrecompmul x po (stepOf l0.m l0.bs).halfBs (stepOf l0.m l0.bs).mask) (tn v) (tn l0.tw) := by
      apply tn_zipWith
      intro x po
      have hd := spmRange_of_ok q l0.m l0.bs (2 ^ 64 - 1) x.toNat sp (by have := x.isLt; omega)
      exact splitPrecompmul_eq x po l0.m.halfBs l0.m.mask hd.1 hd.2
    obtain ⟨_, b1, n1⟩ := twist_spec (stepOf l0.m l0.bs) (2 ^ 64 - 1) (2 ^ 64 - 1) sp ω id (fun x hx => ⟨rfl, hx⟩) (tn v) (tn l0.tw) 1
      (by simp only [tn_length]; rw [hv', ← htl, tn_length]) (allLe_u64 v) htw
    simp only [id] at b1 n1
    rw [← hz] at b1 n1
    rw [hrd, ← hz]
    exact nttLevelsBV_eq r hr rest (ω * ω) _ _ hsched htwr (by rw [← tn_length, n1, tn_length, hv']) b1

/-! ### `intt_avx2` -/

theorem invTailBV_eq (r : RedC) (hr : ReducOK q (redOf r)) (m : StepC) (bs M : Nat) (hM : M < 2 ^ 64) :
    ∀ (tw lo hi : List W), tw.length = lo.length → lo.length = hi.length → AllLe M (tn lo) → AllLe M (tn hi) →
      (tw ≠ [] → SpmOK q (stepOf m bs) (redBound (redOf r) m.reduce M)) →
      tn (invTailBV r m tw lo hi).1 = (invTail (redOf r) (stepOf m bs) (tn tw) (tn lo) (tn hi)).1 ∧
      tn (invTailBV r m tw lo hi).2 = (invTail (redOf r) (stepOf m bs) (tn tw) (tn lo) (tn hi)).2 := by
  intro tw
  induction tw with
  | nil => intro lo hi _ _ _ _ _; simp [invTailBV, invTail]
  | cons po tw ih =>
    intro lo hi h1 h2 hlo hhi hspm
    match lo, hi, h1, h2 with
    | a :: lo', b :: hi', h1, h2 =>
      have h1' : tw.length = lo'.length := by simpa using h1
      have h2' : lo'.length = hi'.length := by simpa using h2
      obtain ⟨_, hlo'⟩ := AllLe.cons (by simpa using hlo : AllLe M (a.toNat :: tn lo'))
      obtain ⟨hbM, hhi'⟩ := AllLe.cons (by simpa using hhi : AllLe M (b.toNat :: tn hi'))
      have sp := hspm (by simp)
      obtain ⟨_, lb⟩ := redIf_spec (redOf r) hr (stepOf m bs) b.toNat M hbM hM
      have hd := spmRange_of_ok q m bs _ _ sp lb
      have hl := invBflyI_eq r m bs a b po (redRange_of_ok q r m a hr) (redRange_of_ok q r m b hr) hd
      obtain ⟨i1, i2⟩ := ih lo' hi' h1' h2' hlo' hhi' (fun _ => sp)
      have e1 := congrArg Prod.fst hl
      have e2 := congrArg Prod.snd hl
      simp only [] at e1 e2
      simp only [invTailBV, invTail, List.map_cons, tn] at *
      exact ⟨by rw [e1, i1]; rfl, by rw [e2, i2]; rfl⟩

theorem invBlockBV_eq (r : RedC) (hr : ReducOK q (redOf r)) (m : StepC) (bs M : Nat) (hM : M < 2 ^ 64) (tw lo hi : List W)
    (h1 : tw.length + 1 = lo.length) (h2 : lo.length = hi.length) (hlo : AllLe M (tn lo)) (hhi : AllLe M (tn hi))
    (hspm : tw ≠ [] → SpmOK q (stepOf m bs) (redBound (redOf r) m.reduce M)) :
    tn (invBlockBV r m tw lo hi).1 = (invBfly (redOf r) (stepOf m bs) (tn tw) (tn lo) (tn hi)).1 ∧
    tn (invBlockBV r m tw lo hi).2 = (invBfly (redOf r) (stepOf m bs) (tn tw) (tn lo) (tn hi)).2 := by
  match lo, hi, h1, h2 with
  | a :: lo', b :: hi', h1, h2 =>
    have h1' : tw.length = lo'.length := by simpa using h1
    have h2' : lo'.length = hi'.length := by simpa using h2
    obtain ⟨_, hlo'⟩ := AllLe.cons (by simpa using hlo : AllLe M (a.toNat :: tn lo'))
    obtain ⟨_, hhi'⟩ := AllLe.cons (by simpa using hhi : AllLe M (b.toNat :: tn hi'))
    have hl := bfly0_eq r m bs a b (redRange_of_ok q r m a hr) (redRange_of_ok q r m b hr)
    obtain ⟨i1, i2⟩ := invTailBV_eq r hr m bs M hM tw lo' hi' h1' h2' hlo' hhi' hspm
    have e1 := congrArg Prod.fst hl
    have e2 := congrArg Prod.snd hl
    simp only [] at e1 e2
    simp only [invBlockBV, invBfly, List.map_cons, tn] at *
    exact ⟨by rw [e1, i1], by rw [e2, i2]⟩

/-- **all inverse levels of a block** (depth-first order, levels in block-size-descending order) = C07's `inttLevels` -/
theorem inttLevelsBV_eq (r : RedC) (hr : ReducOK q (redOf r)) :
    ∀ (lcs : List LevelC) (ρ : ZMod q) (M : Nat) (v : List W),
      invSchedOK q (redOf r) ((lcs.map LevelC.toLevel).map Prod.fst) M = true → InvTwOK q ρ (lcs.map LevelC.toLevel) →
      v.length = 2 ^ lcs.length → AllLe M (tn v) →
      tn (inttLevelsBV r lcs v) = inttLevels (redOf r) (lcs.map LevelC.toLevel) (tn v) := by
  intro lcs
  induction lcs with
  | nil => intro ρ M v _ _ _ _; simp [inttLevelsBV, inttLevels]
  | cons l rest ih =>
    intro ρ M v hs ht hv hle
    have hs0 := hs
    have ht0 := ht
    simp only [List.map_cons, LevelC.toLevel, InvTwOK] at ht
    obtain ⟨htl, htw, htrest⟩ := ht
    simp only [List.map_cons, LevelC.toLevel, invSchedOK, Bool.and_eq_true, decide_eq_true_eq, Bool.or_eq_true, List.isEmpty_map] at hs
    obtain ⟨⟨⟨⟨⟨⟨⟨hsrest, hM⟩, hH⟩, h1⟩, h2⟩, h3⟩, h4⟩, h5⟩ := hs
    have hlenr : (rest.map LevelC.toLevel).length = rest.length := List.length_map _
    rw [hlenr] at htl
    have hemp : (tn l.tw).isEmpty = rest.isEmpty := isEmpty_of_len (tn l.tw) rest htl
    have hspmN : tn l.tw ≠ [] → SpmOK q (stepOf l.m l.bs)
        (redBound (redOf r) l.m.reduce (invChainOut q (redOf r) ((rest.map LevelC.toLevel).map Prod.fst) M).1) := by
      intro hne
      have : rest.isEmpty = false := by rw [← hemp]; cases h : tn l.tw <;> simp_all
      rw [this] at h5
      simp only [Bool.false_eq_true, false_or] at h5
      exact ⟨h5.1.1.1.1.1.1, h5.1.1.1.1.1.2, h5.1.1.1.1.2, h5.1.1.1.2⟩
    have hspm : l.tw ≠ [] → SpmOK q (stepOf l.m l.bs)
        (redBound (redOf r) l.m.reduce (invChainOut q (redOf r) ((rest.map LevelC.toLevel).map Prod.fst) M).1) := by
      intro hne; apply hspmN; intro h; apply hne; simpa [tn] using h
    have hv' : v.length = 2 ^ (rest.length + 1) := by simpa using hv
    obtain ⟨_, hlo, hhi⟩ := NttMath.halves_length v rest.length hv'
    have hvn : (tn v).length = v.length := tn_length v
    have htwl : l.tw.length + 1 = 2 ^ rest.length := by rw [← tn_length l.tw]; exact htl
    have i1 := ih (ρ * ρ) M _ hsrest htrest hlo (by rw [tn_take]; exact hle.take _)
    have i2 := ih (ρ * ρ) M _ hsrest htrest hhi (by rw [tn_drop]; exact hle.drop _)
    obtain ⟨_, b1, _, j1⟩ := inttLevels_spec (redOf r) hr (rest.map LevelC.toLevel) (ρ * ρ) M (tn (v.take (v.length / 2))) hsrest htrest
      (by simp only [tn_length]; rw [hlo, hlenr]) (by rw [tn_take]; exact hle.take _)
    obtain ⟨_, b2, _, j2⟩ := inttLevels_spec (redOf r) hr (rest.map LevelC.toLevel) (ρ * ρ) M (tn (v.drop (v.length / 2))) hsrest htrest
      (by simp only [tn_length]; rw [hhi, hlenr]) (by rw [tn_drop]; exact hle.drop _)
    rw [← i1] at b1 j1
    rw [← i2] at b2 j2
    simp only [tn_length] at j1 j2
    obtain ⟨a1, a2⟩ := invBlockBV_eq r hr l.m l.bs _ hM l.tw _ _ (by rw [j1, hlo]; exact htwl) (by rw [j1, j2, hlo, hhi]) b1 b2 hspm
    simp only [inttLevelsBV, inttLevels, tn_append, List.map_cons, LevelC.toLevel]
    rw [a1, a2, i1, i2, tn_take, tn_drop, hvn]

/-! #### the schedule of `intt_avx2` -/

theorem invLevel_length (r : RedC) (l : LevelC) : ∀ (n : Nat) (bs : List (List W)), bs.length ≤ n → (invLevelBV r l bs).length = bs.length / 2 := by
  intro n
  induction n with
  | zero => intro bs h; have : bs = [] := List.length_eq_zero_iff.mp (by omega); subst this; rfl
  | succ n ih =>
    intro bs h
    match bs with
    | [] => rfl
    | [_] => simp [invLevelBV]
    | a :: b :: rest =>
      simp only [invLevelBV, List.length_cons]
      rw [ih rest (by simp only [List.length_cons] at h; omega)]
      omega

theorem invLevel_append (r : RedC) (l : LevelC) (B : List (List W)) :
    ∀ (n : Nat) (A : List (List W)), A.length = 2 * n → invLevelBV r l (A ++ B) = invLevelBV r l A ++ invLevelBV r l B := by
  intro n
  induction n with
  | zero => intro A h; have : A = [] := List.length_eq_zero_iff.mp (by omega); subst this; rfl
  | succ n ih =>
    intro A h
    match A, h with
    | a :: b :: rest, h =>
      simp only [List.cons_append, invLevelBV]
      rw [ih rest (by simp only [List.length_cons] at h; omega)]

theorem invLevelwise_append_blocks (r : RedC) :
    ∀ (asc : List LevelC) (A B : List (List W)) (c : Nat), A.length = 2 ^ asc.length * c →
      invLevelwiseBV r asc (A ++ B) = invLevelwiseBV r asc A ++ invLevelwiseBV r asc B := by
  intro asc
  induction asc with
  | nil => intro A B c _; rfl
  | cons l ls ih =>
    intro A B c hA
    have hA' : A.length = 2 * (2 ^ ls.length * c) := by rw [hA, List.length_cons, pow_succ]; ring
    simp only [invLevelwiseBV]
    rw [invLevel_append r l B _ A hA']
    apply ih _ _ c
    rw [invLevel_length r l A.length A (le_refl _), hA']
    omega

theorem invLevelwise_append (r : RedC) (l1 l2 : List LevelC) (bs : List (List W)) :
    invLevelwiseBV r (l1 ++ l2) bs = invLevelwiseBV r l2 (invLevelwiseBV r l1 bs) := by
  induction l1 generalizing bs with
  | nil => rfl
  | cons l ls ih => simp only [List.cons_append, invLevelwiseBV]; rw [ih]

/-- merging finished blocks pairwise, level after level (the AVX order), builds the depth-first result of the reference order -/
theorem invLevelwise_singletons (r : RedC) :
    ∀ (desc : List LevelC) (v : List W), v.length = 2 ^ desc.length →
      invLevelwiseBV r desc.reverse (v.map (fun x => [x])) = [inttLevelsBV r desc v] := by
  intro desc
  induction desc with
  | nil =>
    intro v hv
    match v, hv with
    | [x], _ => rfl
  | cons l rest ih =>
    intro v hv
    have hv' : v.length = 2 ^ (rest.length + 1) := by simpa using hv
    obtain ⟨_, hlo, hhi⟩ := NttMath.halves_length v rest.length hv'
    rw [List.reverse_cons, invLevelwise_append]
    conv_lhs => rw [← List.take_append_drop (v.length / 2) v, List.map_append]
    rw [invLevelwise_append_blocks r rest.reverse _ _ 1 (by rw [List.length_map, hlo, List.length_reverse, Nat.mul_one]), ih _ hlo, ih _ hhi]
    simp [invLevelwiseBV, invLevelBV, inttLevelsBV]

theorem invLevelwise_chunks (r : RedC) (a1 : List LevelC) :
    ∀ (cs : List (List W)), (∀ c ∈ cs, c.length = 2 ^ a1.length) →
      invLevelwiseBV r a1 (cs.flatten.map (fun x => [x])) = cs.map (fun c => inttLevelsBV r a1.reverse c) := by
  intro cs
  induction cs with
  | nil => intro _; induction a1 with
    | nil => rfl
    | cons l ls ih => simpa [invLevelwiseBV, invLevelBV] using ih
  | cons c cs ih =>
    intro h
    have hc := h c (by simp)
    rw [List.flatten_cons, List.map_append,
      invLevelwise_append_blocks r a1 _ _ 1 (by simp [hc]), ih (fun c' hc' => h c' (by simp [hc']))]
    have := invLevelwise_singletons r a1.reverse c (by simp [hc])
    rw [List.reverse_reverse] at this
    rw [this]; rfl

/-- **`intt_avx2` schedule lemma**: for every split `j` (`CHANGE_MODE_N = 2^j`) and every partition of the lane into `2^j`-wide
chunks, the by-block-then-by-level order of `intt_avx2` computes the depth-first network followed by the last pass -/
theorem inttAvx_schedule (r : RedC) (last : LevelC) (revL : List LevelC) (j : Nat) (cs : List (List W)) (hj : j ≤ revL.length)
    (hc : ∀ c ∈ cs, c.length = 2 ^ j) (hlen : cs.flatten.length = 2 ^ revL.length) :
    inttAvx r (revL.reverse ++ [last]) j cs
      = List.zipWith (fun x po => iterFirst r last.m x po) (inttLevelsBV r revL cs.flatten) last.tw := by
  unfold inttAvx
  simp only [List.reverse_append, List.reverse_cons, List.reverse_nil, List.nil_append, List.reverse_reverse, List.singleton_append]
  have hjl : (revL.reverse.take j).length = j := by simp [hj]
  have hb : cs.map (fun c => (invLevelwiseBV r (revL.reverse.take j) (c.map (fun x => [x]))).flatten)
      = cs.map (fun c => inttLevelsBV r (revL.reverse.take j).reverse c) := by
    apply List.map_congr_left
    intro c hcm
    have := invLevelwise_singletons r (revL.reverse.take j).reverse c (by simp [hc c hcm, hj])
    rw [List.reverse_reverse] at this
    rw [this]; simp
  rw [hb, ← invLevelwise_chunks r (revL.reverse.take j) cs (by intro c hcm; rw [hjl]; exact hc c hcm),
    ← invLevelwise_append, List.take_append_drop]
  have := invLevelwise_singletons r revL cs.flatten hlen
  rw [this]; simp

theorem tn_zipWith_le (f : W → W → W) (g : Nat → Nat → Nat) (B : Nat) (h : ∀ x po, x.toNat ≤ B → (f x po).toNat = g x.toNat po.toNat) :
    ∀ (v tw : List W), AllLe B (tn v) → tn (List.zipWith f v tw) = List.zipWith g (tn v) (tn tw) := by
  intro v
  induction v with
  | nil => intro tw _; simp [tn]
  | cons x xs ih =>
    intro tw hle
    obtain ⟨hx, hxs⟩ := AllLe.cons (by simpa using hle : AllLe B (x.toNat :: tn xs))
    cases tw with
    | nil => simp [tn]
    | cons po tw => simp only [List.zipWith_cons_cons, List.map_cons, tn] at *; rw [h x po hx, ih tw hxs]

/-- **`intt_avx2`, one prime lane, whole transform** = `intt_ref` (`inttK`), for every table accepted by C07's `InvTableOK`
(proved there for the real tables), every split and EVERY vector of 64-bit words -/
theorem inttAvx_eq_inttK (r : RedC) (last : LevelC) (revL : List LevelC) (j : Nat) (t : TableK) (ω' ninv : ZMod q)
    (ok : InvTableOK q t ω' ninv) (ht : t.levels = (revL.reverse ++ [last]).map LevelC.toLevel) (hrd : t.reduc = redOf r)
    (cs : List (List W)) (hj : j ≤ revL.length) (hc : ∀ c ∈ cs, c.length = 2 ^ j) (hlen : cs.flatten.length = 2 ^ revL.length) :
    tn (inttAvx r (revL.reverse ++ [last]) j cs) = inttK t (tn cs.flatten) := by
  obtain ⟨hr, hl⟩ := ok
  rw [hrd] at hr
  have hrev : t.levels.reverse = last.toLevel :: revL.map LevelC.toLevel := by
    rw [ht]; simp [List.map_reverse]
  rw [hrev] at hl
  simp only [LevelC.toLevel] at hl
  obtain ⟨hsched, htwo, hMw, sp, htl, htw⟩ := hl
  rw [hrd] at hsched hMw sp
  rw [inttAvx_schedule r last revL j cs hj hc hlen]
  unfold inttK
  rw [hrev]
  simp only [LevelC.toLevel]
  have hlenr : (revL.map LevelC.toLevel).length = revL.length := List.length_map _
  have e1 := inttLevelsBV_eq r hr revL (ω' * ω') _ cs.flatten hsched htwo hlen (allLe_u64 _)
  obtain ⟨_, b1, _, _⟩ := inttLevels_spec (redOf r) hr (revL.map LevelC.toLevel) (ω' * ω') _ (tn cs.flatten) hsched htwo
    (by rw [tn_length, hlen, hlenr]) (allLe_u64 _)
  rw [← e1] at b1
  rw [hrd, ← e1]
  apply tn_zipWith_le _ _ _ _ _ _ b1
  intro x po hx
  obtain ⟨_, lx⟩ := redIf_spec (redOf r) hr (stepOf last.m last.bs) x.toNat _ hx hMw
  exact iterFirst_eq r last.m last.bs x po (redRange_of_ok q r last.m x hr) (spmRange_of_ok q last.m last.bs _ _ sp lx)

/-! ### the `u64` tables: the AVX2 kernels read the very `NttTable` / `NttTableInv` the reference reads -/

theorem toLevel_levelCOf (l : Level) (h : fitsLevel l = true) : (levelCOf l).toLevel = l := by
  unfold fitsLevel at h
  simp only [Bool.and_eq_true, decide_eq_true_eq, List.all_eq_true] at h
  obtain ⟨⟨⟨h1, h2⟩, h3⟩, h4⟩ := h
  obtain ⟨m, tw⟩ := l
  unfold LevelC.toLevel levelCOf stepCOf stepOf
  simp only [BitVec.toNat_ofNat, Nat.mod_eq_of_lt h1, Nat.mod_eq_of_lt h2, Nat.mod_eq_of_lt h3]
  congr 1
  simp only [tn, List.map_map]
  conv_rhs => rw [← List.map_id tw]
  apply List.map_congr_left
  intro x hx
  simp only [Function.comp, BitVec.toNat_ofNat, id]
  exact Nat.mod_eq_of_lt (h4 x hx)

theorem fits_levels (t : TableK) (h : fitsTable t = true) :
    t.levels = (t.levels.map levelCOf).map LevelC.toLevel ∧ t.reduc = redOf (redCOf t.reduc) := by
  unfold fitsTable at h
  simp only [Bool.and_eq_true, decide_eq_true_eq, List.all_eq_true] at h
  obtain ⟨⟨⟨h1, h2⟩, h3⟩, h4⟩ := h
  constructor
  · rw [List.map_map]
    conv_lhs => rw [← List.map_id t.levels]
    apply List.map_congr_left
    intro l hl
    simp only [Function.comp, id]
    exact (toLevel_levelCOf l (h1 l hl)).symm
  · unfold redOf redCOf
    simp only [BitVec.toNat_ofNat, Nat.mod_eq_of_lt h2, Nat.mod_eq_of_lt h3, Nat.mod_eq_of_lt h4]

/-- **`ntt_avx2` on the real tables**: for every prime set / lane accepted by C07 (`LaneFwd`: all three prime sets, all four
lanes), every `n = 2^j`, `1 ≤ j ≤ 16`, the table `NttTable::new(n)`, every by-level/by-block split and EVERY input vector, one
prime lane of `ntt_avx2` is bit for bit the lane of `ntt_ref` -/
theorem nttAvx_real (P : PrimeSet) (k j : Nat) (g : LaneFwd P k) (hj1 : 1 ≤ j) (hj : j ≤ 16) (t : TableK)
    (ht : nttTableK P k (2 ^ j) = .ok t) (hf : fitsTable t = true) (split : Nat) (v : List W) (hv : v.length = 2 ^ j) :
    tn (nttAvx (redCOf t.reduc) (t.levels.map levelCOf) split v) = nttK t (tn v) := by
  obtain ⟨ok, hlen⟩ := nttTableK_spec P k j g hj1 hj t ht
  obtain ⟨e1, e2⟩ := fits_levels t hf
  exact nttAvx_eq_nttK _ _ split t _ ok e1 e2 v (by rw [List.length_map, hlen]; simpa using hv)

/-- **`intt_avx2` on the real tables** (`NttTableInv::new(2^j)`): one prime lane is bit for bit the lane of `intt_ref`, for every
split `2^jj`-wide chunking and EVERY input vector -/
theorem inttAvx_real (P : PrimeSet) (k j : Nat) (g : LaneFwd P k) (gi : LaneInv P k) (hj1 : 1 ≤ j) (hj : j ≤ 16) (t : TableK)
    (ht : inttTableK P k (2 ^ j) = .ok t) (hf : fitsTable t = true) (jj : Nat) (hjj : jj ≤ j) (cs : List (List W))
    (hc : ∀ c ∈ cs, c.length = 2 ^ jj) (hlen : cs.flatten.length = 2 ^ j) :
    tn (inttAvx (redCOf t.reduc) (t.levels.map levelCOf) jj cs) = inttK t (tn cs.flatten) := by
  obtain ⟨ok, hl⟩ := inttTableK_spec P k j g gi hj1 hj t ht
  obtain ⟨e1, e2⟩ := fits_levels t hf
  have hlen' : (t.levels.map levelCOf).reverse.length = j + 1 := by simp [hl]
  match hrev : (t.levels.map levelCOf).reverse, hlen' with
  | last :: revL, hlen' =>
    have hshape : t.levels.map levelCOf = revL.reverse ++ [last] := by
      have := congrArg List.reverse hrev
      simpa using this
    have hrl : revL.length = j := by simpa using hlen'
    rw [hshape] at e1 ⊢
    exact inttAvx_eq_inttK _ last revL jj t _ _ ok e1 e2 cs (by omega) hc (by rw [hrl]; exact hlen)

/-! ### `b_to_znx128_avx2` = `b_to_znx128_ref`, whole coefficient -/

/-- the symmetric lift both implementations apply to the residue `r ∈ [0, Q)` -/
def centre (Q r : Nat) : Int := if (Q + 1) / 2 ≤ r then (r : Int) - (Q : Int) else (r : Int)

/-- the table-based reduction of `b_to_znx128_avx2` is exact: for `S < 4·Q`, `Q < 2^120`, `4·(2^120 − Q) ≤ Q` the index is at most 3
(no index panic), the unconditional subtraction does not underflow, one correction suffices -/
theorem crtTail_eq (Q S : Nat) (hQ1 : 4 * (2 ^ 120 - Q) ≤ Q) (hQ2 : Q < 2 ^ 120) (hS : S < 4 * Q) (v : BitVec 128) (hv : v.toNat = S) :
    crtTail Q v = centre Q (S % Q) ∧ (v >>> 120).toNat ≤ 3 := by
  have hqa : (v >>> 120).toNat = S / 2 ^ 120 := by rw [BitVec.toNat_ushiftRight, hv, Nat.shiftRight_eq_div_pow]
  have hqa3 : S / 2 ^ 120 ≤ 3 := by
    have : S / 2 ^ 120 < 4 := Nat.div_lt_of_lt_mul (by omega)
    omega
  refine ⟨?_, by rw [hqa]; exact hqa3⟩
  unfold crtTail centre
  simp only [hqa]
  have hdm := Nat.div_add_mod S (2 ^ 120)
  have hml := Nat.mod_lt S (show 0 < 2 ^ 120 by positivity)
  have hQ0 : 0 < Q := by omega
  -- the value after the table subtraction and after the correction
  have key : ∀ qa, qa = S / 2 ^ 120 → qa ≤ 3 →
      ∃ v1 : Nat, v1 = S - [0, Q, Q * 2, Q * 3].getD qa 0 ∧ [0, Q, Q * 2, Q * 3].getD qa 0 ≤ S ∧ v1 < 2 * Q ∧
        (if Q ≤ v1 then v1 - Q else v1) = S % Q := by
    intro qa hq hq3
    have hmod : ∀ r, r < Q → ∀ k, S = r + k * Q → S % Q = r := fun r hr k e => by
      rw [e, Nat.add_mul_mod_self_right, Nat.mod_eq_of_lt hr]
    have hc : qa = 0 ∨ qa = 1 ∨ qa = 2 ∨ qa = 3 := by omega
    rcases hc with h | h | h | h <;> subst h
    · have : [0, Q, Q * 2, Q * 3].getD 0 0 = 0 := rfl
      rw [this]
      refine ⟨S, rfl, by omega, by omega, ?_⟩
      split
      · exact (hmod (S - Q) (by omega) 1 (by omega)).symm
      · exact (hmod S (by omega) 0 (by omega)).symm
    · have : [0, Q, Q * 2, Q * 3].getD 1 0 = Q := rfl
      rw [this]
      refine ⟨S - Q, rfl, by omega, by omega, ?_⟩
      split
      · exact (hmod (S - Q - Q) (by omega) 2 (by omega)).symm
      · exact (hmod (S - Q) (by omega) 1 (by omega)).symm
    · have : [0, Q, Q * 2, Q * 3].getD 2 0 = Q * 2 := rfl
      rw [this]
      refine ⟨S - Q * 2, rfl, by omega, by omega, ?_⟩
      split
      · exact (hmod (S - Q * 2 - Q) (by omega) 3 (by omega)).symm
      · exact (hmod (S - Q * 2) (by omega) 2 (by omega)).symm
    · have : [0, Q, Q * 2, Q * 3].getD 3 0 = Q * 3 := rfl
      rw [this]
      refine ⟨S - Q * 3, rfl, by omega, by omega, ?_⟩
      split
      · exact (hmod (S - Q * 3 - Q) (by omega) 4 (by omega)).symm
      · exact (hmod (S - Q * 3) (by omega) 3 (by omega)).symm
  obtain ⟨v1, hv1, hle, hv1lt, hres⟩ := key _ rfl hqa3
  generalize [0, Q, Q * 2, Q * 3].getD (S / 2 ^ 120) 0 = T at *
  have hT : T < 2 ^ 128 := by omega
  have e1 : (v - BitVec.ofNat 128 T).toNat = v1 := by
    rw [BitVec.toNat_sub, BitVec.toNat_ofNat, hv, Nat.mod_eq_of_lt hT, hv1]
    have : 2 ^ 128 - T + S = (S - T) + 2 ^ 128 := by omega
    rw [this, Nat.add_mod_right]; exact Nat.mod_eq_of_lt (by omega)
  have eQ : (BitVec.ofNat 128 Q).toNat = Q := by rw [BitVec.toNat_ofNat]; exact Nat.mod_eq_of_lt (by omega)
  have eH : (BitVec.ofNat 128 ((Q + 1) / 2)).toNat = (Q + 1) / 2 := by rw [BitVec.toNat_ofNat]; exact Nat.mod_eq_of_lt (by omega)
  have e2 : (if BitVec.ofNat 128 Q ≤ v - BitVec.ofNat 128 T then v - BitVec.ofNat 128 T - BitVec.ofNat 128 Q else v - BitVec.ofNat 128 T).toNat
      = S % Q := by
    rw [← hres]
    by_cases h : Q ≤ v1
    · have h' : BitVec.ofNat 128 Q ≤ v - BitVec.ofNat 128 T := by rw [BitVec.le_def, eQ, e1]; exact h
      rw [if_pos h', if_pos h, BitVec.toNat_sub, eQ, e1]
      have : 2 ^ 128 - Q + v1 = (v1 - Q) + 2 ^ 128 := by omega
      rw [this, Nat.add_mod_right]; exact Nat.mod_eq_of_lt (by omega)
    · have h' : ¬ BitVec.ofNat 128 Q ≤ v - BitVec.ofNat 128 T := by rw [BitVec.le_def, eQ, e1]; exact h
      rw [if_neg h', if_neg h, e1]
  generalize (if BitVec.ofNat 128 Q ≤ v - BitVec.ofNat 128 T then v - BitVec.ofNat 128 T - BitVec.ofNat 128 Q else v - BitVec.ofNat 128 T) = v2 at *
  simp only [BitVec.le_def, eH, e2]

/-- `b_to_znx128_ref` (C07's `bToZnx128Core`) in closed form: the symmetric lift of `crtSum mod Q` -/
theorem bToZnx128Core_eq_centre (P : PrimeSet) (g : P.Good) (x0 x1 x2 x3 : Nat) :
    bToZnx128Core P x0 x1 x2 x3 = centre (bigQ P) (crtSum P x0 x1 x2 x3 % bigQ P) := by
  unfold bToZnx128Core centre
  simp only []
  rw [crt_fold_eq P g, g.tq]
  have hodd := g.odd
  have hQpos : (0 : Int) < bigQ P := by
    have : 0 < bigQ P := by omega
    exact_mod_cast this
  have hb : ((bigQ P : Nat) : Int) * 4 < 2 ^ 127 := by
    have := g.bound; exact_mod_cast (by omega : bigQ P * 4 < 2 ^ 127)
  rw [Int.tmod_eq_emod_of_nonneg (Int.natCast_nonneg _)]
  have hcast : (crtSum P x0 x1 x2 x3 : Int) % (bigQ P : Int) = ((crtSum P x0 x1 x2 x3 % bigQ P : Nat) : Int) := (Int.natCast_mod _ _).symm
  rw [hcast]
  have hr1 : crtSum P x0 x1 x2 x3 % bigQ P < bigQ P := Nat.mod_lt _ (by omega)
  generalize crtSum P x0 x1 x2 x3 % bigQ P = r at *
  have hw : w128 ((bigQ P : Int) + 1) = (bigQ P : Int) + 1 := by rw [w128_of_range] <;> omega
  rw [hw, Int.tdiv_eq_ediv_of_nonneg (by omega)]
  have hhalf : ((bigQ P : Int) + 1) / 2 = (((bigQ P + 1) / 2 : Nat) : Int) := by push_cast; rfl
  rw [hhalf]
  by_cases h : (bigQ P + 1) / 2 ≤ r
  · have h' : ((r : Nat) : Int) ≥ (((bigQ P + 1) / 2 : Nat) : Int) := by exact_mod_cast h
    rw [if_pos h', if_pos h, w128_of_range] <;> omega
  · have h' : ¬ ((r : Nat) : Int) ≥ (((bigQ P + 1) / 2 : Nat) : Int) := by
      intro hc; apply h; exact_mod_cast hc
    rw [if_neg h', if_neg h]

theorem totQ30_eq : totQ30 = bigQ primes30 := rfl

theorem primes30_crtC (k : Nat) (hk : k < 4) :
    CrtC (BitVec.ofNat 64 (Q30 k)) (BitVec.ofNat 64 (compactCst (Q30 k) (CRT30 k)).1) (BitVec.ofNat 64 (compactCst (Q30 k) (CRT30 k)).2.1)
      (BitVec.ofNat 64 (compactCst (Q30 k) (CRT30 k)).2.2) (BitVec.ofNat 64 (CRT30 k)) ∧
    (BitVec.ofNat 64 (compactCst (Q30 k) (CRT30 k)).2.1).toNat ≡ 2 ^ 32 * (BitVec.ofNat 64 (CRT30 k)).toNat [MOD (BitVec.ofNat 64 (Q30 k)).toNat] ∧
    (BitVec.ofNat 64 (compactCst (Q30 k) (CRT30 k)).2.2).toNat ≡ 2 ^ 16 * (BitVec.ofNat 64 (CRT30 k)).toNat [MOD (BitVec.ofNat 64 (Q30 k)).toNat] ∧
    (BitVec.ofNat 64 (Q30 k)).toNat = Q30 k ∧ (BitVec.ofNat 64 (CRT30 k)).toNat = CRT30 k := by
  have h : ∀ k, k < 4 →
      ((2 ^ 29 < (BitVec.ofNat 64 (Q30 k)).toNat ∧ (BitVec.ofNat 64 (Q30 k)).toNat < 2 ^ 30 ∧
        (BitVec.ofNat 64 (compactCst (Q30 k) (CRT30 k)).1).toNat = 2 ^ 61 / (BitVec.ofNat 64 (Q30 k)).toNat ∧
        (BitVec.ofNat 64 (compactCst (Q30 k) (CRT30 k)).2.1).toNat < (BitVec.ofNat 64 (Q30 k)).toNat ∧
        (BitVec.ofNat 64 (compactCst (Q30 k) (CRT30 k)).2.2).toNat < (BitVec.ofNat 64 (Q30 k)).toNat ∧
        (BitVec.ofNat 64 (CRT30 k)).toNat < (BitVec.ofNat 64 (Q30 k)).toNat) ∧
       (BitVec.ofNat 64 (compactCst (Q30 k) (CRT30 k)).2.1).toNat % (BitVec.ofNat 64 (Q30 k)).toNat
          = (2 ^ 32 * (BitVec.ofNat 64 (CRT30 k)).toNat) % (BitVec.ofNat 64 (Q30 k)).toNat ∧
       (BitVec.ofNat 64 (compactCst (Q30 k) (CRT30 k)).2.2).toNat % (BitVec.ofNat 64 (Q30 k)).toNat
          = (2 ^ 16 * (BitVec.ofNat 64 (CRT30 k)).toNat) % (BitVec.ofNat 64 (Q30 k)).toNat ∧
       (BitVec.ofNat 64 (Q30 k)).toNat = Q30 k ∧ (BitVec.ofNat 64 (CRT30 k)).toNat = CRT30 k) := by decide +kernel
  obtain ⟨⟨a1, a2, a3, a4, a5, a6⟩, b1, b2, b3, b4⟩ := h k hk
  exact ⟨⟨a1, a2, a3, a4, a5, a6⟩, b1, b2, b3, b4⟩

theorem crtTerm_lt (q crt qm x : Nat) (hq : 0 < q) (hqm : 0 < qm) : crtTerm q crt qm x < q * qm := by
  unfold crtTerm
  have ht : x % q * crt % q < q := Nat.mod_lt _ hq
  calc x % q * crt % q * qm < q * qm := Nat.mul_lt_mul_of_pos_right ht hqm

/-- **whole `b_to_znx128_avx2` coefficient** (fused Barrett-CRT lanes, `_mm256_mul_epu32` limb accumulation, horizontal adds,
`u128` table reduction, symmetric lift) **= `b_to_znx128_ref`** for every q120b word in the documented range `x_k < Q[k]·2^33` -/
theorem bToZnx128Avx_eq_ref (x : V4) (h0 : x.l0.toNat < Q30 0 * 2 ^ 33) (h1 : x.l1.toNat < Q30 1 * 2 ^ 33)
    (h2 : x.l2.toNat < Q30 2 * 2 ^ 33) (h3 : x.l3.toNat < Q30 3 * 2 ^ 33) :
    bToZnx128AvxCoef x qV muV p32V p16V crtV hiV midV loV (bigQ primes30)
      = bToZnx128Core primes30 x.l0.toNat x.l1.toNat x.l2.toNat x.l3.toNat := by
  obtain ⟨c0, e0, f0, g0, k0⟩ := primes30_crtC 0 (by decide)
  obtain ⟨c1, e1, f1, g1, k1⟩ := primes30_crtC 1 (by decide)
  obtain ⟨c2, e2, f2, g2, k2⟩ := primes30_crtC 2 (by decide)
  obtain ⟨c3, e3, f3, g3, k3⟩ := primes30_crtC 3 (by decide)
  have t0 := reduceBAndApplyCrt_value x.l0 _ _ _ _ _ c0 (by rw [g0]; exact h0) e0 f0
  have t1 := reduceBAndApplyCrt_value x.l1 _ _ _ _ _ c1 (by rw [g1]; exact h1) e1 f1
  have t2 := reduceBAndApplyCrt_value x.l2 _ _ _ _ _ c2 (by rw [g2]; exact h2) e2 f2
  have t3 := reduceBAndApplyCrt_value x.l3 _ _ _ _ _ c3 (by rw [g3]; exact h3) e3 f3
  rw [g0, k0] at t0; rw [g1, k1] at t1; rw [g2, k2] at t2; rw [g3, k3] at t3
  have q0 : Q30 0 < 2 ^ 30 ∧ 0 < Q30 0 := by decide
  have q1 : Q30 1 < 2 ^ 30 ∧ 0 < Q30 1 := by decide
  have q2 : Q30 2 < 2 ^ 30 ∧ 0 < Q30 2 := by decide
  have q3 : Q30 3 < 2 ^ 30 ∧ 0 < Q30 3 := by decide
  unfold bToZnx128AvxCoef
  simp only [qV, muV, p32V, p16V, crtV, v4]
  set T : V4 := ⟨reduceBAndApplyCrt x.l0 (BitVec.ofNat 64 (Q30 0)) (BitVec.ofNat 64 (compactCst (Q30 0) (CRT30 0)).1)
      (BitVec.ofNat 64 (compactCst (Q30 0) (CRT30 0)).2.1) (BitVec.ofNat 64 (compactCst (Q30 0) (CRT30 0)).2.2) (BitVec.ofNat 64 (CRT30 0)),
    reduceBAndApplyCrt x.l1 (BitVec.ofNat 64 (Q30 1)) (BitVec.ofNat 64 (compactCst (Q30 1) (CRT30 1)).1)
      (BitVec.ofNat 64 (compactCst (Q30 1) (CRT30 1)).2.1) (BitVec.ofNat 64 (compactCst (Q30 1) (CRT30 1)).2.2) (BitVec.ofNat 64 (CRT30 1)),
    reduceBAndApplyCrt x.l2 (BitVec.ofNat 64 (Q30 2)) (BitVec.ofNat 64 (compactCst (Q30 2) (CRT30 2)).1)
      (BitVec.ofNat 64 (compactCst (Q30 2) (CRT30 2)).2.1) (BitVec.ofNat 64 (compactCst (Q30 2) (CRT30 2)).2.2) (BitVec.ofNat 64 (CRT30 2)),
    reduceBAndApplyCrt x.l3 (BitVec.ofNat 64 (Q30 3)) (BitVec.ofNat 64 (compactCst (Q30 3) (CRT30 3)).1)
      (BitVec.ofNat 64 (compactCst (Q30 3) (CRT30 3)).2.1) (BitVec.ofNat 64 (compactCst (Q30 3) (CRT30 3)).2.2) (BitVec.ofNat 64 (CRT30 3))⟩ with hT
  have tl0 : T.l0.toNat < Q30 0 := by rw [hT]; simp only []; rw [t0]; exact Nat.mod_lt _ q0.2
  have tl1 : T.l1.toNat < Q30 1 := by rw [hT]; simp only []; rw [t1]; exact Nat.mod_lt _ q1.2
  have tl2 : T.l2.toNat < Q30 2 := by rw [hT]; simp only []; rw [t2]; exact Nat.mod_lt _ q2.2
  have tl3 : T.l3.toNat < Q30 3 := by rw [hT]; simp only []; rw [t3]; exact Nat.mod_lt _ q3.2
  have hlim : (hiV.l0.toNat < 2 ^ 26 ∧ hiV.l1.toNat < 2 ^ 26 ∧ hiV.l2.toNat < 2 ^ 26 ∧ hiV.l3.toNat < 2 ^ 26) ∧
      (midV.l0.toNat < 2 ^ 32 ∧ midV.l1.toNat < 2 ^ 32 ∧ midV.l2.toNat < 2 ^ 32 ∧ midV.l3.toNat < 2 ^ 32) ∧
      (loV.l0.toNat < 2 ^ 32 ∧ loV.l1.toNat < 2 ^ 32 ∧ loV.l2.toNat < 2 ^ 32 ∧ loV.l3.toNat < 2 ^ 32) := by decide +kernel
  have hrec : hiV.l0.toNat * 2 ^ 64 + midV.l0.toNat * 2 ^ 32 + loV.l0.toNat = primes30.q1 * primes30.q2 * primes30.q3 ∧
      hiV.l1.toNat * 2 ^ 64 + midV.l1.toNat * 2 ^ 32 + loV.l1.toNat = primes30.q0 * primes30.q2 * primes30.q3 ∧
      hiV.l2.toNat * 2 ^ 64 + midV.l2.toNat * 2 ^ 32 + loV.l2.toNat = primes30.q0 * primes30.q1 * primes30.q3 ∧
      hiV.l3.toNat * 2 ^ 64 + midV.l3.toNat * 2 ^ 32 + loV.l3.toNat = primes30.q0 * primes30.q1 * primes30.q2 := by decide +kernel
  have hacc := crtAccumulate_eq T hiV midV loV
    ⟨by omega, by omega, by omega, by omega, hlim.1.1, hlim.1.2.1, hlim.1.2.2.1, hlim.1.2.2.2,
     hlim.2.1.1, hlim.2.1.2.1, hlim.2.1.2.2.1, hlim.2.1.2.2.2, hlim.2.2.1, hlim.2.2.2.1, hlim.2.2.2.2.1, hlim.2.2.2.2.2⟩
  rw [hrec.1, hrec.2.1, hrec.2.2.1, hrec.2.2.2] at hacc
  have hS : (crtAccumulate T hiV midV loV).toNat = crtSum primes30 x.l0.toNat x.l1.toNat x.l2.toNat x.l3.toNat := by
    rw [hacc]
    have u0 : T.l0.toNat = x.l0.toNat % primes30.q0 * primes30.c0 % primes30.q0 := by rw [hT]; exact t0
    have u1 : T.l1.toNat = x.l1.toNat % primes30.q1 * primes30.c1 % primes30.q1 := by rw [hT]; exact t1
    have u2 : T.l2.toNat = x.l2.toNat % primes30.q2 * primes30.c2 % primes30.q2 := by rw [hT]; exact t2
    have u3 : T.l3.toNat = x.l3.toNat % primes30.q3 * primes30.c3 % primes30.q3 := by rw [hT]; exact t3
    rw [u0, u1, u2, u3]
    rfl
  have g := primes30_good
  have hQ : 4 * (2 ^ 120 - bigQ primes30) ≤ bigQ primes30 ∧ bigQ primes30 < 2 ^ 120 := by decide +kernel
  have hpos : 0 < primes30.q1 * primes30.q2 * primes30.q3 ∧ 0 < primes30.q0 * primes30.q2 * primes30.q3 ∧
      0 < primes30.q0 * primes30.q1 * primes30.q3 ∧ 0 < primes30.q0 * primes30.q1 * primes30.q2 := by decide +kernel
  have hlt : crtSum primes30 x.l0.toNat x.l1.toNat x.l2.toNat x.l3.toNat < 4 * bigQ primes30 := by
    have a0 := crtTerm_lt primes30.q0 primes30.c0 _ x.l0.toNat (by have := g.q0_gt; omega) hpos.1
    have a1 := crtTerm_lt primes30.q1 primes30.c1 _ x.l1.toNat (by have := g.q1_gt; omega) hpos.2.1
    have a2 := crtTerm_lt primes30.q2 primes30.c2 _ x.l2.toNat (by have := g.q2_gt; omega) hpos.2.2.1
    have a3 := crtTerm_lt primes30.q3 primes30.c3 _ x.l3.toNat (by have := g.q3_gt; omega) hpos.2.2.2
    rw [bigQ_eq0] at a0; rw [bigQ_eq1] at a1; rw [bigQ_eq2] at a2; rw [bigQ_eq3] at a3
    unfold crtSum; omega
  rw [(crtTail_eq (bigQ primes30) _ hQ.1 hQ.2 hlt _ hS).1, bToZnx128Core_eq_centre primes30 g]

end Avx.Ntt
