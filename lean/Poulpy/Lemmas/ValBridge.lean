import Poulpy.Lemmas.CnvModel
import Poulpy.Lemmas.CoreOpsNorm
import Poulpy.Lemmas.CoreOpsPhase

/-!
Bridge between the two value domains: C02's `valP` (integer polynomial value of a column, radix `2^b`) under `ι` is the weighted sum of the
limbs in `R N` with `β = 2^b`; the `valP` of C02's `phase` is the weighted sum of the per-limb phases `Ks.phaseRow` used by the gadget and
convolution value theorems.
-/

namespace Core
open Hal Ks Finset C02L Core.Ops

theorem ι_valP (N b : Nat) (c : Col) (hc : LimbsN N c) :
    ι N (valP b N c) = ∑ k ∈ range c.length, ι N (limbOr0 N c k) * ((2 : R N) ^ b) ^ (c.length - 1 - k) := by
  induction c using List.reverseRecOn with
  | nil => simp [valP_nil, ι_zero]
  | append_singleton xs l ih =>
    have hl : l.length = N := hc l (by simp)
    have hxs : LimbsN N xs := fun p hp => hc p (by simp [hp])
    rw [valP_snoc b N xs l hl, ι_add N _ _ (by simp [polyScale, hl]), ι_polyScale, ih hxs, List.length_append, List.length_singleton,
      Finset.sum_range_succ, Finset.mul_sum]
    congr 1
    · apply Finset.sum_congr rfl
      intro k hk
      have hk' : k < xs.length := mem_range.mp hk
      have e : xs.length + 1 - 1 - k = (xs.length - 1 - k) + 1 := by omega
      have e2 : limbOr0 N (xs ++ [l]) k = limbOr0 N xs k := by
        unfold limbOr0; simp [List.getD_eq_getElem?_getD, List.getElem?_append_left hk']
      rw [e, pow_succ, e2]
      push_cast
      ring
    · have e2 : limbOr0 N (xs ++ [l]) xs.length = l := by
        unfold limbOr0; simp [List.getD_eq_getElem?_getD]
      rw [e2]; simp

theorem ι_errTo (N : Nat) (hN : 0 < N) (m : Nat) (s : List Poly) (E : Nat → Poly) (hE : ∀ i, (E i).length = N) :
    ι N (errTo m s E) = ι N (E 0) + ∑ i ∈ range m, ι N (s.getD i []) * ι N (E (i + 1)) := by
  induction m with
  | zero => simp [errTo]
  | succ m ih =>
    rw [errTo_succ, ι_add N _ _ (by rw [errTo_length m s E hE, Hal.negMul_length, hE]), ih, ι_negMul N _ _ (hE _) hN,
      Finset.sum_range_succ]
    ring

/-- `ι (valP (phase s ct))` = the per-limb phases weighted by `β = 2^b` (all columns of `S` limbs of `N` coefficients). -/
theorem ι_valP_phase_rows (N : Nat) (hN : 0 < N) (b S : Nat) (s : List Poly) (c0 : Col) (cs : List Col)
    (h0 : ColWF N S c0) (hcs : ∀ c ∈ cs, ColWF N S c) :
    ι N (valP b N (phase s (Ks.mkCt b N (c0 :: cs))))
      = ∑ l ∈ range S, ι N (phaseRow s ((c0 :: cs).map (fun col => limbOr0 N col l))) * ((2 : R N) ^ b) ^ (S - 1 - l) := by
  have hcol : ∀ i, i ≤ cs.length → ColWF N S ((c0 :: cs).getD i []) := by
    intro i hi
    have hi' : i < (c0 :: cs).length := by simp only [List.length_cons]; omega
    rw [List.getD_eq_getElem?_getD, List.getElem?_eq_getElem hi']
    simp only [Option.getD_some]
    rcases List.mem_cons.mp (List.getElem_mem hi') with e | e
    · rw [e]; exact h0
    · exact hcs _ e
  have hrank : (Ks.mkCt b N (c0 :: cs)).rank = cs.length := by simp [GLWE.rank, Ks.mkCt]
  rw [phase_eq_linTo, hrank, valP_linTo (N := N) (rs := S) b _ s (fun i => col (Ks.mkCt b N (c0 :: cs)) i) (fun i hi => hcol i (by omega)),
    ι_errTo N hN _ s _ (fun _ => by simp)]
  show ι N (valP b N ((c0 :: cs).getD 0 [])) + ∑ i ∈ range (min cs.length s.length), ι N (s.getD i []) * ι N (valP b N ((c0 :: cs).getD (i + 1) [])) = _
  have hv : ∀ i, i ≤ cs.length → ι N (valP b N ((c0 :: cs).getD i []))
      = ∑ l ∈ range S, ι N (limbOr0 N ((c0 :: cs).getD i []) l) * ((2 : R N) ^ b) ^ (S - 1 - l) := by
    intro i hi
    rw [ι_valP N b _ (hcol i hi).2, (hcol i hi).1]
  have hrow : ∀ l, ι N (phaseRow s ((c0 :: cs).map (fun col => limbOr0 N col l)))
      = ι N (limbOr0 N c0 l) + ∑ i ∈ range (min cs.length s.length), ι N (s.getD i []) * ι N (limbOr0 N (cs.getD i []) l) := by
    intro l
    have hlen : ∀ c, ColWF N S c → (limbOr0 N c l).length = N := by
      intro c hc
      unfold limbOr0
      by_cases hl : l < c.length
      · rw [List.getD_eq_getElem?_getD, List.getElem?_eq_getElem hl]
        exact hc.2 _ (List.getElem_mem hl)
      · rw [List.getD_eq_getElem?_getD, List.getElem?_eq_none (by omega)]
        simp [zeroP]
    simp only [List.map_cons]
    rw [ι_phaseRow N hN s _ _ (hlen c0 h0) (by
      intro m hm
      obtain ⟨c, hc, rfl⟩ := List.mem_map.mp hm
      exact hlen c (hcs c hc)), List.length_map, Nat.min_comm]
    congr 1
    apply Finset.sum_congr rfl
    intro i hi
    have hi' : i < cs.length := by have := mem_range.mp hi; omega
    congr 2
    simp [List.getD_eq_getElem?_getD, List.getElem?_map, List.getElem?_eq_getElem hi']
  have hR : ∑ l ∈ range S, ι N (phaseRow s ((c0 :: cs).map (fun col => limbOr0 N col l))) * ((2 : R N) ^ b) ^ (S - 1 - l)
      = ∑ l ∈ range S, ι N (limbOr0 N c0 l) * ((2 : R N) ^ b) ^ (S - 1 - l)
        + ∑ i ∈ range (min cs.length s.length), ι N (s.getD i []) *
            ∑ l ∈ range S, ι N (limbOr0 N (cs.getD i []) l) * ((2 : R N) ^ b) ^ (S - 1 - l) := by
    have e : ∀ l ∈ range S, ι N (phaseRow s ((c0 :: cs).map (fun col => limbOr0 N col l))) * ((2 : R N) ^ b) ^ (S - 1 - l)
        = ι N (limbOr0 N c0 l) * ((2 : R N) ^ b) ^ (S - 1 - l)
          + ∑ i ∈ range (min cs.length s.length), ι N (s.getD i []) * (ι N (limbOr0 N (cs.getD i []) l) * ((2 : R N) ^ b) ^ (S - 1 - l)) := by
      intro l _
      rw [hrow l, add_mul, Finset.sum_mul]
      congr 1
      apply Finset.sum_congr rfl
      intro i _
      ring
    rw [Finset.sum_congr rfl e, Finset.sum_add_distrib, Finset.sum_comm]
    congr 1
    apply Finset.sum_congr rfl
    intro i _
    rw [Finset.mul_sum]
  rw [hR, hv 0 (Nat.zero_le _)]
  simp only [List.getD_cons_zero]
  congr 1
  apply Finset.sum_congr rfl
  intro i hi
  have hi' : i < cs.length := by have := mem_range.mp hi; omega
  rw [hv (i + 1) (by omega), List.getD_cons_succ]

theorem ι_valP_phase_rows' (N : Nat) (hN : 0 < N) (b S : Nat) (s : List Poly) (acc : List Col) (hne : acc ≠ [])
    (hwf : ∀ c ∈ acc, ColWF N S c) :
    ι N (valP b N (phase s (Ks.mkCt b N acc)))
      = ∑ l ∈ range S, ι N (phaseRow s (acc.map (fun col => limbOr0 N col l))) * ((2 : R N) ^ b) ^ (S - 1 - l) := by
  cases acc with
  | nil => exact absurd rfl hne
  | cons c0 cs =>
    exact ι_valP_phase_rows N hN b S s c0 cs (hwf c0 List.mem_cons_self) (fun c hc => hwf c (List.mem_cons_of_mem _ hc))

/-- the normalisation relation (`valP` domain, C02/C08) and the accumulator's per-limb phases (`R N` domain) in one equation -/
theorem phase_norm_compose (N : Nat) (hN : 0 < N) (rb ab S : Nat) (s : List Poly) (res acc : List Col) (hne : acc ≠ [])
    (hwf : ∀ c ∈ acc, ColWF N S c) (A B : Int) (Err : Poly) (hErr : Err.length = N)
    (h : polyScale A (valP rb N (phase s (Ks.mkCt rb N res))) = polyAdd (polyScale B (valP ab N (phase s (Ks.mkCt ab N acc)))) Err) :
    (A : R N) * ι N (valP rb N (phase s (Ks.mkCt rb N res)))
      = (B : R N) * ∑ l ∈ range S, ι N (phaseRow s (acc.map (fun col => limbOr0 N col l))) * ((2 : R N) ^ ab) ^ (S - 1 - l) + ι N Err := by
  have h' := congrArg (ι N) h
  rw [ι_polyScale, ι_add N _ _ (by simp [polyScale, hErr]), ι_polyScale, ι_valP_phase_rows' N hN ab S s acc hne hwf] at h'
  exact h'

/-- the normalisation relation under `ι` (no change of the accumulator's presentation) -/
theorem phase_norm_ι (N : Nat) (rb ab : Nat) (s : List Poly) (res acc : List Col) (A B : Int) (Err : Poly) (hErr : Err.length = N)
    (h : polyScale A (valP rb N (phase s (Ks.mkCt rb N res))) = polyAdd (polyScale B (valP ab N (phase s (Ks.mkCt ab N acc)))) Err) :
    (A : R N) * ι N (valP rb N (phase s (Ks.mkCt rb N res))) = (B : R N) * ι N (valP ab N (phase s (Ks.mkCt ab N acc))) + ι N Err := by
  have h' := congrArg (ι N) h
  rw [ι_polyScale, ι_add N _ _ (by simp [polyScale, hErr]), ι_polyScale] at h'
  exact h'

theorem cnvByConstCol_wf (N S hi : Nat) (x : Col) (b : List Int) (hx : ∀ l ∈ x, l.length = N) : ColWF N S (cnvByConstCol N S hi x b) := by
  refine ⟨by simp [cnvByConstCol], ?_⟩
  intro l hl
  obtain ⟨k, hk, rfl⟩ := List.getElem_of_mem hl
  have := cnvByConstCol_limb_length N S hi x b k hx
  unfold limbOr0 at this
  rw [List.getD_eq_getElem?_getD, List.getElem?_eq_getElem hk] at this
  exact this

theorem cnvApplyCol_wf (N S hi : Nat) (x y : Col) (hy : ∀ l ∈ y, l.length = N) : ColWF N S (Hal.cnvApplyCol N S hi x y) := by
  have hlen : (Hal.cnvApplyCol N S hi x y).length = S := by simp [Hal.cnvApplyCol]
  refine ⟨hlen, ?_⟩
  intro l hl
  obtain ⟨k, hk, rfl⟩ := List.getElem_of_mem hl
  have := cnvApplyCol_limb_length N S hi x y k hy
  unfold limbOr0 at this
  rw [List.getD_eq_getElem?_getD, List.getElem?_eq_getElem hk] at this
  exact this

theorem cnvPrepareCol_limbs (N S : Nat) (m : Int) (a : Col) (ha : ∀ l ∈ a, l.length = N) :
    ∀ l ∈ Hal.cnvPrepareCol N S m a, l.length = N := by
  intro l hl
  unfold Hal.cnvPrepareCol at hl
  obtain ⟨j, _, rfl⟩ := List.mem_map.mp hl
  have hlim : j < min S a.length → (limbOr0 N a j).length = N := by
    intro hj
    have hj' : j < a.length := by omega
    unfold limbOr0
    rw [List.getD_eq_getElem?_getD, List.getElem?_eq_getElem hj']
    exact ha _ (List.getElem_mem hj')
  show (if j + 1 = min S a.length then (limbOr0 N a j).map (maskCoeff m) else if j < min S a.length then limbOr0 N a j else zeroP N).length = N
  split
  · rw [List.length_map]; exact hlim (by omega)
  · split
    · exact hlim (by assumption)
    · simp [zeroP]
end Core
