import Poulpy.Lemmas.NttFinal

/-!
Magnitudes of the transform outputs (exact worst-case bounds propagated by the schedule check):
every output of `ntt_ref` is at most `fwdFinal P k j`, every output of `intt_ref` at most
`invFinal P k j`.  For the default prime set: forward outputs stay below `2·Q_SHIFTED` for every size
(the operand range the lazy AVX2 add/sub kernels rely on), inverse outputs below `Q_SHIFTED` (the
operand range of the AVX2 CRT lane), and the forward bound reaches `2^63` exactly for
`log2 n ≡ 1 (mod 5)` — the sizes at which a *lazy 64-bit sum of two transform outputs* can wrap.
-/

namespace Ntt120
open NttMath

/-- worst-case magnitude after all forward levels of a block -/
def fwdChainOut (q : Nat) (r : ReducK) : List StepMeta → Nat → Nat
  | [], M => M
  | m :: rest, M => fwdChainOut q r rest (fwdOut q r m M rest.isEmpty)

theorem nttLevels_bound {q : Nat} (r : ReducK) (hr : ReducOK q r) :
    ∀ (levels : List Level) (ρ : ZMod q) (M : Nat) (v : List Nat), fwdSchedOK q r (levels.map Prod.fst) M = true →
      FwdTwOK q ρ levels → v.length = 2 ^ levels.length → AllLe M v →
      AllLe (fwdChainOut q r (levels.map Prod.fst) M) (nttLevels r levels v) := by
  intro levels
  induction levels with
  | nil => intro ρ M v _ _ _ h; simpa [nttLevels, fwdChainOut] using h
  | cons l rest ih =>
    intro ρ M v hs ht hv hle
    obtain ⟨m, tw⟩ := l
    obtain ⟨htl, htw, htrest⟩ := ht
    simp only [List.map_cons, fwdSchedOK, Bool.and_eq_true, decide_eq_true_eq, Bool.or_eq_true, List.isEmpty_map] at hs
    obtain ⟨⟨⟨⟨⟨⟨hM, h1⟩, h2⟩, h3⟩, h4⟩, h5⟩, hsrest⟩ := hs
    have hemp := isEmpty_of_len tw rest htl
    have hb : BflyOK q m (redBound r m.reduce M) := ⟨h1, h2, h3, Nat.dvd_of_mod_eq_zero h4⟩
    have hspm : tw ≠ [] → SpmOK q m (redBound r m.reduce M + m.q2bs) := by
      intro hne
      have : rest.isEmpty = false := by rw [← hemp]; cases tw <;> simp_all
      rw [this] at h5
      simp only [Bool.false_eq_true, false_or] at h5
      exact ⟨h5.1.1.1, h5.1.1.2, h5.1.2, h5.2⟩
    have hv' : v.length = 2 ^ (rest.length + 1) := by simpa using hv
    obtain ⟨_, hlo, hhi⟩ := halves_length v rest.length hv'
    obtain ⟨_, _, b1, b2, n1, n2⟩ := fwdBfly_spec r hr m M hM hb ρ tw (v.take (v.length / 2)) (v.drop (v.length / 2))
      (by rw [hlo]; exact htl) (by rw [hlo, hhi]) (hle.take _) (hle.drop _) hspm htw
    rw [hemp] at b1 b2
    have i1 := ih (ρ * ρ) _ _ hsrest htrest (by rw [n1, hlo]) b1
    have i2 := ih (ρ * ρ) _ _ hsrest htrest (by rw [n2, hlo]) b2
    simp only [nttLevels, List.map_cons, fwdChainOut, List.isEmpty_map]
    exact i1.append i2

/-- worst-case magnitude of the outputs of `ntt_ref` with table `t` -/
def fwdTableOut (q : Nat) (t : TableK) : Nat :=
  match t.levels with
  | [] => 2 ^ 64 - 1
  | (m0, _) :: rest => fwdChainOut q t.reduc (rest.map Prod.fst) (spmBound q m0.halfBs (2 ^ 64 - 1))

theorem nttK_bound {q : Nat} (t : TableK) (ω : ZMod q) (ok : FwdTableOK q t ω) (v : List Nat)
    (hv : v.length = 2 ^ (t.levels.length - 1)) (hu : AllLe (2 ^ 64 - 1) v) : AllLe (fwdTableOut q t) (nttK t v) := by
  obtain ⟨hr, hl⟩ := ok
  unfold nttK fwdTableOut
  match hlv : t.levels, hl with
  | (m0, tw0) :: rest, hl =>
    obtain ⟨sp, htl, htw, hsched, htwr⟩ := hl
    have hv' : v.length = 2 ^ rest.length := by rw [hlv] at hv; simpa using hv
    obtain ⟨_, b1, n1⟩ := twist_spec m0 (2 ^ 64 - 1) (2 ^ 64 - 1) sp ω id (fun x hx => ⟨rfl, hx⟩) v tw0 1
      (by rw [hv', htl]) hu htw
    simp only [id] at b1 n1
    exact nttLevels_bound t.reduc hr rest (ω * ω) _ _ hsched htwr (by rw [n1, hv']) b1

/-- worst-case magnitude of the outputs of `intt_ref` with table `t` (a `split_precompmul` result) -/
def invTableOut (q : Nat) (t : TableK) : Nat :=
  match t.levels.reverse with
  | [] => 2 ^ 64 - 1
  | (mL, _) :: revL => spmBound q mL.halfBs (redBound t.reduc mL.reduce (invChainOut q t.reduc (revL.map Prod.fst) (2 ^ 64 - 1)).1)

theorem inttK_bound {q : Nat} (t : TableK) (ω' ninv : ZMod q) (ok : InvTableOK q t ω' ninv) (v : List Nat)
    (hv : v.length = 2 ^ (t.levels.length - 1)) (hu : AllLe (2 ^ 64 - 1) v) : AllLe (invTableOut q t) (inttK t v) := by
  obtain ⟨hr, hl⟩ := ok
  unfold inttK invTableOut
  have hlen : t.levels.reverse.length = t.levels.length := List.length_reverse
  match hlv : t.levels.reverse, hl with
  | (mL, twL) :: revL, hl =>
    obtain ⟨hsched, htwo, hMw, sp, htl, htw⟩ := hl
    have hk : t.levels.length - 1 = revL.length := by rw [← hlen, hlv]; simp
    rw [hk] at hv
    obtain ⟨_, b1, _, n1⟩ := inttLevels_spec t.reduc hr revL (ω' * ω') _ v hsched htwo hv hu
    obtain ⟨_, b2, _⟩ := twist_spec mL (invChainOut q t.reduc (revL.map Prod.fst) (2 ^ 64 - 1)).1 _ sp ω' (redIf t.reduc mL)
      (fun x hx => redIf_spec t.reduc hr mL x _ hx hMw) _ twL ninv (by rw [n1, hv, htl]) b1 htw
    exact b2

/-! ### the numbers for the real tables -/

/-- the forward output magnitude of size `2^j`, prime `k`, from the metadata alone -/
def fwdFinal (P : PrimeSet) (k j : Nat) : Nat :=
  match fwdMetas (P.qs.getD k 1) P.logQ (reducOf P k).2 j (2 ^ j) (32 + P.logQ + 1) with
  | .ok (ms, _) => fwdChainOut (P.qs.getD k 1) (reducOf P k).1 ms (spmBound (P.qs.getD k 1) 32 (2 ^ 64 - 1))
  | _ => 2 ^ 64 - 1

/-- the inverse output magnitude of size `2^j`, prime `k`, from the metadata alone -/
def invFinal (P : PrimeSet) (k j : Nat) : Nat :=
  let q := P.qs.getD k 1
  let r := (reducOf P k).1
  let bsA := (reducOf P k).2
  let m0 : StepMeta := { q2bs := wu64 (q * 2 ^ (bsA - P.logQ)), bs := bsA + 1, halfBs := 0, mask := 0, reduce := true }
  match invMetas q P.logQ bsA (j - 1) 4 (bsA + 1) with
  | .ok (ms, b) =>
    let doReduce := b == 64
    let bs := if doReduce then bsA else b
    spmBound q ((bs + 1) / 2) (redBound r doReduce (invChainOut q r (ms.reverse ++ [m0]) (2 ^ 64 - 1)).1)
  | _ => 2 ^ 64 - 1

/-- **every output of `ntt_ref` (any `u64` input) is at most `fwdFinal`** -/
theorem nttK_real_bound (P : PrimeSet) (k j : Nat) (g : LaneFwd P k) (hj1 : 1 ≤ j) (hj : j ≤ 16) (t : TableK)
    (ht : nttTableK P k (2 ^ j) = .ok t) (v : List Nat) (hv : v.length = 2 ^ j) (hu : AllLe (2 ^ 64 - 1) v) :
    AllLe (fwdFinal P k j) (nttK t v) := by
  obtain ⟨ok, hl⟩ := nttTableK_spec P k j g hj1 hj t ht
  have hk : t.levels.length - 1 = j := by omega
  have hb := nttK_bound t (omegaZ P k j) ok v (by rw [hk]; exact hv) hu
  have e : fwdTableOut (P.qs.getD k 1) t = fwdFinal P k j := by
    unfold nttTableK at ht
    have hle : (2 : Nat) ^ j ≤ 2 ^ 16 := Nat.pow_le_pow_right (by decide) hj
    have hne1 : (2 : Nat) ^ j ≠ 1 := by
      have : 2 ^ 1 ≤ 2 ^ j := Nat.pow_le_pow_right (by decide) hj1
      omega
    simp only [isPow2_two_pow, hle, decide_true, Bool.and_self, Bool.not_true, Bool.false_eq_true, if_false, hne1, Nat.log2_two_pow] at ht
    cases hrec : fwdLevels (P.qs.getD k 1) P.logQ (modqPow (P.omega.getD k 0) ((2 ^ 16 / 2 ^ j : Nat) : Int) (P.qs.getD k 1)) (2 ^ j)
        (reducOf P k).2 j (2 ^ j) (32 + P.logQ + 1) with
    | ok v' =>
      obtain ⟨ls, b⟩ := v'
      rw [hrec] at ht
      simp only [Outcome.ok.injEq] at ht
      subst ht
      obtain ⟨hmet, _⟩ := fwdLevels_metas _ _ _ _ _ _ _ _ _ _ hrec
      unfold fwdTableOut fwdFinal
      simp only [hmet]
    | err e => rw [hrec] at ht; cases ht
    | panic c => rw [hrec] at ht; cases ht
  rw [← e]; exact hb

/-- **every output of `intt_ref` (any `u64` input) is at most `invFinal`** -/
theorem inttK_real_bound (P : PrimeSet) (k j : Nat) (g : LaneFwd P k) (gi : LaneInv P k) (hj1 : 1 ≤ j) (hj : j ≤ 16) (t : TableK)
    (ht : inttTableK P k (2 ^ j) = .ok t) (v : List Nat) (hv : v.length = 2 ^ j) (hu : AllLe (2 ^ 64 - 1) v) :
    AllLe (invFinal P k j) (inttK t v) := by
  obtain ⟨ok, hl⟩ := inttTableK_spec P k j g gi hj1 hj t ht
  have hk : t.levels.length - 1 = j := by omega
  have hb := inttK_bound t _ _ ok v (by rw [hk]; exact hv) hu
  have e : invTableOut (P.qs.getD k 1) t = invFinal P k j := by
    unfold inttTableK at ht
    have hle : (2 : Nat) ^ j ≤ 2 ^ 16 := Nat.pow_le_pow_right (by decide) hj
    have hne1 : (2 : Nat) ^ j ≠ 1 := by
      have : 2 ^ 1 ≤ 2 ^ j := Nat.pow_le_pow_right (by decide) hj1
      omega
    simp only [isPow2_two_pow, hle, decide_true, Bool.and_self, Bool.not_true, Bool.false_eq_true, if_false, hne1, Nat.log2_two_pow] at ht
    cases hrec : invLevels (P.qs.getD k 1) P.logQ (modqPow (P.omega.getD k 0) ((2 ^ 16 / 2 ^ j : Nat) : Int) (P.qs.getD k 1)) (2 ^ j)
        (reducOf P k).2 (j - 1) 4 ((reducOf P k).2 + 1) with
    | ok v' =>
      obtain ⟨ls, b⟩ := v'
      rw [hrec] at ht
      simp only [] at ht
      obtain ⟨hmet, _⟩ := invLevels_metas _ _ _ _ _ _ _ _ _ _ hrec
      generalize hbsx : (if (b == 64) = true then (reducOf P k).2 else b) = bsx at ht
      by_cases hnb : (bsx + 1) / 2 + P.logQ + 1 > 64
      · rw [if_pos hnb] at ht; cases ht
      · rw [if_neg hnb] at ht
        simp only [Outcome.ok.injEq] at ht
        subst ht
        unfold invTableOut invFinal
        simp only [hmet, hbsx, List.reverse_cons, List.reverse_append, List.reverse_nil, List.nil_append, List.cons_append,
          List.map_append, List.map_reverse, List.map_cons, List.map_nil]
    | err e => rw [hrec] at ht; cases ht
    | panic c => rw [hrec] at ht; cases ht
  rw [← e]; exact hb

/-! ### Primes30: the ranges the AVX2 kernels rely on, and where a lazy sum of two outputs can wrap -/

/-- forward outputs stay below `2·Q_SHIFTED[k]`, inverse outputs below `Q_SHIFTED[k]`, for all 16 sizes -/
theorem primes30_transform_ranges : ∀ k, k < 4 → ∀ j, j < 17 → (1 ≤ j →
    fwdFinal primes30 k j < 2 * (primes30.qs.getD k 1 * 2 ^ 33) ∧ invFinal primes30 k j < primes30.qs.getD k 1 * 2 ^ 33) := by
  decide +kernel

/-- the forward output bound reaches `2^63` — so that the 64-bit sum of two outputs can wrap — exactly
at the sizes with `log2 n ≡ 1 (mod 5)` (`n = 2, 64, 2048, 65536`) -/
theorem primes30_fwd_bound_fills_64_bits : ∀ k, k < 4 → ∀ j, j < 17 → (1 ≤ j →
    (2 ^ 63 ≤ fwdFinal primes30 k j ↔ j % 5 = 1)) := by
  decide +kernel

end Ntt120
