import Poulpy.Lemmas.CoreOpsBin

/-!
Straight-line programs: one step of `Core.Ops.step` on a pool of well-formed ciphertexts acts on the
pool of phases as the plaintext-level step `specStep`; programs follow by induction on the op list.
-/

namespace C02L
open Hal Core Core.Ops

/-- the operations with an exact phase theorem (linear and rotation families) -/
def exactOp : Op → Bool
  | .add .. | .addAssign .. | .sub .. | .subAssign .. | .subNegateAssign .. | .negate .. | .negateAssign ..
  | .copy .. | .rotate .. | .rotateAssign .. | .mulXpMinusOne .. | .mulXpMinusOneAssign .. => true
  | _ => false

def sizeAt (p : Pool) (i : Nat) : Nat := match p.objs[i]? with | some (.ct c) => c.size | _ => 0
def phaseAt (s : List Poly) (p : Pool) (i : Nat) : Col := match p.objs[i]? with | some (.ct c) => phase s c | _ => []
def upd (P : Nat → Col) (r : Nat) (v : Col) : Nat → Col := fun i => if i = r then v else P i

/-- the same program step on plaintext limb columns (`sz r` = limb count of the result object) -/
def specStep (N : Nat) (sz : Nat → Nat) (P : Nat → Col) : Op → (Nat → Col)
  | .add r a b => upd P r (colAdd (fit N (sz r) (P a)) (fit N (sz r) (P b)))
  | .addAssign r a => upd P r (colAdd (P r) (fit N (sz r) (P a)))
  | .sub r a b => upd P r (colAdd (fit N (sz r) (P a)) ((fit N (sz r) (P b)).map polyNeg))
  | .subAssign r a => upd P r (colAdd (P r) ((fit N (sz r) (P a)).map polyNeg))
  | .subNegateAssign r a => upd P r (colAdd ((P r).map polyNeg) (fit N (sz r) (P a)))
  | .negate r a => upd P r ((fit N (sz r) (P a)).map polyNeg)
  | .negateAssign r => upd P r ((P r).map polyNeg)
  | .copy r a => upd P r (fit N (sz r) (P a))
  | .rotate k r a => upd P r ((fit N (sz r) (P a)).map (rotP k))
  | .rotateAssign k r => upd P r ((P r).map (rotP k))
  | .mulXpMinusOne k r a => upd P r ((fit N (sz r) (P a)).map (mxpP k))
  | .mulXpMinusOneAssign k r => upd P r ((P r).map (mxpP k))
  | _ => P

def PoolWF (p : Pool) : Prop := ∀ (i : Nat) (c : GLWE), p.objs[i]? = some (Obj.ct c) → GWF p.N c
def PoolSmall (p : Pool) : Prop := ∀ (i : Nat) (c : GLWE), p.objs[i]? = some (Obj.ct c) → GSmall c

theorem checkS_ok {α} {need avail : Nat} {k : Outcome α} {x : α} (h : checkS need avail k = .ok x) :
    need ≤ avail ∧ k = .ok x := by
  unfold checkS at h
  split at h
  · exact ⟨by assumption, h⟩
  · cases h

theorem check_ok {α} {c : Bool} {k : Outcome α} {x : α} (h : check c k = .ok x) : c = true ∧ k = .ok x := by
  unfold check at h
  split at h
  · exact ⟨by assumption, h⟩
  · cases h

theorem bind_ok {α β} {x : Outcome α} {f : α → Outcome β} {y : β} (h : Ops.bind x f = .ok y) :
    ∃ v, x = .ok v ∧ f v = .ok y := by
  unfold Ops.bind at h
  split at h
  · exact ⟨_, rfl, h⟩
  · cases h
  · cases h

theorem getCt_ok {p : Pool} {i : Nat} {c : GLWE} (h : getCt p i = .ok c) : p.objs[i]? = some (Obj.ct c) := by
  unfold getCt at h
  split at h
  · rename_i c' e; cases h; exact e
  · cases h
  · cases h

theorem noAlias_ok {α} {c : Bool} {k : Outcome α} {x : α} (h : noAlias c k = .ok x) : c = false ∧ k = .ok x := by
  unfold noAlias at h
  split at h
  · cases h
  · exact ⟨by simpa using ‹¬ c = true›, h⟩

theorem un_inv {p p' : Pool} {r : Nat} {f : GLWE → Outcome GLWE} (h : un p r f = .ok p') :
    ∃ res x, p.objs[r]? = some (Obj.ct res) ∧ f res = .ok x ∧ p' = putObj p r (.ct x) := by
  unfold un at h
  obtain ⟨res, h1, h⟩ := bind_ok h
  obtain ⟨x, h2, h⟩ := bind_ok h
  cases h
  exact ⟨res, x, getCt_ok h1, h2, rfl⟩

theorem bin_inv {p p' : Pool} {r a : Nat} {f : GLWE → GLWE → Outcome GLWE} (h : bin p r a f = .ok p') :
    ∃ res ca x, p.objs[r]? = some (Obj.ct res) ∧ p.objs[a]? = some (Obj.ct ca) ∧ f res ca = .ok x ∧ p' = putObj p r (.ct x) := by
  unfold bin at h
  obtain ⟨_, h⟩ := noAlias_ok h
  obtain ⟨res, h1, h⟩ := bind_ok h
  obtain ⟨ca, h2, h⟩ := bind_ok h
  obtain ⟨x, h3, h⟩ := bind_ok h
  cases h
  exact ⟨res, ca, x, getCt_ok h1, getCt_ok h2, h3, rfl⟩

theorem put_get (p : Pool) (r : Nat) (o o' : Obj) (h : p.objs[r]? = some o') (i : Nat) :
    (putObj p r o).objs[i]? = if i = r then some o else p.objs[i]? := by
  have hr : r < p.objs.length := by
    rcases Nat.lt_or_ge r p.objs.length with h' | h'
    · exact h'
    · rw [List.getElem?_eq_none h'] at h; cases h
  unfold putObj
  by_cases e : i = r
  · subst e; simp [hr]
  · simp [e, List.getElem?_set, Ne.symm e]

/-- replacing entry `r` (a ciphertext `res`) by `x` of the same shape whose phase is `V s` -/
theorem after_put {p : Pool} {r : Nat} {res x : GLWE} (hp : PoolWF p) (hr : p.objs[r]? = some (Obj.ct res))
    (hx : GWF p.N x) (hsz : x.size = res.size) :
    PoolWF (putObj p r (.ct x)) ∧ (putObj p r (.ct x)).N = p.N ∧ (∀ i, sizeAt (putObj p r (.ct x)) i = sizeAt p i) ∧
      ∀ s i, phaseAt s (putObj p r (.ct x)) i = upd (phaseAt s p) r (phase s x) i := by
  refine ⟨?_, rfl, ?_, ?_⟩
  · intro i c h
    rw [put_get p r _ _ hr i] at h
    by_cases e : i = r
    · simp only [e, if_true] at h; cases h; exact hx
    · simp only [e, if_false] at h; exact hp i c h
  · intro i
    unfold sizeAt
    rw [put_get p r _ _ hr i]
    by_cases e : i = r
    · subst e; simp [hr, hsz]
    · simp [e]
  · intro s i
    unfold phaseAt upd
    rw [put_get p r _ _ hr i]
    by_cases e : i = r
    · simp [e]
    · simp [e]

theorem phaseAt_of {s : List Poly} {p : Pool} {i : Nat} {c : GLWE} (h : p.objs[i]? = some (Obj.ct c)) : phaseAt s p i = phase s c := by
  simp [phaseAt, h]
theorem sizeAt_of {p : Pool} {i : Nat} {c : GLWE} (h : p.objs[i]? = some (Obj.ct c)) : sizeAt p i = c.size := by
  simp [sizeAt, h]

/-- the conclusion shared by all cases of `step_phase` -/
def StepOK (p p' : Pool) (op : Op) : Prop :=
  PoolWF p' ∧ p'.N = p.N ∧ (∀ i, sizeAt p' i = sizeAt p i) ∧
    ∀ s i, phaseAt s p' i = specStep p.N (sizeAt p) (phaseAt s p) op i

theorem finish_step {p : Pool} {r : Nat} {res x r' : GLWE} {op : Op} (hp : PoolWF p) (hr : p.objs[r]? = some (Obj.ct res))
    (hx : f = Outcome.ok x) (e : f = Outcome.ok r') (w : GWF p.N r') (sz : r'.size = res.size)
    (hspec : ∀ s i, upd (phaseAt s p) r (phase s r') i = specStep p.N (sizeAt p) (phaseAt s p) op i) :
    StepOK p (putObj p r (.ct x)) op := by
  have : x = r' := by rw [hx] at e; cases e; rfl
  subst this
  obtain ⟨a1, a2, a3, a4⟩ := after_put hp hr w sz
  exact ⟨a1, a2, a3, fun s i => by rw [a4 s i, hspec s i]⟩

/-- **one program step is a homomorphism for the phase** (exact family) -/
theorem step_phase {p p' : Pool} {op : Op} (hp : PoolWF p) (hs : PoolSmall p) (hop : exactOp op = true)
    (h : step p op = .ok p') : StepOK p p' op := by
  cases op <;> simp only [exactOp] at hop <;> try (exact absurd hop (by decide))
  all_goals unfold step at h
  case add r a b =>
    obtain ⟨_, h⟩ := noAlias_ok h
    obtain ⟨res, h1, h⟩ := bind_ok h
    obtain ⟨ca, h2, h⟩ := bind_ok h
    obtain ⟨cb, h3, h⟩ := bind_ok h
    obtain ⟨x, h4, h⟩ := bind_ok h
    cases h
    have g1 := getCt_ok h1; have g2 := getCt_ok h2; have g3 := getCt_ok h3
    have h4' := h4
    unfold glweAddInto at h4'
    obtain ⟨_, h4'⟩ := check_ok h4'; obtain ⟨_, h4'⟩ := check_ok h4'; obtain ⟨_, h4'⟩ := check_ok h4'
    obtain ⟨c4, h4'⟩ := check_ok h4'; obtain ⟨c5, h4'⟩ := check_ok h4'; obtain ⟨c6, _⟩ := check_ok h4'
    obtain ⟨r', e, _, w, sz, ph⟩ := add_ok (hp r _ g1) (hp a _ g2) (hp b _ g3) (hs a _ g2) (hs b _ g3)
      (by simpa using c4) (by simpa using c5) c6
    exact finish_step hp g1 h4 e w sz (fun s i => by
      simp only [specStep, phaseAt_of g2, phaseAt_of g3, sizeAt_of g1, ph s])
  case sub r a b =>
    obtain ⟨_, h⟩ := noAlias_ok h
    obtain ⟨res, h1, h⟩ := bind_ok h
    obtain ⟨ca, h2, h⟩ := bind_ok h
    obtain ⟨cb, h3, h⟩ := bind_ok h
    obtain ⟨x, h4, h⟩ := bind_ok h
    cases h
    have g1 := getCt_ok h1; have g2 := getCt_ok h2; have g3 := getCt_ok h3
    have h4' := h4
    unfold glweSub at h4'
    obtain ⟨_, h4'⟩ := check_ok h4'; obtain ⟨_, h4'⟩ := check_ok h4'; obtain ⟨_, h4'⟩ := check_ok h4'
    obtain ⟨c4, h4'⟩ := check_ok h4'; obtain ⟨c5, h4'⟩ := check_ok h4'; obtain ⟨c6, _⟩ := check_ok h4'
    obtain ⟨r', e, _, w, sz, ph⟩ := sub_ok (hp r _ g1) (hp a _ g2) (hp b _ g3) (hs a _ g2) (hs b _ g3)
      (by simpa using c4) (by simpa using c5) c6
    exact finish_step hp g1 h4 e w sz (fun s i => by
      simp only [specStep, phaseAt_of g2, phaseAt_of g3, sizeAt_of g1, ph s])
  case addAssign r a =>
    obtain ⟨res, ca, x, g1, g2, h4, rfl⟩ := bin_inv h
    have h4' := h4
    unfold glweAddAssign at h4'
    obtain ⟨_, h4'⟩ := check_ok h4'; obtain ⟨_, h4'⟩ := check_ok h4'; obtain ⟨c3, h4'⟩ := check_ok h4'
    obtain ⟨c4, _⟩ := check_ok h4'
    obtain ⟨r', e, _, w, sz, ph⟩ := addAssign_ok (hp r _ g1) (hp a _ g2) (hs r _ g1) (hs a _ g2)
      (by simpa using c3) (by simpa using c4)
    exact finish_step hp g1 h4 e w sz (fun s i => by
      simp only [specStep, phaseAt_of g1, phaseAt_of g2, sizeAt_of g1, ph s])
  case subAssign r a =>
    obtain ⟨res, ca, x, g1, g2, h4, rfl⟩ := bin_inv h
    have h4' := h4
    unfold glweSubAssign at h4'
    obtain ⟨_, h4'⟩ := check_ok h4'; obtain ⟨_, h4'⟩ := check_ok h4'; obtain ⟨c3, h4'⟩ := check_ok h4'
    obtain ⟨c4, _⟩ := check_ok h4'
    obtain ⟨r', e, _, w, sz, ph⟩ := subAssign_ok (hp r _ g1) (hp a _ g2) (hs r _ g1) (hs a _ g2) (by simpa using c3) c4
    exact finish_step hp g1 h4 e w sz (fun s i => by
      simp only [specStep, phaseAt_of g1, phaseAt_of g2, sizeAt_of g1, ph s])
  case subNegateAssign r a =>
    obtain ⟨res, ca, x, g1, g2, h4, rfl⟩ := bin_inv h
    have h4' := h4
    unfold glweSubNegateAssign at h4'
    obtain ⟨_, h4'⟩ := check_ok h4'; obtain ⟨_, h4'⟩ := check_ok h4'; obtain ⟨c3, h4'⟩ := check_ok h4'
    obtain ⟨c4, _⟩ := check_ok h4'
    obtain ⟨r', e, _, w, sz, ph⟩ := subNegateAssign_ok (hp r _ g1) (hp a _ g2) (hs r _ g1) (hs a _ g2) (by simpa using c3) c4
    exact finish_step hp g1 h4 e w sz (fun s i => by
      simp only [specStep, phaseAt_of g1, phaseAt_of g2, sizeAt_of g1, ph s])
  case negate r a =>
    obtain ⟨res, ca, x, g1, g2, h4, rfl⟩ := bin_inv h
    have h4' := h4
    unfold glweNegate at h4'
    obtain ⟨_, h4'⟩ := check_ok h4'; obtain ⟨_, h4'⟩ := check_ok h4'; obtain ⟨cb, h4'⟩ := check_ok h4'
    obtain ⟨c3, _⟩ := check_ok h4'
    obtain ⟨r', e, _, w, sz, ph⟩ := negate_ok (hp r _ g1) (hp a _ g2) (hs a _ g2) (by simpa using cb) (by simpa using c3)
    exact finish_step hp g1 h4 e w sz (fun s i => by
      simp only [specStep, phaseAt_of g2, sizeAt_of g1, ph s])
  case negateAssign r =>
    obtain ⟨res, x, g1, h4, rfl⟩ := un_inv h
    obtain ⟨r', e, _, w, sz, ph⟩ := negateAssign_ok (hp r _ g1) (hs r _ g1)
    exact finish_step hp g1 h4 e w sz (fun s i => by simp only [specStep, phaseAt_of g1, ph s])
  case copy r a =>
    obtain ⟨res, ca, x, g1, g2, h4, rfl⟩ := bin_inv h
    have h4' := h4
    unfold glweCopy at h4'
    obtain ⟨_, h4'⟩ := check_ok h4'; obtain ⟨_, h4'⟩ := check_ok h4'; obtain ⟨cb, h4'⟩ := check_ok h4'
    obtain ⟨c3, _⟩ := check_ok h4'
    obtain ⟨r', e, _, w, sz, ph⟩ := copy_ok (hp r _ g1) (hp a _ g2) (by simpa using cb) c3
    exact finish_step hp g1 h4 e w sz (fun s i => by
      simp only [specStep, phaseAt_of g2, sizeAt_of g1, ph s])
  case rotate k r a =>
    obtain ⟨res, ca, x, g1, g2, h4, rfl⟩ := bin_inv h
    have h4' := h4
    unfold glweRotate at h4'
    obtain ⟨_, h4'⟩ := check_ok h4'; obtain ⟨_, h4'⟩ := check_ok h4'; obtain ⟨cb, h4'⟩ := check_ok h4'
    obtain ⟨c3, _⟩ := check_ok h4'
    obtain ⟨r', e, _, w, sz, ph⟩ := rotate_ok k (hp r _ g1) (hp a _ g2) (hs a _ g2) (by simpa using cb) c3
    exact finish_step hp g1 h4 e w sz (fun s i => by
      simp only [specStep, phaseAt_of g2, sizeAt_of g1, ph s])
  case rotateAssign k r =>
    obtain ⟨res, x, g1, h4, rfl⟩ := un_inv h
    unfold glweRotateAssignS at h4
    obtain ⟨_, h4⟩ := checkS_ok h4
    obtain ⟨r', e, _, w, sz, ph⟩ := rotateAssign_ok k (hp r _ g1) (hs r _ g1)
    exact finish_step hp g1 h4 e w sz (fun s i => by simp only [specStep, phaseAt_of g1, ph s])
  case mulXpMinusOne k r a =>
    obtain ⟨res, ca, x, g1, g2, h4, rfl⟩ := bin_inv h
    have h4' := h4
    unfold glweMulXpMinusOne at h4'
    obtain ⟨_, h4'⟩ := check_ok h4'; obtain ⟨_, h4'⟩ := check_ok h4'; obtain ⟨cb, h4'⟩ := check_ok h4'
    obtain ⟨c3, _⟩ := check_ok h4'
    obtain ⟨r', e, _, w, sz, ph⟩ := mulXpMinusOne_ok k (hp r _ g1) (hp a _ g2) (hs a _ g2) (by simpa using cb) (by simpa using c3)
    exact finish_step hp g1 h4 e w sz (fun s i => by
      simp only [specStep, phaseAt_of g2, sizeAt_of g1, ph s])
  case mulXpMinusOneAssign k r =>
    obtain ⟨res, x, g1, h4, rfl⟩ := un_inv h
    unfold glweMulXpMinusOneAssignS at h4
    obtain ⟨_, h4⟩ := check_ok h4
    obtain ⟨_, h4⟩ := checkS_ok h4
    obtain ⟨r', e, _, w, sz, ph⟩ := mulXpMinusOneAssign_ok k (hp r _ g1) (hs r _ g1)
    exact finish_step hp g1 h4 e w sz (fun s i => by simp only [specStep, phaseAt_of g1, ph s])

/-- head-room along a run: every pool reached before an operation is `PoolSmall` -/
def SmallRun : Pool → List Op → Prop
  | _, [] => True
  | p, op :: rest => PoolSmall p ∧ ∀ p', step p op = .ok p' → SmallRun p' rest

/-- the plaintext-level program -/
def specRun (N : Nat) (sz : Nat → Nat) (P : Nat → Col) (ops : List Op) : Nat → Col :=
  ops.foldl (specStep N sz) P

/-- **programs**: by induction on the op list -/
theorem run_phase : ∀ (ops : List Op) (p p' : Pool), PoolWF p → SmallRun p ops → (∀ op ∈ ops, exactOp op = true) →
    run p ops = .ok p' →
    PoolWF p' ∧ ∀ s i, phaseAt s p' i = specRun p.N (sizeAt p) (phaseAt s p) ops i := by
  intro ops
  induction ops with
  | nil =>
    intro p p' hp _ _ h
    cases h
    exact ⟨hp, fun _ _ => rfl⟩
  | cons op rest ih =>
    intro p p' hp hsm hex h
    obtain ⟨p1, h1, h2⟩ := bind_ok h
    obtain ⟨w1, n1, z1, f1⟩ := step_phase hp hsm.1 (hex op (by simp)) h1
    obtain ⟨w2, f2⟩ := ih p1 p' w1 (hsm.2 p1 h1) (fun o ho => hex o (by simp [ho])) h2
    refine ⟨w2, fun s i => ?_⟩
    rw [f2 s i, n1]
    have e1 : sizeAt p1 = sizeAt p := funext z1
    have e2 : phaseAt s p1 = specStep p.N (sizeAt p) (phaseAt s p) op := funext (f1 s)
    rw [e1, e2]
    rfl

/-! ### decidable forms of the hypotheses (for concrete programs) -/

def objOK (P : GLWE → Prop) : Obj → Prop
  | .ct c => P c
  | .gg _ => True

instance (P : GLWE → Prop) [DecidablePred P] (o : Obj) : Decidable (objOK P o) := by
  cases o <;> unfold objOK <;> infer_instance

theorem pool_all {P : GLWE → Prop} {p : Pool} (h : ∀ o ∈ p.objs, objOK P o) (i : Nat) (c : GLWE)
    (hi : p.objs[i]? = some (Obj.ct c)) : P c := h _ (List.mem_of_getElem? hi)

theorem poolWF_of_all {p : Pool} (h : ∀ o ∈ p.objs, objOK (GWF p.N) o) : PoolWF p := pool_all h
theorem poolSmall_of_all {p : Pool} (h : ∀ o ∈ p.objs, objOK GSmall o) : PoolSmall p := pool_all h

/-- executable head-room check along a run -/
def smallRunB [DecidablePred GSmall] : Pool → List Op → Bool
  | _, [] => true
  | p, op :: rest =>
    decide (∀ o ∈ p.objs, objOK GSmall o) &&
      match step p op with
      | .ok p' => smallRunB p' rest
      | _ => true

theorem smallRun_of_B [DecidablePred GSmall] : ∀ (ops : List Op) (p : Pool), smallRunB p ops = true → SmallRun p ops := by
  intro ops
  induction ops with
  | nil => intro p _; trivial
  | cons op rest ih =>
    intro p h
    simp only [smallRunB, Bool.and_eq_true, decide_eq_true_eq] at h
    refine ⟨poolSmall_of_all h.1, fun p' hp' => ih p' ?_⟩
    have h2 := h.2
    rw [hp'] at h2
    exact h2

def isOk {α : Type} : Outcome α → Bool
  | .ok _ => true
  | _ => false

theorem exists_of_isOk {α : Type} {x : Outcome α} (h : isOk x = true) : ∃ v, x = .ok v := by
  cases x with
  | ok v => exact ⟨v, rfl⟩
  | err e => cases h
  | panic c => cases h

end C02L
