import Poulpy.Lemmas.ScratchCore2
import Poulpy.Model.ScratchOps3
/-
Facts `fits ∧ aligned ∧ reqA ≤ tmp_bytes` for the third batch (Model/ScratchOps3.lean), built with a small
combinator calculus (`Facts`), and the requirement of the one tree that is not aligned (`fhe_uint_prepare`).
-/

namespace Scratch

/-- the three facts every sufficiency theorem is derived from -/
def Facts (t : AllocTree) (tb : Nat) : Prop := fits t = true ∧ aligned t = true ∧ reqA t ≤ tb

theorem Facts.ok {t : AllocTree} {tb : Nat} (h : Facts t tb) (a : Arena) (ha : tb ≤ a.available) : (run t a).isOk = true :=
  ok_of_facts h a ha

theorem Facts.mono {t : AllocTree} {a b : Nat} (h : Facts t a) (hab : a ≤ b) : Facts t b :=
  ⟨h.1, h.2.1, Nat.le_trans h.2.2 hab⟩

theorem Facts.done : Facts .done 0 := by simp [Facts, fits, aligned, reqA]

theorem Facts.leaf (b : Nat) : Facts (leaf b) b := by simp [Facts]

theorem Facts.take {k : AllocTree} {tk : Nat} (b : Nat) (hb : b % 64 = 0) (h : Facts k tk) : Facts (.take b k) (b + tk) := by
  obtain ⟨h1, h2, h3⟩ := h
  refine ⟨by simp [fits, h1], by simp [aligned, h2, hb], ?_⟩
  simp only [reqA]; omega

theorem Facts.alt {x y : AllocTree} {tx ty : Nat} (hx : Facts x tx) (hy : Facts y ty) : Facts (.alt x y) (max tx ty) := by
  obtain ⟨x1, x2, x3⟩ := hx
  obtain ⟨y1, y2, y3⟩ := hy
  refine ⟨by simp [fits, x1, y1], by simp [aligned, x2, y2], ?_⟩
  simp only [reqA]; omega

theorem Facts.need {k : AllocTree} {tk : Nat} (b : Nat) (h : Facts k tk) (hle : tk ≤ b) : Facts (.need b k) b := by
  obtain ⟨h1, h2, h3⟩ := h
  refine ⟨by simp [fits, h1], by simp [aligned, h2], ?_⟩
  simp only [reqA]; omega

theorem Facts.loop {t : AllocTree} {tb : Nat} (c : Nat) (h : Facts t tb) : Facts (loop c t) tb :=
  ⟨fits_loop c t h.1, aligned_loop c t h.2.1, Nat.le_trans (reqA_loop_le c t) h.2.2⟩

theorem Facts.alt3 {x y z : AllocTree} {tx ty tz : Nat} (hx : Facts x tx) (hy : Facts y ty) (hz : Facts z tz) :
    Facts (altList [x, y, z]) (max tx (max ty tz)) := by
  simp only [altList]; exact hx.alt (hy.alt hz)

theorem Facts.alt4 {w x y z : AllocTree} {tw tx ty tz : Nat} (hw : Facts w tw) (hx : Facts x tx) (hy : Facts y ty) (hz : Facts z tz) :
    Facts (altList [w, x, y, z]) (max tw (max tx (max ty tz))) := by
  simp only [altList]; exact hw.alt (hx.alt (hy.alt hz))

theorem Facts.takeMany {k : AllocTree} {tk : Nat} (c b : Nat) (hb : b % 64 = 0) (h : Facts k tk) :
    Facts (takeMany c b k) (c * b + tk) := by
  obtain ⟨t1, t2, t3⟩ := takeMany_facts b k hb h.1 h.2.1 c
  exact ⟨t1, t2, by rw [t3]; have := h.2.2; omega⟩

theorem Facts.ite {c : Prop} [Decidable c] {x y : AllocTree} {tb : Nat} (hx : Facts x tb) (hy : Facts y tb) :
    Facts (if c then x else y) tb := by split <;> assumption

/-! ### prepare wrappers -/

theorem prep_mod64 (be : BE) {n : Nat} (hn : n % 8 = 0) : vmpPrepTmp be n % 64 = 0 := by
  cases be <;> simp only [vmpPrepTmp] <;> omega

theorem prepare_facts (be : BE) (n : Nat) : ∀ d, Facts (treePrepare be n d) (tbPrepare be n) := by
  intro d
  induction d with
  | zero => simp only [treePrepare, treeVmpPrepare, tbPrepare]; exact Facts.leaf _
  | succ d ih => simp only [treePrepare]; exact ih.need _ (Nat.le_refl _)

theorem prepareMany_facts (be : BE) (n cnt : Nat) (outer : Bool) : Facts (treePrepareMany be n cnt outer) (tbPrepare be n) := by
  unfold treePrepareMany
  cases outer
  · simpa using (prepare_facts be n 1).loop cnt
  · simpa using ((prepare_facts be n 1).loop cnt).need _ (Nat.le_refl _)

theorem cbtKeyPrepare_facts (be : BE) (n nLwe rank nAtk : Nat) : Facts (treeCbtKeyPrepare be n nLwe rank nAtk) (tbPrepare be n) := by
  unfold treeCbtKeyPrepare
  exact (Facts.alt3 (prepareMany_facts be n nLwe false) (prepareMany_facts be n rank true) ((prepare_facts be n 2).loop nAtk)).mono
    (by omega)

theorem bddKeyPrepare_facts (be : BE) (n nLwe rank nAtk : Nat) (ksGlwe : Bool) :
    Facts (treeBddKeyPrepare be n nLwe rank nAtk ksGlwe) (tbPrepare be n) := by
  unfold treeBddKeyPrepare
  have h2 : Facts (if ksGlwe = true then treePrepare be n 2 else .done) (tbPrepare be n) :=
    Facts.ite (prepare_facts be n 2) (Facts.done.mono (Nat.zero_le _))
  exact (Facts.alt3 (cbtKeyPrepare_facts be n nLwe rank nAtk) h2 (prepare_facts be n 3)).mono (by omega)

/-! ### compressed key wrappers -/

theorem gglweCompressed_Facts (be : BE) (n : Nat) (k : K) (hn : n % 8 = 0) :
    Facts (treeGglweCompressedEncryptSk be n k) (tbGgxEncryptSk be n k.size) := gglweCompressedEncryptSk_facts be n k hn

theorem switchingKeyCompressed_facts (be : BE) (n : Nat) (k : K) (hn : n % 8 = 0) :
    Facts (treeSwitchingKeyCompressedEncryptSk be n k) (tbSwitchingKeyEncryptSk be n k) := by
  unfold treeSwitchingKeyCompressedEncryptSk
  refine (Facts.take _ (scalar_mod64 hn _) (Facts.take _ (svp_mod64 be hn _)
    ((Facts.leaf _).alt (gglweCompressed_Facts be n k hn)))).need _ ?_
  unfold tbSwitchingKeyEncryptSk; omega

theorem automorphismKeyCompressed_facts (be : BE) (n : Nat) (k : K) (hn : n % 8 = 0) :
    Facts (treeAutomorphismKeyCompressedEncryptSk be n k) (tbAutomorphismKeyEncryptSk be n k) := by
  unfold treeAutomorphismKeyCompressedEncryptSk
  refine (Facts.take _ (svp_mod64 be hn _) ((Facts.leaf _).alt (gglweCompressed_Facts be n k hn))).need _ ?_
  unfold tbAutomorphismKeyEncryptSk; omega

theorem tensorKeyCompressed_facts (be : BE) (n : Nat) (k : K) (hn : n % 8 = 0) :
    Facts (treeTensorKeyCompressedEncryptSk be n k) (tbTensorKeyEncryptSk be n k) := by
  unfold treeTensorKeyCompressedEncryptSk
  have hp := scalarBytes_mono n (pairs_le_pairs_pairs k.rankOut)
  refine (Facts.take _ (svp_mod64 be hn _) (Facts.take _ (scalar_mod64 hn _)
    (Facts.alt (secretTensorPrepare_facts be n k.rankOut hn)
      (gglweCompressed_Facts be n { k with rankIn := pairs k.rankOut } hn)))).need _ ?_
  unfold tbTensorKeyEncryptSk; simp only; omega

theorem gglweToGgswKeyCompressed_facts (be : BE) (n : Nat) (k : K) (hn : n % 8 = 0) :
    Facts (treeGglweToGgswKeyCompressedEncryptSk be n k) (tbGglweToGgswKeyEncryptSk be n k) := by
  unfold treeGglweToGgswKeyCompressedEncryptSk
  have hp := scalarBytes_mono n (pairs_le_pairs_pairs k.rankOut)
  refine (Facts.take _ (svp_mod64 be hn _) (Facts.take _ (scalar_mod64 hn _)
    (Facts.alt (secretTensorPrepare_facts be n k.rankOut hn)
      (Facts.take _ (scalar_mod64 hn _)
        ((gglweCompressed_Facts be n { k with rankIn := k.rankOut } hn).loop k.rankOut))))).need _ ?_
  unfold tbGglweToGgswKeyEncryptSk; simp only; omega

/-! ### convolution sizes: multiples of 64, monotonicity -/

theorem cnv_mod64 (be : BE) {n : Nat} (hn : n % 8 = 0) (c s : Nat) : cnvBytes be n c s % 64 = 0 := dft_mod64 be hn c s

theorem cnvBytes_mono (be : BE) (n c : Nat) {s s' : Nat} (h : s ≤ s') : cnvBytes be n c s ≤ cnvBytes be n c s' :=
  dftBytes_mono be n c h

theorem cnvPrepLeft_mono (be : BE) (n : Nat) {s s' : Nat} (h : s ≤ s') : cnvPrepLeftTmp be n s s ≤ cnvPrepLeftTmp be n s' s' := by
  cases be
  · simp only [cnvPrepLeftTmp, Nat.min_self]; exact dftBytes_mono .fft64 n 1 h
  · simp [cnvPrepLeftTmp]

theorem cnvPrepRight_mono (be : BE) (n : Nat) {s s' : Nat} (h : s ≤ s') : cnvPrepRightTmp be n s s ≤ cnvPrepRightTmp be n s' s' := by
  cases be
  · simp only [cnvPrepRightTmp, Nat.min_self]; exact dftBytes_mono .fft64 n 1 h
  · simp [cnvPrepRightTmp]

theorem cnvPrepSelf_mono (be : BE) (n : Nat) {s s' : Nat} (h : s ≤ s') : cnvPrepSelfTmp be n s s ≤ cnvPrepSelfTmp be n s' s' := by
  cases be
  · simp only [cnvPrepSelfTmp, Nat.min_self]; exact dftBytes_mono .fft64 n 1 h
  · simp [cnvPrepSelfTmp]

theorem cnvApply_mono (be : BE) {r r' a a' b b' : Nat} (hr : r ≤ r') (ha : a ≤ a') (hb : b ≤ b') :
    cnvApplyTmp be r a b ≤ cnvApplyTmp be r' a' b' := by
  cases be <;> simp only [cnvApplyTmp] <;> omega

theorem cnvPairwise_mono (be : BE) {r r' a a' b b' : Nat} (hr : r ≤ r') (ha : a ≤ a') (hb : b ≤ b') :
    cnvPairwiseTmp be r a b ≤ cnvPairwiseTmp be r' a' b' := by
  cases be
  · simp only [cnvPairwiseTmp, cnvApplyTmp]
    have : (a + b) * 8 * 8 ≤ (a' + b') * 8 * 8 := by omega
    omega
  · simp only [cnvPairwiseTmp, cnvApplyTmp]
    split <;> split <;> omega

theorem cnvPrepLeft_mod64 (be : BE) {n : Nat} (hn : n % 8 = 0) (s : Nat) : cnvPrepLeftTmp be n s s % 64 = 0 := by
  cases be
  · simp only [cnvPrepLeftTmp]; exact dft_mod64 .fft64 hn 1 _
  · simp [cnvPrepLeftTmp]

theorem limbBound_le_worst (full full' rs rb ib off : Nat) (hib : 0 < ib) (hoff : off < ib) (hf : full ≤ full') :
    limbBound full rs rb ib off ≤ limbBoundWorst full' rs rb ib := by
  unfold limbBoundWorst limbBound
  have h : ceilDiv (rs * rb + off) ib ≤ ceilDiv (rs * rb + (ib - 1)) ib := ceilDiv_mono ib (by omega)
  omega

theorem cnvLoBits_lt (off ib : Nat) (h : 0 < ib) : cnvLoBits off ib < ib := Nat.mod_lt _ h

/-! ### the pairwise query as the hal delegate answers it -/

/-- what the tensor formulas need from the pairwise query: the buffer `cnv_pairwise_apply_dft` takes for an accumulator of `D`
limbs is covered by one of the alternatives the formula maximises over (diagonal query for `D`, pairwise query answered
for `q` result limbs, temporary of `rs` limbs + normalisation) -/
def PairwiseCovered (be : BE) (n rs D q a b : Nat) : Prop :=
  cnvPairwiseTmp be D a b ≤ max (cnvApplyTmp be D a b) (max (cnvPairwiseTmp be q a b) (vecBytes n 1 rs + bigNormTmp be n))

/-- NTT120: the pairwise buffer does not depend on the result size -/
theorem pairwiseCovered_ntt120 (n rs D q a b : Nat) : PairwiseCovered .ntt120 n rs D q a b := by
  unfold PairwiseCovered
  simp only [cnvPairwiseTmp, cnvApplyTmp]
  split <;> split <;> omega

/-- FFT64: from `N ≥ 8·(a + b)` on the normalisation scratch (24·N bytes) covers it -/
theorem pairwiseCovered_fft64 (n rs D q a b : Nat) (h : 8 * (a + b) ≤ n) : PairwiseCovered .fft64 n rs D q a b := by
  unfold PairwiseCovered
  simp only [cnvPairwiseTmp, cnvApplyTmp, bigNormTmp, BE.big]
  omega

/-! ### glwe_mul_plain, glwe_tensor_apply, glwe_tensor_square_apply -/

/-- the per-column body of the three products: an accumulator, the convolution, the normalisation -/
theorem cnvBody_facts (be : BE) {n : Nat} (hn : n % 8 = 0) (rd tmp : Nat) (tail : AllocTree) (tt : Nat) (ht : Facts tail tt) :
    Facts (.take (dftBytes be n 1 rd) (.alt (leaf tmp) tail)) (dftBytes be n 1 rd + max tmp tt) :=
  Facts.take _ (dft_mod64 be hn 1 rd) ((Facts.leaf tmp).alt ht)

theorem bigNorm_Facts (be : BE) (n : Nat) : Facts (treeBigNormalize be n) (bigNormTmp be n) := by
  simp only [treeBigNormalize]; exact Facts.leaf _

theorem mulPlain_facts (be : BE) (n off : Nat) (res a : G) (bSize ea eb : Nat) (hn : n % 8 = 0)
    (hea : ea ≤ a.size) (heb : eb ≤ bSize) (hoff : cnvHi off a.b2k ≤ ea + eb) :
    Facts (treeGlweMulPlain be n off res a bSize ea eb) (tbGlweMulPlain be n res a bSize) := by
  unfold treeGlweMulPlain
  simp only [wsub, if_pos hoff]
  have hrd : ea + eb - cnvHi off a.b2k ≤ a.size + bSize := by omega
  have body := cnvBody_facts be hn (ea + eb - cnvHi off a.b2k) (cnvApplyTmp be (ea + eb - cnvHi off a.b2k) ea eb) _ _ (bigNorm_Facts be n)
  have h3 := Facts.alt3 (Facts.leaf (cnvPrepLeftTmp be n ea ea)) (Facts.leaf (cnvPrepRightTmp be n eb eb)) (body.loop (res.rank + 1))
  refine (Facts.take _ (cnv_mod64 be hn _ _) (Facts.take _ (cnv_mod64 be hn _ _) h3)).need _ ?_
  have m1 := cnvBytes_mono be n (res.rank + 1) hea
  have m2 := cnvBytes_mono be n 1 heb
  have m3 := cnvPrepLeft_mono be n hea
  have m4 := cnvPrepRight_mono be n heb
  have m5 := dftBytes_mono be n 1 hrd
  have m6 := cnvApply_mono be hrd hea heb
  unfold tbGlweMulPlain
  simp only
  omega

theorem mulPlainAssign_facts (be : BE) (n off : Nat) (res : G) (aSize er ea : Nat) (hn : n % 8 = 0)
    (her : er ≤ res.size) (hea : ea ≤ aSize) (hoff : cnvHi off res.b2k ≤ ea + er) :
    Facts (treeGlweMulPlainAssign be n off res aSize er ea) (tbGlweMulPlain be n res res aSize) := by
  unfold treeGlweMulPlainAssign
  simp only [wsub, if_pos hoff]
  have hrd : ea + er - cnvHi off res.b2k ≤ res.size + aSize := by omega
  have body := cnvBody_facts be hn (ea + er - cnvHi off res.b2k) (cnvApplyTmp be (ea + er - cnvHi off res.b2k) er ea) _ _ (bigNorm_Facts be n)
  have h3 := Facts.alt3 (Facts.leaf (cnvPrepLeftTmp be n er er)) (Facts.leaf (cnvPrepRightTmp be n ea ea)) (body.loop (res.rank + 1))
  refine (Facts.take _ (cnv_mod64 be hn _ _) (Facts.take _ (cnv_mod64 be hn _ _) h3)).need _ ?_
  have m1 := cnvBytes_mono be n (res.rank + 1) her
  have m2 := cnvBytes_mono be n 1 hea
  have m3 := cnvPrepLeft_mono be n her
  have m4 := cnvPrepRight_mono be n hea
  have m5 := dftBytes_mono be n 1 hrd
  have m6 := cnvApply_mono be hrd her hea
  unfold tbGlweMulPlain
  simp only
  omega

theorem tensorApply_facts (be : BE) (n off : Nat) (res a : G) (bSize ea eb : Nat) (hn : n % 8 = 0)
    (hea : ea ≤ a.size) (heb : eb ≤ bSize) (hib : 0 < a.b2k) (hoff : cnvHi off a.b2k ≤ ea + eb)
    (hpw : PairwiseCovered be n res.size (limbBoundWorst (a.size + bSize) res.size res.b2k a.b2k) (min a.size bSize) a.size bSize) :
    Facts (treeGlweTensorApply be n off res a bSize ea eb) (tbGlweTensorApply be n res a bSize) := by
  unfold treeGlweTensorApply
  simp only [wsub, if_pos hoff]
  have hdd := limbBound_le_worst (ea + eb - cnvHi off a.b2k) (a.size + bSize) res.size res.b2k a.b2k (cnvLoBits off a.b2k) hib
    (cnvLoBits_lt off a.b2k hib) (by omega)
  generalize limbBound (ea + eb - cnvHi off a.b2k) res.size res.b2k a.b2k (cnvLoBits off a.b2k) = dd at hdd
  generalize hD : limbBoundWorst (a.size + bSize) res.size res.b2k a.b2k = D at hdd hpw
  unfold PairwiseCovered at hpw
  have tail : Facts (AllocTree.take (vecBytes n 1 res.size) (treeBigNormalize be n)) (vecBytes n 1 res.size + bigNormTmp be n) :=
    Facts.take _ (vec_mod64 hn 1 res.size) (bigNorm_Facts be n)
  have b1 := cnvBody_facts be hn dd (cnvApplyTmp be dd ea eb) _ _ tail
  have b2 := cnvBody_facts be hn dd (cnvPairwiseTmp be dd ea eb) _ _ tail
  have h4 := Facts.alt4 (Facts.leaf (cnvPrepLeftTmp be n ea ea)) (Facts.leaf (cnvPrepRightTmp be n eb eb))
    (b1.loop (res.rank + 1)) (b2.loop ((res.rank + 1) * (res.rank + 1 - 1) / 2))
  refine (Facts.take _ (cnv_mod64 be hn _ _) (Facts.take _ (cnv_mod64 be hn _ _) h4)).need _ ?_
  have m1 := cnvBytes_mono be n (res.rank + 1) hea
  have m2 := cnvBytes_mono be n (res.rank + 1) heb
  have m3 := cnvPrepLeft_mono be n hea
  have m4 := cnvPrepRight_mono be n heb
  have m5 := dftBytes_mono be n 1 hdd
  have m6 := cnvApply_mono be hdd hea heb
  have m7 := cnvPairwise_mono be hdd hea heb
  unfold tbGlweTensorApply cnvPairwiseQuery
  simp only [hD]
  omega

theorem tensorSquare_facts (be : BE) (n off : Nat) (res a : G) (ea : Nat) (hn : n % 8 = 0)
    (hea : ea ≤ a.size) (hib : 0 < a.b2k) (hoff : cnvHi off a.b2k ≤ 2 * ea)
    (hpw : PairwiseCovered be n 0 (limbBoundWorst (2 * a.size) res.size res.b2k a.b2k) a.size a.size a.size) :
    Facts (treeGlweTensorSquare be n off res a ea) (tbGlweTensorSquare be n res a) := by
  unfold treeGlweTensorSquare
  simp only [wsub, if_pos hoff]
  have hdd := limbBound_le_worst (2 * ea - cnvHi off a.b2k) (2 * a.size) res.size res.b2k a.b2k (cnvLoBits off a.b2k) hib
    (cnvLoBits_lt off a.b2k hib) (by omega)
  generalize limbBound (2 * ea - cnvHi off a.b2k) res.size res.b2k a.b2k (cnvLoBits off a.b2k) = dd at hdd
  generalize hD : limbBoundWorst (2 * a.size) res.size res.b2k a.b2k = D at hdd hpw
  unfold PairwiseCovered at hpw
  have hv0 : vecBytes n 1 0 = 0 := by simp [vecBytes]
  rw [hv0] at hpw
  have b1 := cnvBody_facts be hn dd (cnvApplyTmp be dd ea ea) _ _ (bigNorm_Facts be n)
  have b2 := cnvBody_facts be hn dd (cnvPairwiseTmp be dd ea ea) _ _ (bigNorm_Facts be n)
  refine (Facts.take _ (cnv_mod64 be hn _ _) (Facts.take _ (cnv_mod64 be hn _ _)
    ((Facts.leaf (cnvPrepSelfTmp be n ea ea)).alt
      (Facts.take _ (vec_mod64 hn (res.rank + 1) res.size) ((b1.loop _).alt (b2.loop _)))))).need _ ?_
  have m1 := cnvBytes_mono be n (res.rank + 1) hea
  have m3 := cnvPrepSelf_mono be n hea
  have m5 := dftBytes_mono be n 1 hdd
  have m6 := cnvApply_mono be hdd hea hea
  have m7 := cnvPairwise_mono be hdd hea hea
  unfold tbGlweTensorSquare cnvPairwiseQuery
  simp only [hD]
  omega

end Scratch
