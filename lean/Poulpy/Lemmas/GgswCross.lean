import Poulpy.Lemmas.GgswDecrypt
import Poulpy.Lemmas.GgswDecrypt2

/-!
# GGSW row expansion, the cross-radix path (C03)

`ggsw_expand_row` converts the column-0 cell into the radix of the tensor key when the result radix `rb` differs from `t.base2k`
(`Core.expandPre`, branch `rb ≠ t.base2k`: `vec_znx_normalize` of the body and of every mask column into `⌈rs·rb / b⌉` limbs of radix
`2^b`, `b = t.base2k`).  This file composes that conversion (C08's kernel facts discharged by `KsDec.convIn_phase`) with the equal-radix
statements of `Lemmas/GgswDecrypt.lean`:

* `expandPre_cross_wf` — the `(a0, aDft)` of the cross branch are the body / mask columns of the converted cell `yc`
  (`Ks.convIn y kd`, `kd` any key of radix `b`);
* `row_cells_decrypt_cross`, `row_cells_decrypt_of_col0_cross` — one row of the executed expansion, `rb ≠ t.base2k`;
* `ggsw_keyswitch_decrypts_cross` — the executed `ggsw_keyswitch` with a result radix different from the tensor-key radix, every cell.
-/

namespace KsDec
open Hal Core Core.Ops C02L

/-- a key that only carries the radix `b` (what `Ks.convIn` reads) -/
def radixKey (b : Nat) : Ks.Key := ⟨b, 1, 1, ⟨0, 0, 0, 0, 0, []⟩⟩

theorem mapM_some_all {α β : Type} (f : α → Option β) (g : α → β) :
    ∀ (L : List α), (∀ x ∈ L, f x = some (g x)) → L.mapM f = some (L.map g)
  | [], _ => rfl
  | x :: xs, h => by
    rw [List.mapM_cons, h x List.mem_cons_self, mapM_some_all f g xs (fun y hy => h y (List.mem_cons_of_mem _ hy))]
    rfl

/-- the columns of the converted cell, one by one: `normalizeCol?` of the column of `y` -/
theorem convIn_cols (N : Nat) (y yc : Ks.Ct) (b : Nat) (hy : GWF N y) (hne : y.base2k ≠ b)
    (hconv : Ks.convIn y (radixKey b) = .ok yc) :
    yc.cols.length = y.cols.length ∧ ∀ i, i < y.cols.length →
      normalizeCol? b ((y.size * y.base2k + b - 1) / b) 0 (y.cols.getD i []) y.base2k N = some (yc.cols.getD i []) := by
  unfold Ks.convIn at hconv
  rw [if_pos (by simpa [radixKey] using hne)] at hconv
  unfold Ks.glweNormalize at hconv
  obtain ⟨cs, hcs, h⟩ := Ks.obind_ok hconv
  injection h with h
  subst h
  obtain ⟨hl, hi⟩ := Ks.oall_ok _ cs hcs
  rw [List.length_map] at hl
  refine ⟨hl, ?_⟩
  intro i hi'
  have hci : cs[i]? = some (cs.getD i []) := by
    rw [List.getD_eq_getElem?_getD, List.getElem?_eq_getElem (by omega)]; rfl
  have := hi i _ hci
  rw [List.getElem?_map, List.getElem?_eq_getElem hi', Option.map_some] at this
  injection this with this
  have e : y.cols.getD i [] = y.cols[i] := by
    rw [List.getD_eq_getElem?_getD, List.getElem?_eq_getElem hi']; rfl
  rw [e]
  show normalizeCol? b (Ks.divCeil (y.size * y.base2k) b) 0 y.cols[i] y.base2k N = some (cs.getD i [])
  rw [hy.1] at this
  cases hq : normalizeCol? b (Ks.divCeil (y.size * y.base2k) b) 0 y.cols[i] y.base2k N with
  | none =>
    simp only [radixKey] at this
    rw [hq] at this
    simp [Ks.ofOpt] at this
  | some v =>
    simp only [radixKey] at this
    rw [hq] at this
    simp only [Ks.ofOpt] at this
    injection this with this
    rw [this]

/-- **the cross branch of `Core.expandPre` returns the body and the mask columns of the converted cell** -/
theorem expandPre_cross_wf (N rb rs : Nat) (y yc : Ks.Ct) (t : ToGGSWKey) (hy : GWF N y) (hyb : y.base2k = rb) (hys : y.size = rs)
    (hrank : y.rank = t.rank) (hne : rb ≠ t.base2k) (hconv : Ks.convIn y (radixKey t.base2k) = .ok yc) (gyc : GWF N yc)
    (hsz : yc.size = (rs * rb + t.base2k - 1) / t.base2k) :
    expandPre N rb rs y.cols t = some (yc.cols.getD 0 [], maskOf t yc) := by
  subst hyb; subst hys
  obtain ⟨hl, hcols⟩ := convIn_cols N y yc t.base2k hy hne hconv
  have hlen := hy.len
  unfold expandPre
  rw [if_neg hne]
  have hm : (List.range t.rank).mapM (fun i =>
        (normalizeCol? t.base2k ((y.size * y.base2k + t.base2k - 1) / t.base2k) 0 (y.cols.getD (i + 1) []) y.base2k N).map
          (fun c => Hal.dftApplyCol N 1 0 ((y.size * y.base2k + t.base2k - 1) / t.base2k) c)) = some (maskOf t yc) := by
    unfold maskOf
    apply mapM_some_all
    intro i hi
    have hi' : i < t.rank := List.mem_range.mp hi
    rw [hcols (i + 1) (by omega), Option.map_some]
    have hw : (yc.cols.getD (i + 1) []).length = yc.size := (gyc.col_wf (i + 1) (by
      have : yc.cols.length = yc.rank + 1 := gyc.len
      omega)).1
    have := Ks.dftApplyCol_id N (yc.cols.getD (i + 1) [])
    rw [hw, hsz] at this
    rw [this]
  rw [hm, Option.bind_some, hcols 0 (by omega), Option.map_some]

/-! ### one row of the expansion, `rb ≠ t.base2k` -/

/-- limb count of the converted column-0 cell -/
def crossSize (rb rs b : Nat) : Nat := (rs * rb + b - 1) / b

/-- **`row_cells_decrypt_cross`** — one row of the executed row expansion when the result radix `rb` differs from the tensor-key radix
`b = t.base2k` (covered regime on the converted cell: `sc = ⌈rs·rb/b⌉ ≤ min(t.size, dnum·dsize)`, both accumulator widths, every
`dsize ≥ 1`, every rank).  `y` is the column-0 cell of row `r` (digits `≤ Hin`), `yc` its conversion into the key radix
(`Ks.convIn y (radixKey b)`, what `Core.expandPre` computes column by column), `Hp` bounds the `rank` gadget products of the converted mask,
`Hp + (Hin + 2^b) + 8 ≤ 2^62` resp. `2^126`.  Then every cell `(r, c+1)` exists, is well formed in radix `rb` with digits `≤ 2^rb − 1`, and
with `S = t.size`, `V_y = val_rb(phase y)`:
`2^(b·S)·val_rb(phase cell) = 2^(b·S)·s_c·V_y + (2^(b·(S−sc))·s_c·ι(E₁) + 2^(rb·rs)·expandErr_c + ι(E₃)) + 2^(rb·rs + b·S)·(s_c·ι(Q₁) + ι(Q₃))`,
`‖E₁‖∞ ≤ (1+‖sk‖₁)·normTol(b·sc, rb·rs)` (`= 0`: the conversion never loses precision), `‖E₃‖∞ ≤ (1+‖sk‖₁)·normTol(rb·rs, b·S)`. -/
theorem row_cells_decrypt_cross (N : Nat) (big128 : Bool) (rb rs : Nat) (t : ToGGSWKey) (cells : List (List Col)) (sk : List Poly)
    (E : ℕ → ℕ → ℕ → Ks.R N) (r : Nat) (y : Ks.Ct) (Hin Hp : Int)
    (hv : Ks.RowCellsValue N big128 rb rs t cells sk ((2 : Ks.R N) ^ t.base2k) (fun i => Ks.ι N (sk.getD i [])) E r y)
    (hN : 0 < N) (hy : GWF N y) (hyb : y.base2k = rb) (hys : y.size = rs) (hrank : y.rank = t.rank) (hd : 1 ≤ t.dsize) (hn : t.n = N)
    (hM : ∀ c, c < t.rank → ∀ j q, ((t.at c).toPMat.entry j q).length = N) (hsk : t.rank ≤ sk.length)
    (hrb1 : 1 ≤ rb) (hrb : rb ≤ 62) (hb1 : 1 ≤ t.base2k) (hb : t.base2k ≤ 62) (hne : rb ≠ t.base2k)
    (h1 : crossSize rb rs t.base2k ≤ t.size) (h2 : crossSize rb rs t.base2k ≤ t.dnum * t.dsize)
    (hIn0 : 0 ≤ Hin) (hIn : Hin + 8 ≤ 2 ^ 62) (hyB : ∀ c ∈ y.cols, ∀ l ∈ c, ∀ x ∈ l, |x| ≤ Hin)
    (hHp0 : 0 ≤ Hp) (hH : Hp + (Hin + 2 ^ t.base2k) + 8 ≤ 2 ^ (bitsOf big128 - 2))
    (hprod : ∀ yc, Ks.convIn y (radixKey t.base2k) = .ok yc →
      ∀ c, c < t.rank → ∀ col ∈ expandProd N (maskOf t yc) t c, ∀ l ∈ col, ∀ x ∈ l, |x| ≤ Hp) :
    ∃ yc, Ks.convIn y (radixKey t.base2k) = .ok yc ∧ GWF N yc ∧ yc.base2k = t.base2k ∧ yc.rank = t.rank ∧
      yc.size = crossSize rb rs t.base2k ∧
      ∃ E1 Q1 : Poly, E1.length = N ∧ Q1.length = N ∧
        normInf E1 ≤ (1 + snorm (min t.rank sk.length) sk) * C02.normTol (t.base2k * crossSize rb rs t.base2k) (rb * rs) ∧
        ∀ c, c < t.rank → ∃ cell, cells[r * (t.rank + 1) + (c + 1)]? = some cell ∧ cell.length = t.rank + 1 ∧
          (∀ col ∈ cell, ColWF N rs col) ∧ (∀ col ∈ cell, ∀ l ∈ col, ∀ x ∈ l, |x| ≤ 2 ^ rb - 1) ∧
          ∃ E3 Q3 : Poly, E3.length = N ∧ Q3.length = N ∧
            normInf E3 ≤ (1 + snorm (min t.rank sk.length) sk) * C02.normTol (rb * rs) (t.base2k * t.size) ∧
            (2 : Ks.R N) ^ (t.base2k * t.size) * Ks.ι N (valP rb N (phase sk (Ks.mkCt rb N cell)))
              = (2 : Ks.R N) ^ (t.base2k * t.size) * (Ks.ι N (sk.getD c []) * Ks.ι N (valP rb N (phase sk y)))
                + ((2 : Ks.R N) ^ (t.base2k * (t.size - crossSize rb rs t.base2k)) * (Ks.ι N (sk.getD c []) * Ks.ι N E1)
                  + (2 : Ks.R N) ^ (rb * rs) * expandErr N sk (maskOf t yc) t c ((2 : Ks.R N) ^ t.base2k) (E c)
                  + Ks.ι N E3)
                + (2 : Ks.R N) ^ (rb * rs + t.base2k * t.size) * (Ks.ι N (sk.getD c []) * Ks.ι N Q1 + Ks.ι N Q3) := by
  subst hyb; subst hys
  have hkb : (radixKey t.base2k).base2k = t.base2k := rfl
  obtain ⟨yc, hconv, gyc, hycb, hycr, hycs, hycB, hycph⟩ := convIn_phase N y (radixKey t.base2k) Hin hy hrb1 hrb hb1 hb hIn0 hIn hyB
  have hcs : convSize y (radixKey t.base2k) = crossSize y.base2k y.size t.base2k := by
    unfold convSize crossSize
    rw [if_pos (by simpa [radixKey] using hne)]
    rfl
  rw [hkb] at hycb hycB hycph
  rw [hcs] at hycs hycph
  have hycrank : yc.rank = t.rank := by rw [hycr, hrank]
  -- the conversion, lifted to the ring
  have hmin : min y.rank sk.length = t.rank := by rw [hrank]; omega
  have hmin' : min t.rank sk.length = t.rank := by omega
  obtain ⟨E1, Q1, hE1, hQ1, hn1, hr1⟩ := coeff_to_ring N hN (phase sk yc) (phase sk y) t.base2k y.base2k
    (2 ^ (y.base2k * y.size)) (2 ^ (t.base2k * crossSize y.base2k y.size t.base2k))
    (2 ^ (t.base2k * crossSize y.base2k y.size t.base2k + y.base2k * y.size))
    ((1 + snorm (min y.rank sk.length) sk) * C02.normTol (t.base2k * crossSize y.base2k y.size t.base2k) (y.base2k * y.size))
    (fun tt ht => by
      obtain ⟨q, e, h1', h2'⟩ := hycph sk tt ht
      exact ⟨q, e, h1', h2'⟩)
  rw [hmin] at hn1
  refine ⟨yc, hconv, gyc, hycb, hycrank, hycs, E1, Q1, hE1, hQ1, by rw [hmin']; exact hn1, ?_⟩
  obtain ⟨_, a0, aDft, hpre, hcells⟩ := hv
  rw [expandPre_cross_wf N y.base2k y.size y yc t hy rfl rfl hrank hne hconv gyc hycs] at hpre
  injection hpre with hpre
  injection hpre with e1 e2
  subst e1; subst e2
  intro c hc
  obtain ⟨cell, hidx, hnorm, hval⟩ := hcells c hc
  have hlenP := expandProd_length N (maskOf t yc) t c
  have hc1 : c + 1 < (expandProd N (maskOf t yc) t c).length := by rw [hlenP]; omega
  have hmem : (expandProd N (maskOf t yc) t c).getD (c + 1) [] ∈ expandProd N (maskOf t yc) t c := by
    rw [List.getD_eq_getElem?_getD, List.getElem?_eq_getElem hc1]
    exact List.getElem_mem hc1
  have hp2 : (0 : Int) ≤ 2 ^ t.base2k := by positivity
  have hHa0 : (0 : Int) ≤ Hin + 2 ^ t.base2k := by linarith
  have hHadd : Hp + (Hin + 2 ^ t.base2k) < 2 ^ (bitsOf big128 - 1) := by
    have h2 : (2 : Int) ^ (bitsOf big128 - 2) ≤ 2 ^ (bitsOf big128 - 1) := pow_le_pow_right₀ (by norm_num) (by omega)
    linarith
  have hbodymem : yc.cols.getD 0 [] ∈ yc.cols := col_mem 0 (by rw [gyc.len]; omega)
  have hbody : ∀ l ∈ yc.cols.getD 0 [], ∀ x ∈ l, |x| ≤ Hin + 2 ^ t.base2k := fun l hl x hx => hycB _ hbodymem l hl x hx
  have hok := expandOk_of_bounds N big128 (yc.cols.getD 0 []) (maskOf t yc) t c Hp (Hin + 2 ^ t.base2k) hd hn (hM c hc) hc
    (gyc.col_limbs 0) hHadd (hprod yc hconv c hc _ hmem) hbody
  obtain ⟨hAwf, hAb⟩ := expandAcc_wf_bound N big128 _ _ t c Hp (Hin + 2 ^ t.base2k) hok hc hHa0 (hprod yc hconv c hc) hbody
  have hAlen := expandAcc_length big128 N (yc.cols.getD 0 []) (maskOf t yc) t c
  have hAne : expandAcc big128 N (yc.cols.getD 0 []) (maskOf t yc) t c ≠ [] := by
    intro h; rw [h] at hAlen; simp at hAlen
  obtain ⟨hcl, hcwf, hdig, hph⟩ := acc_norm_phase big128 N y.base2k y.size t.base2k t.size (Hp + (Hin + 2 ^ t.base2k)) _ cell hN hrb1 hrb
    hb1 hb (by linarith) hH hAne hAwf hAb hnorm
  refine ⟨cell, hidx, by rw [hcl, hAlen], hcwf, hdig, ?_⟩
  obtain ⟨E3, Q3, hE3, hQ3, hn3, hr⟩ := hph sk
  rw [hAlen] at hn3
  refine ⟨E3, Q3, hE3, hQ3, by simpa using hn3, ?_⟩
  have hrv := rowVal_same N hN yc t sk gyc hycrank hd hsk (by rw [hycs]; exact h1) (by rw [hycs]; exact h2)
  rw [hval hok, hrv, hycs] at hr
  have hpw : ((2 : Ks.R N) ^ t.base2k) ^ (t.size - crossSize y.base2k y.size t.base2k) * (2 : Ks.R N) ^ (t.base2k * crossSize y.base2k y.size t.base2k)
      = (2 : Ks.R N) ^ (t.base2k * t.size) := by
    rw [← pow_mul, ← pow_add, ← Nat.mul_add]
    congr 2
    omega
  have hpw2 : ((2 : Ks.R N) ^ t.base2k) ^ (t.size - crossSize y.base2k y.size t.base2k)
      = (2 : Ks.R N) ^ (t.base2k * (t.size - crossSize y.base2k y.size t.base2k)) := by rw [← pow_mul]
  push_cast at hr1
  rw [hr]
  simp only [pow_add] at hr1 ⊢
  rw [← hpw, hpw2]
  linear_combination ((2 : Ks.R N) ^ (t.base2k * (t.size - crossSize y.base2k y.size t.base2k)) * Ks.ι N (sk.getD c [])) * hr1

/-- **one row, composed with the relation of its column-0 cell** (`rb ≠ t.base2k`): if the column-0 cell `y` satisfies
`2^A1·val(phase y) = 2^A2·M + Err₀ + 2^(A1 + rb·rs)·Q`, every cell `(r, c+1)` satisfies
`2^(A1+b·S)·val(phase cell) = 2^(A2+b·S)·(s_c·M) + (2^(b·S)·s_c·Err₀ + 2^A1·(2^(b(S−sc))·s_c·ι(E₁) + 2^(rb·rs)·expandErr_c + ι(E₃)))
+ 2^(A1 + rb·rs + b·S)·(s_c·Q + s_c·ι(Q₁) + ι(Q₃))`. -/
theorem row_cells_decrypt_of_col0_cross (N : Nat) (big128 : Bool) (rb rs : Nat) (t : ToGGSWKey) (cells : List (List Col)) (sk : List Poly)
    (E : ℕ → ℕ → ℕ → Ks.R N) (r : Nat) (y : Ks.Ct) (Hin Hp : Int)
    (hv : Ks.RowCellsValue N big128 rb rs t cells sk ((2 : Ks.R N) ^ t.base2k) (fun i => Ks.ι N (sk.getD i [])) E r y)
    (hN : 0 < N) (hy : GWF N y) (hyb : y.base2k = rb) (hys : y.size = rs) (hrank : y.rank = t.rank) (hd : 1 ≤ t.dsize) (hn : t.n = N)
    (hM : ∀ c, c < t.rank → ∀ j q, ((t.at c).toPMat.entry j q).length = N) (hsk : t.rank ≤ sk.length)
    (hrb1 : 1 ≤ rb) (hrb : rb ≤ 62) (hb1 : 1 ≤ t.base2k) (hb : t.base2k ≤ 62) (hne : rb ≠ t.base2k)
    (h1 : crossSize rb rs t.base2k ≤ t.size) (h2 : crossSize rb rs t.base2k ≤ t.dnum * t.dsize)
    (hIn0 : 0 ≤ Hin) (hIn : Hin + 8 ≤ 2 ^ 62) (hyB : ∀ c ∈ y.cols, ∀ l ∈ c, ∀ x ∈ l, |x| ≤ Hin)
    (hHp0 : 0 ≤ Hp) (hH : Hp + (Hin + 2 ^ t.base2k) + 8 ≤ 2 ^ (bitsOf big128 - 2))
    (hprod : ∀ yc, Ks.convIn y (radixKey t.base2k) = .ok yc →
      ∀ c, c < t.rank → ∀ col ∈ expandProd N (maskOf t yc) t c, ∀ l ∈ col, ∀ x ∈ l, |x| ≤ Hp)
    (A1 A2 : Nat) (M Err0 Q : Ks.R N)
    (h0 : (2 : Ks.R N) ^ A1 * Ks.ι N (valP rb N (phase sk y)) = (2 : Ks.R N) ^ A2 * M + Err0 + (2 : Ks.R N) ^ (A1 + rb * rs) * Q) :
    ∃ yc, Ks.convIn y (radixKey t.base2k) = .ok yc ∧ GWF N yc ∧ yc.base2k = t.base2k ∧ yc.rank = t.rank ∧
      yc.size = crossSize rb rs t.base2k ∧
      ∃ E1 Q1 : Poly, E1.length = N ∧ Q1.length = N ∧
        normInf E1 ≤ (1 + snorm (min t.rank sk.length) sk) * C02.normTol (t.base2k * crossSize rb rs t.base2k) (rb * rs) ∧
        ∀ c, c < t.rank → ∃ cell, cells[r * (t.rank + 1) + (c + 1)]? = some cell ∧ cell.length = t.rank + 1 ∧
          (∀ col ∈ cell, ColWF N rs col) ∧ (∀ col ∈ cell, ∀ l ∈ col, ∀ x ∈ l, |x| ≤ 2 ^ rb - 1) ∧
          ∃ E3 Q3 : Poly, E3.length = N ∧ Q3.length = N ∧
            normInf E3 ≤ (1 + snorm (min t.rank sk.length) sk) * C02.normTol (rb * rs) (t.base2k * t.size) ∧
            (2 : Ks.R N) ^ (A1 + t.base2k * t.size) * Ks.ι N (valP rb N (phase sk (Ks.mkCt rb N cell)))
              = (2 : Ks.R N) ^ (A2 + t.base2k * t.size) * (Ks.ι N (sk.getD c []) * M)
                + ((2 : Ks.R N) ^ (t.base2k * t.size) * (Ks.ι N (sk.getD c []) * Err0)
                  + (2 : Ks.R N) ^ A1 *
                      ((2 : Ks.R N) ^ (t.base2k * (t.size - crossSize rb rs t.base2k)) * (Ks.ι N (sk.getD c []) * Ks.ι N E1)
                        + (2 : Ks.R N) ^ (rb * rs) * expandErr N sk (maskOf t yc) t c ((2 : Ks.R N) ^ t.base2k) (E c)
                        + Ks.ι N E3))
                + (2 : Ks.R N) ^ (A1 + rb * rs + t.base2k * t.size) *
                    (Ks.ι N (sk.getD c []) * Q + Ks.ι N (sk.getD c []) * Ks.ι N Q1 + Ks.ι N Q3) := by
  obtain ⟨yc, hconv, gyc, hycb, hycr, hycs, E1, Q1, hE1, hQ1, hn1, hcellsR⟩ :=
    row_cells_decrypt_cross N big128 rb rs t cells sk E r y Hin Hp hv hN hy hyb hys hrank hd hn hM hsk hrb1 hrb hb1 hb hne h1 h2
      hIn0 hIn hyB hHp0 hH hprod
  refine ⟨yc, hconv, gyc, hycb, hycr, hycs, E1, Q1, hE1, hQ1, hn1, ?_⟩
  intro c hc
  obtain ⟨cell, hidx, hlen, hwf, hdig, E3, Q3, hE3, hQ3, hn3, hr⟩ := hcellsR c hc
  refine ⟨cell, hidx, hlen, hwf, hdig, E3, Q3, hE3, hQ3, hn3, ?_⟩
  simp only [pow_add] at h0 hr ⊢
  linear_combination (2 : Ks.R N) ^ A1 * hr + (2 : Ks.R N) ^ (t.base2k * t.size) * Ks.ι N (sk.getD c []) * h0

/-! ### `ggsw_keyswitch` with a result radix different from the tensor-key radix, every cell -/

/-- **`ggsw_keyswitch_decrypts_cross`** — the executed `Ks.ggswKeyswitch` with result radix `rb ≠ t.base2k` (`1 ≤ rb ≤ 61`): the column-0
cells are key-switched into radix `rb` (`glwe_keyswitch_decrypts`), then `ggsw_expand_row` converts each of them into the tensor-key radix
(`Core.expandPre`, cross branch) before the `rank` gadget products, and normalises the accumulators back into radix `rb`.  Covered regimes:
`KsRowOk` for the key switch, `⌈rs·rb/b⌉ ≤ min(t.size, dnum_t·dsize_t)` for the expansion.  Head-room of the expansion: `HpT` bounds the
gadget products of the converted mask, the converted body is bounded by `(2^rb − 1) + 2^b`.  For every row `r < rd`: cell `(r,0)` is the
key-switched operand cell (relation of `glwe_keyswitch_decrypts`), and every cell `(r, c+1)` encrypts `s_c·`(message of `a.at(r,0)`):
`2^(A1+b·S)·val_rb(phase cell) = 2^(A2+b·S)·s_c·val(phase_{sIn} x) + Err_c + 2^(A1+rb·rs+b·S)·(…)`, `A1 = b_x·s_x + b_key·S_key`,
`A2 = rb·rs + b_key·S_key`, `Err_c = 2^(b·S)·s_c·ι(ksErr) + 2^A1·(2^(b(S−sc))·s_c·ι(E₁) + 2^(rb·rs)·expandErr_c + ι(E₃ᶜ))`. -/
theorem ggsw_keyswitch_decrypts_cross (N : Nat) (big128 : Bool) (rb rs rd rds ab ads : Nat) (aCol0 : List Ks.Ct) (key : Ks.Key)
    (t : ToGGSWKey) (cells : List (List Col)) (sIn skOut : List Poly) (EL KL : ℕ → ℕ → Poly) (ET : ℕ → ℕ → ℕ → Ks.R N) (Hin Hp HpT : Int)
    (hN : 0 < N) (hrout : t.rank = key.rankOut) (hc0 : 0 < key.mat.colsOut)
    (hD : 1 ≤ key.dsize) (hMk : ∀ j q, (key.mat.entry j q).length = N) (hSk : key.mat.rows * key.dsize ≤ key.mat.size)
    (hbk1 : 1 ≤ key.base2k) (hbk : key.base2k ≤ 62) (hs : key.mat.colsIn ≤ sIn.length)
    (hEL : ∀ i r, (EL i r).length = N) (hKL : ∀ i r, (KL i r).length = N)
    (hkey : ∀ i, i < key.mat.colsIn → ∀ r, r < key.mat.rows →
      Gadget.val (Ks.radix N key.base2k) key.mat.size (Ks.keyPhase N skOut key.mat i r) =
        Ks.ι N (sIn.getD i []) * Ks.radix N key.base2k ^ (key.mat.size - (r + 1) * key.dsize) + Ks.ι N (EL i r)
          + Ks.radix N key.base2k ^ key.mat.size * Ks.ι N (KL i r))
    (hd : 1 ≤ t.dsize) (hn : t.n = N) (hS : t.dnum * t.dsize ≤ t.size) (hrank : t.rank ≤ skOut.length)
    (hMt : ∀ c, c < t.rank → ∀ j q, ((t.at c).toPMat.entry j q).length = N) (hb1 : 1 ≤ t.base2k) (hb : t.base2k ≤ 62)
    (hrb1 : 1 ≤ rb) (hrb : rb ≤ 61) (hne : rb ≠ t.base2k)
    (hkeyT : ∀ c, c < t.rank → ∀ i, i < t.rank → ∀ r, r < t.dnum →
      Gadget.val ((2 : Ks.R N) ^ t.base2k) t.size (Ks.keyPhase N skOut (t.at c).toPMat i r)
        = Ks.ι N (skOut.getD c []) * Ks.ι N (skOut.getD i []) * ((2 : Ks.R N) ^ t.base2k) ^ (t.size - (r + 1) * t.dsize) + ET c i r)
    (hcov1 : crossSize rb rs t.base2k ≤ t.size) (hcov2 : crossSize rb rs t.base2k ≤ t.dnum * t.dsize)
    (hIn0 : 0 ≤ Hin) (hIn : Hin + 8 ≤ 2 ^ 62) (hHp0 : 0 ≤ Hp) (hAcc : Hp + (Hin + 2 ^ key.base2k) + 8 ≤ 2 ^ (bitsOf big128 - 2))
    (hHpT0 : 0 ≤ HpT) (hAccT : HpT + ((2 ^ rb - 1) + 2 ^ t.base2k) + 8 ≤ 2 ^ (bitsOf big128 - 2))
    (hrows : ∀ r x, r < rd → aCol0[r]? = some x → KsRowOk N key.rankOut key Hin Hp x)
    (hprodT : ∀ r x y yc, r < rd → aCol0[r]? = some x → Ks.keyswitch big128 rb rs key.rankOut x key = .ok y →
      Ks.convIn y (radixKey t.base2k) = .ok yc →
      ∀ c, c < t.rank → ∀ col ∈ expandProd N (maskOf t yc) t c, ∀ l ∈ col, ∀ v ∈ l, |v| ≤ HpT)
    (h : Ks.ggswKeyswitch big128 N rb rs rd rds ab ads aCol0 key t = .ok cells) :
    cells.length = rd * (t.rank + 1) ∧
      ∀ r, r < rd → ∃ x y aConv yc, aCol0[r]? = some x ∧ Ks.keyswitch big128 rb rs key.rankOut x key = .ok y ∧
        Ks.convIn x key = .ok aConv ∧ Ks.convIn y (radixKey t.base2k) = .ok yc ∧ cells[r * (t.rank + 1)]? = some y.cols ∧
        GWF N y ∧ y.base2k = rb ∧ y.size = rs ∧ y.rank = t.rank ∧
        ∃ (E1 E3 : Poly) (Q : Ks.R N), E1.length = N ∧ E3.length = N ∧
          normInf E1 ≤ (1 + snorm (min x.rank sIn.length) sIn) * C02.normTol (key.base2k * convSize x key) (x.base2k * x.size) ∧
          normInf E3 ≤ (1 + snorm (min key.rankOut skOut.length) skOut) * C02.normTol (rb * rs) (key.base2k * key.mat.size) ∧
          normInf (ksErrOf N rb rs x aConv key skOut EL E1 E3) ≤ ksErrBound N rb rs key.rankOut x aConv key sIn skOut EL ∧
          (2 : Ks.R N) ^ (x.base2k * x.size + key.base2k * key.mat.size) * Ks.ι N (valP rb N (phase skOut y))
            = (2 : Ks.R N) ^ (rb * rs + key.base2k * key.mat.size) * Ks.ι N (valP x.base2k N (phase sIn x))
              + Ks.ι N (ksErrOf N rb rs x aConv key skOut EL E1 E3)
              + (2 : Ks.R N) ^ (x.base2k * x.size + key.base2k * key.mat.size + rb * rs) * Q ∧
          ∃ E1c Q1c : Poly, E1c.length = N ∧ Q1c.length = N ∧
            normInf E1c ≤ (1 + snorm (min t.rank skOut.length) skOut) * C02.normTol (t.base2k * crossSize rb rs t.base2k) (rb * rs) ∧
            ∀ c, c < t.rank → ∃ cell, cells[r * (t.rank + 1) + (c + 1)]? = some cell ∧ cell.length = t.rank + 1 ∧
              (∀ col ∈ cell, ColWF N rs col) ∧ (∀ col ∈ cell, ∀ l ∈ col, ∀ v ∈ l, |v| ≤ 2 ^ rb - 1) ∧
              ∃ E3c Q3c : Poly, E3c.length = N ∧ Q3c.length = N ∧
                normInf E3c ≤ (1 + snorm (min t.rank skOut.length) skOut) * C02.normTol (rb * rs) (t.base2k * t.size) ∧
                (2 : Ks.R N) ^ (x.base2k * x.size + key.base2k * key.mat.size + t.base2k * t.size) *
                    Ks.ι N (valP rb N (phase skOut (Ks.mkCt rb N cell)))
                  = (2 : Ks.R N) ^ (rb * rs + key.base2k * key.mat.size + t.base2k * t.size) *
                      (Ks.ι N (skOut.getD c []) * Ks.ι N (valP x.base2k N (phase sIn x)))
                    + ((2 : Ks.R N) ^ (t.base2k * t.size) * (Ks.ι N (skOut.getD c []) * Ks.ι N (ksErrOf N rb rs x aConv key skOut EL E1 E3))
                      + (2 : Ks.R N) ^ (x.base2k * x.size + key.base2k * key.mat.size) *
                          ((2 : Ks.R N) ^ (t.base2k * (t.size - crossSize rb rs t.base2k)) * (Ks.ι N (skOut.getD c []) * Ks.ι N E1c)
                            + (2 : Ks.R N) ^ (rb * rs) * expandErr N skOut (maskOf t yc) t c ((2 : Ks.R N) ^ t.base2k) (ET c)
                            + Ks.ι N E3c))
                    + (2 : Ks.R N) ^ (x.base2k * x.size + key.base2k * key.mat.size + rb * rs + t.base2k * t.size) *
                        (Ks.ι N (skOut.getD c []) * Q + Ks.ι N (skOut.getD c []) * Ks.ι N Q1c + Ks.ι N Q3c) := by
  obtain ⟨hlen, hrow⟩ := Ks.ggsw_keyswitch_cells_value N big128 rb rs rd rds ab ads aCol0 key t cells skOut ((2 : Ks.R N) ^ t.base2k)
    (fun i => Ks.ι N (skOut.getD i [])) ET hd hN hn hS hrank hMt hkeyT h
  refine ⟨hlen, ?_⟩
  intro r hr
  obtain ⟨x, y, hx, hks, hv⟩ := hrow r hr
  obtain ⟨gx, hxr, hx1, hx62, hxB, hxP, hxc1, hxc2⟩ := hrows r x hr hx
  have hrb62 : rb ≤ 62 := by omega
  obtain ⟨res, aConv, hok, hconv, gwR, hbR, hsR, hrR, E1, E3, Q, hE1, hE3, hn1, hn3, hmain, hbound⟩ :=
    glwe_keyswitch_decrypts big128 N rb rs key.rankOut x key sIn skOut EL KL Hin Hp hN gx hxr rfl hc0 hD hMk hSk hx1 hx62 hbk1 hbk
      hrb1 hrb62 hIn0 hIn hxB hHp0 hAcc hxP hs hEL hKL hkey hxc1 hxc2
  have hdig := keyswitch_digits big128 N rb rs key.rankOut x key sIn skOut EL KL Hin Hp hN gx hxr rfl hc0 hD hMk hSk hx1 hx62
    hbk1 hbk hrb1 hrb62 hIn0 hIn hxB hHp0 hAcc hxP hEL hKL hkey res hok
  rw [hks] at hok
  injection hok with hok
  subst hok
  have hyrank : y.rank = t.rank := by rw [hrR, hrout]
  have hmain' : (2 : Ks.R N) ^ (x.base2k * x.size + key.base2k * key.mat.size) * Ks.ι N (valP rb N (phase skOut y))
      = (2 : Ks.R N) ^ (rb * rs + key.base2k * key.mat.size) * Ks.ι N (valP x.base2k N (phase sIn x))
        + Ks.ι N (ksErrOf N rb rs x aConv key skOut EL E1 E3)
        + (2 : Ks.R N) ^ (x.base2k * x.size + key.base2k * key.mat.size + rb * rs) * Q := by
    have e : x.base2k * x.size + key.base2k * key.mat.size + rb * rs = x.base2k * x.size + rb * rs + key.base2k * key.mat.size := by
      omega
    rw [e]
    exact hmain
  have hpow : (2 : Int) ^ rb ≤ 2 ^ 61 := pow_le_pow_right₀ (by norm_num) hrb
  have hp1 : (1 : Int) ≤ 2 ^ rb := one_le_pow₀ (by norm_num)
  obtain ⟨yc, hyc, gyc, hycb, hycr, hycs, E1c, Q1c, hE1c, hQ1c, hn1c, hcellsR⟩ :=
    row_cells_decrypt_of_col0_cross N big128 rb rs t cells skOut ET r y (2 ^ rb - 1) HpT hv hN gwR hbR hsR hyrank hd hn hMt hrank
      hrb1 hrb62 hb1 hb hne hcov1 hcov2 (by linarith) (by norm_num at hpow ⊢; linarith) hdig hHpT0 hAccT
      (fun yc hyc => hprodT r x y yc hr hx hks hyc)
      (x.base2k * x.size + key.base2k * key.mat.size) (rb * rs + key.base2k * key.mat.size) _ _ Q hmain'
  exact ⟨x, y, aConv, yc, hx, hks, hconv, hyc, hv.1, gwR, hbR, hsR, hyrank, E1, E3, Q, hE1, hE3, hn1, hn3, hbound, hmain',
    E1c, Q1c, hE1c, hQ1c, hn1c, hcellsR⟩

open AutoMul in
/-- **`ggsw_automorphism_decrypts_cross`** — the executed `Ks.ggswAutomorphism` with result radix `rb ≠ t.base2k` (`1 ≤ rb ≤ 61`); same
regimes and head-room as `ggsw_keyswitch_decrypts_cross`; cell `(r, c)` encrypts `σ_c·σ_g(message of a.at(r,0))`. -/
theorem ggsw_automorphism_decrypts_cross (N : Nat) (big128 : Bool) (rb rs rd rds ab ads : Nat) (aCol0 : List Ks.Ct) (key : Ks.Key)
    (t : ToGGSWKey) (cells : List (List Col)) (sk : List Poly) (gInv : Int) (EL KL : ℕ → ℕ → Poly) (ET : ℕ → ℕ → ℕ → Ks.R N)
    (Hin Hp HpT : Int)
    (hN : 0 < N) (hg : GalOk key.p N) (hskl : Ks.AllLen N sk) (hinv : ∀ s ∈ sk, σ key.p (σ gInv s) = s)
    (hrout : t.rank = key.rankOut) (hc0 : 0 < key.mat.colsOut)
    (hD : 1 ≤ key.dsize) (hMk : ∀ j q, (key.mat.entry j q).length = N) (hSk : key.mat.rows * key.dsize ≤ key.mat.size)
    (hbk1 : 1 ≤ key.base2k) (hbk : key.base2k ≤ 62) (hs : key.mat.colsIn ≤ sk.length)
    (hEL : ∀ i r, (EL i r).length = N) (hKL : ∀ i r, (KL i r).length = N)
    (hkey : ∀ i, i < key.mat.colsIn → ∀ r, r < key.mat.rows →
      Gadget.val (Ks.radix N key.base2k) key.mat.size (Ks.keyPhase N (sk.map (σ gInv)) key.mat i r) =
        Ks.ι N (sk.getD i []) * Ks.radix N key.base2k ^ (key.mat.size - (r + 1) * key.dsize) + Ks.ι N (EL i r)
          + Ks.radix N key.base2k ^ key.mat.size * Ks.ι N (KL i r))
    (hd : 1 ≤ t.dsize) (hn : t.n = N) (hS : t.dnum * t.dsize ≤ t.size) (hrank : t.rank ≤ sk.length)
    (hMt : ∀ c, c < t.rank → ∀ j q, ((t.at c).toPMat.entry j q).length = N) (hb1 : 1 ≤ t.base2k) (hb : t.base2k ≤ 62)
    (hrb1 : 1 ≤ rb) (hrb : rb ≤ 61) (hne : rb ≠ t.base2k)
    (hkeyT : ∀ c, c < t.rank → ∀ i, i < t.rank → ∀ r, r < t.dnum →
      Gadget.val ((2 : Ks.R N) ^ t.base2k) t.size (Ks.keyPhase N sk (t.at c).toPMat i r)
        = Ks.ι N (sk.getD c []) * Ks.ι N (sk.getD i []) * ((2 : Ks.R N) ^ t.base2k) ^ (t.size - (r + 1) * t.dsize) + ET c i r)
    (hcov1 : crossSize rb rs t.base2k ≤ t.size) (hcov2 : crossSize rb rs t.base2k ≤ t.dnum * t.dsize)
    (hIn0 : 0 ≤ Hin) (hIn : Hin + 8 ≤ 2 ^ 62) (hHp0 : 0 ≤ Hp) (hAcc : Hp + (Hin + 2 ^ key.base2k) + 8 ≤ 2 ^ (bitsOf big128 - 2))
    (hHpT0 : 0 ≤ HpT) (hAccT : HpT + ((2 ^ rb - 1) + 2 ^ t.base2k) + 8 ≤ 2 ^ (bitsOf big128 - 2))
    (hrows : ∀ r x, r < rd → aCol0[r]? = some x → KsRowOk N key.rankOut key Hin Hp x)
    (hprodT : ∀ r x y yc, r < rd → aCol0[r]? = some x → Ks.automorphism big128 rb rs key.rankOut x key = .ok y →
      Ks.convIn y (radixKey t.base2k) = .ok yc →
      ∀ c, c < t.rank → ∀ col ∈ expandProd N (maskOf t yc) t c, ∀ l ∈ col, ∀ v ∈ l, |v| ≤ HpT)
    (h : Ks.ggswAutomorphism big128 N rb rs rd rds ab ads aCol0 key t = .ok cells) :
    cells.length = rd * (t.rank + 1) ∧
      ∀ r, r < rd → ∃ x y aConv yc, aCol0[r]? = some x ∧ Ks.automorphism big128 rb rs key.rankOut x key = .ok y ∧
        Ks.convIn x key = .ok aConv ∧ Ks.convIn y (radixKey t.base2k) = .ok yc ∧ cells[r * (t.rank + 1)]? = some y.cols ∧
        GWF N y ∧ y.base2k = rb ∧ y.size = rs ∧ y.rank = t.rank ∧
        ∃ (E1 E3 : Poly) (Q : Ks.R N), E1.length = N ∧ E3.length = N ∧
          normInf E1 ≤ (1 + snorm (min x.rank sk.length) sk) * C02.normTol (key.base2k * convSize x key) (x.base2k * x.size) ∧
          normInf E3 ≤ (1 + snorm (min key.rankOut (sk.map (σ gInv)).length) (sk.map (σ gInv))) *
            C02.normTol (rb * rs) (key.base2k * key.mat.size) ∧
          normInf (σ key.p (ksErrOf N rb rs x aConv key (sk.map (σ gInv)) EL E1 E3))
            ≤ ksErrBound N rb rs key.rankOut x aConv key sk (sk.map (σ gInv)) EL ∧
          (2 : Ks.R N) ^ (x.base2k * x.size + key.base2k * key.mat.size) * Ks.ι N (valP rb N (phase sk y))
            = (2 : Ks.R N) ^ (rb * rs + key.base2k * key.mat.size) * Ks.ι N (σ key.p (valP x.base2k N (phase sk x)))
              + Ks.ι N (σ key.p (ksErrOf N rb rs x aConv key (sk.map (σ gInv)) EL E1 E3))
              + (2 : Ks.R N) ^ (x.base2k * x.size + key.base2k * key.mat.size + rb * rs) * Q ∧
          ∃ E1c Q1c : Poly, E1c.length = N ∧ Q1c.length = N ∧
            normInf E1c ≤ (1 + snorm (min t.rank sk.length) sk) * C02.normTol (t.base2k * crossSize rb rs t.base2k) (rb * rs) ∧
            ∀ c, c < t.rank → ∃ cell, cells[r * (t.rank + 1) + (c + 1)]? = some cell ∧ cell.length = t.rank + 1 ∧
              (∀ col ∈ cell, ColWF N rs col) ∧ (∀ col ∈ cell, ∀ l ∈ col, ∀ v ∈ l, |v| ≤ 2 ^ rb - 1) ∧
              ∃ E3c Q3c : Poly, E3c.length = N ∧ Q3c.length = N ∧
                normInf E3c ≤ (1 + snorm (min t.rank sk.length) sk) * C02.normTol (rb * rs) (t.base2k * t.size) ∧
                (2 : Ks.R N) ^ (x.base2k * x.size + key.base2k * key.mat.size + t.base2k * t.size) *
                    Ks.ι N (valP rb N (phase sk (Ks.mkCt rb N cell)))
                  = (2 : Ks.R N) ^ (rb * rs + key.base2k * key.mat.size + t.base2k * t.size) *
                      (Ks.ι N (sk.getD c []) * Ks.ι N (σ key.p (valP x.base2k N (phase sk x))))
                    + ((2 : Ks.R N) ^ (t.base2k * t.size) *
                          (Ks.ι N (sk.getD c []) * Ks.ι N (σ key.p (ksErrOf N rb rs x aConv key (sk.map (σ gInv)) EL E1 E3)))
                      + (2 : Ks.R N) ^ (x.base2k * x.size + key.base2k * key.mat.size) *
                          ((2 : Ks.R N) ^ (t.base2k * (t.size - crossSize rb rs t.base2k)) * (Ks.ι N (sk.getD c []) * Ks.ι N E1c)
                            + (2 : Ks.R N) ^ (rb * rs) * expandErr N sk (maskOf t yc) t c ((2 : Ks.R N) ^ t.base2k) (ET c)
                            + Ks.ι N E3c))
                    + (2 : Ks.R N) ^ (x.base2k * x.size + key.base2k * key.mat.size + rb * rs + t.base2k * t.size) *
                        (Ks.ι N (sk.getD c []) * Q + Ks.ι N (sk.getD c []) * Ks.ι N Q1c + Ks.ι N Q3c) := by
  obtain ⟨hlen, hrow⟩ := Ks.ggsw_automorphism_cells_value N big128 rb rs rd rds ab ads aCol0 key t cells sk ((2 : Ks.R N) ^ t.base2k)
    (fun i => Ks.ι N (sk.getD i [])) ET hd hN hn hS hrank hMt hkeyT h
  refine ⟨hlen, ?_⟩
  intro r hr
  obtain ⟨x, y, hx, hau, hv⟩ := hrow r hr
  obtain ⟨gx, hxr, hx1, hx62, hxB, hxP, hxc1, hxc2⟩ := hrows r x hr hx
  have hrb62 : rb ≤ 62 := by omega
  obtain ⟨res, aConv, hok, hconv, gwR, hbR, hsR, hrR, E1, E3, Q, hE1, hE3, hn1, hn3, hmain, hbound⟩ :=
    glwe_automorphism_decrypts big128 N rb rs key.rankOut x key sk gInv EL KL Hin Hp hN hg hskl hinv gx hxr rfl hc0 hD hMk hSk
      hx1 hx62 hbk1 hbk hrb1 hrb62 hIn0 hIn hxB hHp0 hAcc hxP hs hEL hKL hkey hxc1 hxc2
  obtain ⟨r0, hr0, hyr0⟩ := Ks.automorphism_is_ks_then_sigma big128 rb rs key.rankOut x key y hau
  obtain ⟨r0', _, hok0, _, gw0, _⟩ :=
    glwe_keyswitch_decrypts big128 N rb rs key.rankOut x key sk (sk.map (σ gInv)) EL KL Hin Hp hN gx hxr rfl hc0 hD hMk hSk hx1 hx62
      hbk1 hbk hrb1 hrb62 hIn0 hIn hxB hHp0 hAcc hxP hs hEL hKL hkey hxc1 hxc2
  rw [hr0] at hok0
  injection hok0 with hok0
  subst hok0
  have hdig0 := keyswitch_digits big128 N rb rs key.rankOut x key sk (sk.map (σ gInv)) EL KL Hin Hp hN gx hxr rfl hc0 hD hMk hSk
    hx1 hx62 hbk1 hbk hrb1 hrb62 hIn0 hIn hxB hHp0 hAcc hxP hEL hKL hkey r0 hr0
  have hdig : ∀ c ∈ y.cols, ∀ l ∈ c, ∀ v ∈ l, |v| ≤ 2 ^ rb - 1 := by
    rw [hyr0]
    exact ctMap_auto_digits N rb key.p r0 hN hg gw0 hrb62 hdig0
  rw [hau] at hok
  injection hok with hok
  subst hok
  have hyrank : y.rank = t.rank := by rw [hrR, hrout]
  have hmain' : (2 : Ks.R N) ^ (x.base2k * x.size + key.base2k * key.mat.size) * Ks.ι N (valP rb N (phase sk y))
      = (2 : Ks.R N) ^ (rb * rs + key.base2k * key.mat.size) * Ks.ι N (σ key.p (valP x.base2k N (phase sk x)))
        + Ks.ι N (σ key.p (ksErrOf N rb rs x aConv key (sk.map (σ gInv)) EL E1 E3))
        + (2 : Ks.R N) ^ (x.base2k * x.size + key.base2k * key.mat.size + rb * rs) * Q := by
    have e : x.base2k * x.size + key.base2k * key.mat.size + rb * rs = x.base2k * x.size + rb * rs + key.base2k * key.mat.size := by
      omega
    rw [e]
    exact hmain
  have hpow : (2 : Int) ^ rb ≤ 2 ^ 61 := pow_le_pow_right₀ (by norm_num) hrb
  have hp1 : (1 : Int) ≤ 2 ^ rb := one_le_pow₀ (by norm_num)
  obtain ⟨yc, hyc, gyc, hycb, hycr, hycs, E1c, Q1c, hE1c, hQ1c, hn1c, hcellsR⟩ :=
    row_cells_decrypt_of_col0_cross N big128 rb rs t cells sk ET r y (2 ^ rb - 1) HpT hv hN gwR hbR hsR hyrank hd hn hMt hrank
      hrb1 hrb62 hb1 hb hne hcov1 hcov2 (by linarith) (by norm_num at hpow ⊢; linarith) hdig hHpT0 hAccT
      (fun yc hyc => hprodT r x y yc hr hx hau hyc)
      (x.base2k * x.size + key.base2k * key.mat.size) (rb * rs + key.base2k * key.mat.size) _ _ Q hmain'
  exact ⟨x, y, aConv, yc, hx, hau, hconv, hyc, hv.1, gwR, hbR, hsR, hyrank, E1, E3, Q, hE1, hE3, hn1, hn3, hbound, hmain',
    E1c, Q1c, hE1c, hQ1c, hn1c, hcellsR⟩

/-! ### head-room derived from digit bounds -/

/-- the gadget products of the expansion of a converted cell: `y` well formed with digits `≤ 2^rb − 1` (a normalised ciphertext), `yc` its
conversion into the tensor-key radix: every coefficient is `≤ prodBound(dsize_t, rank, dnum_t, N, (2^rb − 1) + 2^b, Dt)` -/
theorem cross_expandProd_bound (N rb : Nat) (t : ToGGSWKey) (y yc : Ks.Ct) (Dt : Int) (hDt : 0 ≤ Dt) (hd : 1 ≤ t.dsize) (hn : t.n = N)
    (hy : GWF N y) (hyb : y.base2k = rb) (hrb1 : 1 ≤ rb) (hrb : rb ≤ 61) (hb1 : 1 ≤ t.base2k) (hb : t.base2k ≤ 62)
    (hdig : ∀ c ∈ y.cols, ∀ l ∈ c, ∀ x ∈ l, |x| ≤ 2 ^ rb - 1)
    (hmT : ∀ c, c < t.rank → ∀ j q, normInf ((t.at c).toPMat.entry j q) ≤ Dt)
    (hconv : Ks.convIn y (radixKey t.base2k) = .ok yc) :
    ∀ c, c < t.rank → ∀ col ∈ expandProd N (maskOf t yc) t c, ∀ l ∈ col, ∀ v ∈ l,
      |v| ≤ prodBound t.dsize t.rank t.dnum N ((2 ^ rb - 1) + 2 ^ t.base2k) Dt := by
  subst hyb
  have hpow : (2 : Int) ^ y.base2k ≤ 2 ^ 61 := pow_le_pow_right₀ (by norm_num) hrb
  have hp1 : (1 : Int) ≤ 2 ^ y.base2k := one_le_pow₀ (by norm_num)
  obtain ⟨yc', hconv', gyc, _, _, _, hycB, _⟩ := convIn_phase N y (radixKey t.base2k) (2 ^ y.base2k - 1) hy hrb1 (by omega) hb1 hb
    (by linarith) (by norm_num at hpow ⊢; linarith) hdig
  rw [hconv] at hconv'
  injection hconv' with e
  subst e
  intro c hc
  have hp2 : (0 : Int) ≤ 2 ^ t.base2k := by positivity
  exact expandProd_bound N (maskOf t yc) t c ((2 ^ y.base2k - 1) + 2 ^ t.base2k) Dt (by linarith) hDt hd hn
    (maskOf_PB N t yc _ gyc hycB) (hmT c hc)

/-- **`ggsw_keyswitch_decrypts_cross_adm`** — `ggsw_keyswitch_decrypts_cross` with NO hypothesis on an executed buffer: operand digits
`≤ Hin` (`KsRowAdm`), key-switch key digits `≤ Dm`, tensor-key digits `≤ Dt`, and the two decidable inequalities
`ksAdmissible big128 key N Hin Dm` and `expandAdmissible big128 t N ((2^rb − 1) + 2^b) Dt ((2^rb − 1) + 2^b)`. -/
theorem ggsw_keyswitch_decrypts_cross_adm (N : Nat) (big128 : Bool) (rb rs rd rds ab ads : Nat) (aCol0 : List Ks.Ct) (key : Ks.Key)
    (t : ToGGSWKey) (cells : List (List Col)) (sIn skOut : List Poly) (EL KL : ℕ → ℕ → Poly) (ET : ℕ → ℕ → ℕ → Ks.R N) (Hin Dm Dt : Int)
    (hN : 0 < N) (hrout : t.rank = key.rankOut) (hc0 : 0 < key.mat.colsOut)
    (hD : 1 ≤ key.dsize) (hMk : ∀ j q, (key.mat.entry j q).length = N) (hSk : key.mat.rows * key.dsize ≤ key.mat.size)
    (hbk1 : 1 ≤ key.base2k) (hbk : key.base2k ≤ 62) (hs : key.mat.colsIn ≤ sIn.length)
    (hEL : ∀ i r, (EL i r).length = N) (hKL : ∀ i r, (KL i r).length = N)
    (hkey : ∀ i, i < key.mat.colsIn → ∀ r, r < key.mat.rows →
      Gadget.val (Ks.radix N key.base2k) key.mat.size (Ks.keyPhase N skOut key.mat i r) =
        Ks.ι N (sIn.getD i []) * Ks.radix N key.base2k ^ (key.mat.size - (r + 1) * key.dsize) + Ks.ι N (EL i r)
          + Ks.radix N key.base2k ^ key.mat.size * Ks.ι N (KL i r))
    (hd : 1 ≤ t.dsize) (hn : t.n = N) (hS : t.dnum * t.dsize ≤ t.size) (hrank : t.rank ≤ skOut.length)
    (hMt : ∀ c, c < t.rank → ∀ j q, ((t.at c).toPMat.entry j q).length = N) (hb1 : 1 ≤ t.base2k) (hb : t.base2k ≤ 62)
    (hrb1 : 1 ≤ rb) (hrb : rb ≤ 61) (hne : rb ≠ t.base2k)
    (hkeyT : ∀ c, c < t.rank → ∀ i, i < t.rank → ∀ r, r < t.dnum →
      Gadget.val ((2 : Ks.R N) ^ t.base2k) t.size (Ks.keyPhase N skOut (t.at c).toPMat i r)
        = Ks.ι N (skOut.getD c []) * Ks.ι N (skOut.getD i []) * ((2 : Ks.R N) ^ t.base2k) ^ (t.size - (r + 1) * t.dsize) + ET c i r)
    (hcov1 : crossSize rb rs t.base2k ≤ t.size) (hcov2 : crossSize rb rs t.base2k ≤ t.dnum * t.dsize)
    (hIn0 : 0 ≤ Hin) (hIn : Hin + 8 ≤ 2 ^ 62)
    (hDm0 : 0 ≤ Dm) (hm : ∀ j q, normInf (key.mat.entry j q) ≤ Dm) (hadm : ksAdmissible big128 key N Hin Dm)
    (hDt0 : 0 ≤ Dt) (hmT : ∀ c, c < t.rank → ∀ j q, normInf ((t.at c).toPMat.entry j q) ≤ Dt)
    (hadmT : expandAdmissible big128 t N ((2 ^ rb - 1) + 2 ^ t.base2k) Dt ((2 ^ rb - 1) + 2 ^ t.base2k))
    (hrows : ∀ r x, r < rd → aCol0[r]? = some x → KsRowAdm N key Hin x)
    (h : Ks.ggswKeyswitch big128 N rb rs rd rds ab ads aCol0 key t = .ok cells) :
    cells.length = rd * (t.rank + 1) ∧
      ∀ r, r < rd → ∃ x y aConv yc, aCol0[r]? = some x ∧ Ks.keyswitch big128 rb rs key.rankOut x key = .ok y ∧
        Ks.convIn x key = .ok aConv ∧ Ks.convIn y (radixKey t.base2k) = .ok yc ∧ cells[r * (t.rank + 1)]? = some y.cols ∧
        GWF N y ∧ y.base2k = rb ∧ y.size = rs ∧ y.rank = t.rank ∧
        ∃ (E1 E3 : Poly) (Q : Ks.R N), E1.length = N ∧ E3.length = N ∧
          normInf E1 ≤ (1 + snorm (min x.rank sIn.length) sIn) * C02.normTol (key.base2k * convSize x key) (x.base2k * x.size) ∧
          normInf E3 ≤ (1 + snorm (min key.rankOut skOut.length) skOut) * C02.normTol (rb * rs) (key.base2k * key.mat.size) ∧
          normInf (ksErrOf N rb rs x aConv key skOut EL E1 E3) ≤ ksErrBound N rb rs key.rankOut x aConv key sIn skOut EL ∧
          (2 : Ks.R N) ^ (x.base2k * x.size + key.base2k * key.mat.size) * Ks.ι N (valP rb N (phase skOut y))
            = (2 : Ks.R N) ^ (rb * rs + key.base2k * key.mat.size) * Ks.ι N (valP x.base2k N (phase sIn x))
              + Ks.ι N (ksErrOf N rb rs x aConv key skOut EL E1 E3)
              + (2 : Ks.R N) ^ (x.base2k * x.size + key.base2k * key.mat.size + rb * rs) * Q ∧
          ∃ E1c Q1c : Poly, E1c.length = N ∧ Q1c.length = N ∧
            normInf E1c ≤ (1 + snorm (min t.rank skOut.length) skOut) * C02.normTol (t.base2k * crossSize rb rs t.base2k) (rb * rs) ∧
            ∀ c, c < t.rank → ∃ cell, cells[r * (t.rank + 1) + (c + 1)]? = some cell ∧ cell.length = t.rank + 1 ∧
              (∀ col ∈ cell, ColWF N rs col) ∧ (∀ col ∈ cell, ∀ l ∈ col, ∀ v ∈ l, |v| ≤ 2 ^ rb - 1) ∧
              ∃ E3c Q3c : Poly, E3c.length = N ∧ Q3c.length = N ∧
                normInf E3c ≤ (1 + snorm (min t.rank skOut.length) skOut) * C02.normTol (rb * rs) (t.base2k * t.size) ∧
                (2 : Ks.R N) ^ (x.base2k * x.size + key.base2k * key.mat.size + t.base2k * t.size) *
                    Ks.ι N (valP rb N (phase skOut (Ks.mkCt rb N cell)))
                  = (2 : Ks.R N) ^ (rb * rs + key.base2k * key.mat.size + t.base2k * t.size) *
                      (Ks.ι N (skOut.getD c []) * Ks.ι N (valP x.base2k N (phase sIn x)))
                    + ((2 : Ks.R N) ^ (t.base2k * t.size) * (Ks.ι N (skOut.getD c []) * Ks.ι N (ksErrOf N rb rs x aConv key skOut EL E1 E3))
                      + (2 : Ks.R N) ^ (x.base2k * x.size + key.base2k * key.mat.size) *
                          ((2 : Ks.R N) ^ (t.base2k * (t.size - crossSize rb rs t.base2k)) * (Ks.ι N (skOut.getD c []) * Ks.ι N E1c)
                            + (2 : Ks.R N) ^ (rb * rs) * expandErr N skOut (maskOf t yc) t c ((2 : Ks.R N) ^ t.base2k) (ET c)
                            + Ks.ι N E3c))
                    + (2 : Ks.R N) ^ (x.base2k * x.size + key.base2k * key.mat.size + rb * rs + t.base2k * t.size) *
                        (Ks.ι N (skOut.getD c []) * Q + Ks.ι N (skOut.getD c []) * Ks.ι N Q1c + Ks.ι N Q3c) := by
  have hrout' : key.rankOut + 1 = key.mat.colsOut := by unfold Ks.Key.rankOut; omega
  have hpk : (0 : Int) < 2 ^ key.base2k := by positivity
  have hp1 : (1 : Int) ≤ 2 ^ rb := one_le_pow₀ (by norm_num)
  have hp2 : (0 : Int) < 2 ^ t.base2k := by positivity
  have hHp0 := prodBound_nonneg key.dsize key.mat.colsIn key.mat.rows N (Hin + 2 ^ key.base2k) Dm (by linarith) hDm0
  have hHpT0 := prodBound_nonneg t.dsize t.rank t.dnum N ((2 ^ rb - 1) + 2 ^ t.base2k) Dt (by linarith) hDt0
  have hrows' : ∀ r x, r < rd → aCol0[r]? = some x → KsRowOk N key.rankOut key Hin
      (prodBound key.dsize key.mat.colsIn key.mat.rows N (Hin + 2 ^ key.base2k) Dm) x := fun r x hr hx =>
    KsRowOk_of_adm N key.rankOut key Hin Dm x hrout' hD hbk1 hbk hIn0 hIn hDm0 hm (hrows r x hr hx)
  refine ggsw_keyswitch_decrypts_cross N big128 rb rs rd rds ab ads aCol0 key t cells sIn skOut EL KL ET Hin _ _ hN hrout hc0 hD hMk hSk
    hbk1 hbk hs hEL hKL hkey hd hn hS hrank hMt hb1 hb hrb1 hrb hne hkeyT hcov1 hcov2 hIn0 hIn hHp0 hadm hHpT0 hadmT hrows' ?_ h
  intro r x y yc hr hx hy hyc
  obtain ⟨gx, hxr, hx1, hx62, hxB, hxP, hxc1, hxc2⟩ := hrows' r x hr hx
  have hrb62 : rb ≤ 62 := by omega
  obtain ⟨res, _, hok, _, gwR, hbR, _⟩ :=
    glwe_keyswitch_decrypts big128 N rb rs key.rankOut x key sIn skOut EL KL Hin _ hN gx hxr rfl hc0 hD hMk hSk hx1 hx62 hbk1 hbk
      hrb1 hrb62 hIn0 hIn hxB hHp0 hadm hxP hs hEL hKL hkey hxc1 hxc2
  have hdig := keyswitch_digits big128 N rb rs key.rankOut x key sIn skOut EL KL Hin _ hN gx hxr rfl hc0 hD hMk hSk hx1 hx62
    hbk1 hbk hrb1 hrb62 hIn0 hIn hxB hHp0 hadm hxP hEL hKL hkey res hok
  rw [hy] at hok
  injection hok with hok
  subst hok
  exact cross_expandProd_bound N rb t y yc Dt hDt0 hd hn gwR hbR hrb1 hrb hb1 hb hdig hmT hyc

open AutoMul in
/-- **`ggsw_automorphism_decrypts_cross_adm`** — `ggsw_automorphism_decrypts_cross` with the head-room derived (same two decidable
inequalities as `ggsw_keyswitch_decrypts_cross_adm`). -/
theorem ggsw_automorphism_decrypts_cross_adm (N : Nat) (big128 : Bool) (rb rs rd rds ab ads : Nat) (aCol0 : List Ks.Ct) (key : Ks.Key)
    (t : ToGGSWKey) (cells : List (List Col)) (sk : List Poly) (gInv : Int) (EL KL : ℕ → ℕ → Poly) (ET : ℕ → ℕ → ℕ → Ks.R N)
    (Hin Dm Dt : Int)
    (hN : 0 < N) (hg : GalOk key.p N) (hskl : Ks.AllLen N sk) (hinv : ∀ s ∈ sk, σ key.p (σ gInv s) = s)
    (hrout : t.rank = key.rankOut) (hc0 : 0 < key.mat.colsOut)
    (hD : 1 ≤ key.dsize) (hMk : ∀ j q, (key.mat.entry j q).length = N) (hSk : key.mat.rows * key.dsize ≤ key.mat.size)
    (hbk1 : 1 ≤ key.base2k) (hbk : key.base2k ≤ 62) (hs : key.mat.colsIn ≤ sk.length)
    (hEL : ∀ i r, (EL i r).length = N) (hKL : ∀ i r, (KL i r).length = N)
    (hkey : ∀ i, i < key.mat.colsIn → ∀ r, r < key.mat.rows →
      Gadget.val (Ks.radix N key.base2k) key.mat.size (Ks.keyPhase N (sk.map (σ gInv)) key.mat i r) =
        Ks.ι N (sk.getD i []) * Ks.radix N key.base2k ^ (key.mat.size - (r + 1) * key.dsize) + Ks.ι N (EL i r)
          + Ks.radix N key.base2k ^ key.mat.size * Ks.ι N (KL i r))
    (hd : 1 ≤ t.dsize) (hn : t.n = N) (hS : t.dnum * t.dsize ≤ t.size) (hrank : t.rank ≤ sk.length)
    (hMt : ∀ c, c < t.rank → ∀ j q, ((t.at c).toPMat.entry j q).length = N) (hb1 : 1 ≤ t.base2k) (hb : t.base2k ≤ 62)
    (hrb1 : 1 ≤ rb) (hrb : rb ≤ 61) (hne : rb ≠ t.base2k)
    (hkeyT : ∀ c, c < t.rank → ∀ i, i < t.rank → ∀ r, r < t.dnum →
      Gadget.val ((2 : Ks.R N) ^ t.base2k) t.size (Ks.keyPhase N sk (t.at c).toPMat i r)
        = Ks.ι N (sk.getD c []) * Ks.ι N (sk.getD i []) * ((2 : Ks.R N) ^ t.base2k) ^ (t.size - (r + 1) * t.dsize) + ET c i r)
    (hcov1 : crossSize rb rs t.base2k ≤ t.size) (hcov2 : crossSize rb rs t.base2k ≤ t.dnum * t.dsize)
    (hIn0 : 0 ≤ Hin) (hIn : Hin + 8 ≤ 2 ^ 62)
    (hDm0 : 0 ≤ Dm) (hm : ∀ j q, normInf (key.mat.entry j q) ≤ Dm) (hadm : ksAdmissible big128 key N Hin Dm)
    (hDt0 : 0 ≤ Dt) (hmT : ∀ c, c < t.rank → ∀ j q, normInf ((t.at c).toPMat.entry j q) ≤ Dt)
    (hadmT : expandAdmissible big128 t N ((2 ^ rb - 1) + 2 ^ t.base2k) Dt ((2 ^ rb - 1) + 2 ^ t.base2k))
    (hrows : ∀ r x, r < rd → aCol0[r]? = some x → KsRowAdm N key Hin x)
    (h : Ks.ggswAutomorphism big128 N rb rs rd rds ab ads aCol0 key t = .ok cells) :
    cells.length = rd * (t.rank + 1) ∧
      ∀ r, r < rd → ∃ x y aConv yc, aCol0[r]? = some x ∧ Ks.automorphism big128 rb rs key.rankOut x key = .ok y ∧
        Ks.convIn x key = .ok aConv ∧ Ks.convIn y (radixKey t.base2k) = .ok yc ∧ cells[r * (t.rank + 1)]? = some y.cols ∧
        GWF N y ∧ y.base2k = rb ∧ y.size = rs ∧ y.rank = t.rank ∧
        ∃ (E1 E3 : Poly) (Q : Ks.R N), E1.length = N ∧ E3.length = N ∧
          normInf E1 ≤ (1 + snorm (min x.rank sk.length) sk) * C02.normTol (key.base2k * convSize x key) (x.base2k * x.size) ∧
          normInf E3 ≤ (1 + snorm (min key.rankOut (sk.map (σ gInv)).length) (sk.map (σ gInv))) *
            C02.normTol (rb * rs) (key.base2k * key.mat.size) ∧
          normInf (σ key.p (ksErrOf N rb rs x aConv key (sk.map (σ gInv)) EL E1 E3))
            ≤ ksErrBound N rb rs key.rankOut x aConv key sk (sk.map (σ gInv)) EL ∧
          (2 : Ks.R N) ^ (x.base2k * x.size + key.base2k * key.mat.size) * Ks.ι N (valP rb N (phase sk y))
            = (2 : Ks.R N) ^ (rb * rs + key.base2k * key.mat.size) * Ks.ι N (σ key.p (valP x.base2k N (phase sk x)))
              + Ks.ι N (σ key.p (ksErrOf N rb rs x aConv key (sk.map (σ gInv)) EL E1 E3))
              + (2 : Ks.R N) ^ (x.base2k * x.size + key.base2k * key.mat.size + rb * rs) * Q ∧
          ∃ E1c Q1c : Poly, E1c.length = N ∧ Q1c.length = N ∧
            normInf E1c ≤ (1 + snorm (min t.rank sk.length) sk) * C02.normTol (t.base2k * crossSize rb rs t.base2k) (rb * rs) ∧
            ∀ c, c < t.rank → ∃ cell, cells[r * (t.rank + 1) + (c + 1)]? = some cell ∧ cell.length = t.rank + 1 ∧
              (∀ col ∈ cell, ColWF N rs col) ∧ (∀ col ∈ cell, ∀ l ∈ col, ∀ v ∈ l, |v| ≤ 2 ^ rb - 1) ∧
              ∃ E3c Q3c : Poly, E3c.length = N ∧ Q3c.length = N ∧
                normInf E3c ≤ (1 + snorm (min t.rank sk.length) sk) * C02.normTol (rb * rs) (t.base2k * t.size) ∧
                (2 : Ks.R N) ^ (x.base2k * x.size + key.base2k * key.mat.size + t.base2k * t.size) *
                    Ks.ι N (valP rb N (phase sk (Ks.mkCt rb N cell)))
                  = (2 : Ks.R N) ^ (rb * rs + key.base2k * key.mat.size + t.base2k * t.size) *
                      (Ks.ι N (sk.getD c []) * Ks.ι N (σ key.p (valP x.base2k N (phase sk x))))
                    + ((2 : Ks.R N) ^ (t.base2k * t.size) *
                          (Ks.ι N (sk.getD c []) * Ks.ι N (σ key.p (ksErrOf N rb rs x aConv key (sk.map (σ gInv)) EL E1 E3)))
                      + (2 : Ks.R N) ^ (x.base2k * x.size + key.base2k * key.mat.size) *
                          ((2 : Ks.R N) ^ (t.base2k * (t.size - crossSize rb rs t.base2k)) * (Ks.ι N (sk.getD c []) * Ks.ι N E1c)
                            + (2 : Ks.R N) ^ (rb * rs) * expandErr N sk (maskOf t yc) t c ((2 : Ks.R N) ^ t.base2k) (ET c)
                            + Ks.ι N E3c))
                    + (2 : Ks.R N) ^ (x.base2k * x.size + key.base2k * key.mat.size + rb * rs + t.base2k * t.size) *
                        (Ks.ι N (sk.getD c []) * Q + Ks.ι N (sk.getD c []) * Ks.ι N Q1c + Ks.ι N Q3c) := by
  have hrout' : key.rankOut + 1 = key.mat.colsOut := by unfold Ks.Key.rankOut; omega
  have hpk : (0 : Int) < 2 ^ key.base2k := by positivity
  have hp1 : (1 : Int) ≤ 2 ^ rb := one_le_pow₀ (by norm_num)
  have hp2 : (0 : Int) < 2 ^ t.base2k := by positivity
  have hHp0 := prodBound_nonneg key.dsize key.mat.colsIn key.mat.rows N (Hin + 2 ^ key.base2k) Dm (by linarith) hDm0
  have hHpT0 := prodBound_nonneg t.dsize t.rank t.dnum N ((2 ^ rb - 1) + 2 ^ t.base2k) Dt (by linarith) hDt0
  have hrows' : ∀ r x, r < rd → aCol0[r]? = some x → KsRowOk N key.rankOut key Hin
      (prodBound key.dsize key.mat.colsIn key.mat.rows N (Hin + 2 ^ key.base2k) Dm) x := fun r x hr hx =>
    KsRowOk_of_adm N key.rankOut key Hin Dm x hrout' hD hbk1 hbk hIn0 hIn hDm0 hm (hrows r x hr hx)
  refine ggsw_automorphism_decrypts_cross N big128 rb rs rd rds ab ads aCol0 key t cells sk gInv EL KL ET Hin _ _ hN hg hskl hinv hrout hc0
    hD hMk hSk hbk1 hbk hs hEL hKL hkey hd hn hS hrank hMt hb1 hb hrb1 hrb hne hkeyT hcov1 hcov2 hIn0 hIn hHp0 hadm hHpT0 hadmT hrows' ?_ h
  intro r x y yc hr hx hau hyc
  obtain ⟨gx, hxr, hx1, hx62, hxB, hxP, hxc1, hxc2⟩ := hrows' r x hr hx
  have hrb62 : rb ≤ 62 := by omega
  obtain ⟨res, _, hok, _, gwR, hbR, _⟩ :=
    glwe_automorphism_decrypts big128 N rb rs key.rankOut x key sk gInv EL KL Hin _ hN hg hskl hinv gx hxr rfl hc0 hD hMk hSk
      hx1 hx62 hbk1 hbk hrb1 hrb62 hIn0 hIn hxB hHp0 hadm hxP hs hEL hKL hkey hxc1 hxc2
  obtain ⟨r0, hr0, hyr0⟩ := Ks.automorphism_is_ks_then_sigma big128 rb rs key.rankOut x key y hau
  obtain ⟨r0', _, hok0, _, gw0, _⟩ :=
    glwe_keyswitch_decrypts big128 N rb rs key.rankOut x key sk (sk.map (σ gInv)) EL KL Hin _ hN gx hxr rfl hc0 hD hMk hSk hx1 hx62
      hbk1 hbk hrb1 hrb62 hIn0 hIn hxB hHp0 hadm hxP hs hEL hKL hkey hxc1 hxc2
  rw [hr0] at hok0
  injection hok0 with hok0
  subst hok0
  have hdig0 := keyswitch_digits big128 N rb rs key.rankOut x key sk (sk.map (σ gInv)) EL KL Hin _ hN gx hxr rfl hc0 hD hMk hSk
    hx1 hx62 hbk1 hbk hrb1 hrb62 hIn0 hIn hxB hHp0 hadm hxP hEL hKL hkey r0 hr0
  have hdig : ∀ c ∈ y.cols, ∀ l ∈ c, ∀ v ∈ l, |v| ≤ 2 ^ rb - 1 := by
    rw [hyr0]
    exact ctMap_auto_digits N rb key.p r0 hN hg gw0 hrb62 hdig0
  rw [hau] at hok
  injection hok with hok
  subst hok
  exact cross_expandProd_bound N rb t y yc Dt hDt0 hd hn gwR hbR hrb1 hrb hb1 hb hdig hmT hyc

/-- the cross-radix expansion is admissible on realistic shapes, by `decide`: result radix `2^17`, tensor key in radix `2^16`
(`N = 4096`, rank 1, `dsize = 1`, `dnum = 4`) on the `i64` accumulator; result radix `2^52`, tensor key `2^50` on `i128` — and not on `i64` -/
example : expandAdmissible false (shapeT 16 4096 1 1 4 4) 4096 ((2 ^ 17 - 1) + 2 ^ 16) (2 ^ 15) ((2 ^ 17 - 1) + 2 ^ 16) ∧
    expandAdmissible true (shapeT 50 4096 1 1 8 8) 4096 ((2 ^ 52 - 1) + 2 ^ 50) (2 ^ 49) ((2 ^ 52 - 1) + 2 ^ 50) ∧
    ¬ expandAdmissible false (shapeT 50 4096 1 1 8 8) 4096 ((2 ^ 52 - 1) + 2 ^ 50) (2 ^ 49) ((2 ^ 52 - 1) + 2 ^ 50) := by decide

/-! ### closed instance: `N = 1`, result radix `2^3`, tensor key `Ks.exT'` in radix `2^4` (`dsize = 2`), both accumulator widths -/

/-- the column-0 cell of a one-row operand in radix `2^3`: body `[2]`, mask `[1]` -/
def exGX3 : Ks.Ct := Ks.mkCt 3 1 [[[2]], [[1]]]

/-- the executed cross-radix `ggsw_keyswitch` (operand and result in radix `2^3`, key-switch key and tensor key in radix `2^4`): the theorem
`ggsw_keyswitch_decrypts_cross` with EVERY hypothesis discharged by evaluation — cell `(0,1)` encrypts `s_0·`(message of the operand). -/
example (big128 : Bool) :
    ∃ cells, Ks.ggswKeyswitch big128 1 3 2 1 1 3 1 [exGX3] exGKs Ks.exT' = .ok cells ∧ cells.length = 2 ∧
      (3 : Nat) ≠ Ks.exT'.base2k ∧ crossSize 3 2 Ks.exT'.base2k = 2 ∧
      ∃ cell, cells[1]? = some cell ∧ ∃ Err W : Ks.R 1,
        (2 : Ks.R 1) ^ (exGX3.base2k * exGX3.size + exGKs.base2k * exGKs.mat.size + Ks.exT'.base2k * Ks.exT'.size) *
            Ks.ι 1 (valP 3 1 (phase [[1]] (Ks.mkCt 3 1 cell)))
          = (2 : Ks.R 1) ^ (3 * 2 + exGKs.base2k * exGKs.mat.size + Ks.exT'.base2k * Ks.exT'.size) *
              (Ks.ι 1 (([[1]] : List Poly).getD 0 []) * Ks.ι 1 (valP exGX3.base2k 1 (phase [[1]] exGX3)))
            + Err
            + (2 : Ks.R 1) ^ (exGX3.base2k * exGX3.size + exGKs.base2k * exGKs.mat.size + 3 * 2 + Ks.exT'.base2k * Ks.exT'.size) * W := by
  have hMk := Ks.entry_length exGKs.mat 1 rfl (by decide)
  have hz : Ks.ι 1 [0] = 0 := Ks.ι_zero 1 1
  have hksv : Ks.keyswitch big128 3 2 exGKs.rankOut exGX3 exGKs = .ok (Ks.mkCt 3 1 [[[3], [0]], [[1], [0]]]) := by
    cases big128 <;> decide +kernel
  have hrun : Ks.ggswKeyswitch big128 1 3 2 1 1 3 1 [exGX3] exGKs Ks.exT'
      = .ok [[[[3], [0]], [[1], [0]]], [[[0], [0]], [[-4], [0]]]] := by
    cases big128 <;> decide +kernel
  have hone : ∀ (r : Nat) (x : Ks.Ct), r < 1 → ([exGX3] : List Ks.Ct)[r]? = some x → r = 0 ∧ x = exGX3 := by
    intro r x hr hx
    have hr0 : r = 0 := by omega
    subst hr0
    simp at hx
    exact ⟨rfl, hx.symm⟩
  obtain ⟨hlen, hrow⟩ := ggsw_keyswitch_decrypts_cross 1 big128 3 2 1 1 3 1 [exGX3] exGKs Ks.exT' _ [[1]] [[1]] exGEL (fun _ _ => [0]) exGET
    2 2 2 (by decide) rfl (by decide) (by decide) hMk (by decide) (by decide) (by decide) (by decide)
    (fun i r => Ks.keyErrL_length 1 4 [[1]] exGKs _ i r (by decide) hMk (fun _ => rfl)) (fun _ _ => rfl)
    (by
      intro i hi r _
      have hi0 : i = 0 := by have : i < 1 := hi; omega
      subst hi0
      have h := Ks.keyErrL_spec 1 4 [[1]] exGKs (fun _ => [1]) 0 r (by decide) hMk (fun _ => rfl)
      rw [hz, mul_zero, add_zero]
      exact h)
    (by decide) rfl (by decide) (by decide)
    (fun c _ => Ks.entry_length (Ks.exT'.at c).toPMat 1 rfl (by
      intro row hrow
      have hc : (Ks.exT'.at c).toPMat.data = Ks.exT'.keys.getD c [] := rfl
      rw [hc] at hrow
      match c with
      | 0 => exact (by decide : ∀ row ∈ Ks.exT'.keys.getD 0 [], ∀ col ∈ row, ∀ p ∈ col, p.length = 1) row hrow
      | c + 1 => simp [Ks.exT'] at hrow))
    (by decide) (by decide) (by decide) (by decide) (by decide)
    (by intro c _ i _ r _; exact (add_sub_cancel _ _).symm)
    (by decide) (by decide)
    (by norm_num) (by norm_num) (by norm_num)
    (by cases big128 <;> (show (2 : ℤ) + (2 + 2 ^ 4) + 8 ≤ _; norm_num [bitsOf]))
    (by norm_num)
    (by cases big128 <;> (show (2 : ℤ) + ((2 ^ 3 - 1) + 2 ^ 4) + 8 ≤ _; norm_num [bitsOf]))
    (by
      intro r x hr hx
      obtain ⟨_, rfl⟩ := hone r x hr hx
      refine ⟨by decide, rfl, by decide, by decide, ?_, ?_, by decide, by decide⟩
      · intro c hc l hl v hv; revert v l c; decide
      · intro aConv h i hi l hl v hv
        have hconv : Ks.convIn exGX3 exGKs = .ok (Ks.mkCt 4 1 [[[4]], [[2]]]) := by decide +kernel
        rw [hconv] at h
        injection h with h
        subst h
        have key : ∀ i, i < exGKs.rankOut + 1 → ∀ l ∈ (prodOf exGKs.rankOut (Ks.mkCt 4 1 [[[4]], [[2]]]) exGKs).act i, ∀ v ∈ l, |v| ≤ 2 := by
          decide
        exact key i hi l hl v hv)
    (by
      intro r x y yc hr hx hy hyc
      obtain ⟨_, rfl⟩ := hone r x hr hx
      have e := hksv.symm.trans hy
      injection e with e
      subst e
      have hconv : Ks.convIn (Ks.mkCt 3 1 [[[3], [0]], [[1], [0]]]) (radixKey Ks.exT'.base2k) = .ok (Ks.mkCt 4 1 [[[6], [0]], [[2], [0]]]) := by
        decide +kernel
      rw [hconv] at hyc
      injection hyc with hyc
      subst hyc
      decide)
    hrun
  obtain ⟨x, y, aConv, yc, hx, _, _, _, _, _, _, _, _, E1, E3, Q, _, _, _, _, _, _, E1c, Q1c, _, _, _, hcells⟩ := hrow 0 (by decide)
  obtain ⟨_, rfl⟩ := hone 0 x (by decide) hx
  obtain ⟨cell, hidx, _, _, _, E3c, Q3c, _, _, _, hrel⟩ := hcells 0 (by decide)
  exact ⟨_, hrun, hlen, by decide, by decide, cell, hidx, _, _, hrel⟩

end KsDec
