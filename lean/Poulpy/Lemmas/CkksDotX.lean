import Poulpy.Lemmas.CkksMulAdd
/-!
# C16: the dot products on tracked states

`ckks_dot_product_pt_vec_znx` and the un-fused path of `ckks_dot_product_ct` (`accumulate_unnormalized`: one product into the destination,
every further product into a temporary, added without normalisation, one normalisation at the end) composed with the tracking of their
operands.  The terms come from `mulPt_core` (discharged) resp. `mul_core` (under `MulAdm`).
-/

namespace Ckks
open Hal Core Core.Ops C02L Ckks.Sem Ckks.CoreSem KsDec AutoMul

/-- a tracked operand: the ciphertext, the plaintext coefficients it holds, its error budget, its magnitude bound -/
structure TOp where
  c : DCt
  M : Nat → ℚ
  E : ℚ
  B : ℚ

def TOp.ok (env : Env) (N r : Nat) (s : List Poly) (x : TOp) : Prop :=
  DOK env N r x.c ∧ (∀ t, t < N → Near (decC s x.c t) (x.M t) (wrap x.c) x.E) ∧ (∀ t, t < N → |x.M t| ≤ x.B) ∧ 0 ≤ x.E ∧ 0 ≤ x.B

theorem abs_sum_map_le {α : Type} (L : List α) (f g : α → ℚ) (h : ∀ x ∈ L, |f x| ≤ g x) : |(L.map f).sum| ≤ (L.map g).sum := by
  induction L with
  | nil => simp
  | cons x xs ih =>
    simp only [List.map_cons, List.sum_cons]
    exact (abs_add_le _ _).trans (add_le_add (h x (by simp)) (ih (fun y hy => h y (by simp [hy]))))

theorem sum_map_nonneg {α : Type} (L : List α) (g : α → ℚ) (h : ∀ x ∈ L, 0 ≤ g x) : 0 ≤ (L.map g).sum := by
  induction L with
  | nil => simp
  | cons x xs ih =>
    simp only [List.map_cons, List.sum_cons]
    exact add_nonneg (h x (by simp)) (ih (fun y hy => h y (by simp [hy])))

theorem ulp_le_top {env : Env} {N r : Nat} {c : DCt} (hc : DOK env N r c) {sz β0 : Nat} (hsz : c.g.size = sz) (hβ : c.md.logBudget ≤ β0) :
    ulp c ≤ 2 ^ β0 / 2 ^ (env.base2k * sz) := by
  unfold ulp ulpG
  rw [hc.bk, hsz]
  apply div_le_div_of_nonneg_right _ (by positivity)
  exact pow_le_pow_right₀ (by norm_num) hβ

/-! ### plaintext terms -/

/-- value, error and bound of one tracked plaintext term -/
def ptV (env : Env) (N : Nat) (pt : Pt) (x : TOp × Col) (t : Nat) : ℚ := (qNegMul (polyOf N x.1.M) (ptMsg env N pt x.2)).getD t 0
def ptBp (env : Env) (N : Nat) (pt : Pt) (pg : Col) : ℚ := supN N (fun t => (ptMsg env N pt pg).getD t 0)
def ptE (env : Env) (N : Nat) (pt : Pt) (σ : ℚ) (x : TOp × Col) : ℚ := N * ((x.1.E + σ / 2 ^ x.1.c.md.logDelta) * ptBp env N pt x.2)
def ptB (env : Env) (N : Nat) (pt : Pt) (x : TOp × Col) : ℚ := N * x.1.B * ptBp env N pt x.2

theorem ptE_nonneg {env : Env} {N r : Nat} {pt : Pt} {s : List Poly} {x : TOp × Col} (hx : x.1.ok env N r s) : 0 ≤ ptE env N pt (sn r s) x := by
  have hσ : 0 ≤ sn r s := le_trans zero_le_one (sn_pos r s)
  have h1 : 0 ≤ sn r s / 2 ^ x.1.c.md.logDelta := div_nonneg hσ (by positivity)
  have h2 := supN_nonneg N (fun t => (ptMsg env N pt x.2).getD t 0)
  have h3 := hx.2.2.2.1
  unfold ptE ptBp
  positivity

/-- the tracked plaintext product as a term of an accumulation -/
theorem mulPt_termSpecT {env : Env} (he : EnvOK env) {N r : Nat} (hN : 0 < N) (big : Bool) {pt : Pt} (s : List Poly) (x : TOp × Col)
    (hx : x.1.ok env N r s) (hp : PtOK env N pt x.2) (sz β0 : Nat) {c0 : Ct} (hbld : ptBuild env pt c0 = none)
    (hhi : ∀ res : Ct, res.size = sz → ∀ q, mulPtParams env res x.1.c.ct pt.md pt.maxK = .ok q →
      (cnvOffsetSplit env.base2k q.cnv).1 ≤ divCeil x.1.c.md.effK env.base2k + pt.size - 1)
    (hroom : (pt.size : Int) * (N * 2 ^ env.base2k * 2 ^ env.base2k) + 8 ≤ 2 ^ (bitsOf big - 2))
    (hβ : x.1.c.md.logBudget ≤ β0) :
    TermSpec env N r sz β0 (fun s' => s' = s) (fun d => dMulPtInto env N big d x.1.c pt x.2) (fun c => mulPtZnxInto env c x.1.c.ct pt)
      (fun _ t => ptV env N pt x t) (fun _ => sn r s * (2 ^ β0 / 2 ^ (env.base2k * sz)) + ptE env N pt (sn r s) x) := by
  intro d hd hsz mt hmt
  obtain ⟨hxok, hxt, hxB, hxE, hxB0⟩ := hx
  have hm : withPt env pt d.ct (mulPtZnxInto env d.ct x.1.c.ct pt) = .ok mt := by
    rw [withPt_none (ptBuild_irrel hbld)]; exact hmt
  obtain ⟨c', hok, hct, hdok, hv⟩ := mulPt_core he hN (big := big) (hd.mono (half_nonneg _)) hxok hp hm
    (hhi d.ct (by simpa [DCt.ct] using hsz)) hroom s
  obtain ⟨_, q, hq, _, hmq⟩ := mulPtZnx_ok hmt
  have hmd : c'.md = ⟨q.delta, q.budget⟩ := by
    have := congrArg Ct.md hct
    simp only [DCt.ct] at this
    rw [this, hmq]
  have hsize : c'.g.size = d.g.size := by
    have := congrArg Ct.size hct
    simp only [DCt.ct] at this
    rw [this, hmq]; rfl
  have hbud : c'.md.logBudget ≤ β0 := by
    rw [hmd]
    have := mulPt_budget hq
    simp only [DCt.ct] at this
    show q.budget ≤ β0
    omega
  refine ⟨c', hok, hct, hdok, hsize, hbud, fun s' hs' t ht => ?_⟩
  subst hs'
  have hσ : 0 ≤ sn r s' := le_trans zero_le_one (sn_pos r s')
  have := (hv x.1.M x.1.E x.1.B hxt hxB hxE hxB0).1 t ht
  refine this.mono ?_
  have h1 := mul_le_mul_of_nonneg_left (ulp_le_top hdok (hsize.trans hsz) hbud) hσ
  unfold ptE ptBp
  linarith

/-- **`ckks_dot_product_pt_vec_znx` on tracked operands** — no contract -/
theorem dDotPt_tracks {env : Env} (he : EnvOK env) {N r : Nat} (hN : 0 < N) {big : Bool} {dst : DCt} {pt : Pt} (s : List Poly)
    (L : List (TOp × Col)) (hd : DOK env N r dst) (hL : ∀ x ∈ L, x.1.ok env N r s ∧ PtOK env N pt x.2)
    {m : Ct} (hm : withPt env pt dst.ct (dotPtZnx env dst.ct (L.map (fun x => x.1.c.ct)) pt) = .ok m)
    (hhi : ∀ x ∈ L, ∀ res : Ct, res.size = dst.g.size → ∀ q, mulPtParams env res x.1.c.ct pt.md pt.maxK = .ok q →
      (cnvOffsetSplit env.base2k q.cnv).1 ≤ divCeil x.1.c.md.effK env.base2k + pt.size - 1)
    (hroom : (pt.size : Int) * (N * 2 ^ env.base2k * 2 ^ env.base2k) + 8 ≤ 2 ^ (bitsOf big - 2))
    (β0 : Nat) (hβ0 : ∀ x ∈ L, x.1.c.md.logBudget ≤ β0) :
    ∃ c', dDotPt env N big dst (L.map (fun x => x.1.c)) pt (L.map Prod.snd) = .ok c' ∧ c'.ct = m ∧ DOK env N r c' ∧ c'.g.size = dst.g.size ∧
      (∀ t, t < N → Near (decC s c' t) ((L.map (fun x => ptV env N pt x t)).sum) (wrap c')
        ((L.map (fun x => 2 * (sn r s * (2 ^ β0 / 2 ^ (env.base2k * dst.g.size))) + ptE env N pt (sn r s) x)).sum)) ∧
      (∀ t, t < N → |(L.map (fun x => ptV env N pt x t)).sum| ≤ (L.map (fun x => ptB env N pt x)).sum) := by
  obtain ⟨hbld, hal⟩ := withPt_ok2 hm
  have hσ : 0 ≤ sn r s := le_trans zero_le_one (sn_pos r s)
  have hbound : ∀ t, t < N → |(L.map (fun x => ptV env N pt x t)).sum| ≤ (L.map (fun x => ptB env N pt x)).sum := by
    intro t ht
    apply abs_sum_map_le
    intro x hx
    obtain ⟨⟨_, _, hxB, _, hxB0⟩, _⟩ := hL x hx
    have hsup := supLe_of_getD (ptMsg_length env N pt x.2)
    have hsup0 := supN_nonneg N (fun t => (ptMsg env N pt x.2).getD t 0)
    have := (supLe_qNegMul (polyOf_supLe hxB) hsup hxB0 hsup0).getD (by rw [polyOf_length]; positivity) t
    rw [polyOf_length] at this
    exact this
  match L, hL, hal, hhi, hβ0, hm, hbound with
  | [], _, hal, _, _, _, _ => simp [dotPtZnx] at hal
  | x0 :: rest, hL, hal, hhi, hβ0, hm, hbound =>
    simp only [List.map_cons, dotPtZnx, dotWith, List.length_cons, List.length_map] at hal
    rw [if_neg (by omega)] at hal
    cases hfit : accFits env (rest.length + 1) with
    | false => simp [hfit] at hal
    | true =>
      simp only [hfit, Bool.not_true, Bool.false_eq_true, if_false] at hal
      cases h0 : mulPtZnxInto env dst.ct x0.1.c.ct pt with
      | ok m0 =>
        simp only [Res.bind, h0] at hal
        have hm0 : withPt env pt dst.ct (mulPtZnxInto env dst.ct x0.1.c.ct pt) = .ok m0 := by rw [withPt_none hbld]; exact h0
        obtain ⟨hx0, hp0⟩ := hL x0 (by simp)
        obtain ⟨d0, e0, hct0, hok0, hv0⟩ := mulPt_core he hN (big := big) hd hx0.1 hp0 hm0 (hhi x0 (by simp) dst.ct rfl) hroom s
        obtain ⟨_, q0, hq0, _, hmq0⟩ := mulPtZnx_ok h0
        have hsz0 : d0.g.size = dst.g.size := by
          have := congrArg Ct.size hct0
          simp only [DCt.ct] at this
          rw [this, hmq0]; rfl
        have hβd0 : d0.md.logBudget ≤ β0 := by
          have h1 := congrArg Ct.md hct0
          simp only [DCt.ct] at h1
          rw [h1, hmq0]
          have := mulPt_budget hq0
          have := hβ0 x0 (by simp)
          simp only [DCt.ct] at *
          show q0.budget ≤ β0
          omega
        set top : ℚ := 2 ^ β0 / 2 ^ (env.base2k * dst.g.size) with htop
        let terms : List ((DCt → Outcome DCt) × (Ct → Res Ct) × (List Poly → Nat → ℚ) × (List Poly → ℚ)) :=
          rest.map (fun x => ((fun d => dMulPtInto env N big d x.1.c pt x.2), (fun c => mulPtZnxInto env c x.1.c.ct pt),
            (fun _ t => ptV env N pt x t), (fun _ => sn r s * top + ptE env N pt (sn r s) x)))
        have hts : ∀ y ∈ terms, TermSpec env N r dst.g.size β0 (fun s' => s' = s) y.1 y.2.1 y.2.2.1 y.2.2.2 := by
          intro y hy
          obtain ⟨x, hx, rfl⟩ := List.mem_map.mp hy
          obtain ⟨h1, h2⟩ := hL x (by simp [hx])
          exact mulPt_termSpecT he hN big s x h1 h2 dst.g.size β0 hbld (hhi x (by simp [hx])) hroom (hβ0 x (by simp [hx]))
        have hlen : terms.length = rest.length := by simp [terms]
        have hb := accFits_bound hfit he.lo
        push_cast at hb
        have hmeta : (terms.map (fun x => x.2.1)).foldl (accStep env) (.ok d0.ct) = .ok m := by
          rw [hct0]
          have : terms.map (fun x => x.2.1) = (rest.map (fun x => x.1.c.ct)).map (fun a => fun t => mulPtZnxInto env t a pt) := by
            simp [terms, List.map_map, Function.comp_def]
          rw [this]
          exact hal
        obtain ⟨c', e2, hctf, hokf, hszf, hbud, hv⟩ := dAccumulate_sem he β0 (fun s' => s' = s) terms hts hok0 hsz0 hβd0
          (by rw [hlen]; linarith) e0 hmeta
        have hzip : ((x0 :: rest).map (fun x => x.1.c)).zip ((x0 :: rest).map Prod.snd) = (x0 :: rest).map (fun x => (x.1.c, x.2)) := by
          rw [List.zip_map']
        have hmodel : dDotPt env N big dst ((x0 :: rest).map (fun x => x.1.c)) pt ((x0 :: rest).map Prod.snd)
            = dAccumulate env N (dMulPtInto env N big dst x0.1.c pt x0.2)
                (rest.map (fun x => fun t => dMulPtInto env N big t x.1.c pt x.2)) := by
          have hm' : withPt env pt dst.ct (dotPtZnx env dst.ct (((x0 :: rest).map (fun x => x.1.c)).map DCt.ct) pt) = .ok m := by
            simpa [List.map_map, Function.comp_def] using hm
          rw [dDotPt, withMeta_ok _ _ _ hm', hzip]
          simp only [List.map_cons, List.map_map, Function.comp_def]
        have htermsD : terms.map (fun x => x.1) = rest.map (fun x => fun t => dMulPtInto env N big t x.1.c pt x.2) := by
          simp [terms, List.map_map, Function.comp_def]
        have htop0 : 0 ≤ top := by positivity
        refine ⟨c', by rw [hmodel, ← htermsD]; exact e2, hctf, hokf, hszf.trans hsz0, fun t ht => ?_, hbound⟩
        have hsumE : (terms.map (fun x => x.2.2.2 s + sn r s * (2 ^ β0 / 2 ^ (env.base2k * d0.g.size)))).sum
            = (rest.map (fun x => 2 * (sn r s * top) + ptE env N pt (sn r s) x)).sum := by
          rw [hsz0]
          simp only [terms, List.map_map, Function.comp_def, ← htop]
          congr 1
          apply List.map_congr_left
          intro x _
          ring
        have hsumV : (terms.map (fun x => x.2.2.1 s t)).sum = (rest.map (fun x => ptV env N pt x t)).sum := by
          simp only [terms, List.map_map, Function.comp_def]
        have a2 := hv s rfl t ht
        rw [hsumE, hsumV] at a2
        have a0 := (hv0 x0.1.M x0.1.E x0.1.B hx0.2.1 hx0.2.2.1 hx0.2.2.2.1 hx0.2.2.2.2).1 t ht
        have a3 := (a0.scale (dvd_one (β := d0.md.logBudget) (β' := c'.md.logBudget) hbud)).add
          (Near.refl ((rest.map (fun x => ptV env N pt x t)).sum) (2 ^ c'.md.logBudget))
        simp only [one_mul, abs_one] at a3
        have hu0 := mul_le_mul_of_nonneg_left (ulp_le_top hok0 hsz0 hβd0) hσ
        have := (a2.trans a3).mono (show (rest.map (fun x => 2 * (sn r s * top) + ptE env N pt (sn r s) x)).sum
            + (sn r s * ulp d0 + N * ((x0.1.E + sn r s / 2 ^ x0.1.c.md.logDelta) * supN N (fun t => (ptMsg env N pt x0.2).getD t 0)) + 0)
            ≤ (2 * (sn r s * top) + ptE env N pt (sn r s) x0) + (rest.map (fun x => 2 * (sn r s * top) + ptE env N pt (sn r s) x)).sum by
          have h2 : 0 ≤ sn r s * top := mul_nonneg hσ htop0
          unfold ptE ptBp
          linarith)
        simp only [List.map_cons, List.sum_cons]
        simpa [decC, wrap, ptV] using this
      | err e x => simp only [Res.bind, h0] at hal; cases hal
      | panic p => simp only [Res.bind, h0] at hal; cases hal

/-! ### ct × ct terms -/

def ctV (N : Nat) (x : TOp × TOp) (t : Nat) : ℚ := (qNegMul (polyOf N x.1.M) (polyOf N x.2.M)).getD t 0
def ctE (N : Nat) (σ : ℚ) (x : TOp × TOp) : ℚ :=
  N * (x.1.B * (x.2.E + σ / 2 ^ x.2.c.md.logDelta) + (x.1.E + σ / 2 ^ x.1.c.md.logDelta) * (x.2.B + (x.2.E + σ / 2 ^ x.2.c.md.logDelta)))
def ctB (N : Nat) (x : TOp × TOp) : ℚ := N * x.1.B * x.2.B

theorem ctE_nonneg {env : Env} {N r : Nat} {s : List Poly} {x : TOp × TOp} (h1 : x.1.ok env N r s) (h2 : x.2.ok env N r s) :
    0 ≤ ctE N (sn r s) x := by
  have hσ : 0 ≤ sn r s := le_trans zero_le_one (sn_pos r s)
  have a1 : 0 ≤ sn r s / 2 ^ x.1.c.md.logDelta := div_nonneg hσ (by positivity)
  have a2 : 0 ≤ sn r s / 2 ^ x.2.c.md.logDelta := div_nonneg hσ (by positivity)
  have := h1.2.2.2.1; have := h1.2.2.2.2; have := h2.2.2.2.1; have := h2.2.2.2.2
  unfold ctE
  positivity

theorem mulCt_budget {env : Env} {dst a b : Ct} {q : MulP} (h : mulCtParams env dst a b = .ok q) :
    q.budget ≤ a.md.logBudget ∧ q.budget ≤ b.md.logBudget := by
  simp only [mulCtParams] at h
  grind

/-- what the products of a dot product need: the product contract on every destination with the layout of `dst` (the destination itself
for the first pair, `take_mul_tmp` for the others) -/
def DotAdm (env : Env) (N r : Nat) (mk : MulKey) (s : List Poly) (Uc : ℚ) (sz : Nat) (a b : DCt) : Prop :=
  ∀ d : DCt, DOK env N r d → d.g.size = sz → ∀ mt, mulInto env d.ct a.ct b.ct = .ok mt → ∀ q, mulCtParams env d.ct a.ct b.ct = .ok q →
    MulAdm env N r s Uc d a b (dMulInto env N mk d a b) q

/-- the tracked ct × ct product on a destination of `sz` limbs -/
theorem mul_coreT {env : Env} (he : EnvOK env) {N r : Nat} {mk : MulKey} (s : List Poly) {Uc : ℚ} (hUc : 0 ≤ Uc) (x : TOp × TOp)
    (h1 : x.1.ok env N r s) (h2 : x.2.ok env N r s) (sz β0 : Nat) (hadm : DotAdm env N r mk s Uc sz x.1.c x.2.c)
    (hβ : x.1.c.md.logBudget ≤ β0) {d : DCt} (hd : DOK env N r d) (hsz : d.g.size = sz) {mt : Ct}
    (hmt : mulInto env d.ct x.1.c.ct x.2.c.ct = .ok mt) :
    ∃ tmp, dMulInto env N mk d x.1.c x.2.c = .ok tmp ∧ tmp.ct = mt ∧ DOK env N r tmp ∧ tmp.g.size = d.g.size ∧ tmp.md.logBudget ≤ β0 ∧
      (∀ t, t < N → Near (decC s tmp t) (ctV N x t) (wrap tmp) (Uc * ulp tmp + ctE N (sn r s) x)) ∧
      (∀ t, t < N → |ctV N x t| ≤ ctB N x) := by
  obtain ⟨q, hq, hmq, hl1, hl2⟩ := mulInto_lims hmt
  obtain ⟨tmp, ht1, htc, htok, htv⟩ := mul_core he h1.1 h2.1 hq hl1.1 hl1.2 hl2.1 hl2.2 hUc (hadm d hd hsz mt hmt q hq)
  have htmt : tmp.ct = mt := by rw [htc, hmq]
  have hsize : tmp.g.size = d.g.size := by
    have := congrArg Ct.size htc
    simpa [DCt.ct] using this
  have hbud : tmp.md.logBudget ≤ β0 := by
    have := congrArg Ct.md htc
    simp only [DCt.ct] at this
    rw [this]
    have := (mulCt_budget hq).1
    simp only [DCt.ct] at this
    show q.budget ≤ β0
    omega
  obtain ⟨a1, a2⟩ := htv x.1.M x.2.M x.1.E x.2.E x.1.B x.2.B h1.2.1 h2.2.1 h1.2.2.1 h2.2.2.1 h1.2.2.2.1 h2.2.2.2.1 h1.2.2.2.2 h2.2.2.2.2
  exact ⟨tmp, ht1, htmt, htok, hsize, hbud, a1, a2⟩

theorem mul_termSpecT {env : Env} (he : EnvOK env) {N r : Nat} {mk : MulKey} (s : List Poly) {Uc : ℚ} (hUc : 0 ≤ Uc) (x : TOp × TOp)
    (h1 : x.1.ok env N r s) (h2 : x.2.ok env N r s) (sz β0 : Nat) (hadm : DotAdm env N r mk s Uc sz x.1.c x.2.c)
    (hβ : x.1.c.md.logBudget ≤ β0) :
    TermSpec env N r sz β0 (fun s' => s' = s) (fun d => dMulInto env N mk d x.1.c x.2.c) (fun c => mulInto env c x.1.c.ct x.2.c.ct)
      (fun _ t => ctV N x t) (fun _ => Uc * (2 ^ β0 / 2 ^ (env.base2k * sz)) + ctE N (sn r s) x) := by
  intro d hd hsz mt hmt
  obtain ⟨tmp, ht1, htmt, htok, hsize, hbud, a1, _⟩ := mul_coreT he s hUc x h1 h2 sz β0 hadm hβ (hd.mono (half_nonneg _)) hsz hmt
  refine ⟨tmp, ht1, htmt, htok, hsize, hbud, fun s' hs' t ht => ?_⟩
  subst hs'
  refine (a1 t ht).mono ?_
  have := mul_le_mul_of_nonneg_left (ulp_le_top htok (hsize.trans hsz) hbud) hUc
  linarith

/-- the two sides of a dot product have one `log_delta` each (then `ckks_dot_product_ct` takes the fused path) -/
def dotUniform (as bs : List Ct) : Bool :=
  as.all (fun c => c.md.logDelta == (as.headD ⟨⟨0, 0⟩, 0⟩).md.logDelta) && bs.all (fun c => c.md.logDelta == (bs.headD ⟨⟨0, 0⟩, 0⟩).md.logDelta)

/-- the metadata run of the un-fused path -/
theorem dotCt_unfused_ok {env : Env} {dst a0 b0 m : Ct} {ta tb : List Ct} (hm : dotCt env dst (a0 :: ta) (b0 :: tb) = .ok m)
    (hun : ta = [] ∨ dotUniform (a0 :: ta) (b0 :: tb) = false) :
    accFits env (ta.length + 1) = true ∧ ta.length = tb.length ∧ ∃ m0, mulInto env dst a0 b0 = .ok m0 ∧
      ((ta.zip tb).map (fun (ab : Ct × Ct) => fun t => mulInto env t ab.1 ab.2)).foldl (accStep env) (.ok m0) = .ok m := by
  simp only [dotCt, List.length_cons] at hm
  rw [if_neg (by omega)] at hm
  by_cases hl : ta.length + 1 ≠ tb.length + 1
  · rw [if_pos hl] at hm; cases hm
  · rw [if_neg hl] at hm
    have hl' : ta.length = tb.length := by omega
    cases hfit : accFits env (ta.length + 1) with
    | false => simp [hfit] at hm
    | true =>
      simp only [hfit, Bool.not_true, Bool.false_eq_true, if_false] at hm
      refine ⟨rfl, hl', ?_⟩
      rcases hun with rfl | hun
      · simp only [List.isEmpty_nil, if_true] at hm
        exact ⟨m, hm, by simp⟩
      · by_cases hte : ta.isEmpty = true
        · have : ta = [] := List.isEmpty_iff.mp hte
          subst this
          simp only [List.isEmpty_nil, if_true] at hm
          exact ⟨m, hm, by simp⟩
        · rw [if_neg hte] at hm
          have hu : (((a0 :: ta).all fun c => c.md.logDelta == a0.md.logDelta) && (b0 :: tb).all fun c => c.md.logDelta == b0.md.logDelta) = false := by
            simpa [dotUniform] using hun
          rw [hu] at hm
          simp only [Bool.not_false, if_true, List.zip_cons_cons, List.drop_succ_cons, List.drop_zero] at hm
          cases h0 : mulInto env dst a0 b0 with
          | ok m0 =>
            simp only [h0, Res.bind, accumulate] at hm
            exact ⟨m0, rfl, hm⟩
          | err e x => simp only [h0, Res.bind] at hm; cases hm
          | panic p => simp only [h0, Res.bind] at hm; cases hm

/-- the data run of the un-fused path -/
theorem dDotCt_unfused_eq {env : Env} {N : Nat} {mk : MulKey} {dst a0 b0 : DCt} {ta tb : List DCt} {m : Ct}
    (hm : dotCt env dst.ct ((a0 :: ta).map DCt.ct) ((b0 :: tb).map DCt.ct) = .ok m)
    (hun : ta = [] ∨ dotUniform ((a0 :: ta).map DCt.ct) ((b0 :: tb).map DCt.ct) = false) :
    dDotCt env N mk dst (a0 :: ta) (b0 :: tb) = dAccumulate env N (dMulInto env N mk dst a0 b0)
      ((ta.zip tb).map (fun (ab : DCt × DCt) => fun t => dMulInto env N mk t ab.1 ab.2)) := by
  rw [dDotCt, withMeta_ok _ _ _ hm]
  simp only
  by_cases hte : ta.isEmpty = true
  · have : ta = [] := List.isEmpty_iff.mp hte
    subst this
    simp [dAccumulate]
  · rw [if_neg hte]
    rcases hun with rfl | hun
    · simp at hte
    · have hu : ((((a0 :: ta).map DCt.ct).all fun c => c.md.logDelta == a0.md.logDelta) && ((b0 :: tb).map DCt.ct).all fun c => c.md.logDelta == b0.md.logDelta) = false := by
        simpa [dotUniform, DCt.ct] using hun
      simp only [hu, Bool.not_false, if_true]

/-- **`ckks_dot_product_ct`, un-fused path (`accumulate_unnormalized`) and the single pair, on tracked operands** — under the product
contract of every pair -/
theorem dDotCt_tracks {env : Env} (he : EnvOK env) {N r : Nat} (hN : 0 < N) {mk : MulKey} {dst : DCt} (s : List Poly) {Uc : ℚ} (hUc : 0 ≤ Uc)
    (L : List (TOp × TOp)) (hd : DOK env N r dst) (hL : ∀ x ∈ L, x.1.ok env N r s ∧ x.2.ok env N r s)
    {m : Ct} (hm : dotCt env dst.ct (L.map (fun x => x.1.c.ct)) (L.map (fun x => x.2.c.ct)) = .ok m)
    (hun : L.length = 1 ∨ dotUniform (L.map (fun x => x.1.c.ct)) (L.map (fun x => x.2.c.ct)) = false)
    (hadm : ∀ x ∈ L, DotAdm env N r mk s Uc dst.g.size x.1.c x.2.c)
    (β0 : Nat) (hβ0 : ∀ x ∈ L, x.1.c.md.logBudget ≤ β0) :
    ∃ c', dDotCt env N mk dst (L.map (fun x => x.1.c)) (L.map (fun x => x.2.c)) = .ok c' ∧ c'.ct = m ∧ DOK env N r c' ∧ c'.g.size = dst.g.size ∧
      (∀ t, t < N → Near (decC s c' t) ((L.map (fun x => ctV N x t)).sum) (wrap c')
        ((L.map (fun x => (Uc + sn r s) * (2 ^ β0 / 2 ^ (env.base2k * dst.g.size)) + ctE N (sn r s) x)).sum)) ∧
      (∀ t, t < N → |(L.map (fun x => ctV N x t)).sum| ≤ (L.map (fun x => ctB N x)).sum) := by
  have hσ : 0 ≤ sn r s := le_trans zero_le_one (sn_pos r s)
  match L, hL, hm, hun, hadm, hβ0 with
  | [], _, hm, _, _, _ => simp [dotCt] at hm
  | x0 :: rest, hL, hm, hun, hadm, hβ0 =>
    simp only [List.map_cons] at hm hun
    have hun' : rest.map (fun x => x.1.c.ct) = [] ∨
        dotUniform (x0.1.c.ct :: rest.map (fun x => x.1.c.ct)) (x0.2.c.ct :: rest.map (fun x => x.2.c.ct)) = false := by
      rcases hun with h | h
      · left
        have : rest = [] := by
          simp only [List.length_cons] at h
          exact List.eq_nil_of_length_eq_zero (by omega)
        simp [this]
      · exact Or.inr h
    obtain ⟨hfit, _, m0, h0, hacc⟩ := dotCt_unfused_ok hm hun'
    simp only [List.length_map] at hfit
    obtain ⟨hx1, hx2⟩ := hL x0 (by simp)
    set top : ℚ := 2 ^ β0 / 2 ^ (env.base2k * dst.g.size) with htop
    have htop0 : 0 ≤ top := by positivity
    -- the first product, into the destination
    obtain ⟨d0, e0, hct0, hok0, hsz0, hβd0, hv0, _⟩ := mul_coreT he s hUc x0 hx1 hx2 dst.g.size β0 (hadm x0 (by simp))
      (hβ0 x0 (by simp)) hd rfl h0
    let terms : List ((DCt → Outcome DCt) × (Ct → Res Ct) × (List Poly → Nat → ℚ) × (List Poly → ℚ)) :=
      rest.map (fun x => ((fun d => dMulInto env N mk d x.1.c x.2.c), (fun c => mulInto env c x.1.c.ct x.2.c.ct),
        (fun _ t => ctV N x t), (fun _ => Uc * top + ctE N (sn r s) x)))
    have hts : ∀ y ∈ terms, TermSpec env N r dst.g.size β0 (fun s' => s' = s) y.1 y.2.1 y.2.2.1 y.2.2.2 := by
      intro y hy
      obtain ⟨x, hx, rfl⟩ := List.mem_map.mp hy
      obtain ⟨h1, h2⟩ := hL x (by simp [hx])
      exact mul_termSpecT he s hUc x h1 h2 dst.g.size β0 (hadm x (by simp [hx])) (hβ0 x (by simp [hx]))
    have hlen : terms.length = rest.length := by simp [terms]
    have hb := accFits_bound hfit he.lo
    push_cast at hb
    have hmeta : (terms.map (fun x => x.2.1)).foldl (accStep env) (.ok d0.ct) = .ok m := by
      rw [hct0]
      have : terms.map (fun x => x.2.1)
          = ((rest.map (fun x => x.1.c.ct)).zip (rest.map (fun x => x.2.c.ct))).map (fun (ab : Ct × Ct) => fun t => mulInto env t ab.1 ab.2) := by
        rw [List.zip_map']
        simp [terms, List.map_map, Function.comp_def]
      rw [this]
      exact hacc
    obtain ⟨c', e2, hctf, hokf, hszf, hbud, hv⟩ := dAccumulate_sem he β0 (fun s' => s' = s) terms hts hok0 hsz0 hβd0
      (by rw [hlen]; linarith) e0 hmeta
    have hmodel : dDotCt env N mk dst ((x0 :: rest).map (fun x => x.1.c)) ((x0 :: rest).map (fun x => x.2.c))
        = dAccumulate env N (dMulInto env N mk dst x0.1.c x0.2.c) (terms.map (fun x => x.1)) := by
      simp only [List.map_cons]
      rw [dDotCt_unfused_eq (m := m) (by simpa [List.map_map, Function.comp_def] using hm)
        (by
          rcases hun' with h | h
          · left
            have : rest = [] := by simpa using h
            simp [this]
          · right; simpa [List.map_map, Function.comp_def] using h)]
      rw [List.zip_map']
      simp [terms, List.map_map, Function.comp_def]
    refine ⟨c', by rw [hmodel]; exact e2, hctf, hokf, hszf.trans hsz0, fun t ht => ?_, fun t ht => ?_⟩
    · have hsumE : (terms.map (fun x => x.2.2.2 s + sn r s * (2 ^ β0 / 2 ^ (env.base2k * d0.g.size)))).sum
          = (rest.map (fun x => (Uc + sn r s) * top + ctE N (sn r s) x)).sum := by
        rw [hsz0]
        simp only [terms, List.map_map, Function.comp_def, ← htop]
        congr 1
        apply List.map_congr_left
        intro x _
        ring
      have hsumV : (terms.map (fun x => x.2.2.1 s t)).sum = (rest.map (fun x => ctV N x t)).sum := by
        simp only [terms, List.map_map, Function.comp_def]
      have a2 := hv s rfl t ht
      rw [hsumE, hsumV] at a2
      have a3 := ((hv0 t ht).scale (dvd_one (β := d0.md.logBudget) (β' := c'.md.logBudget) hbud)).add
        (Near.refl ((rest.map (fun x => ctV N x t)).sum) (2 ^ c'.md.logBudget))
      simp only [one_mul, abs_one] at a3
      have hu0 := mul_le_mul_of_nonneg_left (ulp_le_top hok0 hsz0 hβd0) hUc
      have := (a2.trans a3).mono (show (rest.map (fun x => (Uc + sn r s) * top + ctE N (sn r s) x)).sum
          + (Uc * ulp d0 + ctE N (sn r s) x0 + 0)
          ≤ ((Uc + sn r s) * top + ctE N (sn r s) x0) + (rest.map (fun x => (Uc + sn r s) * top + ctE N (sn r s) x)).sum by
        have h2 : 0 ≤ sn r s * top := mul_nonneg hσ htop0
        linarith)
      simp only [List.map_cons, List.sum_cons]
      simpa [decC, wrap] using this
    · apply abs_sum_map_le
      intro x hx
      obtain ⟨h1, h2⟩ := hL x hx
      have hB1 := h1.2.2.2.2
      have hB2 := h2.2.2.2.2
      have := (supLe_qNegMul (polyOf_supLe h1.2.2.1) (polyOf_supLe h2.2.2.1) hB1 hB2).getD (by rw [polyOf_length]; positivity) t
      rw [polyOf_length] at this
      exact this

end Ckks
