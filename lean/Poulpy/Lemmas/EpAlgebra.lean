import Poulpy.Model.HalSpec
import Poulpy.Lemmas.NegMul
import Poulpy.Lemmas.HalSpec

/-!
Module-like algebra of the exact negacyclic product on coefficient lists, as needed by the
external-product / tensor-product identities (C04, C05): multiplication operators `negMul a`
commute with each other, with scaling and with `mulX`; finite sums `sumR` (the fold the HAL model
uses, `Hal.sumPolys`) are additive and commute with the operators.  Core Lean only.
-/

namespace Hal

theorem zeroP_length (n : Nat) : (zeroP n).length = n := by simp [zeroP]

theorem ep_polyAdd_zero_left (n : Nat) (a : Poly) (h : a.length = n) : polyAdd (zeroP n) a = a := by
  subst h
  unfold polyAdd zeroP
  induction a with
  | nil => rfl
  | cons x xs ih => simp [List.replicate_succ, ih]

theorem ep_polyAdd_zero_right (n : Nat) (a : Poly) (h : a.length = n) : polyAdd a (zeroP n) = a := by
  rw [polyAdd_comm]; exact ep_polyAdd_zero_left n a h

theorem polyScale_scale (c d : Int) (a : Poly) : polyScale c (polyScale d a) = polyScale d (polyScale c a) := by
  unfold polyScale
  simp only [List.map_map]
  apply List.map_congr_left
  intro x _
  simp only [Function.comp]
  rw [← Int.mul_assoc, ← Int.mul_assoc, Int.mul_comm c d]

theorem ep_polyScale_zeroP (c : Int) (n : Nat) : polyScale c (zeroP n) = zeroP n := by
  simp [polyScale, zeroP]

theorem ep_mulX_scale (c : Int) (a : Poly) : mulX (polyScale c a) = polyScale c (mulX a) := by
  rcases List.eq_nil_or_concat a with rfl | ⟨a', x, rfl⟩
  · simp [mulX, polyScale]
  · simp only [List.concat_eq_append]
    have e : polyScale c (a' ++ [x]) = polyScale c a' ++ [c * x] := by simp [polyScale]
    rw [e, mulX_append_one, mulX_append_one]
    simp [polyScale, Int.mul_neg]

theorem ep_negMul_scale_right (a : Poly) (c : Int) (x : Poly) : negMul a (polyScale c x) = polyScale c (negMul a x) := by
  induction a with
  | nil => simp [negMul, polyScale]
  | cons a0 as ih =>
    simp only [negMul]
    rw [ih, ep_mulX_scale, polyScale_add, polyScale_scale]

theorem ep_negMul_mulX_right (a : Poly) (x : Poly) : negMul a (mulX x) = mulX (negMul a x) := by
  induction a with
  | nil =>
    simp only [negMul]
    rcases List.eq_nil_or_concat x with rfl | ⟨x', z, rfl⟩
    · simp [mulX]
    · simp only [List.concat_eq_append]
      rw [mulX_append_one]
      have : List.map (fun _ => (0:Int)) (x' ++ [z]) = List.map (fun _ => (0:Int)) x' ++ [0] := by simp
      rw [this, mulX_append_one]
      simp
  | cons a0 as ih =>
    simp only [negMul]
    rw [ih, mulX_add _ _ (by rw [polyScale_length, mulX_length, negMul_length]), ep_mulX_scale]

/-- multiplication operators commute: `a ⋆ (b ⋆ x) = b ⋆ (a ⋆ x)` -/
theorem negMul_negMul_comm (a b x : Poly) : negMul a (negMul b x) = negMul b (negMul a x) := by
  induction a with
  | nil =>
    simp only [negMul]
    have h : ∀ y : Poly, negMul b (y.map (fun _ => (0:Int))) = (y.map (fun _ => (0:Int))) := by
      intro y
      have : y.map (fun _ => (0:Int)) = zeroP y.length := by
        simp [zeroP, List.eq_replicate_iff]
      rw [this, negMul_zero_right]
    rw [h]
    have hl : (negMul b x).length = x.length := negMul_length b x
    simp [List.eq_replicate_iff] at *
    apply List.ext_getElem
    · simp [hl]
    · intro i h1 h2; simp
  | cons a0 as ih =>
    simp only [negMul]
    rw [ih, negMul_add_right _ _ _ (by rw [polyScale_length, mulX_length, negMul_length]),
      ep_negMul_scale_right, ep_negMul_mulX_right]

/-- `Σ_{i<k} f i`, the fold the HAL model uses -/
def sumR (n : Nat) (f : Nat → Poly) (k : Nat) : Poly := sumPolys n ((List.range k).map f)

theorem sumR_zero (n : Nat) (f : Nat → Poly) : sumR n f 0 = zeroP n := by simp [sumR, sumPolys]

theorem sumR_succ (n : Nat) (f : Nat → Poly) (k : Nat) : sumR n f (k + 1) = polyAdd (sumR n f k) (f k) := by
  simp [sumR, sumPolys, List.range_succ, List.foldl_append]

theorem sumR_length (n : Nat) (f : Nat → Poly) (k : Nat) (hf : ∀ i, i < k → (f i).length = n) : (sumR n f k).length = n := by
  induction k with
  | zero => simp [sumR_zero, zeroP]
  | succ k ih =>
    rw [sumR_succ, polyAdd_length, ih (fun i hi => hf i (by omega)), hf k (by omega)]
    simp

theorem sumR_congr (n : Nat) (f g : Nat → Poly) (k : Nat) (h : ∀ i, i < k → f i = g i) : sumR n f k = sumR n g k := by
  induction k with
  | zero => simp [sumR_zero]
  | succ k ih => rw [sumR_succ, sumR_succ, ih (fun i hi => h i (by omega)), h k (by omega)]

/-- operators distribute over the sums -/
theorem negMul_sumR (n : Nat) (p : Poly) (f : Nat → Poly) (k : Nat) (hf : ∀ i, i < k → (f i).length = n) :
    negMul p (sumR n f k) = sumR n (fun i => negMul p (f i)) k := by
  induction k with
  | zero => simp [sumR_zero, negMul_zero_right]
  | succ k ih =>
    rw [sumR_succ, sumR_succ, negMul_add_right _ _ _ (by
      rw [sumR_length n f k (fun i hi => hf i (by omega)), hf k (by omega)]), ih (fun i hi => hf i (by omega))]

theorem polyScale_sumR (n : Nat) (c : Int) (f : Nat → Poly) (k : Nat) :
    polyScale c (sumR n f k) = sumR n (fun i => polyScale c (f i)) k := by
  induction k with
  | zero => simp [sumR_zero, ep_polyScale_zeroP]
  | succ k ih => rw [sumR_succ, sumR_succ, polyScale_add, ih]

/-- sums are additive -/
theorem sumR_add (n : Nat) (f g : Nat → Poly) (k : Nat) :
    polyAdd (sumR n f k) (sumR n g k) = sumR n (fun i => polyAdd (f i) (g i)) k := by
  induction k with
  | zero => simp [sumR_zero, polyAdd_zero_zero]
  | succ k ih => rw [sumR_succ, sumR_succ, sumR_succ, polyAdd_exchange, ih]

/-- exchange of two finite sums -/
theorem sumR_comm (n : Nat) (f : Nat → Nat → Poly) (k m : Nat) :
    sumR n (fun i => sumR n (fun j => f i j) m) k = sumR n (fun j => sumR n (fun i => f i j) k) m := by
  induction k with
  | zero =>
    simp only [sumR_zero]
    induction m with
    | zero => simp [sumR_zero]
    | succ m ih => rw [sumR_succ, ← ih, polyAdd_zero_zero]
  | succ k ih =>
    rw [sumR_succ, ih, sumR_add]
    apply sumR_congr
    intro j _
    rw [sumR_succ]

end Hal
