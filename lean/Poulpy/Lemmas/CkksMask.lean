import Poulpy.Lemmas.CkksMulComp
import Poulpy.Props.C05
import Poulpy.Model.CkksMulData
/-!
The masking relation of `cnv_prepare_*` (piece 4): the operand the products read — the first `L = ⌈K/b⌉` limbs of every column,
the bottom one masked by `msb_mask_bottom_limb(b, K)` (`C05.mask_keeps_top_bits`: `x ↦ x − x mod 2^(b·L − K)`) — is, as a
ciphertext of `L` limbs, `MaskedOf` the original: its decoded value lies on the grid `2^-log_delta·ℤ` (`K = log_delta + log_budget`)
and differs from the original's by at most `(1 + Σ‖sᵢ‖₁)·2^-log_delta`.
-/

namespace Ckks.Mask
open Hal Core Core.Ops C02L Ckks.Sem Ckks.CoreSem Ckks.Bound

/-- every coefficient divisible by `D` -/
def AllDvd (D : Int) (p : Poly) : Prop := ∀ x ∈ p, D ∣ x

theorem allDvd_polyAdd {D : Int} {p q : Poly} (hp : AllDvd D p) (hq : AllDvd D q) : AllDvd D (polyAdd p q) := by
  intro x hx
  obtain ⟨a, ha, b, hb, rfl⟩ := Bound.mem_zipWith hx
  exact dvd_add (hp a ha) (hq b hb)

theorem allDvd_polyScale {D : Int} (c : Int) {p : Poly} (hp : AllDvd D p) : AllDvd D (polyScale c p) := by
  intro x hx
  simp only [polyScale, List.mem_map] at hx
  obtain ⟨y, hy, rfl⟩ := hx
  exact Dvd.dvd.mul_left (hp y hy) c

theorem allDvd_mulX {D : Int} {p : Poly} (hp : AllDvd D p) : AllDvd D (Hal.mulX p) := by
  intro x hx
  unfold Hal.mulX at hx
  cases h : p.getLast? with
  | none => rw [h] at hx; simp at hx
  | some l =>
    rw [h] at hx
    simp only [List.mem_cons] at hx
    rcases hx with rfl | hx
    · exact (dvd_neg).mpr (hp l (List.mem_of_getLast? h))
    · exact hp x (List.mem_of_mem_dropLast hx)

theorem allDvd_negMul {D : Int} (s : Poly) {p : Poly} (hp : AllDvd D p) : AllDvd D (Hal.negMul s p) := by
  induction s with
  | nil =>
    intro x hx
    simp only [Hal.negMul, List.mem_map] at hx
    obtain ⟨_, _, rfl⟩ := hx
    exact dvd_zero D
  | cons a0 as ih =>
    simp only [Hal.negMul]
    exact allDvd_polyAdd (allDvd_polyScale a0 hp) (allDvd_mulX ih)

theorem allDvd_errTo {D : Int} (m : Nat) (s : List Poly) (E : Nat → Poly) (hE : ∀ i, AllDvd D (E i)) : AllDvd D (errTo m s E) := by
  induction m with
  | zero => exact hE 0
  | succ m ih => rw [errTo_succ]; exact allDvd_polyAdd ih (allDvd_negMul _ (hE _))

/-- the prepared column: all limbs but the last unchanged, the last masked -/
theorem prep_eq (N L : Nat) (m : Int) (c : Col) (hc : c.length = L) (hL : 1 ≤ L) (hl : LimbsN N c) :
    Hal.cnvPrepareCol N L m c = c.dropLast ++ [(c.getD (L - 1) (zeroP N)).map (Hal.maskCoeff m)] := by
  apply List.ext_getElem
  · simp [hc]; omega
  · intro j h1 h2
    unfold Hal.cnvPrepareCol
    simp only [List.getElem_map, List.getElem_range, hc, Nat.min_self]
    by_cases hj : j + 1 = L
    · simp only [hj, if_true]
      have : j = c.dropLast.length := by simp [hc]; omega
      rw [List.getElem_append_right (by omega)]
      simp only [this, Nat.sub_self, List.getElem_cons_zero]
      congr 1
      unfold limbOr0
      congr 1
      simp [hc]
    · have hjL : j < L := by simpa [hc] using h1
      have hj' : j < L - 1 := by omega
      simp only [hj, if_false, hjL, if_true]
      rw [List.getElem_append_left (by simp [hc]; exact hj')]
      unfold limbOr0
      rw [List.getD_eq_getElem?_getD, List.getElem?_eq_getElem (by omega), List.getElem_dropLast]
      rfl

theorem valCoeff_snoc (b : Nat) (x : Col) (l : Poly) (t : Nat) : valCoeff b (x ++ [l]) t = valCoeff b x t * 2 ^ b + l.getD t 0 := by
  rw [valCoeff_append]
  simp [valCoeff]

theorem mask_exp (b K L : Nat) (hb0 : 0 < b) (hK1 : b * (L - 1) < K) (hK2 : K ≤ b * L) (hL : 1 ≤ L) :
    (K % b = 0 → K = b * L) ∧ (K % b ≠ 0 → b - K % b = b * L - K) := by
  have hLL : b * L = b * (L - 1) + b := by
    have : L = (L - 1) + 1 := by omega
    conv_lhs => rw [this, Nat.mul_add, Nat.mul_one]
  constructor
  · intro h0
    obtain ⟨q, hq⟩ := Nat.dvd_of_mod_eq_zero h0
    have : L - 1 < q ∧ q ≤ L := by
      constructor
      · by_contra hh; push Not at hh
        have : b * q ≤ b * (L - 1) := Nat.mul_le_mul_left b hh
        omega
      · by_contra hh; push Not at hh
        have : b * (L + 1) ≤ b * q := Nat.mul_le_mul_left b hh
        rw [Nat.mul_add] at this; omega
    have : q = L := by omega
    rw [hq, this]
  · intro h0
    have hdm := Nat.div_add_mod K b
    have hq : K / b = L - 1 := by
      have h1 : b * (L - 1) ≤ K := le_of_lt hK1
      have : L - 1 ≤ K / b := (Nat.le_div_iff_mul_le hb0).mpr (by rw [Nat.mul_comm]; exact h1)
      have h2 : K / b < L := (Nat.div_lt_iff_lt_mul hb0).mpr (by
        rcases Nat.lt_or_eq_of_le hK2 with h | h
        · rw [Nat.mul_comm]; exact h
        · exfalso; apply h0; rw [h]; exact Nat.mul_mod_right b L)
      omega
    rw [hq] at hdm
    omega

theorem getD_map_lt (f : Int → Int) (l : Poly) (t : Nat) (ht : t < l.length) : (l.map f).getD t 0 = f (l.getD t 0) := by
  simp [List.getD_eq_getElem?_getD, ht]

theorem getD_mem_lt (l : Poly) (t : Nat) (ht : t < l.length) : l.getD t 0 ∈ l := by
  rw [List.getD_eq_getElem?_getD, List.getElem?_eq_getElem ht]; exact List.getElem_mem _

/-- value of the prepared column, limb form: the limbs above the last unchanged, the last one rounded down to a multiple of
`2^(b·L − K)` -/
theorem prep_val_snoc (N L b K : Nat) (hb : b ≤ 63) (c : Col) (hc : c.length = L) (hL : 1 ≤ L) (hl : LimbsN N c)
    (hK1 : b * (L - 1) < K) (hK2 : K ≤ b * L) (hr : ∀ l ∈ c, ∀ x ∈ l, -(2 ^ 63) ≤ x ∧ x < 2 ^ 63) (t : Nat) (ht : t < N) :
    valCoeff b (Hal.cnvPrepareCol N L (msbMaskBottomLimb b K) c) t
        = valCoeff b c.dropLast t * 2 ^ b
          + ((c.getD (L - 1) (zeroP N)).getD t 0 - ((c.getD (L - 1) (zeroP N)).getD t 0) % 2 ^ (b * L - K)) ∧
      valCoeff b c t = valCoeff b c.dropLast t * 2 ^ b + (c.getD (L - 1) (zeroP N)).getD t 0 := by
  have hb0 : 0 < b := by
    rcases Nat.eq_zero_or_pos b with h | h
    · subst h; simp at hK2; omega
    · exact h
  rw [prep_eq N L _ c hc hL hl, valCoeff_snoc]
  set last := c.getD (L - 1) (zeroP N) with hlastd
  have hlast : c = c.dropLast ++ [last] := by
    have hne : c ≠ [] := by intro e; subst e; simp at hc; omega
    conv_lhs => rw [← List.dropLast_append_getLast hne]
    congr 2
    rw [hlastd, List.getLast_eq_getElem, List.getD_eq_getElem?_getD, List.getElem?_eq_getElem (by omega)]
    simp [hc]
  have hv : valCoeff b c t = valCoeff b c.dropLast t * 2 ^ b + last.getD t 0 := by
    conv_lhs => rw [hlast]
    exact valCoeff_snoc b _ _ t
  refine ⟨?_, hv⟩
  have hmem : last ∈ c := by
    rw [hlastd, List.getD_eq_getElem?_getD, List.getElem?_eq_getElem (by omega)]; exact List.getElem_mem _
  have hlen : last.length = N := hl last hmem
  have hx := getD_map_lt (Hal.maskCoeff (msbMaskBottomLimb b K)) last t (by rw [hlen]; exact ht)
  have hxr := hr last hmem (last.getD t 0) (getD_mem_lt last t (by rw [hlen]; exact ht))
  rw [hx, C05.mask_keeps_top_bits b K hb _ hxr.1 hxr.2]
  obtain ⟨he0, he1⟩ := mask_exp b K L hb0 hK1 hK2 hL
  by_cases h0 : K % b = 0
  · have hKe := he0 h0
    simp only [hKe, Nat.mul_mod_right, if_true, Nat.sub_self, pow_zero, Int.emod_one]
    ring
  · simp only [h0, if_false]
    rw [he1 h0]

/-- digits of absolute value `≤ 2^b − 1` (balanced or not): the value is below one unit of the limb above -/
theorem valCoeff_digit_lt (b : Nat) (c : Col) (t : Nat) (h : ∀ l ∈ c, |l.getD t 0| ≤ 2 ^ b - 1) :
    |valCoeff b c t| ≤ 2 ^ (b * c.length) - 1 := by
  induction c using List.reverseRecOn with
  | nil => simp [valCoeff]
  | append_singleton x l ih =>
    rw [valCoeff_snoc, List.length_append, List.length_singleton, Nat.mul_add, Nat.mul_one, pow_add]
    have h1 := ih (fun l' hl' => h l' (List.mem_append_left _ hl'))
    have h2 := h l (by simp)
    have hp : (0 : Int) < 2 ^ b := by positivity
    have hq : (0 : Int) < 2 ^ (b * x.length) := by positivity
    calc |valCoeff b x t * 2 ^ b + l.getD t 0| ≤ |valCoeff b x t * 2 ^ b| + |l.getD t 0| := abs_add_le _ _
      _ = |valCoeff b x t| * 2 ^ b + |l.getD t 0| := by rw [abs_mul, abs_of_pos hp]
      _ ≤ (2 ^ (b * x.length) - 1) * 2 ^ b + (2 ^ b - 1) := by
          have := mul_le_mul_of_nonneg_right h1 hp.le
          linarith
      _ = 2 ^ (b * x.length) * 2 ^ b - 1 := by ring

/-- **one column of the operand as the product reads it** against the column itself: the first `L` limbs with the last one
masked carry the value of the whole column (`sz` limbs) up to `2^(b·L − K)` units of limb `L`; and the masked value is a
multiple of `2^(b·L − K)` -/
theorem prep_col_rel (N L b K sz : Nat) (hb : b ≤ 62) (c : Col) (hc : ColWF N sz c) (hL : 1 ≤ L) (hLs : L ≤ sz)
    (hK1 : b * (L - 1) < K) (hK2 : K ≤ b * L) (hd : ∀ l ∈ c, ∀ x ∈ l, |x| ≤ 2 ^ b - 1) (t : Nat) (ht : t < N) :
    (∃ e : Int, 2 ^ (b * sz) * valCoeff b (Hal.cnvPrepareCol N L (msbMaskBottomLimb b K) (c.take L)) t
        = 2 ^ (b * L) * valCoeff b c t + e ∧ |e| ≤ 2 ^ (b * sz) * 2 ^ (b * L - K)) ∧
      (2 ^ (b * L - K) : Int) ∣ valCoeff b (Hal.cnvPrepareCol N L (msbMaskBottomLimb b K) (c.take L)) t := by
  obtain ⟨hcl, hcN⟩ := hc
  have hb0 : 0 < b := by
    rcases Nat.eq_zero_or_pos b with h | h
    · subst h; simp at hK2; omega
    · exact h
  have htl : (c.take L).length = L := by simp [hcl, hLs]
  have htN : LimbsN N (c.take L) := fun l hl => hcN l (List.mem_of_mem_take hl)
  have hpow : (2 : Int) ^ b - 1 < 2 ^ 63 := by
    have : (2 : Int) ^ b ≤ 2 ^ 62 := pow_le_pow_right₀ (by norm_num) hb
    norm_num at this ⊢; omega
  have hr : ∀ l ∈ c.take L, ∀ x ∈ l, -(2 ^ 63) ≤ x ∧ x < 2 ^ 63 := by
    intro l hl x hx
    have := abs_le.mp (hd l (List.mem_of_mem_take hl) x hx)
    constructor <;> linarith [this.1, this.2]
  obtain ⟨hP, hT⟩ := prep_val_snoc N L b K (by omega) (c.take L) htl hL htN hK1 hK2 hr t ht
  set last := ((c.take L).getD (L - 1) (zeroP N)).getD t 0 with hlast
  set D : Int := 2 ^ (b * L - K) with hD
  have hDpos : 0 < D := by positivity
  have hr0 : 0 ≤ last % D := Int.emod_nonneg _ hDpos.ne'
  have hr1 : last % D < D := Int.emod_lt_of_pos _ hDpos
  -- truncation
  have hs := valCoeff_fit_truncate b N L c t (by omega)
  rw [fit_of_ge c (by omega)] at hs
  have hdrop := valCoeff_digit_lt b (c.drop L) t (fun l hl => by
    have hm := List.mem_of_mem_drop hl
    by_cases h : t < l.length
    · exact hd l hm _ (getD_mem_lt l t h)
    · rw [List.getD_eq_getElem?_getD, List.getElem?_eq_none (by omega)]
      have : (0 : Int) < 2 ^ b := by positivity
      simp; omega)
  rw [List.length_drop, hcl] at hdrop
  have hsz : (2 : Int) ^ (b * sz) = 2 ^ (b * L) * 2 ^ (b * (sz - L)) := by
    rw [← pow_add, ← Nat.mul_add]; congr 2; omega
  set P1 : Int := 2 ^ (b * L) with hP1
  set P2 : Int := 2 ^ (b * (sz - L)) with hP2
  have hP1pos : 0 < P1 := by positivity
  have hP2pos : 0 < P2 := by positivity
  rw [hcl] at hs
  constructor
  · refine ⟨-(P1 * P2 * (last % D)) - P1 * valCoeff b (c.drop L) t, ?_, ?_⟩
    · rw [hP, hs, hT, hsz]; ring
    · rw [hsz]
      have hdr := abs_le.mp hdrop
      have h1 : |P1 * P2 * (last % D)| ≤ P1 * P2 * (D - 1) := by
        rw [abs_of_nonneg (by positivity)]
        exact mul_le_mul_of_nonneg_left (by omega) (by positivity)
      have h2 : |P1 * valCoeff b (c.drop L) t| ≤ P1 * P2 := by
        rw [abs_mul, abs_of_pos hP1pos]
        exact mul_le_mul_of_nonneg_left (by linarith [hdrop]) hP1pos.le
      calc |-(P1 * P2 * (last % D)) - P1 * valCoeff b (c.drop L) t|
            ≤ |P1 * P2 * (last % D)| + |P1 * valCoeff b (c.drop L) t| := by
              rw [show -(P1 * P2 * (last % D)) - P1 * valCoeff b (c.drop L) t
                = -(P1 * P2 * (last % D)) + -(P1 * valCoeff b (c.drop L) t) by ring]
              exact (abs_add_le _ _).trans (by rw [abs_neg, abs_neg])
        _ ≤ P1 * P2 * (D - 1) + P1 * P2 := add_le_add h1 h2
        _ = P1 * P2 * D := by ring
  · rw [hP]
    have hbd : (2 : Int) ^ b = D * 2 ^ (b - (b * L - K)) := by
      rw [hD, ← pow_add]; congr 1
      have : b * L = b * (L - 1) + b := by
        have : L = (L - 1) + 1 := by omega
        conv_lhs => rw [this, Nat.mul_add, Nat.mul_one]
      omega
    refine dvd_add (Dvd.dvd.mul_left ⟨_, hbd⟩ _) ⟨last / D, ?_⟩
    have := Int.mul_ediv_add_emod last D
    linarith

/-- rounding down to a multiple of `D` stays within `[-2^b, 2^b]` when `D ∣ 2^b` -/
theorem mask_abs (b j : Nat) (hj : j ≤ b) (x : Int) (hx : |x| ≤ 2 ^ b) : |x - x % 2 ^ j| ≤ 2 ^ b := by
  set D : Int := 2 ^ j with hD
  have hDpos : 0 < D := by positivity
  obtain ⟨m, hm⟩ : ∃ m : Int, (2 : Int) ^ b = D * m := ⟨2 ^ (b - j), by rw [hD, ← pow_add]; congr 1; omega⟩
  have h1 : x - x % D = D * (x / D) := by have := Int.mul_ediv_add_emod x D; linarith
  have hr0 : 0 ≤ x % D := Int.emod_nonneg _ hDpos.ne'
  have hr1 : x % D < D := Int.emod_lt_of_pos _ hDpos
  have hx' := abs_le.mp hx
  rw [abs_le]
  constructor
  · rw [h1, hm]
    by_contra hc
    push Not at hc
    have hq : x / D < -m := by
      by_contra hq; push Not at hq
      have := mul_le_mul_of_nonneg_left hq hDpos.le
      linarith
    have hq' : x / D + 1 ≤ -m := by omega
    have := mul_le_mul_of_nonneg_left hq' hDpos.le
    have h2 : x < D * (x / D) + D := by linarith
    nlinarith
  · linarith

/-- digits of a prepared column -/
theorem prep_digits (N L b K : Nat) (hb : b ≤ 62) (c : Col) (hc : c.length = L) (hL : 1 ≤ L) (hl : LimbsN N c)
    (hK1 : b * (L - 1) < K) (hK2 : K ≤ b * L) (hd : ∀ l ∈ c, ∀ x ∈ l, |x| ≤ 2 ^ b) :
    ∀ l ∈ Hal.cnvPrepareCol N L (msbMaskBottomLimb b K) c, ∀ x ∈ l, |x| ≤ 2 ^ b := by
  have hb0 : 0 < b := by
    rcases Nat.eq_zero_or_pos b with h | h
    · subst h; simp at hK2; omega
    · exact h
  have hpow : (2 : Int) ^ b < 2 ^ 63 := by
    have : (2 : Int) ^ b ≤ 2 ^ 62 := pow_le_pow_right₀ (by norm_num) hb
    norm_num at this ⊢; omega
  rw [prep_eq N L _ c hc hL hl]
  intro l hl' x hx
  rcases List.mem_append.mp hl' with h | h
  · exact hd l (List.mem_of_mem_dropLast h) x hx
  · simp only [List.mem_singleton] at h
    subst h
    obtain ⟨y, hy, rfl⟩ := List.mem_map.mp hx
    have hmem : c.getD (L - 1) (zeroP N) ∈ c := by
      rw [List.getD_eq_getElem?_getD, List.getElem?_eq_getElem (by omega)]; exact List.getElem_mem _
    have hyb := hd _ hmem y hy
    have hyr := abs_le.mp hyb
    rw [C05.mask_keeps_top_bits b K (by omega) y (by linarith [hyr.1]) (by linarith [hyr.2])]
    obtain ⟨_, he1⟩ := mask_exp b K L hb0 hK1 hK2 hL
    split
    · exact hyb
    · next h0 =>
      exact mask_abs b _ (by omega) y hyb

/-- admissible operand of a product: well formed, digits `≤ 2^b − 1` (what every normalisation leaves), `1 ≤ b ≤ 62`,
`effective_k ≥ 1` and within the limbs present -/
structure MaskAdm (N b r K : Nat) (g : GLWE) : Prop where
  gb : GB N b r (2 ^ b - 1) g
  hb1 : 1 ≤ b
  hb : b ≤ 62
  hK : 1 ≤ K
  hL : divCeil K b ≤ g.size

/-- the operand as `cnv_prepare_left/right/self` reads it -/
def masked (N b K : Nat) (g : GLWE) : GLWE := Ks.mkCt b N (prepAll N (msbMaskBottomLimb b K) (Ckks.effCols b K g))

theorem masked_cols (N b K : Nat) (g : GLWE) :
    (masked N b K g).cols = g.cols.map (fun c => Hal.cnvPrepareCol N (c.take (divCeil K b)).length (msbMaskBottomLimb b K) (c.take (divCeil K b))) := by
  simp [masked, Ks.mkCt, prepAll, Ckks.effCols, List.map_map, Function.comp_def, List.length_take]

theorem masked_wf {N b r K : Nat} {g : GLWE} (h : MaskAdm N b r K g) :
    GWF N (masked N b K g) ∧ (masked N b K g).size = divCeil K b ∧ (masked N b K g).rank = r ∧ (masked N b K g).base2k = b := by
  obtain ⟨hn, hne, hcols⟩ := h.gb.wf
  have hlen : ∀ c ∈ g.cols, (c.take (divCeil K b)).length = divCeil K b := by
    intro c hc; rw [List.length_take, (hcols c hc).1]; exact Nat.min_eq_left h.hL
  have hsz : (masked N b K g).size = divCeil K b := by
    unfold GLWE.size
    rw [masked_cols]
    cases hg : g.cols with
    | nil => exact absurd hg hne
    | cons c0 cs =>
      simp only [List.map_cons, List.getD_cons_zero, Hal.cnvPrepareCol_length]
      exact hlen c0 (by rw [hg]; simp)
  refine ⟨⟨rfl, ?_, ?_⟩, hsz, ?_, rfl⟩
  · rw [masked_cols]; simpa using hne
  · intro c hc
    rw [masked_cols] at hc
    obtain ⟨c0, hc0, rfl⟩ := List.mem_map.mp hc
    rw [hsz]
    exact ⟨by simp [hlen c0 hc0], cnvPrepareCol_limbs N _ _ _ (fun l hl => (hcols c0 hc0).2 l (List.mem_of_mem_take hl))⟩
  · unfold GLWE.rank
    rw [masked_cols, List.length_map]
    exact h.gb.rk

/-- **the masked operand against the operand** (phase level): same phase up to `(1 + Σ‖sᵢ‖₁)·2^(b·L − K)` units of limb `L`,
and every phase coefficient of the masked operand is a multiple of `2^(b·L − K)` -/
theorem masked_phase {N b r K : Nat} {g : GLWE} (h : MaskAdm N b r K g) (s : List Poly) (t : Nat) (ht : t < N) :
    (∃ e : Int, 2 ^ (b * g.size) * valCoeff b (phase s (masked N b K g)) t
        = 2 ^ (b * divCeil K b) * valCoeff b (phase s g) t + e ∧
        |e| ≤ (1 + snorm (min r s.length) s) * (2 ^ (b * g.size) * 2 ^ (b * divCeil K b - K))) ∧
      (2 ^ (b * divCeil K b - K) : Int) ∣ valCoeff b (phase s (masked N b K g)) t := by
  obtain ⟨hwf, hsz, hrk, hbk⟩ := masked_wf h
  have hb0 : 0 < b := h.hb1
  set L := divCeil K b with hLd
  have hL1 : 1 ≤ L := Ckks.divCeil_pos K b hb0 h.hK
  have hK2 : K ≤ b * L := by rw [Nat.mul_comm]; exact Ckks.le_divCeil_mul K b hb0
  have hK1 : b * (L - 1) < K := by
    have := Ckks.divCeil_mul_lt K b hb0
    rw [← hLd] at this
    have e : L * b = b * (L - 1) + b := by
      have : L = (L - 1) + 1 := by omega
      conv_lhs => rw [this, Nat.add_mul, Nat.one_mul, Nat.mul_comm]
    omega
  have hcolrel : ∀ i, i ≤ (masked N b K g).rank → ∀ t, t < N →
      (∃ e : Int, 2 ^ (b * g.size) * valCoeff b (col (masked N b K g) i) t = 2 ^ (b * L) * valCoeff b (col g i) t + e ∧
        |e| ≤ 2 ^ (b * g.size) * 2 ^ (b * L - K)) ∧ (2 ^ (b * L - K) : Int) ∣ valCoeff b (col (masked N b K g) i) t := by
    intro i hi t ht
    have hil : i < g.cols.length := by
      have := h.gb.wf.len
      rw [hrk, ← h.gb.rk] at hi; omega
    have hcm : col (masked N b K g) i = Hal.cnvPrepareCol N L (msbMaskBottomLimb b K) ((col g i).take L) := by
      show (masked N b K g).cols.getD i [] = _
      rw [masked_cols, List.getD_eq_getElem?_getD, List.getElem?_map, List.getElem?_eq_getElem hil]
      simp only [Option.map_some, Option.getD_some]
      have hci : col g i = g.cols[i] := by
        show g.cols.getD i [] = _
        rw [List.getD_eq_getElem?_getD, List.getElem?_eq_getElem hil]; rfl
      rw [hci]
      congr 1
      rw [List.length_take, (h.gb.wf.2.2 _ (List.getElem_mem hil)).1]
      exact Nat.min_eq_left h.hL
    have hmem : col g i ∈ g.cols := by
      show g.cols.getD i [] ∈ _
      rw [List.getD_eq_getElem?_getD, List.getElem?_eq_getElem hil]; exact List.getElem_mem hil
    rw [hcm]
    exact prep_col_rel N L b K g.size h.hb (col g i) (h.gb.wf.2.2 _ hmem) hL1 h.hL hK1 hK2 (h.gb.nb _ hmem) t ht
  constructor
  · have := torus_phase3 (r' := masked N b K g) (o := g) (a := g) hwf h.gb.wf h.gb.wf (by rw [hrk, h.gb.rk])
      (by rw [hrk, h.gb.rk]) b b b (2 ^ (b * g.size)) (2 ^ (b * L)) 0 0 (2 ^ (b * g.size) * 2 ^ (b * L - K))
      (fun i hi t ht => by
        obtain ⟨⟨e, he, hb⟩, _⟩ := hcolrel i hi t ht
        exact ⟨0, e, by rw [he]; ring, hb⟩) s t ht
    obtain ⟨q, e, he, hb⟩ := this
    rw [hrk] at hb
    exact ⟨e, by rw [he]; ring, hb⟩
  · have hv : valCoeff b (phase s (masked N b K g)) t = (valP b N (phase s (masked N b K g))).getD t 0 := (valP_getD b N _ t ht).symm
    rw [hv, phase_eq_linTo, valP_linTo (N := N) (rs := (masked N b K g).size) b _ s _ (fun i hi => by
      by_cases hi' : i ≤ (masked N b K g).rank
      · have hil : i < (masked N b K g).cols.length := by have := hwf.len; omega
        apply hwf.2.2
        show (masked N b K g).cols.getD i [] ∈ _
        rw [List.getD_eq_getElem?_getD, List.getElem?_eq_getElem hil]; exact List.getElem_mem hil
      · exfalso; omega)]
    have hall : AllDvd (2 ^ (b * L - K) : Int) (errTo (min (masked N b K g).rank s.length) s (fun i => valP b N (col (masked N b K g) i))) := by
      apply allDvd_errTo
      intro i x hx
      simp only [valP, List.mem_map, List.mem_range] at hx
      obtain ⟨t', ht', rfl⟩ := hx
      by_cases hi : i ≤ (masked N b K g).rank
      · exact (hcolrel i hi t' ht').2
      · have hnil : col (masked N b K g) i = [] := by
          show (masked N b K g).cols.getD i [] = []
          have := hwf.len
          rw [List.getD_eq_getElem?_getD, List.getElem?_eq_none (by omega)]; rfl
        rw [hnil]; simp [valCoeff]
    by_cases hlt : t < (errTo (min (masked N b K g).rank s.length) s (fun i => valP b N (col (masked N b K g) i))).length
    · exact hall _ (getD_mem_lt _ t hlt)
    · rw [List.getD_eq_getElem?_getD, List.getElem?_eq_none (by omega)]; simp

/-- **piece 4: the masking relation of `cnv_prepare_*`, discharged.**  The operand a product reads — `effective_k` bits:
the first `⌈effective_k/b⌉` limbs, the last one masked — decodes on the grid `2^-log_delta·ℤ` within
`(1 + Σ‖sᵢ‖₁)·2^-log_delta` of the operand itself -/
theorem maskedOf_prep {N b r : Nat} {a : DCt} (h : MaskAdm N b r a.md.effK a.g) (s : List Poly) :
    MaskedOf s N a (masked N b a.md.effK a.g) (sn r s / 2 ^ a.md.logDelta) := by
  obtain ⟨hwf, hsz, hrk, hbk⟩ := masked_wf h
  have hb0 : 0 < b := h.hb1
  have hK2 : a.md.effK ≤ b * divCeil a.md.effK b := by rw [Nat.mul_comm]; exact Ckks.le_divCeil_mul _ b hb0
  obtain ⟨j, hj⟩ : ∃ j, b * divCeil a.md.effK b = a.md.effK + j := ⟨b * divCeil a.md.effK b - a.md.effK, by omega⟩
  have hKe : a.md.effK = a.md.logDelta + a.md.logBudget := rfl
  have hbg : a.g.base2k = b := h.gb.bk
  constructor
  · intro t ht
    obtain ⟨_, n, hn⟩ := masked_phase h s t ht
    refine ⟨n, ?_⟩
    simp only [decG, dec, tor, hbk, hsz]
    rw [hn, hj, Nat.add_sub_cancel_left, pow_add, hKe, pow_add]
    push_cast
    field_simp
  · intro t ht
    obtain ⟨⟨e, he, hb⟩, _⟩ := masked_phase h s t ht
    simp only [decC, decG, dec, tor, hbk, hsz, hbg]
    have heq : ((2 : ℚ) ^ (b * a.g.size)) * (valCoeff b (phase s (masked N b a.md.effK a.g)) t : ℚ)
        = 2 ^ (b * divCeil a.md.effK b) * (valCoeff b (phase s a.g) t : ℚ) + (e : ℚ) := by exact_mod_cast he
    have hbq : |(e : ℚ)| ≤ sn r s * (2 ^ (b * a.g.size) * 2 ^ (b * divCeil a.md.effK b - a.md.effK)) := by
      unfold sn; exact_mod_cast hb
    have hdiff : (valCoeff b (phase s (masked N b a.md.effK a.g)) t : ℚ) / 2 ^ (b * divCeil a.md.effK b) * 2 ^ a.md.logBudget
        - (valCoeff b (phase s a.g) t : ℚ) / 2 ^ (b * a.g.size) * 2 ^ a.md.logBudget
        = (e : ℚ) * 2 ^ a.md.logBudget / (2 ^ (b * a.g.size) * 2 ^ (b * divCeil a.md.effK b)) := by
      field_simp
      linarith [heq]
    rw [hdiff, abs_div, abs_mul, abs_of_pos (by positivity : (0 : ℚ) < 2 ^ a.md.logBudget),
      abs_of_pos (by positivity : (0 : ℚ) < 2 ^ (b * a.g.size) * 2 ^ (b * divCeil a.md.effK b)),
      div_le_div_iff₀ (by positivity) (by positivity)]
    rw [hj, Nat.add_sub_cancel_left] at hbq
    rw [hj, hKe, pow_add, pow_add]
    have h2 : |(e : ℚ)| * 2 ^ a.md.logBudget ≤ sn r s * (2 ^ (b * a.g.size) * 2 ^ j) * 2 ^ a.md.logBudget :=
      mul_le_mul_of_nonneg_right hbq (by positivity)
    calc |(e : ℚ)| * 2 ^ a.md.logBudget * 2 ^ a.md.logDelta
          ≤ sn r s * (2 ^ (b * a.g.size) * 2 ^ j) * 2 ^ a.md.logBudget * 2 ^ a.md.logDelta :=
            mul_le_mul_of_nonneg_right h2 (by positivity)
      _ = sn r s * (2 ^ (b * a.g.size) * (2 ^ a.md.logDelta * 2 ^ a.md.logBudget * 2 ^ j)) := by ring

end Ckks.Mask
