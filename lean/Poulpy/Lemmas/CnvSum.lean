import Poulpy.Lemmas.HalSpec
import Poulpy.Lemmas.NegMul

/-!
C07, convolution and vector-matrix product as sums over index sets:
* the summation bounds of `cnvCoeff` enumerate exactly the pairs `(i, j)`, `i + j = k`, `i < |a|`,
  `j < |b|` of the bivariate product (right-hand side: a *filtered* sum over `List.range |b|`);
* one entry of `vmpFlat` is the dot product of the input row vector with a matrix column;
* the generator's digit-width rule (`vlib/halgen.py: pick_bits`) implies the FFT64 magnitude domain.
Core Lean only.
-/

namespace Hal

/-- the elements of `[0, m)` lying in `[lo, hi)`, `hi ≤ m`, are `lo, lo+1, …, hi−1` in order -/
theorem filter_range_interval (lo : Nat) : ∀ (m hi : Nat), hi ≤ m →
    (List.range m).filter (fun j => decide (lo ≤ j ∧ j < hi)) = (List.range (hi - lo)).map (fun t => lo + t)
  | 0, hi, h => by
    have : hi = 0 := by omega
    subst this; simp
  | m + 1, hi, h => by
    rw [List.range_succ, List.filter_append]
    by_cases hm : hi ≤ m
    · rw [filter_range_interval lo m hi hm]
      have : ¬ (lo ≤ m ∧ m < hi) := by omega
      simp [this]
    · have he : hi = m + 1 := by omega
      subst he
      have hc : (List.range m).filter (fun j => decide (lo ≤ j ∧ j < m + 1)) =
          (List.range m).filter (fun j => decide (lo ≤ j ∧ j < m)) := by
        apply List.filter_congr
        intro x hx
        have : x < m := List.mem_range.mp hx
        simp only [decide_eq_decide]
        omega
      rw [hc, filter_range_interval lo m m (Nat.le_refl m)]
      by_cases hl : lo ≤ m
      · have e : m + 1 - lo = (m - lo) + 1 := by omega
        rw [e, List.range_succ, List.map_append]
        have : (lo ≤ m ∧ m < m + 1) := ⟨hl, by omega⟩
        have e3 : lo + (m - lo) = m := by omega
        simp [this, e3]
      · have e1 : m + 1 - lo = 0 := by omega
        have e2 : m - lo = 0 := by omega
        simp [e1, e2, hl]

/-- specification of one coefficient of the bivariate (limb-index) product: the sum, over **all**
`j < |b|` with `j ≤ k` and `k − j < |a|`, of the exact negacyclic products `a[k−j] · b[j]` -/
def cnvCoeffSpec (n : Nat) (a b : Col) (k : Nat) : Poly :=
  sumPolys n (((List.range b.length).filter (fun j => decide (j ≤ k ∧ k - j < a.length ∧ j < b.length))).map
    (fun j => negMul (limbOr0 n a (k - j)) (limbOr0 n b j)))

/-- `cnv_apply_dft`'s inner loop bounds enumerate exactly the terms of the bivariate product -/
theorem cnvCoeff_eq_spec (n : Nat) (a b : Col) (k : Nat) (ha : 0 < a.length) :
    cnvCoeff n a b k = cnvCoeffSpec n a b k := by
  unfold cnvCoeff cnvCoeffSpec
  by_cases hk : k ≥ a.length + b.length
  · rw [if_pos hk]
    have : (List.range b.length).filter (fun j => decide (j ≤ k ∧ k - j < a.length ∧ j < b.length)) = [] := by
      apply List.filter_eq_nil_iff.mpr
      intro j hj
      have : j < b.length := List.mem_range.mp hj
      simp only [decide_eq_true_eq]
      omega
    rw [this]; rfl
  · rw [if_neg hk]
    have hk' : k < a.length + b.length := by omega
    have hc : (List.range b.length).filter (fun j => decide (j ≤ k ∧ k - j < a.length ∧ j < b.length)) =
        (List.range b.length).filter (fun j => decide (k - (a.length - 1) ≤ j ∧ j < min (k + 1) b.length)) := by
      apply List.filter_congr
      intro j _
      simp only [decide_eq_decide]
      omega
    rw [hc, filter_range_interval (k - (a.length - 1)) b.length (min (k + 1) b.length) (Nat.min_le_right _ _)]
    simp only [List.map_map]
    rfl

/-- dot product of a row vector of polynomials with a column of polynomials -/
def dotPoly (n : Nat) (u v : List Poly) : Poly := sumPolys n (List.zipWith negMul u v)

/-- column `c` of the prepared matrix restricted to its first `rows` flat rows -/
def PMat.column (m : PMat) (rows c : Nat) : List Poly := (List.range rows).map (fun j => m.entry j c)

theorem zipWith_take_column (n : Nat) (a : List Poly) (m : PMat) (rows c : Nat) (h : rows ≤ a.length) :
    List.zipWith negMul (a.take rows) (m.column rows c) =
      (List.range rows).map (fun j => negMul (a.getD j (zeroP n)) (m.entry j c)) := by
  apply List.ext_getElem
  · simp [PMat.column, List.length_take, Nat.min_eq_left h]
  · intro i h1 h2
    simp only [List.length_map, List.length_range] at h2
    simp only [PMat.column, List.getElem_zipWith, List.getElem_take, List.getElem_map, List.getElem_range]
    have : a.getD i (zeroP n) = a[i]'(by omega) := by
      rw [List.getD_eq_getElem?_getD, List.getElem?_eq_getElem (by omega)]; rfl
    rw [this]

/-- **`vmp_apply_dft_to_dft` is a vector-matrix product**: inside the written range, flat output
entry `r` is the dot product of the first `min(rows·cols_in, |a|)` input limbs (the row vector) with
column `r + limb_offset·cols_out` of the prepared matrix -/
theorem vmp_entry_dot (n : Nat) (a : List Poly) (m : PMat) (lo rl r : Nat) (hr : r < rl) (d : Poly)
    (h1 : lo * m.colsOut < min (m.colsOut * m.size) (rl + lo * m.colsOut))
    (h2 : r < min (m.colsOut * m.size) (rl + lo * m.colsOut) - lo * m.colsOut) :
    (vmpFlat n a m lo rl).getD r d =
      dotPoly n (a.take (min (m.colsIn * m.rows) a.length)) (m.column (min (m.colsIn * m.rows) a.length) (r + lo * m.colsOut)) := by
  unfold vmpFlat
  rw [mapRange_getD _ _ _ _ hr]
  rw [if_pos ⟨h1, h2⟩]
  unfold dotPoly
  rw [zipWith_take_column n a m _ _ (Nat.min_le_right _ _)]

/-! ### the FFT64 magnitude domain of the generator -/

/-- Python `int.bit_length` -/
def bitLength (x : Nat) : Nat := if x = 0 then 0 else Nat.log2 x + 1

/-- `vlib/halgen.py: pick_bits` — the largest digit width it may return for an FFT64 back end:
`budget = 50 − log2 n − max(1, bit_length(rows_flat − 1))`, `b = max(2, min(17, budget // 2))` -/
def pickBitsBudget (n rowsFlat : Nat) : Nat := 50 - Nat.log2 n - max 1 (bitLength (rowsFlat - 1))
def pickBitsCap (n rowsFlat : Nat) : Nat := max 2 (min 17 (pickBitsBudget n rowsFlat / 2))

/-- the a-priori bound on every coefficient of a sum of `rows` negacyclic products of degree-`n`
polynomials with coefficients bounded by `A` and `B` stays within the documented exact-conversion
range `2^50` of the FFT64 back ends (`reim_from_znx64`: `|x| < 2^50`) -/
def InFft64Domain (n rows A B : Nat) : Prop := n * rows * A * B ≤ 2 ^ 50

theorem le_two_pow_bitLength_pred (r : Nat) (hr : 1 ≤ r) : r ≤ 2 ^ max 1 (bitLength (r - 1)) := by
  unfold bitLength
  by_cases h : r - 1 = 0
  · rw [if_pos h]
    have : r = 1 := by omega
    subst this; decide
  · rw [if_neg h]
    have h1 : r - 1 < 2 ^ (Nat.log2 (r - 1) + 1) := Nat.lt_log2_self
    have h2 : max 1 (Nat.log2 (r - 1) + 1) = Nat.log2 (r - 1) + 1 := by omega
    rw [h2]; exact Nat.le_of_pred_lt h1

/-- **the generator's digit widths are inside the FFT64 domain**, with a factor 4 to spare (used by
the pairwise convolution, whose operands are sums of two columns): for a power-of-two ring degree
and a budget of at least 4 bits, every width `bits ≤ pickBitsCap n rows` of signed digits
(`|v| ≤ 2^(bits−1)`) satisfies `4 · n · rows · 2^(bits−1) · 2^(bits−1) ≤ 2^50` -/
theorem pick_bits_in_fft64_domain (n rows bits : Nat) (hn : n = 2 ^ Nat.log2 n) (hr : 1 ≤ rows)
    (hbud : 4 ≤ pickBitsBudget n rows) (hb1 : 1 ≤ bits) (hb : bits ≤ pickBitsCap n rows) :
    InFft64Domain n rows (2 * 2 ^ (bits - 1)) (2 * 2 ^ (bits - 1)) := by
  unfold InFft64Domain
  have hrows := le_two_pow_bitLength_pred rows hr
  generalize hL : Nat.log2 n = L at *
  generalize hR : max 1 (bitLength (rows - 1)) = R at *
  have hbudget : pickBitsBudget n rows = 50 - L - R := by unfold pickBitsBudget; rw [hL, hR]
  have hcap : bits ≤ (50 - L - R) / 2 := by
    unfold pickBitsCap at hb; rw [hbudget] at hb hbud; omega
  rw [hbudget] at hbud
  have hsum : L + R + 2 + (bits - 1) + (bits - 1) ≤ 50 := by omega
  have e : n * rows * (2 * 2 ^ (bits - 1)) * (2 * 2 ^ (bits - 1)) = n * rows * (2 ^ 2 * (2 ^ (bits - 1) * 2 ^ (bits - 1))) := by
    rw [Nat.mul_assoc (n * rows)]
    congr 1
    rw [Nat.mul_mul_mul_comm]
  rw [e, hn]
  calc 2 ^ L * rows * (2 ^ 2 * (2 ^ (bits - 1) * 2 ^ (bits - 1)))
      ≤ 2 ^ L * 2 ^ R * (2 ^ 2 * (2 ^ (bits - 1) * 2 ^ (bits - 1))) :=
        Nat.mul_le_mul_right _ (Nat.mul_le_mul_left _ hrows)
    _ = 2 ^ (L + R + 2 + (bits - 1) + (bits - 1)) := by
        rw [Nat.pow_add, Nat.pow_add, Nat.pow_add, Nat.pow_add]
        simp only [Nat.mul_assoc]
    _ ≤ 2 ^ 50 := Nat.pow_le_pow_right (by decide) hsum

end Hal
