import Mathlib.Data.ZMod.Basic
import Poulpy.Lemmas.NttMath
import Poulpy.Lemmas.Ntt120Acc

/-!
Refinement: the executable lazy networks `Ntt120.nttLevels` / `Ntt120.inttLevels` (u64 arithmetic
with explicit wraps, lazy Barrett reductions, packed twiddles) compute, read modulo `q`, the
mathematical networks `NttMath.dif` / `NttMath.dit` over `ZMod q`, and never wrap — provided the
per-level numeric conditions `fwdStepOK` / `invStepOK` (a decidable check on the level metadata that
propagates the exact worst-case magnitude `M` from level to level) and the twiddle conditions
`TwFrom` hold.  Both are established for the real tables in `Lemmas/NttTable.lean`.
-/

namespace Ntt120
open NttMath

variable {q : Nat}

/-- residue class of a lazy representative -/
abbrev cz (q : Nat) (x : Nat) : ZMod q := (x : ZMod q)

theorem cz_eq_of_modEq {a b : Nat} (h : a ≡ b [MOD q]) : cz q a = cz q b := (ZMod.natCast_eq_natCast_iff a b q).mpr h

/-! ### lazy reduction -/

structure ReducOK (q : Nat) (r : ReducK) : Prop where
  h_lt : r.h < 64
  h_ge : 33 ≤ r.h
  mask_eq : r.mask = 2 ^ r.h - 1
  cst_lt : r.cst < 2 ^ 31
  cst_eq : r.cst ≡ 2 ^ r.h [MOD q]

/-- worst-case magnitude after the optional `modq_red` -/
def redBound (r : ReducK) (reduce : Bool) (M : Nat) : Nat :=
  if reduce then (2 ^ r.h - 1) + M / 2 ^ r.h * r.cst else M

theorem redIf_spec (r : ReducK) (hr : ReducOK q r) (m : StepMeta) (x M : Nat) (hx : x ≤ M) (hM : M < 2 ^ 64) :
    cz q (redIf r m x) = cz q x ∧ redIf r m x ≤ redBound r m.reduce M := by
  unfold redIf redBound
  by_cases hred : m.reduce
  · rw [if_pos hred, if_pos hred]
    rw [hr.mask_eq]
    obtain ⟨e, c⟩ := modqRed_spec q x r.h r.cst hr.h_lt hr.cst_lt (by omega) hr.h_ge hr.cst_eq
    refine ⟨cz_eq_of_modEq c, ?_⟩
    rw [e]
    have h1 : x % 2 ^ r.h < 2 ^ r.h := Nat.mod_lt _ (Nat.two_pow_pos _)
    have h2 : x / 2 ^ r.h ≤ M / 2 ^ r.h := Nat.div_le_div_right hx
    have h3 : x / 2 ^ r.h * r.cst ≤ M / 2 ^ r.h * r.cst := Nat.mul_le_mul_right _ h2
    omega
  · rw [if_neg hred, if_neg hred]
    exact ⟨rfl, hx⟩

/-! ### the butterfly without twiddle -/

/-- numeric conditions of `(a, b) ↦ (a + b, a + q2bs − b)` on inputs bounded by `M'` -/
structure BflyOK (q : Nat) (m : StepMeta) (M' : Nat) : Prop where
  sum_lt : 2 * M' < 2 ^ 64
  diff_lt : M' + m.q2bs < 2 ^ 64
  no_underflow : M' ≤ m.q2bs
  q_dvd : q ∣ m.q2bs

theorem bfly_spec (r : ReducK) (hr : ReducOK q r) (m : StepMeta) (a b M : Nat) (ha : a ≤ M) (hb : b ≤ M) (hM : M < 2 ^ 64)
    (ok : BflyOK q m (redBound r m.reduce M)) :
    cz q (bfly r m a b).1 = cz q a + cz q b ∧ (bfly r m a b).1 ≤ 2 * redBound r m.reduce M ∧
    cz q (bfly r m a b).2 = cz q a - cz q b ∧ (bfly r m a b).2 ≤ redBound r m.reduce M + m.q2bs := by
  obtain ⟨ea, la⟩ := redIf_spec r hr m a M ha hM
  obtain ⟨eb, lb⟩ := redIf_spec r hr m b M hb hM
  unfold bfly
  simp only []
  have hs := ok.sum_lt
  have hd := ok.diff_lt
  have hu := ok.no_underflow
  rw [wu64_of_lt _ (by omega : redIf r m a + redIf r m b < 2 ^ 64)]
  rw [wu64_of_lt _ (by omega : redIf r m a + m.q2bs < 2 ^ 64)]
  have hsub : subU64 (redIf r m a + m.q2bs) (redIf r m b) = redIf r m a + m.q2bs - redIf r m b := by
    unfold subU64; omega
  rw [hsub]
  refine ⟨?_, by omega, ?_, by omega⟩
  · unfold cz at *; push_cast; rw [ea, eb]
  · unfold cz at *
    have hle : redIf r m b ≤ redIf r m a + m.q2bs := by omega
    rw [Nat.cast_sub hle]; push_cast
    have hq : ((m.q2bs : Nat) : ZMod q) = 0 := (ZMod.natCast_eq_zero_iff _ _).mpr ok.q_dvd
    rw [ea, eb, hq]; ring

/-! ### multiplication by a packed twiddle -/

/-- a table entry: `(t1 << 32) | t` with `t` the residue `σ`, `t1 = t·2^hb mod q` -/
def PackedTw (q hb : Nat) (σ : ZMod q) (po : Nat) : Prop :=
  ∃ t t1, po = t1 * 2 ^ 32 + t ∧ t < q ∧ t1 < q ∧ t1 ≡ t * 2 ^ hb [MOD q] ∧ cz q t = σ

/-- numeric conditions of `split_precompmul` on an input bounded by `D` -/
structure SpmOK (q : Nat) (m : StepMeta) (D : Nat) : Prop where
  q_lt : q < 2 ^ 31
  mask_eq : m.mask = 2 ^ m.halfBs - 1
  hb_le : m.halfBs ≤ 32
  inp_lt : D < 2 ^ (2 * m.halfBs)

/-- worst-case magnitude of a `split_precompmul` result -/
def spmBound (q hb D : Nat) : Nat := (2 ^ hb - 1 + D / 2 ^ hb) * (q - 1)

theorem spm_spec (m : StepMeta) (D x po : Nat) (σ : ZMod q) (ok : SpmOK q m D) (hx : x ≤ D) (hpo : PackedTw q m.halfBs σ po) :
    cz q (splitPrecompmul x po m.halfBs m.mask) = cz q x * σ ∧
    splitPrecompmul x po m.halfBs m.mask ≤ spmBound q m.halfBs D := by
  obtain ⟨t, t1, rfl, ht, ht1, e, hσ⟩ := hpo
  have hq := ok.q_lt
  rw [ok.mask_eq]
  obtain ⟨ev', c⟩ := splitPrecompmul_spec q x t t1 m.halfBs (by omega) (by omega) ok.hb_le (lt_of_le_of_lt hx ok.inp_lt) e
  refine ⟨?_, ?_⟩
  · rw [cz_eq_of_modEq c]; unfold cz at *; push_cast; rw [hσ]
  · rw [ev']
    unfold spmBound
    have h1 : x % 2 ^ m.halfBs ≤ 2 ^ m.halfBs - 1 := by
      have := Nat.mod_lt x (Nat.two_pow_pos m.halfBs); omega
    have h2 : x / 2 ^ m.halfBs ≤ D / 2 ^ m.halfBs := Nat.div_le_div_right hx
    have a1 : x % 2 ^ m.halfBs * t ≤ (2 ^ m.halfBs - 1) * (q - 1) := Nat.mul_le_mul h1 (by omega)
    have a2 : x / 2 ^ m.halfBs * t1 ≤ D / 2 ^ m.halfBs * (q - 1) := Nat.mul_le_mul h2 (by omega)
    rw [Nat.add_mul]; omega

/-- the twiddles of one level: entry `i` packs the residue `σ·ρ^i` -/
def TwFrom (q hb : Nat) (ρ : ZMod q) : ZMod q → List Nat → Prop
  | _, [] => True
  | σ, po :: tw => PackedTw q hb σ po ∧ TwFrom q hb ρ (σ * ρ) tw

/-- all entries of a list are bounded -/
def AllLe (M : Nat) (v : List Nat) : Prop := ∀ x ∈ v, x ≤ M

theorem AllLe.cons {M a} {v : List Nat} (h : AllLe M (a :: v)) : a ≤ M ∧ AllLe M v :=
  ⟨h a (by simp), fun x hx => h x (by simp [hx])⟩

theorem AllLe.mono {M M' : Nat} {v : List Nat} (h : AllLe M v) (hle : M ≤ M') : AllLe M' v :=
  fun x hx => le_trans (h x hx) hle

theorem AllLe.append {M : Nat} {u v : List Nat} (hu : AllLe M u) (hv : AllLe M v) : AllLe M (u ++ v) := by
  intro x hx; rcases List.mem_append.mp hx with h | h
  · exact hu x h
  · exact hv x h

/-! ### one forward block -/

theorem fwdTail_spec (r : ReducK) (hr : ReducOK q r) (m : StepMeta) (M : Nat) (hM : M < 2 ^ 64)
    (ok : BflyOK q m (redBound r m.reduce M)) (ρ : ZMod q) :
    ∀ (tw lo hi : List Nat) (σ : ZMod q), tw.length = lo.length → lo.length = hi.length → AllLe M lo → AllLe M hi →
      (tw ≠ [] → SpmOK q m (redBound r m.reduce M + m.q2bs)) → TwFrom q m.halfBs ρ σ tw →
      (fwdTail r m tw lo hi).1.map (cz q) = addL (lo.map (cz q)) (hi.map (cz q)) ∧
      (fwdTail r m tw lo hi).2.map (cz q) = scaleFrom σ ρ (subL (lo.map (cz q)) (hi.map (cz q))) ∧
      AllLe (2 * redBound r m.reduce M) (fwdTail r m tw lo hi).1 ∧
      AllLe (spmBound q m.halfBs (redBound r m.reduce M + m.q2bs)) (fwdTail r m tw lo hi).2 ∧
      (fwdTail r m tw lo hi).1.length = lo.length ∧ (fwdTail r m tw lo hi).2.length = lo.length := by
  intro tw
  induction tw with
  | nil =>
    intro lo hi σ h1 h2 _ _ _ _
    have : lo = [] := List.length_eq_zero_iff.mp h1.symm
    subst this
    have : hi = [] := List.length_eq_zero_iff.mp h2.symm
    subst this
    simp [fwdTail, addL, subL, scaleFrom, AllLe]
  | cons po tw ih =>
    intro lo hi σ h1 h2 hlo hhi hspm htw
    match lo, hi, h1, h2 with
    | a :: lo', b :: hi', h1, h2 =>
      have h1' : tw.length = lo'.length := by simpa using h1
      have h2' : lo'.length = hi'.length := by simpa using h2
      obtain ⟨haM, hlo'⟩ := hlo.cons
      obtain ⟨hbM, hhi'⟩ := hhi.cons
      have sp := hspm (by simp)
      obtain ⟨hp, htw'⟩ := htw
      obtain ⟨e1, l1, e2, l2⟩ := bfly_spec r hr m a b M haM hbM hM ok
      obtain ⟨e3, l3⟩ := spm_spec m _ (bfly r m a b).2 po σ sp l2 hp
      obtain ⟨i1, i2, i3, i4, i5, i6⟩ := ih lo' hi' (σ * ρ) h1' h2' hlo' hhi' (fun _ => sp) htw'
      simp only [fwdTail, List.map_cons, addL, subL, List.zipWith_cons_cons, scaleFrom, List.length_cons] at *
      refine ⟨?_, ?_, ?_, ?_, ?_, ?_⟩
      · rw [e1, i1]
      · rw [e3, e2, i2]
      · intro x hx
        rcases List.mem_cons.mp hx with rfl | hx
        · exact l1
        · exact i3 x hx
      · intro x hx
        rcases List.mem_cons.mp hx with rfl | hx
        · exact l3
        · exact i4 x hx
      · rw [i5]
      · rw [i6]

/-- worst-case magnitude after one forward level (`last`: the level `nn = 2` has no twiddles) -/
def fwdOut (q : Nat) (r : ReducK) (m : StepMeta) (M : Nat) (last : Bool) : Nat :=
  let M' := redBound r m.reduce M
  if last then max (2 * M') (M' + m.q2bs) else max (2 * M') (max (M' + m.q2bs) (spmBound q m.halfBs (M' + m.q2bs)))

/-- **one forward block**: `ntt_butterfly_block` computes `(lo + hi, (lo − hi)·ρ^i)` modulo `q` -/
theorem fwdBfly_spec (r : ReducK) (hr : ReducOK q r) (m : StepMeta) (M : Nat) (hM : M < 2 ^ 64)
    (ok : BflyOK q m (redBound r m.reduce M)) (ρ : ZMod q) (tw lo hi : List Nat)
    (h1 : tw.length + 1 = lo.length) (h2 : lo.length = hi.length) (hlo : AllLe M lo) (hhi : AllLe M hi)
    (hspm : tw ≠ [] → SpmOK q m (redBound r m.reduce M + m.q2bs)) (htw : TwFrom q m.halfBs ρ ρ tw) :
    (fwdBfly r m tw lo hi).1.map (cz q) = addL (lo.map (cz q)) (hi.map (cz q)) ∧
    (fwdBfly r m tw lo hi).2.map (cz q) = scalePow ρ (subL (lo.map (cz q)) (hi.map (cz q))) ∧
    AllLe (fwdOut q r m M tw.isEmpty) (fwdBfly r m tw lo hi).1 ∧ AllLe (fwdOut q r m M tw.isEmpty) (fwdBfly r m tw lo hi).2 ∧
    (fwdBfly r m tw lo hi).1.length = lo.length ∧ (fwdBfly r m tw lo hi).2.length = lo.length := by
  match lo, hi, h1, h2 with
  | a :: lo', b :: hi', h1, h2 =>
    have h1' : tw.length = lo'.length := by simpa using h1
    have h2' : lo'.length = hi'.length := by simpa using h2
    obtain ⟨haM, hlo'⟩ := hlo.cons
    obtain ⟨hbM, hhi'⟩ := hhi.cons
    obtain ⟨e1, l1, e2, l2⟩ := bfly_spec r hr m a b M haM hbM hM ok
    obtain ⟨i1, i2, i3, i4, i5, i6⟩ := fwdTail_spec r hr m M hM ok ρ tw lo' hi' ρ h1' h2' hlo' hhi' hspm htw
    have hb1 : 2 * redBound r m.reduce M ≤ fwdOut q r m M tw.isEmpty := by
      unfold fwdOut; simp only []; split <;> omega
    have hb2 : redBound r m.reduce M + m.q2bs ≤ fwdOut q r m M tw.isEmpty := by
      unfold fwdOut; simp only []; split <;> omega
    simp only [fwdBfly, List.map_cons, addL, subL, List.zipWith_cons_cons, List.length_cons] at *
    refine ⟨?_, ?_, ?_, ?_, ?_, ?_⟩
    · rw [e1, i1]
    · rw [scalePow_cons, e2, i2]
    · intro x hx
      rcases List.mem_cons.mp hx with rfl | hx
      · exact le_trans l1 hb1
      · exact le_trans (i3 x hx) hb1
    · intro x hx
      rcases List.mem_cons.mp hx with rfl | hx
      · exact le_trans l2 hb2
      · by_cases hemp : tw = []
        · subst hemp
          have : lo' = [] := List.length_eq_zero_iff.mp h1'.symm
          subst this
          simp [fwdTail] at hx
        · have : tw.isEmpty = false := by cases tw <;> simp_all
          have hb3 : spmBound q m.halfBs (redBound r m.reduce M + m.q2bs) ≤ fwdOut q r m M tw.isEmpty := by
            unfold fwdOut; simp only [this]; simp
          exact le_trans (i4 x hx) hb3
    · rw [i5]
    · rw [i6]

/-! ### all forward levels -/

/-- the decidable numeric schedule check of the forward levels of a block: propagates the exact
worst-case magnitude `M` through the levels and checks every no-wrap / no-underflow condition -/
def fwdSchedOK (q : Nat) (r : ReducK) : List StepMeta → Nat → Bool
  | [], _ => true
  | m :: rest, M =>
    let M' := redBound r m.reduce M
    decide (M < 2 ^ 64) && decide (2 * M' < 2 ^ 64) && decide (M' + m.q2bs < 2 ^ 64) && decide (M' ≤ m.q2bs) &&
    decide (m.q2bs % q = 0) &&
    (rest.isEmpty || (decide (q < 2 ^ 31) && decide (m.mask = 2 ^ m.halfBs - 1) && decide (m.halfBs ≤ 32) &&
      decide (M' + m.q2bs < 2 ^ (2 * m.halfBs)))) &&
    fwdSchedOK q r rest (fwdOut q r m M rest.isEmpty)

/-- the twiddle conditions of the forward levels of a block with root `ρ` -/
def FwdTwOK (q : Nat) : ZMod q → List Level → Prop
  | _, [] => True
  | ρ, (m, tw) :: rest => tw.length + 1 = 2 ^ rest.length ∧ TwFrom q m.halfBs ρ ρ tw ∧ FwdTwOK q (ρ * ρ) rest

theorem map_take {α β} (f : α → β) (l : List α) (n : Nat) : (l.take n).map f = (l.map f).take n := by
  simp [List.map_take]
theorem map_drop {α β} (f : α → β) (l : List α) (n : Nat) : (l.drop n).map f = (l.map f).drop n := by
  simp [List.map_drop]

theorem AllLe.take {M : Nat} {v : List Nat} (h : AllLe M v) (n : Nat) : AllLe M (v.take n) :=
  fun x hx => h x (List.mem_of_mem_take hx)
theorem AllLe.drop {M : Nat} {v : List Nat} (h : AllLe M v) (n : Nat) : AllLe M (v.drop n) :=
  fun x hx => h x (List.mem_of_mem_drop hx)

theorem isEmpty_of_len {α β} (tw : List α) (rest : List β) (h : tw.length + 1 = 2 ^ rest.length) : tw.isEmpty = rest.isEmpty := by
  cases rest with
  | nil => simp at h; subst h; rfl
  | cons x xs =>
    have : 2 ≤ 2 ^ (x :: xs).length := by
      rw [List.length_cons, pow_succ]; have := Nat.one_le_two_pow (n := xs.length); omega
    cases tw with
    | nil => simp at h; omega
    | cons _ _ => rfl

/-- **the executable forward levels refine the mathematical network** -/
theorem nttLevels_spec (r : ReducK) (hr : ReducOK q r) :
    ∀ (levels : List Level) (ρ : ZMod q) (M : Nat) (v : List Nat), fwdSchedOK q r (levels.map Prod.fst) M = true →
      FwdTwOK q ρ levels → v.length = 2 ^ levels.length → AllLe M v →
      (nttLevels r levels v).map (cz q) = dif ρ levels.length (v.map (cz q)) ∧ (nttLevels r levels v).length = v.length := by
  intro levels
  induction levels with
  | nil => intro ρ M v _ _ _ _; simp [nttLevels, dif]
  | cons l rest ih =>
    intro ρ M v hs ht hv hle
    obtain ⟨m, tw⟩ := l
    obtain ⟨htl, htw, htrest⟩ := ht
    simp only [List.map_cons, fwdSchedOK, Bool.and_eq_true, decide_eq_true_eq, Bool.or_eq_true, List.isEmpty_map] at hs
    obtain ⟨⟨⟨⟨⟨⟨hM, h1⟩, h2⟩, h3⟩, h4⟩, h5⟩, hsrest⟩ := hs
    have hemp := isEmpty_of_len tw rest htl
    have hb : BflyOK q m (redBound r m.reduce M) := ⟨h1, h2, h3, Nat.dvd_of_mod_eq_zero h4⟩
    have hspm : tw ≠ [] → SpmOK q m (redBound r m.reduce M + m.q2bs) := by
      intro hne
      have : rest.isEmpty = false := by rw [← hemp]; cases tw <;> simp_all
      rw [this] at h5
      simp only [Bool.false_eq_true, false_or] at h5
      exact ⟨h5.1.1.1, h5.1.1.2, h5.1.2, h5.2⟩
    have hv' : v.length = 2 ^ (rest.length + 1) := by simpa using hv
    obtain ⟨_, hlo, hhi⟩ := halves_length v rest.length hv'
    obtain ⟨e1, e2, b1, b2, n1, n2⟩ := fwdBfly_spec r hr m M hM hb ρ tw (v.take (v.length / 2)) (v.drop (v.length / 2))
      (by rw [hlo]; exact htl) (by rw [hlo, hhi]) (hle.take _) (hle.drop _) hspm htw
    rw [hemp] at b1 b2
    obtain ⟨i1, j1⟩ := ih (ρ * ρ) _ _ hsrest htrest (by rw [n1, hlo]) b1
    obtain ⟨i2, j2⟩ := ih (ρ * ρ) _ _ hsrest htrest (by rw [n2, hlo]) b2
    simp only [nttLevels, List.length_cons, dif, List.map_append, List.length_map]
    rw [i1, i2, e1, e2, map_take, map_drop]
    refine ⟨rfl, ?_⟩
    rw [List.length_append, j1, j2, n1, n2, hlo, hv', pow_succ]; ring

/-! ### the first pass and the whole forward transform -/

/-- element-wise multiplication by the packed twiddles `σ, σρ, σρ², …` -/
theorem twist_spec (m : StepMeta) (Min D : Nat) (ok : SpmOK q m D) (ρ : ZMod q) (red : Nat → Nat)
    (hred : ∀ x, x ≤ Min → cz q (red x) = cz q x ∧ red x ≤ D) :
    ∀ (v tw : List Nat) (σ : ZMod q), v.length = tw.length → AllLe Min v → TwFrom q m.halfBs ρ σ tw →
      (List.zipWith (fun x po => splitPrecompmul (red x) po m.halfBs m.mask) v tw).map (cz q) = scaleFrom σ ρ (v.map (cz q)) ∧
      AllLe (spmBound q m.halfBs D) (List.zipWith (fun x po => splitPrecompmul (red x) po m.halfBs m.mask) v tw) ∧
      (List.zipWith (fun x po => splitPrecompmul (red x) po m.halfBs m.mask) v tw).length = v.length := by
  intro v
  induction v with
  | nil => intro tw σ _ _ _; simp [scaleFrom, AllLe]
  | cons x xs ih =>
    intro tw σ hl hle htw
    match tw, hl, htw with
    | po :: tw', hl, htw =>
      obtain ⟨hp, htw'⟩ := htw
      obtain ⟨hx, hxs⟩ := hle.cons
      obtain ⟨e0, l0⟩ := hred x hx
      obtain ⟨e1, l1⟩ := spm_spec m D (red x) po σ ok l0 hp
      obtain ⟨i1, i2, i3⟩ := ih tw' (σ * ρ) (by simpa using hl) hxs htw'
      simp only [List.zipWith_cons_cons, List.map_cons, scaleFrom, List.length_cons] at *
      refine ⟨by rw [e1, e0, i1], ?_, by rw [i3]⟩
      intro y hy
      rcases List.mem_cons.mp hy with rfl | hy
      · exact l1
      · exact i2 y hy

/-- conditions on a forward table of size `2^k` (`k ≥ 1`) with `2n`-th root `ω` -/
def FwdTableOK (q : Nat) (t : TableK) (ω : ZMod q) : Prop :=
  ReducOK q t.reduc ∧
  match t.levels with
  | [] => False
  | (m0, tw0) :: rest =>
    SpmOK q m0 (2 ^ 64 - 1) ∧ tw0.length = 2 ^ rest.length ∧ TwFrom q m0.halfBs ω 1 tw0 ∧
    fwdSchedOK q t.reduc (rest.map Prod.fst) (spmBound q m0.halfBs (2 ^ 64 - 1)) = true ∧ FwdTwOK q (ω * ω) rest

/-- **`ntt_ref` (one lane) computes `nttM ω` modulo `q`** on every `u64` input vector -/
theorem nttK_spec (t : TableK) (ω : ZMod q) (ok : FwdTableOK q t ω) (v : List Nat)
    (hv : v.length = 2 ^ (t.levels.length - 1)) (hu : AllLe (2 ^ 64 - 1) v) :
    (nttK t v).map (cz q) = nttM ω (t.levels.length - 1) (v.map (cz q)) ∧ (nttK t v).length = v.length := by
  obtain ⟨hr, hl⟩ := ok
  unfold nttK nttM
  match hlv : t.levels, hl with
  | (m0, tw0) :: rest, hl =>
    obtain ⟨sp, htl, htw, hsched, htwr⟩ := hl
    have hv' : v.length = 2 ^ rest.length := by rw [hlv] at hv; simpa using hv
    obtain ⟨e1, b1, n1⟩ := twist_spec m0 (2 ^ 64 - 1) (2 ^ 64 - 1) sp ω id (fun x hx => ⟨rfl, hx⟩) v tw0 1
      (by rw [hv', htl]) hu htw
    simp only [id] at e1 b1 n1
    obtain ⟨e2, n2⟩ := nttLevels_spec t.reduc hr rest (ω * ω) _ _ hsched htwr (by rw [n1, hv']) b1
    simp only [List.length_cons, Nat.add_sub_cancel]
    rw [e2, e1, scalePow_eq_scaleFrom]
    exact ⟨rfl, by rw [n2, n1]⟩

/-! ### one inverse block -/

/-- numeric conditions of the twiddled inverse butterfly `bo = b·tw; (a + bo, a + q2bs − bo)` on inputs
bounded by `M'` -/
structure InvOK (q : Nat) (m : StepMeta) (M' : Nat) : Prop where
  spm : SpmOK q m M'
  sum_lt : M' + spmBound q m.halfBs M' < 2 ^ 64
  no_underflow : spmBound q m.halfBs M' ≤ m.q2bs
  diff_lt : M' + m.q2bs < 2 ^ 64

theorem invTail_spec (r : ReducK) (hr : ReducOK q r) (m : StepMeta) (M : Nat) (hM : M < 2 ^ 64) (hqd : q ∣ m.q2bs) (ρ : ZMod q) :
    ∀ (tw lo hi : List Nat) (σ : ZMod q), tw.length = lo.length → lo.length = hi.length → AllLe M lo → AllLe M hi →
      (tw ≠ [] → InvOK q m (redBound r m.reduce M)) → TwFrom q m.halfBs ρ σ tw →
      (invTail r m tw lo hi).1.map (cz q) = addL (lo.map (cz q)) (scaleFrom σ ρ (hi.map (cz q))) ∧
      (invTail r m tw lo hi).2.map (cz q) = subL (lo.map (cz q)) (scaleFrom σ ρ (hi.map (cz q))) ∧
      AllLe (redBound r m.reduce M + spmBound q m.halfBs (redBound r m.reduce M)) (invTail r m tw lo hi).1 ∧
      AllLe (redBound r m.reduce M + m.q2bs) (invTail r m tw lo hi).2 ∧
      (invTail r m tw lo hi).1.length = lo.length ∧ (invTail r m tw lo hi).2.length = lo.length := by
  intro tw
  induction tw with
  | nil =>
    intro lo hi σ h1 h2 _ _ _ _
    have : lo = [] := List.length_eq_zero_iff.mp h1.symm
    subst this
    have : hi = [] := List.length_eq_zero_iff.mp h2.symm
    subst this
    simp [invTail, addL, subL, scaleFrom, AllLe]
  | cons po tw ih =>
    intro lo hi σ h1 h2 hlo hhi hinv htw
    match lo, hi, h1, h2 with
    | a :: lo', b :: hi', h1, h2 =>
      have h1' : tw.length = lo'.length := by simpa using h1
      have h2' : lo'.length = hi'.length := by simpa using h2
      obtain ⟨haM, hlo'⟩ := hlo.cons
      obtain ⟨hbM, hhi'⟩ := hhi.cons
      have iv := hinv (by simp)
      obtain ⟨hp, htw'⟩ := htw
      obtain ⟨ea, la⟩ := redIf_spec r hr m a M haM hM
      obtain ⟨eb, lb⟩ := redIf_spec r hr m b M hbM hM
      obtain ⟨e3, l3⟩ := spm_spec m _ (redIf r m b) po σ iv.spm lb hp
      obtain ⟨i1, i2, i3, i4, i5, i6⟩ := ih lo' hi' (σ * ρ) h1' h2' hlo' hhi' (fun _ => iv) htw'
      have hs := iv.sum_lt
      have hu := iv.no_underflow
      have hd := iv.diff_lt
      set bo := splitPrecompmul (redIf r m b) po m.halfBs m.mask with hbo
      have w1 : wu64 (redIf r m a + bo) = redIf r m a + bo := wu64_of_lt _ (by omega)
      have w2 : wu64 (redIf r m a + m.q2bs) = redIf r m a + m.q2bs := wu64_of_lt _ (by omega)
      have w3 : subU64 (redIf r m a + m.q2bs) bo = redIf r m a + m.q2bs - bo := by unfold subU64; omega
      have c1 : cz q (redIf r m a + bo) = cz q a + cz q b * σ := by
        unfold cz at *; push_cast; rw [ea, e3, eb]
      have c2 : cz q (redIf r m a + m.q2bs - bo) = cz q a - cz q b * σ := by
        unfold cz at *
        have hle : bo ≤ redIf r m a + m.q2bs := by omega
        rw [Nat.cast_sub hle]; push_cast
        have hq : ((m.q2bs : Nat) : ZMod q) = 0 := (ZMod.natCast_eq_zero_iff _ _).mpr hqd
        rw [ea, e3, eb, hq]; ring
      simp only [invTail, List.map_cons, addL, subL, List.zipWith_cons_cons, scaleFrom, List.length_cons] at *
      rw [← hbo, w1, w2, w3]
      refine ⟨?_, ?_, ?_, ?_, ?_, ?_⟩
      · rw [c1, i1]
      · rw [c2, i2]
      · intro x hx
        rcases List.mem_cons.mp hx with rfl | hx
        · omega
        · exact i3 x hx
      · intro x hx
        rcases List.mem_cons.mp hx with rfl | hx
        · omega
        · exact i4 x hx
      · rw [i5]
      · rw [i6]

/-- worst-case magnitudes `(all positions, position 0)` after one inverse level.  Position 0 of a
block is never multiplied by a twiddle (it is the plain sum of the two position-0 elements), so it
is tracked separately: the twiddle-free butterfly `a + q2bs − b` only has to clear *its* magnitude -/
def invOut (q : Nat) (r : ReducK) (m : StepMeta) (MH : Nat × Nat) (last : Bool) : Nat × Nat :=
  let M' := redBound r m.reduce MH.1
  let H' := redBound r m.reduce MH.2
  (if last then max (2 * H') (H' + m.q2bs)
   else max (max (2 * H') (H' + m.q2bs)) (max (M' + m.q2bs) (M' + spmBound q m.halfBs M')), 2 * H')

/-- **one inverse block**: `intt_butterfly_block` computes `(lo + hi·ρ^i, lo − hi·ρ^i)` modulo `q` -/
theorem invBfly_spec (r : ReducK) (hr : ReducOK q r) (m : StepMeta) (M H : Nat) (hM : M < 2 ^ 64) (hH : H < 2 ^ 64)
    (ok : BflyOK q m (redBound r m.reduce H)) (ρ : ZMod q) (tw lo hi : List Nat)
    (h1 : tw.length + 1 = lo.length) (h2 : lo.length = hi.length) (hlo : AllLe M lo) (hhi : AllLe M hi)
    (hlo0 : lo.getD 0 0 ≤ H) (hhi0 : hi.getD 0 0 ≤ H)
    (hinv : tw ≠ [] → InvOK q m (redBound r m.reduce M)) (htw : TwFrom q m.halfBs ρ ρ tw) :
    (invBfly r m tw lo hi).1.map (cz q) = addL (lo.map (cz q)) (scalePow ρ (hi.map (cz q))) ∧
    (invBfly r m tw lo hi).2.map (cz q) = subL (lo.map (cz q)) (scalePow ρ (hi.map (cz q))) ∧
    AllLe (invOut q r m (M, H) tw.isEmpty).1 (invBfly r m tw lo hi).1 ∧ AllLe (invOut q r m (M, H) tw.isEmpty).1 (invBfly r m tw lo hi).2 ∧
    (invBfly r m tw lo hi).1.getD 0 0 ≤ (invOut q r m (M, H) tw.isEmpty).2 ∧
    (invBfly r m tw lo hi).1.length = lo.length ∧ (invBfly r m tw lo hi).2.length = lo.length := by
  match lo, hi, h1, h2 with
  | a :: lo', b :: hi', h1, h2 =>
    have h1' : tw.length = lo'.length := by simpa using h1
    have h2' : lo'.length = hi'.length := by simpa using h2
    obtain ⟨_, hlo'⟩ := hlo.cons
    obtain ⟨_, hhi'⟩ := hhi.cons
    have haH : a ≤ H := by simpa using hlo0
    have hbH : b ≤ H := by simpa using hhi0
    obtain ⟨e1, l1, e2, l2⟩ := bfly_spec r hr m a b H haH hbH hH ok
    obtain ⟨i1, i2, i3, i4, i5, i6⟩ := invTail_spec r hr m M hM ok.q_dvd ρ tw lo' hi' ρ h1' h2' hlo' hhi' hinv htw
    have hb1 : 2 * redBound r m.reduce H ≤ (invOut q r m (M, H) tw.isEmpty).1 := by
      unfold invOut; simp only []; split <;> omega
    have hb2 : redBound r m.reduce H + m.q2bs ≤ (invOut q r m (M, H) tw.isEmpty).1 := by
      unfold invOut; simp only []; split <;> omega
    have hb0 : (invOut q r m (M, H) tw.isEmpty).2 = 2 * redBound r m.reduce H := rfl
    simp only [invBfly, List.map_cons, addL, subL, List.zipWith_cons_cons, List.length_cons, scalePow_cons, List.getD_cons_zero] at *
    have htl : tw ≠ [] → redBound r m.reduce M + m.q2bs ≤ (invOut q r m (M, H) tw.isEmpty).1 ∧
        redBound r m.reduce M + spmBound q m.halfBs (redBound r m.reduce M) ≤ (invOut q r m (M, H) tw.isEmpty).1 := by
      intro hne
      have : tw.isEmpty = false := by cases tw <;> simp_all
      unfold invOut; simp only [this]; simp only [Bool.false_eq_true, if_false]; omega
    refine ⟨?_, ?_, ?_, ?_, ?_, ?_, ?_⟩
    · rw [e1, i1]
    · rw [e2, i2]
    · intro x hx
      rcases List.mem_cons.mp hx with rfl | hx
      · exact le_trans l1 hb1
      · by_cases hemp : tw = []
        · subst hemp
          have : lo' = [] := List.length_eq_zero_iff.mp h1'.symm
          subst this
          simp [invTail] at hx
        · exact le_trans (i3 x hx) (htl hemp).2
    · intro x hx
      rcases List.mem_cons.mp hx with rfl | hx
      · exact le_trans l2 hb2
      · by_cases hemp : tw = []
        · subst hemp
          have : lo' = [] := List.length_eq_zero_iff.mp h1'.symm
          subst this
          simp [invTail] at hx
        · exact le_trans (i4 x hx) (htl hemp).1
    · rw [hb0]; exact l1
    · rw [i5]
    · rw [i6]

/-! ### all inverse levels, last pass, whole inverse transform -/

/-- worst-case magnitudes `(all, position 0)` after the inverse levels of a block (metadata in
block-size-descending order), from the leaf magnitude `M` -/
def invChainOut (q : Nat) (r : ReducK) : List StepMeta → Nat → Nat × Nat
  | [], M => (M, M)
  | m :: rest, M => invOut q r m (invChainOut q r rest M) rest.isEmpty

/-- the decidable numeric schedule check of the inverse levels of a block -/
def invSchedOK (q : Nat) (r : ReducK) : List StepMeta → Nat → Bool
  | [], _ => true
  | m :: rest, M =>
    let MH := invChainOut q r rest M
    let M' := redBound r m.reduce MH.1
    let H' := redBound r m.reduce MH.2
    invSchedOK q r rest M &&
    decide (MH.1 < 2 ^ 64) && decide (MH.2 < 2 ^ 64) && decide (2 * H' < 2 ^ 64) && decide (H' + m.q2bs < 2 ^ 64) && decide (H' ≤ m.q2bs) &&
    decide (m.q2bs % q = 0) &&
    (rest.isEmpty || (decide (q < 2 ^ 31) && decide (m.mask = 2 ^ m.halfBs - 1) && decide (m.halfBs ≤ 32) &&
      decide (M' < 2 ^ (2 * m.halfBs)) && decide (M' + spmBound q m.halfBs M' < 2 ^ 64) && decide (spmBound q m.halfBs M' ≤ m.q2bs) &&
      decide (M' + m.q2bs < 2 ^ 64)))

/-- the twiddle conditions of the inverse levels of a block (descending order) with root `ρ` -/
def InvTwOK (q : Nat) : ZMod q → List Level → Prop
  | _, [] => True
  | ρ, (m, tw) :: rest => tw.length + 1 = 2 ^ rest.length ∧ TwFrom q m.halfBs ρ ρ tw ∧ InvTwOK q (ρ * ρ) rest

/-- **the executable inverse levels refine the mathematical network** -/
theorem inttLevels_spec (r : ReducK) (hr : ReducOK q r) :
    ∀ (levels : List Level) (ρ : ZMod q) (M : Nat) (v : List Nat), invSchedOK q r (levels.map Prod.fst) M = true →
      InvTwOK q ρ levels → v.length = 2 ^ levels.length → AllLe M v →
      (inttLevels r levels v).map (cz q) = dit ρ levels.length (v.map (cz q)) ∧
      AllLe (invChainOut q r (levels.map Prod.fst) M).1 (inttLevels r levels v) ∧
      (inttLevels r levels v).getD 0 0 ≤ (invChainOut q r (levels.map Prod.fst) M).2 ∧
      (inttLevels r levels v).length = v.length := by
  intro levels
  induction levels with
  | nil =>
    intro ρ M v _ _ hv h
    refine ⟨by simp [inttLevels, dit], by simpa [inttLevels, invChainOut] using h, ?_, by simp [inttLevels]⟩
    match v, hv with
    | [x], _ => simpa [inttLevels, invChainOut] using h x (by simp)
  | cons l rest ih =>
    intro ρ M v hs ht hv hle
    obtain ⟨m, tw⟩ := l
    obtain ⟨htl, htw, htrest⟩ := ht
    simp only [List.map_cons, invSchedOK, Bool.and_eq_true, decide_eq_true_eq, Bool.or_eq_true, List.isEmpty_map] at hs
    obtain ⟨⟨⟨⟨⟨⟨⟨hsrest, hM⟩, hH⟩, h1⟩, h2⟩, h3⟩, h4⟩, h5⟩ := hs
    have hemp := isEmpty_of_len tw rest htl
    have hb : BflyOK q m (redBound r m.reduce (invChainOut q r (rest.map Prod.fst) M).2) := ⟨h1, h2, h3, Nat.dvd_of_mod_eq_zero h4⟩
    have hinv : tw ≠ [] → InvOK q m (redBound r m.reduce (invChainOut q r (rest.map Prod.fst) M).1) := by
      intro hne
      have : rest.isEmpty = false := by rw [← hemp]; cases tw <;> simp_all
      rw [this] at h5
      simp only [Bool.false_eq_true, false_or] at h5
      exact ⟨⟨h5.1.1.1.1.1.1, h5.1.1.1.1.1.2, h5.1.1.1.1.2, h5.1.1.1.2⟩, h5.1.1.2, h5.1.2, h5.2⟩
    have hv' : v.length = 2 ^ (rest.length + 1) := by simpa using hv
    obtain ⟨_, hlo, hhi⟩ := halves_length v rest.length hv'
    obtain ⟨i1, b1, g1, j1⟩ := ih (ρ * ρ) M _ hsrest htrest hlo (hle.take _)
    obtain ⟨i2, b2, g2, j2⟩ := ih (ρ * ρ) M _ hsrest htrest hhi (hle.drop _)
    obtain ⟨e1, e2, c1, c2, c0, n1, n2⟩ := invBfly_spec r hr m _ _ hM hH hb ρ tw _ _
      (by rw [j1, hlo]; exact htl) (by rw [j1, j2, hlo, hhi]) b1 b2 g1 g2 hinv htw
    rw [hemp] at c1 c2 c0
    simp only [inttLevels, List.length_cons, dit, List.map_append, List.length_map, invChainOut, List.map_cons, List.isEmpty_map]
    rw [e1, e2, i1, i2, map_take, map_drop]
    refine ⟨rfl, c1.append c2, ?_, ?_⟩
    · have hne : 0 < (invBfly r m tw (inttLevels r rest (List.take (v.length / 2) v)) (inttLevels r rest (List.drop (v.length / 2) v))).1.length := by
        rw [n1, j1, hlo]; exact Nat.two_pow_pos _
      rw [List.getD_eq_getElem?_getD, List.getElem?_append_left hne, ← List.getD_eq_getElem?_getD]
      exact c0
    · rw [List.length_append, n1, n2, j1, hlo, hv', pow_succ]; ring

/-- conditions on an inverse table of size `2^k` (`k ≥ 1`) with `ω' = ω⁻¹` and `ninv = n⁻¹` -/
def InvTableOK (q : Nat) (t : TableK) (ω' ninv : ZMod q) : Prop :=
  ReducOK q t.reduc ∧
  match t.levels.reverse with
  | [] => False
  | (mL, twL) :: revL =>
    invSchedOK q t.reduc (revL.map Prod.fst) (2 ^ 64 - 1) = true ∧ InvTwOK q (ω' * ω') revL ∧
    (invChainOut q t.reduc (revL.map Prod.fst) (2 ^ 64 - 1)).1 < 2 ^ 64 ∧
    SpmOK q mL (redBound t.reduc mL.reduce (invChainOut q t.reduc (revL.map Prod.fst) (2 ^ 64 - 1)).1) ∧
    twL.length = 2 ^ revL.length ∧ TwFrom q mL.halfBs ω' ninv twL

/-- **`intt_ref` (one lane) computes `inttM ω⁻¹ n⁻¹` modulo `q`** on every `u64` input vector -/
theorem inttK_spec (t : TableK) (ω' ninv : ZMod q) (ok : InvTableOK q t ω' ninv) (v : List Nat)
    (hv : v.length = 2 ^ (t.levels.length - 1)) (hu : AllLe (2 ^ 64 - 1) v) :
    (inttK t v).map (cz q) = inttM ω' ninv (t.levels.length - 1) (v.map (cz q)) ∧ (inttK t v).length = v.length := by
  obtain ⟨hr, hl⟩ := ok
  unfold inttK inttM
  have hlen : t.levels.reverse.length = t.levels.length := List.length_reverse
  match hlv : t.levels.reverse, hl with
  | (mL, twL) :: revL, hl =>
    obtain ⟨hsched, htwo, hMw, sp, htl, htw⟩ := hl
    have hk : t.levels.length - 1 = revL.length := by rw [← hlen, hlv]; simp
    rw [hk] at hv ⊢
    obtain ⟨e1, b1, _, n1⟩ := inttLevels_spec t.reduc hr revL (ω' * ω') _ v hsched htwo hv hu
    obtain ⟨e2, _, n2⟩ := twist_spec mL (invChainOut q t.reduc (revL.map Prod.fst) (2 ^ 64 - 1)).1 _ sp ω' (redIf t.reduc mL)
      (fun x hx => redIf_spec t.reduc hr mL x _ hx hMw) _ twL ninv (by rw [n1, hv, htl]) b1 htw
    simp only []
    rw [e2, e1, scaleFrom_eq_map]
    exact ⟨rfl, by rw [n2, n1]⟩

end Ntt120
