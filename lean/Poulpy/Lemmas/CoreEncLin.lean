/-
Helper lemmas for C01: limb-wise column operations seen coefficient by coefficient, and the
linearity of the value map under head-room (no `i64` wrap).
-/
import Poulpy.Lemmas.CoreEncNorm

namespace CoreEnc
open NormL

theorem w64_id {x : Int} (h : |x| < 2 ^ 63) : w64 x = x := by
  have := abs_lt.mp h
  unfold w64
  rw [Int.emod_eq_of_lt (by linarith) (by linarith)]; ring

theorem wrapN_id {bits : Nat} (hbits : bits = 64 ∨ bits = 128) {x : Int} (h : |x| < 2 ^ 63) : wrapN bits x = x := by
  have := abs_lt.mp h
  rcases hbits with rfl | rfl
  · unfold wrapN
    rw [Int.emod_eq_of_lt (by norm_num; linarith) (by norm_num; linarith)]; ring
  · unfold wrapN
    rw [Int.emod_eq_of_lt (by norm_num; linarith) (by norm_num; linarith)]; ring

/-- bounds can be checked coefficient by coefficient -/
theorem bounded_of_coef {n : Nat} {H : Int} {z : Col} (hz : WF n z)
    (h : ∀ t, t < n → ∀ v ∈ coefAt z t, |v| ≤ H) : Bounded H z := by
  intro l hl x hx
  obtain ⟨t, ht, rfl⟩ := List.getElem_of_mem hx
  have hln := hz l hl
  apply h t (by omega)
  simp only [coefAt, List.mem_map]
  exact ⟨l, hl, by rw [List.getD_eq_getElem?_getD, List.getElem?_eq_getElem ht]; rfl⟩

/-- limb-wise binary operation on two columns of equal size, coefficient by coefficient -/
theorem colZip_spec {n : Nat} (f : Int → Int → Int) :
    ∀ (x y : Col), WF n x → WF n y → x.length = y.length →
      (List.zipWith (fun p q => List.zipWith f p q) x y).length = x.length ∧
      WF n (List.zipWith (fun p q => List.zipWith f p q) x y) ∧
      ∀ t, t < n → coefAt (List.zipWith (fun p q => List.zipWith f p q) x y) t = List.zipWith f (coefAt x t) (coefAt y t) := by
  intro x
  induction x with
  | nil => intro y _ _ _; simp [WF, coefAt]
  | cons p ps ih =>
    intro y hx hy hlen
    cases y with
    | nil => simp at hlen
    | cons q qs =>
      have hp : p.length = n := hx p (by simp)
      have hq : q.length = n := hy q (by simp)
      obtain ⟨i1, i2, i3⟩ := ih qs (fun l hl => hx l (by simp [hl])) (fun l hl => hy l (by simp [hl])) (by simpa using hlen)
      refine ⟨by simp [i1], ?_, ?_⟩
      · intro l hl
        simp only [List.zipWith_cons_cons, List.mem_cons] at hl
        rcases hl with rfl | hl
        · simp [hp, hq]
        · exact i2 l hl
      · intro t ht
        have := i3 t ht
        simp only [coefAt, List.zipWith_cons_cons, List.map_cons] at this ⊢
        rw [this]
        congr 1
        rw [List.getD_eq_getElem?_getD, List.getD_eq_getElem?_getD, List.getD_eq_getElem?_getD]
        simp [List.getElem?_zipWith, List.getElem?_eq_getElem (show t < p.length by omega),
          List.getElem?_eq_getElem (show t < q.length by omega)]

theorem valI_zipWith_add (b : Nat) : ∀ (x y : List Int), x.length = y.length →
    valI b (List.zipWith (· + ·) x y) = valI b x + valI b y := by
  intro x
  induction x with
  | nil => intro y h; cases y <;> simp_all [valI]
  | cons a as ih =>
    intro y h
    cases y with
    | nil => simp at h
    | cons c cs =>
      have hl : as.length = cs.length := by simpa using h
      simp only [List.zipWith_cons_cons, valI, List.length_zipWith, hl, Nat.min_self, ih cs hl]
      ring

theorem valI_zipWith_sub (b : Nat) : ∀ (x y : List Int), x.length = y.length →
    valI b (List.zipWith (· - ·) x y) = valI b x - valI b y := by
  intro x
  induction x with
  | nil => intro y h; cases y <;> simp_all [valI]
  | cons a as ih =>
    intro y h
    cases y with
    | nil => simp at h
    | cons c cs =>
      have hl : as.length = cs.length := by simpa using h
      simp only [List.zipWith_cons_cons, valI, List.length_zipWith, hl, Nat.min_self, ih cs hl]
      ring

/-- wrapped limb-wise operation = exact operation when the operands are within head-room -/
theorem zipWith_wrap_eq (w : Int → Int) (g : Int → Int → Int) {B1 B2 : Int}
    (hw : ∀ x y, |x| ≤ B1 → |y| ≤ B2 → w (g x y) = g x y) :
    ∀ (l1 l2 : List Int), (∀ x ∈ l1, |x| ≤ B1) → (∀ y ∈ l2, |y| ≤ B2) →
      List.zipWith (fun x y => w (g x y)) l1 l2 = List.zipWith g l1 l2 := by
  intro l1
  induction l1 with
  | nil => intro l2 _ _; simp
  | cons a as ih =>
    intro l2 h1 h2
    cases l2 with
    | nil => simp
    | cons c cs =>
      simp only [List.zipWith_cons_cons]
      rw [hw a c (h1 a (by simp)) (h2 c (by simp)), ih cs (fun x hx => h1 x (by simp [hx])) (fun y hy => h2 y (by simp [hy]))]

theorem zipWith_bound (g : Int → Int → Int) {B1 B2 B : Int} (hg : ∀ x y, |x| ≤ B1 → |y| ≤ B2 → |g x y| ≤ B) :
    ∀ (l1 l2 : List Int), (∀ x ∈ l1, |x| ≤ B1) → (∀ y ∈ l2, |y| ≤ B2) → ∀ z ∈ List.zipWith g l1 l2, |z| ≤ B := by
  intro l1
  induction l1 with
  | nil => intro l2 _ _ z hz; simp at hz
  | cons a as ih =>
    intro l2 h1 h2 z hz
    cases l2 with
    | nil => simp at hz
    | cons c cs =>
      simp only [List.zipWith_cons_cons, List.mem_cons] at hz
      rcases hz with rfl | hz
      · exact hg a c (h1 a (by simp)) (h2 c (by simp))
      · exact ih cs (fun x hx => h1 x (by simp [hx])) (fun y hy => h2 y (by simp [hy])) z hz

end CoreEnc
