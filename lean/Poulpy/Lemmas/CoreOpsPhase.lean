import Poulpy.Lemmas.CoreOpsLin

/-!
The bridge between `Core.Ops.phase` and `lin`, and the two master theorems: if every (fitted) column
of the result is a fixed linear combination of the (fitted) columns of the operands, the phase of
the result is the same combination of the (fitted) phases — for every secret.
-/

namespace C02L
open Hal Core Core.Ops

/-- well-formed ciphertext: at least the body column, every column `size` limbs of `N` coefficients -/
def GWF (N : Nat) (g : GLWE) : Prop := g.n = N ∧ g.cols ≠ [] ∧ ∀ c ∈ g.cols, ColWF N g.size c

/-- head-room: every coefficient of every limb in `(-2^62, 2^62)` -/
def GSmall (g : GLWE) : Prop := ∀ c ∈ g.cols, ColSmall c

/-- column `i`, the missing column being `[]` (it fits to the zero column) -/
abbrev col (g : GLWE) (i : Nat) : Col := g.cols.getD i []

theorem GWF.len {N : Nat} {g : GLWE} (h : GWF N g) : g.cols.length = g.rank + 1 := by
  have : g.cols.length ≠ 0 := fun e => h.2.1 (List.eq_nil_of_length_eq_zero e)
  unfold GLWE.rank; omega

theorem col_of_gt {g : GLWE} (i : Nat) (h : g.cols.length ≤ i) : col g i = [] := by
  simp [col, List.getD_eq_getElem?_getD, List.getElem?_eq_none h]

theorem col_mem {g : GLWE} (i : Nat) (h : i < g.cols.length) : col g i ∈ g.cols := by
  simp [col, List.getD_eq_getElem?_getD, List.getElem?_eq_getElem h]

theorem GWF.col_wf {N : Nat} {g : GLWE} (h : GWF N g) (i : Nat) (hi : i ≤ g.rank) : ColWF N g.size (col g i) :=
  h.2.2 _ (col_mem i (by rw [h.len]; omega))

theorem GWF.col_limbs {N : Nat} {g : GLWE} (h : GWF N g) (i : Nat) : LimbsN N (col g i) := by
  by_cases hi : i < g.cols.length
  · exact (h.2.2 _ (col_mem i hi)).2
  · rw [col_of_gt i (by omega)]; exact limbsN_nil N

theorem GSmall.col {g : GLWE} (h : GSmall g) (i : Nat) : ColSmall (col g i) := by
  by_cases hi : i < g.cols.length
  · exact h _ (col_mem i hi)
  · rw [col_of_gt i (by omega)]; intro l hl; simp at hl

theorem fitcol_wf {N : Nat} {g : GLWE} (h : GWF N g) (rs i : Nat) : ColWF N rs (fit N rs (col g i)) :=
  fit_wf (h.col_limbs i) rs

/-- `phase s g` written with `linTo` over the secret itself -/
theorem phase_eq_linTo (s : List Poly) (g : GLWE) :
    phase s g = linTo (min g.rank s.length) s (fun i => col g i) := by
  show phaseBig (s.take g.rank) g = _
  rw [phaseBig_eq_lin, lin, List.length_take, linTo_take _ _ _ _ (by omega)]

theorem phase_wf {N : Nat} {g : GLWE} (h : GWF N g) (s : List Poly) : ColWF N g.size (phase s g) := by
  rw [phase_eq_linTo]
  exact linTo_wf _ s _ (fun i hi => h.col_wf i (by omega))

/-- the bridge: the fitted phase is the linear form in the fitted columns (missing columns are zero) -/
theorem phase_fit {N : Nat} {g : GLWE} (h : GWF N g) (s : List Poly) (rs : Nat) :
    fit N rs (phase s g) = lin s (fun i => fit N rs (col g i)) := by
  rw [phase_eq_linTo, ← linTo_fit rs _ s _ (fun i hi => h.col_wf i (by omega)), lin]
  exact (linTo_drop_zero (N := N) (rs := rs) g.rank s.length s _ (fun i _ => fitcol_wf h rs i)
    (fun i hi => by rw [col_of_gt i (by rw [h.len]; omega), fit_nil])).symm

theorem phase_self_fit {N : Nat} {g : GLWE} (h : GWF N g) (s : List Poly) :
    phase s g = lin s (fun i => fit N g.size (col g i)) := by
  rw [← phase_fit h s g.size, fit_self (phase_wf h s).1]

/-- **master theorem, binary form** -/
theorem phase_bin {N : Nat} {T1 T2 : Poly → Poly} (h1 : LinT N T1) (h2 : LinT N T2) {r x y : GLWE}
    (hr : GWF N r) (hx : GWF N x) (hy : GWF N y)
    (hc : ∀ i, fit N r.size (col r i) = colAdd ((fit N r.size (col x i)).map T1) ((fit N r.size (col y i)).map T2))
    (s : List Poly) :
    phase s r = colAdd ((fit N r.size (phase s x)).map T1) ((fit N r.size (phase s y)).map T2) := by
  rw [phase_self_fit hr s, phase_fit hx s, phase_fit hy s, lin, lin, lin,
    linTo_congr _ s _ _ (fun i _ => hc i),
    linTo_add s.length s _ _ (fun i _ => map_wf h1 (fitcol_wf hx r.size i)) (fun i _ => map_wf h2 (fitcol_wf hy r.size i)),
    linTo_map h1 _ s _ (fun i _ => fitcol_wf hx r.size i), linTo_map h2 _ s _ (fun i _ => fitcol_wf hy r.size i)]

/-- **master theorem, unary form** -/
theorem phase_un {N : Nat} {T : Poly → Poly} (hT : LinT N T) {r x : GLWE} (hr : GWF N r) (hx : GWF N x)
    (hc : ∀ i, fit N r.size (col r i) = (fit N r.size (col x i)).map T) (s : List Poly) :
    phase s r = (fit N r.size (phase s x)).map T := by
  rw [phase_self_fit hr s, phase_fit hx s, lin, lin, linTo_congr _ s _ _ (fun i _ => hc i),
    linTo_map hT _ s _ (fun i _ => fitcol_wf hx r.size i)]

end C02L
