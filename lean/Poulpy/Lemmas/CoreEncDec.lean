/-
Helper lemmas for C01: decryption = normalisation of the exact phase; the norm inequality of the
negacyclic product; noise-bound arithmetic.
-/
import Poulpy.Lemmas.CoreEncMain

namespace CoreEnc
open NormL

/-! ### ‖p ⋆ q‖∞ ≤ ‖p‖₁ · ‖q‖∞ for the negacyclic product -/

/-- 1-norm of a polynomial -/
def norm1 (p : Poly) : Int := (p.map (fun x => |x|)).sum

theorem norm1_nonneg (p : Poly) : 0 ≤ norm1 p := by
  unfold norm1
  induction p with
  | nil => simp
  | cons x rest ih => simp only [List.map_cons, List.sum_cons]; have := abs_nonneg x; linarith

theorem mulX_bound {B : Int} (l : Poly) (h : ∀ x ∈ l, |x| ≤ B) : ∀ x ∈ Hal.mulX l, |x| ≤ B := by
  intro x hx
  unfold Hal.mulX at hx
  cases hl : l.getLast? with
  | none => simp [hl] at hx
  | some z =>
    simp only [hl, List.mem_cons] at hx
    rcases hx with rfl | hx
    · rw [abs_neg]; exact h z (List.mem_of_getLast? hl)
    · exact h x (List.dropLast_subset l hx)

/-- **norm inequality**: every coefficient of `p ⋆ q` is at most `‖p‖₁ · B` when `‖q‖∞ ≤ B` -/
theorem negMul_bound {B : Int} : ∀ (p q : Poly), (∀ y ∈ q, |y| ≤ B) → ∀ x ∈ Hal.negMul p q, |x| ≤ norm1 p * B := by
  intro p
  induction p with
  | nil =>
    intro q _ x hx
    simp only [Hal.negMul, List.mem_map] at hx
    obtain ⟨_, _, rfl⟩ := hx
    simp [norm1]
  | cons a0 as ih =>
    intro q hq x hx
    simp only [Hal.negMul, Hal.polyAdd] at hx
    have h1 : ∀ y ∈ Hal.polyScale a0 q, |y| ≤ |a0| * B := by
      intro y hy
      simp only [Hal.polyScale, List.mem_map] at hy
      obtain ⟨z, hz, rfl⟩ := hy
      rw [abs_mul]; exact mul_le_mul_of_nonneg_left (hq z hz) (abs_nonneg a0)
    have h2 := mulX_bound _ (ih q hq)
    have := zipWith_bound (· + ·) (B1 := |a0| * B) (B2 := norm1 as * B) (B := norm1 (a0 :: as) * B) ?_ _ _ h1 h2 x hx
    · exact this
    · intro u v hu hv
      have := abs_add_le u v
      show |u + v| ≤ norm1 (a0 :: as) * B
      simp only [norm1, List.map_cons, List.sum_cons] at *
      nlinarith

/-- head-room of the products from the 1-norm of the secret and the ∞-norm of the masks -/
theorem colMulPoly_bounded {B : Int} (s : Poly) (a : Col) (ha : Bounded B a) :
    Bounded (norm1 s * B) (Core.colMulPoly s a) := by
  intro l hl x hx
  simp only [Core.colMulPoly, List.mem_map] at hl
  obtain ⟨l', hl', rfl⟩ := hl
  exact negMul_bound s l' (ha l' hl') x hx

theorem prodBounded_of_norm {H B : Int} : ∀ (masks : List Col) (sk : List Poly),
    (∀ a ∈ masks, Bounded B a) → (∀ s ∈ sk, norm1 s * B ≤ H) → ProdBounded H masks sk := by
  intro masks
  induction masks with
  | nil => intro sk _ _; simp [ProdBounded]
  | cons a as ih =>
    intro sk ha hs
    cases sk with
    | nil => simp [ProdBounded]
    | cons s ss =>
      refine ⟨?_, ih ss (fun x hx => ha x (by simp [hx])) (fun x hx => hs x (by simp [hx]))⟩
      intro l hl x hx
      exact le_trans (colMulPoly_bounded s a (ha a (by simp)) l hl x hx) (hs s (by simp))

/-! ### decryption -/

theorem mapM_some_inv {α β} (f : α → Option β) : ∀ (l : List α) (r : List β), l.mapM f = some r →
    r.length = l.length ∧ ∀ i (h : i < l.length) (h' : i < r.length), f l[i] = some r[i] := by
  intro l
  induction l with
  | nil => intro r h; simp at h; subst h; simp
  | cons x rest ih =>
    intro r h
    rw [List.mapM_cons] at h
    cases hx : f x with
    | none => simp [hx] at h
    | some y =>
      cases hr : rest.mapM f with
      | none => simp [hx, hr] at h
      | some ys =>
        simp [hx, hr] at h
        subst h
        obtain ⟨i1, i2⟩ := ih ys hr
        refine ⟨by simp [i1], ?_⟩
        intro i h1 h2
        cases i with
        | zero => simpa using hx
        | succ j => simpa using i2 j (by simpa using h1) (by simpa using h2)

/-- inversion of `mapCoefs?`: every coefficient succeeded and the output column transposes back -/
theorem mapCoefs?_inv (n size : Nat) (f : Nat → Option (List Int)) (out : Col) (h : mapCoefs? n size f = some out) :
    out.length = size ∧ WF n out ∧ ∀ t, t < n → ∃ o, f t = some o ∧ (o.length = size → coefAt out t = o) := by
  unfold mapCoefs? at h
  cases hm : (List.range n).mapM f with
  | none => simp [hm] at h
  | some cs =>
    simp [hm] at h
    subst h
    obtain ⟨i1, i2⟩ := mapM_some_inv f _ cs hm
    refine ⟨by simp [ofCoefs], ?_, ?_⟩
    · intro l hl
      simp only [ofCoefs, List.mem_map, List.mem_range] at hl
      obtain ⟨j, _, rfl⟩ := hl
      simp [i1]
    · intro t ht
      have hl : t < cs.length := by rw [i1]; simpa using ht
      refine ⟨cs[t], ?_, ?_⟩
      · have := i2 t (by simpa using ht) hl
        simpa using this
      · intro hlen
        unfold coefAt ofCoefs
        apply List.ext_getElem
        · simp [hlen]
        · intro j h1 h2
          simp [List.getD_eq_getElem?_getD, hl, List.getElem?_eq_getElem h2]

/-- `TorusNear` is insensitive to whole turns of the reference value -/
theorem torusNear_add_turns {X Y : Int} {px py : Nat} (h : TorusNear X px Y py) (K : Int) :
    TorusNear X px (Y + K * 2 ^ py) py := by
  obtain ⟨k, e, h1, h2⟩ := h
  refine ⟨k - K, e, ?_, h2⟩
  rw [h1, pow_add]; ring

theorem torusNear_of_eq {X Y Y' : Int} {px py : Nat} (h : TorusNear X px Y py) (K : Int) (hy : Y = Y' + K * 2 ^ py) :
    TorusNear X px Y' py := by
  have := torusNear_add_turns h (-K)
  rw [hy] at this
  have h2 : Y' + K * 2 ^ py + -K * 2 ^ py = Y' := by ring
  rwa [h2] at this

/-! ### noise bound -/

/-- the placed error, seen at the ciphertext's precision, is at most `bound · 2^-kxe`:
`|e| ≤ B·2^scale` with `scale = (limb+1)·b − kxe` gives `|e·2^(b(size−1−limb))|·2^kxe ≤ B·2^(b·size)` -/
theorem noise_scale {b size limb kxe : Nat} {e B : Int} (hl : limb < size) (hk : kxe ≤ (limb + 1) * b)
    (he : |e| ≤ B * 2 ^ ((limb + 1) * b - kxe)) :
    |e * 2 ^ (b * (size - 1 - limb))| * 2 ^ kxe ≤ B * 2 ^ (b * size) := by
  have hp1 : (0 : Int) < 2 ^ (b * (size - 1 - limb)) := two_pow_pos _
  have hp2 : (0 : Int) < 2 ^ kxe := two_pow_pos _
  rw [abs_mul, abs_of_pos hp1]
  have hsplit : b * size = ((limb + 1) * b - kxe) + b * (size - 1 - limb) + kxe := by
    have : b * size = (limb + 1) * b + b * (size - 1 - limb) := by
      have : size = (limb + 1) + (size - 1 - limb) := by omega
      calc b * size = b * ((limb + 1) + (size - 1 - limb)) := by rw [← this]
        _ = (limb + 1) * b + b * (size - 1 - limb) := by ring
    omega
  rw [hsplit, pow_add, pow_add]
  have := mul_le_mul_of_nonneg_right he (le_of_lt hp1)
  nlinarith [mul_le_mul_of_nonneg_right this (le_of_lt hp2)]

end CoreEnc
