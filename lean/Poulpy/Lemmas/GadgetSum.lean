import Mathlib.Algebra.BigOperators.Group.Finset.Basic
import Mathlib.Algebra.BigOperators.Group.Finset.Sigma
import Mathlib.Algebra.BigOperators.Group.Finset.Piecewise
import Mathlib.Algebra.BigOperators.Ring.Finset
import Mathlib.Tactic.Ring
import Mathlib.Tactic.Linarith
import Mathlib.Tactic.LinearCombination

/-!
The gadget identity in poulpy's digit layout, as pure algebra over a commutative ring.

`val β S φ` is the value of `S` limbs at radix `β` (last limb has weight `1`).  The vector-matrix
product accumulates, for each digit offset `di < dsize`, the rows `r < rowsOf .. di` of the key
matrix multiplied by the input limb `limbIdx dsize r di`, shifted down by `di` limbs and truncated
to `szOf S dsize di` limbs.  `gadget_identity` says that at the level of values the result is
`s * (used part of the input) + Σ_r digit_r * E_r` up to the explicitly named `dropped` limbs
and a multiple of `β ^ S`.
-/

namespace Gadget

open Finset

variable {R : Type*} [CommRing R]

/-- value of `S` limbs at radix `β`, last limb weight 1 -/
def val (β : R) (S : ℕ) (φ : ℕ → R) : R := ∑ l ∈ range S, φ l * β ^ (S - 1 - l)

/-- number of matrix rows used for digit offset `di`: `min((aSize+di)/dsize, dnum)` -/
def rowsOf (aSize dsize dnum di : ℕ) : ℕ := min ((aSize + di) / dsize) dnum

/-- number of result limbs computed for digit offset `di`: `S - max(dsize-di-2, 0)` -/
def szOf (S dsize di : ℕ) : ℕ := S - (dsize - di - 2)

/-- the input limb paired with row `r` at digit offset `di`
(selection `(step, offset) = (dsize, dsize-1-di)`) -/
def limbIdx (dsize r di : ℕ) : ℕ := r * dsize + (dsize - 1 - di)

/-- limb `l` of the accumulated product (at the level of phases): digit offset `di` contributes
`a[limbIdx r di] * φ_r[l + di]` for the rows in use, provided limb `l + di` of the key row exists
and `l` is below the truncated size of that pass -/
def acc (S dsize dnum aSize : ℕ) (a : ℕ → R) (φ : ℕ → ℕ → R) (l : ℕ) : R :=
  ∑ di ∈ range dsize, ∑ r ∈ range (rowsOf aSize dsize dnum di),
    if l + di < S ∧ l < szOf S dsize di then a (limbIdx dsize r di) * φ r (l + di) else 0

/-- digit `r` of the input in base `β^dsize` as the code forms it -/
def digit (β : R) (dsize dnum aSize : ℕ) (a : ℕ → R) (r : ℕ) : R :=
  ∑ di ∈ range dsize,
    if r < rowsOf aSize dsize dnum di then a (limbIdx dsize r di) * β ^ di else 0

/-- the part of the input's value that the product uses -/
def usedVal (β : R) (S dsize dnum aSize : ℕ) (a : ℕ → R) : R :=
  ∑ di ∈ range dsize, ∑ r ∈ range (rowsOf aSize dsize dnum di),
    a (limbIdx dsize r di) * β ^ (S - 1 - limbIdx dsize r di)

/-- the top limbs of the key rows that are shifted out (they only contribute multiples of
`β^S`) -/
def head (β : R) (dsize dnum aSize : ℕ) (a : ℕ → R) (φ : ℕ → ℕ → R) : R :=
  ∑ di ∈ range dsize, ∑ r ∈ range (rowsOf aSize dsize dnum di),
    a (limbIdx dsize r di) * ∑ l ∈ range di, φ r l * β ^ (di - 1 - l)

/-- the product limbs dropped by the size truncation `szOf` -/
def dropped (β : R) (S dsize dnum aSize : ℕ) (a : ℕ → R) (φ : ℕ → ℕ → R) : R :=
  ∑ di ∈ range dsize, ∑ r ∈ range (rowsOf aSize dsize dnum di), ∑ l ∈ range S,
    if szOf S dsize di ≤ l ∧ l + di < S then
      a (limbIdx dsize r di) * φ r (l + di) * β ^ (S - 1 - l) else 0

/-! ### Auxiliary facts -/

/-- a sum over a shorter range is a sum over a longer range with an indicator -/
theorem sum_range_ite_lt (f : ℕ → R) {n m : ℕ} (h : n ≤ m) :
    ∑ r ∈ range n, f r = ∑ r ∈ range m, if r < n then f r else 0 := by
  obtain ⟨k, rfl⟩ := Nat.exists_eq_add_of_le h
  rw [sum_range_add]
  have h1 : ∑ r ∈ range n, (if r < n then f r else 0) = ∑ r ∈ range n, f r :=
    sum_congr rfl (fun r hr => by rw [if_pos (mem_range.mp hr)])
  have h2 : ∑ r ∈ range k, (if n + r < n then f (n + r) else 0) = 0 :=
    sum_eq_zero (fun r _ => by rw [if_neg (by omega)])
  rw [h1, h2, add_zero]

theorem rowsOf_le_dnum (aSize dsize dnum di : ℕ) : rowsOf aSize dsize dnum di ≤ dnum :=
  Nat.min_le_right _ _

/-- the un-truncated shift: shifting the limbs of `φ` down by `di` places multiplies the value by
`β ^ di` up to the `di` top limbs, which move to weight `β ^ S` and above -/
theorem shift_untrunc (β : R) (S di : ℕ) (φ : ℕ → R) (hdi : di ≤ S) :
    ∑ l ∈ range S, (if l + di < S then φ (l + di) * β ^ (S - 1 - l) else 0)
      = β ^ di * val β S φ - β ^ S * (∑ l ∈ range di, φ l * β ^ (di - 1 - l)) := by
  have e1 : ∑ l ∈ range S, (if l + di < S then φ (l + di) * β ^ (S - 1 - l) else 0)
      = ∑ l ∈ range (S - di), φ (l + di) * β ^ (S - 1 - l) := by
    rw [sum_range_ite_lt (fun l => φ (l + di) * β ^ (S - 1 - l)) (Nat.sub_le S di)]
    apply sum_congr rfl
    intro l _
    by_cases h : l + di < S
    · rw [if_pos h, if_pos (by omega)]
    · rw [if_neg h, if_neg (by omega)]
  have e2 : val β S φ = ∑ l ∈ range di, φ l * β ^ (S - 1 - l)
      + ∑ l ∈ range (S - di), φ (di + l) * β ^ (S - 1 - (di + l)) := by
    have h := sum_range_add (fun l => φ l * β ^ (S - 1 - l)) di (S - di)
    have hS : di + (S - di) = S := by omega
    rw [hS] at h
    exact h
  have e3 : β ^ di * ∑ l ∈ range di, φ l * β ^ (S - 1 - l)
      = β ^ S * ∑ l ∈ range di, φ l * β ^ (di - 1 - l) := by
    rw [mul_sum, mul_sum]
    apply sum_congr rfl
    intro l hl
    have hl' : l < di := mem_range.mp hl
    have hp : β ^ di * β ^ (S - 1 - l) = β ^ S * β ^ (di - 1 - l) := by
      rw [← pow_add, ← pow_add]
      congr 1
      omega
    linear_combination (φ l) * hp
  have e4 : β ^ di * ∑ l ∈ range (S - di), φ (di + l) * β ^ (S - 1 - (di + l))
      = ∑ l ∈ range (S - di), φ (l + di) * β ^ (S - 1 - l) := by
    rw [mul_sum]
    apply sum_congr rfl
    intro l hl
    have hl' : l < S - di := mem_range.mp hl
    have hp : β ^ di * β ^ (S - 1 - (di + l)) = β ^ (S - 1 - l) := by
      rw [← pow_add]
      congr 1
      omega
    rw [Nat.add_comm di l]
    rw [Nat.add_comm di l] at hp
    linear_combination (φ (l + di)) * hp
  rw [e1, e2, mul_add, e3, e4]
  ring

/-! ### The single-row core -/

/-- Shifting one key row down by `di` limbs and truncating to `sz` limbs: the value is `β ^ di`
times the row's value, minus the shifted-out head (a multiple of `β ^ S`), minus the limbs dropped
by the truncation. -/
theorem shift_lemma (β : R) (S di sz : ℕ) (φ : ℕ → R) (hdi : di ≤ S) :
    ∑ l ∈ range S, (if l + di < S ∧ l < sz then φ (l + di) * β ^ (S - 1 - l) else 0)
      = β ^ di * val β S φ - β ^ S * (∑ l ∈ range di, φ l * β ^ (di - 1 - l))
        - ∑ l ∈ range S, (if sz ≤ l ∧ l + di < S then φ (l + di) * β ^ (S - 1 - l) else 0) := by
  rw [← shift_untrunc β S di φ hdi, ← sum_sub_distrib]
  apply sum_congr rfl
  intro l _
  by_cases h1 : l + di < S <;> by_cases h2 : l < sz
  · rw [if_pos ⟨h1, h2⟩, if_pos h1, if_neg (by omega), sub_zero]
  · rw [if_neg (by omega), if_pos h1, if_pos ⟨by omega, h1⟩, sub_self]
  · rw [if_neg (by omega), if_neg h1, if_neg (by omega), sub_zero]
  · rw [if_neg (by omega), if_neg h1, if_neg (by omega), sub_zero]

/-! ### The gadget identity -/

/-- the exponent bookkeeping: weight of digit offset `di` of row `r` is the weight of the input
limb `limbIdx dsize r di` -/
theorem exponent_fact {S dsize dnum r di : ℕ} (hS : dnum * dsize ≤ S) (hr : r < dnum)
    (hdi : di < dsize) : di + (S - (r + 1) * dsize) = S - 1 - limbIdx dsize r di := by
  unfold limbIdx
  have h1 : (r + 1) * dsize = r * dsize + dsize := by ring
  have h2 : (r + 1) * dsize ≤ dnum * dsize := Nat.mul_le_mul_right _ (by omega)
  omega

set_option linter.unusedVariables false in
/-- **Gadget identity.**  If every key row `r < dnum` has value `s * β ^ (S - (r+1) * dsize) + E r`
(the hypothesis `hd` is kept for the interface; the identity is trivially true for `dsize = 0`)
then the value of the accumulated product is `s` times the used part of the input, plus the
digit-weighted errors, minus the limbs dropped by the size truncation, minus a multiple of
`β ^ S`. -/
theorem gadget_identity (β s : R) (S dsize dnum aSize : ℕ) (a : ℕ → R) (φ : ℕ → ℕ → R)
    (E : ℕ → R) (hd : 0 < dsize) (hS : dnum * dsize ≤ S)
    (hkey : ∀ r, r < dnum → val β S (φ r) = s * β ^ (S - (r + 1) * dsize) + E r) :
    val β S (acc S dsize dnum aSize a φ)
      = s * usedVal β S dsize dnum aSize a
        + ∑ r ∈ range dnum, digit β dsize dnum aSize a r * E r
        - dropped β S dsize dnum aSize a φ
        - β ^ S * head β dsize dnum aSize a φ := by
  -- step 1: swap the sums so that the limb sum is innermost
  have step1 : val β S (acc S dsize dnum aSize a φ)
      = ∑ di ∈ range dsize, ∑ r ∈ range (rowsOf aSize dsize dnum di),
          a (limbIdx dsize r di) * ∑ l ∈ range S,
            (if l + di < S ∧ l < szOf S dsize di then φ r (l + di) * β ^ (S - 1 - l) else 0) := by
    unfold val acc
    simp_rw [sum_mul]
    rw [sum_comm]
    apply sum_congr rfl
    intro di _
    rw [sum_comm]
    apply sum_congr rfl
    intro r _
    rw [mul_sum]
    apply sum_congr rfl
    intro l _
    split_ifs <;> ring
  -- step 2: the single-row core, the key equation and the exponent bookkeeping, per `(di, r)`
  have step2 : ∀ di ∈ range dsize, ∀ r ∈ range (rowsOf aSize dsize dnum di),
      a (limbIdx dsize r di) * ∑ l ∈ range S,
            (if l + di < S ∧ l < szOf S dsize di then φ r (l + di) * β ^ (S - 1 - l) else 0)
        = s * (a (limbIdx dsize r di) * β ^ (S - 1 - limbIdx dsize r di))
          + a (limbIdx dsize r di) * β ^ di * E r
          - a (limbIdx dsize r di) * ∑ l ∈ range S,
              (if szOf S dsize di ≤ l ∧ l + di < S then φ r (l + di) * β ^ (S - 1 - l) else 0)
          - β ^ S * (a (limbIdx dsize r di) * ∑ l ∈ range di, φ r l * β ^ (di - 1 - l)) := by
    intro di hdi r hr
    have hdi' : di < dsize := mem_range.mp hdi
    have hr' : r < dnum :=
      lt_of_lt_of_le (mem_range.mp hr) (rowsOf_le_dnum aSize dsize dnum di)
    have hle : dsize ≤ S := by
      calc dsize = 1 * dsize := (Nat.one_mul _).symm
        _ ≤ dnum * dsize := Nat.mul_le_mul_right _ (by omega)
        _ ≤ S := hS
    have hp : β ^ di * β ^ (S - (r + 1) * dsize) = β ^ (S - 1 - limbIdx dsize r di) := by
      rw [← pow_add, exponent_fact hS hr' hdi']
    rw [shift_lemma β S di (szOf S dsize di) (φ r) (by omega), hkey r hr']
    linear_combination (s * a (limbIdx dsize r di)) * hp
  -- step 3: recognise the four parts
  have hused : s * usedVal β S dsize dnum aSize a
      = ∑ di ∈ range dsize, ∑ r ∈ range (rowsOf aSize dsize dnum di),
          s * (a (limbIdx dsize r di) * β ^ (S - 1 - limbIdx dsize r di)) := by
    unfold usedVal
    simp_rw [mul_sum]
  have hdig : ∑ r ∈ range dnum, digit β dsize dnum aSize a r * E r
      = ∑ di ∈ range dsize, ∑ r ∈ range (rowsOf aSize dsize dnum di),
          a (limbIdx dsize r di) * β ^ di * E r := by
    unfold digit
    simp_rw [sum_mul]
    rw [sum_comm]
    apply sum_congr rfl
    intro di _
    rw [sum_range_ite_lt (fun r => a (limbIdx dsize r di) * β ^ di * E r)
      (rowsOf_le_dnum aSize dsize dnum di)]
    apply sum_congr rfl
    intro r _
    split_ifs
    · rfl
    · exact zero_mul _
  have hdrop : dropped β S dsize dnum aSize a φ
      = ∑ di ∈ range dsize, ∑ r ∈ range (rowsOf aSize dsize dnum di),
          a (limbIdx dsize r di) * ∑ l ∈ range S,
              (if szOf S dsize di ≤ l ∧ l + di < S then φ r (l + di) * β ^ (S - 1 - l)
                else 0) := by
    unfold dropped
    apply sum_congr rfl
    intro di _
    apply sum_congr rfl
    intro r _
    rw [mul_sum]
    apply sum_congr rfl
    intro l _
    split_ifs <;> ring
  have hhead : β ^ S * head β dsize dnum aSize a φ
      = ∑ di ∈ range dsize, ∑ r ∈ range (rowsOf aSize dsize dnum di),
          β ^ S * (a (limbIdx dsize r di) * ∑ l ∈ range di, φ r l * β ^ (di - 1 - l)) := by
    unfold head
    simp_rw [mul_sum]
  rw [step1, hused, hdig, hdrop, hhead, ← sum_add_distrib, ← sum_sub_distrib, ← sum_sub_distrib]
  apply sum_congr rfl
  intro di hdi
  rw [← sum_add_distrib, ← sum_sub_distrib, ← sum_sub_distrib]
  exact sum_congr rfl (step2 di hdi)

/-! ### Non-vacuity: concrete instances over `ℤ` -/

namespace Example

/-- input limbs `1, 2, 3, …` -/
def a : ℕ → ℤ := fun m => (m : ℤ) + 1

/-- a single key row with limbs `1, 1, 2, 3` -/
def φ : ℕ → ℕ → ℤ := fun _ l => if l = 0 then 1 else (l : ℤ)

/-- the error is computed from the key equation with `s = 3`, so that `hkey` holds -/
def E (r : ℕ) : ℤ := val 4 4 (φ r) - 3 * 4 ^ (4 - (r + 1) * 3)

/-- `β = 4`, `S = 4`, `dsize = 3`, `dnum = 1`, `aSize = 2` -/
example :
    val (4 : ℤ) 4 (acc 4 3 1 2 a φ)
      = 3 * usedVal (4 : ℤ) 4 3 1 2 a + ∑ r ∈ range 1, digit (4 : ℤ) 3 1 2 a r * E r
        - dropped (4 : ℤ) 4 3 1 2 a φ - (4 : ℤ) ^ 4 * head (4 : ℤ) 3 1 2 a φ :=
  gadget_identity (4 : ℤ) 3 4 3 1 2 a φ E (by decide) (by decide)
    (fun r _ => by unfold E; ring)

/-- `aSize = 3`: here all three digit offsets have a row in use and the truncation of the pass
`di = 0` really drops a limb -/
example :
    val (4 : ℤ) 4 (acc 4 3 1 3 a φ)
      = 3 * usedVal (4 : ℤ) 4 3 1 3 a + ∑ r ∈ range 1, digit (4 : ℤ) 3 1 3 a r * E r
        - dropped (4 : ℤ) 4 3 1 3 a φ - (4 : ℤ) ^ 4 * head (4 : ℤ) 3 1 3 a φ :=
  gadget_identity (4 : ℤ) 3 4 3 1 3 a φ E (by decide) (by decide)
    (fun r _ => by unfold E; ring)

/-- the parts of the `aSize = 3` instance evaluated: `656 = 3 * 108 + 27 * 79 - 9 - 256 * 7`,
so no term of the identity is trivially zero -/
example :
    val (4 : ℤ) 4 (acc 4 3 1 3 a φ) = 656 ∧ usedVal (4 : ℤ) 4 3 1 3 a = 108
      ∧ digit (4 : ℤ) 3 1 3 a 0 = 27 ∧ E 0 = 79 ∧ dropped (4 : ℤ) 4 3 1 3 a φ = 9
      ∧ head (4 : ℤ) 3 1 3 a φ = 7 := by
  decide

end Example

/-! ### Side facts about the layout -/

/-- with `dsize ≤ 2` the size truncation drops nothing -/
theorem dropped_eq_zero (β : R) (S dsize dnum aSize : ℕ) (a : ℕ → R) (φ : ℕ → ℕ → R)
    (h : dsize ≤ 2) : dropped β S dsize dnum aSize a φ = 0 := by
  unfold dropped
  apply sum_eq_zero
  intro di _
  apply sum_eq_zero
  intro r _
  apply sum_eq_zero
  intro l hl
  have hl' : l < S := mem_range.mp hl
  have hsz : szOf S dsize di = S := by
    unfold szOf
    omega
  rw [if_neg (by omega)]

/-- row `r` is in use at digit offset `di` (ignoring the `dnum` cap) iff its input limb exists -/
theorem limb_used_iff {aSize dsize r di : ℕ} (hd : 0 < dsize) (hdi : di < dsize) :
    r < (aSize + di) / dsize ↔ limbIdx dsize r di < aSize := by
  unfold limbIdx
  have h1 : (r + 1) * dsize = r * dsize + dsize := by ring
  rw [← Nat.succ_le_iff, Nat.le_div_iff_mul_le hd, Nat.succ_eq_add_one, h1]
  omega

/-- when `dnum` is large enough (`aSize ≤ dnum * dsize`) every input limb is used exactly once:
the used value is the full value of the `aSize` input limbs (at the weights of an `S`-limb
number).  The map `(di, r) ↦ limbIdx dsize r di` is a bijection onto `range aSize` with inverse
`m ↦ (dsize - 1 - m % dsize, m / dsize)`. -/
theorem usedVal_eq_val (β : R) (S dsize dnum aSize : ℕ) (a : ℕ → R) (hd : 0 < dsize)
    (ha : aSize ≤ dnum * dsize) :
    usedVal β S dsize dnum aSize a = ∑ m ∈ range aSize, a m * β ^ (S - 1 - m) := by
  unfold usedVal
  rw [sum_sigma' (range dsize) (fun di => range (rowsOf aSize dsize dnum di))
    (fun di r => a (limbIdx dsize r di) * β ^ (S - 1 - limbIdx dsize r di))]
  refine sum_nbij' (fun x => limbIdx dsize x.2 x.1)
    (fun m => ⟨dsize - 1 - m % dsize, m / dsize⟩) ?_ ?_ ?_ ?_ ?_
  · rintro ⟨di, r⟩ hx
    rw [mem_sigma] at hx
    have hdi : di < dsize := mem_range.mp hx.1
    have hr : r < rowsOf aSize dsize dnum di := mem_range.mp hx.2
    have hr' : r < (aSize + di) / dsize := lt_of_lt_of_le hr (Nat.min_le_left _ _)
    exact mem_range.mpr ((limb_used_iff hd hdi).mp hr')
  · intro m hm
    have hm' : m < aSize := mem_range.mp hm
    have hmod : m % dsize < dsize := Nat.mod_lt _ hd
    have hdm : m / dsize * dsize + m % dsize = m := Nat.div_add_mod' m dsize
    have hdi : dsize - 1 - m % dsize < dsize := by omega
    rw [mem_sigma]
    refine ⟨mem_range.mpr hdi, mem_range.mpr ?_⟩
    show m / dsize < min ((aSize + (dsize - 1 - m % dsize)) / dsize) dnum
    rw [lt_min_iff]
    constructor
    · rw [limb_used_iff hd hdi]
      unfold limbIdx
      omega
    · rw [Nat.div_lt_iff_lt_mul hd]
      omega
  · rintro ⟨di, r⟩ hx
    rw [mem_sigma] at hx
    have hdi : di < dsize := mem_range.mp hx.1
    have hc : dsize - 1 - di < dsize := by omega
    have hdiv : limbIdx dsize r di / dsize = r := by
      unfold limbIdx
      rw [Nat.add_comm, Nat.add_mul_div_right _ _ hd, Nat.div_eq_of_lt hc, Nat.zero_add]
    have hmod : limbIdx dsize r di % dsize = dsize - 1 - di := by
      unfold limbIdx
      rw [Nat.add_comm, Nat.add_mul_mod_self_right, Nat.mod_eq_of_lt hc]
    show (⟨dsize - 1 - limbIdx dsize r di % dsize, limbIdx dsize r di / dsize⟩ : (_ : ℕ) × ℕ)
      = ⟨di, r⟩
    rw [hdiv, hmod]
    have : dsize - 1 - (dsize - 1 - di) = di := by omega
    rw [this]
  · intro m hm
    have hmod : m % dsize < dsize := Nat.mod_lt _ hd
    have hdm : m / dsize * dsize + m % dsize = m := Nat.div_add_mod' m dsize
    show limbIdx dsize (m / dsize) (dsize - 1 - m % dsize) = m
    unfold limbIdx
    omega
  · rintro ⟨di, r⟩ _
    rfl

/-! ### Several input columns -/

/-- the gadget identity summed over `rin` input columns, each with its own secret `s i`, key
rows `φ i` and errors `E i` -/
theorem gadget_identity_cols (β : R) (S dsize dnum aSize rin : ℕ) (s : ℕ → R) (a : ℕ → ℕ → R)
    (φ : ℕ → ℕ → ℕ → R) (E : ℕ → ℕ → R) (hd : 0 < dsize) (hS : dnum * dsize ≤ S)
    (hkey : ∀ i, i < rin → ∀ r, r < dnum →
      val β S (φ i r) = s i * β ^ (S - (r + 1) * dsize) + E i r) :
    ∑ i ∈ range rin, val β S (acc S dsize dnum aSize (a i) (φ i))
      = ∑ i ∈ range rin,
          (s i * usedVal β S dsize dnum aSize (a i)
            + ∑ r ∈ range dnum, digit β dsize dnum aSize (a i) r * E i r
            - dropped β S dsize dnum aSize (a i) (φ i)
            - β ^ S * head β dsize dnum aSize (a i) (φ i)) :=
  sum_congr rfl (fun i hi =>
    gadget_identity β (s i) S dsize dnum aSize (a i) (φ i) (E i) hd hS
      (hkey i (mem_range.mp hi)))

end Gadget
