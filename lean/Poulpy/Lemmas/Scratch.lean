import Poulpy.Model.Scratch
/-
Generic facts about the arena and allocation trees (helper lemmas for Props/C12.lean).
-/

namespace Scratch

theorem alignOff_lt (x : Nat) : alignOff x < 64 := by unfold alignOff; omega

theorem alignOff_aligned (x : Nat) : (x + alignOff x) % 64 = 0 := by unfold alignOff; omega

theorem alignOff_of_aligned {x : Nat} (h : x % 64 = 0) : alignOff x = 0 := by unfold alignOff; omega

theorem alignOff_add_of_aligned {x : Nat} (b : Nat) (h : x % 64 = 0) : alignOff (x + b) = alignOff b := by
  unfold alignOff; omega

theorem pad_of_dvd {b : Nat} (h : b % 64 = 0) : pad b = 0 := by unfold pad alignOff; omega

theorem pad_lt (b : Nat) : pad b < 64 := alignOff_lt b

/-- `take` in closed form -/
theorem take_eq (a : Arena) (b : Nat) :
    take a b = if b ≤ a.available then
      some (a.addr + alignOff a.addr, ⟨a.addr + alignOff a.addr + b, a.available - b⟩) else none := by
  unfold take Arena.available; rfl

/-- `available` of the remainder of a successful take -/
theorem available_rem (a : Arena) (b : Nat) :
    (Arena.mk (a.addr + alignOff a.addr + b) (a.available - b)).available = a.available - b - pad b := by
  simp only [Arena.available, pad]
  rw [alignOff_add_of_aligned b (alignOff_aligned a.addr)]

/-! ### results -/

@[simp] theorem isOk_prepend (l : List Ev) (r : Res) : (r.prepend l).isOk = r.isOk := by
  cases r <;> rfl

@[simp] theorem isOk_andThen (r : Res) (g : Unit → Res) : (r.andThen g).isOk = (r.isOk && (g ()).isOk) := by
  cases r with
  | ok l => simp only [Res.andThen, isOk_prepend]; simp [Res.isOk]
  | failTake => simp [Res.andThen, Res.isOk]
  | failNeed => simp [Res.andThen, Res.isOk]

/-! ### req / reqA -/

theorem parReq_ge (len rk : Nat) : ∀ n, n * len ≤ parReq n len rk := by
  intro n
  induction n with
  | zero => simp
  | succ n ih =>
    simp only [parReq]; rw [Nat.succ_mul]
    split <;> omega

/-- the size check of `split_mut` is exactly the requirement of its `n` takes -/
theorem parReq_zero_closed (len : Nat) : ∀ n, parReq (n + 1) len 0 = n * (len + pad len) + len := by
  intro n
  induction n with
  | zero => simp [parReq]
  | succ n ih =>
    rw [parReq, ih, Nat.succ_mul]
    split
    · rename_i h0
      have hl : len = 0 := by omega
      subst hl
      have : pad 0 = 0 := by decide
      simp [this]
    · omega

theorem parNeed_eq_parReq (len : Nat) : ∀ n, parNeed n len = parReq n len 0 := by
  intro n
  cases n with
  | zero => simp [parNeed, parReq]
  | succ m => rw [parReq_zero_closed]; simp [parNeed, roundUp]

theorem parReq_mono_rk (len : Nat) {rk rk' : Nat} (h : rk ≤ rk') : ∀ n, parReq n len rk ≤ parReq n len rk' := by
  intro n
  induction n with
  | zero => simpa [parReq] using h
  | succ n ih =>
    simp only [parReq]
    split <;> split <;> omega

theorem parNeed_le_parReq (len rk : Nat) (n : Nat) : parNeed n len ≤ parReq n len rk := by
  rw [parNeed_eq_parReq]; exact parReq_mono_rk len (Nat.zero_le _) n

theorem parNeed_of_aligned {len : Nat} (hl : len % 64 = 0) (n : Nat) : parNeed n len = n * len := by
  have hp := pad_of_dvd hl
  unfold parNeed roundUp
  cases n with
  | zero => simp
  | succ m => simp [hp, Nat.succ_mul]

theorem req_le_reqA_of_aligned : ∀ t : AllocTree, aligned t = true → req t ≤ reqA t := by
  intro t
  induction t with
  | done => intro _; simp [req, reqA]
  | take b k ih =>
    intro h
    simp only [aligned, Bool.and_eq_true, Bool.or_eq_true, beq_iff_eq] at h
    have ihk := ih h.2
    simp only [req, reqA]
    rcases h.1 with hb | hk
    · have := pad_of_dvd hb
      split <;> omega
    · have : req k = 0 := by omega
      simp [this]
  | alt x y ihx ihy =>
    intro h
    simp only [aligned, Bool.and_eq_true] at h
    have := ihx h.1; have := ihy h.2
    simp only [req, reqA]; omega
  | need b k ih =>
    intro h
    simp only [aligned] at h
    have := ih h
    simp only [req, reqA]; omega
  | par n len body k _ ihk =>
    intro h
    simp only [aligned, Bool.and_eq_true, Bool.or_eq_true, beq_iff_eq, decide_eq_true_eq] at h
    have hk := ihk h.2
    simp only [req, reqA]
    -- parReq n len (req k) ≤ n*len + reqA k
    have key : ∀ m, (len % 64 = 0 ∨ (m ≤ 1 ∧ reqA k = 0)) → parReq m len (req k) ≤ m * len + reqA k := by
      intro m
      induction m with
      | zero => intro _; simp [parReq]; omega
      | succ m ihm =>
        intro hm
        simp only [parReq]
        rcases hm with hl | ⟨hm1, hk0⟩
        · have h1 := ihm (Or.inl hl)
          have := pad_of_dvd hl
          rw [Nat.succ_mul]
          split <;> omega
        · have hm0 : m = 0 := by omega
          subst hm0
          have : req k = 0 := by omega
          simp [parReq, this]
    have := key n h.1.1
    have := parNeed_le_parReq len (req k) n
    omega

theorem reqA_le_req : ∀ t : AllocTree, reqA t ≤ req t := by
  intro t
  induction t with
  | done => simp [req, reqA]
  | take b k ih => simp only [req, reqA]; split <;> omega
  | alt x y ihx ihy => simp only [req, reqA]; omega
  | need b k ih => simp only [req, reqA]; omega
  | par n len body k _ ihk =>
    simp only [req, reqA]
    have key : ∀ m, m * len + reqA k ≤ parReq m len (req k) := by
      intro m
      induction m with
      | zero => simp [parReq]; omega
      | succ m ihm =>
        simp only [parReq]
        rw [Nat.succ_mul]
        split <;> omega
    have := key n
    omega

/-! ### the main characterisation -/

/-- a window handed out by `take` is aligned, so all of it is available -/
theorem available_window {p : Nat} (len : Nat) (h : p % 64 = 0) : (Arena.mk p len).available = len := by
  simp [Arena.available, alignOff_of_aligned h]

theorem splitLoop_spec (len rk : Nat) :
    ∀ (n : Nat) (a : Arena),
      (match splitLoop n len a with
        | none => parReq n len rk > a.available
        | some (_, ws, r) =>
          (∀ w ∈ ws, w.addr % 64 = 0 ∧ w.len = len) ∧ ws.length = n ∧
          (rk ≤ r.available ↔ parReq n len rk ≤ a.available)) := by
  intro n
  induction n with
  | zero => intro a; simp [splitLoop, parReq]
  | succ n ih =>
    intro a
    simp only [splitLoop, take_eq]
    by_cases hb : len ≤ a.available
    · simp only [hb, if_true]
      have ihr := ih ⟨a.addr + alignOff a.addr + len, a.available - len⟩
      rw [available_rem] at ihr
      cases hs : splitLoop n len ⟨a.addr + alignOff a.addr + len, a.available - len⟩ with
      | none =>
        simp only [hs] at ihr
        simp only [parReq]
        split <;> omega
      | some v =>
        obtain ⟨evs, ws, r'⟩ := v
        simp only [hs] at ihr
        obtain ⟨hw, hl, hiff⟩ := ihr
        refine ⟨?_, ?_, ?_⟩
        · intro w hwm
          simp only [List.mem_cons] at hwm
          rcases hwm with rfl | hwm
          · exact ⟨alignOff_aligned a.addr, rfl⟩
          · exact hw w hwm
        · simp [hl]
        · simp only [parReq]
          rw [hiff]
          split
          · omega
          · omega
    · simp only [hb, if_false]
      simp only [parReq]
      split <;> omega

theorem runAll_isOk (f : Arena → Res) (len : Nat) (ok : Bool)
    (hf : ∀ p, p % 64 = 0 → (f ⟨p, len⟩).isOk = ok) :
    ∀ ws : List Arena, (∀ w ∈ ws, w.addr % 64 = 0 ∧ w.len = len) →
      (runAll f ws).isOk = (ws.isEmpty || ok) := by
  intro ws
  induction ws with
  | nil => intro _; simp [runAll, Res.isOk]
  | cons w ws ih =>
    intro h
    have hw := h w (List.mem_cons_self)
    have : (f w).isOk = ok := by
      have := hf w.addr hw.1
      rw [← hw.2] at this
      exact this
    simp only [runAll, isOk_andThen, this, List.isEmpty_cons, Bool.false_or]
    rw [ih (fun w' hw' => h w' (List.mem_cons_of_mem _ hw'))]
    cases ok <;> simp

/-- **Exact characterisation.** For a tree whose `split_mut` bodies fit their windows, `run`
succeeds on a window iff `available()` is at least `req`. -/
theorem run_ok_iff : ∀ (t : AllocTree), fits t = true → ∀ a : Arena, ((run t a).isOk = true ↔ req t ≤ a.available) := by
  intro t
  induction t with
  | done => intro _ a; simp [run, req, Res.isOk]
  | take b k ih =>
    intro hf a
    simp only [fits] at hf
    simp only [run, take_eq, req]
    by_cases hb : b ≤ a.available
    · simp only [hb, if_true, isOk_prepend]
      rw [ih hf, available_rem]
      split <;> omega
    · simp only [hb, if_false, Res.isOk]
      constructor
      · intro h; cases h
      · intro h; exfalso; split at h <;> omega
  | alt x y ihx ihy =>
    intro hf a
    simp only [fits, Bool.and_eq_true] at hf
    simp only [run, req, isOk_andThen, Bool.and_eq_true]
    rw [ihx hf.1, ihy hf.2]; omega
  | need b k ih =>
    intro hf a
    simp only [fits] at hf
    simp only [run, req]
    by_cases hb : b ≤ a.available
    · simp only [hb, if_true]; rw [ih hf]; omega
    · simp only [hb, if_false, Res.isOk]
      constructor
      · intro h; cases h
      · intro h; omega
  | par n len body k ihb ihk =>
    intro hf a
    simp only [fits, Bool.and_eq_true, Bool.or_eq_true, beq_iff_eq, decide_eq_true_eq] at hf
    obtain ⟨⟨hn, hfb⟩, hfk⟩ := hf
    simp only [run, req]
    by_cases hb : parNeed n len ≤ a.available
    · simp only [hb, if_true]
      have sp := splitLoop_spec len (req k) n a
      have hge := parNeed_le_parReq len (req k) n
      cases hs : splitLoop n len a with
      | none =>
        simp only [hs] at sp
        simp only [Res.isOk]
        constructor
        · intro h; cases h
        · intro h; omega
      | some v =>
        obtain ⟨evs, ws, r⟩ := v
        simp only [hs] at sp
        obtain ⟨hw, hl, hiff⟩ := sp
        simp only [isOk_prepend, isOk_andThen, Bool.and_eq_true]
        have hbody : ∀ p, p % 64 = 0 → (run body ⟨p, len⟩).isOk = decide (req body ≤ len) := by
          intro p hp
          have := ihb hfb ⟨p, len⟩
          rw [available_window len hp] at this
          by_cases hq : req body ≤ len
          · simp [hq, this.mpr hq]
          · simp only [hq, decide_false]
            cases hr : (run body ⟨p, len⟩).isOk
            · rfl
            · exact absurd (this.mp hr) hq
        rw [runAll_isOk (run body) len _ hbody ws hw, ihk hfk, hiff]
        have hwe : ws.isEmpty = true ↔ n = 0 := by
          rw [List.isEmpty_iff]; constructor
          · intro h; rw [h] at hl; simpa using hl.symm
          · intro h; rw [h] at hl; exact List.eq_nil_of_length_eq_zero hl
        rcases hn with hn | hn
        · have : ws.isEmpty = true := hwe.mpr hn
          simp only [this, Bool.true_or, true_and]; omega
        · simp only [hn, decide_true, Bool.or_true, true_and]; omega
    · simp only [hb, if_false, Res.isOk]
      constructor
      · intro h; cases h
      · intro h; omega

/-- sufficiency, the direction operations rely on -/
theorem run_ok (t : AllocTree) (hf : fits t = true) (a : Arena) (h : req t ≤ a.available) :
    (run t a).isOk = true := (run_ok_iff t hf a).mpr h

/-- under the alignment hypothesis the authors' unpadded sum is enough -/
theorem run_ok_of_aligned (t : AllocTree) (hf : fits t = true) (hal : aligned t = true) (a : Arena)
    (h : reqA t ≤ a.available) : (run t a).isOk = true :=
  run_ok t hf a (Nat.le_trans (req_le_reqA_of_aligned t hal) h)

/-- a window that is too small for the padded requirement makes the operation panic -/
theorem run_fails (t : AllocTree) (hf : fits t = true) (a : Arena) (h : a.available < req t) :
    (run t a).isOk = false := by
  cases hr : (run t a).isOk
  · rfl
  · have := (run_ok_iff t hf a).mp hr; omega

/-- success is monotone in the window: same start, more bytes -/
theorem run_mono (t : AllocTree) (hf : fits t = true) (a : Arena) (len' : Nat) (hl : a.len ≤ len')
    (h : (run t a).isOk = true) : (run t ⟨a.addr, len'⟩).isOk = true := by
  have h1 := (run_ok_iff t hf a).mp h
  apply run_ok t hf
  simp only [Arena.available] at *
  omega

end Scratch
