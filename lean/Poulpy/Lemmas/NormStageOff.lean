import Poulpy.Lemmas.KsDecrypt
import Poulpy.Model.Core.Mul
import Poulpy.Model.Core.Ep

/-!
The normalisation stage of the multiplication routines with every kernel hypothesis discharged by C08's unconditional value theorems
(`C08.normalize_value`, `C08.big_normalize128_value`: any radix pair `1..62`, any sizes, EVERY bit offset, `i64` and `i128` accumulators):
`Core.bigNormalizeOff` (hence `Core.epBigNormalize` at offset 0) applied column by column returns, and the phase of the result is the phase
of the accumulator times `2^off` within `(1 + Σ‖s_i‖₁)` units of the result's last limb — exactly when no precision is lost.
Generalises `KsDec.norm_stage` (offset 0) to the offsets of `cnv_offset`.
-/

namespace Core
open Hal Core.Ops C02L KsDec

/-- tolerance of a normalisation from `pa` bits (accumulator precision) shifted by `off` into `pr` bits: `0` when nothing is cut, else one unit
`2^(pa + (−off)⁺)` of the result's last limb in the common scale -/
def normTolOff (pr pa : Nat) (off : Int) : Int :=
  if ((pa : Nat) : Int) - off ≤ ((pr : Nat) : Int) then 0 else 2 ^ (pa + (-off).toNat)

theorem normTolOff_zero (pr pa : Nat) : normTolOff pr pa 0 = C02.normTol pr pa := by
  unfold normTolOff C02.normTol
  simp only [sub_zero, neg_zero, Int.toNat_zero, Nat.add_zero, Nat.cast_le]

theorem normTolOff_nonneg (pr pa : Nat) (off : Int) : 0 ≤ normTolOff pr pa off := by
  unfold normTolOff; split <;> positivity

theorem epBigNormalize_eq (big128 : Bool) (n rb rs : Nat) (a : Col) (ab : Nat) :
    epBigNormalize big128 n rb rs a ab = bigNormalizeOff big128 n rb rs 0 a ab := rfl

/-- C08 on one column, every offset, both accumulator widths -/
theorem kern_col_off (big128 : Bool) (N rb rs ab : Nat) (off : Int) (H : Int) (c : Col)
    (hrb1 : 1 ≤ rb) (hrb : rb ≤ 62) (hab1 : 1 ≤ ab) (hab : ab ≤ 62) (hH0 : 0 ≤ H) (hH : H + 8 ≤ 2 ^ (bitsOf big128 - 2))
    (hc : ∀ l ∈ c, ∀ x ∈ l, |x| ≤ H) :
    ∃ C, bigNormalizeOff big128 N rb rs off c ab = some C ∧ ColWF N rs C ∧
      ∀ t, t < N → (∀ d ∈ coefAt C t, |d| ≤ 2 ^ rb - 1) ∧
        NormL.TorusNear (valI rb (coefAt C t)) (rb * rs) (valI ab (coefAt c t) * 2 ^ off.toNat) (ab * c.length + (-off).toNat) ∧
        ((((ab * c.length : Nat) : Int) - off ≤ ((rb * rs : Nat) : Int)) →
          NormL.TorusEq (valI rb (coefAt C t)) (rb * rs) (valI ab (coefAt c t) * 2 ^ off.toNat) (ab * c.length + (-off).toNat)) := by
  have hbound : ∀ t, ∀ x ∈ coefAt c t, |x| ≤ H := fun t => coefAt_bound hH0 hc t
  have hlen : ∀ t, (coefAt c t).length = c.length := fun t => by simp [coefAt]
  cases big128 with
  | false =>
    obtain ⟨C, hC⟩ := NormL.normalizeCol?_exists rb rs off c ab N hab1 hrb1
    have hinv := CoreEnc.mapCoefs?_inv _ _ _ _ hC
    refine ⟨C, hC, ⟨hinv.1, hinv.2.1⟩, ?_⟩
    intro t ht
    obtain ⟨o, ho, hco⟩ := hinv.2.2 t ht
    have ctx : NormL.CrossCtx 64 ab rb rs 0 H (coefAt c t) :=
      ⟨Or.inl rfl, hrb1, hrb, by omega, hab, hH0, by simpa [bitsOf] using hH, hbound t⟩
    have hv := C08.normalize_value ctx off ho
    rw [hlen] at hv
    rw [hco hv.1]
    exact ⟨hv.2.1, hv.2.2.1, hv.2.2.2⟩
  | true =>
    obtain ⟨C, hC⟩ := NormL.bigNormalizeCol128?_exists rb rs off c ab N hab1 hrb1
    have hinv := CoreEnc.mapCoefs?_inv _ _ _ _ hC
    refine ⟨C, hC, ⟨hinv.1, hinv.2.1⟩, ?_⟩
    intro t ht
    obtain ⟨o, ho, hco⟩ := hinv.2.2 t ht
    have ctx : NormL.CrossCtx 128 ab rb rs 0 H (coefAt c t) :=
      ⟨Or.inr rfl, hrb1, hrb, by omega, hab, hH0, by simpa [bitsOf] using hH, hbound t⟩
    have hv := C08.big_normalize128_value ctx off ho
    rw [hlen] at hv
    rw [hco hv.1]
    exact ⟨hv.2.1, hv.2.2.1, hv.2.2.2⟩

theorem mapM_map_some {α β} (f : α → Option β) (g : α → β) : ∀ (L : List α), (∀ x ∈ L, f x = some (g x)) → L.mapM f = some (L.map g)
  | [], _ => rfl
  | x :: xs, h => by
    have hx := h x List.mem_cons_self
    have hxs := mapM_map_some f g xs (fun y hy => h y (List.mem_cons_of_mem _ hy))
    simp [List.mapM_cons, hx, hxs]

/-- **the normalisation stage with offset, C08 discharged** (coefficient form) -/
theorem norm_stage_off (big128 : Bool) (N rb rs ab S : Nat) (off : Int) (H : Int) (L : List Col)
    (hrb1 : 1 ≤ rb) (hrb : rb ≤ 62) (hab1 : 1 ≤ ab) (hab : ab ≤ 62) (hH0 : 0 ≤ H) (hH : H + 8 ≤ 2 ^ (bitsOf big128 - 2))
    (hne : L ≠ []) (hwf : ∀ c ∈ L, ColWF N S c) (hb : ∀ c ∈ L, ∀ l ∈ c, ∀ x ∈ l, |x| ≤ H) :
    ∃ cs, L.mapM (fun c => bigNormalizeOff big128 N rb rs off c ab) = some cs ∧ cs.length = L.length ∧
      (∀ c ∈ cs, ColWF N rs c) ∧ (∀ c ∈ cs, ∀ l ∈ c, ∀ x ∈ l, |x| ≤ 2 ^ rb - 1) ∧
      (∀ i, i < L.length → bigNormalizeOff big128 N rb rs off (L.getD i []) ab = some (cs.getD i [])) ∧
      ∀ (s : List Poly) t, t < N → ∃ q e : Int,
        2 ^ (ab * S + (-off).toNat) * valCoeff rb (phase s (Ks.mkCt rb N cs)) t
          = 2 ^ (rb * rs) * 2 ^ off.toNat * valCoeff ab (phase s (Ks.mkCt ab N L)) t + e + q * 2 ^ (rb * rs + (ab * S + (-off).toNat)) ∧
        |e| ≤ (1 + snorm (min (L.length - 1) s.length) s) * normTolOff (rb * rs) (ab * S) off := by
  have hk := fun c (hc : c ∈ L) => kern_col_off big128 N rb rs ab off H c hrb1 hrb hab1 hab hH0 hH (hb c hc)
  let Kd : Col → Col := fun c => (bigNormalizeOff big128 N rb rs off c ab).getD []
  have hKd : ∀ c ∈ L, bigNormalizeOff big128 N rb rs off c ab = some (Kd c) := by
    intro c hc
    obtain ⟨C, h, _⟩ := hk c hc
    simp only [Kd, h, Option.getD_some]
  have hKd' : ∀ c (hc : c ∈ L), ColWF N rs (Kd c) ∧
      ∀ t, t < N → (∀ d ∈ coefAt (Kd c) t, |d| ≤ 2 ^ rb - 1) ∧
        NormL.TorusNear (valI rb (coefAt (Kd c) t)) (rb * rs) (valI ab (coefAt c t) * 2 ^ off.toNat) (ab * c.length + (-off).toNat) ∧
        ((((ab * c.length : Nat) : Int) - off ≤ ((rb * rs : Nat) : Int)) →
          NormL.TorusEq (valI rb (coefAt (Kd c) t)) (rb * rs) (valI ab (coefAt c t) * 2 ^ off.toNat) (ab * c.length + (-off).toNat)) := by
    intro c hc
    obtain ⟨C, h, h2⟩ := hk c hc
    have e : Kd c = C := by simp only [Kd, h, Option.getD_some]
    rw [e]; exact h2
  have hok : L.mapM (fun c => bigNormalizeOff big128 N rb rs off c ab) = some (L.map Kd) := mapM_map_some _ Kd L hKd
  have hcswf : ∀ c ∈ L.map Kd, ColWF N rs c := by
    intro c hc
    obtain ⟨c0, hc0, rfl⟩ := List.mem_map.mp hc
    exact (hKd' c0 hc0).1
  have hcsne : L.map Kd ≠ [] := by simpa using hne
  refine ⟨L.map Kd, hok, by simp, hcswf, ?_, ?_, ?_⟩
  · intro c hc l hl x hx
    obtain ⟨c0, hc0, rfl⟩ := List.mem_map.mp hc
    obtain ⟨hw, hco⟩ := hKd' c0 hc0
    obtain ⟨t, ht, rfl⟩ := List.getElem_of_mem hx
    have htN : t < N := by rw [← hw.2 l hl]; exact ht
    apply (hco t htN).1
    unfold coefAt
    apply List.mem_map.mpr
    exact ⟨l, hl, by simp [List.getD_eq_getElem?_getD, List.getElem?_eq_getElem ht]⟩
  · intro i hi
    have e1 : L.getD i [] = L[i] := by simp [List.getD_eq_getElem?_getD, List.getElem?_eq_getElem hi]
    have e2 : (L.map Kd).getD i [] = Kd L[i] := by simp [List.getD_eq_getElem?_getD, List.getElem?_eq_getElem hi]
    rw [e1, e2]
    exact hKd _ (List.getElem_mem hi)
  · intro s t ht
    obtain ⟨gr, szr⟩ := gwf_mk (N := N) rb rs (L.map Kd) hcsne hcswf
    obtain ⟨ga, sza⟩ := gwf_mk (N := N) ab S L hne hwf
    have hrk : (Ks.mkCt rb N (L.map Kd)).rank = L.length - 1 := by simp [GLWE.rank, Ks.mkCt]
    have hrka : (Ks.mkCt ab N L).rank = L.length - 1 := by simp [GLWE.rank, Ks.mkCt]
    have hpos : 0 < L.length := List.length_pos_of_ne_nil hne
    have := torus_phase3 gr gr ga rfl (by rw [hrk, hrka]) rb rb ab
      (2 ^ (ab * S + (-off).toNat)) 0 (2 ^ (rb * rs) * 2 ^ off.toNat) (2 ^ (rb * rs + (ab * S + (-off).toNat)))
      (normTolOff (rb * rs) (ab * S) off)
      (fun i hi t ht => by
        rw [hrk] at hi
        have hi' : i < L.length := by omega
        have hcolr : col (Ks.mkCt rb N (L.map Kd)) i = Kd (L[i]) := by
          show (L.map Kd).getD i [] = _
          simp [List.getD_eq_getElem?_getD, List.getElem?_eq_getElem hi']
        have hcola : col (Ks.mkCt ab N L) i = L[i] := by
          show L.getD i [] = _
          simp [List.getD_eq_getElem?_getD, List.getElem?_eq_getElem hi']
        have hmem : L[i] ∈ L := List.getElem_mem hi'
        obtain ⟨_, hco⟩ := hKd' _ hmem
        obtain ⟨_, hnear, heq⟩ := hco t ht
        rw [(hwf _ hmem).1] at hnear heq
        rw [hcolr, hcola, CoreEnc.valCoeff_eq, CoreEnc.valCoeff_eq]
        unfold normTolOff
        split
        next hc =>
          obtain ⟨q, hq⟩ := heq hc
          exact ⟨q, 0, by linear_combination hq, by simp⟩
        next hc =>
          obtain ⟨q, e, hq, he⟩ := hnear
          exact ⟨q, e, by linear_combination hq, he⟩) s t ht
    rw [hrk] at this
    obtain ⟨q, e, he, hb'⟩ := this
    exact ⟨q, e, by linear_combination he, hb'⟩

/-- the same in `R N = ℤ[X]/(X^N+1)`: one equation with an explicit error list `E`, `‖E‖_∞ ≤ (1 + Σ‖s_i‖₁)·normTolOff`, and a multiple of
the torus modulus -/
theorem norm_stage_ring (big128 : Bool) (N rb rs ab S : Nat) (off : Int) (H : Int) (L : List Col) (hN : 0 < N)
    (hrb1 : 1 ≤ rb) (hrb : rb ≤ 62) (hab1 : 1 ≤ ab) (hab : ab ≤ 62) (hH0 : 0 ≤ H) (hH : H + 8 ≤ 2 ^ (bitsOf big128 - 2))
    (hne : L ≠ []) (hwf : ∀ c ∈ L, ColWF N S c) (hb : ∀ c ∈ L, ∀ l ∈ c, ∀ x ∈ l, |x| ≤ H) :
    ∃ cs, L.mapM (fun c => bigNormalizeOff big128 N rb rs off c ab) = some cs ∧ cs.length = L.length ∧
      (∀ c ∈ cs, ColWF N rs c) ∧ (∀ c ∈ cs, ∀ l ∈ c, ∀ x ∈ l, |x| ≤ 2 ^ rb - 1) ∧
      ∀ (s : List Poly), ∃ E Q : Poly, E.length = N ∧ Q.length = N ∧
        normInf E ≤ (1 + snorm (min (L.length - 1) s.length) s) * normTolOff (rb * rs) (ab * S) off ∧
        ((2 ^ (ab * S + (-off).toNat) : Int) : Ks.R N) * Ks.ι N (valP rb N (phase s (Ks.mkCt rb N cs)))
          = ((2 ^ (rb * rs) * 2 ^ off.toNat : Int) : Ks.R N) * Ks.ι N (valP ab N (phase s (Ks.mkCt ab N L))) + Ks.ι N E
            + ((2 ^ (rb * rs + (ab * S + (-off).toNat)) : Int) : Ks.R N) * Ks.ι N Q := by
  obtain ⟨cs, h1, h2, h3, h4, _, h5⟩ := norm_stage_off big128 N rb rs ab S off H L hrb1 hrb hab1 hab hH0 hH hne hwf hb
  refine ⟨cs, h1, h2, h3, h4, ?_⟩
  intro s
  exact coeff_to_ring N hN _ _ rb ab _ _ _ _ (fun t ht => by
    obtain ⟨q, e, he, hb'⟩ := h5 s t ht
    exact ⟨q, e, he, hb'⟩)

end Core
