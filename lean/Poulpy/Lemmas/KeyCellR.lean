/-
Key generation as encryption, part 2: the exact phase of one cell as an identity in `R N = ℤ[X]/(X^N+1)`, plaintext in any column.
-/
import Poulpy.Lemmas.KeyCell
import Poulpy.Lemmas.KsNoise
import Poulpy.Lemmas.CoreEncDec

namespace CoreEnc
open NormL Ks

/-- `ι` of `acc + Σ sᵢ ⋆ vᵢ` -/
theorem ι_linComb (n : Nat) (hn : 0 < n) : ∀ (sk vs : List Poly) (acc : Poly), acc.length = n → (∀ v ∈ vs, v.length = n) →
    ι n (linComb sk vs acc) = ι n acc + (List.zipWith (fun s v => ι n s * ι n v) sk vs).sum := by
  intro sk
  induction sk with
  | nil => intro vs acc _ _; cases vs <;> simp [linComb]
  | cons s ss ih =>
    intro vs acc h hv
    cases vs with
    | nil => simp [linComb]
    | cons v vs =>
      simp only [linComb, List.zipWith_cons_cons, List.sum_cons]
      rw [ih vs _ (by simp [h, Hal.negMul_length, hv v (by simp)]) (fun x hx => hv x (by simp [hx])),
        ι_add n _ _ (by rw [h, Hal.negMul_length, hv v (by simp)]), ι_negMul n _ _ (hv v (by simp)) hn]
      ring

/-- replacing the column of loop index `col` changes the weighted sum by the difference at that column -/
theorem zipSum_repl {R : Type} [CommRing R] (g : Poly → Col → R) (f : Col → Col) (col : Nat) :
    ∀ (masks : List Col) (sk : List Poly) (i : Nat), masks.length = sk.length → i ≤ col → col < i + masks.length →
      (List.zipWith g sk masks).sum
        = (List.zipWith g sk (replCol f i col masks)).sum + g (sk.getD (col - i) []) (masks.getD (col - i) [])
          - g (sk.getD (col - i) []) (f (masks.getD (col - i) [])) := by
  intro masks
  induction masks with
  | nil => intro sk i _ h1 h2; simp at h2; omega
  | cons a as ih =>
    intro sk i hl h1 h2
    cases sk with
    | nil => simp at hl
    | cons s ss =>
      simp only [replCol, List.zipWith_cons_cons, List.sum_cons]
      by_cases hc : i = col
      · subst hc
        have hrest : ∀ (l : List Col) (j : Nat), i < j → replCol f j i l = l := by
          intro l
          induction l with
          | nil => intro j _; rfl
          | cons x xs ihx => intro j hj; simp only [replCol]; rw [if_neg (by omega), ihx (j + 1) (by omega)]
        simp only [if_true, Nat.sub_self, List.getD_cons_zero, hrest as (i + 1) (by omega)]
        ring
      · have e : col - i = (col - (i + 1)) + 1 := by omega
        rw [if_neg hc, ih ss (i + 1) (by simpa using hl) (by omega) (by simp at h2; omega), e]
        simp only [List.getD_cons_succ]
        ring

theorem replCol_forall (P : Col → Prop) (f : Col → Col) : ∀ (masks : List Col) (i col : Nat),
    (∀ a ∈ masks, P a) → (∀ a ∈ masks, P (f a)) → ∀ a ∈ replCol f i col masks, P a := by
  intro masks
  induction masks with
  | nil => intro i col _ _ a ha; simp [replCol] at ha
  | cons x xs ih =>
    intro i col h1 h2 a ha
    simp only [replCol, List.mem_cons] at ha
    rcases ha with rfl | ha
    · split
      · exact h2 x (by simp)
      · exact h1 x (by simp)
    · exact ih (i + 1) col (fun y hy => h1 y (by simp [hy])) (fun y hy => h2 y (by simp [hy])) a ha

theorem glweEncryptSk_body {bits b k n size kxe : Nat} {masks : List Col} {m : Option Col} {ptB : Nat} {sk : List Poly} {e : Poly}
    {body : Col} (h : Core.glweEncryptSk bits b k n size kxe masks m ptB sk e = some { base2k := b, k := k, n := n, cols := body :: masks }) :
    Core.encryptSkBody bits b n size kxe masks (m.map (fun p => (p, 0))) sk e = some body := by
  unfold Core.glweEncryptSk at h
  split at h
  · simp at h
  · split at h
    · simp at h
    · cases hb : Core.encryptSkBody bits b n size kxe masks (m.map (fun p => (p, 0))) sk e with
      | none => simp [hb] at h
      | some bd =>
        simp only [hb, Option.some.injEq, Core.GLWE.mk.injEq, List.cons.injEq, and_true, true_and] at h
        rw [h]

theorem fitCol_same (n size : Nat) (p : Col) (h : p.length = size) : fitCol n size p = p := by
  unfold fitCol
  rw [List.take_of_length_le (le_of_eq h), h, Nat.sub_self]
  simp

/-- coefficient-wise congruence → identity in `R n` -/
theorem ι_of_cong {n : Nat} {M : Int} (hM : M ≠ 0) (p q : Poly) (hp : p.length = n) (hq : q.length = n)
    (h : ∀ t, t < n → ∃ k : Int, p.getD t 0 = q.getD t 0 + k * M) :
    ∃ K : Poly, K.length = n ∧ ι n p = ι n q + (M : R n) * ι n K := by
  obtain ⟨K, hK, e⟩ := cong_poly hM p q hp hq h
  refine ⟨K, hK, ?_⟩
  rw [e, ι_add n _ _ (by simp [Hal.polyScale, hq, hK]), ι_polyScale]

section cell
variable {bits b n size kxe : Nat} {H E : Int}

/-- **one cell of a key, plaintext in any column** (`glwe_encrypt_sk_internal(…, Some((pt, col)), …)` on given masks): the call returns a
normalised body, and in `R n = ℤ[X]/(X^n+1)` the value of the exact phase `body + Σ sᵢ⋆aᵢ` is
`σ_col · val(pt) + 2^(b(size−1−limb)) · e + 2^(b·size) · KL` with `σ_0 = 1`, `σ_col = s_{col−1}`: the plaintext multiplied by the secret of
the column it was inserted in, the error on its limb, and an explicit multiple of the modulus. -/
theorem cell_phase_R (hbits : bits = 64 ∨ bits = 128) (hr : HeadRoom bits b 0 H) (hb1 : 1 ≤ b) (hb : b ≤ 61)
    (hk : 1 ≤ kxe) (hlimb : errLimb kxe b < size) (hn : 0 < n)
    (masks : List Col) (sk : List Poly) (p : Col) (col : Nat) (e : Poly)
    (hlen : masks.length = sk.length) (hcol : col ≤ masks.length)
    (hmasks : ∀ a ∈ masks, a.length = size ∧ WF n a ∧ Bounded (2 ^ (b - 1)) a)
    (hpl : p.length = size) (hpw : WF n p) (hpb : Bounded (2 ^ (b - 1)) p)
    (hsk : ∀ s ∈ sk, norm1 s * 2 ^ (b - 1) ≤ H)
    (he : e.length = n) (hE0 : 0 ≤ E) (heB : ∀ x ∈ e, |x| ≤ E)
    (hsum : (masks.length : Int) * 2 ^ (b - 1) + E + 2 ^ (b - 1) ≤ 2 ^ 62) :
    ∃ body KL, Core.encryptSkBody bits b n size kxe masks (some (p, col)) sk e = some body ∧
      body.length = size ∧ WF n body ∧ Bounded (2 ^ (b - 1)) body ∧ KL.length = n ∧
      ι n (valPoly b n (phaseFold sk masks body))
        = (if col = 0 then 1 else ι n (sk.getD (col - 1) [])) * ι n (valPoly b n p)
          + (((2 : Int) ^ (b * (size - 1 - errLimb kxe b)) : Int) : R n) * ι n e
          + (((2 : Int) ^ (b * size) : Int) : R n) * ι n KL := by
  have hP0 : (0 : Int) ≤ 2 ^ (b - 1) := le_of_lt (two_pow_pos _)
  have hM : ((2 : Int) ^ (b * size)) ≠ 0 := pow_ne_zero _ (by norm_num)
  have hmw : ∀ a ∈ masks, a.length = size ∧ WF n a := fun a ha => ⟨(hmasks a ha).1, (hmasks a ha).2.1⟩
  by_cases hc : col = 0
  · subst hc
    obtain ⟨body, h1, h2, h3, h4, h5⟩ := encryptSk_phase (k := 0) (M := 2 ^ (b - 1)) hbits hr hb1 hb hk hlimb masks sk (some p) e hlen hmw
      (prodBounded_of_norm masks sk (fun a ha => (hmasks a ha).2.2) hsk) b (fun _ => rfl)
      (fun q hq => by simp only [Option.some.injEq] at hq; subst hq; exact ⟨hpw, CoefBounded.of_bounded hP0 hpb⟩) hP0 he hE0 heB hsum
    have hbody := glweEncryptSk_body h1
    simp only [Option.map_some] at hbody
    obtain ⟨KL, hKL, hι⟩ := ι_of_cong (n := n) hM (valPoly b n (phaseFold sk masks body))
      (Hal.polyAdd (valPoly b n p) (Hal.polyScale (2 ^ (b * (size - 1 - errLimb kxe b))) e)) (by simp) (by simp [Hal.polyScale, he])
      (by
        intro t ht
        obtain ⟨K, hK⟩ := h5 t ht
        refine ⟨K, ?_⟩
        rw [valPoly_getD b n _ t ht, polyAdd_getD _ _ n t (by simp) (by simp [Hal.polyScale, he]), valPoly_getD b n _ t ht, polyScale_getD,
          ← phaseBig_eq_fold sk b 0 n body masks hlen, ← valCoeff_eq, hK]
        simp only [msgCoeff, fitCol_same n size p hpl, valCoeff_eq]
        ring)
    refine ⟨body, KL, hbody, h2, h3, h4, hKL, ?_⟩
    rw [hι, ι_add n _ _ (by simp [Hal.polyScale, he]), ι_polyScale]
    simp
  · -- plaintext in a mask column
    have hcol1 : 1 ≤ col := by omega
    set f := srcOf b n size p with hf
    set masks' := replCol f 1 col masks with hm'
    have hsrc : ∀ a ∈ masks, (f a).length = size ∧ WF n (f a) ∧ Bounded (2 ^ (b - 1)) (f a) := by
      intro a ha
      obtain ⟨s1, s2, s3, _⟩ := srcOf_spec hb1 hb a p (hmasks a ha).1 hpl (hmasks a ha).2.1 hpw (2 ^ (b - 1)) (2 ^ (b - 1))
        (CoefBounded.of_bounded hP0 (hmasks a ha).2.2) (CoefBounded.of_bounded hP0 hpb)
        (by
          have : (2 : Int) ^ (b - 1) ≤ 2 ^ 60 := pow_le_pow_right₀ (by norm_num) (by omega)
          norm_num at this ⊢; linarith)
      exact ⟨s1, s2, s3⟩
    have hmasks' : ∀ a ∈ masks', a.length = size ∧ WF n a ∧ Bounded (2 ^ (b - 1)) a :=
      replCol_forall (fun a => a.length = size ∧ WF n a ∧ Bounded (2 ^ (b - 1)) a) f masks 1 col hmasks hsrc
    have hlen' : masks'.length = sk.length := by rw [hm', replCol_length, hlen]
    obtain ⟨body, h1, h2, h3, h4, h5⟩ := encryptSk_phase (k := 0) (M := 0) hbits hr hb1 hb hk hlimb masks' sk none e hlen'
      (fun a ha => ⟨(hmasks' a ha).1, (hmasks' a ha).2.1⟩)
      (prodBounded_of_norm masks' sk (fun a ha => (hmasks' a ha).2.2) hsk) b (fun h => by simp at h)
      (fun q hq => by simp at hq) (le_refl 0) he hE0 heB
      (by rw [hm', replCol_length]; linarith)
    have hbody := glweEncryptSk_body h1
    simp only [Option.map_none] at hbody
    rw [← encryptSkBody_col bits b n size kxe masks p col hc sk e] at hbody
    -- the phase with the modified masks
    obtain ⟨K1, hK1, hι1⟩ := ι_of_cong (n := n) hM (valPoly b n (phaseFold sk masks' body))
      (Hal.polyScale (2 ^ (b * (size - 1 - errLimb kxe b))) e) (by simp) (by simp [Hal.polyScale, he])
      (by
        intro t ht
        obtain ⟨K, hK⟩ := h5 t ht
        refine ⟨K, ?_⟩
        rw [valPoly_getD b n _ t ht, polyScale_getD, ← phaseBig_eq_fold sk b 0 n body masks' hlen', ← valCoeff_eq, hK]
        simp only [msgCoeff]
        ring)
    -- the replaced column
    have hj : col - 1 < masks.length := by omega
    set a := masks.getD (col - 1) [] with haj
    have hamem : a ∈ masks := by
      rw [haj, List.getD_eq_getElem?_getD, List.getElem?_eq_getElem hj]; exact List.getElem_mem hj
    obtain ⟨_, _, _, s4⟩ := srcOf_spec hb1 hb a p (hmasks a hamem).1 hpl (hmasks a hamem).2.1 hpw (2 ^ (b - 1)) (2 ^ (b - 1))
      (CoefBounded.of_bounded hP0 (hmasks a hamem).2.2) (CoefBounded.of_bounded hP0 hpb)
      (by
        have : (2 : Int) ^ (b - 1) ≤ 2 ^ 60 := pow_le_pow_right₀ (by norm_num) (by omega)
        norm_num at this ⊢; linarith)
    obtain ⟨K2, hK2, hι2⟩ := ι_of_cong (n := n) hM (valPoly b n (f a))
      (Hal.polyAdd (valPoly b n a) (Hal.polyScale (-1) (valPoly b n p))) (by simp) (by simp [Hal.polyScale])
      (by
        intro t ht
        obtain ⟨K, hK⟩ := s4 t ht
        refine ⟨K, ?_⟩
        rw [valPoly_getD b n _ t ht, polyAdd_getD _ _ n t (by simp) (by simp [Hal.polyScale]), valPoly_getD b n _ t ht, polyScale_getD,
          valPoly_getD b n _ t ht, hK]
        ring)
    rw [ι_add n _ _ (by simp [Hal.polyScale]), ι_polyScale] at hι2
    -- both phases as weighted sums
    have hV : ∀ (ms : List Col), ms.length = sk.length → (∀ x ∈ ms, x.length = size ∧ WF n x) →
        ι n (valPoly b n (phaseFold sk ms body)) = ι n (valPoly b n body)
          + (List.zipWith (fun s (x : Col) => ι n s * ι n (valPoly b n x)) sk ms).sum := by
      intro ms hl hw
      rw [valPoly_phaseFold b n size sk ms body hl h2 h3 hw, ι_linComb n hn sk _ _ (by simp) (by intro v hv; simp at hv; obtain ⟨x, _, rfl⟩ := hv; simp),
        List.zipWith_map_right]
    have hsum2 := zipSum_repl (R := R n) (fun s (x : Col) => ι n s * ι n (valPoly b n x)) f col masks sk 1 hlen hcol1 (by omega)
    refine ⟨body, Hal.polyAdd K1 (Hal.polyScale (-1) (Hal.negMul (sk.getD (col - 1) []) K2)), hbody, h2, h3, h4,
      by simp [Hal.polyScale, hK1, Hal.negMul_length, hK2], ?_⟩
    rw [hV masks hlen hmw, hsum2, ← hm', ← haj]
    have hV' := hV masks' hlen' (fun x hx => ⟨(hmasks' x hx).1, (hmasks' x hx).2.1⟩)
    rw [hι1, ι_polyScale] at hV'
    rw [if_neg hc, ι_add n _ _ (by simp [Hal.polyScale, hK1, Hal.negMul_length, hK2]), ι_polyScale, ι_negMul n _ _ hK2 hn, hι2]
    have : ι n (valPoly b n body) + (List.zipWith (fun s (x : Col) => ι n s * ι n (valPoly b n x)) sk masks').sum
        = (((2 : Int) ^ (b * (size - 1 - errLimb kxe b)) : Int) : R n) * ι n e + (((2 : Int) ^ (b * size) : Int) : R n) * ι n K1 := hV'.symm
    push_cast at this ⊢
    linear_combination this

end cell

end CoreEnc
