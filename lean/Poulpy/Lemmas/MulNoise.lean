import Poulpy.Lemmas.TensorNoise
import Poulpy.Lemmas.MulCompose

/-!
The gadget terms of a relinearisation as coefficient lists (C03's `Ks.errL`, `Ks.dropL`) with their `‖·‖_∞` bounds, for key errors given
as polynomials.
-/

namespace Core
open Hal Ks Finset C02L Core.Ops KsDec

theorem mkBuf_act_limb (N cols size : Nat) (d : List Col) (hd : ∀ c ∈ d, ColWF N size c) (c l : Nat) :
    (limbOr0 N ((mkBuf N cols size d).act c) l).length = N := by
  unfold Buf.act mkBuf limbOr0
  simp only []
  rw [List.getD_eq_getElem?_getD]
  cases h : ((d.getD c []).take size)[l]? with
  | none => simp [zeroP]
  | some p =>
    simp only [Option.getD_some]
    have hp := List.mem_of_mem_take (List.mem_of_getElem? h)
    rcases getD_nil_mem d c with hc | hc
    · exact (hd _ hc).2 p hp
    · rw [hc] at hp; simp at hp

/-- **the gadget terms of a relinearisation for polynomial key errors** `E i r = ι(EL i r)`:
`Σ_i(Σ_r digit·E − dropped − β^S·head) = ι(errL) − ι(dropL) − β^S·Σ_i head_i` -/
theorem relinErr_poly (N : Nat) (hN : 0 < N) (sk : List Poly) (aD : List Col) (g : GGLWE) (EL : ℕ → ℕ → Poly) (cs : Nat)
    (hn : g.n = N) (hc0 : 0 < g.colsOut) (hM : ∀ j q, (g.toPMat.entry j q).length = N)
    (haD : ∀ c ∈ aD, ColWF N cs c) (hcs : (aD.getD 0 []).length = cs) (hEL : ∀ i r, (EL i r).length = N) :
    ∑ i ∈ range g.colsIn,
      (∑ r ∈ range g.dnum,
          Gadget.digit ((2 : R N) ^ g.base2k) g.dsize g.dnum (aD.getD 0 []).length (Ks.inLimb N (mkBuf g.n g.colsIn (aD.getD 0 []).length aD) i) r
            * ι N (EL i r)
        - Gadget.dropped ((2 : R N) ^ g.base2k) g.size g.dsize g.dnum (aD.getD 0 []).length
            (Ks.inLimb N (mkBuf g.n g.colsIn (aD.getD 0 []).length aD) i) (Ks.keyPhase N sk g.toPMat i)
        - ((2 : R N) ^ g.base2k) ^ g.size * Gadget.head ((2 : R N) ^ g.base2k) g.dsize g.dnum (aD.getD 0 []).length
            (Ks.inLimb N (mkBuf g.n g.colsIn (aD.getD 0 []).length aD) i) (Ks.keyPhase N sk g.toPMat i))
      = ι N (Ks.errL N g.base2k (mkBuf g.n g.colsIn (aD.getD 0 []).length aD) g.toKey EL)
        - ι N (Ks.dropL N g.base2k sk (mkBuf g.n g.colsIn (aD.getD 0 []).length aD) g.toKey)
        - ((2 : R N) ^ g.base2k) ^ g.size * ∑ i ∈ range g.colsIn,
            Gadget.head ((2 : R N) ^ g.base2k) g.dsize g.dnum (aD.getD 0 []).length
              (Ks.inLimb N (mkBuf g.n g.colsIn (aD.getD 0 []).length aD) i) (Ks.keyPhase N sk g.toPMat i) := by
  have hA : ∀ c l, (limbOr0 N ((mkBuf g.n g.colsIn (aD.getD 0 []).length aD).act c) l).length = N := by
    intro c l
    rw [hn, hcs]
    exact mkBuf_act_limb N g.colsIn cs aD haD c l
  have h1 : ι N (Ks.errL N g.base2k (mkBuf g.n g.colsIn (aD.getD 0 []).length aD) g.toKey EL)
      = ∑ i ∈ range g.colsIn, ∑ r ∈ range g.dnum,
          Gadget.digit ((2 : R N) ^ g.base2k) g.dsize g.dnum (aD.getD 0 []).length (Ks.inLimb N (mkBuf g.n g.colsIn (aD.getD 0 []).length aD) i) r
            * ι N (EL i r) := by
    have := Ks.ι_errL N g.base2k (mkBuf g.n g.colsIn (aD.getD 0 []).length aD) g.toKey EL hN hA hEL
    rw [Ks.radix_eq] at this
    exact this
  have h2 : ι N (Ks.dropL N g.base2k sk (mkBuf g.n g.colsIn (aD.getD 0 []).length aD) g.toKey)
      = ∑ i ∈ range g.colsIn, Gadget.dropped ((2 : R N) ^ g.base2k) g.size g.dsize g.dnum (aD.getD 0 []).length
          (Ks.inLimb N (mkBuf g.n g.colsIn (aD.getD 0 []).length aD) i) (Ks.keyPhase N sk g.toPMat i) := by
    have := Ks.ι_dropL N g.base2k sk (mkBuf g.n g.colsIn (aD.getD 0 []).length aD) g.toKey hN hc0 hM
    rw [Ks.radix_eq] at this
    exact this
  rw [h1, h2, Finset.mul_sum, ← Finset.sum_sub_distrib, ← Finset.sum_sub_distrib]

theorem mkBuf_act_normInf (N cols size : Nat) (d : List Col) (B : Int) (hB : 0 ≤ B) (hd : ∀ c ∈ d, ∀ l ∈ c, ∀ x ∈ l, |x| ≤ B) (c l : Nat) :
    normInf (limbOr0 N ((mkBuf N cols size d).act c) l) ≤ B := by
  unfold Buf.act mkBuf limbOr0
  simp only []
  rw [List.getD_eq_getElem?_getD]
  cases h : ((d.getD c []).take size)[l]? with
  | none => simp only [Option.getD_none]; rw [normInf_zeroP]; exact hB
  | some p =>
    simp only [Option.getD_some]
    have hp := List.mem_of_mem_take (List.mem_of_getElem? h)
    rcases getD_nil_mem d c with hc | hc
    · exact normInf_le_of_forall (hd _ hc p hp) hB
    · rw [hc] at hp; simp at hp

end Core
