import Poulpy.Lemmas.AutoMul
import Poulpy.Lemmas.GadgetPhase
import Poulpy.Lemmas.RingRotate
import Mathlib.Algebra.BigOperators.Intervals

/-!
# Index maps behind the LWE ↔ GLWE conversions
-/

namespace LweIdx
open Hal

/-! ### 1. coefficients of the exact negacyclic product -/

theorem coeffZ_zeros (b : Poly) (k : Int) : coeffZ id (b.map (fun _ => (0 : Int))) k = 0 := by
  have : ∀ i, (b.map (fun _ => (0 : Int))).getD i 0 = 0 := by
    intro i
    simp only [List.getD_eq_getElem?_getD, List.getElem?_map]
    cases b[i]? <;> rfl
  unfold coeffZ
  simp only [this, id]
  split <;> rfl

theorem coeffZ_mulX (p : Poly) (hp : 0 < p.length) (k : Int) :
    coeffZ id (_root_.mulX p) k = coeffZ id p (k - 1) := by
  rw [mulX_eq_rotate, rotate_coeffZ negOnZ 1 p (AutoMul.allT p) hp]

/-- extension form of the coefficient formula: `(a ⋆ b)_k = Σ_i a_i · b_{k-i}` with the
`2N`-antiperiodic extension of `b`; no hypothesis on the length of `a` -/
theorem coeffZ_negMul (a b : Poly) (hb : 0 < b.length) (k : Int) :
    coeffZ id (Hal.negMul a b) k = ∑ i ∈ Finset.range a.length, a.getD i 0 * coeffZ id b (k - (i : Int)) := by
  rw [Hal.negMul_eq]
  induction a generalizing k with
  | nil =>
    show coeffZ id (b.map (fun _ => (0 : Int))) k = _
    rw [coeffZ_zeros]; simp
  | cons a0 as ih =>
    simp only [_root_.negMul]
    rw [AutoMul.coeffZ_addL _ _ (by rw [smulL_length, _root_.mulX_length, _root_.negMul_length]),
      AutoMul.coeffZ_smulL, coeffZ_mulX _ (by rw [_root_.negMul_length]; exact hb), ih,
      List.length_cons, Finset.sum_range_succ']
    simp only [List.getD_cons_zero, List.getD_cons_succ, Nat.cast_zero, sub_zero]
    rw [add_comm]
    congr 1
    apply Finset.sum_congr rfl
    intro i _
    congr 2
    push_cast; ring

/-- the extension on the window `(-N, N)`: `b_{k-i}` for `i ≤ k`, `-b_{N+k-i}` for `k < i` -/
theorem coeffZ_sub (b : Poly) (k i : Nat) (hk : k < b.length) (hi : i < b.length) :
    coeffZ id b ((k : Int) - (i : Int))
      = if i ≤ k then b.getD (k - i) 0 else -(b.getD (b.length + k - i) 0) := by
  split
  · rename_i h
    rw [show (k : Int) - (i : Int) = ((k - i : Nat) : Int) by omega, coeffZ_of_lt id b (k - i) (by omega)]
  · rename_i h
    have hn : 0 < b.length := by omega
    have e := coeffZ_add_n negOnZ b (AutoMul.allT b) hn ((k : Int) - (i : Int))
    rw [show (k : Int) - (i : Int) + (b.length : Int) = ((b.length + k - i : Nat) : Int) by omega,
      coeffZ_of_lt id b _ (by omega)] at e
    simp only [id] at e
    rw [e]; ring

/-- **coefficient formula of the exact negacyclic product** -/
theorem coeff_negMul {N : Nat} (a b : Poly) (ha : a.length = N) (hb : b.length = N) (k : Nat) (hk : k < N) :
    (Hal.negMul a b).getD k 0 = ∑ i ∈ Finset.range N,
      (if i ≤ k then a.getD i 0 * b.getD (k - i) 0 else -(a.getD i 0 * b.getD (N + k - i) 0)) := by
  have hl : (Hal.negMul a b).length = N := by rw [Hal.negMul_length, hb]
  rw [← coeffZ_of_lt id _ k (by omega), coeffZ_negMul a b (by omega), ha]
  apply Finset.sum_congr rfl
  intro i hi
  have hi' : i < N := Finset.mem_range.mp hi
  rw [coeffZ_sub b k i (by omega) (by omega), hb]
  split <;> ring

/-- constant coefficient: `(a ⋆ b)_0 = a_0 b_0 - Σ_{0<i<N} a_i b_{N-i}` -/
theorem coeff0_negMul {N : Nat} (a b : Poly) (ha : a.length = N) (hb : b.length = N) (hN : 0 < N) :
    (Hal.negMul a b).getD 0 0
      = a.getD 0 0 * b.getD 0 0 - ∑ i ∈ Finset.range (N - 1), a.getD (i + 1) 0 * b.getD (N - (i + 1)) 0 := by
  rw [coeff_negMul a b ha hb 0 hN]
  obtain ⟨M, rfl⟩ : ∃ M, N = M + 1 := ⟨N - 1, by omega⟩
  rw [Finset.sum_range_succ']
  simp only [Nat.le_zero_eq, Nat.add_one_ne_zero, if_false, if_true, Nat.sub_zero, Nat.add_zero,
    Nat.add_sub_cancel, Finset.sum_neg_distrib]
  ring

/-! ### 2. the `σ_{-1}` embedding of an LWE secret -/

/-- `-1` is an admissible Galois element for every degree `N > 0` (`(-1) mod 2N = 2N-1`) -/
theorem galOk_neg_one {N : Nat} (hN : 0 < N) : GalOk (-1) N := by
  refine ⟨by decide, ?_⟩
  have e : ((-1 : Int) % (2 * (N : Int))).toNat = 2 * N - 1 := by
    rw [emod_shift (-1) (2 * (N : Int)) 1 (by omega) (by omega)]; omega
  rw [e]
  have h : 2 * N - 1 = (N - 1) + N := by omega
  rw [h, Nat.coprime_add_self_left]
  have h2 : N = (N - 1) + 1 := by omega
  rw [Nat.coprime_comm]
  conv_lhs => rw [h2]
  simp

/-- extension form of `σ_{-1}`: coefficient `k` of `σ_{-1} a` is coefficient `-k` of `a` -/
theorem coeffZ_σ_neg_one (a : Poly) (hn : 0 < a.length) (k : Int) :
    coeffZ id (AutoMul.σ (-1) a) k = coeffZ id a (-k) := by
  have := AutoMul.σ_coeffZ (-1) a hn (galOk_neg_one hn) (-k)
  rwa [show -k * -1 = k by ring] at this

/-- coefficients of `σ_{-1} a`: `a_0`, then `-a_{N-i}` for `0 < i < N` -/
theorem σ_neg_one_getD (a : Poly) (i : Nat) (hi : i < a.length) :
    (AutoMul.σ (-1) a).getD i 0 = if i = 0 then a.getD 0 0 else -(a.getD (a.length - i) 0) := by
  have hn : 0 < a.length := by omega
  rw [← coeffZ_of_lt id _ i (by rw [AutoMul.σ_length]; exact hi), coeffZ_σ_neg_one a hn]
  have := coeffZ_sub a 0 i hn hi
  rw [show ((0 : Nat) : Int) - (i : Int) = -(i : Int) by simp] at this
  rw [this]
  by_cases h0 : i = 0
  · subst h0; simp
  · have : ¬ i ≤ 0 := by omega
    simp [this, h0]

/-- **the LWE inner product is the constant coefficient of the GLWE product with the
`σ_{-1}`-embedded secret** -/
theorem coeff0_negMul_σ {N : Nat} (s a : Poly) (hs : s.length = N) (ha : a.length = N) (hN : 0 < N) :
    (Hal.negMul (AutoMul.σ (-1) s) a).getD 0 0 = ∑ j ∈ Finset.range N, s.getD j 0 * a.getD j 0 := by
  have hσ : (AutoMul.σ (-1) s).length = N := by rw [AutoMul.σ_length, hs]
  rw [coeff0_negMul _ a hσ ha hN, σ_neg_one_getD s 0 (by omega)]
  obtain ⟨M, rfl⟩ : ∃ M, N = M + 1 := ⟨N - 1, by omega⟩
  simp only [if_true, Nat.add_sub_cancel]
  rw [Finset.sum_range_succ' (fun j => s.getD j 0 * a.getD j 0) M]
  have e : ∀ i ∈ Finset.range M,
      (AutoMul.σ (-1) s).getD (i + 1) 0 * a.getD (M + 1 - (i + 1)) 0
        = -(s.getD ((M - 1 - i) + 1) 0 * a.getD ((M - 1 - i) + 1) 0) := by
    intro i hi
    have hi' : i < M := Finset.mem_range.mp hi
    rw [σ_neg_one_getD s (i + 1) (by omega), hs]
    have e1 : M + 1 - (i + 1) = M - 1 - i + 1 := by omega
    simp [e1]
  rw [Finset.sum_congr rfl e, Finset.sum_neg_distrib,
    Finset.sum_range_reflect (fun j => s.getD (j + 1) 0 * a.getD (j + 1) 0) M]
  ring

end LweIdx
