import Poulpy.Lemmas.AutoMul
import Poulpy.Lemmas.GadgetPhase
import Poulpy.Lemmas.RingRotate
import Mathlib.Algebra.BigOperators.Intervals

/-!
# Index maps behind the LWE ↔ GLWE conversions

Rust anchors: `poulpy-core/src/conversion/{glwe_to_lwe,lwe_to_glwe}.rs`, `keyswitching/lwe.rs`,
`api/conversion.rs::lwe_sample_extract`; model: end of `Model/Core/Ks.lean`.

1. `coeffZ_negMul`, `coeff_negMul`, `coeff0_negMul`: coefficient formula of the exact negacyclic product.
2. `σ_neg_one_getD`, `coeff0_negMul_σ`, `lwe_phase_eq`, `lweToGlwe_phase`: the LWE inner product `⟨s, a⟩` is
   the constant coefficient of `σ_{-1}(s) ⋆ a`; the embedding `Ks.lweToGlweCols` turns LWE decryption into
   "coefficient 0 of GLWE decryption under the embedded secret `σ_{-1}(pad s)`".
3. `negMul_rot`, `rot_add`, `phaseRow_rot`, `rot_neg_coeff0`, `extract_index` (+ `rot_w64_eq`,
   `glweRotate_cols`, `extract_index_glwe` for the `i64` kernels): multiplying a ciphertext by `X^{-idx}`
   moves coefficient `idx` of its phase to coefficient 0.
4. `sampleExtract_spec`, `sampleExtract_panic_iff`, `extract_phase`, `extract_at_index`: `lwe_sample_extract`.
5. `lweFromGlwe_eq`, `lweKeyswitch_eq`, `glweFromLwe_eq_same`, `glweFromLwe_eq_conv` (+ `_panic`): the
   conversions are compositions of embed / rotate / `glwe_keyswitch` / `lwe_sample_extract`.
-/

namespace LweIdx
open Hal

/-! ### 1. coefficients of the exact negacyclic product -/

theorem coeffZ_zeros (b : Poly) (k : Int) : coeffZ id (b.map (fun _ => (0 : Int))) k = 0 := by
  have : ∀ i, (b.map (fun _ => (0 : Int))).getD i 0 = 0 := by
    intro i
    simp only [List.getD_eq_getElem?_getD, List.getElem?_map]
    cases b[i]? <;> rfl
  unfold coeffZ
  simp only [this, id]
  split <;> rfl

theorem coeffZ_mulX (p : Poly) (hp : 0 < p.length) (k : Int) :
    coeffZ id (_root_.mulX p) k = coeffZ id p (k - 1) := by
  rw [mulX_eq_rotate, rotate_coeffZ negOnZ 1 p (AutoMul.allT p) hp]

/-- extension form of the coefficient formula: `(a ⋆ b)_k = Σ_i a_i · b_{k-i}` with the
`2N`-antiperiodic extension of `b`; no hypothesis on the length of `a` -/
theorem coeffZ_negMul (a b : Poly) (hb : 0 < b.length) (k : Int) :
    coeffZ id (Hal.negMul a b) k = ∑ i ∈ Finset.range a.length, a.getD i 0 * coeffZ id b (k - (i : Int)) := by
  rw [Hal.negMul_eq]
  induction a generalizing k with
  | nil =>
    show coeffZ id (b.map (fun _ => (0 : Int))) k = _
    rw [coeffZ_zeros]; simp
  | cons a0 as ih =>
    simp only [_root_.negMul]
    rw [AutoMul.coeffZ_addL _ _ (by rw [smulL_length, _root_.mulX_length, _root_.negMul_length]),
      AutoMul.coeffZ_smulL, coeffZ_mulX _ (by rw [_root_.negMul_length]; exact hb), ih,
      List.length_cons, Finset.sum_range_succ']
    simp only [List.getD_cons_zero, List.getD_cons_succ, Nat.cast_zero, sub_zero]
    rw [add_comm]
    congr 1
    apply Finset.sum_congr rfl
    intro i _
    congr 2
    push_cast; ring

/-- the extension on the window `(-N, N)`: `b_{k-i}` for `i ≤ k`, `-b_{N+k-i}` for `k < i` -/
theorem coeffZ_sub (b : Poly) (k i : Nat) (hk : k < b.length) (hi : i < b.length) :
    coeffZ id b ((k : Int) - (i : Int))
      = if i ≤ k then b.getD (k - i) 0 else -(b.getD (b.length + k - i) 0) := by
  split
  · rename_i h
    rw [show (k : Int) - (i : Int) = ((k - i : Nat) : Int) by omega, coeffZ_of_lt id b (k - i) (by omega)]
  · rename_i h
    have hn : 0 < b.length := by omega
    have e := coeffZ_add_n negOnZ b (AutoMul.allT b) hn ((k : Int) - (i : Int))
    rw [show (k : Int) - (i : Int) + (b.length : Int) = ((b.length + k - i : Nat) : Int) by omega,
      coeffZ_of_lt id b _ (by omega)] at e
    simp only [id] at e
    rw [e]; ring

/-- **coefficient formula of the exact negacyclic product** -/
theorem coeff_negMul {N : Nat} (a b : Poly) (ha : a.length = N) (hb : b.length = N) (k : Nat) (hk : k < N) :
    (Hal.negMul a b).getD k 0 = ∑ i ∈ Finset.range N,
      (if i ≤ k then a.getD i 0 * b.getD (k - i) 0 else -(a.getD i 0 * b.getD (N + k - i) 0)) := by
  have hl : (Hal.negMul a b).length = N := by rw [Hal.negMul_length, hb]
  rw [← coeffZ_of_lt id _ k (by omega), coeffZ_negMul a b (by omega), ha]
  apply Finset.sum_congr rfl
  intro i hi
  have hi' : i < N := Finset.mem_range.mp hi
  rw [coeffZ_sub b k i (by omega) (by omega), hb]
  split <;> ring

/-- constant coefficient: `(a ⋆ b)_0 = a_0 b_0 - Σ_{0<i<N} a_i b_{N-i}` -/
theorem coeff0_negMul {N : Nat} (a b : Poly) (ha : a.length = N) (hb : b.length = N) (hN : 0 < N) :
    (Hal.negMul a b).getD 0 0
      = a.getD 0 0 * b.getD 0 0 - ∑ i ∈ Finset.range (N - 1), a.getD (i + 1) 0 * b.getD (N - (i + 1)) 0 := by
  rw [coeff_negMul a b ha hb 0 hN]
  obtain ⟨M, rfl⟩ : ∃ M, N = M + 1 := ⟨N - 1, by omega⟩
  rw [Finset.sum_range_succ']
  simp only [Nat.le_zero_eq, Nat.add_one_ne_zero, if_false, if_true, Nat.sub_zero, Nat.add_zero,
    Nat.add_sub_cancel, Finset.sum_neg_distrib]
  ring

/-! ### 2. the `σ_{-1}` embedding of an LWE secret -/

/-- `-1` is an admissible Galois element for every degree `N > 0` (`(-1) mod 2N = 2N-1`) -/
theorem galOk_neg_one {N : Nat} (hN : 0 < N) : GalOk (-1) N := by
  refine ⟨by decide, ?_⟩
  have e : ((-1 : Int) % (2 * (N : Int))).toNat = 2 * N - 1 := by
    rw [emod_shift (-1) (2 * (N : Int)) 1 (by omega) (by omega)]; omega
  rw [e]
  have h : 2 * N - 1 = (N - 1) + N := by omega
  rw [h, Nat.coprime_add_self_left]
  have h2 : N = (N - 1) + 1 := by omega
  rw [Nat.coprime_comm]
  conv_lhs => rw [h2]
  simp

/-- extension form of `σ_{-1}`: coefficient `k` of `σ_{-1} a` is coefficient `-k` of `a` -/
theorem coeffZ_σ_neg_one (a : Poly) (hn : 0 < a.length) (k : Int) :
    coeffZ id (AutoMul.σ (-1) a) k = coeffZ id a (-k) := by
  have := AutoMul.σ_coeffZ (-1) a hn (galOk_neg_one hn) (-k)
  rwa [show -k * -1 = k by ring] at this

/-- coefficients of `σ_{-1} a`: `a_0`, then `-a_{N-i}` for `0 < i < N` -/
theorem σ_neg_one_getD (a : Poly) (i : Nat) (hi : i < a.length) :
    (AutoMul.σ (-1) a).getD i 0 = if i = 0 then a.getD 0 0 else -(a.getD (a.length - i) 0) := by
  have hn : 0 < a.length := by omega
  rw [← coeffZ_of_lt id _ i (by rw [AutoMul.σ_length]; exact hi), coeffZ_σ_neg_one a hn]
  have := coeffZ_sub a 0 i hn hi
  rw [show ((0 : Nat) : Int) - (i : Int) = -(i : Int) by simp] at this
  rw [this]
  by_cases h0 : i = 0
  · subst h0; simp
  · have : ¬ i ≤ 0 := by omega
    simp [this, h0]

/-- **the LWE inner product is the constant coefficient of the GLWE product with the
`σ_{-1}`-embedded secret** -/
theorem coeff0_negMul_σ {N : Nat} (s a : Poly) (hs : s.length = N) (ha : a.length = N) (hN : 0 < N) :
    (Hal.negMul (AutoMul.σ (-1) s) a).getD 0 0 = ∑ j ∈ Finset.range N, s.getD j 0 * a.getD j 0 := by
  have hσ : (AutoMul.σ (-1) s).length = N := by rw [AutoMul.σ_length, hs]
  rw [coeff0_negMul _ a hσ ha hN, σ_neg_one_getD s 0 (by omega)]
  obtain ⟨M, rfl⟩ : ∃ M, N = M + 1 := ⟨N - 1, by omega⟩
  simp only [if_true, Nat.add_sub_cancel]
  rw [Finset.sum_range_succ' (fun j => s.getD j 0 * a.getD j 0) M]
  have e : ∀ i ∈ Finset.range M,
      (AutoMul.σ (-1) s).getD (i + 1) 0 * a.getD (M + 1 - (i + 1)) 0
        = -(s.getD ((M - 1 - i) + 1) 0 * a.getD ((M - 1 - i) + 1) 0) := by
    intro i hi
    have hi' : i < M := Finset.mem_range.mp hi
    rw [σ_neg_one_getD s (i + 1) (by omega), hs]
    have e1 : M + 1 - (i + 1) = M - 1 - i + 1 := by omega
    simp [e1]
  rw [Finset.sum_congr rfl e, Finset.sum_neg_distrib,
    Finset.sum_range_reflect (fun j => s.getD (j + 1) 0 * a.getD (j + 1) 0) M]
  ring

/-! #### zero padding -/

theorem padTo_length (n : Nat) (l : Poly) : (Ks.padTo n l).length = n := by
  simp only [Ks.padTo, List.length_append, List.length_take, List.length_replicate]
  omega

theorem padTo_getD (n : Nat) (l : Poly) (j : Nat) :
    (Ks.padTo n l).getD j 0 = if j < n then l.getD j 0 else 0 := by
  simp only [Ks.padTo, List.getD_eq_getElem?_getD, List.getElem?_append, List.length_take,
    List.getElem?_take, List.getElem?_replicate]
  by_cases h1 : j < n
  · by_cases h2 : j < l.length
    · have : j < min n l.length := by omega
      simp [h1, this]
    · have : ¬ j < min n l.length := by omega
      have h3 : j - min n l.length < n - l.length := by omega
      simp [h1, this, h3, List.getElem?_eq_none (Nat.le_of_not_lt h2)]
  · have : ¬ j < min n l.length := by omega
    have h3 : ¬ j - min n l.length < n - l.length := by omega
    simp [h1, this, h3]

/-- inner product with a padded vector: only the first `n` terms survive -/
theorem sum_padTo_left {N n : Nat} (s a : Poly) (hs : s.length ≤ n) (hn : n ≤ N) :
    ∑ j ∈ Finset.range N, (Ks.padTo N s).getD j 0 * a.getD j 0
      = ∑ j ∈ Finset.range n, s.getD j 0 * a.getD j 0 := by
  have e : ∀ j ∈ Finset.range n, s.getD j 0 * a.getD j 0
      = (Ks.padTo N s).getD j 0 * a.getD j 0 := by
    intro j hj
    have h1 : j < N := by have := Finset.mem_range.mp hj; omega
    rw [padTo_getD, if_pos h1]
  rw [Finset.sum_congr rfl e]
  symm
  apply Finset.sum_subset (Finset.range_subset_range.mpr hn)
  intro j hj hj'
  have h1 : j < N := Finset.mem_range.mp hj
  have h2 : ¬ j < n := fun h => hj' (Finset.mem_range.mpr h)
  rw [padTo_getD, if_pos h1, List.getD_eq_getElem?_getD, List.getElem?_eq_none (by omega)]
  simp

/-- inner product of two padded vectors -/
theorem sum_padTo {N n : Nat} (s a : Poly) (hs : s.length ≤ n) (hn : n ≤ N) :
    ∑ j ∈ Finset.range N, (Ks.padTo N s).getD j 0 * (Ks.padTo N a).getD j 0
      = ∑ j ∈ Finset.range n, s.getD j 0 * a.getD j 0 := by
  rw [sum_padTo_left s (Ks.padTo N a) hs hn]
  apply Finset.sum_congr rfl
  intro j hj
  have h1 : j < N := by have := Finset.mem_range.mp hj; omega
  rw [padTo_getD, if_pos h1]

/-- **LWE decryption = coefficient 0 of GLWE decryption under the embedded secret**: for an LWE
sample `(b0, mask)` and secret `sLwe` of dimension `n ≤ N`, the LWE phase `b0 + ⟨mask, sLwe⟩` is the
constant coefficient of the GLWE phase of the embedded row `[pad [b0], pad mask]` under the secret
`σ_{-1}(pad sLwe)`. -/
theorem lwe_phase_eq {N n : Nat} (b0 : Int) (mask sLwe : Poly) (hN : 0 < N) (hn : n ≤ N)
    (hs : sLwe.length = n) :
    (Ks.phaseRow [AutoMul.σ (-1) (Ks.padTo N sLwe)] [Ks.padTo N [b0], Ks.padTo N mask]).getD 0 0
      = b0 + ∑ j ∈ Finset.range n, mask.getD j 0 * sLwe.getD j 0 := by
  simp only [Ks.phaseRow, List.zipWith_cons_cons, List.zipWith_nil_right, List.foldl_cons, List.foldl_nil]
  have hl : (Ks.padTo N [b0]).length
      = (Hal.negMul (AutoMul.σ (-1) (Ks.padTo N sLwe)) (Ks.padTo N mask)).length := by
    rw [Hal.negMul_length, padTo_length, padTo_length]
  rw [show Hal.polyAdd = addL from rfl, AutoMul.getD_addL _ _ hl,
    coeff0_negMul_σ _ _ (padTo_length N sLwe) (padTo_length N mask) hN,
    sum_padTo sLwe mask (by omega) hn, padTo_getD, if_pos hN]
  congr 1
  apply Finset.sum_congr rfl
  intro j _
  ring

/-- the same statement on limb `i` of the embedding `Ks.lweToGlweCols` of an LWE ciphertext: the
constant coefficient of the phase of the embedded row is `limb_0 + Σ_{j<n} limb_{j+1} · s_j` -/
theorem lweToGlwe_phase (N : Nat) (l : Ks.Lwe) (sLwe : Poly) (i : Nat) (hN : 0 < N) (hn : l.nLwe ≤ N)
    (hs : sLwe.length = l.nLwe) (hi : i < l.data.length) :
    (Ks.phaseRow [AutoMul.σ (-1) (Ks.padTo N sLwe)] ((Ks.lweToGlweCols N l).map (fun c => c.getD i []))).getD 0 0
      = (l.data.getD i []).getD 0 0
        + ∑ j ∈ Finset.range l.nLwe, (l.data.getD i []).getD (j + 1) 0 * sLwe.getD j 0 := by
  have e : (Ks.lweToGlweCols N l).map (fun c => c.getD i [])
      = [Ks.padTo N [(l.data.getD i []).getD 0 0], Ks.padTo N (((l.data.getD i []).drop 1).take l.nLwe)] := by
    simp only [Ks.lweToGlweCols, List.map_cons, List.map_nil, List.getD_eq_getElem?_getD, List.getElem?_map,
      List.getElem?_eq_getElem hi, Option.map_some, Option.getD_some]
    congr 1
    cases l.data[i] with
    | nil =>
      cases N with
      | zero => omega
      | succ M => simp [Ks.padTo, List.replicate_succ]
    | cons x t => simp
  rw [e, lwe_phase_eq _ _ sLwe hN hn hs]
  congr 1
  apply Finset.sum_congr rfl
  intro j hj
  have hj' : j < l.nLwe := Finset.mem_range.mp hj
  simp only [List.getD_eq_getElem?_getD, List.getElem?_take, List.getElem?_drop, if_pos hj', Nat.add_comm 1 j]

/-! ### 3. rotation commutes with the phase and moves coefficient `idx` to coefficient 0 -/

/-- exact multiplication by `X^k` in `ℤ[X]/(X^N+1)` -/
abbrev rotE (k : Int) (p : Poly) : Poly := znxRotateW id k p

theorem rotE_length (k : Int) (p : Poly) : (rotE k p).length = p.length := rotate_length id k p

theorem coeffZ_rotE (k : Int) (p : Poly) (hp : 0 < p.length) (j : Int) :
    coeffZ id (rotE k p) j = coeffZ id p (j - k) :=
  rotate_coeffZ negOnZ k p (AutoMul.allT p) hp j

theorem rotE_nil (k : Int) : rotE k [] = [] := by simp [rotE, znxRotateW, znxNegateW]

/-- (i) the product commutes with the rotation of its right operand (no hypothesis on `s`) -/
theorem negMul_rot (s a : Poly) (k : Int) : Hal.negMul s (rotE k a) = rotE k (Hal.negMul s a) := by
  rcases Nat.eq_zero_or_pos a.length with h0 | hn
  · have : a = [] := List.eq_nil_of_length_eq_zero h0
    subst this
    have e : Hal.negMul s [] = [] := List.eq_nil_of_length_eq_zero (by rw [Hal.negMul_length]; rfl)
    rw [rotE_nil, e, rotE_nil]
  · have hl : (Hal.negMul s a).length = a.length := Hal.negMul_length s a
    apply coeffZ_ext id
    · rw [Hal.negMul_length, rotE_length, rotE_length, hl]
    · intro j _
      rw [coeffZ_negMul s _ (by rw [rotE_length]; exact hn), coeffZ_rotE k _ (by rw [hl]; exact hn),
        coeffZ_negMul s a hn]
      apply Finset.sum_congr rfl
      intro i _
      rw [coeffZ_rotE k a hn]
      congr 2
      ring

/-- (ii) the rotation is additive -/
theorem rot_add (k : Int) (a b : Poly) (h : a.length = b.length) :
    rotE k (Hal.polyAdd a b) = Hal.polyAdd (rotE k a) (rotE k b) := by
  show rotE k (addL a b) = addL (rotE k a) (rotE k b)
  rcases Nat.eq_zero_or_pos a.length with h0 | hn
  · have ha : a = [] := List.eq_nil_of_length_eq_zero h0
    have hb : b = [] := List.eq_nil_of_length_eq_zero (by omega)
    subst ha hb
    simp [addL, rotE_nil]
  · have hl : (addL a b).length = a.length := AutoMul.addL_length' a b h
    have hr : (rotE k a).length = (rotE k b).length := by rw [rotE_length, rotE_length, h]
    apply coeffZ_ext id
    · rw [rotE_length, hl, AutoMul.addL_length' _ _ hr, rotE_length]
    · intro j _
      rw [coeffZ_rotE k _ (by rw [hl]; exact hn), AutoMul.coeffZ_addL a b h, AutoMul.coeffZ_addL _ _ hr,
        coeffZ_rotE k a hn, coeffZ_rotE k b (by omega)]

theorem rot_foldl_phase (N : Nat) (k : Int) (sk ms : List Poly) (b : Poly) (hms : Ks.AllLen N ms)
    (hb : b.length = N) :
    (List.zipWith Hal.negMul sk (ms.map (rotE k))).foldl Hal.polyAdd (rotE k b)
      = rotE k ((List.zipWith Hal.negMul sk ms).foldl Hal.polyAdd b) := by
  induction sk generalizing ms b with
  | nil => simp
  | cons s ss ih =>
    cases ms with
    | nil => simp
    | cons m mt =>
      have hm : m.length = N := hms.head
      have hsm : (Hal.negMul s m).length = N := by rw [Hal.negMul_length, hm]
      simp only [List.map_cons, List.zipWith_cons_cons, List.foldl_cons]
      rw [negMul_rot, ← rot_add k b _ (by rw [hb, hsm])]
      exact ih mt _ hms.tail (by simp [Hal.polyAdd, hb, hsm])

/-- (iii) **rotating every column of a ciphertext row rotates its phase** (same secret) -/
theorem phaseRow_rot (N : Nat) (k : Int) (sk cs : List Poly) (hcs : Ks.AllLen N cs) :
    Ks.phaseRow sk (cs.map (rotE k)) = rotE k (Ks.phaseRow sk cs) := by
  cases cs with
  | nil => simp [Ks.phaseRow, rotE_nil]
  | cons b ms =>
    simp only [List.map_cons, Ks.phaseRow]
    exact rot_foldl_phase N k sk ms b hcs.tail hcs.head

/-- (iv) multiplication by `X^{-idx}` moves coefficient `idx` to coefficient 0 -/
theorem rot_neg_coeff0 (p : Poly) (idx : Nat) (h : idx < p.length) :
    (rotE (-(idx : Int)) p).getD 0 0 = p.getD idx 0 := by
  rw [rotate_getD id _ p 0 (by omega), show ((0 : Nat) : Int) - -(idx : Int) = (idx : Int) by simp,
    coeffZ_of_lt id p idx h]

/-- more generally coefficient `j` of `X^{-idx} · p` is coefficient `j + idx` of `p` while `j + idx < N` -/
theorem rot_neg_getD (p : Poly) (idx j : Nat) (h : j + idx < p.length) :
    (rotE (-(idx : Int)) p).getD j 0 = p.getD (j + idx) 0 := by
  rw [rotate_getD id _ p j (by omega), show (j : Int) - -(idx : Int) = ((j + idx : Nat) : Int) by push_cast; ring,
    coeffZ_of_lt id p _ h]

/-- **the sample-extraction index map of `lwe_from_glwe`**: coefficient 0 of the phase of the row
rotated by `X^{-idx}` is coefficient `idx` of the phase of the row -/
theorem extract_index (N : Nat) (sk cs : List Poly) (idx : Nat) (hcs : Ks.AllLen N cs) (hne : cs ≠ [])
    (hidx : idx < N) :
    (Ks.phaseRow sk (cs.map (rotE (-(idx : Int))))).getD 0 0 = (Ks.phaseRow sk cs).getD idx 0 := by
  rw [phaseRow_rot N _ sk cs hcs]
  exact rot_neg_coeff0 _ idx (by rw [Ks.phaseRow_length N sk cs hcs hne]; exact hidx)

/-! #### the `i64` kernels `znx_rotate` / `vec_znx_rotate` / `glwe_rotate` on in-range data -/

/-- open `i64` range without `i64::MIN` (the only value whose negation wraps) -/
def InR (x : Int) : Prop := -(2 ^ 63) < x ∧ x < 2 ^ 63

theorem negate_w64_eq_id (l : Poly) (h : ∀ x ∈ l, InR x) : znxNegateW w64 l = znxNegateW id l := by
  unfold znxNegateW
  apply List.map_congr_left
  intro x hx
  have := h x hx
  unfold InR at this
  unfold w64
  simp only [id]
  omega

/-- the `i64` rotation kernel is the exact rotation when no coefficient is `i64::MIN` -/
theorem rot_w64_eq (k : Int) (p : Poly) (h : ∀ x ∈ p, InR x) : znxRotate k p = rotE k p := by
  show znxRotateW w64 k p = znxRotateW id k p
  unfold znxRotateW
  dsimp only
  rw [negate_w64_eq_id _ (fun x hx => h x (List.mem_of_mem_drop hx)),
    negate_w64_eq_id _ (fun x hx => h x (List.mem_of_mem_take hx))]

/-- `vec_znx_rotate` on a column of exactly `size` in-range limbs -/
theorem vecRotate_eq (k : Int) (n size : Nat) (c : Col) (hc : c.length = size)
    (h : ∀ p ∈ c, ∀ x ∈ p, InR x) : vecRotate k n size c = c.map (rotE k) := by
  show vecRotateW w64 k n size c = _
  unfold vecRotateW
  simp only [hc, Nat.min_self, Nat.sub_self, List.replicate_zero, List.append_nil]
  rw [← hc, List.take_length]
  exact List.map_congr_left (fun p hp => rot_w64_eq k p (h p hp))

/-- `glwe_rotate` on a rectangular in-range ciphertext: every limb of every column is rotated exactly -/
theorem glweRotate_cols (k : Int) (a : Ks.Ct) (hsz : ∀ c ∈ a.cols, c.length = a.size)
    (h : ∀ c ∈ a.cols, ∀ p ∈ c, ∀ x ∈ p, InR x) :
    (Ks.glweRotate k a).cols = a.cols.map (fun c => c.map (rotE k)) := by
  unfold Ks.glweRotate
  exact List.map_congr_left (fun c hc => vecRotate_eq k a.n a.size c (hsz c hc) (h c hc))

/-- limb `i` across the columns (the row the phase is taken of) -/
def rowAt (cols : List Col) (i : Nat) : List Poly := cols.map (fun c => c.getD i [])

theorem rowAt_map_rot (k : Int) (cols : List Col) (i : Nat) :
    rowAt (cols.map (fun c => c.map (rotE k))) i = (rowAt cols i).map (rotE k) := by
  unfold rowAt
  rw [List.map_map, List.map_map]
  apply List.map_congr_left
  intro c _
  simp only [Function.comp, List.getD_eq_getElem?_getD, List.getElem?_map]
  cases c[i]? with
  | none => simp [rotE_nil]
  | some p => rfl

theorem rowAt_allLen (N : Nat) (cols : List Col) (i : Nat) (hi : ∀ c ∈ cols, i < c.length)
    (hlen : ∀ c ∈ cols, ∀ p ∈ c, p.length = N) : Ks.AllLen N (rowAt cols i) := by
  intro p hp
  obtain ⟨c, hc, rfl⟩ := List.mem_map.mp hp
  have := hi c hc
  rw [List.getD_eq_getElem?_getD, List.getElem?_eq_getElem this, Option.getD_some]
  exact hlen c hc _ (List.getElem_mem this)

/-- **`glwe_rotate(-idx)` moves coefficient `idx` of the phase of every limb to coefficient 0**
(executable `Ks.glweRotate`, rectangular in-range ciphertext of degree `N`) -/
theorem extract_index_glwe (N : Nat) (sk : List Poly) (a : Ks.Ct) (idx i : Nat)
    (hne : a.cols ≠ []) (hsz : ∀ c ∈ a.cols, c.length = a.size) (hi : i < a.size)
    (hlen : ∀ c ∈ a.cols, ∀ p ∈ c, p.length = N) (hr : ∀ c ∈ a.cols, ∀ p ∈ c, ∀ x ∈ p, InR x)
    (hidx : idx < N) :
    (Ks.phaseRow sk (rowAt (Ks.glweRotate (-(idx : Int)) a).cols i)).getD 0 0
      = (Ks.phaseRow sk (rowAt a.cols i)).getD idx 0 := by
  rw [glweRotate_cols _ a hsz hr, rowAt_map_rot]
  apply extract_index N sk _ idx (rowAt_allLen N a.cols i (fun c hc => by rw [hsz c hc]; exact hi) hlen) _ hidx
  unfold rowAt
  simpa using hne

/-! ### 4. `lwe_sample_extract` -/

/-- the limbs `lwe_sample_extract` writes -/
def extractLimbs (rs rN : Nat) (a : Ks.Ct) : Col :=
  (List.range rs).map (fun i =>
    if i < min rs a.size then ((a.cols.getD 0 []).getD i []).take 1 ++ ((a.cols.getD 1 []).getD i []).take rN
    else List.replicate (rN + 1) 0)

/-- `lwe_sample_extract` panics exactly on its entry assertion -/
theorem sampleExtract_panic_iff (rb rs rN : Nat) (a : Ks.Ct) :
    Ks.sampleExtract rb rs rN a = .panic "assert" ↔ (rN > a.n ∨ rb ≠ a.base2k) := by
  unfold Ks.sampleExtract
  split
  · rename_i h; simp [h]
  · rename_i h; simp [h]

/-- closed form of the successful run -/
theorem sampleExtract_ok (rb rs rN : Nat) (a : Ks.Ct) (hN : rN ≤ a.n) (hb : rb = a.base2k) :
    Ks.sampleExtract rb rs rN a = .ok { base2k := rb, nLwe := rN, data := extractLimbs rs rN a } := by
  unfold Ks.sampleExtract extractLimbs
  have : ¬ (rN > a.n ∨ rb ≠ a.base2k) := by
    intro h; rcases h with h | h
    · omega
    · exact h hb
  rw [if_neg this]

theorem sampleExtract_cases (rb rs rN : Nat) (a : Ks.Ct) :
    Ks.sampleExtract rb rs rN a = .panic "assert"
      ∨ Ks.sampleExtract rb rs rN a = .ok { base2k := rb, nLwe := rN, data := extractLimbs rs rN a } := by
  by_cases h : rN > a.n ∨ rb ≠ a.base2k
  · exact Or.inl ((sampleExtract_panic_iff rb rs rN a).mpr h)
  · refine Or.inr (sampleExtract_ok rb rs rN a ?_ ?_)
    · omega
    · by_contra hb; exact h (Or.inr hb)

theorem extractLimbs_length (rs rN : Nat) (a : Ks.Ct) : (extractLimbs rs rN a).length = rs := by
  simp [extractLimbs]

theorem extractLimbs_getD (rs rN : Nat) (a : Ks.Ct) (i : Nat) (hi : i < rs) :
    (extractLimbs rs rN a).getD i []
      = if i < min rs a.size then ((a.cols.getD 0 []).getD i []).take 1 ++ ((a.cols.getD 1 []).getD i []).take rN
        else List.replicate (rN + 1) 0 := by
  simp [extractLimbs, List.getD_eq_getElem?_getD, List.getElem?_map, List.getElem?_range hi]

/-- **specification of `lwe_sample_extract`**, all shapes: metadata, limb count, the copied limbs
(`body[0]` followed by the first `rN` mask coefficients), the zero-filled limbs, and the assertion -/
theorem sampleExtract_spec (rb rs rN : Nat) (a : Ks.Ct) (l : Ks.Lwe) (h : Ks.sampleExtract rb rs rN a = .ok l) :
    l.base2k = rb ∧ l.nLwe = rN ∧ l.data.length = rs ∧ rN ≤ a.n ∧ rb = a.base2k
    ∧ (∀ i, i < min rs a.size →
        l.data.getD i [] = ((a.cols.getD 0 []).getD i []).take 1 ++ ((a.cols.getD 1 []).getD i []).take rN)
    ∧ (∀ i, min rs a.size ≤ i → i < rs → l.data.getD i [] = List.replicate (rN + 1) 0) := by
  have hg : ¬ (rN > a.n ∨ rb ≠ a.base2k) := by
    intro hg
    rw [(sampleExtract_panic_iff rb rs rN a).mpr hg] at h
    cases h
  have h1 : rN ≤ a.n := by omega
  have h2 : rb = a.base2k := by by_contra hb; exact hg (Or.inr hb)
  rw [sampleExtract_ok rb rs rN a h1 h2] at h
  injection h with h
  subst h
  refine ⟨rfl, rfl, extractLimbs_length rs rN a, h1, h2, ?_, ?_⟩
  · intro i hi
    rw [extractLimbs_getD rs rN a i (by omega), if_pos hi]
  · intro i hi1 hi2
    rw [extractLimbs_getD rs rN a i hi2, if_neg (by omega)]

/-- **phase of an extracted limb**: for a body limb `c0` and a mask limb `c1` of degree `N > 0`, the LWE
phase of `c0.take 1 ++ c1.take rN` under an LWE secret `sLwe` of dimension `rN ≤ N` is the constant
coefficient of the GLWE phase of `[c0, c1]` under the embedded secret `σ_{-1}(pad sLwe)` -/
theorem extract_phase {N rN : Nat} (c0 c1 sLwe : Poly) (h0 : c0.length = N) (h1 : c1.length = N) (hN : 0 < N)
    (hr : rN ≤ N) (hs : sLwe.length = rN) :
    (c0.take 1 ++ c1.take rN).getD 0 0
        + ∑ j ∈ Finset.range rN, (c0.take 1 ++ c1.take rN).getD (j + 1) 0 * sLwe.getD j 0
      = (Ks.phaseRow [AutoMul.σ (-1) (Ks.padTo N sLwe)] [c0, c1]).getD 0 0 := by
  simp only [Ks.phaseRow, List.zipWith_cons_cons, List.zipWith_nil_right, List.foldl_cons, List.foldl_nil]
  have hl : c0.length = (Hal.negMul (AutoMul.σ (-1) (Ks.padTo N sLwe)) c1).length := by
    rw [Hal.negMul_length, h0, h1]
  rw [show Hal.polyAdd = addL from rfl, AutoMul.getD_addL _ _ hl,
    coeff0_negMul_σ _ _ (padTo_length N sLwe) h1 hN, sum_padTo_left sLwe c1 (by omega) hr]
  have ht : (c0.take 1).length = 1 := by rw [List.length_take]; omega
  congr 1
  · cases c0 with
    | nil => simp at h0; omega
    | cons x t => simp
  · apply Finset.sum_congr rfl
    intro j hj
    have hj' : j < rN := Finset.mem_range.mp hj
    have e : (c0.take 1 ++ c1.take rN).getD (j + 1) 0 = c1.getD j 0 := by
      simp only [List.getD_eq_getElem?_getD]
      rw [List.getElem?_append_right (by omega), ht, Nat.add_sub_cancel, List.getElem?_take, if_pos hj']
    rw [e]; ring

/-- **sample extraction at index `idx`** (the list-level content of `lwe_from_glwe` between the rotation
and the extraction): rotating the row `[c0, c1]` by `X^{-idx}` and extracting gives an LWE sample whose
phase under `sLwe` is coefficient `idx` of the GLWE phase of `[c0, c1]` under `σ_{-1}(pad sLwe)` -/
theorem extract_at_index {N rN : Nat} (c0 c1 sLwe : Poly) (idx : Nat) (h0 : c0.length = N) (h1 : c1.length = N)
    (hidx : idx < N) (hr : rN ≤ N) (hs : sLwe.length = rN) :
    ((rotE (-(idx : Int)) c0).take 1 ++ (rotE (-(idx : Int)) c1).take rN).getD 0 0
        + ∑ j ∈ Finset.range rN,
            ((rotE (-(idx : Int)) c0).take 1 ++ (rotE (-(idx : Int)) c1).take rN).getD (j + 1) 0 * sLwe.getD j 0
      = (Ks.phaseRow [AutoMul.σ (-1) (Ks.padTo N sLwe)] [c0, c1]).getD idx 0 := by
  have hN : 0 < N := by omega
  have hcs : Ks.AllLen N [c0, c1] := Ks.AllLen.cons h0 (Ks.AllLen.cons h1 (fun p hp => by simp at hp))
  rw [extract_phase _ _ sLwe (by rw [rotE_length, h0]) (by rw [rotE_length, h1]) hN hr hs]
  exact extract_index N _ [c0, c1] idx hcs (by simp) hidx

/-! ### 5. structure of the conversions -/

/-- `lwe_from_glwe` = `lwe_sample_extract ∘ glwe_keyswitch ∘ glwe_rotate(-idx)` -/
theorem lweFromGlwe_eq (big : Bool) (rb rs rN : Nat) (a : Ks.Ct) (idx : Nat) (key : Ks.Key) (h : rN ≤ a.n) :
    Ks.lweFromGlwe big rb rs rN a idx key
      = Ks.obind (Ks.keyswitch big rb rs 1 (if idx = 0 then a else Ks.glweRotate (-(idx : Int)) a) key)
          (Ks.sampleExtract rb rs rN) := by
  unfold Ks.lweFromGlwe
  rw [if_neg (by omega)]

theorem lweFromGlwe_panic (big : Bool) (rb rs rN : Nat) (a : Ks.Ct) (idx : Nat) (key : Ks.Key) (h : a.n < rN) :
    Ks.lweFromGlwe big rb rs rN a idx key = .panic "assert" := by
  unfold Ks.lweFromGlwe
  rw [if_pos h]

/-- `lwe_keyswitch` = `lwe_sample_extract ∘ glwe_keyswitch ∘ embed` -/
theorem lweKeyswitch_eq (big : Bool) (n rb rs rN : Nat) (a : Ks.Lwe) (key : Ks.Key) (h1 : rN ≤ n) (h2 : a.nLwe ≤ n) :
    Ks.lweKeyswitch big n rb rs rN a key
      = Ks.obind (Ks.keyswitch big rb rs 1 (Ks.mkCt a.base2k n (Ks.lweToGlweCols n a)) key)
          (Ks.sampleExtract rb rs rN) := by
  unfold Ks.lweKeyswitch
  rw [if_neg (by omega)]

theorem lweKeyswitch_panic (big : Bool) (n rb rs rN : Nat) (a : Ks.Lwe) (key : Ks.Key) (h : n < rN ∨ n < a.nLwe) :
    Ks.lweKeyswitch big n rb rs rN a key = .panic "assert" := by
  unfold Ks.lweKeyswitch
  rw [if_pos h]

/-- `glwe_from_lwe`, same radix: `glwe_keyswitch ∘ embed` -/
theorem glweFromLwe_eq_same (big : Bool) (n rb rs rr : Nat) (lwe : Ks.Lwe) (key : Ks.Key) (h : lwe.nLwe ≤ n)
    (hb : lwe.base2k = key.base2k) :
    Ks.glweFromLwe big n rb rs rr lwe key
      = Ks.keyswitch big rb rs rr (Ks.mkCt key.base2k n (Ks.lweToGlweCols n lwe)) key := by
  unfold Ks.glweFromLwe
  rw [if_neg (by omega)]
  dsimp only
  rw [if_pos hb]
  rfl

/-- `glwe_from_lwe`, different radices: `glwe_keyswitch ∘ glwe_normalize ∘ embed` -/
theorem glweFromLwe_eq_conv (big : Bool) (n rb rs rr : Nat) (lwe : Ks.Lwe) (key : Ks.Key) (h : lwe.nLwe ≤ n)
    (hb : lwe.base2k ≠ key.base2k) :
    Ks.glweFromLwe big n rb rs rr lwe key
      = Ks.obind (Ks.glweNormalize key.base2k (Ks.divCeil (lwe.data.length * lwe.base2k) key.base2k)
            (Ks.mkCt lwe.base2k n (Ks.lweToGlweCols n lwe)))
          (fun glwe => Ks.keyswitch big rb rs rr glwe key) := by
  unfold Ks.glweFromLwe
  rw [if_neg (by omega)]
  dsimp only
  rw [if_neg hb]

theorem glweFromLwe_panic (big : Bool) (n rb rs rr : Nat) (lwe : Ks.Lwe) (key : Ks.Key) (h : n < lwe.nLwe) :
    Ks.glweFromLwe big n rb rs rr lwe key = .panic "assert" := by
  unfold Ks.glweFromLwe
  rw [if_pos h]

/-! ### 6. concrete checks (`N = 4`) -/

example : (Hal.negMul [1, 2, 3, 4] [5, -6, 7, 8]).getD 0 0 = 1 * 5 - (2 * 8 + 3 * 7 + 4 * (-6)) := by decide

example : (Hal.negMul [1, 2, 3, 4] [5, -6, 7, 8]).getD 2 0
    = (1 * 7 + 2 * (-6) + 3 * 5) - 4 * 8 := by decide

example : AutoMul.σ (-1) [1, 2, 3, 4] = [1, -4, -3, -2] := by decide

example : (Hal.negMul (AutoMul.σ (-1) [1, 2, 3, 4]) [5, -6, 7, 8]).getD 0 0
    = 1 * 5 + 2 * (-6) + 3 * 7 + 4 * 8 := by decide

example : (Ks.phaseRow [AutoMul.σ (-1) (Ks.padTo 4 [2, -3])] [Ks.padTo 4 [7], Ks.padTo 4 [5, 11]]).getD 0 0
    = 7 + (5 * 2 + 11 * (-3)) := by decide

example : rotE (-2) [1, 2, 3, 4] = [3, 4, -1, -2] := by decide

example : (rotE (-3) [1, 2, 3, 4]).getD 0 0 = 4 := by decide

example : Hal.negMul [1, 2, 3, 4] (rotE (-3) [5, -6, 7, 8]) = rotE (-3) (Hal.negMul [1, 2, 3, 4] [5, -6, 7, 8]) := by
  decide

example : (Ks.phaseRow [[1, 2, 3, 4]] ([[9, 8, 7, 6], [5, -6, 7, 8]].map (rotE (-3)))).getD 0 0
    = (Ks.phaseRow [[1, 2, 3, 4]] [[9, 8, 7, 6], [5, -6, 7, 8]]).getD 3 0 := by decide

example : extractLimbs 3 2 (Ks.mkCt 17 4 [[[1, 2, 3, 4], [5, 6, 7, 8]], [[9, 10, 11, 12], [13, 14, 15, 16]]])
    = [[1, 9, 10], [5, 13, 14], [0, 0, 0]] := by decide

example : Ks.sampleExtract 17 3 2 (Ks.mkCt 17 4 [[[1, 2, 3, 4], [5, 6, 7, 8]], [[9, 10, 11, 12], [13, 14, 15, 16]]])
    = .ok { base2k := 17, nLwe := 2, data := [[1, 9, 10], [5, 13, 14], [0, 0, 0]] } := by
  rw [sampleExtract_ok 17 3 2 _ (by decide) (by decide)]
  congr 2

example : Ks.sampleExtract 17 3 5 (Ks.mkCt 17 4 [[[1, 2, 3, 4]], [[9, 10, 11, 12]]]) = .panic "assert" :=
  (sampleExtract_panic_iff _ _ _ _).mpr (Or.inl (by decide))

end LweIdx
