import Poulpy.Lemmas.AutoMul
import Poulpy.Lemmas.GadgetPhase
import Poulpy.Lemmas.RingRotate
import Mathlib.Algebra.BigOperators.Intervals

/-!
# Index maps behind the LWE ↔ GLWE conversions
-/

namespace LweIdx
open Hal

/-! ### 1. coefficients of the exact negacyclic product -/

theorem coeffZ_zeros (b : Poly) (k : Int) : coeffZ id (b.map (fun _ => (0 : Int))) k = 0 := by
  have : ∀ i, (b.map (fun _ => (0 : Int))).getD i 0 = 0 := by
    intro i
    simp only [List.getD_eq_getElem?_getD, List.getElem?_map]
    cases b[i]? <;> rfl
  unfold coeffZ
  simp only [this, id]
  split <;> rfl

theorem coeffZ_mulX (p : Poly) (hp : 0 < p.length) (k : Int) :
    coeffZ id (_root_.mulX p) k = coeffZ id p (k - 1) := by
  rw [mulX_eq_rotate, rotate_coeffZ negOnZ 1 p (AutoMul.allT p) hp]

/-- extension form of the coefficient formula: `(a ⋆ b)_k = Σ_i a_i · b_{k-i}` with the
`2N`-antiperiodic extension of `b`; no hypothesis on the length of `a` -/
theorem coeffZ_negMul (a b : Poly) (hb : 0 < b.length) (k : Int) :
    coeffZ id (Hal.negMul a b) k = ∑ i ∈ Finset.range a.length, a.getD i 0 * coeffZ id b (k - (i : Int)) := by
  rw [Hal.negMul_eq]
  induction a generalizing k with
  | nil =>
    show coeffZ id (b.map (fun _ => (0 : Int))) k = _
    rw [coeffZ_zeros]; simp
  | cons a0 as ih =>
    simp only [_root_.negMul]
    rw [AutoMul.coeffZ_addL _ _ (by rw [smulL_length, _root_.mulX_length, _root_.negMul_length]),
      AutoMul.coeffZ_smulL, coeffZ_mulX _ (by rw [_root_.negMul_length]; exact hb), ih,
      List.length_cons, Finset.sum_range_succ']
    simp only [List.getD_cons_zero, List.getD_cons_succ, Nat.cast_zero, sub_zero]
    rw [add_comm]
    congr 1
    apply Finset.sum_congr rfl
    intro i _
    congr 2
    push_cast; ring

/-- the extension on the window `(-N, N)`: `b_{k-i}` for `i ≤ k`, `-b_{N+k-i}` for `k < i` -/
theorem coeffZ_sub (b : Poly) (k i : Nat) (hk : k < b.length) (hi : i < b.length) :
    coeffZ id b ((k : Int) - (i : Int))
      = if i ≤ k then b.getD (k - i) 0 else -(b.getD (b.length + k - i) 0) := by
  split
  · rename_i h
    rw [show (k : Int) - (i : Int) = ((k - i : Nat) : Int) by omega, coeffZ_of_lt id b (k - i) (by omega)]
  · rename_i h
    have hn : 0 < b.length := by omega
    have e := coeffZ_add_n negOnZ b (AutoMul.allT b) hn ((k : Int) - (i : Int))
    rw [show (k : Int) - (i : Int) + (b.length : Int) = ((b.length + k - i : Nat) : Int) by omega,
      coeffZ_of_lt id b _ (by omega)] at e
    simp only [id] at e
    rw [e]; ring

/-- **coefficient formula of the exact negacyclic product** -/
theorem coeff_negMul {N : Nat} (a b : Poly) (ha : a.length = N) (hb : b.length = N) (k : Nat) (hk : k < N) :
    (Hal.negMul a b).getD k 0 = ∑ i ∈ Finset.range N,
      (if i ≤ k then a.getD i 0 * b.getD (k - i) 0 else -(a.getD i 0 * b.getD (N + k - i) 0)) := by
  have hl : (Hal.negMul a b).length = N := by rw [Hal.negMul_length, hb]
  rw [← coeffZ_of_lt id _ k (by omega), coeffZ_negMul a b (by omega), ha]
  apply Finset.sum_congr rfl
  intro i hi
  have hi' : i < N := Finset.mem_range.mp hi
  rw [coeffZ_sub b k i (by omega) (by omega), hb]
  split <;> ring

/-- constant coefficient: `(a ⋆ b)_0 = a_0 b_0 - Σ_{0<i<N} a_i b_{N-i}` -/
theorem coeff0_negMul {N : Nat} (a b : Poly) (ha : a.length = N) (hb : b.length = N) (hN : 0 < N) :
    (Hal.negMul a b).getD 0 0
      = a.getD 0 0 * b.getD 0 0 - ∑ i ∈ Finset.range (N - 1), a.getD (i + 1) 0 * b.getD (N - (i + 1)) 0 := by
  rw [coeff_negMul a b ha hb 0 hN]
  obtain ⟨M, rfl⟩ : ∃ M, N = M + 1 := ⟨N - 1, by omega⟩
  rw [Finset.sum_range_succ']
  simp only [Nat.le_zero_eq, Nat.add_one_ne_zero, if_false, if_true, Nat.sub_zero, Nat.add_zero,
    Nat.add_sub_cancel, Finset.sum_neg_distrib]
  ring

end LweIdx
