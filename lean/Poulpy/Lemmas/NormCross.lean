/-
Helper lemmas for C08: the cross-radix `vec_znx_normalize` (`normalizeCrossCoef`), part 1 —
the primitives (bit extraction, rounding shift) and the invariant of the `'inner` loop.

Ghost quantities (per coefficient), with `B_a = 2^ab`:
* `p(st) = rb·(rs−1−resLimb) + (rb − resAccLeft)`: number of result bits filled so far (from the
  bottom); the next extracted digit lands at weight `2^p`;
* `T(j, c) = c + 2^lsh · valI ab (a.take j)`: everything of `a` above limb `j`, plus the carry `c` of
  limb `j`, in units of the least significant bit of limb `j−1`;
* the loop invariant  `K = valI rb res + 2^p · (aNorm + 2^aTakeLeft · T(aLimb, aCarry))`.
-/
import Poulpy.Lemmas.NormFused

namespace NormL

/-! ### primitives -/

theorem abs_le_of_two_mul_le {x : Int} {n : Nat} (h : 2 * |x| ≤ 2 ^ n + 1) (hn : 1 ≤ n) : 2 * |x| ≤ 2 ^ n := by
  have h2 := two_pow_succ_pred hn
  omega

/-- bit extraction `znx_extract_digit_addmul(w, scale, r, src)`: exact under the loop's bounds -/
theorem crossExtract_spec {bits : Nat} (hbits : bits = 64 ∨ bits = 128) {w scale rb : Nat} (hw : 1 ≤ w)
    (hwb : w + scale ≤ rb) (hrb : rb ≤ 62) {r src : Int} (hr : |r| ≤ 2 ^ scale - 1) (hsrc : |src| ≤ 2 ^ (bits - 2)) :
    (crossExtract bits w scale r src).1 = r + bmod w src * 2 ^ scale ∧
    (crossExtract bits w scale r src).2 = bcarry w src ∧
    |r + bmod w src * 2 ^ scale| ≤ 2 ^ (scale + w) - 1 := by
  have hw62 : w ≤ 62 := by omega
  have hwbits : w ≤ bits := by rcases hbits with h | h <;> omega
  have hbits1 : 1 ≤ bits := by rcases hbits with h | h <;> omega
  have hd := bmod_abs_le hw src
  have hdr := bmod_range hw src
  have hp61 : (2 : Int) ^ (w - 1) ≤ 2 ^ 61 := two_pow_le (by omega)
  have hS := two_pow_pos scale
  have e1 : (2 : Int) ^ (scale + w) = 2 ^ scale * 2 ^ w := by rw [pow_add]
  have e2 := half_le_full hw
  have hsw : (2 : Int) ^ (scale + w) ≤ 2 ^ 62 := two_pow_le (by omega)
  -- |d·2^scale| ≤ 2^(w-1)·2^scale
  have hds : |bmod w src * 2 ^ scale| ≤ 2 ^ (w - 1) * 2 ^ scale := by
    rw [abs_mul, abs_of_pos hS]; exact mul_le_mul_of_nonneg_right hd (le_of_lt hS)
  have hsum : |r + bmod w src * 2 ^ scale| ≤ 2 ^ (scale + w) - 1 := by
    have := abs_add_le r (bmod w src * 2 ^ scale)
    have hp1 : (1 : Int) ≤ 2 ^ (w - 1) := by
      have := two_pow_le (Nat.zero_le (w - 1)); simpa using this
    nlinarith
  refine ⟨?_, ?_, hsum⟩
  · unfold crossExtract
    simp only
    rw [getDigitW_eq_bmod hw hwbits]
    have h1 : w64 (bmod w src) = bmod w src := w64_eq_of_abs_lt (by linarith)
    have h2 : shlW 64 (bmod w src) scale = bmod w src * 2 ^ scale := by
      unfold shlW
      have : wrapN 64 (bmod w src * 2 ^ scale) = w64 (bmod w src * 2 ^ scale) := rfl
      rw [this]
      apply w64_eq_of_abs_lt
      nlinarith
    rw [h1, h2]
    exact w64_eq_of_abs_lt (by linarith)
  · unfold crossExtract
    simp only
    rw [getDigitW_eq_bmod hw hwbits]
    apply getCarryW_eq_bcarry hbits1
    have := abs_sub src (bmod w src)
    have hb : (2 : Int) ^ (bits - 1) = 2 * 2 ^ (bits - 2) := by
      rw [← pow_succ']; congr 1; rcases hbits with h | h <;> omega
    have hb2 : (2 : Int) ^ 62 ≤ 2 ^ (bits - 2) := two_pow_le (by rcases hbits with h | h <;> omega)
    have : (2 : Int) ^ 61 < 2 ^ 62 := by norm_num
    linarith

/-- after extracting `w` of the `t` pending bits the remainder keeps the invariant `2|x| ≤ 2^t + 1` -/
theorem bcarry_pending {w t : Nat} (hw : 1 ≤ w) (hwt : w ≤ t) {x : Int} (h : 2 * |x| ≤ 2 ^ t + 1) :
    2 * |bcarry w x| ≤ 2 ^ (t - w) + 1 := by
  have h1 := bcarry_mul_le hw x
  have h2 := half_le_full hw
  have e : (2 : Int) ^ t = 2 ^ (t - w) * 2 ^ w := by rw [← pow_add]; congr 1; omega
  have hW := two_pow_pos w
  have hW2 : (2 : Int) ≤ 2 ^ w := by
    have := two_pow_le hw; simpa using this
  have hq := abs_nonneg (bcarry w x)
  have hT := two_pow_pos (t - w)
  by_contra hne
  have h3 : 2 ^ (t - w) + 2 ≤ 2 * |bcarry w x| := by omega
  -- 2^w·(2|x'|) ≤ 2|x| + 2^w ≤ 2^t + 1 + 2^w
  have h4 : 2 ^ w * (2 * |bcarry w x|) ≤ 2 ^ t + 1 + 2 ^ w := by nlinarith
  have h5 : 2 ^ w * (2 ^ (t - w) + 2) ≤ 2 ^ w * (2 * |bcarry w x|) :=
    mul_le_mul_of_nonneg_left h3 (le_of_lt hW)
  nlinarith

theorem bmod_add_bcarry' (w : Nat) (x : Int) : x = bmod w x + bcarry w x * 2 ^ w := (bmod_add_bcarry w x).symm

/-- the rounding right shift `znx_mul_power_of_two_assign(-k)` / `nfc_mul_pow2_assign(-k)`:
`x = x'·2^k + ρ` with `|ρ| ≤ 2^(k-1)`, for `|x| ≤ 2^62`, `1 ≤ k ≤ 61`. -/
theorem mulPow2Neg_spec {bits : Nat} (hbits : bits = 64 ∨ bits = 128) {k : Nat} (hk : 1 ≤ k) (hk61 : k ≤ 61)
    {x : Int} (hx : |x| ≤ 2 ^ 62) :
    ∃ ρ : Int, x = (if bits = 64 then mulPow2NegRef x k else mulPow2Neg128 x k) * 2 ^ k + ρ ∧ |ρ| ≤ 2 ^ (k - 1) := by
  have hxr := abs_le.mp hx
  have hK := two_pow_pos k
  have hK1 := two_pow_pos (k - 1)
  have e2 := half_le_full hk
  have hk61' : (2 : Int) ^ (k - 1) ≤ 2 ^ 60 := two_pow_le (by omega)
  -- common computation
  have key : ∀ s : Int, (s = 0 ∧ 0 ≤ x) ∨ (s = 1 ∧ x < 0) →
      ∃ ρ : Int, x = ((x + (2 ^ (k - 1) - s)) / 2 ^ k) * 2 ^ k + ρ ∧ |ρ| ≤ 2 ^ (k - 1) := by
    intro s hs
    have hdm := Int.emod_add_mul_ediv (x + (2 ^ (k - 1) - s)) (2 ^ k)
    have hnn := Int.emod_nonneg (x + (2 ^ (k - 1) - s)) (ne_of_gt hK)
    have hlt := Int.emod_lt_of_pos (x + (2 ^ (k - 1) - s)) hK
    refine ⟨(x + (2 ^ (k - 1) - s)) % 2 ^ k - (2 ^ (k - 1) - s), by linarith, ?_⟩
    rcases hs with ⟨rfl, _⟩ | ⟨rfl, _⟩ <;> (rw [abs_le]; constructor <;> linarith)
  rcases hbits with hb | hb
  · subst hb
    simp only [if_true]
    have hs : (sarI x 63) % 2 = (if x < 0 then 1 else 0) := by
      unfold sarI
      by_cases hneg : x < 0
      · have : x / 2 ^ 63 = -1 := by
          have : (2 : Int) ^ 63 = 9223372036854775808 := by norm_num
          omega
        rw [this, if_pos hneg]; rfl
      · have : x / 2 ^ 63 = 0 := by
          have : (2 : Int) ^ 63 = 9223372036854775808 := by norm_num
          omega
        rw [this, if_neg hneg]; rfl
    have hshl : shlW 64 1 (k - 1) = 2 ^ (k - 1) := by
      unfold shlW
      have : wrapN 64 (1 * 2 ^ (k - 1)) = w64 (1 * 2 ^ (k - 1)) := rfl
      rw [this, one_mul]
      exact w64_eq_of_abs_lt (by rw [abs_of_pos hK1]; linarith)
    unfold mulPow2NegRef
    simp only [hs, hshl]
    by_cases hneg : x < 0
    · simp only [if_pos hneg]
      have h1 : w64 (2 ^ (k - 1) - 1) = 2 ^ (k - 1) - 1 :=
        w64_eq_of_abs_lt (by rw [abs_of_nonneg (by linarith)]; linarith)
      rw [h1]
      have h2 : w64 (x + (2 ^ (k - 1) - 1)) = x + (2 ^ (k - 1) - 1) :=
        w64_eq_of_abs_lt (by rw [abs_lt]; constructor <;> linarith)
      rw [h2]
      exact key 1 (Or.inr ⟨rfl, hneg⟩)
    · simp only [if_neg hneg]
      have h1 : w64 (2 ^ (k - 1) - 0) = 2 ^ (k - 1) - 0 :=
        w64_eq_of_abs_lt (by rw [sub_zero, abs_of_pos hK1]; linarith)
      rw [h1]
      have h2 : w64 (x + (2 ^ (k - 1) - 0)) = x + (2 ^ (k - 1) - 0) :=
        w64_eq_of_abs_lt (by rw [abs_lt]; constructor <;> linarith)
      rw [h2]
      exact key 0 (Or.inl ⟨rfl, by omega⟩)
  · subst hb
    simp only [show (128 : Nat) ≠ 64 by decide, if_false]
    have hs : (sarI x 127) % 2 = (if x < 0 then 1 else 0) := by
      unfold sarI
      by_cases hneg : x < 0
      · have : x / 2 ^ 127 = -1 := by
          have : (2 : Int) ^ 127 = 170141183460469231731687303715884105728 := by norm_num
          have : (2 : Int) ^ 62 = 4611686018427387904 := by norm_num
          omega
        rw [this, if_pos hneg]; rfl
      · have : x / 2 ^ 127 = 0 := by
          have : (2 : Int) ^ 127 = 170141183460469231731687303715884105728 := by norm_num
          have : (2 : Int) ^ 62 = 4611686018427387904 := by norm_num
          omega
        rw [this, if_neg hneg]; rfl
    have h127 : (2 : Int) ^ 63 ≤ 2 ^ (128 - 1) := two_pow_le (by norm_num)
    have w128 : ∀ y : Int, |y| < 2 ^ 63 → wrapN 128 y = y := fun y hy =>
      wrapN_eq_abs (by norm_num) (by linarith)
    have hshl : shlW 128 1 (k - 1) = 2 ^ (k - 1) := by
      unfold shlW
      rw [one_mul]
      exact w128 _ (by rw [abs_of_pos hK1]; linarith)
    unfold mulPow2Neg128
    simp only [hs, hshl]
    by_cases hneg : x < 0
    · simp only [if_pos hneg]
      rw [w128 (2 ^ (k - 1) - 1) (by rw [abs_of_nonneg (by linarith)]; linarith),
        w128 (x + (2 ^ (k - 1) - 1)) (by rw [abs_lt]; constructor <;> linarith)]
      exact key 1 (Or.inr ⟨rfl, hneg⟩)
    · simp only [if_neg hneg]
      rw [w128 (2 ^ (k - 1) - 0) (by rw [sub_zero, abs_of_pos hK1]; linarith),
        w128 (x + (2 ^ (k - 1) - 0)) (by rw [abs_lt]; constructor <;> linarith)]
      exact key 0 (Or.inl ⟨rfl, by omega⟩)

/-- replacing one limb changes the value by the difference times the limb's weight -/
theorem valI_set (b : Nat) : ∀ (l : List Int) (i : Nat) (x : Int), i < l.length →
    valI b (l.set i x) = valI b l + (x - l.getD i 0) * 2 ^ (b * (l.length - 1 - i))
  | [], i, x, h => by simp at h
  | y :: rest, 0, x, _ => by
    simp only [List.set_cons_zero, valI, List.length_cons, List.getD_cons_zero, Nat.add_sub_cancel, Nat.sub_zero]
    ring
  | y :: rest, i + 1, x, h => by
    have h' : i < rest.length := by simpa using h
    simp only [List.set_cons_succ, valI, List.length_set, List.length_cons, List.getD_cons_succ,
      valI_set b rest i x h']
    have : rest.length + 1 - 1 - (i + 1) = rest.length - 1 - i := by omega
    rw [this]; ring

/-- middle step with a zero carry-in and no shift: plain digit / carry of the limb (needs only
`|x| + 2^(b-1) < 2^(bits-1)`; used for the re-normalisation of a completed result limb) -/
theorem middleStepS_zero_carry {bits b : Nat} (hbits : 1 ≤ bits) (hb : 1 ≤ b) (hbb : b ≤ bits) {x : Int}
    (hx : |x| + 2 ^ (b - 1) < 2 ^ (bits - 1)) :
    middleStepS bits b 0 x 0 = (bmod b x, bcarry b x) := by
  have hd := bmod_abs_le hb x
  have hdr := bmod_range hb x
  have hP := two_pow_pos (b - 1)
  have h1 : |x - bmod b x| < 2 ^ (bits - 1) := by
    have := abs_sub x (bmod b x); linarith
  have hco := getCarryW_eq_bcarry hbits h1
  have hdw : wrapN bits (bmod b x) = bmod b x :=
    wrapN_eq_abs hbits (by have := abs_nonneg x; linarith)
  have hdd : bmod b (bmod b x) = bmod b x := bmod_of_range hb hdr.1 hdr.2
  have hc2 : getCarryW bits b (bmod b x) (bmod b x) = 0 := by
    have h0 : wrapN bits 0 = 0 := wrapN_eq_abs hbits (by simp)
    unfold getCarryW sarI
    rw [sub_self, h0]; simp
  have hq : |bcarry b x| < 2 ^ (bits - 1) := by
    have := bcarry_two_le hb x
    have := abs_nonneg (bcarry b x)
    have := abs_nonneg x
    linarith
  unfold middleStepS
  simp only [if_true]
  simp only [getDigitW_eq_bmod hb hbb, hco, hdw, hdd, hc2, add_zero]
  rw [wrapN_eq_abs hbits hq]

/-! ### the `'inner` loop -/

/-- number of result bits filled so far -/
def crossPos (rb rs : Nat) (st : CrossSt) : Nat := rb * (rs - 1 - st.resLimb) + (rb - st.resAccLeft)

/-- everything of `a` above limb `j` plus the carry `c` of limb `j` -/
def crossTop (ab lsh : Nat) (a : List Int) (j : Nat) (c : Int) : Int := c + 2 ^ lsh * valI ab (a.take j)

/-- the first half of the loop body: extraction of `min(a_take_left, res_acc_left)` bits -/
def crossStep1 (bits ab rb : Nat) (st : CrossSt) : CrossSt :=
  let aTake := min ab (min st.aTakeLeft st.resAccLeft)
  if aTake ≠ 0 then
    let e := crossExtract bits aTake (rb - st.resAccLeft) (st.res.getD st.resLimb 0) st.aNorm
    { st with res := st.res.set st.resLimb e.1, aNorm := e.2,
              aTakeLeft := st.aTakeLeft - aTake, resAccLeft := st.resAccLeft - aTake }
  else st

/-- the second half of the loop body: flushes / limb switches / exits -/
def crossAfter (bits rb aLimb : Nat) (st1 : CrossSt) : CrossSt × Bool :=
  if st1.resAccLeft = 0 ∨ aLimb = 0 then
    if aLimb = 0 ∧ st1.aTakeLeft = 0 then
      let aCarry := wrapN bits (st1.aCarry + st1.aNorm)
      let e : Int × Int :=
        if st1.resAccLeft ≠ 0 then
          crossExtract bits st1.resAccLeft (rb - st1.resAccLeft) (st1.res.getD st1.resLimb 0) aCarry
        else (st1.res.getD st1.resLimb 0, aCarry)
      let m := middleStepS bits rb 0 e.1 st1.resCarry
      ({ st1 with res := st1.res.set st1.resLimb (w64 m.1), aCarry := e.2,
                  resCarry := wrapN bits (m.2 + e.2), done := true }, true)
    else if st1.resLimb = 0 then
      ({ st1 with done := true }, true)
    else
      let st2 := { st1 with resAccLeft := st1.resAccLeft + rb, resLimb := st1.resLimb - 1 }
      if st2.aTakeLeft = 0 then ({ st2 with aCarry := wrapN bits (st2.aCarry + st2.aNorm) }, true)
      else (st2, false)
  else if st1.aTakeLeft = 0 then
    ({ st1 with aCarry := wrapN bits (st1.aCarry + st1.aNorm) }, true)
  else (st1, false)

/-- `crossStep1` with the machine operations replaced by their exact values (`w` bits extracted) -/
def crossStep1E (rb : Nat) (st : CrossSt) (w : Nat) : CrossSt :=
  { st with res := st.res.set st.resLimb (st.res.getD st.resLimb 0 + bmod w st.aNorm * 2 ^ (rb - st.resAccLeft)),
            aNorm := bcarry w st.aNorm, aTakeLeft := st.aTakeLeft - w, resAccLeft := st.resAccLeft - w }

theorem crossInnerBody_eq (bits ab rb aLimb : Nat) (st : CrossSt) :
    crossInnerBody bits ab rb aLimb st = crossAfter bits rb aLimb (crossStep1 bits ab rb st) := rfl

/-- the invariant at the top of the `'inner` loop (limb `aLimb` of `a` being consumed);
`K` the (rounded) total value, `q` the bit position reached when this limb is exhausted.
`pend = true`: top of the loop (both counters ≥ 1); `pend = false`: right after the extraction
(one of the two counters is 0). -/
structure CInv (ab rb rs lsh : Nat) (H : Int) (a : List Int) (K : Int) (q aLimb : Nat) (top : Bool)
    (st : CrossSt) : Prop where
  len : st.res.length = rs
  lim : st.resLimb < rs
  ral2 : st.resAccLeft ≤ rb
  atl2 : st.aTakeLeft ≤ ab
  cnt : if top then 1 ≤ st.resAccLeft ∧ 1 ≤ st.aTakeLeft else st.resAccLeft = 0 ∨ st.aTakeLeft = 0
  nd : st.done = false
  ns : st.stuck = false
  rc0 : st.resCarry = 0
  an : 2 * |st.aNorm| ≤ 2 ^ st.aTakeLeft + 1
  ac : |st.aCarry| ≤ H + 3
  cur : |st.res.getD st.resLimb 0| ≤ 2 ^ (rb - st.resAccLeft) - 1
  zer : ∀ i, i < st.resLimb → st.res.getD i 0 = 0
  lims : ∀ d ∈ st.res, |d| ≤ 2 ^ rb - 1
  pos : crossPos rb rs st + st.aTakeLeft = q
  val : K = valI rb st.res
          + 2 ^ crossPos rb rs st * (st.aNorm + 2 ^ st.aTakeLeft * crossTop ab lsh a aLimb st.aCarry)
  rlt : top = false → st.resAccLeft < rb

theorem mem_set_bound {l : List Int} {i : Nat} {x B : Int} (hl : ∀ d ∈ l, |d| ≤ B) (hx : |x| ≤ B) :
    ∀ d ∈ l.set i x, |d| ≤ B := by
  intro d hd
  rcases List.mem_or_eq_of_mem_set hd with h | h
  · exact hl d h
  · rw [h]; exact hx

theorem getD_set_self {l : List Int} {i : Nat} (x : Int) (h : i < l.length) : (l.set i x).getD i 0 = x := by
  simp [List.getD_eq_getElem?_getD, List.getElem?_set, h]

theorem getD_set_ne {l : List Int} {i j : Nat} (x : Int) (h : j ≠ i) : (l.set i x).getD j 0 = l.getD j 0 := by
  simp [List.getD_eq_getElem?_getD, List.getElem?_set, h.symm]

/-- the extraction half preserves the invariant (value, position, bounds) -/
theorem crossStep1_spec {bits ab rb rs lsh : Nat} {H K : Int} {a : List Int} {q aLimb : Nat} {st : CrossSt}
    (hbits : bits = 64 ∨ bits = 128) (hrb : rb ≤ 62) (hab : ab ≤ 62)
    (h : CInv ab rb rs lsh H a K q aLimb true st) :
    CInv ab rb rs lsh H a K q aLimb false (crossStep1 bits ab rb st) ∧
    (crossStep1 bits ab rb st).aTakeLeft < st.aTakeLeft := by
  obtain ⟨hral1, hatl1⟩ : 1 ≤ st.resAccLeft ∧ 1 ≤ st.aTakeLeft := by simpa using h.cnt
  set w := min ab (min st.aTakeLeft st.resAccLeft) with hw
  have hw1 : 1 ≤ w := by have := h.atl2; omega
  have hwa : w ≤ st.aTakeLeft := by omega
  have hwr : w ≤ st.resAccLeft := by omega
  have hwne : w ≠ 0 := by omega
  have hex := crossExtract_spec hbits (w := w) (scale := rb - st.resAccLeft) (rb := rb) hw1
    (by have := h.ral2; omega) hrb h.cur
    (src := st.aNorm) (by
      have h1 := h.an
      have h2 : (2 : Int) ^ st.aTakeLeft ≤ 2 ^ 62 := two_pow_le (by have := h.atl2; omega)
      have h3 : (2 : Int) ^ 62 ≤ 2 ^ (bits - 2) := two_pow_le (by rcases hbits with h | h <;> omega)
      have := abs_nonneg st.aNorm
      linarith)
  obtain ⟨he1, he2, he3⟩ := hex
  have hst : crossStep1 bits ab rb st = crossStep1E rb st w := by
    unfold crossStep1 crossStep1E
    simp only [← hw, hwne, ne_eq, not_false_eq_true, if_true, he1, he2]
  rw [hst]
  have hlim := h.lim
  have hlen := h.len
  have hposeq : crossPos rb rs (crossStep1E rb st w) = crossPos rb rs st + w := by
    unfold crossPos crossStep1E; simp only; have := h.ral2; omega
  unfold crossStep1E at hposeq ⊢
  refine ⟨⟨?_, hlim, ?_, ?_, ?_, h.nd, h.ns, h.rc0, ?_, h.ac, ?_, ?_, ?_, ?_, ?_, ?_⟩, ?_⟩
  · simp [hlen]
  · simp only; have := h.ral2; omega
  · simp only; have := h.atl2; omega
  · simp only [Bool.false_eq_true, if_false]; have := h.atl2; omega
  · simp only; exact bcarry_pending hw1 hwa h.an
  · simp only
    rw [getD_set_self _ (by rw [hlen]; exact hlim)]
    have : rb - st.resAccLeft + w = rb - (st.resAccLeft - w) := by have := h.ral2; omega
    rw [← this]; exact he3
  · intro i hi
    simp only at hi ⊢
    rw [getD_set_ne _ (by omega)]
    exact h.zer i hi
  · simp only
    apply mem_set_bound h.lims
    have : (2 : Int) ^ (rb - st.resAccLeft + w) ≤ 2 ^ rb := two_pow_le (by have := h.ral2; omega)
    linarith
  · rw [hposeq]; simp only; have := h.pos; omega
  · rw [hposeq]
    simp only
    rw [valI_set rb _ _ _ (by rw [hlen]; exact hlim), hlen]
    have hv := h.val
    have hx := bmod_add_bcarry' w st.aNorm
    have e1 : (2 : Int) ^ (crossPos rb rs st + w) = 2 ^ crossPos rb rs st * 2 ^ w := by rw [pow_add]
    have e2 : (2 : Int) ^ st.aTakeLeft = 2 ^ w * 2 ^ (st.aTakeLeft - w) := by rw [← pow_add]; congr 1; omega
    have e3 : (2 : Int) ^ crossPos rb rs st = 2 ^ (rb - st.resAccLeft) * 2 ^ (rb * (rs - 1 - st.resLimb)) := by
      unfold crossPos; rw [← pow_add]; congr 1; omega
    rw [hv, e1, e2]
    generalize crossTop ab lsh a aLimb st.aCarry = T
    rw [e3]
    generalize (2 : Int) ^ (rb - st.resAccLeft) = S at *
    generalize (2 : Int) ^ (rb * (rs - 1 - st.resLimb)) = W at *
    generalize (2 : Int) ^ w = P at *
    generalize (2 : Int) ^ (st.aTakeLeft - w) = Q at *
    generalize bmod w st.aNorm = d at *
    generalize bcarry w st.aNorm = c at *
    rw [hx]; ring
  · intro _; simp only; have := h.ral2; omega
  · simp only; omega

/-- exit of the `'inner` loop towards the next limb of `a` (`break 'inner`) -/
structure CCont (ab rb rs lsh : Nat) (H : Int) (a : List Int) (K : Int) (q aLimb : Nat) (st : CrossSt) : Prop where
  len : st.res.length = rs
  lim : st.resLimb < rs
  ral1 : 1 ≤ st.resAccLeft
  ral2 : st.resAccLeft ≤ rb
  nd : st.done = false
  ns : st.stuck = false
  rc0 : st.resCarry = 0
  ac : |st.aCarry| ≤ H + 4
  cur : |st.res.getD st.resLimb 0| ≤ 2 ^ (rb - st.resAccLeft) - 1
  zer : ∀ i, i < st.resLimb → st.res.getD i 0 = 0
  lims : ∀ d ∈ st.res, |d| ≤ 2 ^ rb - 1
  pos : crossPos rb rs st = q
  val : K = valI rb st.res + 2 ^ q * crossTop ab lsh a aLimb st.aCarry

/-- exit by `break 'outer` with the result completely filled -/
structure CFull (rb rs : Nat) (K : Int) (q : Nat) (st : CrossSt) : Prop where
  len : st.res.length = rs
  lims : ∀ d ∈ st.res, |d| ≤ 2 ^ rb - 1
  dn : st.done = true
  ns : st.stuck = false
  val : ∃ Z : Int, K = valI rb st.res + 2 ^ (rb * rs) * Z
  posq : rb * rs ≤ q

/-- exit by the flush of the top of `a` (`a_limb == 0 && a_take_left == 0`) -/
structure CFlush (rb rs : Nat) (H K : Int) (q : Nat) (st : CrossSt) : Prop where
  len : st.res.length = rs
  lims : ∀ d ∈ st.res, |d| ≤ 2 ^ rb - 1
  lim : st.resLimb < rs
  dn : st.done = true
  ns : st.stuck = false
  zer : ∀ i, i < st.resLimb → st.res.getD i 0 = 0
  bal : Balanced rb (st.res.getD st.resLimb 0)
  posq : q ≤ rb * (rs - st.resLimb)
  rcb : |st.resCarry| ≤ H + 6
  val : K = valI rb st.res + 2 ^ (rb * (rs - st.resLimb)) * st.resCarry
  posq2 : rb * (rs - st.resLimb) < q + rb

theorem crossTop_add (ab lsh : Nat) (a : List Int) (j : Nat) (c x : Int) :
    crossTop ab lsh a j (c + x) = x + crossTop ab lsh a j c := by unfold crossTop; ring

theorem crossTop_zero (ab lsh : Nat) (a : List Int) (c : Int) : crossTop ab lsh a 0 c = c := by
  unfold crossTop; simp [valI]

/-- the second half of the loop body -/
theorem crossAfter_spec {bits ab rb rs lsh : Nat} {H K : Int} {a : List Int} {q aLimb : Nat} {st : CrossSt}
    (hbits : bits = 64 ∨ bits = 128) (hrb1 : 1 ≤ rb) (hrb : rb ≤ 62) (hH0 : 0 ≤ H) (hH : H + 8 ≤ 2 ^ (bits - 2))
    (h : CInv ab rb rs lsh H a K q aLimb false st) :
    ((crossAfter bits rb aLimb st).2 = false →
      CInv ab rb rs lsh H a K q aLimb true (crossAfter bits rb aLimb st).1 ∧
      (crossAfter bits rb aLimb st).1.aTakeLeft = st.aTakeLeft) ∧
    ((crossAfter bits rb aLimb st).2 = true →
      (aLimb ≠ 0 ∧ CCont ab rb rs lsh H a K q aLimb (crossAfter bits rb aLimb st).1) ∨
      CFull rb rs K q (crossAfter bits rb aLimb st).1 ∨
      (aLimb = 0 ∧ CFlush rb rs H K q (crossAfter bits rb aLimb st).1)) := by
  have hcnt : st.resAccLeft = 0 ∨ st.aTakeLeft = 0 := by simpa using h.cnt
  have hbits1 : 1 ≤ bits := by rcases hbits with h | h <;> omega
  have hb1 : (2 : Int) ^ (bits - 1) = 2 * 2 ^ (bits - 2) := by
    rw [← pow_succ']; congr 1; rcases hbits with h | h <;> omega
  have hP2 := two_pow_pos (bits - 2)
  have hlen := h.len
  have hlim := h.lim
  -- the carry update `a_carry += a_norm` when the limb of `a` is exhausted
  have hcarry : st.aTakeLeft = 0 →
      wrapN bits (st.aCarry + st.aNorm) = st.aCarry + st.aNorm ∧ |st.aCarry + st.aNorm| ≤ H + 4 := by
    intro h0
    have han := h.an
    rw [h0] at han
    have h1 : |st.aNorm| ≤ 1 := by norm_num at han; omega
    have h2 : |st.aCarry + st.aNorm| ≤ H + 4 := by
      have := abs_add_le st.aCarry st.aNorm; have := h.ac; linarith
    exact ⟨wrapN_eq_abs hbits1 (by linarith), h2⟩
  have hval0 : st.aTakeLeft = 0 →
      K = valI rb st.res + 2 ^ crossPos rb rs st * crossTop ab lsh a aLimb (st.aCarry + st.aNorm) := by
    intro h0
    have hv := h.val
    rw [h0, pow_zero, one_mul] at hv
    rw [crossTop_add]; exact hv
  unfold crossAfter
  by_cases hc1 : st.resAccLeft = 0 ∨ aLimb = 0
  · rw [if_pos hc1]
    by_cases hc2 : aLimb = 0 ∧ st.aTakeLeft = 0
    · -- flush
      rw [if_pos hc2]
      obtain ⟨hal, hat⟩ := hc2
      obtain ⟨hw, hcb⟩ := hcarry hat
      refine ⟨by simp, fun _ => Or.inr (Or.inr ⟨hal, ?_⟩)⟩
      set c0 := st.aCarry + st.aNorm with hc0
      have hK : K = valI rb st.res + 2 ^ crossPos rb rs st * c0 := by
        have := hval0 hat; rwa [hal, crossTop_zero] at this
      set r := st.res.getD st.resLimb 0 with hr
      set W := (2 : Int) ^ (rb * (rs - 1 - st.resLimb)) with hW
      have hWe : (2 : Int) ^ (rb * (rs - st.resLimb)) = 2 ^ rb * W := by
        rw [hW, ← pow_add]; congr 1
        have : rs - st.resLimb = (rs - 1 - st.resLimb) + 1 := by omega
        rw [this]; ring
      -- the limb value `x` and the pending carry `c'` before the re-normalisation
      have hx : ∃ x c' : Int, (if st.resAccLeft ≠ 0 then
            crossExtract bits st.resAccLeft (rb - st.resAccLeft) r (wrapN bits c0) else (r, wrapN bits c0)) = (x, c') ∧
          |x| ≤ 2 ^ rb - 1 ∧ |c'| ≤ H + 4 ∧ K = valI rb st.res + (x - r) * W + 2 ^ rb * W * c' := by
        rw [hw]
        by_cases hr0 : st.resAccLeft = 0
        · refine ⟨r, c0, by simp [hr0], ?_, hcb, ?_⟩
          · have := h.cur; rw [hr0, Nat.sub_zero] at this; exact this
          · rw [hK]
            have : (2 : Int) ^ crossPos rb rs st = 2 ^ rb * W := by
              rw [hW, ← pow_add]; congr 1; unfold crossPos; rw [hr0]; omega
            rw [this]; ring
        · have hw1 : 1 ≤ st.resAccLeft := by omega
          obtain ⟨e1, e2, e3⟩ := crossExtract_spec hbits (w := st.resAccLeft) (scale := rb - st.resAccLeft)
            (rb := rb) hw1 (by have := h.ral2; omega) hrb h.cur (src := c0) (by linarith)
          refine ⟨r + bmod st.resAccLeft c0 * 2 ^ (rb - st.resAccLeft), bcarry st.resAccLeft c0, ?_, ?_, ?_, ?_⟩
          · rw [if_pos hr0]; exact Prod.ext e1 e2
          · have : rb - st.resAccLeft + st.resAccLeft = rb := by have := h.ral2; omega
            rw [this] at e3; exact e3
          · have := bcarry_two_le hw1 c0
            have := abs_nonneg (bcarry st.resAccLeft c0)
            linarith
          · rw [hK]
            have hS : (2 : Int) ^ crossPos rb rs st = 2 ^ (rb - st.resAccLeft) * W := by
              rw [hW, ← pow_add]; congr 1; unfold crossPos; omega
            have hS2 : (2 : Int) ^ rb = 2 ^ (rb - st.resAccLeft) * 2 ^ st.resAccLeft := by
              rw [← pow_add]; congr 1; have := h.ral2; omega
            have hd := bmod_add_bcarry' st.resAccLeft c0
            rw [hS, hS2]
            generalize (2 : Int) ^ (rb - st.resAccLeft) = S at *
            generalize (2 : Int) ^ st.resAccLeft = P at *
            generalize bmod st.resAccLeft c0 = d at *
            generalize bcarry st.resAccLeft c0 = c' at *
            rw [hd]; ring
      obtain ⟨x, c', hxe, hxb, hcb', hKx⟩ := hx
      have hrb2 := half_le_full hrb1
      have hR := two_pow_pos (rb - 1)
      have hR62 : (2 : Int) ^ rb ≤ 2 ^ 62 := two_pow_le hrb
      have h62 : (2 : Int) ^ 62 ≤ 2 ^ (bits - 2) := two_pow_le (by rcases hbits with h | h <;> omega)
      have hm := middleStepS_zero_carry (bits := bits) (b := rb) hbits1 hrb1
        (by rcases hbits with h | h <;> omega) (x := x) (by linarith)
      have hrc : |bcarry rb x| ≤ 1 := by
        have h1 := bcarry_mul_le hrb1 x
        have hq := abs_nonneg (bcarry rb x)
        by_contra hne
        have : 2 ≤ |bcarry rb x| := by omega
        have hRb := two_pow_pos rb
        nlinarith
      have hxd := bmod_add_bcarry' rb x
      have hbal := bmod_range hrb1 x
      have hw64 : w64 (bmod rb x) = bmod rb x :=
        w64_eq_of_abs_lt (by
          have := bmod_abs_le hrb1 x
          have h63 : (2:Int)^62 < 2^63 := (by norm_num)
          linarith)
      have hsum : |bcarry rb x + c'| ≤ H + 6 := by
        have := abs_add_le (bcarry rb x) c'; linarith
      have hwr : wrapN bits (bcarry rb x + c') = bcarry rb x + c' :=
        wrapN_eq_abs hbits1 (by linarith)
      simp only [h.rc0, hxe, hm, hw64, hwr]
      refine ⟨by simp [hlen], ?_, hlim, rfl, h.ns, ?_, ?_, ?_, hsum, ?_, ?_⟩
      · apply mem_set_bound h.lims
        have := bmod_abs_le hrb1 x; linarith
      · intro i hi; simp only at hi ⊢
        rw [getD_set_ne _ (by omega)]; exact h.zer i hi
      · simp only; rw [getD_set_self _ (by rw [hlen]; exact hlim)]; exact hbal
      · simp only
        have := h.pos; rw [hat] at this
        unfold crossPos at this
        have : rs - st.resLimb = (rs - 1 - st.resLimb) + 1 := by omega
        rw [this, Nat.mul_add]; have := h.ral2; omega
      · simp only
        rw [valI_set rb _ _ _ (by rw [hlen]; exact hlim), hlen, ← hr, ← hW, hWe, hKx]
        generalize bmod rb x = x1 at *
        generalize bcarry rb x = rc at *
        rw [hxd]; ring
      · simp only
        have hp := h.pos; rw [hat] at hp
        have hrl := h.rlt rfl
        unfold crossPos at hp
        have : rs - st.resLimb = (rs - 1 - st.resLimb) + 1 := by omega
        rw [this, Nat.mul_add]; omega
    · rw [if_neg hc2]
      have hral0 : st.resAccLeft = 0 := by
        rcases hcnt with h0 | h0
        · exact h0
        · rcases hc1 with h1 | h1
          · exact h1
          · exact absurd ⟨h1, h0⟩ hc2
      by_cases hc3 : st.resLimb = 0
      · -- result completely filled
        rw [if_pos hc3]
        have hcp : crossPos rb rs st = rb * rs := by
          unfold crossPos; rw [hral0, hc3]
          have h3 : rb * rs = rb * (rs - 1) + rb := by
            conv_lhs => rw [show rs = (rs - 1) + 1 by omega]
            rw [Nat.mul_add, Nat.mul_one]
          simp only [Nat.sub_zero]; omega
        refine ⟨by simp, fun _ => Or.inr (Or.inl ⟨hlen, h.lims, rfl, h.ns, ?_, by have := h.pos; omega⟩)⟩
        refine ⟨st.aNorm + 2 ^ st.aTakeLeft * crossTop ab lsh a aLimb st.aCarry, ?_⟩
        have hv := h.val
        have : crossPos rb rs st = rb * rs := by
          unfold crossPos; rw [hral0, hc3]
          have h3 : rb * rs = rb * (rs - 1) + rb := by
            conv_lhs => rw [show rs = (rs - 1) + 1 by omega]
            rw [Nat.mul_add, Nat.mul_one]
          simp only [Nat.sub_zero]; omega
        rw [this] at hv; exact hv
      · -- next result limb
        rw [if_neg hc3]
        have hpos2 : crossPos rb rs { st with resAccLeft := st.resAccLeft + rb, resLimb := st.resLimb - 1 }
            = crossPos rb rs st := by
          unfold crossPos; simp only; rw [hral0]
          have : rs - 1 - (st.resLimb - 1) = (rs - 1 - st.resLimb) + 1 := by omega
          rw [this, Nat.mul_add]; omega
        have hcur2 : st.res.getD (st.resLimb - 1) 0 = 0 := h.zer _ (by omega)
        by_cases hc4 : st.aTakeLeft = 0
        · simp only [hc4, if_true]
          obtain ⟨hw, hcb⟩ := hcarry hc4
          have hne : aLimb ≠ 0 := fun h0 => hc2 ⟨h0, hc4⟩
          refine ⟨by simp, fun _ => Or.inl ⟨hne, hlen, by simp only; omega, by simp only; omega, by simp only; omega,
            h.nd, h.ns, h.rc0, ?_, ?_, ?_, h.lims, ?_, ?_⟩⟩
          · simp only; rw [hw]; exact hcb
          · simp only; rw [hcur2, hral0]; simp
          · intro i hi; simp only at hi ⊢; exact h.zer i (by omega)
          · have hp := h.pos; rw [hc4] at hp
            unfold crossPos at hpos2 hp ⊢
            simp only at hpos2 hp ⊢; omega
          · simp only; rw [hw]
            have := hval0 hc4
            have hq : crossPos rb rs st = q := by have := h.pos; omega
            rw [hq] at this; exact this
        · simp only [hc4, if_false]
          refine ⟨fun _ => ⟨⟨hlen, by simp only; omega, by simp only; omega, h.atl2, ?_, h.nd, h.ns, h.rc0, h.an, h.ac,
            ?_, ?_, h.lims, ?_, ?_, (by intro h'; cases h')⟩, trivial⟩, by simp⟩
          · simp only [if_true]; omega
          · simp only; rw [hcur2, hral0]; simp
          · intro i hi; simp only at hi ⊢; exact h.zer i (by omega)
          · rw [hpos2]; exact h.pos
          · rw [hpos2]; exact h.val
  · rw [if_neg hc1]
    have hat : st.aTakeLeft = 0 := by
      rcases hcnt with h0 | h0
      · exact absurd (Or.inl h0) hc1
      · exact h0
    simp only [hat, if_true]
    obtain ⟨hw, hcb⟩ := hcarry hat
    have hr1 : 1 ≤ st.resAccLeft := by
      have : st.resAccLeft ≠ 0 := fun h0 => hc1 (Or.inl h0)
      omega
    have hne : aLimb ≠ 0 := fun h0 => hc1 (Or.inr h0)
    refine ⟨by simp, fun _ => Or.inl ⟨hne, hlen, hlim, hr1, h.ral2, h.nd, h.ns, h.rc0, ?_, h.cur, h.zer, h.lims, ?_, ?_⟩⟩
    · simp only; rw [hw]; exact hcb
    · have := h.pos; unfold crossPos at this ⊢; simp only at this ⊢; omega
    · simp only; rw [hw]
      have := hval0 hat
      have hq : crossPos rb rs st = q := by have := h.pos; omega
      rw [hq] at this; exact this

end NormL
