import Poulpy.Lemmas.TensorAlg
import Poulpy.Lemmas.CnvAssign
import Poulpy.Lemmas.AccNormTotal
import Poulpy.Lemmas.CswapTotal

/-!
Value of the tensor of two ciphertexts on the executed model (`Core.tensorApply`): every normalised product (`cnv_apply_dft` truncated to
`dftSize` limbs + `vec_znx_big_normalize`) against the product of the operand values, the exact column arithmetic `P_ij − D_i − D_j`, and the
phase under the grouped secret `(s, s⊗s)` of `glwe_tensor_decrypt`.
-/

namespace Core
open Hal Ks Finset C02L Core.Ops KsDec

/-! ### the truncated bivariate convolution -/

theorem cnvApplyCol_take (n R F hi : Nat) (x y : Col) (h : R ≤ F) :
    Hal.cnvApplyCol n R hi x y = (Hal.cnvApplyCol n F hi x y).take R := by
  unfold Hal.cnvApplyCol
  rw [← List.map_take, List.take_range, Nat.min_eq_left h]
  apply List.map_congr_left
  intro k hk
  have hk' : k < R := List.mem_range.mp hk
  by_cases h1 : k < x.length + y.length - 1
  · rw [if_pos (by omega), if_pos (by omega)]
  · rw [if_neg (by omega), if_neg (by omega)]

/-- the explicit dropped bottom limbs `S ≤ k < F` of the full convolution -/
noncomputable def cnvDrop (N : Nat) (β : R N) (x y : Col) (hi S : Nat) : R N :=
  ∑ k ∈ Ico S (x.length + y.length - hi),
    ι N (limbOr0 N (Hal.cnvApplyCol N (x.length + y.length - hi) hi x y) k) * β ^ (x.length + y.length - hi - 1 - k)

/-- **value of the truncated accumulator** (`S = dftSize ≤ F = sa + sb − hi` limbs): rescaled, plus the dropped limbs and the skipped top
limbs, it is `β · val(x) · val(y)` -/
theorem cnvApply_trunc_value (N : Nat) (hN : 0 < N) (x y : Col) (hi S : Nat) (β : R N)
    (hx : ∀ l ∈ x, l.length = N) (hy : ∀ l ∈ y, l.length = N) (hsa : 1 ≤ x.length) (hsb : 1 ≤ y.length)
    (hhi : hi ≤ x.length + y.length - 1) (hS : S ≤ x.length + y.length - hi) :
    β ^ (x.length + y.length - hi - S) * ∑ k ∈ range S, ι N (limbOr0 N (Hal.cnvApplyCol N S hi x y) k) * β ^ (S - 1 - k)
      + cnvDrop N β x y hi S + β ^ (x.length + y.length - hi) * plainTop N β x y hi
      = β * colVal N β x * colVal N β y := by
  have h := cnvApply_column_value N hN x y hi β hx hy hsa hsb hhi
  unfold cnvDrop plainTop colVal
  rw [← h, sum_trunc_split β S (x.length + y.length - hi) hS]
  congr 3
  apply Finset.sum_congr rfl
  intro k hk
  have hk' : k < S := mem_range.mp hk
  rw [cnvApplyCol_take N S _ hi x y hS, limbOr0_take N S _ k hk']

/-! ### one normalised product against the product of the operand values -/

/-- the residual of one normalised product: rescaled rounding `e` and multiple `q` of the torus modulus, minus the dropped and the skipped
limbs of the convolution -/
noncomputable def cnvResidual (N : Nat) (β A' K M : R N) (x y : Col) (hi S : Nat) (e q : Poly) : R N :=
  A' * (ι N e + M * ι N q) - K * (cnvDrop N β x y hi S + β ^ (x.length + y.length - hi) * plainTop N β x y hi)

/-- **one `cnv_apply_dft` + `vec_znx_big_normalize`** (any radices, every offset, both widths), total form: the result `Z` exists, is
`rs × N` with digits `≤ 2^rb − 1`, and `β^{F−S}·2^{b·S+(−lo)⁺}·val(Z) = 2^{rb·rs}·2^{lo⁺}·β·val(x)·val(y) + residual`, `‖e‖_∞ ≤ normTolOff`. -/
theorem cnvNorm_value (big128 : Bool) (N rb rs b S hi : Nat) (lo : Int) (H : Int) (x y : Col) (hN : 0 < N)
    (hrb1 : 1 ≤ rb) (hrb : rb ≤ 62) (hb1 : 1 ≤ b) (hb : b ≤ 62) (hH0 : 0 ≤ H) (hH : H + 8 ≤ 2 ^ (bitsOf big128 - 2))
    (hx : ∀ l ∈ x, l.length = N) (hy : ∀ l ∈ y, l.length = N) (hsa : 1 ≤ x.length) (hsb : 1 ≤ y.length)
    (hhi : hi ≤ x.length + y.length - 1) (hS : S ≤ x.length + y.length - hi)
    (hacc : ∀ l ∈ Hal.cnvApplyCol N S hi x y, ∀ v ∈ l, |v| ≤ H) :
    ∃ Z, cnvNorm big128 N rb rs b S hi lo x y = some Z ∧ ColWF N rs Z ∧ (∀ l ∈ Z, ∀ v ∈ l, |v| ≤ 2 ^ rb - 1) ∧
      ∃ e q : Poly, e.length = N ∧ q.length = N ∧ normInf e ≤ normTolOff (rb * rs) (b * S) lo ∧
        ((2 : R N) ^ b) ^ (x.length + y.length - hi - S) * (2 : R N) ^ (b * S + (-lo).toNat) * ι N (valP rb N Z)
          = (2 : R N) ^ (rb * rs) * (2 : R N) ^ lo.toNat * ((2 : R N) ^ b) * colVal N ((2 : R N) ^ b) x * colVal N ((2 : R N) ^ b) y
            + cnvResidual N ((2 : R N) ^ b) (((2 : R N) ^ b) ^ (x.length + y.length - hi - S)) ((2 : R N) ^ (rb * rs) * (2 : R N) ^ lo.toNat)
                ((2 : R N) ^ (rb * rs + (b * S + (-lo).toNat))) x y hi S e q := by
  have hwf : ∀ c ∈ [Hal.cnvApplyCol N S hi x y], ColWF N S c := by
    intro c hc; rw [List.mem_singleton.mp hc]; exact cnvApplyCol_wf N S hi x y hy
  have hbd : ∀ c ∈ [Hal.cnvApplyCol N S hi x y], ∀ l ∈ c, ∀ v ∈ l, |v| ≤ H := by
    intro c hc; rw [List.mem_singleton.mp hc]; exact hacc
  obtain ⟨cs, h1, h2, h3, h4, h5⟩ := norm_stage_ring big128 N rb rs b S lo H [Hal.cnvApplyCol N S hi x y] hN hrb1 hrb hb1 hb hH0 hH
    (by simp) hwf hbd
  obtain ⟨Z, rfl⟩ : ∃ Z, cs = [Z] := by
    match cs, h2 with
    | [z], _ => exact ⟨z, rfl⟩
  have hZ : cnvNorm big128 N rb rs b S hi lo x y = some Z := by
    unfold cnvNorm
    simp only [List.mapM_cons, List.mapM_nil] at h1
    cases hk : bigNormalizeOff big128 N rb rs lo (Hal.cnvApplyCol N S hi x y) b with
    | none => simp [hk] at h1
    | some z => simp [hk] at h1; rw [h1]
  refine ⟨Z, hZ, h3 Z (by simp), h4 Z (by simp), ?_⟩
  obtain ⟨e, q, he, hq, hn, heq⟩ := h5 []
  have hn' : normInf e ≤ normTolOff (rb * rs) (b * S) lo := by
    have : snorm (min ([Hal.cnvApplyCol N S hi x y].length - 1) ([] : List Poly).length) [] = 0 := by simp [snorm]
    rw [this] at hn; simpa using hn
  refine ⟨e, q, he, hq, hn', ?_⟩
  have hp1 := ι_valP_phase_cols N hN rb rs [] [Z] (by simp) (fun c hc => h3 c hc)
  have hp2 := ι_valP_phase_cols N hN b S [] [Hal.cnvApplyCol N S hi x y] (by simp) hwf
  simp only [List.length_singleton, Nat.sub_self, List.length_nil, Nat.min_self, Finset.range_zero, Finset.sum_empty, add_zero,
    List.getD_cons_zero] at hp1 hp2
  rw [hp1, hp2] at heq
  push_cast at heq
  have hv := ι_valP N b (Hal.cnvApplyCol N S hi x y) (cnvApplyCol_wf N S hi x y hy).2
  rw [(cnvApplyCol_wf N S hi x y hy).1] at hv
  have ht := cnvApply_trunc_value N hN x y hi S ((2 : R N) ^ b) hx hy hsa hsb hhi hS
  unfold cnvResidual
  rw [hv] at heq
  linear_combination (((2 : R N) ^ b) ^ (x.length + y.length - hi - S)) * heq + ((2 : R N) ^ (rb * rs) * (2 : R N) ^ lo.toNat) * ht

/-! ### exact column arithmetic of the tensor -/

/-- the off-diagonal column `(−D_i − D_j) + P_ij` is exact (no wrap) for digits `≤ B`, `2·B < 2^62` (kernel digits `≤ 2^rb − 1`, `rb ≤ 61`) -/
theorem tensor_offcol {N rs : Nat} (di dj p : Col) (B : Int) (hB0 : 0 ≤ B) (hB : 2 * B < 2 ^ 62)
    (hdi : ColWF N rs di) (hdj : ColWF N rs dj) (hp : ColWF N rs p)
    (bi : ∀ l ∈ di, ∀ v ∈ l, |v| ≤ B) (bj : ∀ l ∈ dj, ∀ v ∈ l, |v| ≤ B) (bp : ∀ l ∈ p, ∀ v ∈ l, |v| ≤ B) :
    vecAddAssignW w64 (vecSubAssignW w64 (vecNegate N rs di) dj) p
      = C02L.colAdd (C02L.colAdd (di.map polyNeg) (dj.map polyNeg)) p := by
  have hB62 : B < 2 ^ 62 := by linarith
  have si := small_of_bound di B hB62 bi
  have sj := small_of_bound dj B hB62 bj
  have sp := small_of_bound p B hB62 bp
  rw [vecNegate_nf rs di si, fit_self hdi.1]
  have hn : ColWF N rs (di.map polyNeg) := neg_col_wf hdi
  have sn : ColSmall (di.map polyNeg) := small_of_bound _ B hB62 (neg_col_bound di B bi)
  rw [vecSubAssign_nf (N := N) _ dj hn.2 sn sj, hn.1, fit_self hdj.1]
  have hx : ColWF N rs (C02L.colAdd (di.map polyNeg) (dj.map polyNeg)) := colAdd_wf hn (neg_col_wf hdj)
  have bx := colAdd_bound _ _ B B (neg_col_bound di B bi) (neg_col_bound dj B bj)
  have sx : ColSmall (C02L.colAdd (di.map polyNeg) (dj.map polyNeg)) := small_of_bound _ (B + B) (by linarith) bx
  rw [vecAddAssign_nf (N := N) _ p hx.2 sx sp, hx.1, fit_self hp.1]

theorem tensor_offcol_wf {N rs : Nat} (di dj p : Col) (hdi : ColWF N rs di) (hdj : ColWF N rs dj) (hp : ColWF N rs p) :
    ColWF N rs (C02L.colAdd (C02L.colAdd (di.map polyNeg) (dj.map polyNeg)) p) :=
  colAdd_wf (colAdd_wf (neg_col_wf hdi) (neg_col_wf hdj)) hp

theorem tensor_offcol_value {N rs : Nat} (rb : Nat) (di dj p : Col) (hdi : ColWF N rs di) (hdj : ColWF N rs dj) (hp : ColWF N rs p) :
    ι N (valP rb N (C02L.colAdd (C02L.colAdd (di.map polyNeg) (dj.map polyNeg)) p))
      = ι N (valP rb N p) - ι N (valP rb N di) - ι N (valP rb N dj) := by
  rw [valP_colAdd rb (colAdd_wf (neg_col_wf hdi) (neg_col_wf hdj)) hp, ι_add N _ _ (by simp),
    valP_colAdd rb (neg_col_wf hdi) (neg_col_wf hdj), ι_add N _ _ (by simp),
    valP_map (linT_neg N) rb di hdi.2, valP_map (linT_neg N) rb dj hdj.2, ι_polyNeg, ι_polyNeg]
  ring

theorem colVal_colAdd (N : Nat) (β : R N) (x y : Col) (hl : x.length = y.length) (hx : ∀ l ∈ x, l.length = N) (hy : ∀ l ∈ y, l.length = N) :
    colVal N β (Hal.colAdd N x y) = colVal N β x + colVal N β y := by
  unfold colVal CnvValue.val
  have hlen : (Hal.colAdd N x y).length = x.length := by simp [Hal.colAdd, hl]
  rw [hlen, ← hl, ← Finset.sum_add_distrib]
  apply Finset.sum_congr rfl
  intro m hm
  have hm' : m < x.length := mem_range.mp hm
  have e : limbOr0 N (Hal.colAdd N x y) m = polyAdd (limbOr0 N x m) (limbOr0 N y m) := by
    unfold Hal.colAdd limbOr0
    rw [List.getD_eq_getElem?_getD, List.getElem?_map, List.getElem?_range (by rw [← hl]; simpa using hm')]
    rfl
  have h1 : (limbOr0 N x m).length = N := by
    unfold limbOr0; rw [List.getD_eq_getElem?_getD, List.getElem?_eq_getElem hm']; exact hx _ (List.getElem_mem hm')
  have h2 : (limbOr0 N y m).length = N := by
    have hm2 : m < y.length := by omega
    unfold limbOr0; rw [List.getD_eq_getElem?_getD, List.getElem?_eq_getElem hm2]; exact hy _ (List.getElem_mem hm2)
  show ι N (limbOr0 N (Hal.colAdd N x y) m) * _ = ι N (limbOr0 N x m) * _ + ι N (limbOr0 N y m) * _
  rw [e, ι_add N _ _ (by rw [h1, h2])]
  ring

theorem colAdd_shape (N : Nat) (x y : Col) (hl : x.length = y.length) (hx : ∀ l ∈ x, l.length = N) (hy : ∀ l ∈ y, l.length = N) :
    (Hal.colAdd N x y).length = x.length ∧ ∀ l ∈ Hal.colAdd N x y, l.length = N := by
  refine ⟨by simp [Hal.colAdd, hl], ?_⟩
  intro l hl'
  unfold Hal.colAdd at hl'
  simp only [List.mem_map, List.mem_range] at hl'
  obtain ⟨m, hm, rfl⟩ := hl'
  have hm1 : m < x.length := by rw [hl] at hm ⊢; simpa using hm
  have hm2 : m < y.length := by omega
  have h1 : (limbOr0 N x m).length = N := by
    unfold limbOr0; rw [List.getD_eq_getElem?_getD, List.getElem?_eq_getElem hm1]; exact hx _ (List.getElem_mem hm1)
  have h2 : (limbOr0 N y m).length = N := by
    unfold limbOr0; rw [List.getD_eq_getElem?_getD, List.getElem?_eq_getElem hm2]; exact hy _ (List.getElem_mem hm2)
  rw [polyAdd_length, h1, h2]; simp

/-! ### `glwe_tensor_apply`: the tensor decrypts, under the grouped secret, to the product of the two phases -/

theorem prepAll_getD (N : Nat) (m : Int) (a : List Col) (sa : Nat) (i : Nat) (hi : i < a.length)
    (ha : ∀ x ∈ a, x.length = sa ∧ ∀ l ∈ x, l.length = N) :
    ((prepAll N m a).getD i []).length = sa ∧ ∀ l ∈ (prepAll N m a).getD i [], l.length = N := by
  have e : (prepAll N m a).getD i [] = Hal.cnvPrepareCol N (a[i]).length m a[i] := by
    unfold prepAll
    simp [List.getD_eq_getElem?_getD, List.getElem?_map, List.getElem?_eq_getElem hi]
  have hm := ha _ (List.getElem_mem hi)
  rw [e]
  exact ⟨by rw [Hal.cnvPrepareCol_length]; exact hm.1, cnvPrepareCol_limbs N _ m _ hm.2⟩

/-- the dft size of the tensor forms never exceeds the full product -/
theorem limbBoundWithOffset_le (full rs rb ib : Nat) (off : Int) : limbBoundWithOffset full rs rb ib off ≤ full := by
  simp only [limbBoundWithOffset, limbBound]; exact Nat.min_le_left _ _

/-- what the tensor forms guarantee about their result `T` (masked operands `aP`, `bP` of `sa` / `sb` limbs, grouped secret `skG`,
`σ_0 = 1`, `σ_i = s_i`): shape, and `A·phase_{skG}(T) = K·β·(Σσ_i val(aP_i))·(Σσ_j val(bP_j)) + weighted residuals` -/
def TensorSpec (N rb rs off b : Nat) (a bb : List Col) (aK bK : Nat) (skG : List Poly) (σ : ℕ → R N) (sa sb cols : Nat) (T : List Col) : Prop :=
  T.length = (cols + 1) * cols / 2 ∧ (∀ c ∈ T, ColWF N rs c) ∧ (∀ c ∈ T, ∀ l ∈ c, ∀ v ∈ l, |v| ≤ 3 * (2 ^ rb - 1)) ∧
      ∃ (eD qD : ℕ → Poly) (eP qP : ℕ → ℕ → Poly),
        (∀ i, i < cols → (eD i).length = N ∧ (qD i).length = N ∧
          normInf (eD i) ≤ normTolOff (rb * rs) (b * limbBoundWithOffset (sa + sb - (cnvOffsetSplit b off).1) rs rb b (cnvOffsetSplit b off).2) (cnvOffsetSplit b off).2) ∧
        (∀ i j, i < j → j < cols → (eP i j).length = N ∧ (qP i j).length = N ∧
          normInf (eP i j) ≤ normTolOff (rb * rs) (b * limbBoundWithOffset (sa + sb - (cnvOffsetSplit b off).1) rs rb b (cnvOffsetSplit b off).2) (cnvOffsetSplit b off).2) ∧
        (((2 : R N) ^ b) ^ (sa + sb - (cnvOffsetSplit b off).1 - limbBoundWithOffset (sa + sb - (cnvOffsetSplit b off).1) rs rb b (cnvOffsetSplit b off).2)
            * (2 : R N) ^ (b * limbBoundWithOffset (sa + sb - (cnvOffsetSplit b off).1) rs rb b (cnvOffsetSplit b off).2 + (-(cnvOffsetSplit b off).2).toNat))
          * ι N (valP rb N (phase skG (Ks.mkCt rb N T)))
          = ((2 : R N) ^ (rb * rs) * (2 : R N) ^ (cnvOffsetSplit b off).2.toNat) * ((2 : R N) ^ b)
              * ((∑ i ∈ range cols, σ i * colVal N ((2 : R N) ^ b) ((prepAll N (msbMaskBottomLimb b aK) a).getD i []))
                * (∑ j ∈ range cols, σ j * colVal N ((2 : R N) ^ b) ((prepAll N (msbMaskBottomLimb b bK) bb).getD j [])))
            + ∑ i ∈ range cols,
                (σ i * σ i * cnvResidual N ((2 : R N) ^ b)
                    (((2 : R N) ^ b) ^ (sa + sb - (cnvOffsetSplit b off).1 - limbBoundWithOffset (sa + sb - (cnvOffsetSplit b off).1) rs rb b (cnvOffsetSplit b off).2))
                    ((2 : R N) ^ (rb * rs) * (2 : R N) ^ (cnvOffsetSplit b off).2.toNat)
                    ((2 : R N) ^ (rb * rs + (b * limbBoundWithOffset (sa + sb - (cnvOffsetSplit b off).1) rs rb b (cnvOffsetSplit b off).2 + (-(cnvOffsetSplit b off).2).toNat)))
                    ((prepAll N (msbMaskBottomLimb b aK) a).getD i []) ((prepAll N (msbMaskBottomLimb b bK) bb).getD i [])
                    (cnvOffsetSplit b off).1 (limbBoundWithOffset (sa + sb - (cnvOffsetSplit b off).1) rs rb b (cnvOffsetSplit b off).2) (eD i) (qD i)
                  + ∑ j ∈ Ico (i + 1) cols, σ i * σ j *
                      (cnvResidual N ((2 : R N) ^ b)
                          (((2 : R N) ^ b) ^ (sa + sb - (cnvOffsetSplit b off).1 - limbBoundWithOffset (sa + sb - (cnvOffsetSplit b off).1) rs rb b (cnvOffsetSplit b off).2))
                          ((2 : R N) ^ (rb * rs) * (2 : R N) ^ (cnvOffsetSplit b off).2.toNat)
                          ((2 : R N) ^ (rb * rs + (b * limbBoundWithOffset (sa + sb - (cnvOffsetSplit b off).1) rs rb b (cnvOffsetSplit b off).2 + (-(cnvOffsetSplit b off).2).toNat)))
                          (Hal.colAdd N ((prepAll N (msbMaskBottomLimb b aK) a).getD i []) ((prepAll N (msbMaskBottomLimb b aK) a).getD j []))
                          (Hal.colAdd N ((prepAll N (msbMaskBottomLimb b bK) bb).getD i []) ((prepAll N (msbMaskBottomLimb b bK) bb).getD j []))
                          (cnvOffsetSplit b off).1 (limbBoundWithOffset (sa + sb - (cnvOffsetSplit b off).1) rs rb b (cnvOffsetSplit b off).2) (eP i j) (qP i j)
                        - cnvResidual N ((2 : R N) ^ b)
                          (((2 : R N) ^ b) ^ (sa + sb - (cnvOffsetSplit b off).1 - limbBoundWithOffset (sa + sb - (cnvOffsetSplit b off).1) rs rb b (cnvOffsetSplit b off).2))
                          ((2 : R N) ^ (rb * rs) * (2 : R N) ^ (cnvOffsetSplit b off).2.toNat)
                          ((2 : R N) ^ (rb * rs + (b * limbBoundWithOffset (sa + sb - (cnvOffsetSplit b off).1) rs rb b (cnvOffsetSplit b off).2 + (-(cnvOffsetSplit b off).2).toNat)))
                          ((prepAll N (msbMaskBottomLimb b aK) a).getD i []) ((prepAll N (msbMaskBottomLimb b bK) bb).getD i [])
                          (cnvOffsetSplit b off).1 (limbBoundWithOffset (sa + sb - (cnvOffsetSplit b off).1) rs rb b (cnvOffsetSplit b off).2) (eD i) (qD i)
                        - cnvResidual N ((2 : R N) ^ b)
                          (((2 : R N) ^ b) ^ (sa + sb - (cnvOffsetSplit b off).1 - limbBoundWithOffset (sa + sb - (cnvOffsetSplit b off).1) rs rb b (cnvOffsetSplit b off).2))
                          ((2 : R N) ^ (rb * rs) * (2 : R N) ^ (cnvOffsetSplit b off).2.toNat)
                          ((2 : R N) ^ (rb * rs + (b * limbBoundWithOffset (sa + sb - (cnvOffsetSplit b off).1) rs rb b (cnvOffsetSplit b off).2 + (-(cnvOffsetSplit b off).2).toNat)))
                          ((prepAll N (msbMaskBottomLimb b aK) a).getD j []) ((prepAll N (msbMaskBottomLimb b bK) bb).getD j [])
                          (cnvOffsetSplit b off).1 (limbBoundWithOffset (sa + sb - (cnvOffsetSplit b off).1) rs rb b (cnvOffsetSplit b off).2) (eD j) (qD j)))

/-- **`glwe_tensor_apply`, END TO END** (every rank, any radix pair with `rb ≤ 61`, every `cnv_offset`, both accumulator widths).  With the
grouped secret `skG` of `glwe_tensor_decrypt` (`ι(skG[cix(i,j) − 1]) = σ_i·σ_j`, `σ_0 = 1`), the masked operands `a'`, `b'` and
`x_i = val(a'_i)`, `y_j = val(b'_j)`: the call returns a well-formed tensor `T` and
`A·phase_{skG}(T) = K·β·(Σ_i σ_i x_i)·(Σ_j σ_j y_j) + Σ_i (σ_i² rD_i + Σ_{j>i} σ_iσ_j (rP_ij − rD_i − rD_j))`
where every residual (`Core.cnvResidual`) is the rescaled rounding of one normalisation (`‖e‖_∞ ≤ normTolOff`: one unit of the last limb,
`0` when nothing is cut) plus a multiple of the torus modulus, minus the explicit dropped / skipped limbs of that convolution. -/
theorem tensorApply_total (big128 : Bool) (N rb rs off b : Nat) (a bb : List Col) (aK bK : Nat) (res0 : List Col) (skG : List Poly)
    (σ : ℕ → R N) (H : Int) (sa sb cols : Nat) (hN : 0 < N)
    (hcols : a.length = cols) (hcb : bb.length = cols) (hc1 : 1 ≤ cols)
    (ha : ∀ x ∈ a, x.length = sa ∧ ∀ l ∈ x, l.length = N) (hbb : ∀ x ∈ bb, x.length = sb ∧ ∀ l ∈ x, l.length = N)
    (hsa : 1 ≤ sa) (hsb : 1 ≤ sb) (hhi : (cnvOffsetSplit b off).1 ≤ sa + sb - 1)
    (hr0 : res0.length = (cols + 1) * cols / 2)
    (hrb1 : 1 ≤ rb) (hrb : rb ≤ 61) (hb1 : 1 ≤ b) (hb : b ≤ 62) (hH0 : 0 ≤ H) (hH : H + 8 ≤ 2 ^ (bitsOf big128 - 2))
    (haccD : ∀ i, i < cols → ∀ l ∈ Hal.cnvApplyCol N (limbBoundWithOffset (sa + sb - (cnvOffsetSplit b off).1) rs rb b (cnvOffsetSplit b off).2)
        (cnvOffsetSplit b off).1 ((prepAll N (msbMaskBottomLimb b aK) a).getD i []) ((prepAll N (msbMaskBottomLimb b bK) bb).getD i []),
        ∀ v ∈ l, |v| ≤ H)
    (haccP : ∀ i j, i < j → j < cols → ∀ l ∈ Hal.cnvApplyCol N (limbBoundWithOffset (sa + sb - (cnvOffsetSplit b off).1) rs rb b (cnvOffsetSplit b off).2)
        (cnvOffsetSplit b off).1
        (Hal.colAdd N ((prepAll N (msbMaskBottomLimb b aK) a).getD i []) ((prepAll N (msbMaskBottomLimb b aK) a).getD j []))
        (Hal.colAdd N ((prepAll N (msbMaskBottomLimb b bK) bb).getD i []) ((prepAll N (msbMaskBottomLimb b bK) bb).getD j [])),
        ∀ v ∈ l, |v| ≤ H)
    (hskl : skG.length = (cols + 1) * cols / 2 - 1) (hσ0 : σ 0 = 1)
    (hτ : ∀ i j, i ≤ j → j < cols → 0 < cix cols i j → ι N (skG.getD (cix cols i j - 1) []) = σ i * σ j) :
    ∃ T, tensorApply false big128 N rb rs off b a aK bb bK res0 = some T ∧ T.length = (cols + 1) * cols / 2 ∧ (∀ c ∈ T, ColWF N rs c) ∧ (∀ c ∈ T, ∀ l ∈ c, ∀ v ∈ l, |v| ≤ 3 * (2 ^ rb - 1)) ∧
      ∃ (eD qD : ℕ → Poly) (eP qP : ℕ → ℕ → Poly),
        (∀ i, i < cols → (eD i).length = N ∧ (qD i).length = N ∧
          normInf (eD i) ≤ normTolOff (rb * rs) (b * limbBoundWithOffset (sa + sb - (cnvOffsetSplit b off).1) rs rb b (cnvOffsetSplit b off).2) (cnvOffsetSplit b off).2) ∧
        (∀ i j, i < j → j < cols → (eP i j).length = N ∧ (qP i j).length = N ∧
          normInf (eP i j) ≤ normTolOff (rb * rs) (b * limbBoundWithOffset (sa + sb - (cnvOffsetSplit b off).1) rs rb b (cnvOffsetSplit b off).2) (cnvOffsetSplit b off).2) ∧
        (((2 : R N) ^ b) ^ (sa + sb - (cnvOffsetSplit b off).1 - limbBoundWithOffset (sa + sb - (cnvOffsetSplit b off).1) rs rb b (cnvOffsetSplit b off).2)
            * (2 : R N) ^ (b * limbBoundWithOffset (sa + sb - (cnvOffsetSplit b off).1) rs rb b (cnvOffsetSplit b off).2 + (-(cnvOffsetSplit b off).2).toNat))
          * ι N (valP rb N (phase skG (Ks.mkCt rb N T)))
          = ((2 : R N) ^ (rb * rs) * (2 : R N) ^ (cnvOffsetSplit b off).2.toNat) * ((2 : R N) ^ b)
              * ((∑ i ∈ range cols, σ i * colVal N ((2 : R N) ^ b) ((prepAll N (msbMaskBottomLimb b aK) a).getD i []))
                * (∑ j ∈ range cols, σ j * colVal N ((2 : R N) ^ b) ((prepAll N (msbMaskBottomLimb b bK) bb).getD j [])))
            + ∑ i ∈ range cols,
                (σ i * σ i * cnvResidual N ((2 : R N) ^ b)
                    (((2 : R N) ^ b) ^ (sa + sb - (cnvOffsetSplit b off).1 - limbBoundWithOffset (sa + sb - (cnvOffsetSplit b off).1) rs rb b (cnvOffsetSplit b off).2))
                    ((2 : R N) ^ (rb * rs) * (2 : R N) ^ (cnvOffsetSplit b off).2.toNat)
                    ((2 : R N) ^ (rb * rs + (b * limbBoundWithOffset (sa + sb - (cnvOffsetSplit b off).1) rs rb b (cnvOffsetSplit b off).2 + (-(cnvOffsetSplit b off).2).toNat)))
                    ((prepAll N (msbMaskBottomLimb b aK) a).getD i []) ((prepAll N (msbMaskBottomLimb b bK) bb).getD i [])
                    (cnvOffsetSplit b off).1 (limbBoundWithOffset (sa + sb - (cnvOffsetSplit b off).1) rs rb b (cnvOffsetSplit b off).2) (eD i) (qD i)
                  + ∑ j ∈ Ico (i + 1) cols, σ i * σ j *
                      (cnvResidual N ((2 : R N) ^ b)
                          (((2 : R N) ^ b) ^ (sa + sb - (cnvOffsetSplit b off).1 - limbBoundWithOffset (sa + sb - (cnvOffsetSplit b off).1) rs rb b (cnvOffsetSplit b off).2))
                          ((2 : R N) ^ (rb * rs) * (2 : R N) ^ (cnvOffsetSplit b off).2.toNat)
                          ((2 : R N) ^ (rb * rs + (b * limbBoundWithOffset (sa + sb - (cnvOffsetSplit b off).1) rs rb b (cnvOffsetSplit b off).2 + (-(cnvOffsetSplit b off).2).toNat)))
                          (Hal.colAdd N ((prepAll N (msbMaskBottomLimb b aK) a).getD i []) ((prepAll N (msbMaskBottomLimb b aK) a).getD j []))
                          (Hal.colAdd N ((prepAll N (msbMaskBottomLimb b bK) bb).getD i []) ((prepAll N (msbMaskBottomLimb b bK) bb).getD j []))
                          (cnvOffsetSplit b off).1 (limbBoundWithOffset (sa + sb - (cnvOffsetSplit b off).1) rs rb b (cnvOffsetSplit b off).2) (eP i j) (qP i j)
                        - cnvResidual N ((2 : R N) ^ b)
                          (((2 : R N) ^ b) ^ (sa + sb - (cnvOffsetSplit b off).1 - limbBoundWithOffset (sa + sb - (cnvOffsetSplit b off).1) rs rb b (cnvOffsetSplit b off).2))
                          ((2 : R N) ^ (rb * rs) * (2 : R N) ^ (cnvOffsetSplit b off).2.toNat)
                          ((2 : R N) ^ (rb * rs + (b * limbBoundWithOffset (sa + sb - (cnvOffsetSplit b off).1) rs rb b (cnvOffsetSplit b off).2 + (-(cnvOffsetSplit b off).2).toNat)))
                          ((prepAll N (msbMaskBottomLimb b aK) a).getD i []) ((prepAll N (msbMaskBottomLimb b bK) bb).getD i [])
                          (cnvOffsetSplit b off).1 (limbBoundWithOffset (sa + sb - (cnvOffsetSplit b off).1) rs rb b (cnvOffsetSplit b off).2) (eD i) (qD i)
                        - cnvResidual N ((2 : R N) ^ b)
                          (((2 : R N) ^ b) ^ (sa + sb - (cnvOffsetSplit b off).1 - limbBoundWithOffset (sa + sb - (cnvOffsetSplit b off).1) rs rb b (cnvOffsetSplit b off).2))
                          ((2 : R N) ^ (rb * rs) * (2 : R N) ^ (cnvOffsetSplit b off).2.toNat)
                          ((2 : R N) ^ (rb * rs + (b * limbBoundWithOffset (sa + sb - (cnvOffsetSplit b off).1) rs rb b (cnvOffsetSplit b off).2 + (-(cnvOffsetSplit b off).2).toNat)))
                          ((prepAll N (msbMaskBottomLimb b aK) a).getD j []) ((prepAll N (msbMaskBottomLimb b bK) bb).getD j [])
                          (cnvOffsetSplit b off).1 (limbBoundWithOffset (sa + sb - (cnvOffsetSplit b off).1) rs rb b (cnvOffsetSplit b off).2) (eD j) (qD j))) := by
  -- abbreviations
  set hi := (cnvOffsetSplit b off).1 with hhi_def
  set lo := (cnvOffsetSplit b off).2 with hlo_def
  set S := limbBoundWithOffset (sa + sb - hi) rs rb b lo with hS_def
  set aP := prepAll N (msbMaskBottomLimb b aK) a with haP
  set bP := prepAll N (msbMaskBottomLimb b bK) bb with hbP
  have hSle : S ≤ sa + sb - hi := limbBoundWithOffset_le _ _ _ _ _
  have haPi : ∀ i, i < cols → (aP.getD i []).length = sa ∧ ∀ l ∈ aP.getD i [], l.length = N :=
    fun i hi' => prepAll_getD N _ a sa i (by rw [hcols]; exact hi') ha
  have hbPi : ∀ i, i < cols → (bP.getD i []).length = sb ∧ ∀ l ∈ bP.getD i [], l.length = N :=
    fun i hi' => prepAll_getD N _ bb sb i (by rw [hcb]; exact hi') hbb
  have hrb62 : rb ≤ 62 := by omega
  -- every diagonal product
  have hD : ∀ i, ∃ Z e q, i < cols → cnvNorm big128 N rb rs b S hi lo (aP.getD i []) (bP.getD i []) = some Z ∧ ColWF N rs Z ∧
      (∀ l ∈ Z, ∀ v ∈ l, |v| ≤ 2 ^ rb - 1) ∧ e.length = N ∧ q.length = N ∧ normInf e ≤ normTolOff (rb * rs) (b * S) lo ∧
      ((2 : R N) ^ b) ^ (sa + sb - hi - S) * (2 : R N) ^ (b * S + (-lo).toNat) * ι N (valP rb N Z)
        = (2 : R N) ^ (rb * rs) * (2 : R N) ^ lo.toNat * ((2 : R N) ^ b) * colVal N ((2 : R N) ^ b) (aP.getD i []) * colVal N ((2 : R N) ^ b) (bP.getD i [])
          + cnvResidual N ((2 : R N) ^ b) (((2 : R N) ^ b) ^ (sa + sb - hi - S)) ((2 : R N) ^ (rb * rs) * (2 : R N) ^ lo.toNat)
              ((2 : R N) ^ (rb * rs + (b * S + (-lo).toNat))) (aP.getD i []) (bP.getD i []) hi S e q := by
    intro i
    by_cases hic : i < cols
    · obtain ⟨h1, h2⟩ := haPi i hic
      obtain ⟨h3, h4⟩ := hbPi i hic
      obtain ⟨Z, hZ, hwf, hdig, e, q, he, hq, hn, heq⟩ := cnvNorm_value big128 N rb rs b S hi lo H (aP.getD i []) (bP.getD i []) hN
        hrb1 hrb62 hb1 hb hH0 hH h2 h4 (by rw [h1]; exact hsa) (by rw [h3]; exact hsb) (by rw [h1, h3]; exact hhi) (by rw [h1, h3]; exact hSle)
        (haccD i hic)
      rw [h1, h3] at heq
      exact ⟨Z, e, q, fun _ => ⟨hZ, hwf, hdig, he, hq, hn, heq⟩⟩
    · exact ⟨[], [], [], fun h => absurd h hic⟩
  choose Dz eD qD hDz using hD
  have hP : ∀ i j, ∃ Z e q, i < j → j < cols →
      cnvNorm big128 N rb rs b S hi lo (Hal.colAdd N (aP.getD i []) (aP.getD j [])) (Hal.colAdd N (bP.getD i []) (bP.getD j [])) = some Z ∧ ColWF N rs Z ∧
      (∀ l ∈ Z, ∀ v ∈ l, |v| ≤ 2 ^ rb - 1) ∧ e.length = N ∧ q.length = N ∧ normInf e ≤ normTolOff (rb * rs) (b * S) lo ∧
      ((2 : R N) ^ b) ^ (sa + sb - hi - S) * (2 : R N) ^ (b * S + (-lo).toNat) * ι N (valP rb N Z)
        = (2 : R N) ^ (rb * rs) * (2 : R N) ^ lo.toNat * ((2 : R N) ^ b)
            * (colVal N ((2 : R N) ^ b) (aP.getD i []) + colVal N ((2 : R N) ^ b) (aP.getD j []))
            * (colVal N ((2 : R N) ^ b) (bP.getD i []) + colVal N ((2 : R N) ^ b) (bP.getD j []))
          + cnvResidual N ((2 : R N) ^ b) (((2 : R N) ^ b) ^ (sa + sb - hi - S)) ((2 : R N) ^ (rb * rs) * (2 : R N) ^ lo.toNat)
              ((2 : R N) ^ (rb * rs + (b * S + (-lo).toNat))) (Hal.colAdd N (aP.getD i []) (aP.getD j []))
              (Hal.colAdd N (bP.getD i []) (bP.getD j [])) hi S e q := by
    intro i j
    by_cases hc : i < j ∧ j < cols
    · obtain ⟨hij, hjc⟩ := hc
      have hic : i < cols := by omega
      obtain ⟨a1, a2⟩ := haPi i hic
      obtain ⟨a3, a4⟩ := haPi j hjc
      obtain ⟨b1, b2⟩ := hbPi i hic
      obtain ⟨b3, b4⟩ := hbPi j hjc
      obtain ⟨x1, x2⟩ := colAdd_shape N (aP.getD i []) (aP.getD j []) (by rw [a1, a3]) a2 a4
      obtain ⟨y1, y2⟩ := colAdd_shape N (bP.getD i []) (bP.getD j []) (by rw [b1, b3]) b2 b4
      rw [a1] at x1; rw [b1] at y1
      obtain ⟨Z, hZ, hwf, hdig, e, q, he, hq, hn, heq⟩ := cnvNorm_value big128 N rb rs b S hi lo H _ _ hN
        hrb1 hrb62 hb1 hb hH0 hH x2 y2 (by rw [x1]; exact hsa) (by rw [y1]; exact hsb) (by rw [x1, y1]; exact hhi) (by rw [x1, y1]; exact hSle)
        (haccP i j hij hjc)
      rw [x1, y1, colVal_colAdd N _ _ _ (by rw [a1, a3]) a2 a4, colVal_colAdd N _ _ _ (by rw [b1, b3]) b2 b4] at heq
      exact ⟨Z, e, q, fun _ _ => ⟨hZ, hwf, hdig, he, hq, hn, heq⟩⟩
    · exact ⟨[], [], [], fun h1 h2 => absurd ⟨h1, h2⟩ hc⟩
  choose Pz eP qP hPz using hP
  -- the call
  have hcall : tensorApply false big128 N rb rs off b a aK bb bK res0
      = some ((applyList false N cols rs Dz Pz).foldl applyU res0) := by
    unfold tensorApply
    have ea : (a.getD 0 []).length = sa := by
      have h0 : 0 < a.length := by omega
      rw [List.getD_eq_getElem?_getD, List.getElem?_eq_getElem h0]; exact (ha _ (List.getElem_mem h0)).1
    have eb : (bb.getD 0 []).length = sb := by
      have h0 : 0 < bb.length := by omega
      rw [List.getD_eq_getElem?_getD, List.getElem?_eq_getElem h0]; exact (hbb _ (List.getElem_mem h0)).1
    simp only [hcols, ea, eb]
    exact tensorApplyCore_some false N cols rs _ _ Dz Pz res0 (fun i hic => (hDz i hic).1) (fun i j hij hjc => (hPz i j hij hjc).1)
  set T := (applyList false N cols rs Dz Pz).foldl applyU res0 with hT
  have hTlen : T.length = (cols + 1) * cols / 2 := by rw [hT, foldl_applyU_length, hr0]
  have hB0 : (0 : Int) ≤ 2 ^ rb - 1 := by
    have : (1 : Int) ≤ 2 ^ rb := one_le_pow₀ (by norm_num)
    linarith
  have hB2 : 2 * ((2 : Int) ^ rb - 1) < 2 ^ 62 := by
    have h1 : (2 : Int) ^ rb ≤ 2 ^ 61 := pow_le_pow_right₀ (by norm_num) hrb
    have h2 : (2 : Int) ^ 62 = 2 * 2 ^ 61 := by norm_num
    linarith
  -- closed forms of the columns
  have hTd : ∀ i, i < cols → T.getD (cix cols i i) [] = Dz i := by
    intro i hic
    have hc : cix cols i i < res0.length := by rw [hr0]; exact cix_lt cols i i (Nat.le_refl _) hic
    rw [hT, foldl_applyU_getD _ _ _ hc, applyList_diag _ _ _ _ _ _ i hic]
    show vecCopy N rs (Dz i) = Dz i
    rw [vecCopy_nf, fit_self (hDz i hic).2.1.1]
  have hTo : ∀ i j, i < j → j < cols → T.getD (cix cols i j) []
      = C02L.colAdd (C02L.colAdd ((Dz i).map polyNeg) ((Dz j).map polyNeg)) (Pz i j) := by
    intro i j hij hjc
    have hic : i < cols := by omega
    have hc : cix cols i j < res0.length := by rw [hr0]; exact cix_lt cols i j (by omega) hjc
    rw [hT, foldl_applyU_getD _ _ _ hc, applyList_off _ _ _ _ _ _ i j hij hjc]
    simp only [Bool.false_eq_true, if_false]
    exact tensor_offcol (Dz i) (Dz j) (Pz i j) (2 ^ rb - 1) hB0 hB2 (hDz i hic).2.1 (hDz j hjc).2.1 (hPz i j hij hjc).2.1
      (hDz i hic).2.2.1 (hDz j hjc).2.2.1 (hPz i j hij hjc).2.2.1
  have hTwf : ∀ c ∈ T, ColWF N rs c := by
    intro c hc
    obtain ⟨k, hk, rfl⟩ := List.getElem_of_mem hc
    have e : T[k] = T.getD k [] := by simp [List.getD_eq_getElem?_getD, List.getElem?_eq_getElem hk]
    rw [e]
    obtain ⟨i, j, hij, hjc, rfl⟩ := cix_surj cols k (by rw [← hTlen]; exact hk)
    by_cases he : i = j
    · subst he; rw [hTd i hjc]; exact (hDz i hjc).2.1
    · have hlt : i < j := by omega
      rw [hTo i j hlt hjc]
      exact tensor_offcol_wf _ _ _ (hDz i (by omega)).2.1 (hDz j hjc).2.1 (hPz i j hlt hjc).2.1
  have hTdig : ∀ c ∈ T, ∀ l ∈ c, ∀ v ∈ l, |v| ≤ 3 * (2 ^ rb - 1) := by
    intro c hc
    obtain ⟨k, hk, rfl⟩ := List.getElem_of_mem hc
    have e : T[k] = T.getD k [] := by simp [List.getD_eq_getElem?_getD, List.getElem?_eq_getElem hk]
    rw [e]
    obtain ⟨i, j, hij, hjc, rfl⟩ := cix_surj cols k (by rw [← hTlen]; exact hk)
    by_cases he : i = j
    · subst he; rw [hTd i hjc]
      intro l hl v hv
      have := (hDz i hjc).2.2.1 l hl v hv
      linarith
    · have hlt : i < j := by omega
      rw [hTo i j hlt hjc]
      intro l hl v hv
      have h1 := colAdd_bound _ _ (2 ^ rb - 1) (2 ^ rb - 1) (neg_col_bound _ _ (hDz i (by omega)).2.2.1) (neg_col_bound _ _ (hDz j hjc).2.2.1)
      have h2 := colAdd_bound _ _ _ (2 ^ rb - 1) h1 (hPz i j hlt hjc).2.2.1 l hl v hv
      linarith
  refine ⟨T, hcall, hTlen, hTwf, hTdig, eD, qD, eP, qP, fun i hic => ⟨(hDz i hic).2.2.2.1, (hDz i hic).2.2.2.2.1, (hDz i hic).2.2.2.2.2.1⟩,
    fun i j hij hjc => ⟨(hPz i j hij hjc).2.2.2.1, (hPz i j hij hjc).2.2.2.2.1, (hPz i j hij hjc).2.2.2.2.2.1⟩, ?_⟩
  -- the phase under the grouped secret as a sum over the tensor columns
  have hTpos : 0 < (cols + 1) * cols / 2 := by
    have := cix_lt cols 0 0 (Nat.le_refl _) (by omega)
    omega
  have hTne : T ≠ [] := by intro h; rw [h] at hTlen; simp at hTlen; omega
  have hphase := ι_valP_phase_cols N hN rb rs skG T hTne hTwf
  rw [hTlen, hskl, Nat.min_self] at hphase
  set τ : ℕ → R N := fun c => if c = 0 then 1 else ι N (skG.getD (c - 1) []) with hτdef
  have hsum : ι N (valP rb N (phase skG (Ks.mkCt rb N T)))
      = ∑ c ∈ range ((cols + 1) * cols / 2), τ c * ι N (valP rb N (T.getD c [])) := by
    rw [hphase]
    have e : (cols + 1) * cols / 2 = ((cols + 1) * cols / 2 - 1) + 1 := by omega
    conv_rhs => rw [e, Finset.sum_range_succ']
    simp only [hτdef, if_true, one_mul, Nat.add_sub_cancel, Nat.succ_ne_zero, if_false]
    rw [add_comm]
  rw [hsum]
  have hid := tensor_product_identity cols
    (((2 : R N) ^ b) ^ (sa + sb - hi - S) * (2 : R N) ^ (b * S + (-lo).toNat))
    ((2 : R N) ^ (rb * rs) * (2 : R N) ^ lo.toNat) ((2 : R N) ^ b) σ
    (fun i => colVal N ((2 : R N) ^ b) (aP.getD i [])) (fun j => colVal N ((2 : R N) ^ b) (bP.getD j []))
    (fun i => ι N (valP rb N (Dz i)))
    (fun i => cnvResidual N ((2 : R N) ^ b) (((2 : R N) ^ b) ^ (sa + sb - hi - S)) ((2 : R N) ^ (rb * rs) * (2 : R N) ^ lo.toNat)
      ((2 : R N) ^ (rb * rs + (b * S + (-lo).toNat))) (aP.getD i []) (bP.getD i []) hi S (eD i) (qD i))
    (fun i j => ι N (valP rb N (Pz i j)))
    (fun i j => cnvResidual N ((2 : R N) ^ b) (((2 : R N) ^ b) ^ (sa + sb - hi - S)) ((2 : R N) ^ (rb * rs) * (2 : R N) ^ lo.toNat)
      ((2 : R N) ^ (rb * rs + (b * S + (-lo).toNat))) (Hal.colAdd N (aP.getD i []) (aP.getD j []))
      (Hal.colAdd N (bP.getD i []) (bP.getD j [])) hi S (eP i j) (qP i j))
    (fun c => ι N (valP rb N (T.getD c []))) τ
    (fun i hic => by
      have := (hDz i hic).2.2.2.2.2.2
      linear_combination this)
    (fun i j hij hjc => by
      have := (hPz i j hij hjc).2.2.2.2.2.2
      linear_combination this)
    (fun i hic => by rw [hTd i hic])
    (fun i j hij hjc => by
      rw [hTo i j hij hjc, tensor_offcol_value rb _ _ _ (hDz i (by omega)).2.1 (hDz j hjc).2.1 (hPz i j hij hjc).2.1])
    (fun i j hij hjc => by
      simp only [hτdef]
      by_cases h0 : cix cols i j = 0
      · have := cix_inj cols i j 0 0 hij hjc (Nat.le_refl _) (by omega) (by rw [h0]; simp [cix, colIdx])
        rw [h0, this.1, this.2, hσ0]; simp
      · rw [if_neg h0]
        exact hτ i j hij hjc (by omega))
  exact hid

/-- `tensorApply_total` with the conclusion packaged as `Core.TensorSpec` -/
theorem tensorApply_spec (big128 : Bool) (N rb rs off b : Nat) (a bb : List Col) (aK bK : Nat) (res0 : List Col) (skG : List Poly)
    (σ : ℕ → R N) (H : Int) (sa sb cols : Nat) (hN : 0 < N)
    (hcols : a.length = cols) (hcb : bb.length = cols) (hc1 : 1 ≤ cols)
    (ha : ∀ x ∈ a, x.length = sa ∧ ∀ l ∈ x, l.length = N) (hbb : ∀ x ∈ bb, x.length = sb ∧ ∀ l ∈ x, l.length = N)
    (hsa : 1 ≤ sa) (hsb : 1 ≤ sb) (hhi : (cnvOffsetSplit b off).1 ≤ sa + sb - 1)
    (hr0 : res0.length = (cols + 1) * cols / 2)
    (hrb1 : 1 ≤ rb) (hrb : rb ≤ 61) (hb1 : 1 ≤ b) (hb : b ≤ 62) (hH0 : 0 ≤ H) (hH : H + 8 ≤ 2 ^ (bitsOf big128 - 2))
    (haccD : ∀ i, i < cols → ∀ l ∈ Hal.cnvApplyCol N (limbBoundWithOffset (sa + sb - (cnvOffsetSplit b off).1) rs rb b (cnvOffsetSplit b off).2)
        (cnvOffsetSplit b off).1 ((prepAll N (msbMaskBottomLimb b aK) a).getD i []) ((prepAll N (msbMaskBottomLimb b bK) bb).getD i []),
        ∀ v ∈ l, |v| ≤ H)
    (haccP : ∀ i j, i < j → j < cols → ∀ l ∈ Hal.cnvApplyCol N (limbBoundWithOffset (sa + sb - (cnvOffsetSplit b off).1) rs rb b (cnvOffsetSplit b off).2)
        (cnvOffsetSplit b off).1
        (Hal.colAdd N ((prepAll N (msbMaskBottomLimb b aK) a).getD i []) ((prepAll N (msbMaskBottomLimb b aK) a).getD j []))
        (Hal.colAdd N ((prepAll N (msbMaskBottomLimb b bK) bb).getD i []) ((prepAll N (msbMaskBottomLimb b bK) bb).getD j [])),
        ∀ v ∈ l, |v| ≤ H)
    (hskl : skG.length = (cols + 1) * cols / 2 - 1) (hσ0 : σ 0 = 1)
    (hτ : ∀ i j, i ≤ j → j < cols → 0 < cix cols i j → ι N (skG.getD (cix cols i j - 1) []) = σ i * σ j) :
    ∃ T, tensorApply false big128 N rb rs off b a aK bb bK res0 = some T ∧ TensorSpec N rb rs off b a bb aK bK skG σ sa sb cols T :=
  tensorApply_total big128 N rb rs off b a bb aK bK res0 skG σ H sa sb cols hN hcols hcb hc1 ha hbb hsa hsb hhi hr0 hrb1 hrb hb1 hb hH0 hH
    haccD haccP hskl hσ0 hτ

end Core
