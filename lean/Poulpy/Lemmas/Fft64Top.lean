import Poulpy.Lemmas.Fft64Pipe
import Poulpy.Lemmas.NegMul

open Complex

namespace Fft64
open F64 NttMath

/-! ## The svp pipeline equals the exact negacyclic product inside an explicit magnitude domain -/

/-- bound on the packed input: `|a_j + i·a_{j+m}| ≤ 3/2·M` -/
noncomputable def A0 (M : ℝ) : ℝ := 3 / 2 * M
/-- forward transform: a-priori error and magnitude -/
noncomputable def EF (K : Nat) (τ M : ℝ) : ℝ := errB (γf τ) K (A0 M) 0
noncomputable def AF (K : Nat) (M : ℝ) : ℝ := 2 ^ K * A0 M
/-- slot-wise product: error and magnitude -/
noncomputable def EP (K : Nat) (τ Ma Mb : ℝ) : ℝ :=
  3 / 2 * (κ * ((AF K Ma + EF K τ Ma) * (AF K Mb + EF K τ Mb))) + (AF K Ma + EF K τ Ma) * EF K τ Mb + EF K τ Ma * AF K Mb
noncomputable def AP (K : Nat) (Ma Mb : ℝ) : ℝ := AF K Ma * AF K Mb
/-- error of the un-normalised inverse transform of the product -/
noncomputable def EI (K : Nat) (τ Ma Mb : ℝ) : ℝ := errB (γi τ) K (AP K Ma Mb) (EP K τ Ma Mb)

/-- **the magnitude domain of the FFT64 svp pipeline** for `n = 2·2^K`, twiddle accuracy `τ`, operand bounds
`Ma`, `Mb`: range side conditions (no overflow, exact input conversion) and the main condition "a-priori error of
the result, plus the rounding of the final scaling, below `1/2`" -/
structure SvpDomain (K : Nat) (τ Ma Mb : ℝ) : Prop where
  τ0 : 0 ≤ τ
  τ1 : τ ≤ 1
  K1 : K ≤ 1022
  Ma1 : 1 ≤ Ma
  Mb1 : 1 ≤ Mb
  ra : 2 ^ K * (1 + γf τ / 2) ^ K * (A0 Ma + 0) ≤ (2:ℝ) ^ (999:Int)
  rb : 2 ^ K * (1 + γf τ / 2) ^ K * (A0 Mb + 0) ≤ (2:ℝ) ^ (999:Int)
  rp : (AF K Ma + EF K τ Ma) * (AF K Mb + EF K τ Mb) ≤ (2:ℝ) ^ (1000:Int)
  ri : 2 ^ K * (1 + γi τ / 2) ^ K * (AP K Ma Mb + EP K τ Ma Mb) ≤ (2:ℝ) ^ (997:Int)
  r62 : AP K Ma Mb ≤ (2:ℝ) ^ (62:Nat)
  main : EI K τ Ma Mb / 2 ^ K * (1 + u) + u * AP K Ma Mb + η < 1 / 2

theorem dft_close (K : Nat) (omg : Array Nat) (τ M : ℝ) (a : List Int) (hτ0 : 0 ≤ τ) (hτ1 : τ ≤ 1) (hM : 1 ≤ M)
    (hacc : AccF τ (twOf (fwdIdx K) omg) K 0 0 (1 / 4)) (ha : a.length = 2 ^ (K + 1))
    (haM : ∀ c ∈ a, c.natAbs < 2 ^ 53 ∧ |(c:ℝ)| ≤ M)
    (hr : 2 ^ K * (1 + γf τ / 2) ^ K * (A0 M + 0) ≤ (2:ℝ) ^ (999:Int)) :
    Close (EF K τ M) (AF K M) (dftOf K omg a) (fwdE K (1 / 4) (packC (2 ^ K) (a.map cc))) ∧
    (dftOf K omg a).length = 2 ^ K := by
  obtain ⟨h1, h2⟩ := take_drop_len a K ha
  have hz : ((fromZnx a).take (2 ^ K)).zip ((fromZnx a).drop (2 ^ K)) =
      ((a.take (2 ^ K)).map ofInt).zip ((a.drop (2 ^ K)).map ofInt) := by
    unfold fromZnx; rw [List.map_take, List.map_drop]
  have hpk : packC (2 ^ K) (a.map cc) =
      List.zipWith (fun x y => x + I * y) ((a.take (2 ^ K)).map cc) ((a.drop (2 ^ K)).map cc) := by
    unfold packC; rw [List.map_take, List.map_drop]
  have c0 := close_from M (a.take (2 ^ K)) (a.drop (2 ^ K)) (by rw [h1, h2])
    (fun x hx => haM x (List.mem_of_mem_take hx)) (fun x hx => haM x (List.mem_of_mem_drop hx))
  have hlen : (((a.take (2 ^ K)).map ofInt).zip ((a.drop (2 ^ K)).map ofInt)).length = 2 ^ K := by
    rw [List.length_zip, List.length_map, List.length_map, h1, h2, min_self]
  have hA0 : 1 ≤ A0 M := by unfold A0; linarith
  have := fwd_err τ hτ0 hτ1 (twOf (fwdIdx K) omg) K 0 0 (1 / 4) (A0 M) 0 _ _ hA0 le_rfl hlen c0 hacc hr
  simp only [dftOf]
  rw [hz, hpk]
  exact ⟨this, fwd_length _ _ _ _ _ hlen⟩

/-- **`fft64_pipeline_exact`** (statement over the model functions, see Props/C07.lean) -/
theorem svp_pipeline_exact (K : Nat) (omg iomg : Array Nat) (τ Ma Mb : ℝ) (p x : List Int)
    (hacc : AccF τ (twOf (fwdIdx K) omg) K 0 0 (1 / 4)) (hacci : AccI τ (twOf (invIdx K) iomg) K 0 0 (1 / 4))
    (hp : p.length = 2 ^ (K + 1)) (hx : x.length = 2 ^ (K + 1))
    (hpM : ∀ c ∈ p, c.natAbs < 2 ^ 53 ∧ |(c:ℝ)| ≤ Ma) (hxM : ∀ c ∈ x, c.natAbs < 2 ^ 53 ∧ |(c:ℝ)| ≤ Mb)
    (hdom : SvpDomain K τ Ma Mb) : svpPipeline K omg iomg p x = Hal.negMul p x := by
  obtain ⟨ca, la⟩ := dft_close K omg τ Ma p hdom.τ0 hdom.τ1 hdom.Ma1 hacc hp hpM hdom.ra
  obtain ⟨cb, lb⟩ := dft_close K omg τ Mb x hdom.τ0 hdom.τ1 hdom.Mb1 hacc hx hxM hdom.rb
  have hγ := γf_nonneg τ hdom.τ0
  have hAFa : 1 ≤ AF K Ma := by
    unfold AF A0; have : (1:ℝ) ≤ 2 ^ K := one_le_pow₀ (by norm_num); have := hdom.Ma1; nlinarith
  have hAFb : 1 ≤ AF K Mb := by
    unfold AF A0; have : (1:ℝ) ≤ 2 ^ K := one_le_pow₀ (by norm_num); have := hdom.Mb1; nlinarith
  have hEFa : 0 ≤ EF K τ Ma := errB_nonneg _ hγ _ _ _ (by unfold A0; have := hdom.Ma1; linarith) le_rfl
  have hEFb : 0 ≤ EF K τ Mb := errB_nonneg _ hγ _ _ _ (by unfold A0; have := hdom.Mb1; linarith) le_rfl
  have cm := close_mul (EF K τ Ma) (AF K Ma) (EF K τ Mb) (AF K Mb) hAFa hAFb hEFa hEFb hdom.rp ca cb
  have hAP : 1 ≤ AP K Ma Mb := by unfold AP; nlinarith
  have hEP : 0 ≤ EP K τ Ma Mb := by
    unfold EP; have := κ_nonneg
    have h1 : 0 ≤ AF K Ma + EF K τ Ma := by linarith
    have h2 : 0 ≤ AF K Mb + EF K τ Mb := by linarith
    have h3 : 0 ≤ AF K Mb := by linarith
    positivity
  have lm : (pointwise cmul (dftOf K omg p) (dftOf K omg x)).length = 2 ^ K := by
    unfold pointwise; simp [la, lb]
  have ci := inv_err τ hdom.τ0 hdom.τ1 (twOf (invIdx K) iomg) K 0 0 (1 / 4) (AP K Ma Mb) (EP K τ Ma Mb) _ _
    hAP hEP lm cm hacci hdom.ri
  rw [exact_pipeline K p x hp hx] at ci
  -- output conversion
  set c := Hal.negMul p x with hc
  have lc : c.length = 2 ^ (K + 1) := by rw [hc, Hal.negMul_length]; exact hx
  obtain ⟨h1, h2⟩ := take_drop_len c K lc
  have hX : (packC (2 ^ K) (c.map cc)).map ((2:ℂ) ^ K * ·) =
      List.zipWith (fun x y => (2:ℂ) ^ K * (cc x + I * cc y)) (c.take (2 ^ K)) (c.drop (2 ^ K)) := by
    unfold packC
    rw [← List.map_take, ← List.map_drop, List.map_zipWith, List.zipWith_map]
  rw [hX] at ci
  have hEI : 0 ≤ EI K τ Ma Mb := errB_nonneg _ (γi_nonneg τ hdom.τ0) _ _ _ (by linarith) hEP
  have hs0 : (0:ℝ) < 2 ^ K := by positivity
  have hdiv : 2 ^ K * AP K Ma Mb / 2 ^ K = AP K Ma Mb := by field_simp
  obtain ⟨r1, r2⟩ := close_to K hdom.K1 (EI K τ Ma Mb) (2 ^ K * AP K Ma Mb) hEI (by rw [hdiv]; exact hdom.r62)
    (by rw [hdiv]; exact hdom.main) _ _ _ (by rw [h1, h2]) ci
  unfold svpPipeline idftOf toZnx flat
  rw [List.map_append, List.map_map, List.map_map]
  have e1 : (toI64 K ∘ Prod.fst) = fun w : C64 => toI64 K w.1 := rfl
  have e2 : (toI64 K ∘ Prod.snd) = fun w : C64 => toI64 K w.2 := rfl
  rw [e1, e2, r1, r2, List.take_append_drop]

end Fft64
