import Poulpy.Model.F64
import Mathlib.Data.Real.Basic
import Mathlib.Tactic.Ring
import Mathlib.Tactic.Linarith
import Mathlib.Tactic.Positivity
import Mathlib.Tactic.NormNum
import Mathlib.Algebra.Order.Field.Power

/-!
# The rounding function of the binary64 model is round-to-nearest-even (Nat / ℝ facts about `F64.round`)

`rneShift_near`: dropping `sh` bits moves the significand by at most half a unit; `roundSig_bounds`: the rounded
significand has at most 53 bits (`= 2^53` is the carry into the next binade) and at least 53 bits unless the
result is subnormal; `roundSig_err`: `|m'·2^q − m·2^e| ≤ 2^(q−1)` and `= 0` when nothing is dropped.
-/
namespace F64

/-! ### Nat-level facts -/

theorem rneShift_near (m sh : Nat) (hsh : 0 < sh) :
    rneShift m sh * 2 ^ sh ≤ m + 2 ^ (sh - 1) ∧ m ≤ rneShift m sh * 2 ^ sh + 2 ^ (sh - 1) := by
  obtain ⟨s, rfl⟩ : ∃ s, sh = s + 1 := ⟨sh - 1, by omega⟩
  have hP : 2 ^ (s + 1) = 2 * 2 ^ s := by rw [pow_succ]; ring
  have hdm := Nat.div_add_mod m (2 ^ (s + 1))
  have hlt := Nat.mod_lt m (show 0 < 2 ^ (s + 1) by positivity)
  unfold rneShift
  simp only [Nat.add_sub_cancel]
  set fl := m / 2 ^ (s + 1)
  set rem := m % 2 ^ (s + 1)
  set H := 2 ^ s
  rw [hP] at hdm hlt ⊢
  have e1 : (fl + 1) * (2 * H) = 2 * H * fl + 2 * H := by ring
  have e2 : fl * (2 * H) = 2 * H * fl := by ring
  split
  · rename_i h
    rw [e1]
    rcases h with h | ⟨h, _⟩ <;> constructor <;> omega
  · rename_i h
    rw [e2]
    have : ¬ H < rem := fun h' => h (Or.inl h')
    constructor <;> omega

theorem rneShift_le (m sh : Nat) : rneShift m sh ≤ m / 2 ^ sh + 1 := by
  unfold rneShift; simp only; split <;> omega

theorem rneShift_ge (m sh : Nat) : m / 2 ^ sh ≤ rneShift m sh := by
  unfold rneShift; simp only; split <;> omega

theorem log2_bounds (m : Nat) (hm : m ≠ 0) : 2 ^ Nat.log2 m ≤ m ∧ m < 2 ^ (Nat.log2 m + 1) :=
  ⟨Nat.log2_self_le hm, Nat.lt_log2_self⟩

theorem quantum_ge (m : Nat) (e : Int) : -1074 ≤ quantum m e ∧ ((Nat.log2 m + 1 : Nat) : Int) + e - 53 ≤ quantum m e := by
  unfold quantum; constructor <;> omega

theorem quantum_cases (m : Nat) (e : Int) :
    (quantum m e = -1074 ∧ ((Nat.log2 m + 1 : Nat) : Int) + e - 53 ≤ -1074) ∨
    (quantum m e = ((Nat.log2 m + 1 : Nat) : Int) + e - 53 ∧ -1074 < quantum m e) := by
  unfold quantum; omega

theorem roundSig_bounds (m : Nat) (e : Int) (hm : m ≠ 0) :
    roundSig m e ≤ 2 ^ 53 ∧ (-1074 < quantum m e → 2 ^ 52 ≤ roundSig m e) := by
  obtain ⟨hlo, hhi⟩ := log2_bounds m hm
  obtain ⟨hq1, hq2⟩ := quantum_ge m e
  have hqc := quantum_cases m e
  set L := Nat.log2 m with hL
  set q := quantum m e with hq
  unfold roundSig
  simp only [← hq]
  split
  · rename_i hqe
    -- exact branch
    set d := (e - q).toNat with hd
    have hdL : L + 1 + d ≤ 53 := by omega
    constructor
    · calc m * 2 ^ d ≤ 2 ^ (L + 1) * 2 ^ d := Nat.mul_le_mul_right _ hhi.le
        _ = 2 ^ (L + 1 + d) := (pow_add 2 (L + 1) d).symm
        _ ≤ 2 ^ 53 := Nat.pow_le_pow_right (by norm_num) hdL
    · intro hsub
      have hd' : L + d = 52 := by omega
      calc 2 ^ 52 = 2 ^ (L + d) := by rw [hd']
        _ = 2 ^ L * 2 ^ d := by rw [pow_add]
        _ ≤ m * 2 ^ d := Nat.mul_le_mul_right _ hlo
  · rename_i hqe
    set sh := (q - e).toNat with hsh
    have hsh1 : 1 ≤ sh := by omega
    have hLs : L + 1 ≤ 53 + sh := by omega
    have hdiv : m / 2 ^ sh < 2 ^ 53 := by
      rw [Nat.div_lt_iff_lt_mul (by positivity)]
      calc m < 2 ^ (L + 1) := hhi
        _ ≤ 2 ^ (53 + sh) := Nat.pow_le_pow_right (by norm_num) hLs
        _ = 2 ^ 53 * 2 ^ sh := by rw [pow_add]
    constructor
    · have := rneShift_le m sh; omega
    · intro hsub
      have hs' : L = 52 + sh := by omega
      have : 2 ^ 52 ≤ m / 2 ^ sh := by
        rw [Nat.le_div_iff_mul_le (by positivity)]
        calc 2 ^ 52 * 2 ^ sh = 2 ^ (52 + sh) := by rw [pow_add]
          _ = 2 ^ L := by rw [hs']
          _ ≤ m := hlo
      have := rneShift_ge m sh; omega

theorem two_zpow_toNat (x : Int) (hx : 0 ≤ x) : ((2:ℝ) ^ x.toNat) = (2:ℝ) ^ x := by
  rw [← zpow_natCast, Int.toNat_of_nonneg hx]

/-- the rounded significand is within half a unit in the last place, and exact when no bit is dropped -/
theorem roundSig_err (m : Nat) (e : Int) :
    |(roundSig m e : ℝ) * (2:ℝ) ^ quantum m e - (m : ℝ) * (2:ℝ) ^ e| ≤ (2:ℝ) ^ (quantum m e - 1) ∧
    (quantum m e ≤ e → (roundSig m e : ℝ) * (2:ℝ) ^ quantum m e = (m : ℝ) * (2:ℝ) ^ e) := by
  set q := quantum m e with hq
  have h2 : (2:ℝ) ≠ 0 := by norm_num
  unfold roundSig
  simp only [← hq]
  split
  · rename_i hqe
    have hex : ((m * 2 ^ (e - q).toNat : Nat) : ℝ) * (2:ℝ) ^ q = (m : ℝ) * (2:ℝ) ^ e := by
      push_cast
      rw [two_zpow_toNat _ (by omega), mul_assoc, ← zpow_add₀ h2]
      congr 2; ring
    refine ⟨?_, fun _ => hex⟩
    rw [hex, sub_self, abs_zero]; positivity
  · rename_i hqe
    refine ⟨?_, fun h => absurd h hqe⟩
    set sh := (q - e).toNat with hsh
    have hsh1 : 0 < sh := by omega
    obtain ⟨h1, h2'⟩ := rneShift_near m sh hsh1
    have hq' : (2:ℝ) ^ q = (2:ℝ) ^ sh * (2:ℝ) ^ e := by
      rw [← zpow_natCast, ← zpow_add₀ h2]; congr 1; omega
    have hq1 : (2:ℝ) ^ (q - 1) = (2:ℝ) ^ (sh - 1) * (2:ℝ) ^ e := by
      rw [← zpow_natCast, ← zpow_add₀ h2]; congr 1; omega
    rw [hq', hq1]
    have c1 : ((rneShift m sh : ℝ)) * (2:ℝ) ^ sh ≤ (m:ℝ) + (2:ℝ) ^ (sh - 1) := by exact_mod_cast h1
    have c2 : (m:ℝ) ≤ ((rneShift m sh : ℝ)) * (2:ℝ) ^ sh + (2:ℝ) ^ (sh - 1) := by exact_mod_cast h2'
    have he : (0:ℝ) < (2:ℝ) ^ e := by positivity
    have : (rneShift m sh : ℝ) * ((2:ℝ) ^ sh * (2:ℝ) ^ e) - (m:ℝ) * (2:ℝ) ^ e
        = ((rneShift m sh : ℝ) * (2:ℝ) ^ sh - m) * (2:ℝ) ^ e := by ring
    rw [this, abs_mul, abs_of_pos he]
    apply mul_le_mul_of_nonneg_right _ he.le
    rw [abs_le]; constructor <;> linarith

/-- real value of an exact dyadic number -/
noncomputable def Dy.val (d : Dy) : ℝ := (if d.neg then -1 else 1) * ((d.m : ℝ) * (2:ℝ) ^ d.e)

/-- real value of a bit pattern (0 for non-finite patterns; always used together with `Fin64`) -/
noncomputable def val (b : Nat) : ℝ := match decode b with | some d => d.val | none => 0

/-- the pattern is a finite double -/
def Fin64 (b : Nat) : Prop := ∃ d, decode b = some d

theorem decode_bounds {b : Nat} {d : Dy} (h : decode b = some d) : d.m < 2 ^ 53 ∧ -1074 ≤ d.e ∧ d.e ≤ 971 := by
  unfold decode at h
  simp only at h
  split at h
  · cases h
  · split at h
    · cases h; refine ⟨?_, by norm_num, by norm_num⟩; show b % 2 ^ 52 < 2 ^ 53; omega
    · cases h
      refine ⟨?_, ?_, ?_⟩
      · show b % 2 ^ 52 + 2 ^ 52 < 2 ^ 53; omega
      · show (-1074:Int) ≤ ((b / 2 ^ 52 % 2048 : Nat) : Int) - 1075; omega
      · show ((b / 2 ^ 52 % 2048 : Nat) : Int) - 1075 ≤ 971; omega

/-- decoding an encoded (quantum, significand) pair gives back the same value -/
theorem decode_encode (q : Int) (m' : Nat) (hq : -1074 ≤ q) (hq2 : q ≤ 970) (hm : m' ≤ 2 ^ 53)
    (hn : -1074 < q → 2 ^ 52 ≤ m') :
    ∃ d, decode (encode q m') = some d ∧ d.neg = false ∧ (d.m : ℝ) * (2:ℝ) ^ d.e = (m' : ℝ) * (2:ℝ) ^ q := by
  obtain ⟨A, hA⟩ : ∃ A : Nat, (A : Int) = q + 1074 := ⟨(q + 1074).toNat, by omega⟩
  have hA' : (q + 1074).toNat = A := by omega
  have hAle : A ≤ 2044 := by omega
  have henc : encode q m' = A * 2 ^ 52 + m' := by
    unfold encode infBits; simp only [hA']; rw [if_neg]; omega
  rw [henc]
  by_cases h1 : m' < 2 ^ 52
  · have hq0 : q = -1074 := by by_contra h; have := hn (by omega); omega
    have hA0 : A = 0 := by omega
    subst hA0
    refine ⟨⟨false, m', -1074⟩, ?_, rfl, by rw [hq0]⟩
    unfold decode; simp only
    have e1 : (0 * 2 ^ 52 + m') / 2 ^ 52 % 2048 = 0 := by omega
    have e2 : (0 * 2 ^ 52 + m') % 2 ^ 52 = m' := by omega
    have e3 : ¬ ((0 * 2 ^ 52 + m') / 2 ^ 63 % 2 = 1) := by omega
    rw [e1, e2]; simp; omega
  · by_cases h2 : m' < 2 ^ 53
    · refine ⟨⟨false, m', q⟩, ?_, rfl, rfl⟩
      unfold decode; simp only
      have e1 : (A * 2 ^ 52 + m') / 2 ^ 52 % 2048 = A + 1 := by omega
      have e2 : (A * 2 ^ 52 + m') % 2 ^ 52 + 2 ^ 52 = m' := by omega
      have e3 : ¬ ((A * 2 ^ 52 + m') / 2 ^ 63 % 2 = 1) := by omega
      rw [e1, e2]
      simp; omega
    · have hm53 : m' = 2 ^ 53 := by omega
      refine ⟨⟨false, 2 ^ 52, q + 1⟩, ?_, rfl, ?_⟩
      · unfold decode; simp only
        have e1 : (A * 2 ^ 52 + m') / 2 ^ 52 % 2048 = A + 2 := by omega
        have e2 : (A * 2 ^ 52 + m') % 2 ^ 52 = 0 := by omega
        have e3 : ¬ ((A * 2 ^ 52 + m') / 2 ^ 63 % 2 = 1) := by omega
        rw [e1, e2]
        simp; omega
      · rw [hm53, zpow_add₀ (by norm_num : (2:ℝ) ≠ 0)]; push_cast; ring

theorem decode_pack (s : Bool) (mag : Nat) (d : Dy) (hmag : decode mag = some d) (hd : d.neg = false) :
    decode (pack s mag) = some ⟨s, d.m, d.e⟩ := by
  cases s
  · simp only [pack, Bool.false_eq_true, if_false]; rw [hmag]; cases d; simp_all
  · simp only [pack, if_true]
    unfold decode at hmag ⊢
    simp only at hmag ⊢
    have hs : ¬ (mag / 2 ^ 63 % 2 = 1) := by
      intro h
      split at hmag
      · cases hmag
      · split at hmag <;> (cases hmag; simp at hd; omega)
    have e1 : (mag + 2 ^ 63) / 2 ^ 52 % 2048 = mag / 2 ^ 52 % 2048 := by omega
    have e2 : (mag + 2 ^ 63) % 2 ^ 52 = mag % 2 ^ 52 := by omega
    have e3 : (mag + 2 ^ 63) / 2 ^ 63 % 2 = 1 := by omega
    rw [e1, e2, e3]
    split at hmag
    · cases hmag
    · rename_i h1
      rw [if_neg h1]
      split at hmag
      · rename_i h2; rw [if_pos h2]; cases hmag; simp
      · rename_i h2; rw [if_neg h2]; cases hmag; simp

theorem one_lt_two_real : (1:ℝ) < 2 := by norm_num

/-- magnitude `m·2^e` with `m ≠ 0` lies in `[2^(L-1+e), 2^(L+e))`, `L = log2 m + 1` -/
theorem mag_bounds (m : Nat) (e : Int) (hm : m ≠ 0) :
    (2:ℝ) ^ ((Nat.log2 m : Int) + e) ≤ (m:ℝ) * (2:ℝ) ^ e ∧ (m:ℝ) * (2:ℝ) ^ e < (2:ℝ) ^ ((Nat.log2 m : Int) + 1 + e) := by
  obtain ⟨hlo, hhi⟩ := log2_bounds m hm
  have he : (0:ℝ) < (2:ℝ) ^ e := by positivity
  have h2 : (2:ℝ) ≠ 0 := by norm_num
  constructor
  · rw [zpow_add₀ h2, zpow_natCast]
    exact mul_le_mul_of_nonneg_right (by exact_mod_cast hlo) he.le
  · rw [zpow_add₀ h2, show ((Nat.log2 m : Int) + 1) = ((Nat.log2 m + 1 : Nat) : Int) by push_cast; ring, zpow_natCast]
    exact mul_lt_mul_of_pos_right (by exact_mod_cast hhi) he

/-- below `2^1023` the quantum stays below the overflow range -/
theorem quantum_le_of_lt (m : Nat) (e : Int) (hm : m ≠ 0) (hx : (m:ℝ) * (2:ℝ) ^ e < (2:ℝ) ^ (1023:Int)) :
    quantum m e ≤ 970 := by
  have h := (mag_bounds m e hm).1
  have : (2:ℝ) ^ ((Nat.log2 m : Int) + e) < (2:ℝ) ^ (1023:Int) := lt_of_le_of_lt h hx
  rw [zpow_lt_zpow_iff_right₀ one_lt_two_real] at this
  unfold quantum; push_cast; omega

/-- **Rounding a non-zero exact value of magnitude below `2^1023`**: the result is finite, has the sign of the
exact value, is within half a unit in the last place, and is exact when no bit has to be dropped. -/
theorem round_spec (d : Dy) (hm : d.m ≠ 0) (hx : (d.m:ℝ) * (2:ℝ) ^ d.e < (2:ℝ) ^ (1023:Int)) :
    ∃ r, decode (round d) = some r ∧ r.neg = d.neg ∧
      |(r.m:ℝ) * (2:ℝ) ^ r.e - (d.m:ℝ) * (2:ℝ) ^ d.e| ≤ (2:ℝ) ^ (quantum d.m d.e - 1) ∧
      (quantum d.m d.e ≤ d.e → (r.m:ℝ) * (2:ℝ) ^ r.e = (d.m:ℝ) * (2:ℝ) ^ d.e) := by
  obtain ⟨hq1, _⟩ := quantum_ge d.m d.e
  have hq2 := quantum_le_of_lt d.m d.e hm hx
  obtain ⟨hs1, hs2⟩ := roundSig_bounds d.m d.e hm
  obtain ⟨r0, hr0, hneg, hval⟩ := decode_encode (quantum d.m d.e) (roundSig d.m d.e) hq1 hq2 hs1 hs2
  obtain ⟨herr, hex⟩ := roundSig_err d.m d.e
  have hrm : roundMag d.m d.e = encode (quantum d.m d.e) (roundSig d.m d.e) := by
    unfold roundMag; rw [if_neg hm]
  refine ⟨⟨d.neg, r0.m, r0.e⟩, ?_, rfl, ?_, ?_⟩
  · unfold round; rw [hrm]; exact decode_pack _ _ _ hr0 hneg
  · show |(r0.m:ℝ) * (2:ℝ) ^ r0.e - _| ≤ _
    rw [hval]; exact herr
  · intro h; show (r0.m:ℝ) * (2:ℝ) ^ r0.e = _
    rw [hval]; exact hex h

/-- rounding a zero gives the signed zero -/
theorem round_zero (s : Bool) (e : Int) : decode (round ⟨s, 0, e⟩) = some ⟨s, 0, -1074⟩ := by
  unfold round roundMag; simp only [if_true]
  exact decode_pack s 0 ⟨false, 0, -1074⟩ (by decide) rfl

/-- half a unit in the last place is at most `2^-53` of the value, or `2^-1075` in the subnormal range -/
theorem half_ulp_le (m : Nat) (e : Int) (hm : m ≠ 0) :
    (2:ℝ) ^ (quantum m e - 1) ≤ max ((2:ℝ) ^ (-53:Int) * ((m:ℝ) * (2:ℝ) ^ e)) ((2:ℝ) ^ (-1075:Int)) := by
  rcases quantum_cases m e with ⟨h, _⟩ | ⟨h, _⟩
  · rw [h]; exact le_max_of_le_right (by norm_num)
  · apply le_max_of_le_left
    have hb := (mag_bounds m e hm).1
    have h2 : (2:ℝ) ≠ 0 := by norm_num
    calc (2:ℝ) ^ (quantum m e - 1) = (2:ℝ) ^ (-53:Int) * (2:ℝ) ^ ((Nat.log2 m : Int) + e) := by
          rw [← zpow_add₀ h2, h]; congr 1; push_cast; ring
      _ ≤ (2:ℝ) ^ (-53:Int) * ((m:ℝ) * (2:ℝ) ^ e) := mul_le_mul_of_nonneg_left hb (by positivity)

end F64
