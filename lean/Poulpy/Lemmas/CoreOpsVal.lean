import Poulpy.Lemmas.CoreOpsBin
import Mathlib.Tactic.Ring
import Mathlib.Tactic.Linarith
import Mathlib.Tactic.Positivity

/-!
Value level of C02: `Core.valCoeff b a t` (integer value of coefficient `t` of a limb column, last
limb weight 1) is additive on columns of one shape, scales exactly under zero-extension, and moves
by less than one unit of the last kept limb under truncation of balanced digits.
-/

namespace C02L
open Hal Core

theorem valCoeff_append (b : Nat) (x y : Col) (t : Nat) :
    valCoeff b (x ++ y) t = valCoeff b x t * 2 ^ (b * y.length) + valCoeff b y t := by
  unfold valCoeff
  induction y using List.reverseRecOn with
  | nil => simp
  | append_singleton ys l ih =>
    rw [← List.append_assoc, List.foldl_append (l := x ++ ys), List.foldl_append (l := ys)]
    simp only [List.foldl_cons, List.foldl_nil, List.length_append, List.length_cons, List.length_nil]
    rw [ih]
    have : (2 : Int) ^ (b * (ys.length + (0 + 1))) = 2 ^ (b * ys.length) * 2 ^ b := by
      rw [← pow_add]; congr 1
    rw [this]; ring

theorem valCoeff_nil (b t : Nat) : valCoeff b [] t = 0 := rfl

theorem valCoeff_zeros (b N k t : Nat) : valCoeff b (List.replicate k (zeroP N)) t = 0 := by
  induction k with
  | zero => rfl
  | succ k ih =>
    rw [List.replicate_succ', valCoeff_append, ih]
    simp [valCoeff, zeroP, List.getD_eq_getElem?_getD, List.getElem?_replicate]
    split <;> rfl

theorem fit_of_le {N rs : Nat} (a : Col) (h : a.length ≤ rs) : fit N rs a = a ++ List.replicate (rs - a.length) (zeroP N) := by
  apply List.ext_getElem?
  intro j
  rw [fit_getElem?]
  simp only [List.getElem?_append, List.getElem?_replicate, List.getD_eq_getElem?_getD]
  by_cases h1 : j < a.length
  · simp [h1, (by omega : j < rs), List.getElem?_eq_getElem h1]
  · by_cases h2 : j < rs
    · simp [h1, h2, List.getElem?_eq_none (by omega : a.length ≤ j), (by omega : j - a.length < rs - a.length)]
    · have h3 : ¬ j - a.length < rs - a.length := by omega
      simp only [h1, h2, h3, if_false]

theorem fit_of_ge {N rs : Nat} (a : Col) (h : rs ≤ a.length) : fit N rs a = a.take rs := by
  apply List.ext_getElem?
  intro j
  rw [fit_getElem?]
  simp only [List.getElem?_take, List.getD_eq_getElem?_getD]
  by_cases h2 : j < rs
  · simp [h2, List.getElem?_eq_getElem (by omega : j < a.length)]
  · simp [h2]

/-- zero-extension is exact: the value is multiplied by the weight of the added limbs -/
theorem valCoeff_fit_extend (b N rs : Nat) (a : Col) (t : Nat) (h : a.length ≤ rs) :
    valCoeff b (fit N rs a) t = valCoeff b a t * 2 ^ (b * (rs - a.length)) := by
  rw [fit_of_le a h, valCoeff_append, valCoeff_zeros]
  simp

/-- truncation splits the value into the kept limbs and the dropped tail -/
theorem valCoeff_fit_truncate (b N rs : Nat) (a : Col) (t : Nat) (h : rs ≤ a.length) :
    valCoeff b a t = valCoeff b (fit N rs a) t * 2 ^ (b * (a.length - rs)) + valCoeff b (a.drop rs) t := by
  rw [fit_of_ge a h]
  conv_lhs => rw [← List.take_append_drop rs a]
  rw [valCoeff_append]
  simp

/-- a tail of balanced digits is worth less than one unit of the limb above it -/
theorem valCoeff_balanced_lt (b : Nat) (hb : 1 ≤ b) (y : Col) (t : Nat)
    (hy : ∀ l ∈ y, |l.getD t 0| ≤ 2 ^ (b - 1)) : |valCoeff b y t| < 2 ^ (b * y.length) := by
  induction y using List.reverseRecOn with
  | nil => simp [valCoeff]
  | append_singleton ys l ih =>
    rw [valCoeff_append]
    have h1 := ih (fun l' hl' => hy l' (by simp [hl']))
    have h2 : |l.getD t 0| ≤ 2 ^ (b - 1) := hy l (by simp)
    have e1 : valCoeff b [l] t = l.getD t 0 := by simp [valCoeff]
    have e2 : (2 : Int) ^ (b * (ys ++ [l]).length) = 2 ^ (b * ys.length) * 2 ^ b := by
      rw [← pow_add]; congr 1; simp; ring
    have e3 : (2 : Int) ^ b = 2 * 2 ^ (b - 1) := by
      rw [← pow_succ']; congr 1; omega
    rw [e1, e2]
    simp only [List.length_cons, List.length_nil, Nat.zero_add, Nat.mul_one]
    have hp : (0 : Int) < 2 ^ (b - 1) := by positivity
    have hq : (0 : Int) < 2 ^ (b * ys.length) := by positivity
    have h3 : |valCoeff b ys t * 2 ^ b| = |valCoeff b ys t| * 2 ^ b := by
      rw [abs_mul, abs_of_pos (by positivity : (0 : Int) < 2 ^ b)]
    calc |valCoeff b ys t * 2 ^ b + l.getD t 0|
        ≤ |valCoeff b ys t * 2 ^ b| + |l.getD t 0| := abs_add_le _ _
      _ ≤ (2 ^ (b * ys.length) - 1) * 2 ^ b + 2 ^ (b - 1) := by
          rw [h3]
          have : |valCoeff b ys t| ≤ 2 ^ (b * ys.length) - 1 := by omega
          nlinarith
      _ < 2 ^ (b * ys.length) * 2 ^ b := by rw [e3]; nlinarith

theorem getD_polyAdd (x y : Poly) (t : Nat) (h : x.length = y.length) :
    (polyAdd x y).getD t 0 = x.getD t 0 + y.getD t 0 := by
  simp only [polyAdd, List.getD_eq_getElem?_getD, List.getElem?_zipWith]
  by_cases ht : t < x.length
  · simp [List.getElem?_eq_getElem ht, List.getElem?_eq_getElem (h ▸ ht)]
  · simp [List.getElem?_eq_none (by omega : x.length ≤ t), List.getElem?_eq_none (by omega : y.length ≤ t)]

/-- the value is additive on columns of one shape -/
theorem valCoeff_colAdd {N rs : Nat} (b : Nat) {x y : Col} (hx : ColWF N rs x) (hy : ColWF N rs y) (t : Nat) :
    valCoeff b (colAdd x y) t = valCoeff b x t + valCoeff b y t := by
  induction rs generalizing x y with
  | zero =>
    have ex : x = [] := List.eq_nil_of_length_eq_zero hx.1
    have ey : y = [] := List.eq_nil_of_length_eq_zero hy.1
    subst ex ey; simp [colAdd, valCoeff]
  | succ rs ih =>
    rcases List.eq_nil_or_concat x with rfl | ⟨x', lx, rfl⟩
    · exact absurd hx.1 (by simp)
    rcases List.eq_nil_or_concat y with rfl | ⟨y', ly, rfl⟩
    · exact absurd hy.1 (by simp)
    simp only [List.concat_eq_append] at *
    have hx' : ColWF N rs x' := ⟨by simpa using hx.1, fun l hl => hx.2 l (by simp [hl])⟩
    have hy' : ColWF N rs y' := ⟨by simpa using hy.1, fun l hl => hy.2 l (by simp [hl])⟩
    have e : colAdd (x' ++ [lx]) (y' ++ [ly]) = colAdd x' y' ++ [polyAdd lx ly] := by
      unfold colAdd
      rw [List.zipWith_append (by rw [hx'.1, hy'.1])]
      simp
    rw [e, valCoeff_append, valCoeff_append, valCoeff_append, ih hx' hy']
    have : valCoeff b [polyAdd lx ly] t = valCoeff b [lx] t + valCoeff b [ly] t := by
      have g := getD_polyAdd lx ly t (by rw [hx.2 lx (by simp), hy.2 ly (by simp)])
      simp only [valCoeff, List.foldl_cons, List.foldl_nil, g]
      ring
    rw [this]
    simp only [List.length_cons, List.length_nil]
    ring

end C02L
