import Poulpy.Lemmas.CkksRshBound
import Poulpy.Lemmas.CkksSemOps
/-!
ZNX plaintext addends on the data-path model: `PtAddContract` discharged.

The fused right shift `vec_znx_rsh_add_into` / `vec_znx_rsh_sub` touches the body column only; its value is
`C08.rsh_add_value` / `rsh_sub_value`, its limbs are bounded by `Bound.rshCoef_fused_bound`; the phase
statement goes through `C02L.torus_phase3` with the plaintext read as a rank-0 GLWE.
-/

namespace Ckks
open Hal Core Core.Ops C02L CoreEnc NormL Ckks.Sem Ckks.CoreSem Ckks.Bound

/-- the plaintext column as a rank-0 GLWE (its phase is its body) -/
def ptG (b N : Nat) (pg : Col) : GLWE := { base2k := b, k := b * pg.length, n := N, cols := [pg] }

theorem ptG_phase (s : List Poly) (b N : Nat) (pg : Col) : phase s (ptG b N pg) = pg := by
  simp [phase, phaseBig, ptG, GLWE.rank]

theorem ptG_wf {N ps : Nat} {pg : Col} (b : Nat) (hp : ColWF N ps pg) : GWF N (ptG b N pg) := by
  refine ⟨rfl, by simp [ptG], fun c hc => ?_⟩
  simp only [ptG, List.mem_singleton] at hc
  subst hc
  have : (ptG b N c).size = c.length := by simp [GLWE.size, ptG]
  rw [this]
  exact ⟨rfl, hp.2⟩

/-- **the fused right shift on the body column** (`σ = +1`: `vec_znx_rsh_add_into`, `σ = −1`: `vec_znx_rsh_sub`) -/
theorem rsh_acc_step {N b r : Nat} (hb1 : 1 ≤ b) (hb61 : b ≤ 61) (sub : Bool) {res : GLWE} (hr : GB N b r (half b) res)
    {pg : Col} {ps : Nat} (hp : ColWF N ps pg) (hpb : CB (full b) pg) (k β : Nat) :
    ∃ r', glweRshAcc N sub k res pg = .ok r' ∧ GB N b r (full b) r' ∧ r'.size = res.size ∧
      ∀ s t, t < N → Near (decG s r' β t)
        (decG s res β t + sg sub * dec (valCoeff b pg t) (b * ps + k) β) (2 ^ β) (sn r s * ulpG r' β) := by
  obtain ⟨hrw, hrb, hrr, hrn⟩ := hr
  subst hrb
  set b := res.base2k
  have hh := headroom hb1 hb61
  have h0len : 0 < res.cols.length := by rw [hrw.len]; omega
  let K : Col := if sub then rshSubCol b k (col res 0) pg N else rshAddCol b k (col res 0) pg N
  let r' : GLWE := { res with cols := res.cols.set 0 K }
  have hok : glweRshAcc N sub k res pg = .ok r' := by
    unfold glweRshAcc
    exact selfCol_ok _ 0 res h0len
  have hs : Same res r' := ⟨rfl, rfl, rfl, by simp [r']⟩
  have hcol0 : col r' 0 = K := by
    simp [r', col, List.getD_eq_getElem?_getD, h0len]
  have hcoli : ∀ i, i ≠ 0 → col r' i = col res i := by
    intro i hi
    simp [r', col, List.getD_eq_getElem?_getD, List.getElem?_set, Ne.symm hi]
  have hKeq : K = mapCoefs N res.size (fun t =>
      rshCoef (if sub then Fuse.sub else Fuse.add) b k (coefAt pg t) (coefAt (col res 0) t)) := by
    have hl : (col res 0).length = res.size := (hrw.col_wf 0 (Nat.zero_le _)).1
    cases sub with
    | false =>
      simp only [K, Bool.false_eq_true, if_false]
      unfold rshAddCol; rw [hl]
    | true =>
      simp only [K, if_true]
      unfold rshSubCol; rw [hl]
  have h62 : half b ≤ 2 ^ 62 := le_of_lt (half_lt_62 hb61)
  -- per coefficient facts of the kernel
  have hker : ∀ t, (∀ x ∈ coefAt pg t, |x| ≤ full b) ∧ (∀ x ∈ coefAt (col res 0) t, |x| ≤ half b) := fun t =>
    ⟨coefAt_bound (full_nonneg b) hpb t, coefAt_bound (half_nonneg b) (gbound_col hrn 0) t⟩
  have hlenK : ∀ t, (rshCoef (if sub then Fuse.sub else Fuse.add) b k (coefAt pg t) (coefAt (col res 0) t)).length = res.size := by
    intro t
    have hl : (coefAt (col res 0) t).length = res.size := by rw [coefAt_length, (hrw.col_wf 0 (Nat.zero_le _)).1]
    have := (rshCoef_fused_cong hh (by omega) sub k _ _ (hker t).1
      (fun x hx => ((hker t).2 x hx).trans (half_le_full b)) (fun x hx => ((hker t).2 x hx).trans h62)).1
    rw [this, hl]
  obtain ⟨w, sz⟩ := gwf_of_cols hrw hs (fun i hi => by
    by_cases h0 : i = 0
    · subst h0; rw [hcol0, hKeq]; exact ⟨mapCoefs_length _ _ _, mapCoefs_WF _ _ _⟩
    · rw [hcoli i h0]; exact hrw.col_wf i hi)
  have hbd : GBound (full b) r' := gbound_of_same hrw hs fun i hi => by
    by_cases h0 : i = 0
    · subst h0
      rw [hcol0, hKeq]
      refine cb_mapCoefs (full_nonneg b) fun t _ x hx => ?_
      have := rshCoef_fused_bound hh (by omega) sub k _ _ (hker t).1 h62 (half_le_full b) (hker t).2 x hx
      rwa [show half b + 2 ^ (b - 1) = full b from half_add_half hb1] at this
    · rw [hcoli i h0]
      exact fun l hl x hx => (gbound_col hrn i l hl x hx).trans (half_le_full b)
  refine ⟨r', hok, ⟨w, rfl, by rw [hs.rank, hrr], hbd⟩, sz, fun s t ht => ?_⟩
  have hpl : pg.length = ps := hp.1
  let σ : Int := if sub then -1 else 1
  have key := torus_phase3 w hrw (ptG_wf b hp) hs.rank.symm (by simp [ptG, GLWE.rank]) b b b
    (2 ^ (b * ps + k)) (2 ^ (b * ps + k)) (σ * 2 ^ (b * res.size)) (2 ^ (b * res.size + (b * ps + k))) (2 ^ (b * ps + k))
    (fun i hi t ht => by
      by_cases h0 : i = 0
      · subst h0
        have hpc : col (ptG b N pg) 0 = pg := by simp [ptG, col]
        rw [hcol0, hKeq, hpc, valCoeff_eq, valCoeff_eq, valCoeff_eq, coefAt_mapCoefs _ _ _ t ht (hlenK t)]
        have hl : (coefAt (col res 0) t).length = res.size := by rw [coefAt_length, (hrw.col_wf 0 (Nat.zero_le _)).1]
        have hal : (coefAt pg t).length = ps := by rw [coefAt_length, hpl]
        cases sub with
        | false =>
          obtain ⟨_, q, e, hq, he⟩ := C08.rsh_add_value hh (by omega) k _ _ (hker t).1
            (fun x hx => ((hker t).2 x hx).trans (half_le_full b)) (fun x hx => ((hker t).2 x hx).trans h62)
          rw [hl, hal] at hq
          rw [hal] at he
          refine ⟨q, e, ?_, he⟩
          simp only [σ, Bool.false_eq_true, if_false]
          linear_combination hq
        | true =>
          obtain ⟨_, q, e, hq, he⟩ := C08.rsh_sub_value hh (by omega) k _ _ (hker t).1
            (fun x hx => ((hker t).2 x hx).trans (half_le_full b)) (fun x hx => ((hker t).2 x hx).trans h62)
          rw [hl, hal] at hq
          rw [hal] at he
          refine ⟨q, e, ?_, he⟩
          simp only [σ, if_true]
          linear_combination hq
      · refine ⟨0, 0, ?_, by positivity⟩
        have hpc : col (ptG b N pg) i = [] := by
          apply col_of_gt; simp [ptG]; omega
        rw [hcoli i h0, hpc, valCoeff_nil]; ring) s t ht
  obtain ⟨q, e, hrel, he⟩ := key
  rw [ptG_phase] at hrel
  have hU : |(e : ℚ)| ≤ sn r s * 2 ^ (b * ps + k) := by
    have := cast_abs_le he
    rw [hs.rank, hrr] at this
    push_cast at this
    simp only [sn]; push_cast; linarith
  have := dec_of_lsh_acc (valCoeff b (phase s r') t) (valCoeff b (phase s res) t) (valCoeff b pg t) e q σ
    (b * res.size) (b * ps + k) 0 β β (sn r s) (by rw [hrel]; ring) hU (by omega)
  have hsz : r'.size = res.size := sz
  simp only [decG, ulpG, hsz]
  rw [show sn r s * (2 ^ β / 2 ^ (r'.base2k * res.size)) = sn r s * 2 ^ β / 2 ^ (b * res.size) by
    show sn r s * (2 ^ β / 2 ^ (b * res.size)) = _; ring]
  have hσ : ((σ : Int) : ℚ) = sg sub := by cases sub <;> simp [σ, sg]
  rw [hσ] at this
  exact this


/-- a ZNX plaintext operand with its limbs: `pt.size` limbs of `N` coefficients within `2^base2k` -/
structure PtOK (env : Env) (N : Nat) (pt : Pt) (pg : Col) : Prop where
  wf : ColWF N pt.size pg
  nb : CB (full env.base2k) pg

theorem withPt_ok2 {env : Env} {pt : Pt} {dst : Ct} {f : Res Ct} {m : Ct} (h : withPt env pt dst f = .ok m) :
    ptBuild env pt dst = none ∧ f = .ok m := by
  unfold withPt at h
  cases hb : ptBuild env pt dst with
  | none => rw [hb] at h; exact ⟨rfl, h⟩
  | some r =>
    rw [hb] at h
    simp only at h
    unfold ptBuild at hb
    split at hb
    · injection hb with hb; rw [← hb] at h; cases h
    · split at hb
      · injection hb with hb; rw [← hb] at h; cases h
      · cases hb

theorem ptAlign_ok2 {env : Env} {c m : Ct} {pt : Pt} (h : ptAlign env c pt = .ok m) :
    m = c ∧ env.base2k = pt.base2k ∧ ptShift c pt + pt.maxK = c.md.logBudget + pt.md.logDelta := by
  have hs := ptShift_spec env c m pt h
  simp only [ptAlign] at h
  split at h
  · cases h
  · next hb =>
    split at h
    · cases h
    · split at h
      · cases h
      · injection h with h
        subst h
        exact ⟨rfl, by simpa using hb, hs⟩

theorem dec_pt (Y : Int) (P β δ : Nat) (h : P = β + δ) : dec Y P β = (Y : ℚ) / 2 ^ δ := by
  subst h
  simp only [dec, tor, pow_add]
  field_simp

/-- **`ckks_add_pt_vec_znx_assign` / `ckks_sub_pt_vec_znx_assign`**, no contract: the decoded value moves by the
plaintext message `Y_t / 2^log_delta` (`Y_t` = the integer the plaintext limbs hold at coefficient `t`), within
one unit of the last limb times `1 + Σ‖sᵢ‖₁` -/
theorem dAddPtAssign_sem {env : Env} (he : EnvOK env) {N r : Nat} {c : DCt} (hc : DOK env N r c) (sub : Bool)
    {pt : Pt} {pg : Col} (hp : PtOK env N pt pg) {m : Ct}
    (hm : withPt env pt c.ct (addPtZnxAssign env c.ct pt) = .ok m) :
    ∃ c', dAddPtAssign env N sub c pt pg = .ok c' ∧ c'.ct = m ∧ DOK env N r c' ∧
      ∀ s t, t < N → Near (decC s c' t)
        (decC s c t + sg sub * ((valCoeff env.base2k pg t : ℚ) / 2 ^ pt.md.logDelta)) (wrap c') (sn r s * ulp c') := by
  obtain ⟨_, hal⟩ := withPt_ok2 hm
  obtain ⟨rfl, hbk, hsp⟩ := ptAlign_ok2 (show ptAlign env c.ct pt = .ok m from hal)
  obtain ⟨g1, h1, hg1, sz1, hv1⟩ := rsh_acc_step he.lo he.hi sub hc hp.wf hp.nb (ptShift c.ct pt) c.md.logBudget
  obtain ⟨g', h2, hg, sz, hv⟩ := normalize_assign_step he.lo he.hi hg1 c.md.logBudget
  refine ⟨⟨g', c.md⟩, ?_, by simp [DCt.ct, sz, sz1], hg, fun s t ht => ?_⟩
  · simp only [dAddPtAssign, withMeta_ok _ _ _ hm, h1, h2, Core.Ops.bind]
    rfl
  · have := (hv s t ht).trans (hv1 s t ht)
    rw [zero_add, hg1.ulp_eq hg sz.symm] at this
    have hP : env.base2k * pt.size + ptShift c.ct pt = c.md.logBudget + pt.md.logDelta := by
      have : pt.maxK = env.base2k * pt.size := by rw [Pt.maxK, hbk, Nat.mul_comm]
      simp only [DCt.ct] at hsp ⊢
      omega
    rw [dec_pt _ _ _ _ hP] at this
    simpa [decC, wrap, ulp] using this

/-- **`ckks_add_pt_vec_znx_into` / `ckks_sub_pt_vec_znx_into`**, no contract: aligned copy of `a`, then the
plaintext; at most two roundings -/
theorem dAddPtInto_sem {env : Env} (he : EnvOK env) {N r : Nat} {dst a : DCt} (hd : DOK env N r dst) (ha : DOK env N r a)
    (sub : Bool) {pt : Pt} {pg : Col} (hp : PtOK env N pt pg) {m : Ct}
    (hm : withPt env pt dst.ct (addPtZnxInto env dst.ct a.ct pt) = .ok m) :
    ∃ c', dAddPtInto env N sub dst a pt pg = .ok c' ∧ c'.ct = m ∧ DOK env N r c' ∧
      ∀ s t, t < N → Near (decC s c' t)
        (decC s a t + sg sub * ((valCoeff env.base2k pg t : ℚ) / 2 ^ pt.md.logDelta)) (wrap c') (2 * sn r s * ulp c') := by
  obtain ⟨hbld, hal⟩ := withPt_ok2 hm
  -- the two metadata steps
  have hsplit : ∃ m1, shiftInto env dst.ct a.ct 0 = .ok m1 ∧ ptAlign env m1 pt = .ok m := by
    simp only [addPtZnxInto] at hal
    cases h1 : shiftInto env dst.ct a.ct 0 with
    | ok m1 => rw [h1] at hal; exact ⟨m1, rfl, hal⟩
    | err e c => rw [h1] at hal; cases hal
    | panic p => rw [h1] at hal; cases hal
  obtain ⟨m1, hm1, hm2⟩ := hsplit
  obtain ⟨rfl, hbk, hsp⟩ := ptAlign_ok2 hm2
  have hsz1 := (shiftInto_shape hm1).1
  have hspu := unaryShift_spec env dst.ct a.ct m hm1 0
  obtain ⟨g1, h1, hg1, sz1, hv1⟩ := lsh_step he.lo he.hi hd ha.full (unaryShift env dst.ct a.ct 0)
    m.md.logBudget a.md.logBudget 0 (by simpa [DCt.ct] using hspu)
  have hmeq : (⟨m.md, g1.size⟩ : Ct) = m := by
    cases m; simp_all [DCt.ct]
  obtain ⟨g2, h2, hg2, sz2, hv2⟩ := rsh_acc_step he.lo he.hi sub hg1 hp.wf hp.nb (ptShift m pt) m.md.logBudget
  obtain ⟨g', h3, hg, sz, hv⟩ := normalize_assign_step he.lo he.hi hg2 m.md.logBudget
  have hwp : withPt env pt dst.ct (shiftInto env dst.ct a.ct 0) = .ok m := by
    unfold withPt; rw [hbld]; exact hm1
  refine ⟨⟨g', m.md⟩, ?_, ct_eq (by rw [sz, sz2, sz1, hsz1] <;> rfl), hg, fun s t ht => ?_⟩
  · simp only [dAddPtInto, withMeta_ok _ _ _ hwp, h1, Core.Ops.bind, hmeq, withMeta_ok _ _ _ hm2, hd.bk]
    have hb1 : g1.base2k = env.base2k := hg1.bk
    simp only [glweRshAcc, hb1] at h2 ⊢
    rw [h2]; simp only [Core.Ops.bind, h3]
  · have a1 := hv1 s t ht
    simp only [pow_zero, mul_one] at a1
    have a2 := hv2 s t ht
    have a3 := hv s t ht
    have hP : env.base2k * pt.size + ptShift m pt = m.md.logBudget + pt.md.logDelta := by
      have : pt.maxK = env.base2k * pt.size := by rw [Pt.maxK, hbk, Nat.mul_comm]
      omega
    rw [dec_pt _ _ _ _ hP] at a2
    have := a3.trans (a2.trans (a1.add (Near.refl _ _)))
    rw [hg1.ulp_eq hg (by rw [sz, sz2]), hg2.ulp_eq hg sz.symm] at this
    have := this.mono (by
      have h1 := sn_pos r s
      have h2 := ulpG_pos g' m.md.logBudget
      have h3 := trl_le_one env.base2k dst.g.size a.g.size (unaryShift env dst.ct a.ct 0)
      have : sn r s * trl env.base2k dst.g.size a.g.size (unaryShift env dst.ct a.ct 0) * ulpG g' m.md.logBudget
          ≤ sn r s * 1 * ulpG g' m.md.logBudget := by gcongr
      linarith : _ ≤ 2 * sn r s * ulpG g' m.md.logBudget)
    simpa [decC, wrap, ulp] using this

end Ckks
