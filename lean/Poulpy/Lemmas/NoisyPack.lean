import Poulpy.Lemmas.PackLoops
import Poulpy.Lemmas.NoisyTrace
import Mathlib.Algebra.BigOperators.Ring.Finset
import Mathlib.Algebra.Order.Field.Rat
import Mathlib.Tactic.Linarith
import Mathlib.Tactic.NormNum

/-!
Ring packing and the streaming packer **with noise**, for every subset of slots: the executed loops `Ks.mergeStep`,
`Ks.packLevel(s)`, `Ks.pack`, `Ks.trace`, `Ks.packCore`, `Ks.packerRun` of `Model/Core/Pack.lean` under a **noisy operation
contract** `Ks.NoisyOps` — the linear operations (rotate / add / sub) act exactly on the phase, the rounding operations
(`glwe_rsh(1)`, `glwe_normalize_assign`) and the three key-switching automorphisms act as their ideal meaning *up to an additive
error* whose size `ν` is bounded by the fields of a record `NoiseB`.

* `mergeStep_noisy` / `mergeStep_optPh_noisy` : one merge = `Pack.merge` of the operand phases `+ e`, `ν e ≤ mergeBound B i`.
* `packLevels_noisy` : after `L` levels slot `j` is `Pack.after … L j + err`, `ν err ≤ levelErr B L`,
  `levelErr B (L+1) = 2·levelErr B L + mergeBound B L` (`levelErr_eq_sum`: `= Σ_{i<L} 2^{L-1-i}·mergeBound B i`).
* `trace_noisy` : the executed `Ks.trace` = `traceAbs` `+ err`, `ν err ≤ Bin + traceErrBound … + Bout`.
* `pack_executed_noisy`, `pack_executed_value_noise` : the executed `glwe_pack` result has phase
  `Σ_{m∈S} X^{J_m}·u_{J_m} + err`, `ν err ≤ levelErr B L + Bt` for every subset `S` of slots.
* `packerRun_phase_total` : the exact `packerRun_phase` without the hypothesis "some arrival is present".
* `packerRun_noisy`, `packer_executed_value_noise` : the streaming packer under the noisy contract, also total.

`ν : M → ℚ` is a size function as in `Lemmas/NoisyTrace.lean` (`SizeFn`) that is moreover invariant under negation and not
increased by the rotations (`SizeFn'`): on phases, `‖·‖_∞` of the coefficient list.  All bounds (`NoiseB`, `mergeBound`,
`levelErr`, `pErr`, `traceErrBound`) are rationals: an `ℤ`-valued `ν` satisfying the halving law vanishes identically (see
`Lemmas/NoisyTrace.lean`).  `sizeFn'_model_sup`: the sup-norm of `Pack.model = ℚ[X]/(X²+1)` is an instance, a non-zero one.
-/

namespace Ks
open Hal Core

variable {M : Type*} [AddCommGroup M]

/-! ## A. size functions, bounds, the noisy contract -/

/-- a size function compatible with the projectors (`SizeFn`), the rotations and the negation -/
structure SizeFn' (c : Pack.Contract M) (ν : M → ℚ) : Prop extends SizeFn c ν where
  rot : ∀ k x, ν (c.rot k x) ≤ ν x
  neg : ∀ x, ν (-x) = ν x

theorem SizeFn'.sub {c : Pack.Contract M} {ν : M → ℚ} (h : SizeFn' c ν) (x y : M) : ν (x - y) ≤ ν x + ν y := by
  have := h.add x (-y)
  rw [h.neg, ← sub_eq_add_neg] at this
  exact this

theorem SizeFn'.merge_le {c : Pack.Contract M} {ν : M → ℚ} (h : SizeFn' c ν) (i : Nat) (x y : M) :
    ν (Pack.merge c i x y) ≤ ν x + ν y := by
  unfold Pack.merge
  have h1 := h.add (Pack.P c i x) (c.rot (c.t i) (Pack.P c i y))
  have h2 := h.rot (c.t i) (Pack.P c i y)
  have h3 := h.toSizeFn.P_le i x
  have h4 := h.toSizeFn.P_le i y
  linarith

theorem merge_add (c : Pack.Contract M) (i : Nat) (x x' y y' : M) :
    Pack.merge c i (x + x') (y + y') = Pack.merge c i x y + Pack.merge c i x' y' := by
  unfold Pack.merge
  rw [Pack.P_add, Pack.P_add, map_add]
  abel

/-- the error bounds of the rounding / key-switching operations -/
structure NoiseB where
  rsh : ℚ
  norm : ℚ
  auto : Nat → ℚ
  autoAdd : Nat → ℚ
  autoSubNeg : Nat → ℚ

/-- all bounds `0` -/
def NoiseB.zero : NoiseB := ⟨0, 0, fun _ => 0, fun _ => 0, fun _ => 0⟩

/-- **noisy operation contract**: as `IdealOps`, but `glwe_rsh(1)`, `glwe_normalize_assign` and the three automorphism
flavours hold up to an additive error of size at most the corresponding field of `B` -/
structure NoisyOps (c : Pack.Contract M) (ν : M → ℚ) (ph : Ct → M) (N : Nat) (big128 : Bool) (keyOf : Nat → Key)
    (B : NoiseB) : Prop where
  rotA : ∀ k x y, Core.Ops.glweRotateAssign N k x = .ok y → ph y = c.rot k (ph x)
  rot : ∀ k r x y, Core.Ops.glweRotate N k r x = .ok y → ph y = c.rot k (ph x)
  sub : ∀ r x y z, Core.Ops.glweSub N r x y = .ok z → ph z = ph x - ph y
  addA : ∀ x y z, Core.Ops.glweAddAssign N x y = .ok z → ph z = ph x + ph y
  subA : ∀ x y z, Core.Ops.glweSubAssign N x y = .ok z → ph z = ph x - ph y
  rsh : ∀ x y, Core.Ops.glweRsh N 0 1 x = .ok y → ∃ e, ph y = c.half (ph x) + e ∧ ν e ≤ B.rsh
  norm : ∀ x y, Core.Ops.glweNormalizeAssign N x = .ok y → ∃ e, ph y = ph x + e ∧ ν e ≤ B.norm
  auto : ∀ i x y, autoAssign big128 x (keyOf i) = .ok y → ∃ e, ph y = c.sig i (ph x) + e ∧ ν e ≤ B.auto i
  autoAdd : ∀ i x y, autoAddAssign big128 x (keyOf i) = .ok y →
    ∃ e, ph y = ph x + c.sig i (ph x) + e ∧ ν e ≤ B.autoAdd i
  autoSubNeg : ∀ i r x y, autoSubNegate big128 r x (keyOf i) = .ok y →
    ∃ e, ph y = ph x - c.sig i (ph x) + e ∧ ν e ≤ B.autoSubNeg i

/-- the exact contract is the noisy contract with all bounds `0` -/
theorem IdealOps.toNoisy {c : Pack.Contract M} {ν : M → ℚ} (hν : SizeFn c ν) {ph : Ct → M} {N : Nat} {big128 : Bool}
    {keyOf : Nat → Key} (H : IdealOps c ph N big128 keyOf) : NoisyOps c ν ph N big128 keyOf NoiseB.zero where
  rotA := H.rotA
  rot := H.rot
  sub := H.sub
  addA := H.addA
  subA := H.subA
  rsh x y h := ⟨0, by rw [H.rsh x y h, add_zero], by rw [hν.zero]; exact le_refl _⟩
  norm x y h := ⟨0, by rw [H.norm x y h, add_zero], by rw [hν.zero]; exact le_refl _⟩
  auto i x y h := ⟨0, by rw [H.auto i x y h, add_zero], by rw [hν.zero]; exact le_refl _⟩
  autoAdd i x y h := ⟨0, by rw [H.autoAdd i x y h, add_zero], by rw [hν.zero]; exact le_refl _⟩
  autoSubNeg i r x y h := ⟨0, by rw [H.autoSubNeg i r x y h, add_zero], by rw [hν.zero]; exact le_refl _⟩

/-- error bound of the "both present" path: two `rsh`, two `normalize_assign`, one automorphism -/
def bothBound (B : NoiseB) (i : Nat) : ℚ := 2 * B.rsh + 2 * B.norm + B.auto i
/-- error bound of the "only the lower slot" path: the `rsh` error `e` enters as `e + σ e`, then the fused automorphism-add -/
def loBound (B : NoiseB) (i : Nat) : ℚ := 2 * B.rsh + B.autoAdd i
/-- error bound of the "only the upper slot" path: the `rsh` error `e` enters as `e − σ e`, then the fused sub-negate -/
def hiBound (B : NoiseB) (i : Nat) : ℚ := 2 * B.rsh + B.autoSubNeg i

/-- error bound of one merge at level `i`: the maximum over the three code paths (and `0`: the all-absent path is exact) -/
def mergeBound (B : NoiseB) (i : Nat) : ℚ := max 0 (max (bothBound B i) (max (loBound B i) (hiBound B i)))

theorem mergeBound_nonneg (B : NoiseB) (i : Nat) : 0 ≤ mergeBound B i := le_max_left _ _
theorem bothBound_le (B : NoiseB) (i : Nat) : bothBound B i ≤ mergeBound B i :=
  le_trans (le_max_left _ _) (le_max_right _ _)
theorem loBound_le (B : NoiseB) (i : Nat) : loBound B i ≤ mergeBound B i :=
  le_trans (le_trans (le_max_left _ _) (le_max_right _ _)) (le_max_right _ _)
theorem hiBound_le (B : NoiseB) (i : Nat) : hiBound B i ≤ mergeBound B i :=
  le_trans (le_trans (le_max_right _ _) (le_max_right _ _)) (le_max_right _ _)

theorem mergeBound_zero (i : Nat) : mergeBound NoiseB.zero i = 0 := by
  simp [mergeBound, bothBound, loBound, hiBound, NoiseB.zero]

/-! ## B. one merge -/

/-- **both slots present, noisy** -/
theorem mergeStep_both_noisy (c : Pack.Contract M) (ν : M → ℚ) (hν : SizeFn' c ν) (ph : Ct → M) (N : Nat)
    (big128 : Bool) (keyOf : Nat → Key) (B : NoiseB) (H : NoisyOps c ν ph N big128 keyOf B) (i : Nat)
    (ht : c.t i = ((2 ^ (log2Nat N - i - 1) : Nat) : Int))
    (a b sh r : Ct) (h : mergeStep big128 N i (keyOf i) (some a) (some b) sh = .ok (some r)) :
    ∃ e, ph r = Pack.merge c i (ph a) (ph b) + e ∧ ν e ≤ bothBound B i := by
  simp only [mergeStep] at h
  obtain ⟨a1, h1, h⟩ := obind_ok h
  obtain ⟨tmp1, h2, h⟩ := obind_ok h
  obtain ⟨tmp2, h3, h⟩ := obind_ok h
  obtain ⟨a2, h4, h⟩ := obind_ok h
  obtain ⟨a3, h5, h⟩ := obind_ok h
  obtain ⟨tmp3, h6, h⟩ := obind_ok h
  obtain ⟨tmp4, h7, h⟩ := obind_ok h
  obtain ⟨a4, h8, h⟩ := obind_ok h
  obtain ⟨a5, h9, h⟩ := obind_ok h
  obtain ⟨a6, h10, h⟩ := obind_ok h
  have hr : a6 = r := by injection h with h; injection h
  subst hr
  obtain ⟨e1, p3, b3⟩ := H.rsh _ _ h3
  obtain ⟨e2, p5, b5⟩ := H.rsh _ _ h5
  obtain ⟨e3, p6, b6⟩ := H.norm _ _ h6
  obtain ⟨e4, p7, b7⟩ := H.auto i _ _ h7
  obtain ⟨e5, p9, b9⟩ := H.norm _ _ h9
  refine ⟨c.rot (c.t i) (e2 - c.sig i e1 - c.sig i e3 - e4 + e5), ?_, ?_⟩
  · rw [H.rotA _ _ _ h10, p9, H.subA _ _ _ h8, p5, H.addA _ _ _ h4, p7, p6, p3, H.sub _ _ _ _ h2, H.rotA _ _ _ h1,
      ← Pack.stepBoth_eq_merge]
    unfold Pack.stepBoth
    rw [ht]
    simp only [map_add, map_sub]
    abel
  · have g0 := hν.rot (c.t i) (e2 - c.sig i e1 - c.sig i e3 - e4 + e5)
    have g1 := hν.add (e2 - c.sig i e1 - c.sig i e3 - e4) e5
    have g2 := hν.sub (e2 - c.sig i e1 - c.sig i e3) e4
    have g3 := hν.sub (e2 - c.sig i e1) (c.sig i e3)
    have g4 := hν.sub e2 (c.sig i e1)
    have g5 := hν.sig i e1
    have g6 := hν.sig i e3
    unfold bothBound
    linarith

/-- **only the lower slot present, noisy** -/
theorem mergeStep_lo_noisy (c : Pack.Contract M) (ν : M → ℚ) (hν : SizeFn' c ν) (ph : Ct → M) (N : Nat)
    (big128 : Bool) (keyOf : Nat → Key) (B : NoiseB) (H : NoisyOps c ν ph N big128 keyOf B) (i : Nat)
    (a sh r : Ct) (h : mergeStep big128 N i (keyOf i) (some a) none sh = .ok (some r)) :
    ∃ e, ph r = Pack.merge c i (ph a) 0 + e ∧ ν e ≤ loBound B i := by
  simp only [mergeStep] at h
  obtain ⟨a1, h1, h⟩ := obind_ok h
  obtain ⟨a2, h2, h⟩ := obind_ok h
  have hr : a2 = r := by injection h with h; injection h
  subst hr
  obtain ⟨e1, p1, b1⟩ := H.rsh _ _ h1
  obtain ⟨e2, p2, b2⟩ := H.autoAdd i _ _ h2
  refine ⟨e1 + c.sig i e1 + e2, ?_, ?_⟩
  · rw [p2, p1, ← Pack.stepLo_eq_merge]
    unfold Pack.stepLo
    simp only [map_add]
    abel
  · have g1 := hν.add (e1 + c.sig i e1) e2
    have g2 := hν.add e1 (c.sig i e1)
    have g3 := hν.sig i e1
    unfold loBound
    linarith

/-- **only the upper slot present, noisy** -/
theorem mergeStep_hi_noisy (c : Pack.Contract M) (ν : M → ℚ) (hν : SizeFn' c ν) (ph : Ct → M) (N : Nat)
    (big128 : Bool) (keyOf : Nat → Key) (B : NoiseB) (H : NoisyOps c ν ph N big128 keyOf B) (i : Nat)
    (ht : c.t i = ((2 ^ (log2Nat N - i - 1) : Nat) : Int))
    (b sh r : Ct) (h : mergeStep big128 N i (keyOf i) none (some b) sh = .ok (some r)) :
    ∃ e, ph r = Pack.merge c i 0 (ph b) + e ∧ ν e ≤ hiBound B i := by
  simp only [mergeStep] at h
  obtain ⟨t1, h1, h⟩ := obind_ok h
  obtain ⟨t2, h2, h⟩ := obind_ok h
  obtain ⟨r', h3, h⟩ := obind_ok h
  have hr : r' = r := by injection h with h; injection h
  subst hr
  obtain ⟨e1, p2, b2⟩ := H.rsh _ _ h2
  obtain ⟨e2, p3, b3⟩ := H.autoSubNeg i _ _ _ h3
  refine ⟨e1 - c.sig i e1 + e2, ?_, ?_⟩
  · rw [p3, p2, H.rot _ _ _ _ h1, ← Pack.stepHi_eq_merge]
    unfold Pack.stepHi
    rw [ht]
    simp only [map_add]
    abel
  · have g1 := hν.add (e1 - c.sig i e1) e2
    have g2 := hν.sub e1 (c.sig i e1)
    have g3 := hν.sig i e1
    unfold hiBound
    linarith

/-- **`mergeStep`, noisy, all three branches**: the executed merge is `Pack.merge` of the phases (absent = `0`) up to an
error of size `≤ mergeBound B i` -/
theorem mergeStep_noisy (c : Pack.Contract M) (ν : M → ℚ) (hν : SizeFn' c ν) (ph : Ct → M) (N : Nat)
    (big128 : Bool) (keyOf : Nat → Key) (B : NoiseB) (H : NoisyOps c ν ph N big128 keyOf B) (i : Nat)
    (ht : c.t i = ((2 ^ (log2Nat N - i - 1) : Nat) : Int))
    (a b : Option Ct) (sh r : Ct) (h : mergeStep big128 N i (keyOf i) a b sh = .ok (some r)) :
    ∃ e, ph r = Pack.merge c i (optPh ph a) (optPh ph b) + e ∧ ν e ≤ mergeBound B i := by
  cases a with
  | some a =>
    cases b with
    | some b =>
      obtain ⟨e, h1, h2⟩ := mergeStep_both_noisy c ν hν ph N big128 keyOf B H i ht a b sh r h
      exact ⟨e, h1, h2.trans (bothBound_le B i)⟩
    | none =>
      obtain ⟨e, h1, h2⟩ := mergeStep_lo_noisy c ν hν ph N big128 keyOf B H i a sh r h
      exact ⟨e, h1, h2.trans (loBound_le B i)⟩
  | none =>
    cases b with
    | some b =>
      obtain ⟨e, h1, h2⟩ := mergeStep_hi_noisy c ν hν ph N big128 keyOf B H i ht b sh r h
      exact ⟨e, h1, h2.trans (hiBound_le B i)⟩
    | none =>
      simp only [mergeStep] at h
      injection h with h
      cases h

/-- the same including the all-absent case (which is exact), and the presence flag of the result -/
theorem mergeStep_optPh_noisy (c : Pack.Contract M) (ν : M → ℚ) (hν : SizeFn' c ν) (ph : Ct → M) (N : Nat)
    (big128 : Bool) (keyOf : Nat → Key) (B : NoiseB) (H : NoisyOps c ν ph N big128 keyOf B) (i : Nat)
    (ht : c.t i = ((2 ^ (log2Nat N - i - 1) : Nat) : Int))
    (a b : Option Ct) (sh : Ct) (r : Option Ct) (h : mergeStep big128 N i (keyOf i) a b sh = .ok r) :
    (∃ e, optPh ph r = Pack.merge c i (optPh ph a) (optPh ph b) + e ∧ ν e ≤ mergeBound B i) ∧
      r.isSome = (a.isSome || b.isSome) := by
  cases r with
  | none =>
    obtain ⟨ha, hb⟩ := mergeStep_none big128 N i (keyOf i) a b sh h
    subst ha hb
    exact ⟨⟨0, by simp [merge_zero_zero], by rw [hν.zero]; exact mergeBound_nonneg B i⟩, rfl⟩
  | some r =>
    refine ⟨mergeStep_noisy c ν hν ph N big128 keyOf B H i ht a b sh r h, ?_⟩
    cases a with
    | some a => rfl
    | none =>
      cases b with
      | some b => rfl
      | none =>
        simp only [mergeStep] at h
        injection h with h
        cases h

/-! ## C. the level loops -/

/-- **one level of `glwe_pack`, generic form**: whatever relation `R` the merge establishes between its operands and its
(optional) result holds between the slots `j`, `j + t` before and the slot `j` after the loop; the slots `j + t` are consumed,
every other slot is untouched.  (`packLevel_phase` is the instance `R a b r := optPh r = merge (optPh a) (optPh b)`.) -/
theorem packLevel_rel (R : Option Ct → Option Ct → Option Ct → Prop) (N : Nat) (big128 : Bool) (key : Key) (i t : Nat)
    (hR : ∀ a b sh r, mergeStep big128 N i key a b sh = .ok r → R a b r)
    (js : List Nat) (hnd : js.Nodup) (hlt : ∀ j ∈ js, j < t) (m m' : SlotMap)
    (h : packLevel big128 N i t key js m = .ok m') :
    (∀ j ∈ js, R (m.get j) (m.get (j + t)) (m'.get j)) ∧
    (∀ j ∈ js, m'.get (j + t) = none) ∧
    (∀ k, k ∉ js → (∀ j ∈ js, k ≠ j + t) → m'.get k = m.get k) := by
  induction js generalizing m with
  | nil =>
    simp only [packLevel] at h
    injection h with h
    subst h
    simp
  | cons j js ih =>
    simp only [packLevel] at h
    obtain ⟨r, hr, h⟩ := obind_ok h
    have hjt : j < t := hlt j List.mem_cons_self
    obtain ⟨hjn, hnd'⟩ := List.nodup_cons.mp hnd
    have hlt' : ∀ x ∈ js, x < t := fun x hx => hlt x (List.mem_cons_of_mem _ hx)
    have hmr := hR _ _ _ r hr
    have g2 : ∃ m2 : SlotMap, packLevel big128 N i t key js m2 = .ok m' ∧
        ∀ k, m2.get k = if k = j then r else if k = j + t then none else m.get k := by
      cases r with
      | some c =>
        refine ⟨((m.remove j).remove (j + t)).insert j c, h, fun k => ?_⟩
        simp only [SlotMap.get_insert, SlotMap.get_remove]
        by_cases h1 : k = j
        · simp [h1]
        · by_cases h2 : k = j + t <;> simp [h1, h2]
      | none =>
        refine ⟨(m.remove j).remove (j + t), h, fun k => ?_⟩
        simp only [SlotMap.get_remove]
        by_cases h1 : k = j
        · simp [h1]
        · by_cases h2 : k = j + t <;> simp [h1, h2]
    obtain ⟨m2, h2, g2⟩ := g2
    obtain ⟨I1, I2, I3⟩ := ih hnd' hlt' m2 h2
    have hj' : ∀ x ∈ js, j ≠ x + t := fun x _ => by omega
    refine ⟨?_, ?_, ?_⟩
    · intro x hx
      rcases List.mem_cons.mp hx with hx | hx
      · subst hx
        rw [I3 x hjn hj', g2, if_pos rfl]
        exact hmr
      · have hxt := hlt' x hx
        have hxj : x ≠ j := fun e => hjn (e ▸ hx)
        have := I1 x hx
        rw [g2, g2, if_neg hxj, if_neg (by omega), if_neg (by omega), if_neg (by omega)] at this
        exact this
    · intro x hx
      rcases List.mem_cons.mp hx with hx | hx
      · subst hx
        rw [I3 (x + t) (fun hm => by have := hlt' _ hm; omega)
          (fun y hy e => hjn (by have : x = y := by omega
                                 exact this ▸ hy)), g2, if_neg (by omega), if_pos rfl]
      · exact I2 x hx
    · intro k hk hk'
      have hkj : k ≠ j := fun e => hk (e ▸ List.mem_cons_self)
      have hkjt : k ≠ j + t := hk' j List.mem_cons_self
      rw [I3 k (fun hm => hk (List.mem_cons_of_mem _ hm)) (fun y hy => hk' y (List.mem_cons_of_mem _ hy)), g2,
        if_neg hkj, if_neg hkjt]

/-- **one level of `glwe_pack`, noisy** -/
theorem packLevel_noisy (c : Pack.Contract M) (ν : M → ℚ) (hν : SizeFn' c ν) (ph : Ct → M) (N : Nat)
    (big128 : Bool) (keyOf : Nat → Key) (B : NoiseB) (H : NoisyOps c ν ph N big128 keyOf B) (i t : Nat)
    (ht : c.t i = ((2 ^ (log2Nat N - i - 1) : Nat) : Int))
    (js : List Nat) (hnd : js.Nodup) (hlt : ∀ j ∈ js, j < t) (m m' : SlotMap)
    (h : packLevel big128 N i t (keyOf i) js m = .ok m') :
    (∀ j ∈ js, ∃ e, phMap ph m' j = Pack.merge c i (phMap ph m j) (phMap ph m (j + t)) + e ∧ ν e ≤ mergeBound B i) ∧
    (∀ j ∈ js, m'.get (j + t) = none) ∧
    (∀ k, k ∉ js → (∀ j ∈ js, k ≠ j + t) → m'.get k = m.get k) :=
  packLevel_rel (fun a b r => ∃ e, optPh ph r = Pack.merge c i (optPh ph a) (optPh ph b) + e ∧ ν e ≤ mergeBound B i)
    N big128 (keyOf i) i t
    (fun a b sh r hr => (mergeStep_optPh_noisy c ν hν ph N big128 keyOf B H i ht a b sh r hr).1) js hnd hlt m m' h

/-- the accumulated error after `L` packing levels: the errors of the two merged subtrees add up (the later merges do not
increase them), plus the error of the merge itself -/
def levelErr (B : NoiseB) : Nat → ℚ
  | 0 => 0
  | L + 1 => 2 * levelErr B L + mergeBound B L

@[simp] theorem levelErr_zero (B : NoiseB) : levelErr B 0 = 0 := rfl
theorem levelErr_succ (B : NoiseB) (L : Nat) : levelErr B (L + 1) = 2 * levelErr B L + mergeBound B L := rfl

theorem levelErr_nonneg (B : NoiseB) (L : Nat) : 0 ≤ levelErr B L := by
  induction L with
  | zero => exact le_refl _
  | succ L ih =>
    have := mergeBound_nonneg B L
    rw [levelErr_succ]
    linarith

/-- closed form: level `i` contributes `2^{L-1-i}` merges' worth of error to a slot after `L` levels -/
theorem levelErr_eq_sum (B : NoiseB) (L : Nat) :
    levelErr B L = ∑ i ∈ Finset.range L, 2 ^ (L - 1 - i) * mergeBound B i := by
  induction L with
  | zero => simp
  | succ L ih =>
    rw [levelErr_succ, ih, Finset.sum_range_succ, Finset.mul_sum]
    congr 1
    · refine Finset.sum_congr rfl fun i hi => ?_
      have hi' : i < L := Finset.mem_range.mp hi
      have e : L + 1 - 1 - i = (L - 1 - i) + 1 := by omega
      rw [e, pow_succ]
      ring
    · have e : L + 1 - 1 - L = 0 := by omega
      rw [e, pow_zero, one_mul]

theorem levelErr_zeroB (L : Nat) : levelErr NoiseB.zero L = 0 := by
  induction L with
  | zero => rfl
  | succ L ih => rw [levelErr_succ, ih, mergeBound_zero]; norm_num

/-- **the `L` first levels of `glwe_pack`, noisy**: slot `j < 2^(K-L)` of the executed slot map is the abstract tree
`Pack.after` on the input phases plus an error of size `≤ levelErr B L`; all the other slots have been consumed. -/
theorem packLevels_noisy (c : Pack.Contract M) (ν : M → ℚ) (hν : SizeFn' c ν) (ph : Ct → M) (N : Nat)
    (big128 : Bool) (keyOf : Nat → Key) (B : NoiseB) (H : NoisyOps c ν ph N big128 keyOf B)
    (keys : List Key) (K : Nat) (hK : log2Nat N = K) (L : Nat) (hL : L ≤ K)
    (ht : ∀ i, i < L → c.t i = ((2 ^ (K - i - 1) : Nat) : Int))
    (hkey : ∀ i, i < L → levelKey N keys i = .ok (keyOf i))
    (m m' : SlotMap) (hm : ∀ j, 2 ^ K ≤ j → m.get j = none)
    (h : packLevels big128 N keys (List.range L) m = .ok m') :
    (∀ j, j < 2 ^ (K - L) → ∃ err, phMap ph m' j = Pack.after c (fun i => 2 ^ (K - 1 - i)) (phMap ph m) L j + err ∧
      ν err ≤ levelErr B L) ∧
    (∀ j, 2 ^ (K - L) ≤ j → m'.get j = none) := by
  subst hK
  induction L generalizing m' with
  | zero =>
    simp only [List.range_zero, packLevels] at h
    injection h with h
    subst h
    exact ⟨fun j _ => ⟨0, by simp, by rw [hν.zero]; exact le_refl _⟩, fun j hj => hm j hj⟩
  | succ L ih =>
    rw [List.range_succ, packLevels_append] at h
    obtain ⟨m1, h1, h⟩ := obind_ok h
    obtain ⟨J1, J2⟩ := ih (hL := Nat.le_of_succ_le hL) (ht := fun i hi => ht i (Nat.lt_succ_of_lt hi))
      (hkey := fun i hi => hkey i (Nat.lt_succ_of_lt hi)) m1 h1
    simp only [packLevels] at h
    rw [hkey L (Nat.lt_succ_self L)] at h
    obtain ⟨key, hk, h⟩ := obind_ok h
    injection hk with hk
    subst hk
    obtain ⟨m2, h2, h⟩ := obind_ok h
    injection h with h
    subst h
    have hLK : L < log2Nat N := hL
    have e2 : 2 ^ (log2Nat N - L) = 2 ^ (log2Nat N - 1 - L) + 2 ^ (log2Nat N - 1 - L) := by
      have : log2Nat N - L = (log2Nat N - 1 - L) + 1 := by omega
      rw [this, pow_succ]
      omega
    have e3 : log2Nat N - (L + 1) = log2Nat N - 1 - L := by omega
    have htL : c.t L = ((2 ^ (log2Nat N - L - 1) : Nat) : Int) := ht L (Nat.lt_succ_self L)
    obtain ⟨P1, P2, P3⟩ := packLevel_noisy c ν hν ph N big128 keyOf B H L (2 ^ (log2Nat N - 1 - L)) htL
      (List.range (2 ^ (log2Nat N - 1 - L))) List.nodup_range (fun j hj => List.mem_range.mp hj) m1 m2 h2
    rw [e3]
    refine ⟨fun j hj => ?_, fun j hj => ?_⟩
    · obtain ⟨e, pe, be⟩ := P1 j (List.mem_range.mpr hj)
      obtain ⟨ea, pa, ba⟩ := J1 j (by omega)
      obtain ⟨eb, pb, bb⟩ := J1 (j + 2 ^ (log2Nat N - 1 - L)) (by omega)
      refine ⟨Pack.merge c L ea eb + e, ?_, ?_⟩
      · rw [pe, pa, pb, merge_add, Pack.after_succ]
        abel
      · have g1 := hν.add (Pack.merge c L ea eb) e
        have g2 := hν.merge_le L ea eb
        rw [levelErr_succ]
        linarith
    · by_cases hj2 : j < 2 ^ (log2Nat N - L)
      · have := P2 (j - 2 ^ (log2Nat N - 1 - L)) (List.mem_range.mpr (by omega))
        rwa [Nat.sub_add_cancel hj] at this
      · rw [P3 j (fun hmem => by have := List.mem_range.mp hmem; omega)
          (fun y hy => by have := List.mem_range.mp hy; omega)]
        exact J2 j (by omega)

/-! ## D. `glwe_trace` and `glwe_pack` with noise -/

/-- **`glwe_trace(res, skip, a, keys)`, executed, noisy** (`Ks.trace`): entry copy / normalize into the key radix (error
`≤ Bin`; `0` when it is a plain copy), the loop `traceLoop` over the levels `skip … K-1` (`traceLoop_noisy`: per level
`2·Br + Ba i`), exit copy / normalize (error `≤ Bout`).  `ph` = phase of the input, `phK` = phase in the key radix, `phOut` =
phase of the result.  The entry error passes through the projectors of the loop, which do not increase it. -/
theorem trace_noisy (c : Pack.Contract M) (ν : M → ℚ) (hν : SizeFn c ν) (ph phK phOut : Ct → M) (big128 : Bool)
    (keys : List Key) (keyBase2k skip rb rs K : Nat) (Br : ℚ) (Ba : Nat → ℚ) (Bin Bout : ℚ)
    (hrsh : ∀ x y, glweRsh 1 x = .ok y → ∃ e, phK y = c.half (phK x) + e ∧ ν e ≤ Br)
    (hauto : ∀ i x key p y, traceGalois x.n i = .ok p → keys.find? (fun k => k.p == p) = some key →
      automorphismFused .add big128 (zeroBuf x.n (x.rank + 1) key.size) x.base2k x.size x.rank x key = .ok y →
      (y.n = x.n ∧ ∃ e, phK y = phK x + c.sig i (phK x) + e ∧ ν e ≤ Ba i))
    (hn : ∀ x y, glweRsh 1 x = .ok y → y.n = x.n)
    (hinC : ∀ b s x, ∃ e, phK (glweCopy b s x) = ph x + e ∧ ν e ≤ Bin)
    (hinN : ∀ b s x y, glweNormalize b s x = .ok y → ∃ e, phK y = ph x + e ∧ ν e ≤ Bin)
    (houtC : ∀ b s x, ∃ e, phOut (glweCopy b s x) = phK x + e ∧ ν e ≤ Bout)
    (houtN : ∀ b s x y, glweNormalize b s x = .ok y → ∃ e, phOut y = phK x + e ∧ ν e ≤ Bout)
    (x r : Ct) (hxn : log2Nat x.n = K) (h : trace big128 keyBase2k keys skip rb rs x = .ok r) :
    ∃ err, phOut r = traceAbs c (List.range' skip (K - skip)) (ph x) + err ∧
      ν err ≤ Bin + traceErrBound Br Ba (List.range' skip (K - skip)) + Bout := by
  unfold trace at h
  simp only at h
  obtain ⟨tmp, h1, h⟩ := obind_ok h
  obtain ⟨t, h2, h⟩ := obind_ok h
  have htmp : (∃ e, phK tmp = ph x + e ∧ ν e ≤ Bin) ∧ tmp.n = x.n ∧ tmp.base2k = keyBase2k := by
    split at h1
    · injection h1 with h1
      subst h1
      exact ⟨hinC _ _ _, rfl, rfl⟩
    · exact ⟨hinN _ _ _ _ h1, (glweNormalize_shape _ _ _ _ h1).1, (glweNormalize_shape _ _ _ _ h1).2⟩
  obtain ⟨⟨ein, t1, bin⟩, t2, t3⟩ := htmp
  unfold traceAssign at h2
  simp only at h2
  split at h2
  · simp at h2
  · split at h2
    · simp at h2
    · rw [if_neg (fun hne => hne t3), t2, hxn, ← List.range'_eq_map_range] at h2
      obtain ⟨el, pl, bl⟩ := traceLoop_noisy c ν hν phK big128 keys Br Ba hrsh hauto hn _ tmp t h2
      have hout : ∃ e, phOut r = phK t + e ∧ ν e ≤ Bout := by
        split at h
        · injection h with h
          subst h
          exact houtC _ _ _
        · exact houtN _ _ _ _ h
      obtain ⟨eo, po, bo⟩ := hout
      refine ⟨traceAbs c (List.range' skip (K - skip)) ein + el + eo, ?_, ?_⟩
      · rw [po, pl, t1, traceAbs_add]
        abel
      · have g1 := hν.add (traceAbs c (List.range' skip (K - skip)) ein + el) eo
        have g2 := hν.add (traceAbs c (List.range' skip (K - skip)) ein) el
        have g3 := traceAbs_size hν (List.range' skip (K - skip)) ein
        linarith

/-- **`glwe_pack`, executed, noisy**: the phase of the result is the abstract trace over the levels `L … K-1` of the abstract
packing tree `Pack.after … L 0` over the input phases (`L = K − log_gap_out`), plus an error of size
`≤ levelErr B L + Bt`.  `htrace` is the noisy phase contract of `glwe_trace` with total bound `Bt` (`trace_noisy`:
`Bt = Bin + traceErrBound Br Ba [L, …, K-1] + Bout`), needed only for the ciphertext actually handed to the trace (slot `0` of
the executed level loop).  The error of the packing levels passes through the trace, which does not increase it
(`traceAbs_size`). -/
theorem pack_executed_noisy_at (c : Pack.Contract M) (ν : M → ℚ) (hν : SizeFn' c ν) (ph phOut : Ct → M) (N : Nat)
    (big128 : Bool) (keyOf : Nat → Key) (B : NoiseB) (H : NoisyOps c ν ph N big128 keyOf B)
    (keyBase2k : Nat) (keys : List Key) (rb rs : Nat) (K : Nat)
    (hK : log2Nat N = K) (hN : N = 2 ^ K) (logGapOut : Nat)
    (ht : ∀ i, i < K - logGapOut → c.t i = ((2 ^ (K - i - 1) : Nat) : Int))
    (hkey : ∀ i, i < K - logGapOut → levelKey N keys i = .ok (keyOf i))
    (Bt : ℚ) (a : SlotMap)
    (htrace : ∀ m x r, packLevels big128 N keys (List.range (K - logGapOut)) a = .ok m → m.get 0 = some x →
      trace big128 keyBase2k keys (K - logGapOut) rb rs x = .ok r →
      ∃ e, phOut r = traceAbs c (List.range' (K - logGapOut) (K - (K - logGapOut))) (ph x) + e ∧ ν e ≤ Bt)
    (res : Ct) (h : pack big128 N keyBase2k keys rb rs a logGapOut = .ok res) :
    ∃ err, phOut res = traceAbs c (List.range' (K - logGapOut) (K - (K - logGapOut)))
        (Pack.after c (fun i => 2 ^ (K - 1 - i)) (phMap ph a) (K - logGapOut) 0) + err ∧
      ν err ≤ levelErr B (K - logGapOut) + Bt := by
  unfold pack at h
  cases a with
  | nil => simp at h
  | cons p a =>
    simp only at h
    split at h
    · simp at h
    · rename_i hany
      rw [hK] at h
      obtain ⟨m, hm, h⟩ := obind_ok h
      have hb : ∀ j, 2 ^ K ≤ j → SlotMap.get (p :: a) j = none := fun j hj =>
        SlotMap.get_none_of_any (p :: a) N (by simpa using hany) j (hN ▸ hj)
      obtain ⟨J1, -⟩ := packLevels_noisy c ν hν ph N big128 keyOf B H keys K hK (K - logGapOut) (Nat.sub_le _ _) ht hkey
        (p :: a) m hb hm
      cases h0 : m.get 0 with
      | none => rw [h0] at h; simp at h
      | some a0 =>
        rw [h0] at h
        obtain ⟨et, pt, bt⟩ := htrace m a0 res hm h0 h
        obtain ⟨el, pl, bl⟩ := J1 0 (Nat.pos_of_ne_zero (by positivity))
        have pa : ph a0 = phMap ph m 0 := by rw [phMap, h0]; rfl
        refine ⟨traceAbs c (List.range' (K - logGapOut) (K - (K - logGapOut))) el + et, ?_, ?_⟩
        · rw [pt, pa, pl, traceAbs_add]
          abel
        · have g1 := hν.add (traceAbs c (List.range' (K - logGapOut) (K - (K - logGapOut))) el) et
          have g2 := traceAbs_size hν.toSizeFn (List.range' (K - logGapOut) (K - (K - logGapOut))) el
          linarith

/-- `pack_executed_noisy_at` with the trace contract assumed for every input (the form of `pack_executed_phase`) -/
theorem pack_executed_noisy (c : Pack.Contract M) (ν : M → ℚ) (hν : SizeFn' c ν) (ph phOut : Ct → M) (N : Nat)
    (big128 : Bool) (keyOf : Nat → Key) (B : NoiseB) (H : NoisyOps c ν ph N big128 keyOf B)
    (keyBase2k : Nat) (keys : List Key) (rb rs : Nat) (K : Nat)
    (hK : log2Nat N = K) (hN : N = 2 ^ K) (logGapOut : Nat)
    (ht : ∀ i, i < K - logGapOut → c.t i = ((2 ^ (K - i - 1) : Nat) : Int))
    (hkey : ∀ i, i < K - logGapOut → levelKey N keys i = .ok (keyOf i))
    (Bt : ℚ)
    (htrace : ∀ x r, trace big128 keyBase2k keys (K - logGapOut) rb rs x = .ok r →
      ∃ e, phOut r = traceAbs c (List.range' (K - logGapOut) (K - (K - logGapOut))) (ph x) + e ∧ ν e ≤ Bt)
    (a : SlotMap) (res : Ct) (h : pack big128 N keyBase2k keys rb rs a logGapOut = .ok res) :
    ∃ err, phOut res = traceAbs c (List.range' (K - logGapOut) (K - (K - logGapOut)))
        (Pack.after c (fun i => 2 ^ (K - 1 - i)) (phMap ph a) (K - logGapOut) 0) + err ∧
      ν err ≤ levelErr B (K - logGapOut) + Bt :=
  pack_executed_noisy_at c ν hν ph phOut N big128 keyOf B H keyBase2k keys rb rs K hK hN logGapOut ht hkey Bt a
    (fun _ x r _ _ hx => htrace x r hx) res h

/-- the abstract part of the `glwe_pack` value statement (`Pack.pack_value_decomp_subset` with poulpy's index distances) -/
theorem pack_abs_value (c : Pack.Contract M) (K logGapOut : Nat)
    (ht : ∀ i, i < K - logGapOut → c.t i = ((2 ^ (K - i - 1) : Nat) : Int))
    (f u w : Nat → M) (hf : ∀ J, f J = u J + w J)
    (hu : ∀ J i, i < K → c.sig i (u J) = u J)
    (hw : ∀ J, traceAbs c (List.range K) (w J) = 0)
    (S : Finset Nat) (hS : S ⊆ Finset.range (2 ^ (K - logGapOut)))
    (habs : ∀ m ∈ Finset.range (2 ^ (K - logGapOut)), m ∉ S →
      u (Pack.idxOff (fun i => 2 ^ (K - 1 - i)) (K - logGapOut) m) = 0) :
    traceAbs c (List.range' (K - logGapOut) (K - (K - logGapOut)))
        (Pack.after c (fun i => 2 ^ (K - 1 - i)) f (K - logGapOut) 0)
      = ∑ m ∈ S, c.rot (Pack.idxOff (fun i => 2 ^ (K - 1 - i)) (K - logGapOut) m : ℤ)
          (u (Pack.idxOff (fun i => 2 ^ (K - 1 - i)) (K - logGapOut) m)) := by
  refine Pack.pack_value_decomp_subset c _ f u w (Nat.sub_le _ _) (fun i hi => ?_) hf hu hw S hS habs
  rw [ht i hi]
  have : K - 1 - i = K - i - 1 := by omega
  rw [this]

/-- **`glwe_pack`, executed value with noise, any subset of slots**: inputs `ph (a J) = u J + w J` (absent slots: `0`),
`u J` fixed by every level, `w J` killed by the full projector ⇒ the executed result has phase
`∑ m ∈ S, X^{off m} · u (off m) + err` with `ν err ≤ levelErr B L + Bt`, `L = K − log_gap_out` (the input noise is part of
`u` / `w`: `u J` = message + the fixed part of the input noise). -/
theorem pack_executed_value_noise (c : Pack.Contract M) (ν : M → ℚ) (hν : SizeFn' c ν) (ph phOut : Ct → M) (N : Nat)
    (big128 : Bool) (keyOf : Nat → Key) (B : NoiseB) (H : NoisyOps c ν ph N big128 keyOf B)
    (keyBase2k : Nat) (keys : List Key) (rb rs : Nat) (K : Nat)
    (hK : log2Nat N = K) (hN : N = 2 ^ K) (logGapOut : Nat)
    (ht : ∀ i, i < K - logGapOut → c.t i = ((2 ^ (K - i - 1) : Nat) : Int))
    (hkey : ∀ i, i < K - logGapOut → levelKey N keys i = .ok (keyOf i))
    (Bt : ℚ)
    (htrace : ∀ x r, trace big128 keyBase2k keys (K - logGapOut) rb rs x = .ok r →
      ∃ e, phOut r = traceAbs c (List.range' (K - logGapOut) (K - (K - logGapOut))) (ph x) + e ∧ ν e ≤ Bt)
    (a : SlotMap) (res : Ct) (h : pack big128 N keyBase2k keys rb rs a logGapOut = .ok res)
    (u w : Nat → M) (hf : ∀ J, phMap ph a J = u J + w J)
    (hu : ∀ J i, i < K → c.sig i (u J) = u J)
    (hw : ∀ J, traceAbs c (List.range K) (w J) = 0)
    (S : Finset Nat) (hS : S ⊆ Finset.range (2 ^ (K - logGapOut)))
    (habs : ∀ m ∈ Finset.range (2 ^ (K - logGapOut)), m ∉ S →
      u (Pack.idxOff (fun i => 2 ^ (K - 1 - i)) (K - logGapOut) m) = 0) :
    ∃ err, phOut res = (∑ m ∈ S, c.rot (Pack.idxOff (fun i => 2 ^ (K - 1 - i)) (K - logGapOut) m : ℤ)
        (u (Pack.idxOff (fun i => 2 ^ (K - 1 - i)) (K - logGapOut) m))) + err ∧
      ν err ≤ levelErr B (K - logGapOut) + Bt := by
  obtain ⟨err, pe, be⟩ := pack_executed_noisy c ν hν ph phOut N big128 keyOf B H keyBase2k keys rb rs K hK hN logGapOut
    ht hkey Bt htrace a res h
  exact ⟨err, by rw [pe, pack_abs_value c K logGapOut ht _ u w hf hu hw S hS habs], be⟩

/-- the same with the trace contract discharged by `trace_noisy`: the total bound is
`levelErr B L + (Bin + traceErrBound Br Ba [L, …, K-1] + Bout)`.  `hshape`: the ciphertext handed to the trace (slot `0` of the
executed level loop) has ring degree `2^K` (shape preservation of the elementary operations; not part of the phase contract). -/
theorem pack_executed_value_noise' (c : Pack.Contract M) (ν : M → ℚ) (hν : SizeFn' c ν) (ph phK phOut : Ct → M) (N : Nat)
    (big128 : Bool) (keyOf : Nat → Key) (B : NoiseB) (H : NoisyOps c ν ph N big128 keyOf B)
    (keyBase2k : Nat) (keys : List Key) (rb rs : Nat) (K : Nat)
    (hK : log2Nat N = K) (hN : N = 2 ^ K) (logGapOut : Nat)
    (ht : ∀ i, i < K - logGapOut → c.t i = ((2 ^ (K - i - 1) : Nat) : Int))
    (hkey : ∀ i, i < K - logGapOut → levelKey N keys i = .ok (keyOf i))
    (Br : ℚ) (Ba : Nat → ℚ) (Bin Bout : ℚ)
    (hrsh : ∀ x y, glweRsh 1 x = .ok y → ∃ e, phK y = c.half (phK x) + e ∧ ν e ≤ Br)
    (hauto : ∀ i x key p y, traceGalois x.n i = .ok p → keys.find? (fun k => k.p == p) = some key →
      automorphismFused .add big128 (zeroBuf x.n (x.rank + 1) key.size) x.base2k x.size x.rank x key = .ok y →
      (y.n = x.n ∧ ∃ e, phK y = phK x + c.sig i (phK x) + e ∧ ν e ≤ Ba i))
    (hn : ∀ x y, glweRsh 1 x = .ok y → y.n = x.n)
    (hinC : ∀ b s x, ∃ e, phK (glweCopy b s x) = ph x + e ∧ ν e ≤ Bin)
    (hinN : ∀ b s x y, glweNormalize b s x = .ok y → ∃ e, phK y = ph x + e ∧ ν e ≤ Bin)
    (houtC : ∀ b s x, ∃ e, phOut (glweCopy b s x) = phK x + e ∧ ν e ≤ Bout)
    (houtN : ∀ b s x y, glweNormalize b s x = .ok y → ∃ e, phOut y = phK x + e ∧ ν e ≤ Bout)
    (a : SlotMap)
    (hshape : ∀ m x, packLevels big128 N keys (List.range (K - logGapOut)) a = .ok m → m.get 0 = some x →
      log2Nat x.n = K)
    (res : Ct) (h : pack big128 N keyBase2k keys rb rs a logGapOut = .ok res)
    (u w : Nat → M) (hf : ∀ J, phMap ph a J = u J + w J)
    (hu : ∀ J i, i < K → c.sig i (u J) = u J)
    (hw : ∀ J, traceAbs c (List.range K) (w J) = 0)
    (S : Finset Nat) (hS : S ⊆ Finset.range (2 ^ (K - logGapOut)))
    (habs : ∀ m ∈ Finset.range (2 ^ (K - logGapOut)), m ∉ S →
      u (Pack.idxOff (fun i => 2 ^ (K - 1 - i)) (K - logGapOut) m) = 0) :
    ∃ err, phOut res = (∑ m ∈ S, c.rot (Pack.idxOff (fun i => 2 ^ (K - 1 - i)) (K - logGapOut) m : ℤ)
        (u (Pack.idxOff (fun i => 2 ^ (K - 1 - i)) (K - logGapOut) m))) + err ∧
      ν err ≤ levelErr B (K - logGapOut) +
        (Bin + traceErrBound Br Ba (List.range' (K - logGapOut) (K - (K - logGapOut))) + Bout) := by
  obtain ⟨err, pe, be⟩ := pack_executed_noisy_at c ν hν ph phOut N big128 keyOf B H keyBase2k keys rb rs K hK hN logGapOut
    ht hkey _ a
    (fun m x r hm hx hr => trace_noisy c ν hν.toSizeFn ph phK phOut big128 keys keyBase2k (K - logGapOut) rb rs K Br Ba Bin
      Bout hrsh hauto hn hinC hinN houtC houtN x r (hshape m x hm hx) hr) res h
  exact ⟨err, by rw [pe, pack_abs_value c K logGapOut ht _ u w hf hu hw S hS habs], be⟩

/-! ## E. the streaming packer: the all-absent stream, then the noisy contract -/

/-! ### E1. no arrival present: the flush reads the freshly allocated accumulator (contract independent) -/

/-- every accumulator still holds the freshly allocated ciphertext `d0` and has never been marked as holding a value -/
def Fresh (d0 : Ct) (accs : List Acc) : Prop := ∀ acc ∈ accs, acc.data = d0 ∧ acc.value = false

/-- an absent arrival leaves a fresh chain fresh (only `control` bits move) -/
theorem packCore_none_fresh (big128 : Bool) (N : Nat) (keys : List Key) (d0 : Ct) (accs : List Acc) (i : Nat)
    (accs' : List Acc) (hf : Fresh d0 accs) (h : packCore big128 N keys accs none i = .ok accs') : Fresh d0 accs' := by
  induction accs generalizing i accs' with
  | nil =>
    simp only [packCore] at h
    split at h
    · injection h with h
      subst h
      exact hf
    · simp at h
  | cons acc rest ih =>
    have ha := hf acc List.mem_cons_self
    have hrest : Fresh d0 rest := fun x hx => hf x (List.mem_cons_of_mem _ hx)
    simp only [packCore] at h
    split at h
    · injection h with h
      subst h
      exact hf
    · split at h
      · injection h with h
        subst h
        intro x hx
        rcases List.mem_cons.mp hx with hx | hx
        · subst hx
          exact ⟨ha.1, rfl⟩
        · exact hrest x hx
      · obtain ⟨acc1, h1, h⟩ := obind_ok h
        obtain ⟨rest', h2, h⟩ := obind_ok h
        injection h with h
        subst h
        have e1 : acc1 = acc := by
          unfold combine at h1
          rw [ha.2] at h1
          simp only [Bool.false_eq_true, if_false] at h1
          injection h1 with h1
          exact h1.symm
        subst e1
        simp only [ha.2, Bool.false_eq_true, if_false] at h2
        have hr := ih (i + 1) rest' hrest h2
        intro x hx
        rcases List.mem_cons.mp hx with hx | hx
        · subst hx
          exact ⟨ha.1, ha.2⟩
        · exact hr x hx

/-- the freshly allocated accumulator of `GLWEPacker::alloc` -/
def allocCt (N base2k size rank : Nat) : Ct := mkCt base2k N (List.replicate (rank + 1) (zeroCol N size))

/-- a stream of absent arrivals leaves the chain fresh -/
theorem packerFold_fresh (big128 : Bool) (N : Nat) (keys : List Key) (accBase2k accSize rank lb : Nat)
    (inputs : Nat → Option Ct) (n : Nat) (hnone : ∀ k, k < n → inputs k = none) (pk : Packer)
    (h : packerFold big128 N keys inputs (Packer.alloc N accBase2k accSize rank lb) n = .ok pk) :
    Fresh (allocCt N accBase2k accSize rank) pk.accs := by
  induction n generalizing pk with
  | zero =>
    simp only [packerFold, List.range_zero, List.foldl_nil] at h
    injection h with h
    subst h
    intro acc hacc
    have := List.eq_of_mem_replicate hacc
    subst this
    exact ⟨rfl, rfl⟩
  | succ n ih =>
    rw [packerFold_succ] at h
    obtain ⟨p1, h1, h⟩ := obind_ok h
    have i1 := ih (fun k hk => hnone k (Nat.lt_succ_of_lt hk)) p1 h1
    unfold packerAdd at h
    split at h
    · simp at h
    · obtain ⟨accs', h2, h⟩ := obind_ok h
      injection h with h
      subst h
      rw [hnone n (Nat.lt_succ_self n)] at h2
      exact packCore_none_fresh big128 N keys _ p1.accs _ accs' i1 h2

/-- **the all-absent stream**: `glwe_packer_flush` copies / normalizes the freshly allocated (zero) accumulator -/
theorem packerRun_absent (big128 : Bool) (N : Nat) (keys : List Key) (accBase2k accSize rank lb : Nat)
    (inputs : Nat → Option Ct) (res r : Ct) (hnone : ∀ k, k < N / 2 ^ lb → inputs k = none)
    (h : packerRun big128 N keys accBase2k accSize rank lb inputs res = .ok r) :
    Core.Ops.glweCopy N res (allocCt N accBase2k accSize rank) = .ok r ∨
      Core.Ops.glweNormalize N res (allocCt N accBase2k accSize rank) = .ok r := by
  rw [packerRun_eq] at h
  obtain ⟨pk, h1, h⟩ := obind_ok h
  have hf := packerFold_fresh big128 N keys accBase2k accSize rank lb inputs _ hnone pk h1
  unfold packerFlush at h
  split at h
  · simp at h
  · cases ho : pk.accs[log2Nat N - pk.logBatch - 1]? with
    | none => rw [ho] at h; simp at h
    | some out =>
      rw [ho] at h
      simp only at h
      have hd : out.data = allocCt N accBase2k accSize rank := (hf out (List.mem_of_getElem? ho)).1
      rw [hd] at h
      split at h
      · exact Or.inl h
      · exact Or.inr h

/-- the stream value of absent arrivals is `0` -/
theorem packerVal_absent (c : Pack.Contract M) (lb : Nat) (g : Nat → M) (m : Nat) (hg : ∀ k, k < 2 ^ m → g k = 0) :
    Pack.packerVal c lb g m = 0 := by
  rw [Pack.packer_closed_form]
  refine Finset.sum_eq_zero fun k hk => ?_
  rw [hg k (Finset.mem_range.mp hk), Pack.Q_shift, traceAbs_zero, map_zero]

/-- **the streaming packer, executed, exact contract, total**: `packerRun_phase` without the hypothesis that some arrival is
present.  With no arrival at all the flush returns (a copy / normalization of) the freshly allocated accumulator, whose phase
is `0` (`hzero`) — the stream value of the empty stream. -/
theorem packerRun_phase_total (c : Pack.Contract M) (ph phOut : Ct → M) (N : Nat) (big128 : Bool) (keyOf : Nat → Key)
    (H : IdealOps c ph N big128 keyOf) (keys : List Key) (K : Nat) (hK : log2Nat N = K) (hN : N = 2 ^ K) (lb m : Nat)
    (hm : lb + m = K)
    (ht : ∀ i, i < K → c.t i = ((2 ^ (K - i - 1) : Nat) : Int))
    (hkey : ∀ i, i < K → levelKey N keys i = .ok (keyOf i))
    (hcopy : ∀ r x y, Core.Ops.glweCopy N r x = .ok y → ph y = ph x)
    (hnorm : ∀ r x y, Core.Ops.glweNormalize N r x = .ok y → ph y = ph x)
    (hcopyOut : ∀ r x y, Core.Ops.glweCopy N r x = .ok y → phOut y = ph x)
    (hnormOut : ∀ r x y, Core.Ops.glweNormalize N r x = .ok y → phOut y = ph x)
    (accBase2k accSize rank : Nat) (hzero : ph (allocCt N accBase2k accSize rank) = 0)
    (inputs : Nat → Option Ct) (res r : Ct)
    (h : packerRun big128 N keys accBase2k accSize rank lb inputs res = .ok r) :
    phOut r = Pack.packerVal c lb (fun k => optPh ph (inputs k)) m := by
  by_cases hp : ∃ k, k < 2 ^ m ∧ (inputs k).isSome = true
  · exact packerRun_phase c ph phOut N big128 keyOf H keys K hK hN lb m hm ht hkey hcopy hnorm hcopyOut hnormOut
      accBase2k accSize rank inputs res r hp h
  · have hnone : ∀ k, k < 2 ^ m → inputs k = none := by
      intro k hk
      cases hi : inputs k with
      | none => rfl
      | some x => exact absurd ⟨k, hk, by rw [hi]; rfl⟩ hp
    have hcnt : N / 2 ^ lb = 2 ^ m := by
      rw [hN, ← hm, pow_add, Nat.mul_div_cancel_left _ (Nat.pos_of_ne_zero (by positivity))]
    rw [packerVal_absent c lb _ m (fun k hk => by simp only [hnone k hk, optPh_none])]
    rcases packerRun_absent big128 N keys accBase2k accSize rank lb inputs res r (by rw [hcnt]; exact hnone) h with h' | h'
    · rw [hcopyOut _ _ _ h', hzero]
    · rw [hnormOut _ _ _ h', hzero]

/-! ### E2. the binary-counter invariant with noise -/

/-- `combine(acc, b, i)`, noisy -/
theorem combine_noisy (c : Pack.Contract M) (ν : M → ℚ) (hν : SizeFn' c ν) (ph : Ct → M) (N : Nat)
    (big128 : Bool) (keyOf : Nat → Key) (B : NoiseB) (H : NoisyOps c ν ph N big128 keyOf B) (keys : List Key) (i : Nat)
    (ht : c.t i = ((2 ^ (log2Nat N - i - 1) : Nat) : Int)) (hkey : levelKey N keys i = .ok (keyOf i))
    (acc : Acc) (b : Option Ct) (acc1 : Acc) (h : combine big128 N keys acc b i = .ok acc1) :
    (∃ e, accPh ph acc1 = Pack.merge c i (accPh ph acc) (optPh ph b) + e ∧ ν e ≤ mergeBound B i) ∧
      acc1.value = (acc.value || b.isSome) ∧ acc1.control = acc.control := by
  unfold combine at h
  cases hv : acc.value with
  | true =>
    rw [hv] at h
    have key : ∀ b : Option Ct, (obind (levelKey N keys i) fun key =>
        obind (mergeStep big128 N i key (some acc.data) b acc.data) fun r =>
          Outcome.ok { data := r.getD acc.data, value := true, control := acc.control }) = .ok acc1 →
        (∃ e, accPh ph acc1 = Pack.merge c i (accPh ph acc) (optPh ph b) + e ∧ ν e ≤ mergeBound B i) ∧
          acc1.value = (true || b.isSome) ∧ acc1.control = acc.control := by
      intro b h
      rw [hkey] at h
      obtain ⟨k, hk, h⟩ := obind_ok h
      injection hk with hk
      subst hk
      obtain ⟨r, hr, h⟩ := obind_ok h
      injection h with h
      subst h
      obtain ⟨h1, h2⟩ := mergeStep_optPh_noisy c ν hν ph N big128 keyOf B H i ht _ _ _ r hr
      cases r with
      | none => simp at h2
      | some r' =>
        refine ⟨?_, by simp, rfl⟩
        simp only [accPh, hv, if_true, Option.getD_some]
        exact h1
    cases b with
    | some x => exact key (some x) (by simpa using h)
    | none => exact key none (by simpa using h)
  | false =>
    rw [hv] at h
    cases b with
    | some x =>
      simp only [Bool.false_eq_true, if_false] at h
      rw [hkey] at h
      obtain ⟨k, hk, h⟩ := obind_ok h
      injection hk with hk
      subst hk
      obtain ⟨r, hr, h⟩ := obind_ok h
      injection h with h
      subst h
      obtain ⟨h1, h2⟩ := mergeStep_optPh_noisy c ν hν ph N big128 keyOf B H i ht _ _ _ r hr
      cases r with
      | none => simp at h2
      | some r' =>
        refine ⟨?_, by simp, rfl⟩
        simp only [accPh, hv, if_true, Option.getD_some, Bool.false_eq_true, if_false]
        exact h1
    | none =>
      simp only [Bool.false_eq_true, if_false] at h
      injection h with h
      subst h
      refine ⟨⟨0, ?_, by rw [hν.zero]; exact mergeBound_nonneg B i⟩, by simp [hv], rfl⟩
      simp [accPh, hv, merge_zero_zero]

/-- the accumulated error of a block of `2^q` arrivals entering at level `lb`: the stored operand carries the error of the
entry / carry `glwe_copy` / `glwe_normalize` (`Bc`) on top of its block error, the incoming one only its block error, plus
the merge at ring level `lb + q` -/
def pErr (B : NoiseB) (Bc : ℚ) (lb : Nat) : Nat → ℚ
  | 0 => 0
  | q + 1 => 2 * pErr B Bc lb q + Bc + mergeBound B (lb + q)

@[simp] theorem pErr_zero (B : NoiseB) (Bc : ℚ) (lb : Nat) : pErr B Bc lb 0 = 0 := rfl
theorem pErr_succ (B : NoiseB) (Bc : ℚ) (lb q : Nat) :
    pErr B Bc lb (q + 1) = 2 * pErr B Bc lb q + Bc + mergeBound B (lb + q) := rfl

theorem pErr_nonneg (B : NoiseB) (Bc : ℚ) (hBc : 0 ≤ Bc) (lb q : Nat) : 0 ≤ pErr B Bc lb q := by
  induction q with
  | zero => exact le_refl _
  | succ q ih =>
    have := mergeBound_nonneg B (lb + q)
    rw [pErr_succ]
    linarith

theorem pErr_zeroB (lb q : Nat) : pErr NoiseB.zero 0 lb q = 0 := by
  induction q with
  | zero => rfl
  | succ q ih => rw [pErr_succ, ih, mergeBound_zero]; norm_num

/-- **the binary-counter invariant, with noise** (`CInv` up to errors): a stored block of size `2^q` is within
`pErr q + Bc` of its abstract value, a merged block of size `2^(q+1)` within `pErr (q+1)` -/
def CInvN (c : Pack.Contract M) (ν : M → ℚ) (ph : Ct → M) (B : NoiseB) (Bc : ℚ) (lb : Nat) (g : Nat → M)
    (p : Nat → Bool) : Nat → Nat → List Acc → Prop
  | _, _, [] => True
  | q, n, acc :: rest =>
    acc.control = decide (n % 2 = 1) ∧
    (n % 2 = 1 → (∃ e, accPh ph acc = blk c lb g q ((n - 1) * 2 ^ q) + e ∧ ν e ≤ pErr B Bc lb q + Bc) ∧
      acc.value = presAfter p q ((n - 1) * 2 ^ q)) ∧
    (n % 2 = 0 → 0 < n → (∃ e, accPh ph acc = blk c lb g (q + 1) ((n - 2) * 2 ^ q) + e ∧ ν e ≤ pErr B Bc lb (q + 1)) ∧
      acc.value = presAfter p (q + 1) ((n - 2) * 2 ^ q)) ∧
    CInvN c ν ph B Bc lb g p (q + 1) (n / 2) rest

/-- **`pack_core`, one call = one increment of the counter, with noise** -/
theorem packCore_noisy (c : Pack.Contract M) (ν : M → ℚ) (hν : SizeFn' c ν) (ph : Ct → M) (N : Nat)
    (big128 : Bool) (keyOf : Nat → Key) (B : NoiseB) (H : NoisyOps c ν ph N big128 keyOf B)
    (keys : List Key) (K : Nat) (hK : log2Nat N = K) (lb : Nat)
    (ht : ∀ i, i < K → c.t i = ((2 ^ (K - i - 1) : Nat) : Int))
    (hkey : ∀ i, i < K → levelKey N keys i = .ok (keyOf i))
    (Bc : ℚ) (hBc : 0 ≤ Bc)
    (hcopy : ∀ r x y, Core.Ops.glweCopy N r x = .ok y → ∃ e, ph y = ph x + e ∧ ν e ≤ Bc)
    (hnorm : ∀ r x y, Core.Ops.glweNormalize N r x = .ok y → ∃ e, ph y = ph x + e ∧ ν e ≤ Bc)
    (g : Nat → M) (p : Nat → Bool)
    (accs : List Acc) (q n : Nat) (hlen : lb + q + accs.length = K) (hinv : CInvN c ν ph B Bc lb g p q n accs)
    (x : Option Ct) (hx : ∃ e, optPh ph x = blk c lb g q (n * 2 ^ q) + e ∧ ν e ≤ pErr B Bc lb q)
    (hxp : x.isSome = presAfter p q (n * 2 ^ q))
    (accs' : List Acc) (h : packCore big128 N keys accs x (lb + q) = .ok accs') :
    CInvN c ν ph B Bc lb g p q (n + 1) accs' ∧ accs'.length = accs.length := by
  subst hK
  induction accs generalizing q n x accs' with
  | nil =>
    simp only [packCore] at h
    split at h
    · injection h with h
      subst h
      exact ⟨trivial, rfl⟩
    · simp at h
  | cons acc rest ih =>
    simp only [packCore] at h
    have hne : ¬ lb + q = log2Nat N := by
      simp only [List.length_cons] at hlen
      omega
    rw [if_neg hne] at h
    obtain ⟨hc, hodd, heven, hrest⟩ := hinv
    obtain ⟨ex, px, bx⟩ := hx
    rcases Nat.mod_two_eq_zero_or_one n with hn | hn
    · -- the accumulator is free: store the arrival
      have hcf : acc.control = false := by rw [hc]; simp [hn]
      rw [hcf] at h
      simp only [Bool.not_false, if_true] at h
      have hn1 : (n + 1) % 2 = 1 := by omega
      have hn2 : (n + 1) / 2 = n / 2 := by omega
      cases x with
      | some xx =>
        simp only at h
        obtain ⟨d, hd, h⟩ := obind_ok h
        injection h with h
        subst h
        have hpd : ∃ e, ph d = ph xx + e ∧ ν e ≤ Bc := by
          split at hd
          · exact hcopy _ _ _ hd
          · exact hnorm _ _ _ hd
        obtain ⟨ec, pc, bc⟩ := hpd
        refine ⟨⟨by simp [hn1], fun _ => ⟨⟨ex + ec, ?_, ?_⟩, ?_⟩, fun h0 => by omega, by rw [hn2]; exact hrest⟩, rfl⟩
        · simp only [accPh, if_true, Nat.add_sub_cancel]
          rw [pc]
          simp only [optPh_some] at px
          rw [px]
          abel
        · have := hν.add ex ec
          linarith
        · simp only [Nat.add_sub_cancel]
          rw [← hxp]
          rfl
      | none =>
        simp only at h
        injection h with h
        subst h
        refine ⟨⟨by simp [hn1], fun _ => ⟨⟨ex, ?_, by linarith⟩, ?_⟩, fun h0 => by linarith, by rw [hn2]; exact hrest⟩, rfl⟩
        · simp only [accPh, Bool.false_eq_true, if_false, Nat.add_sub_cancel]
          rw [← px]
          rfl
        · simp only [Nat.add_sub_cancel]
          rw [← hxp]
          rfl
    · -- the accumulator is full: merge, free it, carry the merged block upwards
      have hct : acc.control = true := by rw [hc]; simp [hn]
      rw [hct] at h
      simp only [Bool.not_true, Bool.false_eq_true, if_false] at h
      obtain ⟨acc1, h1, h⟩ := obind_ok h
      obtain ⟨rest', h2, h⟩ := obind_ok h
      injection h with h
      subst h
      have hlt : lb + q < log2Nat N := by
        simp only [List.length_cons] at hlen
        omega
      have htq : c.t (lb + q) = ((2 ^ (log2Nat N - (lb + q) - 1) : Nat) : Int) := ht _ hlt
      obtain ⟨⟨em, c1, bm⟩, c2, -⟩ :=
        combine_noisy c ν hν ph N big128 keyOf B H keys (lb + q) htq (hkey _ hlt) acc x acc1 h1
      obtain ⟨⟨ea, o1, ba⟩, o2⟩ := hodd hn
      have e1 : (n - 1) * 2 ^ q + 2 ^ q = n * 2 ^ q := by
        have : n = (n - 1) + 1 := by omega
        conv_rhs => rw [this, Nat.add_mul, Nat.one_mul]
      have e2 : (n - 1) * 2 ^ q = n / 2 * 2 ^ (q + 1) := by
        have : n - 1 = n / 2 * 2 := by omega
        rw [this, pow_succ, Nat.mul_assoc, Nat.mul_comm 2 (2 ^ q)]
      have b1 : ∃ e, accPh ph acc1 = blk c lb g (q + 1) ((n - 1) * 2 ^ q) + e ∧ ν e ≤ pErr B Bc lb (q + 1) := by
        refine ⟨Pack.merge c (lb + q) ea ex + em, ?_, ?_⟩
        · rw [c1, o1, px, merge_add, blk_succ, e1, add_assoc]
        · have g1 := hν.add (Pack.merge c (lb + q) ea ex) em
          have g2 := hν.merge_le (lb + q) ea ex
          rw [pErr_succ]
          linarith
      have b2 : acc1.value = presAfter p (q + 1) ((n - 1) * 2 ^ q) := by
        rw [c2, o2, hxp]
        simp only [presAfter, e1]
      have hlen' : lb + (q + 1) + rest.length = log2Nat N := by
        simp only [List.length_cons] at hlen
        omega
      have hx' : ∃ e, optPh ph (if acc1.value = true then some acc1.data else none)
          = blk c lb g (q + 1) (n / 2 * 2 ^ (q + 1)) + e ∧ ν e ≤ pErr B Bc lb (q + 1) := by
        obtain ⟨e, pe, be⟩ := b1
        refine ⟨e, ?_, be⟩
        rw [← e2, ← pe]
        unfold accPh
        cases acc1.value <;> rfl
      have hxp' : (if acc1.value = true then some acc1.data else none).isSome
          = presAfter p (q + 1) (n / 2 * 2 ^ (q + 1)) := by
        rw [← e2, ← b2]
        cases acc1.value <;> rfl
      obtain ⟨r1, r2⟩ := ih (q + 1) (n / 2) hrest _ hx' hxp' rest' h2 hlen'
      have hn1 : (n + 1) % 2 = 0 := by omega
      have hn2 : (n + 1) / 2 = n / 2 + 1 := by omega
      have hn3 : n + 1 - 2 = n - 1 := by omega
      refine ⟨⟨by simp [hn1], fun h0 => by omega, fun _ _ => ⟨?_, ?_⟩, by rw [hn2]; exact r1⟩, by simp [r2]⟩
      · rw [hn3]
        exact b1
      · rw [hn3, ← b2]

/-- the freshly allocated chain is the counter `0` -/
theorem CInvN_replicate (c : Pack.Contract M) (ν : M → ℚ) (ph : Ct → M) (B : NoiseB) (Bc : ℚ) (lb : Nat)
    (g : Nat → M) (p : Nat → Bool) (d : Ct) (k q : Nat) :
    CInvN c ν ph B Bc lb g p q 0 (List.replicate k { data := d, value := false, control := false }) := by
  induction k generalizing q with
  | zero => trivial
  | succ k ih =>
    rw [List.replicate_succ]
    exact ⟨by simp, fun h => by omega, fun _ h => by omega, ih (q + 1)⟩

/-- reading accumulator `j` out of the noisy invariant -/
theorem CInvN_getElem (c : Pack.Contract M) (ν : M → ℚ) (ph : Ct → M) (B : NoiseB) (Bc : ℚ) (lb : Nat)
    (g : Nat → M) (p : Nat → Bool)
    (accs : List Acc) (q n j : Nat) (out : Acc) (hinv : CInvN c ν ph B Bc lb g p q n accs) (hj : accs[j]? = some out)
    (h0 : n / 2 ^ j % 2 = 0) (hpos : 0 < n / 2 ^ j) :
    (∃ e, accPh ph out = blk c lb g (q + j + 1) ((n / 2 ^ j - 2) * 2 ^ (q + j)) + e ∧ ν e ≤ pErr B Bc lb (q + j + 1)) ∧
      out.value = presAfter p (q + j + 1) ((n / 2 ^ j - 2) * 2 ^ (q + j)) := by
  induction accs generalizing q n j with
  | nil => simp at hj
  | cons acc rest ih =>
    obtain ⟨-, -, heven, hrest⟩ := hinv
    cases j with
    | zero =>
      simp only [List.getElem?_cons_zero, Option.some.injEq] at hj
      subst hj
      simp only [pow_zero, Nat.div_one, Nat.add_zero] at h0 hpos ⊢
      exact heven h0 hpos
    | succ j =>
      simp only [List.getElem?_cons_succ] at hj
      have e : n / 2 ^ (j + 1) = n / 2 / 2 ^ j := by
        rw [pow_succ', Nat.div_div_eq_div_mul]
      rw [e] at h0 hpos ⊢
      have e' : q + (j + 1) = q + 1 + j := by omega
      rw [e']
      exact ih (q + 1) (n / 2) j hrest hj h0 hpos

/-- **after `n` arrivals the accumulator chain is the binary counter `n`, with noise** -/
theorem packerFold_invN (c : Pack.Contract M) (ν : M → ℚ) (hν : SizeFn' c ν) (ph : Ct → M) (N : Nat)
    (big128 : Bool) (keyOf : Nat → Key) (B : NoiseB) (H : NoisyOps c ν ph N big128 keyOf B)
    (keys : List Key) (K : Nat) (hK : log2Nat N = K) (lb : Nat)
    (ht : ∀ i, i < K → c.t i = ((2 ^ (K - i - 1) : Nat) : Int))
    (hkey : ∀ i, i < K → levelKey N keys i = .ok (keyOf i))
    (Bc : ℚ) (hBc : 0 ≤ Bc)
    (hcopy : ∀ r x y, Core.Ops.glweCopy N r x = .ok y → ∃ e, ph y = ph x + e ∧ ν e ≤ Bc)
    (hnorm : ∀ r x y, Core.Ops.glweNormalize N r x = .ok y → ∃ e, ph y = ph x + e ∧ ν e ≤ Bc)
    (hlb : lb ≤ K) (accBase2k accSize rank : Nat) (inputs : Nat → Option Ct) (n : Nat) (pk : Packer)
    (h : packerFold big128 N keys inputs (Packer.alloc N accBase2k accSize rank lb) n = .ok pk) :
    pk.logBatch = lb ∧ pk.accs.length = K - lb ∧
      CInvN c ν ph B Bc lb (fun k => optPh ph (inputs k)) (fun k => (inputs k).isSome) 0 n pk.accs := by
  induction n generalizing pk with
  | zero =>
    simp only [packerFold, List.range_zero, List.foldl_nil] at h
    injection h with h
    subst h
    refine ⟨rfl, ?_, ?_⟩
    · simp [Packer.alloc, hK]
    · exact CInvN_replicate c ν ph B Bc lb _ _ _ _ 0
  | succ n ih =>
    rw [packerFold_succ] at h
    obtain ⟨p1, h1, h⟩ := obind_ok h
    obtain ⟨i1, i2, i3⟩ := ih p1 h1
    unfold packerAdd at h
    split at h
    · simp at h
    · obtain ⟨accs', h2, h⟩ := obind_ok h
      injection h with h
      subst h
      rw [i1] at h2
      have hlen : lb + 0 + p1.accs.length = K := by rw [i2]; omega
      obtain ⟨r1, r2⟩ := packCore_noisy c ν hν ph N big128 keyOf B H keys K hK lb ht hkey Bc hBc hcopy hnorm
        (fun k => optPh ph (inputs k)) (fun k => (inputs k).isSome) p1.accs 0 n hlen i3 (inputs n)
        ⟨0, by simp [blk_zero], by rw [hν.zero]; exact le_refl _⟩ (by simp [presAfter]) accs' h2
      exact ⟨i1, by rw [← i2]; exact r2, r1⟩

/-- **the streaming packer, executed, noisy, total**: after the `2^m = N / 2^lb` arrivals (`m = K − lb`) and
`glwe_packer_flush`, the phase of the result is the abstract stream value `Pack.packerVal` of the arrival phases (absent =
`0`) up to an error of size `≤ pErr B Bc lb m + Bout` — for **every** subset of present arrivals, the empty one included
(then the flush returns the freshly allocated accumulator, of phase `0` by `hzero`). -/
theorem packerRun_noisy (c : Pack.Contract M) (ν : M → ℚ) (hν : SizeFn' c ν) (ph phOut : Ct → M) (N : Nat)
    (big128 : Bool) (keyOf : Nat → Key) (B : NoiseB) (H : NoisyOps c ν ph N big128 keyOf B)
    (keys : List Key) (K : Nat) (hK : log2Nat N = K) (hN : N = 2 ^ K) (lb m : Nat)
    (hm : lb + m = K)
    (ht : ∀ i, i < K → c.t i = ((2 ^ (K - i - 1) : Nat) : Int))
    (hkey : ∀ i, i < K → levelKey N keys i = .ok (keyOf i))
    (Bc Bout : ℚ) (hBc : 0 ≤ Bc)
    (hcopy : ∀ r x y, Core.Ops.glweCopy N r x = .ok y → ∃ e, ph y = ph x + e ∧ ν e ≤ Bc)
    (hnorm : ∀ r x y, Core.Ops.glweNormalize N r x = .ok y → ∃ e, ph y = ph x + e ∧ ν e ≤ Bc)
    (hcopyOut : ∀ r x y, Core.Ops.glweCopy N r x = .ok y → ∃ e, phOut y = ph x + e ∧ ν e ≤ Bout)
    (hnormOut : ∀ r x y, Core.Ops.glweNormalize N r x = .ok y → ∃ e, phOut y = ph x + e ∧ ν e ≤ Bout)
    (accBase2k accSize rank : Nat) (hzero : ph (allocCt N accBase2k accSize rank) = 0)
    (inputs : Nat → Option Ct) (res r : Ct)
    (h : packerRun big128 N keys accBase2k accSize rank lb inputs res = .ok r) :
    ∃ err, phOut r = Pack.packerVal c lb (fun k => optPh ph (inputs k)) m + err ∧ ν err ≤ pErr B Bc lb m + Bout := by
  have hcnt : N / 2 ^ lb = 2 ^ m := by
    rw [hN, ← hm, pow_add, Nat.mul_div_cancel_left _ (Nat.pos_of_ne_zero (by positivity))]
  by_cases hpres : ∃ k, k < 2 ^ m ∧ (inputs k).isSome = true
  · rw [packerRun_eq] at h
    obtain ⟨pk, h1, h⟩ := obind_ok h
    rw [hcnt] at h1
    obtain ⟨i1, i2, i3⟩ := packerFold_invN c ν hν ph N big128 keyOf B H keys K hK lb ht hkey Bc hBc hcopy hnorm (by omega)
      accBase2k accSize rank inputs (2 ^ m) pk h1
    unfold packerFlush at h
    split at h
    · simp at h
    · rw [i1, hK] at h
      cases ho : pk.accs[K - lb - 1]? with
      | none => rw [ho] at h; simp at h
      | some out =>
        rw [ho] at h
        simp only at h
        have hr : ∃ e, phOut r = ph out.data + e ∧ ν e ≤ Bout := by
          split at h
          · exact hcopyOut _ _ _ h
          · exact hnormOut _ _ _ h
        obtain ⟨eo, po, bo⟩ := hr
        have hjlt : K - lb - 1 < pk.accs.length := by
          have := List.getElem?_eq_some_iff.mp ho
          exact this.1
        have hm1 : 1 ≤ m := by omega
        have ej : K - lb - 1 = m - 1 := by omega
        have e2 : 2 ^ m / 2 ^ (m - 1) = 2 := by
          have : m = (m - 1) + 1 := by omega
          conv_lhs => rw [this, pow_succ]
          exact Nat.mul_div_cancel_left _ (Nat.pos_of_ne_zero (by positivity))
        rw [ej] at ho
        obtain ⟨g1, g2⟩ := CInvN_getElem c ν ph B Bc lb _ _ pk.accs 0 (2 ^ m) (m - 1) out i3 ho (by rw [e2])
          (by rw [e2]; omega)
        rw [e2] at g1 g2
        have e3 : 0 + (m - 1) + 1 = m := by omega
        simp only [Nat.sub_self, Nat.zero_mul] at g1 g2
        rw [e3] at g1 g2
        obtain ⟨ea, pa, ba⟩ := g1
        obtain ⟨k, hk, hkp⟩ := hpres
        have hv : out.value = true := by
          rw [g2]
          exact presAfter_of_present _ m 0 k hk (by simpa using hkp)
        refine ⟨ea + eo, ?_, ?_⟩
        · rw [po, packerVal_eq_blk, ← add_assoc, ← pa, accPh, hv, if_pos rfl]
        · have := hν.add ea eo
          linarith
  · have hnone : ∀ k, k < 2 ^ m → inputs k = none := by
      intro k hk
      cases hi : inputs k with
      | none => rfl
      | some x => exact absurd ⟨k, hk, by rw [hi]; rfl⟩ hpres
    rw [packerVal_absent c lb _ m (fun k hk => by simp only [hnone k hk, optPh_none])]
    have hp := pErr_nonneg B Bc hBc lb m
    rcases packerRun_absent big128 N keys accBase2k accSize rank lb inputs res r (by rw [hcnt]; exact hnone) h with h' | h'
    · obtain ⟨e, pe, be⟩ := hcopyOut _ _ _ h'
      exact ⟨e, by rw [pe, hzero], by linarith⟩
    · obtain ⟨e, pe, be⟩ := hnormOut _ _ _ h'
      exact ⟨e, by rw [pe, hzero], by linarith⟩

/-- **the streaming packer, executed value with noise, any subset of arrivals** (the empty one included): if the projectors
of the levels `lb … K-1` map the phase of arrival `k` to its slot part `u k` (absent: `u k = 0`), the executed result has
phase `∑ k ∈ S, X^{revOff k} · u k + err`, `ν err ≤ pErr B Bc lb m + Bout`. -/
theorem packer_executed_value_noise (c : Pack.Contract M) (ν : M → ℚ) (hν : SizeFn' c ν) (ph phOut : Ct → M) (N : Nat)
    (big128 : Bool) (keyOf : Nat → Key) (B : NoiseB) (H : NoisyOps c ν ph N big128 keyOf B)
    (keys : List Key) (K : Nat) (hK : log2Nat N = K) (hN : N = 2 ^ K) (lb m : Nat)
    (hm : lb + m = K)
    (ht : ∀ i, i < K → c.t i = ((2 ^ (K - i - 1) : Nat) : Int))
    (hkey : ∀ i, i < K → levelKey N keys i = .ok (keyOf i))
    (Bc Bout : ℚ) (hBc : 0 ≤ Bc)
    (hcopy : ∀ r x y, Core.Ops.glweCopy N r x = .ok y → ∃ e, ph y = ph x + e ∧ ν e ≤ Bc)
    (hnorm : ∀ r x y, Core.Ops.glweNormalize N r x = .ok y → ∃ e, ph y = ph x + e ∧ ν e ≤ Bc)
    (hcopyOut : ∀ r x y, Core.Ops.glweCopy N r x = .ok y → ∃ e, phOut y = ph x + e ∧ ν e ≤ Bout)
    (hnormOut : ∀ r x y, Core.Ops.glweNormalize N r x = .ok y → ∃ e, phOut y = ph x + e ∧ ν e ≤ Bout)
    (accBase2k accSize rank : Nat) (hzero : ph (allocCt N accBase2k accSize rank) = 0)
    (inputs : Nat → Option Ct) (res r : Ct)
    (h : packerRun big128 N keys accBase2k accSize rank lb inputs res = .ok r)
    (u : Nat → M) (hQ : ∀ k, Pack.Q (Pack.shift c lb) m (optPh ph (inputs k)) = u k)
    (S : Finset Nat) (hS : S ⊆ Finset.range (2 ^ m)) (habs : ∀ k ∈ Finset.range (2 ^ m), k ∉ S → u k = 0) :
    ∃ err, phOut r = (∑ k ∈ S, c.rot (Pack.revOff c lb m k) (u k)) + err ∧ ν err ≤ pErr B Bc lb m + Bout := by
  obtain ⟨err, pe, be⟩ := packerRun_noisy c ν hν ph phOut N big128 keyOf B H keys K hK hN lb m hm ht hkey Bc Bout hBc
    hcopy hnorm hcopyOut hnormOut accBase2k accSize rank hzero inputs res r h
  exact ⟨err, by rw [pe, Pack.packer_value_subset c lb _ u m hQ S hS habs], be⟩

/-! ## Non-vacuity: the degenerate instance (`ν = 0`, `ph = 0`, `Pack.model`, `B = 0`) on the executed instances of
`Lemmas/PackLoops.lean` (`ex_packLevels`, `ex_pack`, `ex_packerRun`) and on an executed all-absent stream -/

theorem sizeFn'_zero : SizeFn' Pack.model (fun _ => (0 : ℚ)) where
  add := by intros; simp
  sig := by intros; simp
  half := by intros; simp
  nonneg := by intros; simp
  zero := rfl
  rot := by intros; simp
  neg := by intros; rfl

theorem noisyOps_zero (N : Nat) (big128 : Bool) (keyOf : Nat → Key) :
    NoisyOps Pack.model (fun _ => (0 : ℚ)) (fun _ => (0 : ℚ × ℚ)) N big128 keyOf NoiseB.zero :=
  (idealOps_zero N big128 keyOf).toNoisy sizeFn'_zero.toSizeFn

/-- C instantiated on the executed level loop -/
example : ∀ j, j < 2 ^ (1 - 1) → ∃ err,
    phMap (fun _ => (0 : ℚ × ℚ)) [(0, mkCt 4 2 [[[0, 1]], [[1, 2]]])] j
      = Pack.after Pack.model (fun i => 2 ^ (1 - 1 - i)) (phMap (fun _ => 0) [(0, exCt), (1, exCt)]) 1 j + err ∧
    (fun _ => (0 : ℚ)) err ≤ levelErr NoiseB.zero 1 :=
  (packLevels_noisy Pack.model (fun _ => 0) sizeFn'_zero (fun _ => 0) 2 false (fun _ => exKeyM1) NoiseB.zero
    (noisyOps_zero _ _ _) [exKeyM1] 1 rfl 1 le_rfl ex_t ex_key _ _
    (fun j hj => SlotMap.get_none_of_any _ 2 rfl j (by simpa using hj)) ex_packLevels).1

example : levelErr NoiseB.zero 1 = 0 := levelErr_zeroB 1

/-- a non-degenerate bound, evaluated: `rsh`/`normalize` error `1`, automorphism errors `10` ⇒ one merge `≤ 14`, three levels
`≤ 4·14 + 2·14 + 14` -/
example : levelErr ⟨1, 1, fun _ => 10, fun _ => 10, fun _ => 10⟩ 3 = 98 := by
  norm_num [levelErr, mergeBound, bothBound, loBound, hiBound]

/-- D instantiated on the executed `glwe_pack` (empty trace: `Bt = 0`) -/
example : ∃ err, (fun _ => (0 : ℚ × ℚ)) (mkCt 4 2 [[[0, 1]], [[1, 2]]])
    = traceAbs Pack.model (List.range' (1 - 0) (1 - (1 - 0)))
        (Pack.after Pack.model (fun i => 2 ^ (1 - 1 - i)) (phMap (fun _ => 0) [(0, exCt), (1, exCt)]) (1 - 0) 0) + err ∧
    (fun _ => (0 : ℚ)) err ≤ levelErr NoiseB.zero (1 - 0) + 0 :=
  pack_executed_noisy Pack.model (fun _ => 0) sizeFn'_zero (fun _ => 0) (fun _ => 0) 2 false (fun _ => exKeyM1) NoiseB.zero
    (noisyOps_zero _ _ _) 4 [exKeyM1] 4 1 1 rfl rfl 0 ex_t ex_key 0
    (fun _ _ _ => ⟨0, by rw [traceAbs_zero, add_zero], le_refl _⟩) _ _ ex_pack

/-- E instantiated on the executed stream with one present arrival -/
example : ∃ err, (fun _ => (0 : ℚ × ℚ)) (mkCt 4 2 [[[2, 0]], [[2, 1]]])
    = Pack.packerVal Pack.model 0 (fun k => optPh (fun _ => 0) ((fun k => if k = 0 then some exCt else none) k)) 1 + err ∧
    (fun _ => (0 : ℚ)) err ≤ pErr NoiseB.zero 0 0 1 + 0 :=
  packerRun_noisy Pack.model (fun _ => 0) sizeFn'_zero (fun _ => 0) (fun _ => 0) 2 false (fun _ => exKeyM1) NoiseB.zero
    (noisyOps_zero _ _ _) [exKeyM1] 1 rfl rfl 0 1 rfl ex_t ex_key 0 0 le_rfl
    (fun _ _ _ _ => ⟨0, (add_zero _).symm, le_refl _⟩) (fun _ _ _ _ => ⟨0, (add_zero _).symm, le_refl _⟩)
    (fun _ _ _ _ => ⟨0, (add_zero _).symm, le_refl _⟩) (fun _ _ _ _ => ⟨0, (add_zero _).symm, le_refl _⟩) 4 1 1 rfl _ _ _ ex_packerRun

/-- the all-absent stream, executed: both arrivals absent, the flush copies the freshly allocated zero accumulator -/
theorem ex_packerRun_absent :
    packerRun false 2 [exKeyM1] 4 1 1 0 (fun _ => none) (mkCt 4 2 [[[7, 7]], [[7, 7]]])
      = .ok (mkCt 4 2 [[[0, 0]], [[0, 0]]]) := rfl

/-- `packerRun_phase_total` (exact contract, no presence hypothesis) on the executed all-absent stream -/
example : (fun _ => (0 : ℚ × ℚ)) (mkCt 4 2 [[[0, 0]], [[0, 0]]])
    = Pack.packerVal Pack.model 0 (fun k => optPh (fun _ => 0) ((fun _ => none) k)) 1 :=
  packerRun_phase_total Pack.model (fun _ => 0) (fun _ => 0) 2 false (fun _ => exKeyM1) (idealOps_zero _ _ _) [exKeyM1] 1
    rfl rfl 0 1 rfl ex_t ex_key (fun _ _ _ _ => rfl) (fun _ _ _ _ => rfl) (fun _ _ _ _ => rfl) (fun _ _ _ _ => rfl) 4 1 1
    rfl _ _ _ ex_packerRun_absent

/-- `packerRun_noisy` on the executed all-absent stream -/
example : ∃ err, (fun _ => (0 : ℚ × ℚ)) (mkCt 4 2 [[[0, 0]], [[0, 0]]])
    = Pack.packerVal Pack.model 0 (fun k => optPh (fun _ => 0) ((fun _ => none) k)) 1 + err ∧
    (fun _ => (0 : ℚ)) err ≤ pErr NoiseB.zero 0 0 1 + 0 :=
  packerRun_noisy Pack.model (fun _ => 0) sizeFn'_zero (fun _ => 0) (fun _ => 0) 2 false (fun _ => exKeyM1) NoiseB.zero
    (noisyOps_zero _ _ _) [exKeyM1] 1 rfl rfl 0 1 rfl ex_t ex_key 0 0 le_rfl
    (fun _ _ _ _ => ⟨0, (add_zero _).symm, le_refl _⟩) (fun _ _ _ _ => ⟨0, (add_zero _).symm, le_refl _⟩)
    (fun _ _ _ _ => ⟨0, (add_zero _).symm, le_refl _⟩) (fun _ _ _ _ => ⟨0, (add_zero _).symm, le_refl _⟩) 4 1 1 rfl _ _ _ ex_packerRun_absent

/-! ## Non-degenerate instance: the sup-norm `Ks.supNorm (a, b) = max |a| |b|` on `Pack.model = ℚ[X]/(X²+1)` is a `SizeFn'`
(`sizeFn_model_sup` of `Lemmas/NoisyTrace.lean` + the rotations: multiplication by `X^k` is a signed coordinate permutation) -/

theorem supNorm_mulX (p : ℚ × ℚ) : supNorm (Pack.Model.mulX p) = supNorm p := by
  simp [supNorm, max_comm]

theorem supNorm_mulX_neg (p : ℚ × ℚ) : supNorm ((-Pack.Model.mulX) p) = supNorm p := by
  have h := supNorm_mulX ((-Pack.Model.mulX) p)
  rw [← h]
  simp

theorem supNorm_zsmul_mulX (k : ℤ) : ∀ p : ℚ × ℚ, supNorm ((k • Pack.Model.mulX) p) = supNorm p := by
  induction k using Int.induction_on with
  | zero => intro p; simp
  | succ i ih =>
    intro p
    rw [add_zsmul, one_zsmul, AddAut.add_apply, ih, supNorm_mulX]
  | pred i ih =>
    intro p
    rw [sub_zsmul, one_zsmul, AddAut.add_apply, ih, supNorm_mulX_neg]

/-- multiplication by `X^k`, any `k : ℤ`, preserves the sup-norm -/
theorem supNorm_rot (k : ℤ) (p : ℚ × ℚ) : supNorm (Pack.model.rot k p) = supNorm p := supNorm_zsmul_mulX k p

/-- **the sup-norm of `ℚ[X]/(X²+1)` is a `SizeFn'`**: sub-additive, not increased by `σ_i`, halved by `half`
(`supNorm_half`: `2·ν(x/2) = ν x`), preserved by every `X^k` and by negation, `ν 0 = 0` — and `ν (1/2, -3) = 3 ≠ 0` -/
theorem sizeFn'_model_sup : SizeFn' Pack.model supNorm where
  toSizeFn := sizeFn_model_sup
  rot k p := (supNorm_rot k p).le
  neg := supNorm_neg

/-- the exact contract on the zero phase, measured by the sup-norm -/
theorem noisyOps_zero_sup (N : Nat) (big128 : Bool) (keyOf : Nat → Key) :
    NoisyOps Pack.model supNorm (fun _ => (0 : ℚ × ℚ)) N big128 keyOf NoiseB.zero :=
  (idealOps_zero N big128 keyOf).toNoisy sizeFn_model_sup

/-- a merge does not amplify non-zero errors, in the sup-norm (`SizeFn'.merge_le` on the instance) -/
example (ea eb : ℚ × ℚ) : supNorm (Pack.merge Pack.model 0 ea eb) ≤ supNorm ea + supNorm eb :=
  sizeFn'_model_sup.merge_le 0 ea eb

/-- non-integer bounds, evaluated: `rsh` error `1/2`, `normalize` error `1/4`, automorphism errors `3` ⇒ one merge
`≤ max(1 + 1/2 + 3, 1 + 3, 1 + 3) = 9/2`, two levels `≤ 2·(9/2) + 9/2` -/
example : mergeBound ⟨1 / 2, 1 / 4, fun _ => 3, fun _ => 3, fun _ => 3⟩ 0 = 9 / 2 := by
  norm_num [mergeBound, bothBound, loBound, hiBound]
example : levelErr ⟨1 / 2, 1 / 4, fun _ => 3, fun _ => 3, fun _ => 3⟩ 2 = 27 / 2 := by
  norm_num [levelErr, mergeBound, bothBound, loBound, hiBound]

/-- **`mergeStep_noisy` on the non-degenerate instance, with a non-zero noise record**: for *any* phase function into
`ℚ[X]/(X²+1)` satisfying the noisy contract with `rsh` error `≤ 1/2`, `normalize` error `≤ 1/4`, automorphism errors `≤ 3` in
the sup-norm, every executed merge is `Pack.merge` of the operand phases up to an error of sup-norm `≤ 9/2` -/
example (ph : Ct → ℚ × ℚ) (N : Nat) (big128 : Bool) (keyOf : Nat → Key)
    (H : NoisyOps Pack.model supNorm ph N big128 keyOf ⟨1 / 2, 1 / 4, fun _ => 3, fun _ => 3, fun _ => 3⟩)
    (ht : Pack.model.t 0 = ((2 ^ (log2Nat N - 0 - 1) : Nat) : Int))
    (a b : Option Ct) (sh r : Ct) (h : mergeStep big128 N 0 (keyOf 0) a b sh = .ok (some r)) :
    ∃ e, ph r = Pack.merge Pack.model 0 (optPh ph a) (optPh ph b) + e ∧ supNorm e ≤ 9 / 2 := by
  obtain ⟨e, h1, h2⟩ := mergeStep_noisy Pack.model supNorm sizeFn'_model_sup ph N big128 keyOf _ H 0 ht a b sh r h
  exact ⟨e, h1, h2.trans (by norm_num [mergeBound, bothBound, loBound, hiBound])⟩

/-- **`packLevels_noisy` on the non-degenerate instance, non-zero noise record** (`N = 2`, one level): slot `0` is the abstract
tree up to an error of sup-norm `≤ levelErr B 1 = 9/2` -/
example (ph : Ct → ℚ × ℚ) (big128 : Bool) (keyOf : Nat → Key) (keys : List Key)
    (H : NoisyOps Pack.model supNorm ph 2 big128 keyOf ⟨1 / 2, 1 / 4, fun _ => 3, fun _ => 3, fun _ => 3⟩)
    (hkey : ∀ i, i < 1 → levelKey 2 keys i = .ok (keyOf i))
    (m m' : SlotMap) (hm : ∀ j, 2 ^ 1 ≤ j → m.get j = none)
    (h : packLevels big128 2 keys (List.range 1) m = .ok m') :
    ∃ err, phMap ph m' 0 = Pack.after Pack.model (fun i => 2 ^ (1 - 1 - i)) (phMap ph m) 1 0 + err ∧
      supNorm err ≤ 9 / 2 := by
  obtain ⟨err, h1, h2⟩ := (packLevels_noisy Pack.model supNorm sizeFn'_model_sup ph 2 big128 keyOf _ H keys 1 rfl 1 le_rfl
    ex_t hkey m m' hm h).1 0 (by norm_num)
  exact ⟨err, h1, h2.trans (by norm_num [levelErr, mergeBound, bothBound, loBound, hiBound])⟩

/-- the executed level loop of `ex_packLevels`, measured by the sup-norm (zero phase, zero noise record) -/
example : ∀ j, j < 2 ^ (1 - 1) → ∃ err,
    phMap (fun _ => (0 : ℚ × ℚ)) [(0, mkCt 4 2 [[[0, 1]], [[1, 2]]])] j
      = Pack.after Pack.model (fun i => 2 ^ (1 - 1 - i)) (phMap (fun _ => 0) [(0, exCt), (1, exCt)]) 1 j + err ∧
    supNorm err ≤ levelErr NoiseB.zero 1 :=
  (packLevels_noisy Pack.model supNorm sizeFn'_model_sup (fun _ => 0) 2 false (fun _ => exKeyM1) NoiseB.zero
    (noisyOps_zero_sup _ _ _) [exKeyM1] 1 rfl 1 le_rfl ex_t ex_key _ _
    (fun j hj => SlotMap.get_none_of_any _ 2 rfl j (by simpa using hj)) ex_packLevels).1

end Ks
